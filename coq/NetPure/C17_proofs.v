(* Lemmas for property C17 (bind / ephemeral ports / close / demux / routing). *)
From TV.Lib Require Import Base.
From TV.NetPure Require Import Gen Ip Sock.
Open Scope N_scope.

(* ---- decidable equalities --------------------------------------------------- *)
Lemma ip_eqb_eq a b : ip_eqb a b = true <-> a = b.
Proof.
  destruct a, b; cbn; rewrite ?N.eqb_eq; split; intros H; try discriminate; try congruence.
Qed.
Lemma ip_eqb_refl a : ip_eqb a a = true.
Proof. now apply ip_eqb_eq. Qed.
Lemma dom_eqb_eq a b : dom_eqb a b = true <-> a = b.
Proof. destruct a, b; cbn; split; congruence. Qed.
Lemma sty_eqb_eq a b : sty_eqb a b = true <-> a = b.
Proof. destruct a, b; cbn; split; congruence. Qed.
Lemma bkey_eqb_eq a b : bkey_eqb a b = true <-> a = b.
Proof.
  destruct a as [d1 t1 a1 p1], b as [d2 t2 a2 p2]. unfold bkey_eqb; cbn.
  rewrite !andb_true_iff, dom_eqb_eq, sty_eqb_eq, ip_eqb_eq, N.eqb_eq.
  split; [intros [[[-> ->] ->] ->]; reflexivity|intros [= -> -> -> ->]; auto].
Qed.
Lemma bkey_eqb_refl a : bkey_eqb a a = true.
Proof. now apply bkey_eqb_eq. Qed.
Lemma saddr_eqb_eq (a b : saddr) : saddr_eqb a b = true <-> a = b.
Proof.
  destruct a, b. unfold saddr_eqb; cbn. rewrite andb_true_iff, ip_eqb_eq, N.eqb_eq.
  split; [intros [-> ->]; reflexivity|intros [= -> ->]; auto].
Qed.
Lemma conn_key_eqb_eq a b : conn_key_eqb a b = true <-> a = b.
Proof.
  destruct a, b. unfold conn_key_eqb; cbn. rewrite andb_true_iff, !saddr_eqb_eq.
  split; [intros [-> ->]; reflexivity|intros [= -> ->]; auto].
Qed.

(* ---- conflicts, declaratively -------------------------------------------------- *)
Definition Overlap (a b : bkey) : Prop :=
  b_dom a = b_dom b /\ b_ty a = b_ty b /\ b_port a = b_port b /\
  (b_addr a = b_addr b \/ is_unspec (b_addr a) = true \/ is_unspec (b_addr b) = true).

Lemma conflicts_spec a b : conflicts a b = true <-> Overlap a b.
Proof.
  unfold conflicts, on_port, Overlap.
  rewrite !andb_true_iff, !orb_true_iff, dom_eqb_eq, sty_eqb_eq, N.eqb_eq, ip_eqb_eq. tauto.
Qed.

Definition keys (k : kern) : list bkey := map fst (k_binds k).
Definition Conflicts (k : kern) (key : bkey) : Prop := exists key', In key' (keys k) /\ Overlap key' key.
Definition addr_ok (k : kern) (a : ip) : Prop := is_unspec a = true \/ is_local_k k a = true.

Lemma existsb_conflicts k key :
  existsb (fun kb => conflicts (fst kb) key) (k_binds k) = true <-> Conflicts k key.
Proof.
  rewrite existsb_exists. unfold Conflicts, keys. split.
  - intros ([k' fds] & Hin & Hc). exists k'. split; [apply in_map_iff; exists (k', fds); auto|].
    now apply conflicts_spec.
  - intros (k' & Hin & Ho). apply in_map_iff in Hin as ([k'' fds] & <- & Hin).
    exists (k'', fds). split; auto. now apply conflicts_spec.
Qed.

(* ---- bind ------------------------------------------------------------------------ *)
Lemma bind_result k a port t : port <> 0 ->
  let key := mkkey (dom_of a) t a port in
  snd (bind k a port t) =
    if negb (is_unspec a) && negb (is_local_k k a) then inl AddrNotAvailable
    else if existsb (fun kb => conflicts (fst kb) key) (k_binds k) then inl AddrInUse
    else inr (k_nextfd k, port).
Proof.
  intros Hp key. unfold bind. destruct (negb (is_unspec a) && negb (is_local_k k a)); [reflexivity|].
  apply N.eqb_neq in Hp. rewrite Hp. fold key.
  destruct (existsb (fun kb => conflicts (fst kb) key) (k_binds k)); reflexivity.
Qed.

Lemma addr_ok_dec k a : negb (is_unspec a) && negb (is_local_k k a) = false <-> addr_ok k a.
Proof.
  unfold addr_ok. destruct (is_unspec a), (is_local_k k a); cbn; intuition discriminate.
Qed.

Lemma bind_ok_iff_lemma k a port t : port <> 0 ->
  let key := mkkey (dom_of a) t a port in
  (snd (bind k a port t) = inr (k_nextfd k, port) <-> addr_ok k a /\ ~ Conflicts k key) /\
  (snd (bind k a port t) = inl AddrNotAvailable <-> ~ addr_ok k a) /\
  (snd (bind k a port t) = inl AddrInUse <-> addr_ok k a /\ Conflicts k key) /\
  (forall r, snd (bind k a port t) = inr r -> r = (k_nextfd k, port)).
Proof.
  intros Hp key. rewrite (bind_result k a port t Hp). fold key.
  pose proof (addr_ok_dec k a) as Ha. pose proof (existsb_conflicts k key) as Hc.
  destruct (negb (is_unspec a) && negb (is_local_k k a)).
  - assert (~ addr_ok k a) by (intros H; apply Ha in H; discriminate).
    repeat split; intros; try discriminate; try tauto.
  - assert (addr_ok k a) by (now apply Ha).
    destruct (existsb (fun kb => conflicts (fst kb) key) (k_binds k)).
    + assert (Conflicts k key) by (now apply Hc).
      repeat split; intros; try discriminate; try tauto.
    + assert (~ Conflicts k key) by (intros Hx; apply Hc in Hx; discriminate).
      repeat split; intros; try discriminate; try tauto. congruence.
Qed.

(* ---- the ephemeral port allocator ----------------------------------------------------- *)
Section Alloc.
Variables lo hi start : N.
Variable in_use : N -> bool.
Hypothesis Hlo : lo <= start.
Hypothesis Hhi : start <= hi.

Definition size : N := hi - lo + 1.
(* number of steps from the cursor to p in cyclic order *)
Definition dist (p : N) : N := if start <=? p then p - start else p + size - start.
Definition next (p : N) : N := if p =? hi then lo else p + 1.
Definition inr_ (p : N) : Prop := lo <= p /\ p <= hi.

Lemma next_in p : inr_ p -> inr_ (next p).
Proof. unfold inr_, next. destruct (N.eqb_spec p hi); lia. Qed.

Lemma dist_lt p : inr_ p -> dist p < size.
Proof. unfold inr_, dist, size. destruct (N.leb_spec start p); lia. Qed.

Lemma next_start p : inr_ p -> (next p = start <-> dist p = size - 1).
Proof.
  unfold inr_, next, dist, size. destruct (N.eqb_spec p hi), (N.leb_spec start p); lia.
Qed.

Lemma dist_next p : inr_ p -> next p <> start -> dist (next p) = dist p + 1.
Proof.
  unfold inr_, next, dist, size.
  destruct (N.eqb_spec p hi), (N.leb_spec start p);
    try destruct (N.leb_spec start lo); try destruct (N.leb_spec start (p + 1)); lia.
Qed.

Lemma dist_inj p q : inr_ p -> inr_ q -> dist p = dist q -> p = q.
Proof.
  unfold inr_, dist, size. destruct (N.leb_spec start p), (N.leb_spec start q); lia.
Qed.

Lemma alloc_some fuel : forall cur p c,
  inr_ cur -> alloc_loop fuel lo hi start cur in_use = (Some p, c) ->
  inr_ p /\ in_use p = false /\ c = next p /\ dist cur <= dist p /\
  (forall q, inr_ q -> dist cur <= dist q -> dist q < dist p -> in_use q = true).
Proof.
  induction fuel as [|f IH]; intros cur p c Hc; cbn [alloc_loop]; [discriminate|].
  fold (next cur). destruct (in_use cur) eqn:Eu; cbn [negb].
  - destruct (N.eqb_spec (next cur) start) as [Es|Es]; [discriminate|].
    intros H. apply IH in H as (H1 & H2 & H3 & H4 & H5); [|now apply next_in].
    rewrite (dist_next cur Hc Es) in *.
    split; [exact H1|]. split; [exact H2|]. split; [exact H3|]. split; [lia|].
    intros q Hq Hq1 Hq2. destruct (N.eq_dec (dist q) (dist cur)) as [E|E].
    + apply dist_inj in E; auto. now subst.
    + apply H5; auto. lia.
  - intros [= <- <-]. split; [exact Hc|]. split; [exact Eu|]. split; [reflexivity|]. split; [lia|].
    intros; lia.
Qed.

Lemma alloc_none fuel : forall cur c,
  inr_ cur -> N.of_nat fuel = size - dist cur ->
  alloc_loop fuel lo hi start cur in_use = (None, c) ->
  forall q, inr_ q -> dist cur <= dist q -> in_use q = true.
Proof.
  induction fuel as [|f IH]; intros cur c Hc Hf; cbn [alloc_loop].
  - pose proof (dist_lt cur Hc). lia.
  - fold (next cur). destruct (in_use cur) eqn:Eu; cbn [negb]; [|discriminate].
    destruct (N.eqb_spec (next cur) start) as [Es|Es].
    + intros _ q Hq Hd. apply next_start in Es; auto. pose proof (dist_lt q Hq).
      assert (E : dist q = dist cur) by lia. apply dist_inj in E; auto. now subst.
    + intros H q Hq Hd. pose proof (dist_next cur Hc Es) as Hn.
      destruct (N.eq_dec (dist q) (dist cur)) as [E|E].
      * apply dist_inj in E; auto. now subst.
      * apply (IH (next cur) c); [now apply next_in|lia|exact H|exact Hq|lia].
Qed.

Lemma alloc_all_used fuel : forall cur,
  inr_ cur -> (forall q, inr_ q -> in_use q = true) ->
  fst (alloc_loop fuel lo hi start cur in_use) = None.
Proof.
  induction fuel as [|f IH]; intros cur Hc Hall; cbn [alloc_loop]; [reflexivity|].
  fold (next cur). rewrite (Hall cur Hc). cbn [negb].
  destruct (next cur =? start); [reflexivity|]. apply IH; auto. now apply next_in.
Qed.

Lemma dist_start : dist start = 0.
Proof. unfold dist. destruct (N.leb_spec start start); lia. Qed.

Lemma allocate_spec :
  match allocate lo hi start in_use with
  | (Some p, c) => inr_ p /\ in_use p = false /\ c = next p /\
                   (forall q, inr_ q -> dist q < dist p -> in_use q = true)
  | (None, _) => forall q, inr_ q -> in_use q = true
  end.
Proof.
  unfold allocate. assert (Hs : inr_ start) by (split; assumption).
  destruct (alloc_loop (N.to_nat (hi - lo + 1)) lo hi start start in_use) as [[p|] c] eqn:E.
  - apply alloc_some in E as (H1 & H2 & H3 & H4 & H5); auto.
    split; [exact H1|]. split; [exact H2|]. split; [exact H3|]. intros q Hq Hd. apply H5; auto. rewrite dist_start. lia.
  - intros q Hq. apply (alloc_none (N.to_nat (hi - lo + 1)) start c Hs); [|exact E|exact Hq|].
    + rewrite dist_start, N2Nat.id. unfold size. lia.
    + rewrite dist_start. lia.
Qed.

Lemma allocate_none_iff :
  fst (allocate lo hi start in_use) = None <-> (forall q, inr_ q -> in_use q = true).
Proof.
  split.
  - intros H. pose proof allocate_spec as S. destruct (allocate lo hi start in_use) as [[p|] c]; [discriminate|exact S].
  - intros H. unfold allocate. apply alloc_all_used; auto. split; assumption.
Qed.
End Alloc.

(* ---- port 0 ----------------------------------------------------------------------------- *)
Definition cursor_ok (k : kern) : Prop := eph_lo <= k_cursor k /\ k_cursor k <= eph_hi.
Definition port_free (k : kern) (d : dom) (t : sty) (p : N) : Prop :=
  forall key, In key (keys k) -> ~ (b_dom key = d /\ b_ty key = t /\ b_port key = p).

Lemma in_use_port_spec k d t p : in_use_port k d t p = false <-> port_free k d t p.
Proof.
  unfold in_use_port, port_free, keys. split.
  - intros H key Hin (H1 & H2 & H3). apply in_map_iff in Hin as ([k' fds] & <- & Hin).
    assert (existsb (fun kb => on_port d t p (fst kb)) (k_binds k) = true); [|congruence].
    apply existsb_exists. exists (k', fds). split; auto. unfold on_port. cbn in *.
    rewrite H1, H2, H3. destruct d, t; cbn; now rewrite N.eqb_refl.
  - intros H. apply not_true_is_false. intros Hx. apply existsb_exists in Hx as ([k' fds] & Hin & Ho).
    unfold on_port in Ho. cbn in Ho. apply andb_true_iff in Ho as [Ho H3]. apply andb_true_iff in Ho as [H1 H2].
    apply (H k'); [apply in_map_iff; exists (k', fds); auto|].
    apply dom_eqb_eq in H1. apply sty_eqb_eq in H2. apply N.eqb_eq in H3. auto.
Qed.

Lemma port_free_no_conflict k a t p :
  port_free k (dom_of a) t p -> ~ Conflicts k (mkkey (dom_of a) t a p).
Proof.
  intros Hf (key' & Hin & (H1 & H2 & H3 & _)). cbn in *. apply (Hf key' Hin). auto.
Qed.

Lemma alloc_loop_cursor fuel lo hi start in_use : forall cur,
  lo <= cur <= hi -> lo <= snd (alloc_loop fuel lo hi start cur in_use) <= hi.
Proof.
  induction fuel as [|f IH]; intros cur Hc; cbn [alloc_loop]; [exact Hc|].
  assert (Hn : lo <= (if cur =? hi then lo else cur + 1) <= hi) by (destruct (N.eqb_spec cur hi); lia).
  destruct (in_use cur); cbn [negb]; [|exact Hn].
  destruct ((if cur =? hi then lo else cur + 1) =? start); [exact Hn|]. now apply IH.
Qed.

Lemma eph_range : eph_lo <= eph_hi.
Proof. vm_compute. discriminate. Qed.

Lemma allocate_cursor lo hi cur in_use :
  lo <= cur <= hi -> lo <= snd (allocate lo hi cur in_use) <= hi.
Proof. intros H. unfold allocate. now apply alloc_loop_cursor. Qed.

Lemma bind_port0_lemma k a t : cursor_ok k ->
  let d := dom_of a in
  match snd (bind k a 0 t) with
  | inr (fd, p) => addr_ok k a /\ fd = k_nextfd k /\ eph_lo <= p /\ p <= eph_hi /\ port_free k d t p
  | inl AddrNotAvailable => ~ addr_ok k a
  | inl AddrInUse => addr_ok k a /\ forall p, eph_lo <= p -> p <= eph_hi -> ~ port_free k d t p
  end /\ cursor_ok (fst (bind k a 0 t)).
Proof.
  intros [C1 C2] d. unfold bind. pose proof (addr_ok_dec k a) as Ha.
  destruct (negb (is_unspec a) && negb (is_local_k k a)).
  - cbn [fst snd]. split; [|split; assumption]. intros H. apply Ha in H. discriminate.
  - assert (Hok : addr_ok k a) by (now apply Ha). change (0 =? 0) with true. cbv iota.
    unfold allocate_port. fold d.
    pose proof (allocate_spec eph_lo eph_hi (k_cursor k) (in_use_port k d t) C1 C2) as S.
    pose proof (allocate_cursor eph_lo eph_hi (k_cursor k) (in_use_port k d t) (conj C1 C2)) as Hcur.
    destruct (allocate eph_lo eph_hi (k_cursor k) (in_use_port k d t)) as [[p|] c]; cbn [snd] in Hcur.
    + destruct S as ([P1 P2] & Hfree & _ & _). apply in_use_port_spec in Hfree.
      assert (Hnc : existsb (fun kb => conflicts (fst kb) (mkkey d t a p)) (k_binds (set_cursor k c)) = false).
      { apply not_true_is_false. intros Hx. apply (existsb_conflicts (set_cursor k c)) in Hx.
        revert Hx. apply (port_free_no_conflict (set_cursor k c) a t p). exact Hfree. }
      rewrite Hnc. cbn [fst snd insert_sock upd set_socks insert_binding set_binds k_cursor set_cursor k_nextfd].
      split; [|split; apply Hcur]. split; [exact Hok|]. split; [reflexivity|]. split; [exact P1|]. split; [exact P2|exact Hfree].
    + cbn [fst snd set_cursor k_cursor]. split; [split; [exact Hok|]|split; apply Hcur].
      intros p P1 P2 Hf. apply in_use_port_spec in Hf.
      rewrite (S p (conj P1 P2)) in Hf. discriminate.
Qed.

(* ---- close / remove -------------------------------------------------------------------------- *)
Lemma find_binds_in (l : list (bkey * list N)) key fd :
  In fd (find_binds l key) -> exists fds, In (key, fds) l /\ In fd fds.
Proof.
  induction l as [|[k' fds] l IH]; cbn; [intros []|].
  destruct (bkey_eqb k' key) eqn:E.
  - apply bkey_eqb_eq in E. subst. intros H. exists fds. split; [now left|exact H].
  - intros H. apply IH in H as (fds' & H1 & H2). exists fds'. split; [now right|exact H2].
Qed.

Lemma remove_binds_no_fd k fd key : ~ In fd (find_by_bind (remove k fd) key).
Proof.
  unfold find_by_bind. cbn [remove k_binds]. intros H. apply find_binds_in in H as (fds & H1 & H2).
  apply filter_In in H1 as [H1 _]. apply in_map_iff in H1 as ([k' fds'] & E & _). cbn in E.
  inversion E; subst. unfold drop_fd in H2. apply filter_In in H2 as [_ H2].
  rewrite N.eqb_refl in H2. discriminate.
Qed.

Lemma remove_no_empty k fd : forall key fds, In (key, fds) (k_binds (remove k fd)) -> fds <> [].
Proof.
  intros key fds H. cbn [remove k_binds] in H. apply filter_In in H as [_ H]. cbn in H.
  destruct fds; [discriminate|discriminate].
Qed.

Lemma get_sock_filter l fd fd' :
  get_sock (filter (fun fs => negb (fst fs =? fd)) l) fd' = if fd' =? fd then None else get_sock l fd'.
Proof.
  induction l as [|[f s] l IH]; cbn; [now destruct (fd' =? fd)|].
  destruct (f =? fd) eqn:E1; cbn.
  - rewrite IH. apply N.eqb_eq in E1. subst f. destruct (fd' =? fd) eqn:E2; [reflexivity|].
    rewrite N.eqb_sym, E2. reflexivity.
  - destruct (f =? fd') eqn:E3.
    + apply N.eqb_eq in E3. subst f. now rewrite E1.
    + exact IH.
Qed.

Lemma remove_get k fd fd' : get (remove k fd) fd' = if fd' =? fd then None else get k fd'.
Proof. unfold get. cbn [remove k_socks]. apply get_sock_filter. Qed.

Lemma remove_conns k fd local remote : find_connection (remove k fd) local remote <> Some fd.
Proof.
  unfold find_connection. cbn [remove k_conns].
  induction (k_conns k) as [|[[l r] f] cs IH]; cbn; [discriminate|].
  destruct (N.eqb_spec f fd) as [->|Hne]; cbn; [exact IH|].
  destruct (conn_key_eqb (l, r) (local, remote)); [congruence|exact IH].
Qed.


(* ---- the binding index is a map: keys unique, no empty groups ------------------------------ *)
Definition binds_wf (l : list (bkey * list N)) : Prop :=
  NoDup (map fst l) /\ Forall (fun kb => snd kb <> []) l.

Lemma find_binds_unique l key fds : NoDup (map fst l) -> In (key, fds) l -> find_binds l key = fds.
Proof.
  induction l as [|[k' f] l IH]; cbn; [intros _ []|].
  intros Hn [H|H]; inversion Hn as [|? ? Hx Hl]; subst.
  - inversion H; subst. now rewrite bkey_eqb_refl.
  - destruct (bkey_eqb k' key) eqn:E; [|now apply IH].
    apply bkey_eqb_eq in E. subst. exfalso. apply Hx. apply in_map_iff. exists (key, fds). auto.
Qed.

Lemma find_binds_none l key : ~ In key (map fst l) -> find_binds l key = [].
Proof.
  induction l as [|[k' f] l IH]; cbn; [reflexivity|].
  intros H. destruct (bkey_eqb k' key) eqn:E; [apply bkey_eqb_eq in E; subst; tauto|]. apply IH. tauto.
Qed.

Lemma find_binds_nonempty_key l key : find_binds l key <> [] -> In key (map fst l).
Proof.
  intros H. destruct (in_dec (fun a b => match bool_dec (bkey_eqb a b) true with
                                       | left e => left (proj1 (bkey_eqb_eq a b) e)
                                       | right n => right (fun e => n (proj2 (bkey_eqb_eq a b) e)) end)
                             key (map fst l)) as [Hi|Hn]; [exact Hi|].
  now rewrite find_binds_none in H.
Qed.

Definition removed_binds (fd : N) (l : list (bkey * list N)) : list (bkey * list N) :=
  filter (fun kb => nonempty (snd kb)) (map (fun kb => (fst kb, drop_fd fd (snd kb))) l).

Lemma removed_binds_keys fd l : incl (map fst (removed_binds fd l)) (map fst l).
Proof.
  intros x Hx. apply in_map_iff in Hx as ([k' f] & <- & Hin). apply filter_In in Hin as [Hin _].
  apply in_map_iff in Hin as ([k2 f2] & E & Hin). cbn in E. injection E as <- _.
  apply in_map_iff. exists (k2, f2). auto.
Qed.

Lemma NoDup_map_filter {A B} (f : A -> B) g l : NoDup (map f l) -> NoDup (map f (filter g l)).
Proof.
  induction l as [|x l IH]; cbn; [constructor|]. intros Hn. inversion Hn as [|? ? Hx Hl]; subst.
  destruct (g x); cbn; [constructor|]; auto.
  intros Hin. apply Hx. apply in_map_iff in Hin as (y & E & Hy). apply filter_In in Hy as [Hy _].
  apply in_map_iff. eauto.
Qed.

Lemma removed_binds_wf fd l : NoDup (map fst l) -> binds_wf (removed_binds fd l).
Proof.
  intros Hn. split.
  - unfold removed_binds. apply NoDup_map_filter. rewrite map_map. cbn. exact Hn.
  - apply Forall_forall. intros [k' f] Hin. apply filter_In in Hin as [_ H]. cbn in *.
    destruct f; [discriminate|discriminate].
Qed.

Lemma removed_binds_find fd l key : NoDup (map fst l) ->
  find_binds (removed_binds fd l) key = drop_fd fd (find_binds l key).
Proof.
  induction l as [|[k' f] l IH]; [reflexivity|].
  intros Hn. inversion Hn as [|? ? Hx Hl]; subst.
  unfold removed_binds. cbn [map filter fst snd]. fold (removed_binds fd l).
  destruct (nonempty (drop_fd fd f)) eqn:En; cbn [find_binds].
  - destruct (bkey_eqb k' key) eqn:E; [reflexivity|now apply IH].
  - destruct (bkey_eqb k' key) eqn:E; [|now apply IH].
    destruct (drop_fd fd f); [|discriminate]. apply bkey_eqb_eq in E. subst k'.
    apply find_binds_none. intros Hin. apply Hx, (removed_binds_keys fd l), Hin.
Qed.

Lemma remove_find_by_bind k fd key : NoDup (map fst (k_binds k)) ->
  find_by_bind (remove k fd) key = drop_fd fd (find_by_bind k key).
Proof. intros H. unfold find_by_bind. cbn [remove k_binds]. now apply removed_binds_find. Qed.

Lemma remove_other_bindings k fd fd' key : NoDup (map fst (k_binds k)) -> fd' <> fd ->
  (In fd' (find_by_bind (remove k fd) key) <-> In fd' (find_by_bind k key)).
Proof.
  intros Hn Hne. rewrite remove_find_by_bind by exact Hn. unfold drop_fd. rewrite filter_In.
  apply N.eqb_neq in Hne. rewrite Hne. cbn. tauto.
Qed.

Lemma remove_sole_owner_frees k fd key : NoDup (map fst (k_binds k)) ->
  find_by_bind k key = [fd] -> ~ In key (keys (remove k fd)).
Proof.
  intros Hn Hs Hin. unfold keys in Hin. cbn [remove k_binds] in Hin. fold (removed_binds fd (k_binds k)) in Hin.
  apply in_map_iff in Hin as ([k' f] & E & Hin). cbn in E. subst k'.
  destruct (removed_binds_wf fd (k_binds k) Hn) as [Hn' Hne].
  pose proof (find_binds_unique _ _ _ Hn' Hin) as Hf.
  rewrite removed_binds_find in Hf by exact Hn. unfold find_by_bind in Hs. rewrite Hs in Hf.
  cbn in Hf. rewrite N.eqb_refl in Hf. cbn in Hf. subst f.
  rewrite Forall_forall in Hne. apply (Hne _ Hin). reflexivity.
Qed.

(* ---- UDP demux ------------------------------------------------------------------------------ *)
Lemma get_upd k fd f fd' :
  get (upd k fd f) fd' = if fd' =? fd then option_map f (get k fd') else get k fd'.
Proof.
  unfold get, upd. cbn [set_socks k_socks].
  induction (k_socks k) as [|[x s] l IH]; cbn; [now destruct (fd' =? fd)|].
  destruct (x =? fd) eqn:E1; cbn.
  - apply N.eqb_eq in E1. subst x. destruct (fd =? fd') eqn:E2.
    + apply N.eqb_eq in E2. subst fd'. now rewrite N.eqb_refl.
    + rewrite IH. reflexivity.
  - destruct (x =? fd') eqn:E2.
    + apply N.eqb_eq in E2. subst x. now rewrite E1.
    + exact IH.
Qed.

Lemma udp_target_spec k p :
  let d := dom_of (p_dst p) in
  let exact := find_by_bind k (mkkey d Dgram (p_dst p) (p_dport p)) in
  let wild := find_by_bind k (mkkey d Dgram (unspec_like (p_dst p)) (p_dport p)) in
  udp_target k p = match hd_error exact with Some fd => Some fd | None => hd_error wild end.
Proof.
  cbn zeta. unfold udp_target.
  destruct (find_by_bind k (mkkey (dom_of (p_dst p)) Dgram (p_dst p) (p_dport p))); [|reflexivity].
  destruct (find_by_bind k (mkkey (dom_of (p_dst p)) Dgram (unspec_like (p_dst p)) (p_dport p))); reflexivity.
Qed.

Lemma udp_deliver_frame k p :
  k_binds (udp_deliver k p) = k_binds k /\ k_conns (udp_deliver k p) = k_conns k /\
  k_out (udp_deliver k p) = k_out k /\ k_cursor (udp_deliver k p) = k_cursor k /\
  (forall fd', udp_target k p <> Some fd' -> get (udp_deliver k p) fd' = get k fd').
Proof.
  unfold udp_deliver. destruct (udp_target k p) as [fd|]; [|repeat split; reflexivity].
  destruct (get k fd) as [s|] eqn:G; [|repeat split; reflexivity].
  destruct (peer_ok s (p_src p, p_sport p)); [|repeat split; reflexivity].
  repeat split; try reflexivity. intros fd' Hne. rewrite get_upd.
  destruct (fd' =? fd) eqn:E; [|reflexivity]. apply N.eqb_eq in E. subst. congruence.
Qed.

Lemma udp_deliver_target k p fd s :
  udp_target k p = Some fd -> get k fd = Some s ->
  get (udp_deliver k p) fd =
    Some (if peer_ok s (p_src p, p_sport p)
          then sk_queue s (s_queue s ++ [((p_src p, p_sport p), p_id p)]) else s).
Proof.
  intros Ht G. unfold udp_deliver. rewrite Ht, G.
  destruct (peer_ok s (p_src p, p_sport p)); [|exact G].
  rewrite get_upd, N.eqb_refl, G. reflexivity.
Qed.

Lemma udp_deliver_no_target k p : udp_target k p = None -> udp_deliver k p = k.
Proof. intros H. unfold udp_deliver. now rewrite H. Qed.

(* ---- TCP demux ------------------------------------------------------------------------------ *)
Lemma find_listener_spec k local l :
  find_listener k local = Some l ->
  is_listening k l = true /\
  let d := dom_of (fst local) in
  (In l (find_by_bind k (mkkey d Stream (fst local) (snd local))) \/
   (In l (find_by_bind k (mkkey d Stream (unspec_like (fst local)) (snd local))) /\
    forall x, In x (find_by_bind k (mkkey d Stream (fst local) (snd local))) -> is_listening k x = false)).
Proof.
  unfold find_listener.
  destruct (find (is_listening k) (find_by_bind k (mkkey (dom_of (fst local)) Stream (fst local) (snd local)))) as [x|] eqn:E1.
  - intros [= <-]. apply find_some in E1 as [H1 H2]. split; [exact H2|]. now left.
  - intros E2. apply find_some in E2 as [H1 H2]. split; [exact H2|]. right. split; [exact H1|].
    intros x Hx. apply (find_none _ _ E1 x Hx).
Qed.

Lemma find_listener_none k local :
  find_listener k local = None ->
  let d := dom_of (fst local) in
  forall x, In x (find_by_bind k (mkkey d Stream (fst local) (snd local)) ++
                  find_by_bind k (mkkey d Stream (unspec_like (fst local)) (snd local))) ->
            is_listening k x = false.
Proof.
  unfold find_listener.
  destruct (find (is_listening k) (find_by_bind k (mkkey (dom_of (fst local)) Stream (fst local) (snd local)))) as [x|] eqn:E1;
    [discriminate|].
  intros E2 x Hx. apply in_app_or in Hx as [Hx|Hx]; [apply (find_none _ _ E1 x Hx)|apply (find_none _ _ E2 x Hx)].
Qed.

Lemma tcp_demux_spec k p :
  let local := (p_dst p, p_dport p) in
  let remote := (p_src p, p_sport p) in
  let bare_syn := has (p_flags p) F_SYN && negb (has (p_flags p) F_ACK) in
  match tcp_demux k p with
  | ToConn fd => find_connection k local remote = Some fd
  | ToListener l => find_connection k local remote = None /\ bare_syn = true /\ find_listener k local = Some l
  | ReplyRst => find_connection k local remote = None /\
                ((bare_syn = true /\ find_listener k local = None) \/
                 (bare_syn = false /\ has (p_flags p) F_RST = false))
  | Silent => find_connection k local remote = None /\ bare_syn = false /\ has (p_flags p) F_RST = true
  end.
Proof.
  cbn zeta. unfold tcp_demux.
  destruct (find_connection k (p_dst p, p_dport p) (p_src p, p_sport p)); [reflexivity|].
  destruct (has (p_flags p) F_SYN && negb (has (p_flags p) F_ACK)).
  - destruct (find_listener k (p_dst p, p_dport p)); auto.
  - destruct (has (p_flags p) F_RST); cbn; auto.
Qed.

(* ---- the fabric ----------------------------------------------------------------------------- *)
Lemma route_from_spec hs a : forall i j,
  route_from i hs a = Some j ->
  (i <= j)%nat /\ exists k, nth_error hs (j - i) = Some k /\ mem_ip a (k_addrs k) = true.
Proof.
  induction hs as [|k r IH]; intros i j; cbn; [discriminate|].
  destruct (mem_ip a (k_addrs k)) eqn:E.
  - intros [= <-]. split; [lia|]. exists k. rewrite Nat.sub_diag. auto.
  - intros H. apply IH in H as (H1 & k' & H2 & H3). split; [lia|]. exists k'. split; [|exact H3].
    replace (j - i)%nat with (S (j - S i)) by lia. exact H2.
Qed.

Lemma route_from_none hs a : forall i,
  route_from i hs a = None -> forall k, In k hs -> mem_ip a (k_addrs k) = false.
Proof.
  induction hs as [|k r IH]; intros i; cbn; [intros _ k []|].
  destruct (mem_ip a (k_addrs k)) eqn:E; [discriminate|].
  intros H k' [<-|Hk]; [exact E|]. eapply IH; eauto.
Qed.

Lemma upd_nth_other {A} (l : list A) i f j : i <> j -> nth_error (upd_nth l i f) j = nth_error l j.
Proof.
  revert i j. induction l as [|x r IH]; intros i j Hne; destruct i, j; cbn; try reflexivity; try congruence.
  apply IH. congruence.
Qed.

Lemma upd_nth_same {A} (l : list A) i f : nth_error (upd_nth l i f) i = option_map f (nth_error l i).
Proof. revert i. induction l as [|x r IH]; intros i; destruct i; cbn; auto. Qed.

Lemma upd_nth_length {A} (l : list A) i f : length (upd_nth l i f) = length l.
Proof. revert i. induction l as [|x r IH]; intros i; destruct i; cbn; auto. Qed.

Lemma fdeliver_spec hs p :
  length (fdeliver hs p) = length hs /\
  match route hs (p_dst p) with
  | Some i => (exists k, nth_error hs i = Some k /\ mem_ip (p_dst p) (k_addrs k) = true /\
                         nth_error (fdeliver hs p) i = Some (kdeliver k p)) /\
              (forall j, j <> i -> nth_error (fdeliver hs p) j = nth_error hs j)
  | None => fdeliver hs p = hs /\ forall k, In k hs -> mem_ip (p_dst p) (k_addrs k) = false
  end.
Proof.
  unfold fdeliver, route. destruct (route_from 0 hs (p_dst p)) as [i|] eqn:E.
  - split; [apply upd_nth_length|]. apply route_from_spec in E as (_ & k & H1 & H2).
    rewrite Nat.sub_0_r in H1. split.
    + exists k. split; [exact H1|]. split; [exact H2|]. now rewrite upd_nth_same, H1.
    + intros j Hj. apply upd_nth_other. congruence.
  - split; [reflexivity|]. split; [reflexivity|]. eapply route_from_none; eauto.
Qed.

(* ---- egress: nothing local leaves ------------------------------------------------------------- *)
Ltac break_match :=
  repeat match goal with
         | |- context [match ?x with _ => _ end] => destruct x eqn:?
         | |- context [if ?x then _ else _] => destruct x eqn:?
         end.

Lemma upd_addrs k fd f : k_addrs (upd k fd f) = k_addrs k. Proof. reflexivity. Qed.
Lemma emit_addrs k s d f t : k_addrs (emit k s d f t) = k_addrs k. Proof. reflexivity. Qed.
Lemma remove_addrs k fd : k_addrs (remove k fd) = k_addrs k. Proof. reflexivity. Qed.

Lemma push_to_listener_addrs k c l : k_addrs (push_to_listener k c l) = k_addrs k.
Proof. unfold push_to_listener. destruct (find_listener k l); reflexivity. Qed.

Lemma accept_syn_addrs k l a b : k_addrs (accept_syn k l a b) = k_addrs k.
Proof.
  unfold accept_syn, insert_sock. destruct (get k l) as [s|]; [|reflexivity].
  destruct (s_listen s) as [[bl rd]|]; [|reflexivity].
  destruct (bl <=? count_children k l a + N.of_nat (length rd)); reflexivity.
Qed.

Lemma conn_deliver_addrs k fd a b p : k_addrs (conn_deliver k fd a b p) = k_addrs k.
Proof.
  unfold conn_deliver. break_match; try reflexivity; rewrite ?emit_addrs, ?push_to_listener_addrs; reflexivity.
Qed.

Lemma kdeliver_addrs k p : k_addrs (kdeliver k p) = k_addrs k.
Proof.
  unfold kdeliver, udp_deliver, tcp_deliver, emit_rst.
  break_match; try reflexivity; rewrite ?conn_deliver_addrs, ?accept_syn_addrs; reflexivity.
Qed.

Lemma egress_pass_spec drained : forall k,
  k_addrs (fst (egress_pass k drained)) = k_addrs k /\
  snd (egress_pass k drained) = filter (fun p => negb (is_local (k_addrs k) (p_dst p))) drained.
Proof.
  induction drained as [|p r IH]; intros k; cbn [egress_pass filter]; [split; reflexivity|].
  unfold is_local_k. destruct (is_local (k_addrs k) (p_dst p)) eqn:E; cbn [negb].
  - destruct (IH (kdeliver k p)) as [H1 H2]. rewrite kdeliver_addrs in *. split; assumption.
  - destruct (IH k) as [H1 H2]. destruct (egress_pass k r) as [k' o]. cbn in *. split; [exact H1|now rewrite H2].
Qed.

Lemma egress_loop_spec fuel : forall k,
  k_addrs (fst (egress_loop fuel k)) = k_addrs k /\
  Forall (fun p => is_local (k_addrs k) (p_dst p) = false) (snd (egress_loop fuel k)).
Proof.
  induction fuel as [|f IH]; intros k; cbn [egress_loop]; [split; [reflexivity|constructor]|].
  destruct (k_out k) as [|p0 l0] eqn:E; [split; [reflexivity|constructor]|].
  destruct (egress_pass_spec (p0 :: l0) (set_out k [])) as [H1 H2].
  destruct (egress_pass (set_out k []) (p0 :: l0)) as [k1 o]. cbn [fst snd] in *.
  destruct (IH k1) as [H3 H4]. destruct (egress_loop f k1) as [k2 o']. cbn [fst snd] in *.
  change (k_addrs (set_out k [])) with (k_addrs k) in *.
  split; [congruence|]. apply Forall_app; split.
  - rewrite H2. apply Forall_forall. intros x Hx. apply filter_In in Hx as [_ Hx]. now apply negb_true_iff in Hx.
  - rewrite H1 in H4. exact H4.
Qed.

Lemma kegress_nonlocal fuel k :
  Forall (fun p => is_local (k_addrs k) (p_dst p) = false) (snd (kegress_k fuel k)).
Proof.
  unfold kegress_k. destruct (egress_loop_spec fuel k) as [_ H].
  destruct (egress_loop fuel k) as [k1 o]. exact H.
Qed.

(* ======================================================================== *)
(* The binding index describes exactly the live sockets (every reachable state) *)
(* ======================================================================== *)
Definition sock_wf (k : kern) : Prop :=
  NoDup (map fst (k_socks k)) /\
  Forall (fun fs => fst fs < k_nextfd k) (k_socks k) /\
  binds_wf (k_binds k) /\
  (forall key fd, In fd (find_by_bind k key) <-> exists s, get k fd = Some s /\ s_bound s = Some key) /\
  cursor_ok k.

Lemma get_sock_in l fd s : NoDup (map fst l) -> (get_sock l fd = Some s <-> In (fd, s) l).
Proof.
  induction l as [|[f x] l IH]; cbn; [intros _; split; [discriminate|intros []]|].
  intros Hn. inversion Hn as [|? ? Hx Hl]; subst. destruct (f =? fd) eqn:E.
  - apply N.eqb_eq in E. subst f. split.
    + intros [= ->]. now left.
    + intros [H|H]; [congruence|]. exfalso. apply Hx. apply in_map_iff. exists (fd, s). auto.
  - rewrite IH by exact Hl. split; [tauto|]. intros [H|H]; [|exact H].
    inversion H; subst. rewrite N.eqb_refl in E. discriminate.
Qed.

Lemma get_none_fresh k fd : Forall (fun fs => fst fs < k_nextfd k) (k_socks k) -> k_nextfd k <= fd -> get k fd = None.
Proof.
  unfold get. intros H Hle. induction (k_socks k) as [|[f s] l IH]; cbn; [reflexivity|].
  inversion H as [|? ? H1 H2]; subst. cbn in H1.
  destruct (f =? fd) eqn:E; [apply N.eqb_eq in E; lia|]. now apply IH.
Qed.

Lemma kern0_wf addrs : sock_wf (kern0 addrs).
Proof.
  unfold sock_wf, kern0; cbn. split; [constructor|]. split; [constructor|].
  split; [split; constructor|]. split.
  - intros key fd. unfold find_by_bind, get; cbn. split; [intros []|intros (s & H & _); discriminate].
  - split; [apply N.le_refl|apply eph_range].
Qed.

(* updates that keep s_bound *)
Lemma wf_upd k fd f : (forall s, s_bound (f s) = s_bound s) -> sock_wf k -> sock_wf (upd k fd f).
Proof.
  intros Hf (H1 & H2 & H3 & H4 & H5). unfold sock_wf.
  assert (Em : map fst (k_socks (upd k fd f)) = map fst (k_socks k)).
  { unfold upd; cbn. rewrite map_map. apply map_ext. intros [x s]; cbn. destruct (x =? fd); reflexivity. }
  split; [now rewrite Em|]. split.
  - unfold upd; cbn. apply Forall_forall. intros [x s] Hin. apply in_map_iff in Hin as ([y t] & E & Hin).
    rewrite Forall_forall in H2. specialize (H2 _ Hin). cbn in *. destruct (y =? fd); inversion E; subst; exact H2.
  - split; [exact H3|]. split; [|exact H5].
    intros key fd'. change (find_by_bind (upd k fd f) key) with (find_by_bind k key). rewrite H4, get_upd.
    destruct (fd' =? fd); [|reflexivity]. split.
    + intros (s & G & B). exists (f s). rewrite G, Hf. auto.
    + intros (s & G & B). destruct (get k fd') as [s0|]; [|discriminate]. cbn in G. inversion G; subst.
      exists s0. rewrite Hf in B. auto.
Qed.

(* changes outside sockets / bindings / cursor *)
Lemma wf_same k k' :
  k_socks k' = k_socks k -> k_nextfd k' = k_nextfd k -> k_binds k' = k_binds k -> k_cursor k' = k_cursor k ->
  sock_wf k -> sock_wf k'.
Proof.
  intros E1 E2 E3 E4 (H1 & H2 & H3 & H4 & H5). unfold sock_wf, get, find_by_bind, cursor_ok in *.
  rewrite E1, E2, E3, E4. auto.
Qed.

Lemma wf_set_cursor k c : eph_lo <= c -> c <= eph_hi -> sock_wf k -> sock_wf (set_cursor k c).
Proof.
  intros C1 C2 (H1 & H2 & H3 & H4 & _). unfold sock_wf.
  split; [exact H1|]. split; [exact H2|]. split; [exact H3|]. split; [exact H4|]. split; assumption.
Qed.

Lemma Forall_filter' {A} (Q : A -> Prop) f l : Forall Q l -> Forall Q (filter f l).
Proof. rewrite !Forall_forall. intros H x Hx. apply filter_In in Hx. apply H. tauto. Qed.

Lemma wf_remove k fd : sock_wf k -> sock_wf (remove k fd).
Proof.
  intros (H1 & H2 & [H3 H3'] & H4 & H5). unfold sock_wf.
  split; [cbn [remove k_socks]; now apply NoDup_map_filter|]. split.
  - cbn [remove k_socks k_nextfd]. now apply Forall_filter'.
  - split; [cbn [remove k_binds]; now apply removed_binds_wf|]. split; [|exact H5].
    intros key fd'. rewrite remove_find_by_bind by exact H3. unfold drop_fd. rewrite filter_In, H4, remove_get.
    destruct (fd' =? fd) eqn:E; cbn.
    + split; [intros [_ Hx]; discriminate|intros (s & Hx & _); discriminate].
    + tauto.
Qed.

Lemma find_binds_add l key fd key' :
  find_binds (add_binding l key fd) key' =
    if bkey_eqb key key' then find_binds l key' ++ [fd] else find_binds l key'.
Proof.
  induction l as [|[k0 fds] l IH]; cbn.
  - destruct (bkey_eqb key key'); reflexivity.
  - destruct (bkey_eqb k0 key) eqn:E1; cbn.
    + apply bkey_eqb_eq in E1. subst k0. destruct (bkey_eqb key key'); reflexivity.
    + destruct (bkey_eqb k0 key') eqn:E2; [|exact IH].
      destruct (bkey_eqb key key') eqn:E3; [|reflexivity].
      apply bkey_eqb_eq in E2, E3. subst. rewrite bkey_eqb_refl in E1. discriminate.
Qed.

Lemma add_binding_keys l key fd :
  map fst (add_binding l key fd) = if existsb (fun kb => bkey_eqb (fst kb) key) l then map fst l else map fst l ++ [key].
Proof.
  induction l as [|[k0 fds] l IH]; cbn; [reflexivity|].
  destruct (bkey_eqb k0 key) eqn:E; cbn; [reflexivity|]. rewrite IH.
  destruct (existsb (fun kb => bkey_eqb (fst kb) key) l); reflexivity.
Qed.

Lemma add_binding_wf l key fd : binds_wf l -> binds_wf (add_binding l key fd).
Proof.
  intros [Hn Hne]. split.
  - rewrite add_binding_keys. destruct (existsb (fun kb => bkey_eqb (fst kb) key) l) eqn:E; [exact Hn|].
    apply NoDup_app_iff. repeat split; auto; [repeat constructor; intros []|].
    intros x Hx [<-|[]]. assert (existsb (fun kb => bkey_eqb (fst kb) key) l = true); [|congruence].
    apply in_map_iff in Hx as ([k0 f] & E0 & Hin). apply existsb_exists. exists (k0, f). split; auto.
    cbn in *. subst. apply bkey_eqb_refl.
  - induction l as [|[k0 fds] l IH]; cbn; [repeat constructor; discriminate|].
    inversion Hne as [|? ? A B]; subst. inversion Hn; subst.
    destruct (bkey_eqb k0 key); constructor; auto; cbn in *. destruct fds; discriminate.
Qed.

Lemma get_sock_app_fresh l fd s0 x : ~ In fd (map fst l) ->
  get_sock (l ++ [(fd, s0)]) x = if x =? fd then Some s0 else get_sock l x.
Proof.
  induction l as [|[y t] l IH]; cbn; intros Hf.
  - rewrite N.eqb_sym. reflexivity.
  - destruct (y =? x) eqn:E.
    + apply N.eqb_eq in E. subst y. destruct (x =? fd) eqn:E2; [|reflexivity].
      apply N.eqb_eq in E2. subst x. exfalso. apply Hf. now left.
    + apply IH. intros Hin. apply Hf. now right.
Qed.

(* a fresh socket bound to key: the three steps of bind / auto_bind / accept_syn *)
Lemma wf_new k s0 key (g : sock -> sock) :
  s_bound s0 = None -> (forall s, s_bound (g s) = Some key) ->
  sock_wf k ->
  sock_wf (upd (insert_binding (fst (insert_sock k s0)) key (k_nextfd k)) (k_nextfd k) g).
Proof.
  intros Hb Hg (H1 & H2 & H3 & H4 & H5). set (fd := k_nextfd k).
  assert (Hfresh : ~ In fd (map fst (k_socks k))).
  { intros Hin. apply in_map_iff in Hin as ([x s] & E & Hin). rewrite Forall_forall in H2.
    specialize (H2 _ Hin). cbn in *. subst x. unfold fd in H2. lia. }
  assert (G0 : get k fd = None) by (apply get_none_fresh; [exact H2|apply N.le_refl]).
  unfold sock_wf.
  assert (Em : map fst (k_socks (upd (insert_binding (fst (insert_sock k s0)) key fd) fd g)) = map fst (k_socks k) ++ [fd]).
  { unfold upd, insert_binding, insert_sock; cbn. rewrite map_map, map_app. cbn. fold fd.
    rewrite N.eqb_refl. cbn. f_equal. apply map_ext.
    intros [x s]; cbn. destruct (x =? fd); reflexivity. }
  split; [rewrite Em; apply NoDup_app_iff; repeat split; auto; [repeat constructor; intros []|intros x Hx [<-|[]]; tauto]|].
  split.
  - unfold upd, insert_binding, insert_sock; cbn. apply Forall_forall. intros [x s] Hin.
    apply in_map_iff in Hin as ([y t] & E & Hin). apply in_app_or in Hin as [Hin|[Hin|[]]].
    + rewrite Forall_forall in H2. specialize (H2 _ Hin). cbn in *.
      destruct (y =? fd); inversion E; subst; unfold fd; lia.
    + inversion Hin; subst. cbn in E. rewrite N.eqb_refl in E. inversion E; subst. cbn. unfold fd. lia.
  - split; [apply add_binding_wf, H3|]. split; [|exact H5].
    intros key' fd'.
    change (find_by_bind (upd (insert_binding (fst (insert_sock k s0)) key fd) fd g) key')
      with (find_binds (add_binding (k_binds k) key fd) key').
    rewrite find_binds_add, get_upd.
    assert (Gi : forall x, get (insert_binding (fst (insert_sock k s0)) key fd) x = if x =? fd then Some s0 else get k x).
    { intros x. unfold get, insert_binding, insert_sock; cbn. fold fd. now apply get_sock_app_fresh. }
    rewrite Gi. destruct (fd' =? fd) eqn:E.
    + apply N.eqb_eq in E. subst fd'. cbn. split.
      * intros Hin. exists (g s0). split; [reflexivity|]. rewrite Hg.
        destruct (bkey_eqb key key') eqn:Ek; [apply bkey_eqb_eq in Ek; now subst|].
        fold (find_by_bind k key') in Hin. apply H4 in Hin as (s & Gs & _). congruence.
      * intros (s & [= <-] & B). rewrite Hg in B. inversion B; subst. rewrite bkey_eqb_refl.
        apply in_or_app. right. now left.
    + fold (find_by_bind k key'). rewrite <- H4. destruct (bkey_eqb key key'); [|reflexivity].
      rewrite in_app_iff. cbn. apply N.eqb_neq in E. intuition congruence.
Qed.

(* ---- every kernel operation keeps the table well-formed -------------------------------------- *)
Lemma wf_emit k s d f t : sock_wf k -> sock_wf (emit k s d f t).
Proof. apply wf_same; reflexivity. Qed.
Lemma wf_set_out k o : sock_wf k -> sock_wf (set_out k o).
Proof. apply wf_same; reflexivity. Qed.
Lemma wf_insert_conn k l r fd : sock_wf k -> sock_wf (insert_conn k l r fd).
Proof. apply wf_same; reflexivity. Qed.
Lemma wf_set_bad k : sock_wf k -> sock_wf (set_bad k).
Proof. apply wf_same; reflexivity. Qed.
Lemma wf_set_tcb k fd f : sock_wf k -> sock_wf (set_tcb k fd f).
Proof. apply wf_upd. intros s. destruct (s_tcb s); reflexivity. Qed.

Lemma wf_insert_unbound k s0 : s_bound s0 = None -> sock_wf k -> sock_wf (fst (insert_sock k s0)).
Proof.
  intros Hb (H1 & H2 & H3 & H4 & H5). set (fd := k_nextfd k).
  assert (Hfresh : ~ In fd (map fst (k_socks k))).
  { intros Hin. apply in_map_iff in Hin as ([x s] & E & Hin). rewrite Forall_forall in H2.
    specialize (H2 _ Hin). cbn in *. subst x. unfold fd in H2. lia. }
  unfold sock_wf, insert_sock; cbn. fold fd. rewrite map_app. cbn.
  split; [apply NoDup_app_iff; repeat split; auto; [repeat constructor; intros []|intros x Hx [<-|[]]; tauto]|].
  split.
  - apply Forall_app; split; [|repeat constructor; cbn; lia].
    eapply Forall_impl; [|exact H2]. cbn. intros; lia.
  - split; [exact H3|]. split; [|exact H5]. intros key fd'.
    fold (find_by_bind k key). rewrite H4.
    rewrite get_sock_app_fresh by exact Hfresh. fold (get k fd'). destruct (fd' =? fd) eqn:E; [|reflexivity].
    apply N.eqb_eq in E. subst fd'. split.
    + intros (s & G & _). rewrite (get_none_fresh k fd H2 (N.le_refl _)) in G. discriminate.
    + intros (s & [= <-] & B). congruence.
Qed.

(* keep the 16384-step fuel of the allocator folded from here on *)
Opaque allocate.

Lemma wf_allocate_port k d t : sock_wf k -> sock_wf (snd (allocate_port k d t)).
Proof.
  intros H. unfold allocate_port. destruct H as (H1 & H2 & H3 & H4 & [C1 C2]).
  pose proof (allocate_cursor eph_lo eph_hi (k_cursor k) (in_use_port k d t) (conj C1 C2)) as Hc.
  destruct (allocate eph_lo eph_hi (k_cursor k) (in_use_port k d t)) as [r c]. cbn in *.
  apply wf_set_cursor; [apply Hc|apply Hc|].
  split; [exact H1|]. split; [exact H2|]. split; [exact H3|]. split; [exact H4|]. split; assumption.
Qed.

Lemma wf_bind k a port t : sock_wf k -> sock_wf (fst (bind k a port t)).
Proof.
  intros H. unfold bind. destruct (negb (is_unspec a) && negb (is_local_k k a)); [exact H|].
  assert (H1 : sock_wf (snd (if port =? 0 then allocate_port k (dom_of a) t else (Some port, k)))).
  { destruct (port =? 0); [now apply wf_allocate_port|exact H]. }
  destruct (if port =? 0 then allocate_port k (dom_of a) t else (Some port, k)) as [po k1]. cbn [snd] in H1.
  destruct po as [p|]; [|exact H1].
  destruct (existsb (fun kb => conflicts (fst kb) (mkkey (dom_of a) t a p)) (k_binds k1)); [exact H1|].
  cbn [fst]. apply (wf_new k1 (sock0 (dom_of a) t) (mkkey (dom_of a) t a p)); auto.
Qed.

Lemma wf_listen k fd : sock_wf k -> sock_wf (listen k fd).
Proof. apply wf_upd. reflexivity. Qed.

Lemma wf_push_to_listener k c l : sock_wf k -> sock_wf (push_to_listener k c l).
Proof.
  intros H. unfold push_to_listener. destruct (find_listener k l); [|exact H].
  apply wf_upd; [|exact H]. intros s. destruct (s_listen s) as [[b r]|]; reflexivity.
Qed.

Lemma wf_accept_syn k l a b : sock_wf k -> sock_wf (accept_syn k l a b).
Proof.
  intros H. unfold accept_syn. destruct (get k l) as [ls|]; [|exact H].
  destruct (s_listen ls) as [[bl rd]|]; [|exact H].
  destruct (bl <=? count_children k l a + N.of_nat (length rd)); [exact H|].
  apply wf_emit, wf_insert_conn.
  apply (wf_new k (sock0 (s_dom ls) (s_ty ls)) (mkkey (s_dom ls) (s_ty ls) (fst a) (snd a))); auto.
Qed.

Lemma wf_conn_deliver k fd a b p : sock_wf k -> sock_wf (conn_deliver k fd a b p).
Proof.
  intros H. unfold conn_deliver. destruct (has (p_flags p) F_RST).
  - apply wf_upd; [|exact H]. intros s. destruct (s_tcb s) as [t|]; [|reflexivity].
    destruct (tstate_eqb (t_state t) SynReceived); reflexivity.
  - destruct (get k fd) as [s|]; [|exact H]. destruct (s_tcb s) as [t|]; [|exact H].
    destruct (t_state t).
    + destruct (has (p_flags p) F_SYN && has (p_flags p) F_ACK); [|exact H]. now apply wf_emit, wf_set_tcb.
    + destruct (has (p_flags p) F_ACK && negb (has (p_flags p) F_SYN) && has (p_flags p) F_OK); [|exact H].
      now apply wf_push_to_listener, wf_set_tcb.
    + destruct (negb (p_id p =? 0)); [now apply wf_emit, wf_set_tcb|].
      destruct (has (p_flags p) F_SYN); [now apply wf_emit|exact H].
    + exact H.
Qed.

Lemma wf_kdeliver k p : sock_wf k -> sock_wf (kdeliver k p).
Proof.
  intros H. unfold kdeliver. destruct (p_proto p =? 0).
  - unfold udp_deliver. destruct (udp_target k p) as [fd|]; [|exact H].
    destruct (get k fd) as [s|]; [|exact H]. destruct (peer_ok s (p_src p, p_sport p)); [|exact H].
    now apply wf_upd.
  - unfold tcp_deliver. destruct (tcp_demux k p).
    + now apply wf_conn_deliver.
    + now apply wf_accept_syn.
    + unfold emit_rst. now apply wf_emit.
    + exact H.
Qed.

Lemma wf_fold_left {A} (f : kern -> A -> kern) l : (forall k x, sock_wf k -> sock_wf (f k x)) ->
  forall k, sock_wf k -> sock_wf (fold_left f l k).
Proof. intros Hf. induction l as [|x l IH]; cbn; auto. Qed.

Lemma wf_rst_child k c : sock_wf k -> sock_wf (rst_child k c).
Proof.
  intros H. unfold rst_child. destruct (get k c) as [s|]; [|exact H].
  destruct (s_tcb s); [now apply wf_remove, wf_emit|now apply wf_remove].
Qed.

Lemma wf_close k fd : sock_wf k -> sock_wf (close k fd).
Proof.
  intros H. unfold close. destruct (get k fd) as [s|]; [|exact H].
  destruct (s_ty s).
  - destruct (s_tcb s) as [t|].
    + destruct (negb (t_reset t) && tstate_eqb (t_state t) Established).
      * destruct (nonempty (t_recv t)); [now apply wf_remove, wf_emit|now apply wf_set_bad].
      * now apply wf_remove.
    + destruct (s_listen s) as [[b r]|]; [|now apply wf_remove].
      unfold close_listener. apply wf_remove. apply wf_fold_left; [apply wf_rst_child|exact H].
  - destruct (s_tcb s), (s_listen s) as [[? ?]|]; now apply wf_remove.
Qed.

Lemma wf_tcp_connect_first k peer : sock_wf k -> sock_wf (fst (tcp_connect_first k peer)).
Proof.
  intros H. unfold tcp_connect_first.
  set (d := dom_of (fst peer)). set (s0 := sock0 d Stream).
  assert (H1 : sock_wf (fst (insert_sock k s0))) by (now apply wf_insert_unbound).
  change (insert_sock k s0) with (fst (insert_sock k s0), k_nextfd k). cbv iota beta.
  set (k1 := fst (insert_sock k s0)) in *.
  destruct (if is_loopback (fst peer) then Some (loopback_like (fst peer)) else first_same_family (k_addrs k1) (fst peer)) as [lip|];
    [|cbn [fst]; now apply wf_remove].
  pose proof (wf_allocate_port k1 d Stream H1) as H2.
  destruct (allocate_port k1 d Stream) as [po k2] eqn:Ea. cbn [snd] in H2.
  destruct po as [port|]; [|cbn [fst]; now apply wf_remove].
  cbn [fst]. apply wf_emit, wf_insert_conn. apply wf_upd; [reflexivity|].
  (* k2 is k1 with another cursor: rebuild it as a fresh insert into (k with that cursor) *)
  assert (Ek2 : k2 = set_cursor k1 (k_cursor k2)).
  { unfold allocate_port in Ea. destruct (allocate eph_lo eph_hi (k_cursor k1) (in_use_port k1 d Stream)) as [r c].
    inversion Ea; subst. reflexivity. }
  assert (Hc : sock_wf (set_cursor k (k_cursor k2))).
  { destruct H2 as (_ & _ & _ & _ & [C1 C2]). apply wf_set_cursor; auto. }
  pose proof (wf_new (set_cursor k (k_cursor k2)) s0 (mkkey d Stream lip port) (fun s => sk_bound s (Some (mkkey d Stream lip port)))
                     eq_refl (fun _ => eq_refl) Hc) as Hn.
  eapply wf_same; [| | | |exact Hn]; rewrite Ek2; reflexivity.
Qed.

Lemma wf_tcp_connect_poll k fd : sock_wf k -> sock_wf (fst (tcp_connect_poll k fd)).
Proof.
  intros H. unfold tcp_connect_poll. destruct (get k fd) as [s|]; [|exact H].
  destruct (s_tcb s) as [t|]; [|exact H]. destruct (t_state t); cbn; auto. now apply wf_remove.
Qed.

Lemma wf_accept k fd : sock_wf k -> sock_wf (fst (accept k fd)).
Proof.
  intros H. unfold accept. destruct (get k fd) as [s|]; [|exact H].
  destruct (s_listen s) as [[b [|c r]]|]; try exact H. cbn. now apply wf_upd.
Qed.

Lemma wf_udp_send_to k fd dst tag : sock_wf k -> sock_wf (fst (udp_send_to k fd dst tag)).
Proof.
  intros H. unfold udp_send_to. destruct (get k fd) as [s|]; [|exact H].
  destruct (negb (dom_eqb (s_dom s) (dom_of (fst dst)))); [exact H|].
  destruct (is_bcast (fst dst)); [exact H|]. destruct (s_bound s); [|exact H]. cbn. now apply wf_set_out.
Qed.

Lemma wf_udp_send k fd tag : sock_wf k -> sock_wf (fst (udp_send k fd tag)).
Proof.
  intros H. unfold udp_send. destruct (get k fd) as [s|]; [|exact H].
  destruct (s_peer s); [now apply wf_udp_send_to|exact H].
Qed.

Lemma wf_udp_connect k fd peer : sock_wf k -> sock_wf (fst (udp_connect k fd peer)).
Proof.
  intros H. unfold udp_connect. destruct (get k fd) as [s|]; [|exact H].
  destruct (negb (dom_eqb (s_dom s) (dom_of (fst peer)))); [exact H|]. cbn. now apply wf_upd.
Qed.

Lemma wf_egress_pass dr : forall k, sock_wf k -> sock_wf (fst (egress_pass k dr)).
Proof.
  induction dr as [|p r IH]; intros k H; cbn [egress_pass]; [exact H|].
  destruct (is_local_k k (p_dst p)); [now apply IH, wf_kdeliver|].
  specialize (IH k H). destruct (egress_pass k r) as [k' o]. exact IH.
Qed.

Lemma wf_egress_loop fuel : forall k, sock_wf k -> sock_wf (fst (egress_loop fuel k)).
Proof.
  induction fuel as [|f IH]; intros k H; cbn [egress_loop]; [exact H|].
  destruct (k_out k) as [|p0 l0]; [exact H|].
  pose proof (wf_egress_pass (p0 :: l0) (set_out k []) (wf_set_out k [] H)) as H1.
  destruct (egress_pass (set_out k []) (p0 :: l0)) as [k1 o]. cbn [fst] in H1.
  specialize (IH k1 H1). destruct (egress_loop f k1) as [k2 o']. exact IH.
Qed.

Lemma wf_kegress fuel k : sock_wf k -> sock_wf (fst (kegress_k fuel k)).
Proof.
  intros H. unfold kegress_k. pose proof (wf_egress_loop fuel k H) as H1.
  destruct (egress_loop fuel k) as [k1 o]. cbn [fst] in *.
  unfold reap_closed. apply wf_fold_left; [intros; now apply wf_remove|exact H1].
Qed.

(* ---- the whole net ------------------------------------------------------------------------------ *)
From TV.NetPure Require Import SockRun.

Definition net_wf (n : net) : Prop := Forall sock_wf (n_hosts n).

Lemma Forall_upd_nth {A} (Q : A -> Prop) l i f :
  Forall Q l -> (forall x, Q x -> Q (f x)) -> Forall Q (upd_nth l i f).
Proof.
  intros H Hf. revert i. induction H as [|x l Hx Hl IH]; intros i; destruct i; cbn; constructor; auto.
Qed.

Lemma wf_kern_at n h : net_wf n -> sock_wf (kern_at n h).
Proof.
  intros H. unfold kern_at. destruct (nth_in_or_default h (n_hosts n) (kern0 [])) as [Hin | E].
  - unfold net_wf in H. rewrite Forall_forall in H. now apply H.
  - rewrite E. apply kern0_wf.
Qed.

Lemma wf_with_host n h k : net_wf n -> sock_wf k -> net_wf (with_host n h k).
Proof. intros H Hk. unfold net_wf, with_host; cbn. now apply Forall_upd_nth. Qed.

Lemma wf_fdeliver hs p : Forall sock_wf hs -> Forall sock_wf (fdeliver hs p).
Proof.
  intros H. unfold fdeliver. destruct (route hs (p_dst p)); [|exact H].
  apply Forall_upd_nth; [exact H|]. intros; now apply wf_kdeliver.
Qed.

Lemma wf_deliver_all ps : forall hs, Forall sock_wf hs -> Forall sock_wf (deliver_all hs ps).
Proof. induction ps as [|p r IH]; intros hs H; cbn; [exact H|]. now apply IH, wf_fdeliver. Qed.

Lemma wf_fegress_all f hs : Forall sock_wf hs -> Forall sock_wf (fst (fegress_all f hs)).
Proof.
  induction 1 as [|k r Hk Hr IH]; cbn [fegress_all]; [constructor|].
  pose proof (wf_kegress f k Hk) as H1. destruct (kegress_k f k) as [k' o].
  destruct (fegress_all f r) as [r' o']. cbn in *. constructor; auto.
Qed.

Lemma wf_pump rounds : forall hs, Forall sock_wf hs -> Forall sock_wf (fst (pump rounds hs)).
Proof.
  induction rounds as [|r IH]; intros hs H; cbn [pump]; [exact H|].
  pose proof (wf_fegress_all fuel hs H) as H1. destruct (fegress_all fuel hs) as [hs1 out]. cbn [fst] in H1.
  destruct out as [|p0 l0]; [exact H1|].
  specialize (IH (deliver_all hs1 (p0 :: l0)) (wf_deliver_all _ _ H1)).
  destruct (pump r (deliver_all hs1 (p0 :: l0))) as [hs2 more]. exact IH.
Qed.

Lemma wf_drain k i kind fd : sock_wf k -> sock_wf (fst (drain k i kind fd)).
Proof.
  intros H. unfold drain. destruct (get k fd) as [s|]; [|exact H].
  destruct kind; cbn; auto.
  - now apply wf_upd.
  - destruct (s_tcb s) as [t|]; [|exact H]. destruct (t_reset t); cbn; [exact H|now apply wf_set_tcb].
Qed.

Lemma wf_drain_all hs : forall n i, net_wf n -> net_wf (fst (drain_all n hs i)).
Proof.
  induction hs as [|x r IH]; intros n i H; cbn [drain_all]; [exact H|].
  destruct x as [[[kind h] fd]|]; [|now apply IH].
  pose proof (wf_drain (kern_at n h) i kind fd (wf_kern_at n h H)) as H1.
  destruct (drain (kern_at n h) i kind fd) as [k o]. cbn [fst] in H1.
  specialize (IH (with_host n h k) (i + 1) (wf_with_host n h k H H1)).
  destruct (drain_all (with_host n h k) r (i + 1)) as [n' os]. exact IH.
Qed.

Definition ev_ok (e : nev) : Prop :=
  match e with NSetCursor _ c => eph_lo <= c /\ c <= eph_hi | _ => True end.

Lemma net_wf_handles n hs : net_wf n -> net_wf (mknet (n_hosts n) hs).
Proof. exact (fun H => H). Qed.

Lemma wf_nstep n e : ev_ok e -> net_wf n -> net_wf (fst (nstep n e)).
Proof.
  intros He H. destruct e; cbn [nstep].
  - pose proof (wf_bind (kern_at n h) a port Dgram (wf_kern_at n h H)) as H1.
    destruct (bind (kern_at n h) a port Dgram) as [k [err|[fd p]]]; cbn in *; now apply wf_with_host.
  - pose proof (wf_bind (kern_at n h) a port Stream (wf_kern_at n h H)) as H1.
    destruct (bind (kern_at n h) a port Stream) as [k [err|[fd p]]]; cbn in *; apply wf_with_host; auto.
    now apply wf_listen.
  - pose proof (wf_tcp_connect_first (kern_at n h) peer (wf_kern_at n h H)) as H1.
    destruct (tcp_connect_first (kern_at n h) peer) as [k r]. destruct r; cbn in *; now apply wf_with_host.
  - destruct (handle n hd) as [[[[] h] fd]|]; try exact H.
    pose proof (wf_tcp_connect_poll (kern_at n h) fd (wf_kern_at n h H)) as H1.
    destruct (tcp_connect_poll (kern_at n h) fd) as [k r]. destruct r; cbn in *; try exact H; now apply wf_with_host.
  - destruct (handle n hd) as [[[[] h] fd]|]; try exact H.
    pose proof (wf_accept (kern_at n h) fd (wf_kern_at n h H)) as H1.
    destruct (accept (kern_at n h) fd) as [k [[c pr]|]]; cbn in *; [now apply wf_with_host|exact H].
  - destruct (handle n hd) as [[[kd h] fd]|]; [|exact H]. cbn. apply wf_with_host; [exact H|].
    apply wf_close, wf_kern_at, H.
  - destruct (handle n hd) as [[[[] h] fd]|]; try exact H.
    pose proof (wf_udp_connect (kern_at n h) fd peer (wf_kern_at n h H)) as H1.
    destruct (udp_connect (kern_at n h) fd peer) as [k r]. cbn in *. now apply wf_with_host.
  - destruct (handle n hd) as [[[[] h] fd]|]; try exact H.
    pose proof (wf_udp_send_to (kern_at n h) fd dst tag (wf_kern_at n h H)) as H1.
    destruct (udp_send_to (kern_at n h) fd dst tag) as [k r]. cbn in *. now apply wf_with_host.
  - destruct (handle n hd) as [[[[] h] fd]|]; try exact H.
    pose proof (wf_udp_send (kern_at n h) fd tag (wf_kern_at n h H)) as H1.
    destruct (udp_send (kern_at n h) fd tag) as [k r]. cbn in *. now apply wf_with_host.
  - cbn. now apply wf_fdeliver.
  - cbn. apply wf_with_host; [exact H|]. destruct He. apply wf_set_cursor; auto. now apply wf_kern_at.
  - pose proof (wf_fegress_all fuel (n_hosts n) H) as H1. destruct (fegress_all fuel (n_hosts n)). exact H1.
  - pose proof (wf_pump 20 (n_hosts n) H) as H1. destruct (pump 20 (n_hosts n)). exact H1.
  - pose proof (wf_drain_all (n_handles n) n 0 H) as H1. destruct (drain_all n (n_handles n) 0). exact H1.
Qed.

Fixpoint nfold (n : net) (es : list nev) : net :=
  match es with [] => n | e :: r => nfold (fst (nstep n e)) r end.

Lemma wf_reachable addrs es : Forall ev_ok es -> net_wf (nfold (net0 addrs) es).
Proof.
  intros He. assert (H0 : net_wf (net0 addrs)).
  { unfold net_wf, net0; cbn. apply Forall_forall. intros k Hk. apply in_map_iff in Hk as (a & <- & _). apply kern0_wf. }
  revert H0. generalize (net0 addrs). induction He as [|e r He Hr IH]; intros n H; cbn; [exact H|].
  apply IH. now apply wf_nstep.
Qed.

(* in a well-formed table, conflicting with the index = conflicting with a live socket *)
Lemma conflicts_live k key : sock_wf k ->
  (Conflicts k key <-> exists fd s key', get k fd = Some s /\ s_bound s = Some key' /\ Overlap key' key).
Proof.
  intros (H1 & H2 & [H3 H3'] & H4 & H5). split.
  - intros (key' & Hin & Ho). unfold keys in Hin. apply in_map_iff in Hin as ([k0 fds] & E & Hin). cbn in E. subst k0.
    rewrite Forall_forall in H3'. pose proof (H3' _ Hin) as Hne. cbn in Hne.
    destruct fds as [|fd fds]; [congruence|].
    assert (Hf : In fd (find_by_bind k key')).
    { unfold find_by_bind. rewrite (find_binds_unique _ _ _ H3 Hin). now left. }
    apply H4 in Hf as (s & G & B). exists fd, s, key'. auto.
  - intros (fd & s & key' & G & B & Ho). exists key'. split; [|exact Ho].
    assert (Hf : In fd (find_by_bind k key')) by (apply H4; eauto).
    apply find_binds_nonempty_key. unfold find_by_bind in Hf. intros E. rewrite E in Hf. destruct Hf.
Qed.

(* ---- Kernel::close ------------------------------------------------------------------------------ *)
Lemma get_remove_none k x y : get k x = None -> get (remove k y) x = None.
Proof. intros H. rewrite remove_get. destruct (x =? y); auto. Qed.

Lemma get_emit k s d f t x : get (emit k s d f t) x = get k x.
Proof. reflexivity. Qed.

Lemma rst_child_keeps_none k c x : get k x = None -> get (rst_child k c) x = None.
Proof.
  intros H. unfold rst_child. destruct (get k c) as [s|]; [|exact H].
  destruct (s_tcb s); apply get_remove_none; exact H.
Qed.

Lemma rst_child_removes k c : get (rst_child k c) c = None.
Proof.
  unfold rst_child. destruct (get k c) as [s|] eqn:G; [|exact G].
  destruct (s_tcb s); rewrite remove_get, N.eqb_refl; reflexivity.
Qed.

Lemma fold_rst_keeps_none cs : forall k x, get k x = None -> get (fold_left rst_child cs k) x = None.
Proof. induction cs as [|c r IH]; intros k x H; cbn; [exact H|]. now apply IH, rst_child_keeps_none. Qed.

Lemma fold_rst_removes cs : forall k c, In c cs -> get (fold_left rst_child cs k) c = None.
Proof.
  induction cs as [|c0 r IH]; intros k c; cbn; [intros []|].
  intros [->|H]; [apply fold_rst_keeps_none, rst_child_removes|now apply IH].
Qed.

Lemma close_releases_lemma k fd : sock_wf k -> k_bad (close k fd) = k_bad k ->
  (get k fd <> None -> k_bad k = false ->
   get (close k fd) fd = None /\
   (forall key, ~ In fd (find_by_bind (close k fd) key)) /\
   (forall l r, find_connection (close k fd) l r <> Some fd)) /\
  (forall s b ready, get k fd = Some s -> s_ty s = Stream -> s_tcb s = None -> s_listen s = Some (b, ready) ->
     forall c, In c ready -> get (close k fd) c = None).
Proof.
  intros Hw Hb. split.
  - intros Hg Hbad. unfold close in *. destruct (get k fd) as [s|] eqn:G; [|congruence].
    assert (R : forall k', get (remove k' fd) fd = None /\ (forall key, ~ In fd (find_by_bind (remove k' fd) key)) /\
                           (forall l r, find_connection (remove k' fd) l r <> Some fd)).
    { intros k'. split; [rewrite remove_get, N.eqb_refl; reflexivity|]. split; [apply remove_binds_no_fd|apply remove_conns]. }
    destruct (s_ty s).
    + destruct (s_tcb s) as [t|].
      * destruct (negb (t_reset t) && tstate_eqb (t_state t) Established); [|apply R].
        destruct (nonempty (t_recv t)); [apply R|]. cbn in Hb. congruence.
      * destruct (s_listen s) as [[b r]|]; apply R.
    + destruct (s_tcb s), (s_listen s) as [[? ?]|]; apply R.
  - intros s b ready G Ht Htcb Hl c Hc. unfold close. rewrite G, Ht, Htcb, Hl. unfold close_listener.
    apply get_remove_none. apply fold_rst_removes. apply in_or_app. now left.
Qed.

(* closing a listener touches only its own children *)
Definition child_cond (fd : N) (ready : list N) (local : saddr) (fs : N * sock) : bool :=
  negb (fst fs =? fd) && negb (existsb (N.eqb (fst fs)) ready) &&
  match s_tcb (snd fs), s_bound (snd fs) with
  | Some t, Some b => tstate_eqb (t_state t) SynReceived && (b_port b =? snd local) &&
                      same_family (b_addr b) (fst local) &&
                      (is_unspec (fst local) || ip_eqb (b_addr b) (fst local))
  | _, _ => false
  end.

Lemma rst_child_other k x c : c <> x -> get (rst_child k x) c = get k c.
Proof.
  intros Hne. unfold rst_child. destruct (get k x) as [s|]; [|reflexivity].
  apply N.eqb_neq in Hne. destruct (s_tcb s); rewrite remove_get, Hne; reflexivity.
Qed.

Lemma fold_rst_other cs : forall k c, ~ In c cs -> get (fold_left rst_child cs k) c = get k c.
Proof.
  induction cs as [|x r IH]; intros k c Hn; cbn; [reflexivity|].
  rewrite IH by (intros H; apply Hn; now right). apply rst_child_other. intros ->. apply Hn. now left.
Qed.

Lemma close_listener_spares_lemma k fd s b ready c s' :
  sock_wf k ->
  get k fd = Some s -> s_ty s = Stream -> s_tcb s = None -> s_listen s = Some (b, ready) ->
  c <> fd -> get k c = Some s' -> ~ In c ready ->
  child_cond fd ready (bound_endpoint s) (c, s') = false ->
  get (close k fd) c = Some s'.
Proof.
  intros (Hn & _) G Ht Htcb Hl Hne Gc Hr Hc. unfold close. rewrite G, Ht, Htcb, Hl. unfold close_listener.
  rewrite remove_get. apply N.eqb_neq in Hne. rewrite Hne.
  rewrite fold_rst_other; [exact Gc|].
  intros Hin. apply in_app_or in Hin as [Hin|Hin]; [tauto|].
  apply in_map_iff in Hin as ([c0 s0] & E & Hin). cbn in E. subst c0.
  apply filter_In in Hin as [Hin Hp].
  assert (s0 = s').
  { unfold get in Gc. apply (get_sock_in _ _ _ Hn) in Hin. congruence. }
  subst s0. unfold child_cond in Hc. cbn [fst snd] in *. rewrite Hp in Hc. discriminate.
Qed.
