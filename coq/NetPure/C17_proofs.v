(* Lemmas for property C17 (bind / ephemeral ports / close / demux / routing). *)
From TV.Lib Require Import Base.
From TV.NetPure Require Import Gen Ip Sock.
Open Scope N_scope.

(* ---- decidable equalities --------------------------------------------------- *)
Lemma ip_eqb_eq a b : ip_eqb a b = true <-> a = b.
Proof.
  destruct a, b; cbn; rewrite ?N.eqb_eq; split; intros H; try discriminate; try congruence.
Qed.
Lemma ip_eqb_refl a : ip_eqb a a = true.
Proof. now apply ip_eqb_eq. Qed.
Lemma dom_eqb_eq a b : dom_eqb a b = true <-> a = b.
Proof. destruct a, b; cbn; split; congruence. Qed.
Lemma sty_eqb_eq a b : sty_eqb a b = true <-> a = b.
Proof. destruct a, b; cbn; split; congruence. Qed.
Lemma bkey_eqb_eq a b : bkey_eqb a b = true <-> a = b.
Proof.
  destruct a as [d1 t1 a1 p1], b as [d2 t2 a2 p2]. unfold bkey_eqb; cbn.
  rewrite !andb_true_iff, dom_eqb_eq, sty_eqb_eq, ip_eqb_eq, N.eqb_eq.
  split; [intros [[[-> ->] ->] ->]; reflexivity|intros [= -> -> -> ->]; auto].
Qed.
Lemma bkey_eqb_refl a : bkey_eqb a a = true.
Proof. now apply bkey_eqb_eq. Qed.
Lemma saddr_eqb_eq (a b : saddr) : saddr_eqb a b = true <-> a = b.
Proof.
  destruct a, b. unfold saddr_eqb; cbn. rewrite andb_true_iff, ip_eqb_eq, N.eqb_eq.
  split; [intros [-> ->]; reflexivity|intros [= -> ->]; auto].
Qed.
Lemma conn_key_eqb_eq a b : conn_key_eqb a b = true <-> a = b.
Proof.
  destruct a, b. unfold conn_key_eqb; cbn. rewrite andb_true_iff, !saddr_eqb_eq.
  split; [intros [-> ->]; reflexivity|intros [= -> ->]; auto].
Qed.

(* ---- conflicts, declaratively -------------------------------------------------- *)
Definition Overlap (a b : bkey) : Prop :=
  b_dom a = b_dom b /\ b_ty a = b_ty b /\ b_port a = b_port b /\
  (b_addr a = b_addr b \/ is_unspec (b_addr a) = true \/ is_unspec (b_addr b) = true).

Lemma conflicts_spec a b : conflicts a b = true <-> Overlap a b.
Proof.
  unfold conflicts, on_port, Overlap.
  rewrite !andb_true_iff, !orb_true_iff, dom_eqb_eq, sty_eqb_eq, N.eqb_eq, ip_eqb_eq. tauto.
Qed.

Definition keys (k : kern) : list bkey := map fst (k_binds k).
Definition Conflicts (k : kern) (key : bkey) : Prop := exists key', In key' (keys k) /\ Overlap key' key.
Definition addr_ok (k : kern) (a : ip) : Prop := is_unspec a = true \/ is_local_k k a = true.

Lemma existsb_conflicts k key :
  existsb (fun kb => conflicts (fst kb) key) (k_binds k) = true <-> Conflicts k key.
Proof.
  rewrite existsb_exists. unfold Conflicts, keys. split.
  - intros ([k' fds] & Hin & Hc). exists k'. split; [apply in_map_iff; exists (k', fds); auto|].
    now apply conflicts_spec.
  - intros (k' & Hin & Ho). apply in_map_iff in Hin as ([k'' fds] & <- & Hin).
    exists (k'', fds). split; auto. now apply conflicts_spec.
Qed.

(* ---- bind ------------------------------------------------------------------------ *)
Lemma bind_result k a port t : port <> 0 ->
  let key := mkkey (dom_of a) t a port in
  snd (bind k a port t) =
    if negb (is_unspec a) && negb (is_local_k k a) then inl AddrNotAvailable
    else if existsb (fun kb => conflicts (fst kb) key) (k_binds k) then inl AddrInUse
    else inr (k_nextfd k, port).
Proof.
  intros Hp key. unfold bind. destruct (negb (is_unspec a) && negb (is_local_k k a)); [reflexivity|].
  apply N.eqb_neq in Hp. rewrite Hp. fold key.
  destruct (existsb (fun kb => conflicts (fst kb) key) (k_binds k)); reflexivity.
Qed.

Lemma addr_ok_dec k a : negb (is_unspec a) && negb (is_local_k k a) = false <-> addr_ok k a.
Proof.
  unfold addr_ok. destruct (is_unspec a), (is_local_k k a); cbn; intuition discriminate.
Qed.

Lemma bind_ok_iff_lemma k a port t : port <> 0 ->
  let key := mkkey (dom_of a) t a port in
  (snd (bind k a port t) = inr (k_nextfd k, port) <-> addr_ok k a /\ ~ Conflicts k key) /\
  (snd (bind k a port t) = inl AddrNotAvailable <-> ~ addr_ok k a) /\
  (snd (bind k a port t) = inl AddrInUse <-> addr_ok k a /\ Conflicts k key) /\
  (forall r, snd (bind k a port t) = inr r -> r = (k_nextfd k, port)).
Proof.
  intros Hp key. rewrite (bind_result k a port t Hp). fold key.
  pose proof (addr_ok_dec k a) as Ha. pose proof (existsb_conflicts k key) as Hc.
  destruct (negb (is_unspec a) && negb (is_local_k k a)).
  - assert (~ addr_ok k a) by (intros H; apply Ha in H; discriminate).
    repeat split; intros; try discriminate; try tauto.
  - assert (addr_ok k a) by (now apply Ha).
    destruct (existsb (fun kb => conflicts (fst kb) key) (k_binds k)).
    + assert (Conflicts k key) by (now apply Hc).
      repeat split; intros; try discriminate; try tauto.
    + assert (~ Conflicts k key) by (intros Hx; apply Hc in Hx; discriminate).
      repeat split; intros; try discriminate; try tauto. congruence.
Qed.

(* ---- the ephemeral port allocator ----------------------------------------------------- *)
Section Alloc.
Variables lo hi start : N.
Variable in_use : N -> bool.
Hypothesis Hlo : lo <= start.
Hypothesis Hhi : start <= hi.

Definition size : N := hi - lo + 1.
(* number of steps from the cursor to p in cyclic order *)
Definition dist (p : N) : N := if start <=? p then p - start else p + size - start.
Definition next (p : N) : N := if p =? hi then lo else p + 1.
Definition inr_ (p : N) : Prop := lo <= p /\ p <= hi.

Lemma next_in p : inr_ p -> inr_ (next p).
Proof. unfold inr_, next. destruct (N.eqb_spec p hi); lia. Qed.

Lemma dist_lt p : inr_ p -> dist p < size.
Proof. unfold inr_, dist, size. destruct (N.leb_spec start p); lia. Qed.

Lemma next_start p : inr_ p -> (next p = start <-> dist p = size - 1).
Proof.
  unfold inr_, next, dist, size. destruct (N.eqb_spec p hi), (N.leb_spec start p); lia.
Qed.

Lemma dist_next p : inr_ p -> next p <> start -> dist (next p) = dist p + 1.
Proof.
  unfold inr_, next, dist, size.
  destruct (N.eqb_spec p hi), (N.leb_spec start p);
    try destruct (N.leb_spec start lo); try destruct (N.leb_spec start (p + 1)); lia.
Qed.

Lemma dist_inj p q : inr_ p -> inr_ q -> dist p = dist q -> p = q.
Proof.
  unfold inr_, dist, size. destruct (N.leb_spec start p), (N.leb_spec start q); lia.
Qed.

Lemma alloc_some fuel : forall cur p c,
  inr_ cur -> alloc_loop fuel lo hi start cur in_use = (Some p, c) ->
  inr_ p /\ in_use p = false /\ c = next p /\ dist cur <= dist p /\
  (forall q, inr_ q -> dist cur <= dist q -> dist q < dist p -> in_use q = true).
Proof.
  induction fuel as [|f IH]; intros cur p c Hc; cbn [alloc_loop]; [discriminate|].
  fold (next cur). destruct (in_use cur) eqn:Eu; cbn [negb].
  - destruct (N.eqb_spec (next cur) start) as [Es|Es]; [discriminate|].
    intros H. apply IH in H as (H1 & H2 & H3 & H4 & H5); [|now apply next_in].
    rewrite (dist_next cur Hc Es) in *.
    split; [exact H1|]. split; [exact H2|]. split; [exact H3|]. split; [lia|].
    intros q Hq Hq1 Hq2. destruct (N.eq_dec (dist q) (dist cur)) as [E|E].
    + apply dist_inj in E; auto. now subst.
    + apply H5; auto. lia.
  - intros [= <- <-]. split; [exact Hc|]. split; [exact Eu|]. split; [reflexivity|]. split; [lia|].
    intros; lia.
Qed.

Lemma alloc_none fuel : forall cur c,
  inr_ cur -> N.of_nat fuel = size - dist cur ->
  alloc_loop fuel lo hi start cur in_use = (None, c) ->
  forall q, inr_ q -> dist cur <= dist q -> in_use q = true.
Proof.
  induction fuel as [|f IH]; intros cur c Hc Hf; cbn [alloc_loop].
  - pose proof (dist_lt cur Hc). lia.
  - fold (next cur). destruct (in_use cur) eqn:Eu; cbn [negb]; [|discriminate].
    destruct (N.eqb_spec (next cur) start) as [Es|Es].
    + intros _ q Hq Hd. apply next_start in Es; auto. pose proof (dist_lt q Hq).
      assert (E : dist q = dist cur) by lia. apply dist_inj in E; auto. now subst.
    + intros H q Hq Hd. pose proof (dist_next cur Hc Es) as Hn.
      destruct (N.eq_dec (dist q) (dist cur)) as [E|E].
      * apply dist_inj in E; auto. now subst.
      * apply (IH (next cur) c); [now apply next_in|lia|exact H|exact Hq|lia].
Qed.

Lemma alloc_all_used fuel : forall cur,
  inr_ cur -> (forall q, inr_ q -> in_use q = true) ->
  fst (alloc_loop fuel lo hi start cur in_use) = None.
Proof.
  induction fuel as [|f IH]; intros cur Hc Hall; cbn [alloc_loop]; [reflexivity|].
  fold (next cur). rewrite (Hall cur Hc). cbn [negb].
  destruct (next cur =? start); [reflexivity|]. apply IH; auto. now apply next_in.
Qed.

Lemma dist_start : dist start = 0.
Proof. unfold dist. destruct (N.leb_spec start start); lia. Qed.

Lemma allocate_spec :
  match allocate lo hi start in_use with
  | (Some p, c) => inr_ p /\ in_use p = false /\ c = next p /\
                   (forall q, inr_ q -> dist q < dist p -> in_use q = true)
  | (None, _) => forall q, inr_ q -> in_use q = true
  end.
Proof.
  unfold allocate. assert (Hs : inr_ start) by (split; assumption).
  destruct (alloc_loop (N.to_nat (hi - lo + 1)) lo hi start start in_use) as [[p|] c] eqn:E.
  - apply alloc_some in E as (H1 & H2 & H3 & H4 & H5); auto.
    split; [exact H1|]. split; [exact H2|]. split; [exact H3|]. intros q Hq Hd. apply H5; auto. rewrite dist_start. lia.
  - intros q Hq. apply (alloc_none (N.to_nat (hi - lo + 1)) start c Hs); [|exact E|exact Hq|].
    + rewrite dist_start, N2Nat.id. unfold size. lia.
    + rewrite dist_start. lia.
Qed.

Lemma allocate_none_iff :
  fst (allocate lo hi start in_use) = None <-> (forall q, inr_ q -> in_use q = true).
Proof.
  split.
  - intros H. pose proof allocate_spec as S. destruct (allocate lo hi start in_use) as [[p|] c]; [discriminate|exact S].
  - intros H. unfold allocate. apply alloc_all_used; auto. split; assumption.
Qed.
End Alloc.

(* ---- port 0 ----------------------------------------------------------------------------- *)
Definition cursor_ok (k : kern) : Prop := eph_lo <= k_cursor k /\ k_cursor k <= eph_hi.
Definition port_free (k : kern) (d : dom) (t : sty) (p : N) : Prop :=
  forall key, In key (keys k) -> ~ (b_dom key = d /\ b_ty key = t /\ b_port key = p).

Lemma in_use_port_spec k d t p : in_use_port k d t p = false <-> port_free k d t p.
Proof.
  unfold in_use_port, port_free, keys. split.
  - intros H key Hin (H1 & H2 & H3). apply in_map_iff in Hin as ([k' fds] & <- & Hin).
    assert (existsb (fun kb => on_port d t p (fst kb)) (k_binds k) = true); [|congruence].
    apply existsb_exists. exists (k', fds). split; auto. unfold on_port. cbn in *.
    rewrite H1, H2, H3. destruct d, t; cbn; now rewrite N.eqb_refl.
  - intros H. apply not_true_is_false. intros Hx. apply existsb_exists in Hx as ([k' fds] & Hin & Ho).
    unfold on_port in Ho. cbn in Ho. apply andb_true_iff in Ho as [Ho H3]. apply andb_true_iff in Ho as [H1 H2].
    apply (H k'); [apply in_map_iff; exists (k', fds); auto|].
    apply dom_eqb_eq in H1. apply sty_eqb_eq in H2. apply N.eqb_eq in H3. auto.
Qed.

Lemma port_free_no_conflict k a t p :
  port_free k (dom_of a) t p -> ~ Conflicts k (mkkey (dom_of a) t a p).
Proof.
  intros Hf (key' & Hin & (H1 & H2 & H3 & _)). cbn in *. apply (Hf key' Hin). auto.
Qed.

Lemma alloc_loop_cursor fuel lo hi start in_use : forall cur,
  lo <= cur <= hi -> lo <= snd (alloc_loop fuel lo hi start cur in_use) <= hi.
Proof.
  induction fuel as [|f IH]; intros cur Hc; cbn [alloc_loop]; [exact Hc|].
  assert (Hn : lo <= (if cur =? hi then lo else cur + 1) <= hi) by (destruct (N.eqb_spec cur hi); lia).
  destruct (in_use cur); cbn [negb]; [|exact Hn].
  destruct ((if cur =? hi then lo else cur + 1) =? start); [exact Hn|]. now apply IH.
Qed.

Lemma eph_range : eph_lo <= eph_hi.
Proof. vm_compute. discriminate. Qed.

Lemma allocate_cursor lo hi cur in_use :
  lo <= cur <= hi -> lo <= snd (allocate lo hi cur in_use) <= hi.
Proof. intros H. unfold allocate. now apply alloc_loop_cursor. Qed.

Lemma bind_port0_lemma k a t : cursor_ok k ->
  let d := dom_of a in
  match snd (bind k a 0 t) with
  | inr (fd, p) => addr_ok k a /\ fd = k_nextfd k /\ eph_lo <= p /\ p <= eph_hi /\ port_free k d t p
  | inl AddrNotAvailable => ~ addr_ok k a
  | inl AddrInUse => addr_ok k a /\ forall p, eph_lo <= p -> p <= eph_hi -> ~ port_free k d t p
  end /\ cursor_ok (fst (bind k a 0 t)).
Proof.
  intros [C1 C2] d. unfold bind. pose proof (addr_ok_dec k a) as Ha.
  destruct (negb (is_unspec a) && negb (is_local_k k a)).
  - cbn [fst snd]. split; [|split; assumption]. intros H. apply Ha in H. discriminate.
  - assert (Hok : addr_ok k a) by (now apply Ha). change (0 =? 0) with true. cbv iota.
    unfold allocate_port. fold d.
    pose proof (allocate_spec eph_lo eph_hi (k_cursor k) (in_use_port k d t) C1 C2) as S.
    pose proof (allocate_cursor eph_lo eph_hi (k_cursor k) (in_use_port k d t) (conj C1 C2)) as Hcur.
    destruct (allocate eph_lo eph_hi (k_cursor k) (in_use_port k d t)) as [[p|] c]; cbn [snd] in Hcur.
    + destruct S as ([P1 P2] & Hfree & _ & _). apply in_use_port_spec in Hfree.
      assert (Hnc : existsb (fun kb => conflicts (fst kb) (mkkey d t a p)) (k_binds (set_cursor k c)) = false).
      { apply not_true_is_false. intros Hx. apply (existsb_conflicts (set_cursor k c)) in Hx.
        revert Hx. apply (port_free_no_conflict (set_cursor k c) a t p). exact Hfree. }
      rewrite Hnc. cbn [fst snd insert_sock upd set_socks insert_binding set_binds k_cursor set_cursor k_nextfd].
      split; [|split; apply Hcur]. split; [exact Hok|]. split; [reflexivity|]. split; [exact P1|]. split; [exact P2|exact Hfree].
    + cbn [fst snd set_cursor k_cursor]. split; [split; [exact Hok|]|split; apply Hcur].
      intros p P1 P2 Hf. apply in_use_port_spec in Hf.
      rewrite (S p (conj P1 P2)) in Hf. discriminate.
Qed.

(* ---- close / remove -------------------------------------------------------------------------- *)
Lemma find_binds_in (l : list (bkey * list N)) key fd :
  In fd (find_binds l key) -> exists fds, In (key, fds) l /\ In fd fds.
Proof.
  induction l as [|[k' fds] l IH]; cbn; [intros []|].
  destruct (bkey_eqb k' key) eqn:E.
  - apply bkey_eqb_eq in E. subst. intros H. exists fds. split; [now left|exact H].
  - intros H. apply IH in H as (fds' & H1 & H2). exists fds'. split; [now right|exact H2].
Qed.

Lemma remove_binds_no_fd k fd key : ~ In fd (find_by_bind (remove k fd) key).
Proof.
  unfold find_by_bind. cbn [remove k_binds]. intros H. apply find_binds_in in H as (fds & H1 & H2).
  apply filter_In in H1 as [H1 _]. apply in_map_iff in H1 as ([k' fds'] & E & _). cbn in E.
  inversion E; subst. unfold drop_fd in H2. apply filter_In in H2 as [_ H2].
  rewrite N.eqb_refl in H2. discriminate.
Qed.

Lemma remove_no_empty k fd : forall key fds, In (key, fds) (k_binds (remove k fd)) -> fds <> [].
Proof.
  intros key fds H. cbn [remove k_binds] in H. apply filter_In in H as [_ H]. cbn in H.
  destruct fds; [discriminate|discriminate].
Qed.

Lemma get_sock_filter l fd fd' :
  get_sock (filter (fun fs => negb (fst fs =? fd)) l) fd' = if fd' =? fd then None else get_sock l fd'.
Proof.
  induction l as [|[f s] l IH]; cbn; [now destruct (fd' =? fd)|].
  destruct (f =? fd) eqn:E1; cbn.
  - rewrite IH. apply N.eqb_eq in E1. subst f. destruct (fd' =? fd) eqn:E2; [reflexivity|].
    rewrite N.eqb_sym, E2. reflexivity.
  - destruct (f =? fd') eqn:E3.
    + apply N.eqb_eq in E3. subst f. now rewrite E1.
    + exact IH.
Qed.

Lemma remove_get k fd fd' : get (remove k fd) fd' = if fd' =? fd then None else get k fd'.
Proof. unfold get. cbn [remove k_socks]. apply get_sock_filter. Qed.

Lemma remove_conns k fd local remote : find_connection (remove k fd) local remote <> Some fd.
Proof.
  unfold find_connection. cbn [remove k_conns].
  induction (k_conns k) as [|[[l r] f] cs IH]; cbn; [discriminate|].
  destruct (N.eqb_spec f fd) as [->|Hne]; cbn; [exact IH|].
  destruct (conn_key_eqb (l, r) (local, remote)); [congruence|exact IH].
Qed.


(* ---- the binding index is a map: keys unique, no empty groups ------------------------------ *)
Definition binds_wf (l : list (bkey * list N)) : Prop :=
  NoDup (map fst l) /\ Forall (fun kb => snd kb <> []) l.

Lemma find_binds_unique l key fds : NoDup (map fst l) -> In (key, fds) l -> find_binds l key = fds.
Proof.
  induction l as [|[k' f] l IH]; cbn; [intros _ []|].
  intros Hn [H|H]; inversion Hn as [|? ? Hx Hl]; subst.
  - inversion H; subst. now rewrite bkey_eqb_refl.
  - destruct (bkey_eqb k' key) eqn:E; [|now apply IH].
    apply bkey_eqb_eq in E. subst. exfalso. apply Hx. apply in_map_iff. exists (key, fds). auto.
Qed.

Lemma find_binds_none l key : ~ In key (map fst l) -> find_binds l key = [].
Proof.
  induction l as [|[k' f] l IH]; cbn; [reflexivity|].
  intros H. destruct (bkey_eqb k' key) eqn:E; [apply bkey_eqb_eq in E; subst; tauto|]. apply IH. tauto.
Qed.

Lemma find_binds_nonempty_key l key : find_binds l key <> [] -> In key (map fst l).
Proof.
  intros H. destruct (in_dec (fun a b => match bool_dec (bkey_eqb a b) true with
                                       | left e => left (proj1 (bkey_eqb_eq a b) e)
                                       | right n => right (fun e => n (proj2 (bkey_eqb_eq a b) e)) end)
                             key (map fst l)) as [Hi|Hn]; [exact Hi|].
  now rewrite find_binds_none in H.
Qed.

Definition removed_binds (fd : N) (l : list (bkey * list N)) : list (bkey * list N) :=
  filter (fun kb => nonempty (snd kb)) (map (fun kb => (fst kb, drop_fd fd (snd kb))) l).

Lemma removed_binds_keys fd l : incl (map fst (removed_binds fd l)) (map fst l).
Proof.
  intros x Hx. apply in_map_iff in Hx as ([k' f] & <- & Hin). apply filter_In in Hin as [Hin _].
  apply in_map_iff in Hin as ([k2 f2] & E & Hin). cbn in E. injection E as <- _.
  apply in_map_iff. exists (k2, f2). auto.
Qed.

Lemma NoDup_map_filter {A B} (f : A -> B) g l : NoDup (map f l) -> NoDup (map f (filter g l)).
Proof.
  induction l as [|x l IH]; cbn; [constructor|]. intros Hn. inversion Hn as [|? ? Hx Hl]; subst.
  destruct (g x); cbn; [constructor|]; auto.
  intros Hin. apply Hx. apply in_map_iff in Hin as (y & E & Hy). apply filter_In in Hy as [Hy _].
  apply in_map_iff. eauto.
Qed.

Lemma removed_binds_wf fd l : NoDup (map fst l) -> binds_wf (removed_binds fd l).
Proof.
  intros Hn. split.
  - unfold removed_binds. apply NoDup_map_filter. rewrite map_map. cbn. exact Hn.
  - apply Forall_forall. intros [k' f] Hin. apply filter_In in Hin as [_ H]. cbn in *.
    destruct f; [discriminate|discriminate].
Qed.

Lemma removed_binds_find fd l key : NoDup (map fst l) ->
  find_binds (removed_binds fd l) key = drop_fd fd (find_binds l key).
Proof.
  induction l as [|[k' f] l IH]; [reflexivity|].
  intros Hn. inversion Hn as [|? ? Hx Hl]; subst.
  unfold removed_binds. cbn [map filter fst snd]. fold (removed_binds fd l).
  destruct (nonempty (drop_fd fd f)) eqn:En; cbn [find_binds].
  - destruct (bkey_eqb k' key) eqn:E; [reflexivity|now apply IH].
  - destruct (bkey_eqb k' key) eqn:E; [|now apply IH].
    destruct (drop_fd fd f); [|discriminate]. apply bkey_eqb_eq in E. subst k'.
    apply find_binds_none. intros Hin. apply Hx, (removed_binds_keys fd l), Hin.
Qed.

Lemma remove_find_by_bind k fd key : NoDup (map fst (k_binds k)) ->
  find_by_bind (remove k fd) key = drop_fd fd (find_by_bind k key).
Proof. intros H. unfold find_by_bind. cbn [remove k_binds]. now apply removed_binds_find. Qed.

Lemma remove_other_bindings k fd fd' key : NoDup (map fst (k_binds k)) -> fd' <> fd ->
  (In fd' (find_by_bind (remove k fd) key) <-> In fd' (find_by_bind k key)).
Proof.
  intros Hn Hne. rewrite remove_find_by_bind by exact Hn. unfold drop_fd. rewrite filter_In.
  apply N.eqb_neq in Hne. rewrite Hne. cbn. tauto.
Qed.

Lemma remove_sole_owner_frees k fd key : NoDup (map fst (k_binds k)) ->
  find_by_bind k key = [fd] -> ~ In key (keys (remove k fd)).
Proof.
  intros Hn Hs Hin. unfold keys in Hin. cbn [remove k_binds] in Hin. fold (removed_binds fd (k_binds k)) in Hin.
  apply in_map_iff in Hin as ([k' f] & E & Hin). cbn in E. subst k'.
  destruct (removed_binds_wf fd (k_binds k) Hn) as [Hn' Hne].
  pose proof (find_binds_unique _ _ _ Hn' Hin) as Hf.
  rewrite removed_binds_find in Hf by exact Hn. unfold find_by_bind in Hs. rewrite Hs in Hf.
  cbn in Hf. rewrite N.eqb_refl in Hf. cbn in Hf. subst f.
  rewrite Forall_forall in Hne. apply (Hne _ Hin). reflexivity.
Qed.

(* ---- UDP demux ------------------------------------------------------------------------------ *)
Lemma get_upd k fd f fd' :
  get (upd k fd f) fd' = if fd' =? fd then option_map f (get k fd') else get k fd'.
Proof.
  unfold get, upd. cbn [set_socks k_socks].
  induction (k_socks k) as [|[x s] l IH]; cbn; [now destruct (fd' =? fd)|].
  destruct (x =? fd) eqn:E1; cbn.
  - apply N.eqb_eq in E1. subst x. destruct (fd =? fd') eqn:E2.
    + apply N.eqb_eq in E2. subst fd'. now rewrite N.eqb_refl.
    + rewrite IH. reflexivity.
  - destruct (x =? fd') eqn:E2.
    + apply N.eqb_eq in E2. subst x. now rewrite E1.
    + exact IH.
Qed.

Lemma udp_target_spec k p :
  let d := dom_of (p_dst p) in
  let exact := find_by_bind k (mkkey d Dgram (p_dst p) (p_dport p)) in
  let wild := find_by_bind k (mkkey d Dgram (unspec_like (p_dst p)) (p_dport p)) in
  udp_target k p = match hd_error exact with Some fd => Some fd | None => hd_error wild end.
Proof.
  cbn zeta. unfold udp_target.
  destruct (find_by_bind k (mkkey (dom_of (p_dst p)) Dgram (p_dst p) (p_dport p))); [|reflexivity].
  destruct (find_by_bind k (mkkey (dom_of (p_dst p)) Dgram (unspec_like (p_dst p)) (p_dport p))); reflexivity.
Qed.

Lemma udp_deliver_frame k p :
  k_binds (udp_deliver k p) = k_binds k /\ k_conns (udp_deliver k p) = k_conns k /\
  k_out (udp_deliver k p) = k_out k /\ k_cursor (udp_deliver k p) = k_cursor k /\
  (forall fd', udp_target k p <> Some fd' -> get (udp_deliver k p) fd' = get k fd').
Proof.
  unfold udp_deliver. destruct (udp_target k p) as [fd|]; [|repeat split; reflexivity].
  destruct (get k fd) as [s|] eqn:G; [|repeat split; reflexivity].
  destruct (peer_ok s (p_src p, p_sport p)); [|repeat split; reflexivity].
  repeat split; try reflexivity. intros fd' Hne. rewrite get_upd.
  destruct (fd' =? fd) eqn:E; [|reflexivity]. apply N.eqb_eq in E. subst. congruence.
Qed.

Lemma udp_deliver_target k p fd s :
  udp_target k p = Some fd -> get k fd = Some s ->
  get (udp_deliver k p) fd =
    Some (if peer_ok s (p_src p, p_sport p)
          then sk_queue s (s_queue s ++ [((p_src p, p_sport p), p_id p)]) else s).
Proof.
  intros Ht G. unfold udp_deliver. rewrite Ht, G.
  destruct (peer_ok s (p_src p, p_sport p)); [|exact G].
  rewrite get_upd, N.eqb_refl, G. reflexivity.
Qed.

Lemma udp_deliver_no_target k p : udp_target k p = None -> udp_deliver k p = k.
Proof. intros H. unfold udp_deliver. now rewrite H. Qed.

(* ---- TCP demux ------------------------------------------------------------------------------ *)
Lemma find_listener_spec k local l :
  find_listener k local = Some l ->
  is_listening k l = true /\
  let d := dom_of (fst local) in
  (In l (find_by_bind k (mkkey d Stream (fst local) (snd local))) \/
   (In l (find_by_bind k (mkkey d Stream (unspec_like (fst local)) (snd local))) /\
    forall x, In x (find_by_bind k (mkkey d Stream (fst local) (snd local))) -> is_listening k x = false)).
Proof.
  unfold find_listener.
  destruct (find (is_listening k) (find_by_bind k (mkkey (dom_of (fst local)) Stream (fst local) (snd local)))) as [x|] eqn:E1.
  - intros [= <-]. apply find_some in E1 as [H1 H2]. split; [exact H2|]. now left.
  - intros E2. apply find_some in E2 as [H1 H2]. split; [exact H2|]. right. split; [exact H1|].
    intros x Hx. apply (find_none _ _ E1 x Hx).
Qed.

Lemma find_listener_none k local :
  find_listener k local = None ->
  let d := dom_of (fst local) in
  forall x, In x (find_by_bind k (mkkey d Stream (fst local) (snd local)) ++
                  find_by_bind k (mkkey d Stream (unspec_like (fst local)) (snd local))) ->
            is_listening k x = false.
Proof.
  unfold find_listener.
  destruct (find (is_listening k) (find_by_bind k (mkkey (dom_of (fst local)) Stream (fst local) (snd local)))) as [x|] eqn:E1;
    [discriminate|].
  intros E2 x Hx. apply in_app_or in Hx as [Hx|Hx]; [apply (find_none _ _ E1 x Hx)|apply (find_none _ _ E2 x Hx)].
Qed.

Lemma tcp_demux_spec k p :
  let local := (p_dst p, p_dport p) in
  let remote := (p_src p, p_sport p) in
  let bare_syn := has (p_flags p) F_SYN && negb (has (p_flags p) F_ACK) in
  match tcp_demux k p with
  | ToConn fd => find_connection k local remote = Some fd
  | ToListener l => find_connection k local remote = None /\ bare_syn = true /\ find_listener k local = Some l
  | ReplyRst => find_connection k local remote = None /\
                ((bare_syn = true /\ find_listener k local = None) \/
                 (bare_syn = false /\ has (p_flags p) F_RST = false))
  | Silent => find_connection k local remote = None /\ bare_syn = false /\ has (p_flags p) F_RST = true
  end.
Proof.
  cbn zeta. unfold tcp_demux.
  destruct (find_connection k (p_dst p, p_dport p) (p_src p, p_sport p)); [reflexivity|].
  destruct (has (p_flags p) F_SYN && negb (has (p_flags p) F_ACK)).
  - destruct (find_listener k (p_dst p, p_dport p)); auto.
  - destruct (has (p_flags p) F_RST); cbn; auto.
Qed.

(* ---- the fabric ----------------------------------------------------------------------------- *)
Lemma route_from_spec hs a : forall i j,
  route_from i hs a = Some j ->
  (i <= j)%nat /\ exists k, nth_error hs (j - i) = Some k /\ mem_ip a (k_addrs k) = true.
Proof.
  induction hs as [|k r IH]; intros i j; cbn; [discriminate|].
  destruct (mem_ip a (k_addrs k)) eqn:E.
  - intros [= <-]. split; [lia|]. exists k. rewrite Nat.sub_diag. auto.
  - intros H. apply IH in H as (H1 & k' & H2 & H3). split; [lia|]. exists k'. split; [|exact H3].
    replace (j - i)%nat with (S (j - S i)) by lia. exact H2.
Qed.

Lemma route_from_none hs a : forall i,
  route_from i hs a = None -> forall k, In k hs -> mem_ip a (k_addrs k) = false.
Proof.
  induction hs as [|k r IH]; intros i; cbn; [intros _ k []|].
  destruct (mem_ip a (k_addrs k)) eqn:E; [discriminate|].
  intros H k' [<-|Hk]; [exact E|]. eapply IH; eauto.
Qed.

Lemma upd_nth_other {A} (l : list A) i f j : i <> j -> nth_error (upd_nth l i f) j = nth_error l j.
Proof.
  revert i j. induction l as [|x r IH]; intros i j Hne; destruct i, j; cbn; try reflexivity; try congruence.
  apply IH. congruence.
Qed.

Lemma upd_nth_same {A} (l : list A) i f : nth_error (upd_nth l i f) i = option_map f (nth_error l i).
Proof. revert i. induction l as [|x r IH]; intros i; destruct i; cbn; auto. Qed.

Lemma upd_nth_length {A} (l : list A) i f : length (upd_nth l i f) = length l.
Proof. revert i. induction l as [|x r IH]; intros i; destruct i; cbn; auto. Qed.

Lemma fdeliver_spec hs p :
  length (fdeliver hs p) = length hs /\
  match route hs (p_dst p) with
  | Some i => (exists k, nth_error hs i = Some k /\ mem_ip (p_dst p) (k_addrs k) = true /\
                         nth_error (fdeliver hs p) i = Some (kdeliver k p)) /\
              (forall j, j <> i -> nth_error (fdeliver hs p) j = nth_error hs j)
  | None => fdeliver hs p = hs /\ forall k, In k hs -> mem_ip (p_dst p) (k_addrs k) = false
  end.
Proof.
  unfold fdeliver, route. destruct (route_from 0 hs (p_dst p)) as [i|] eqn:E.
  - split; [apply upd_nth_length|]. apply route_from_spec in E as (_ & k & H1 & H2).
    rewrite Nat.sub_0_r in H1. split.
    + exists k. split; [exact H1|]. split; [exact H2|]. now rewrite upd_nth_same, H1.
    + intros j Hj. apply upd_nth_other. congruence.
  - split; [reflexivity|]. split; [reflexivity|]. eapply route_from_none; eauto.
Qed.

(* ---- egress: nothing local leaves ------------------------------------------------------------- *)
Ltac break_match :=
  repeat match goal with
         | |- context [match ?x with _ => _ end] => destruct x eqn:?
         | |- context [if ?x then _ else _] => destruct x eqn:?
         end.

Lemma upd_addrs k fd f : k_addrs (upd k fd f) = k_addrs k. Proof. reflexivity. Qed.
Lemma emit_addrs k s d f t : k_addrs (emit k s d f t) = k_addrs k. Proof. reflexivity. Qed.
Lemma remove_addrs k fd : k_addrs (remove k fd) = k_addrs k. Proof. reflexivity. Qed.

Lemma push_to_listener_addrs k c l : k_addrs (push_to_listener k c l) = k_addrs k.
Proof. unfold push_to_listener. destruct (find_listener k l); reflexivity. Qed.

Lemma accept_syn_addrs k l a b : k_addrs (accept_syn k l a b) = k_addrs k.
Proof.
  unfold accept_syn, insert_sock. destruct (get k l) as [s|]; [|reflexivity].
  destruct (s_listen s) as [[bl rd]|]; [|reflexivity].
  destruct (bl <=? count_children k l a + N.of_nat (length rd)); reflexivity.
Qed.

Lemma conn_deliver_addrs k fd a b p : k_addrs (conn_deliver k fd a b p) = k_addrs k.
Proof.
  unfold conn_deliver. break_match; try reflexivity; rewrite ?emit_addrs, ?push_to_listener_addrs; reflexivity.
Qed.

Lemma kdeliver_addrs k p : k_addrs (kdeliver k p) = k_addrs k.
Proof.
  unfold kdeliver, udp_deliver, tcp_deliver, emit_rst.
  break_match; try reflexivity; rewrite ?conn_deliver_addrs, ?accept_syn_addrs; reflexivity.
Qed.

Lemma egress_pass_spec drained : forall k,
  k_addrs (fst (egress_pass k drained)) = k_addrs k /\
  snd (egress_pass k drained) = filter (fun p => negb (is_local (k_addrs k) (p_dst p))) drained.
Proof.
  induction drained as [|p r IH]; intros k; cbn [egress_pass filter]; [split; reflexivity|].
  unfold is_local_k. destruct (is_local (k_addrs k) (p_dst p)) eqn:E; cbn [negb].
  - destruct (IH (kdeliver k p)) as [H1 H2]. rewrite kdeliver_addrs in *. split; assumption.
  - destruct (IH k) as [H1 H2]. destruct (egress_pass k r) as [k' o]. cbn in *. split; [exact H1|now rewrite H2].
Qed.

Lemma egress_loop_spec fuel : forall k,
  k_addrs (fst (egress_loop fuel k)) = k_addrs k /\
  Forall (fun p => is_local (k_addrs k) (p_dst p) = false) (snd (egress_loop fuel k)).
Proof.
  induction fuel as [|f IH]; intros k; cbn [egress_loop]; [split; [reflexivity|constructor]|].
  destruct (k_out k) as [|p0 l0] eqn:E; [split; [reflexivity|constructor]|].
  destruct (egress_pass_spec (p0 :: l0) (set_out k [])) as [H1 H2].
  destruct (egress_pass (set_out k []) (p0 :: l0)) as [k1 o]. cbn [fst snd] in *.
  destruct (IH k1) as [H3 H4]. destruct (egress_loop f k1) as [k2 o']. cbn [fst snd] in *.
  change (k_addrs (set_out k [])) with (k_addrs k) in *.
  split; [congruence|]. apply Forall_app; split.
  - rewrite H2. apply Forall_forall. intros x Hx. apply filter_In in Hx as [_ Hx]. now apply negb_true_iff in Hx.
  - rewrite H1 in H4. exact H4.
Qed.

Lemma kegress_nonlocal fuel k :
  Forall (fun p => is_local (k_addrs k) (p_dst p) = false) (snd (kegress_k fuel k)).
Proof.
  unfold kegress_k. destruct (egress_loop_spec fuel k) as [_ H].
  destruct (egress_loop fuel k) as [k1 o]. exact H.
Qed.
