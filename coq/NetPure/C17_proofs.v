(* Lemmas for property C17 (bind / ephemeral ports / close / demux / routing). *)
From TV.Lib Require Import Base.
From TV.NetPure Require Import Gen Ip Sock.
Open Scope N_scope.
