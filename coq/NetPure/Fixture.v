(* TV.NetPure.Fixture — rule chain + scheduler + per-host outbound queues put
   together the way fixture::lo / fixture::ClientServer (and a hand-written
   harness loop) drive them.  Used by the correspondence check of C19.
   No proofs in this file.

     FTick dt   = Scheduler::tick(guard, dt): advance, deliver due packets,
                  egress_all (hosts in registration order, loopback folds back
                  inside Kernel::egress), Net::evaluate + route per packet
     FPump      = the manual loop: egress_all, then evaluate every packet
     rspec      = the closed family of rule closures the harness installs *)
From TV.Lib Require Import Base.
From TV.NetPure Require Import Ip Rules Sched.
Open Scope N_scope.

Inductive rspec :=
| RConst (v : verdict)
| RSeq (vs : list verdict) (dflt : verdict)           (* k-th invocation -> k-th verdict *)
| RByTag (tbl : list (N * verdict)) (dflt : verdict)  (* by ghost id / payload tag *)
| RByDst (tbl : list (ip * verdict)) (dflt : verdict)
| RBySrc (tbl : list (ip * verdict)) (dflt : verdict)
| RProto (proto : N) (v : verdict) (dflt : verdict).

Fixpoint lookupN (k : N) (tbl : list (N * verdict)) (d : verdict) : verdict :=
  match tbl with [] => d | (k', v) :: r => if k =? k' then v else lookupN k r d end.
Fixpoint lookupIp (k : ip) (tbl : list (ip * verdict)) (d : verdict) : verdict :=
  match tbl with [] => d | (k', v) :: r => if ip_eqb k k' then v else lookupIp k r d end.

Definition interp (r : rspec) (seen : list pkt) (p : pkt) : verdict :=
  match r with
  | RConst v => v
  | RSeq vs d => nth (length seen) vs d
  | RByTag tbl d => lookupN (p_id p) tbl d
  | RByDst tbl d => lookupIp (p_dst p) tbl d
  | RBySrc tbl d => lookupIp (p_src p) tbl d
  | RProto pr v d => if p_proto p =? pr then v else d
  end.

Record host := mkhost { h_addrs : list ip; h_out : list pkt }.
Record fixt := mkfixt { f_chain : chain pkt; f_sched : sched pkt; f_hosts : list host }.

Definition fixt0 (addrs : list (list ip)) : fixt :=
  mkfixt chain0 sched0 (map (fun a => mkhost a []) addrs).

Inductive fev :=
| FInstall (guarded : bool) (r : rspec)
| FDropGuard (id : N)
| FForget (id : N)
| FSend (h : nat) (p : pkt)
| FTick (dt : N)
| FTickIn (dt : N) (ps : list pkt)
| FPump
| FEvalIn (ps : list pkt).

(* Kernel::egress of a host that only carries datagrams: folding a packet back
   queues nothing new.  The "rest of the kernel" is the list of packets that
   were folded (delivered to the host's own sockets). *)
Definition host_egress (h : host) : host * list pkt * list pkt :=
  let '(folded, _, out) :=
    kegress (list pkt) (fun st => (st, [])) (fun st p => (st ++ [p], [])) 2 (h_addrs h) [] (h_out h) in
  (mkhost (h_addrs h) [], folded, out).

(* Fabric::egress_all: hosts in registration order *)
Fixpoint egress_all (hs : list host) : list host * list pkt * list pkt :=
  match hs with
  | [] => ([], [], [])
  | h :: r => let '(h', f, o) := host_egress h in
              let '(r', f', o') := egress_all r in (h' :: r', f ++ f', o ++ o')
  end.

Fixpoint push_out (hs : list host) (i : nat) (p : pkt) : list host :=
  match hs, i with
  | [], _ => []
  | h :: r, O => mkhost (h_addrs h) (h_out h ++ [p]) :: r
  | h :: r, Datatypes.S j => h :: push_out r j p
  end.

(* evaluate every packet in order through the chain *)
Fixpoint eval_all (c : chain pkt) (ps : list pkt)
  : chain pkt * list (pkt * verdict) * list (N * list N * verdict) :=
  match ps with
  | [] => (c, [], [])
  | p :: r => let '(c1, v, log) := evaluate c p in
              let '(c2, pvs, logs) := eval_all c1 r in
              (c2, (p, v) :: pvs, (p_id p, log, v) :: logs)
  end.

Definition vcode (v : verdict) : N * N :=
  match v with Pass => (0, 0) | Deliver d => (1, d) | Drop => (2, 0) end.

(* observation of one event, as plain data:
   (kind, a, due ids, folded ids, immediate ids, [(pkt id, invoked rule ids, verdict code, delay)]) *)
Definition obs := (N * N * list N * list N * list N * list (N * list N * N * N))%type.

Definition enc_logs (logs : list (N * list N * verdict)) : list (N * list N * N * N) :=
  map (fun x => match x with (i, l, v) => (i, l, fst (vcode v), snd (vcode v)) end) logs.

Definition quiet (a : N) : obs := (0, a, [], [], [], []).

Definition do_tick (f : fixt) (dt : N) (hs : list host) (folded out : list pkt) : fixt * obs :=
  let '(c, pvs, logs) := eval_all (f_chain f) out in
  let '(s, o) := tick (f_sched f) dt pvs in
  (mkfixt c s hs,
   (1, o_at o, map p_id (o_due o), map p_id folded, map p_id (o_imm o), enc_logs logs)).

Definition fstep (f : fixt) (e : fev) : fixt * obs :=
  match e with
  | FInstall g r => let '(c, id) := install (f_chain f) g (interp r) in
                    (mkfixt c (f_sched f) (f_hosts f), quiet id)
  | FDropGuard id => (mkfixt (drop_guard (f_chain f) id) (f_sched f) (f_hosts f), quiet 0)
  | FForget id => (mkfixt (forget (f_chain f) id) (f_sched f) (f_hosts f), quiet 0)
  | FSend h p => (mkfixt (f_chain f) (f_sched f) (push_out (f_hosts f) h p), quiet 0)
  | FTick dt => let '(hs, folded, out) := egress_all (f_hosts f) in do_tick f dt hs folded out
  | FTickIn dt ps => do_tick f dt (f_hosts f) [] ps
  | FPump => let '(hs, folded, out) := egress_all (f_hosts f) in
             let '(c, pvs, logs) := eval_all (f_chain f) out in
             (mkfixt c (f_sched f) hs, (2, 0, [], map p_id folded, map p_id (immediate pvs), enc_logs logs))
  | FEvalIn ps => let '(c, pvs, logs) := eval_all (f_chain f) ps in
                  (mkfixt c (f_sched f) (f_hosts f), (2, 0, [], [], map p_id (immediate pvs), enc_logs logs))
  end.

Fixpoint frun (f : fixt) (es : list fev) : list obs :=
  match es with
  | [] => []
  | e :: r => let '(f1, o) := fstep f e in o :: frun f1 r
  end.

Definition frun_enc (addrs : list (list ip)) (es : list fev) : list obs := frun (fixt0 addrs) es.
