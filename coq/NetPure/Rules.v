(* TV.NetPure.Rules — the rule chain of crates/turmoil-net/src/lib.rs and rule.rs.
   No proofs in this file.

     verdict              = rule::Verdict (delay in ns)
     rule                 = a Box<dyn Rule>: an arbitrary deterministic FnMut.
                            Its private state is represented by the list of
                            packets it has been shown so far (r_seen); its
                            answer is an arbitrary function of that history and
                            the packet (r_beh).  Theorems quantify over r_beh.
     chain                = Net.rules (IndexMap<RuleId, Box<dyn Rule>>, insertion
                            order) + Net.next_rule_id + the set of live RuleGuards
     install              = Net::install_rule   (Net::rule / EnterGuard::rule / rule())
     uninstall            = Net::uninstall_rule (IndexMap::shift_remove)
     drop_guard / forget  = Drop for RuleGuard / RuleGuard::forget
     eval_rules, evaluate = Net::evaluate *)
From TV.Lib Require Import Base.
Open Scope N_scope.

Inductive verdict := Pass | Deliver (d : N) | Drop.

Definition is_pass (v : verdict) : bool := match v with Pass => true | _ => false end.

Section Chain.
Variable P : Type.

Record rule := mkrule { r_beh : list P -> P -> verdict; r_seen : list P }.

Definition answer (r : rule) (p : P) : verdict := r_beh r (r_seen r) p.
Definition touch (r : rule) (p : P) : rule := mkrule (r_beh r) (r_seen r ++ [p]).

Record chain := mkchain {
  c_rules : list (N * rule);      (* installation order *)
  c_next : N;                     (* next_rule_id *)
  c_guards : list N               (* ids whose RuleGuard is still owned by someone *)
}.

Definition chain0 : chain := mkchain [] 1 [].

Definition ids (c : chain) : list N := map fst (c_rules c).

Definition install (c : chain) (guarded : bool) (b : list P -> P -> verdict) : chain * N :=
  let id := c_next c in
  (mkchain (c_rules c ++ [(id, mkrule b [])]) (id + 1)
           (if guarded then c_guards c ++ [id] else c_guards c), id).

Definition remove_id (id : N) (rs : list (N * rule)) : list (N * rule) :=
  filter (fun ir => negb (fst ir =? id)) rs.

Definition uninstall (c : chain) (id : N) : chain :=
  mkchain (remove_id id (c_rules c)) (c_next c) (c_guards c).

Definition has_guard (c : chain) (id : N) : bool := existsb (N.eqb id) (c_guards c).
Definition release_guard (c : chain) (id : N) : chain :=
  mkchain (c_rules c) (c_next c) (filter (fun g => negb (g =? id)) (c_guards c)).

(* Dropping a RuleGuard uninstalls its rule.  Only a guard somebody still owns
   can be dropped (Rust ownership); forget consumes the guard without
   uninstalling. *)
Definition drop_guard (c : chain) (id : N) : chain :=
  if has_guard c id then uninstall (release_guard c id) id else c.
Definition forget (c : chain) (id : N) : chain := release_guard c id.

(* Net::evaluate: walk in order, first non-Pass wins; returns the updated rules
   (every consulted rule has seen the packet), the verdict and the ids of the
   rules that were invoked, in invocation order. *)
Fixpoint eval_rules (rs : list (N * rule)) (p : P) : list (N * rule) * verdict * list N :=
  match rs with
  | [] => ([], Pass, [])
  | (id, r) :: rest =>
      match answer r p with
      | Pass => let '(rest', v, log) := eval_rules rest p in ((id, touch r p) :: rest', v, id :: log)
      | v => ((id, touch r p) :: rest, v, [id])
      end
  end.

Definition evaluate (c : chain) (p : P) : chain * verdict * list N :=
  let '(rs, v, log) := eval_rules (c_rules c) p in
  (mkchain rs (c_next c) (c_guards c), v, log).

(* ---- histories of chain operations ------------------------------------ *)
Inductive cev :=
| CInstall (guarded : bool) (b : list P -> P -> verdict)
| CDropGuard (id : N)
| CForget (id : N)
| CEval (p : P).

(* observation of one operation: the ids of the rules invoked (empty for
   non-Eval operations) and the verdict *)
Definition cstep (c : chain) (e : cev) : chain * (list N * verdict) :=
  match e with
  | CInstall g b => (fst (install c g b), ([], Pass))
  | CDropGuard id => (drop_guard c id, ([], Pass))
  | CForget id => (forget c id, ([], Pass))
  | CEval p => let '(c', v, log) := evaluate c p in (c', (log, v))
  end.

Fixpoint crun (c : chain) (es : list cev) : chain * list (list N * verdict) :=
  match es with
  | [] => (c, [])
  | e :: es' => let '(c1, o) := cstep c e in let '(c2, os) := crun c1 es' in (c2, o :: os)
  end.

End Chain.

Arguments mkrule {P}. Arguments r_beh {P}. Arguments r_seen {P}.
Arguments answer {P}. Arguments touch {P}.
Arguments mkchain {P}. Arguments c_rules {P}. Arguments c_next {P}. Arguments c_guards {P}.
Arguments chain0 {P}. Arguments ids {P}. Arguments install {P}. Arguments remove_id {P}.
Arguments uninstall {P}. Arguments has_guard {P}. Arguments release_guard {P}.
Arguments drop_guard {P}. Arguments forget {P}. Arguments eval_rules {P}. Arguments evaluate {P}.
Arguments CInstall {P}. Arguments CDropGuard {P}. Arguments CForget {P}. Arguments CEval {P}.
Arguments cstep {P}. Arguments crun {P}.
