(* TV.NetPure.Sched — the fixture scheduler, crates/turmoil-net/src/fixture/scheduler.rs,
   and the loopback fold of Kernel::egress (kernel/mod.rs).  No proofs here.

     entry            = struct Scheduled { deliver_at, seq, pkt }
     sched            = struct Scheduler { now, pending, next_seq } (egress is a scratch buffer)
     insert           = the binary_search_by((deliver_at, seq)) + Vec::insert of
                        Scheduler::schedule: the new entry goes in front of the
                        first entry whose key is >= its own.  (On a list sorted
                        by key -- theorem pending_sorted -- every correct binary
                        search returns that position.)
     schedule         = Scheduler::schedule
     split_due        = `position(|s| s.deliver_at > now)` + `drain(..ready_end)`
     route            = the match on the verdict inside Scheduler::tick
     tick             = Scheduler::tick, given the packets drained by egress_all
                        together with the verdicts Net::evaluate returned for them
     kegress          = Kernel::egress: drain `outbound`; packets with a local
                        destination fold back through deliver (which may queue
                        more packets), the others are appended to `out`. *)
From TV.Lib Require Import Base.
From TV.NetPure Require Import Rules.
Open Scope N_scope.

Section Sched.
Variable P : Type.

Record entry := mkentry { e_at : N; e_seq : N; e_pkt : P }.
Record sched := mksched { s_now : N; s_pending : list entry; s_next : N }.
Definition sched0 : sched := mksched 0 [] 0.

(* (deliver_at, seq) <= (deliver_at', seq') lexicographically *)
Definition key_leb (a b : entry) : bool :=
  (e_at a <? e_at b) || ((e_at a =? e_at b) && (e_seq a <=? e_seq b)).

Fixpoint insert (e : entry) (l : list entry) : list entry :=
  match l with
  | [] => [e]
  | x :: r => if key_leb e x then e :: l else x :: insert e r
  end.

Definition schedule (s : sched) (p : P) (d : N) : sched :=
  mksched (s_now s) (insert (mkentry (s_now s + d) (s_next s) p) (s_pending s)) (s_next s + 1).

Fixpoint split_due (now : N) (l : list entry) : list entry * list entry :=
  match l with
  | [] => ([], [])
  | x :: r => if now <? e_at x then ([], l)
              else let '(a, b) := split_due now r in (x :: a, b)
  end.

Definition route (s : sched) (p : P) (v : verdict) : sched * list P :=
  match v with
  | Drop => (s, [])
  | Pass => (s, [p])
  | Deliver d => if d =? 0 then (s, [p]) else (schedule s p d, [])
  end.

Fixpoint route_all (s : sched) (pvs : list (P * verdict)) : sched * list P :=
  match pvs with
  | [] => (s, [])
  | (p, v) :: r => let '(s1, o1) := route s p v in
                   let '(s2, o2) := route_all s1 r in (s2, o1 ++ o2)
  end.

(* what one tick hands to EnterGuard::deliver, in order: first the due
   packets, then the packets routed immediately *)
Record tout := mktout { o_from : N; o_at : N; o_due : list P; o_imm : list P }.
Definition o_all (o : tout) : list P := o_due o ++ o_imm o.

Definition tick (s : sched) (dt : N) (pvs : list (P * verdict)) : sched * tout :=
  let now' := s_now s + dt in
  let '(rdy, rest) := split_due now' (s_pending s) in
  let '(s', imm) := route_all (mksched now' rest (s_next s)) pvs in
  (s', mktout (s_now s) now' (map e_pkt rdy) imm).

Fixpoint srun (s : sched) (ticks : list (N * list (P * verdict))) : sched * list tout :=
  match ticks with
  | [] => (s, [])
  | (dt, pvs) :: r => let '(s1, o) := tick s dt pvs in
                      let '(s2, os) := srun s1 r in (s2, o :: os)
  end.

(* ---- declarative side: what was emitted when ---------------------------- *)

(* every packet drained by egress_all, with the scheduler time of its tick *)
Fixpoint emissions (now : N) (ticks : list (N * list (P * verdict))) : list (N * P * verdict) :=
  match ticks with
  | [] => []
  | (dt, pvs) :: r => map (fun pv => (now + dt, fst pv, snd pv)) pvs ++ emissions (now + dt) r
  end.

(* the Scheduled entries created for a list of emissions, numbering from k *)
Fixpoint delayed (k : N) (ems : list (N * P * verdict)) : list entry :=
  match ems with
  | [] => []
  | (t, p, Deliver d) :: r => if d =? 0 then delayed k r else mkentry (t + d) k p :: delayed (k + 1) r
  | _ :: r => delayed k r
  end.

Definition isort (l : list entry) : list entry := fold_left (fun acc e => insert e acc) l [].

Definition in_window (lo hi : N) (e : entry) : bool := (lo <? e_at e) && (e_at e <=? hi).

Definition immediate (pvs : list (P * verdict)) : list P :=
  flat_map (fun pv => match snd pv with
                      | Pass => [fst pv]
                      | Deliver d => if d =? 0 then [fst pv] else []
                      | Drop => [] end) pvs.

End Sched.

Arguments mkentry {P}. Arguments e_at {P}. Arguments e_seq {P}. Arguments e_pkt {P}.
Arguments mksched {P}. Arguments s_now {P}. Arguments s_pending {P}. Arguments s_next {P}.
Arguments sched0 {P}. Arguments key_leb {P}. Arguments insert {P}. Arguments schedule {P}.
Arguments split_due {P}. Arguments route {P}. Arguments route_all {P}.
Arguments mktout {P}. Arguments o_from {P}. Arguments o_at {P}. Arguments o_due {P}. Arguments o_imm {P}.
Arguments o_all {P}. Arguments tick {P}. Arguments srun {P}. Arguments emissions {P}.
Arguments delayed {P}. Arguments isort {P}. Arguments in_window {P}. Arguments immediate {P}.

(* ---- Kernel::egress ------------------------------------------------------ *)
From TV.NetPure Require Import Ip.

Section Egress.
Variable S : Type.                              (* the rest of the kernel state *)
Variable segment : S -> S * list pkt.           (* tcp::segment_all: may queue packets *)
Variable handle : S -> pkt -> S * list pkt.     (* Kernel::deliver of a folded packet: may queue packets *)

Fixpoint fold_local (addrs : list ip) (st : S) (drained : list pkt) : S * list pkt * list pkt :=
  (* -> (state, newly queued outbound, appended to out) *)
  match drained with
  | [] => (st, [], [])
  | p :: r =>
      if is_local addrs (p_dst p)
      then let '(st1, q1) := handle st p in
           let '(st2, q2, o2) := fold_local addrs st1 r in (st2, q1 ++ q2, o2)
      else let '(st2, q2, o2) := fold_local addrs st r in (st2, q2, p :: o2)
  end.

(* the `loop` of Kernel::egress; `fuel` bounds the number of passes (the Rust
   loop runs until a pass leaves `outbound` empty) *)
Fixpoint kegress (fuel : nat) (addrs : list ip) (st : S) (outbound : list pkt)
  : S * list pkt * list pkt :=
  (* -> (state, still queued when fuel ran out, out) *)
  match fuel with
  | O => (st, outbound, [])
  | Datatypes.S f =>
      let '(st1, q) := segment st in
      let ob := outbound ++ q in
      match ob with
      | [] => (st1, [], [])
      | _ => let '(st2, q2, o) := fold_local addrs st1 ob in
             let '(st3, rest, o') := kegress f addrs st2 q2 in (st3, rest, o ++ o')
      end
  end.
End Egress.
