(* Lemmas for property C19 (rule chains and the fixture scheduler). *)
From TV.Lib Require Import Base.
From Coq Require Import Sorted Permutation.
From TV.NetPure Require Import Ip Rules Sched.
Open Scope N_scope.

(* ======================================================================== *)
(* 1. the rule chain                                                         *)
(* ======================================================================== *)
Section ChainProofs.
Variable P : Type.
Notation rule := (rule P).
Notation chain := (chain P).

Definition passes (p : P) (ir : N * rule) : Prop := answer (snd ir) p = Pass.
Definition touched (p : P) (ir : N * rule) : N * rule := (fst ir, touch (snd ir) p).

(* Net::evaluate, declaratively *)
Definition first_match (rs : list (N * rule)) (p : P)
           (rs' : list (N * rule)) (v : verdict) (log : list N) : Prop :=
  (exists pre id r post,
      rs = pre ++ (id, r) :: post /\ Forall (passes p) pre /\
      answer r p = v /\ v <> Pass /\
      log = map fst pre ++ [id] /\
      rs' = map (touched p) pre ++ (id, touch r p) :: post)
  \/ (Forall (passes p) rs /\ v = Pass /\ log = map fst rs /\ rs' = map (touched p) rs).

Lemma eval_rules_first_match (rs : list (N * rule)) (p : P) :
  let '(rs', v, log) := eval_rules rs p in first_match rs p rs' v log.
Proof.
  induction rs as [|[id r] rest IH]; cbn [eval_rules].
  - right. repeat split; constructor.
  - destruct (answer r p) eqn:Ha.
    + destruct (eval_rules rest p) as [[rest' v] log].
      destruct IH as [(pre & id' & r' & post & E & Hp & Hv & Hn & Hl & Hr)|(Hp & Hv & Hl & Hr)].
      * left. exists ((id, r) :: pre), id', r', post. subst rest log rest'. cbn.
        split; [reflexivity|]. split; [constructor; [exact Ha|exact Hp]|].
        split; [exact Hv|]. split; [exact Hn|]. split; reflexivity.
      * right. subst v log rest'. cbn.
        split; [constructor; [exact Ha|exact Hp]|]. repeat split.
    + left. exists [], id, r, rest. cbn. repeat split; try constructor; try discriminate; auto.
    + left. exists [], id, r, rest. cbn. repeat split; try constructor; try discriminate; auto.
Qed.

Lemma eval_rules_ids (rs : list (N * rule)) (p : P) : map fst (fst (fst (eval_rules rs p))) = map fst rs.
Proof.
  induction rs as [|[id r] rest IH]; cbn; [reflexivity|].
  destruct (answer r p); cbn; try reflexivity.
  destruct (eval_rules rest p) as [[rest' v] log]; cbn in *. now rewrite IH.
Qed.

Lemma eval_rules_log_sub (rs : list (N * rule)) (p : P) : incl (snd (eval_rules rs p)) (map fst rs).
Proof.
  induction rs as [|[id r] rest IH]; cbn; [intros x []|].
  destruct (answer r p); cbn.
  - destruct (eval_rules rest p) as [[rest' v] log]; cbn in *.
    intros x [<-|Hx]; [now left|right; auto].
  - intros x [<-|[]]; now left.
  - intros x [<-|[]]; now left.
Qed.

End ChainProofs.

(* ---- installation, removal, guards --------------------------------------- *)
Section ChainHistory.
Variable P : Type.
Notation rule := (rule P).
Notation chain := (chain P).
Notation cev := (cev P).

Definition keep (id : N) (i : N) : bool := negb (i =? id).

Lemma remove_id_ids id (rs : list (N * rule)) :
  map fst (remove_id id rs) = filter (keep id) (map fst rs).
Proof.
  induction rs as [|[i r] rs IH]; [reflexivity|].
  cbn [remove_id filter map fst]. unfold keep at 1. fold (remove_id id rs).
  destruct (negb (i =? id)); cbn [map fst]; now rewrite IH.
Qed.

Lemma uninstall_ids (c : chain) id : ids (uninstall c id) = filter (keep id) (ids c).
Proof. apply remove_id_ids. Qed.

Lemma uninstall_keeps_rule (c : chain) id i r :
  i <> id -> (In (i, r) (c_rules (uninstall c id)) <-> In (i, r) (c_rules c)).
Proof.
  intros Hne. cbn. unfold remove_id. rewrite filter_In. cbn.
  apply N.eqb_neq in Hne. rewrite Hne. cbn. tauto.
Qed.

Lemma uninstall_removes (c : chain) id : ~ In id (ids (uninstall c id)).
Proof.
  rewrite uninstall_ids, filter_In. unfold keep. rewrite N.eqb_refl. cbn. intros [_ H]; discriminate.
Qed.

Lemma install_ids (c : chain) g b : ids (fst (install c g b)) = ids c ++ [c_next c].
Proof. unfold ids; cbn. now rewrite map_app. Qed.

Lemma evaluate_ids (c : chain) p : ids (fst (fst (evaluate c p))) = ids c.
Proof.
  unfold evaluate, ids. pose proof (eval_rules_ids P (c_rules c) p) as H.
  destruct (eval_rules (c_rules c) p) as [[rs v] log]. exact H.
Qed.

Lemma evaluate_log_sub (c : chain) p : incl (snd (evaluate c p)) (ids c).
Proof.
  unfold evaluate, ids. pose proof (eval_rules_log_sub P (c_rules c) p) as H.
  destruct (eval_rules (c_rules c) p) as [[rs v] log]. exact H.
Qed.

Lemma evaluate_next (c : chain) p :
  c_next (fst (fst (evaluate c p))) = c_next c /\ c_guards (fst (fst (evaluate c p))) = c_guards c.
Proof. unfold evaluate. destruct (eval_rules (c_rules c) p) as [[rs v] log]. now cbn. Qed.

(* well-formed: the chain is in installation order (ids strictly increasing),
   every id and every live guard is older than next_rule_id *)
Definition wf (c : chain) : Prop :=
  StronglySorted N.lt (ids c) /\
  Forall (fun i => i < c_next c) (ids c) /\
  Forall (fun g => g < c_next c) (c_guards c).

Lemma SS_filter {A} (R : A -> A -> Prop) f l : StronglySorted R l -> StronglySorted R (filter f l).
Proof.
  induction 1 as [|a l Hs IH Ha]; cbn; [constructor|].
  destruct (f a); [constructor|]; auto.
  rewrite Forall_forall in *. intros x Hx. apply filter_In in Hx. apply Ha. tauto.
Qed.

Lemma SS_snoc {A} (R : A -> A -> Prop) l x :
  StronglySorted R l -> Forall (fun y => R y x) l -> StronglySorted R (l ++ [x]).
Proof.
  induction 1 as [|a l Hs IH Ha]; cbn; intros Hx.
  - repeat constructor.
  - inversion Hx; subst. constructor; auto.
    apply Forall_app; split; auto.
Qed.

Lemma Forall_filter {A} (Q : A -> Prop) f l : Forall Q l -> Forall Q (filter f l).
Proof.
  rewrite !Forall_forall. intros H x Hx. apply filter_In in Hx. apply H. tauto.
Qed.

Lemma wf_chain0 : wf chain0.
Proof. repeat split; constructor. Qed.

Lemma has_guard_In (c : chain) id : has_guard c id = true <-> In id (c_guards c).
Proof.
  unfold has_guard. rewrite existsb_exists. split.
  - intros (x & Hx & E). apply N.eqb_eq in E. now subst.
  - intros H. exists id. split; auto. apply N.eqb_refl.
Qed.

Lemma wf_step (c : chain) e : wf c -> wf (fst (cstep c e)).
Proof.
  intros (Hs & Hi & Hg). destruct e as [g b|id|id|p]; cbn [cstep fst].
  - unfold wf. rewrite install_ids. cbn [install fst c_next c_guards].
    split; [apply SS_snoc; auto|]. split.
    + apply Forall_app; split; [|repeat constructor; lia].
      eapply Forall_impl; [|exact Hi]. cbn; intros; lia.
    + destruct g; [apply Forall_app; split|]; try (repeat constructor; lia);
        (eapply Forall_impl; [|exact Hg]; cbn; intros; lia).
  - unfold drop_guard. destruct (has_guard c id); [|repeat split; auto].
    unfold wf. rewrite uninstall_ids. cbn.
    split; [apply SS_filter; auto|]. split; apply Forall_filter; auto.
  - unfold wf, forget; cbn. repeat split; auto. apply Forall_filter; auto.
  - pose proof (evaluate_ids c p) as E. pose proof (evaluate_next c p) as [En Eg].
    destruct (evaluate c p) as [[c' v] log]. cbn in *. unfold wf. rewrite E, En, Eg. auto.
Qed.

Lemma crun_cons (c : chain) e es :
  crun c (e :: es) = (fst (crun (fst (cstep c e)) es), snd (cstep c e) :: snd (crun (fst (cstep c e)) es)).
Proof.
  cbn [crun]. destruct (cstep c e) as [c1 o]. cbn. destruct (crun c1 es). reflexivity.
Qed.

Lemma wf_run (c : chain) es : wf c -> wf (fst (crun c es)).
Proof.
  revert c. induction es as [|e es IH]; intros c H; [exact H|].
  rewrite crun_cons. cbn. apply IH, wf_step, H.
Qed.

Definition consulted (os : list (list N * verdict)) : list N := flat_map fst os.

(* once a rule is gone (and its id is older than next_rule_id, so it can never
   be handed out again) no evaluation ever invokes it *)
Lemma gone_stays_gone (id : N) es : forall c : chain,
  wf c -> id < c_next c -> ~ In id (ids c) ->
  ~ In id (consulted (snd (crun c es))) /\ ~ In id (ids (fst (crun c es))).
Proof.
  induction es as [|e es IH]; intros c Hw Hlt Hn; [cbn; tauto|].
  rewrite crun_cons. cbn [fst snd consulted flat_map].
  assert (Hstep : id < c_next (fst (cstep c e)) /\ ~ In id (ids (fst (cstep c e))) /\
                  ~ In id (fst (snd (cstep c e)))).
  { destruct e as [g b|j|j|p]; cbn [cstep fst snd].
    - rewrite install_ids. cbn. repeat split; [lia| |tauto].
      rewrite in_app_iff. cbn. intros [H|[H|[]]]; [tauto|lia].
    - unfold drop_guard. destruct (has_guard c j); cbn [fst snd]; [|tauto].
      split; [exact Hlt|]. split; [|tauto].
      rewrite uninstall_ids, filter_In. unfold release_guard, ids in *; cbn. tauto.
    - cbn. tauto.
    - pose proof (evaluate_ids c p) as E. pose proof (evaluate_next c p) as [En _].
      pose proof (evaluate_log_sub c p) as Hl.
      destruct (evaluate c p) as [[c' v] log]. cbn in *. rewrite E, En.
      repeat split; auto. }
  destruct Hstep as (H1 & H2 & H3).
  destruct (IH (fst (cstep c e)) (wf_step c e Hw) H1 H2) as [IH1 IH2].
  split; [|exact IH2]. rewrite in_app_iff. tauto.
Qed.

Lemma removed_never_consulted_lemma (es1 : list cev) id es2 :
  let c1 := fst (crun chain0 es1) in
  has_guard c1 id = true ->
  ~ In id (consulted (snd (crun c1 (CDropGuard id :: es2)))).
Proof.
  intros c1 Hg. pose proof (wf_run chain0 es1 wf_chain0) as Hw. fold c1 in Hw.
  rewrite crun_cons. cbn [cstep fst snd consulted flat_map app].
  unfold drop_guard. rewrite Hg.
  destruct Hw as (Hs & Hi & Hgs).
  assert (Hlt : id < c_next c1).
  { apply has_guard_In in Hg. rewrite Forall_forall in Hgs. now apply Hgs. }
  apply gone_stays_gone.
  - pose proof (wf_step c1 (CDropGuard id) (conj Hs (conj Hi Hgs))) as H.
    cbn in H. unfold drop_guard in H. now rewrite Hg in H.
  - exact Hlt.
  - apply (uninstall_removes (release_guard c1 id) id).
Qed.

(* a rule whose guard nobody owns any more (forgotten, or installed through
   Net::rule) stays in the chain whatever happens *)
Lemma unguarded_stays (id : N) es : forall c : chain,
  wf c -> In id (ids c) -> has_guard c id = false ->
  In id (ids (fst (crun c es))) /\ has_guard (fst (crun c es)) id = false.
Proof.
  induction es as [|e es IH]; intros c Hw Hin Hg; [cbn; tauto|].
  rewrite crun_cons. cbn [fst]. apply IH; [apply wf_step, Hw| |].
  - destruct e as [g b|j|j|p]; cbn [cstep fst].
    + rewrite install_ids, in_app_iff. tauto.
    + unfold drop_guard. destruct (has_guard c j) eqn:Hj; [|exact Hin].
      rewrite uninstall_ids, filter_In. split; [exact Hin|].
      unfold keep. destruct (id =? j) eqn:E; [|reflexivity].
      apply N.eqb_eq in E. subst. congruence.
    + exact Hin.
    + pose proof (evaluate_ids c p) as E. destruct (evaluate c p) as [[c' v] log].
      cbn in *. now rewrite E.
  - assert (Hlt : id < c_next c).
    { destruct Hw as (_ & Hi & _). rewrite Forall_forall in Hi. now apply Hi. }
    destruct e as [g b|j|j|p]; cbn [cstep fst].
    + unfold has_guard in *. cbn. destruct g; [|exact Hg].
      rewrite existsb_app, Hg. cbn. rewrite orb_false_r. apply N.eqb_neq. lia.
    + unfold drop_guard. destruct (has_guard c j); [|exact Hg].
      unfold has_guard in *. cbn. apply not_true_is_false. intros H.
      apply existsb_exists in H as (x & Hx & E). apply filter_In in Hx as [Hx _].
      assert (existsb (N.eqb id) (c_guards c) = true) by (apply existsb_exists; eauto). congruence.
    + unfold has_guard in *. cbn. apply not_true_is_false. intros H.
      apply existsb_exists in H as (x & Hx & E). apply filter_In in Hx as [Hx _].
      assert (existsb (N.eqb id) (c_guards c) = true) by (apply existsb_exists; eauto). congruence.
    + pose proof (evaluate_next c p) as [_ Eg]. destruct (evaluate c p) as [[c' v] log].
      cbn in *. unfold has_guard in *. now rewrite Eg.
Qed.

Lemma forget_releases (c : chain) id : has_guard (forget c id) id = false.
Proof.
  unfold has_guard, forget, release_guard; cbn. apply not_true_is_false. intros H.
  apply existsb_exists in H as (x & Hx & E). apply N.eqb_eq in E. subst x.
  apply filter_In in Hx as [_ Hx]. rewrite N.eqb_refl in Hx. discriminate.
Qed.

Lemma forgotten_guard_stays_lemma (es1 : list cev) id es2 :
  let c1 := fst (crun chain0 es1) in
  In id (ids c1) ->
  In id (ids (fst (crun c1 (CForget id :: es2)))).
Proof.
  intros c1 Hin. rewrite crun_cons. cbn [cstep fst].
  apply unguarded_stays.
  - apply (wf_step c1 (CForget id)), wf_run, wf_chain0.
  - exact Hin.
  - apply forget_releases.
Qed.

Lemma permanent_rule_stays_lemma (es1 : list cev) b es2 :
  let c1 := fst (crun chain0 es1) in
  In (c_next c1) (ids (fst (crun c1 (CInstall false b :: es2)))).
Proof.
  intros c1. rewrite crun_cons. cbn [cstep fst].
  pose proof (wf_run chain0 es1 wf_chain0) as Hw. fold c1 in Hw.
  apply unguarded_stays.
  - apply (wf_step c1 (CInstall false b)), Hw.
  - rewrite install_ids, in_app_iff. right. now left.
  - unfold has_guard; cbn. apply not_true_is_false. intros H.
    apply existsb_exists in H as (x & Hx & E). apply N.eqb_eq in E. subst x.
    destruct Hw as (_ & _ & Hg). rewrite Forall_forall in Hg. apply Hg in Hx. lia.
Qed.

Lemma installation_order_lemma (es : list cev) :
  StronglySorted N.lt (ids (fst (crun chain0 es))).
Proof. apply (wf_run chain0 es wf_chain0). Qed.

End ChainHistory.

(* ======================================================================== *)
(* 2. the scheduler                                                          *)
(* ======================================================================== *)
Section SchedProofs.
Variable P : Type.
Notation entry := (entry P).
Notation sched := (sched P).
Notation tout := (tout P).
Notation emission := (N * P * verdict)%type.

Definition kle (a b : entry) : Prop := key_leb a b = true.
Definition sorted (l : list entry) : Prop := StronglySorted kle l.

Lemma key_leb_spec (a b : entry) :
  key_leb a b = true <-> (e_at a < e_at b \/ (e_at a = e_at b /\ e_seq a <= e_seq b)).
Proof.
  unfold key_leb. rewrite orb_true_iff, andb_true_iff, N.ltb_lt, N.eqb_eq, N.leb_le. tauto.
Qed.

Lemma kle_at (a b : entry) : kle a b -> e_at a <= e_at b.
Proof. unfold kle. rewrite key_leb_spec. lia. Qed.

Lemma kle_total (a b : entry) : key_leb a b = false -> kle b a.
Proof.
  unfold kle. intros H. apply key_leb_spec.
  destruct (key_leb b a) eqn:E; [now apply key_leb_spec|].
  assert (~ (e_at a < e_at b \/ (e_at a = e_at b /\ e_seq a <= e_seq b))) by (rewrite <- key_leb_spec; congruence).
  assert (~ (e_at b < e_at a \/ (e_at b = e_at a /\ e_seq b <= e_seq a))) by (rewrite <- key_leb_spec; congruence).
  lia.
Qed.

Lemma kle_trans (a b c : entry) : kle a b -> kle b c -> kle a c.
Proof. unfold kle. rewrite !key_leb_spec. lia. Qed.

Lemma in_insert (e x : entry) l : In x (insert e l) <-> x = e \/ In x l.
Proof.
  induction l as [|y l IH]; cbn; [intuition|].
  destruct (key_leb e y); cbn; [intuition|]. rewrite IH. intuition.
Qed.

Lemma insert_sorted e l : sorted l -> sorted (insert e l).
Proof.
  induction 1 as [|y l Hs IH Hy]; cbn; [repeat constructor|].
  destruct (key_leb e y) eqn:E.
  - constructor; [constructor; auto|]. constructor; [exact E|].
    eapply Forall_impl; [|exact Hy]. intros z Hz. eapply kle_trans; eauto.
  - constructor; [exact IH|]. rewrite Forall_forall in *. intros z Hz.
    apply in_insert in Hz as [->|Hz]; [now apply kle_total|auto].
Qed.

Lemma isort_snoc (l : list entry) e : isort (l ++ [e]) = insert e (isort l).
Proof. unfold isort. now rewrite fold_left_app. Qed.

Lemma isort_sorted (l : list entry) : sorted (isort l).
Proof.
  induction l as [|e l IH] using rev_ind; [constructor|].
  rewrite isort_snoc. now apply insert_sorted.
Qed.

Lemma in_isort (x : entry) l : In x (isort l) <-> In x l.
Proof.
  induction l as [|e l IH] using rev_ind; [reflexivity|].
  rewrite isort_snoc, in_insert, in_app_iff, IH. cbn. intuition.
Qed.

Definition later (now : N) (e : entry) : bool := now <? e_at e.

Lemma filter_insert (now : N) (e : entry) l :
  now < e_at e -> filter (later now) (insert e l) = insert e (filter (later now) l).
Proof.
  intros He. assert (Le : later now e = true) by (apply N.ltb_lt; exact He).
  induction l as [|x l IH]; cbn; [now rewrite Le|].
  destruct (key_leb e x) eqn:E.
  - assert (Lx : later now x = true).
    { apply N.ltb_lt. apply kle_at in E. lia. }
    cbn. rewrite Le, Lx. cbn. now rewrite E.
  - cbn. destruct (later now x) eqn:Lx; cbn; rewrite IH; [now rewrite E|reflexivity].
Qed.

Lemma sorted_filter f (l : list entry) : sorted l -> sorted (filter f l).
Proof. apply SS_filter. Qed.

Lemma split_due_sorted (now : N) (l : list entry) : sorted l ->
  split_due now l = (filter (fun x => e_at x <=? now) l, filter (later now) l).
Proof.
  induction 1 as [|x l Hs IH Hx]; cbn; [reflexivity|].
  unfold later at 1. destruct (now <? e_at x) eqn:E.
  - apply N.ltb_lt in E.
    assert (A : forall y, In y l -> now < e_at y).
    { rewrite Forall_forall in Hx. intros y Hy. apply Hx, kle_at in Hy. lia. }
    assert (E1 : (e_at x <=? now) = false) by (apply N.leb_gt; lia). rewrite E1.
    f_equal.
    + clear -A. induction l as [|y l IH]; cbn; [reflexivity|].
      assert ((e_at y <=? now) = false) as -> by (apply N.leb_gt, A; now left).
      apply IH. intros; apply A; now right.
    + f_equal. clear -A. induction l as [|y l IH]; cbn; [reflexivity|].
      unfold later at 1. assert ((now <? e_at y) = true) as -> by (apply N.ltb_lt, A; now left).
      f_equal. apply IH. intros; apply A; now right.
  - rewrite IH. assert ((e_at x <=? now) = true) as -> by (apply N.leb_le; apply N.ltb_ge in E; lia).
    reflexivity.
Qed.

(* ---- entries created for a list of emissions ---------------------------- *)

Lemma delayed_app k (a b : list emission) :
  delayed k (a ++ b) = delayed k a ++ delayed (k + N.of_nat (length (delayed k a))) b.
Proof.
  revert k. induction a as [|[[t p] v] a IH]; intros k; cbn [app delayed length].
  - now rewrite N.add_0_r.
  - destruct v as [|d|]; try apply IH.
    destruct (d =? 0); [apply IH|].
    cbn [app length]. rewrite IH. f_equal. f_equal. f_equal. lia.
Qed.

Lemma delayed_nth k (ems : list emission) i e :
  nth_error (delayed k ems) i = Some e -> e_seq e = k + N.of_nat i.
Proof.
  revert k i. induction ems as [|[[t p] v] ems IH]; intros k i; cbn [delayed].
  - destruct i; discriminate.
  - destruct v as [|d|]; try apply IH.
    destruct (d =? 0); [apply IH|].
    destruct i; cbn.
    + intros [= <-]. cbn. lia.
    + intros H. apply IH in H. lia.
Qed.

Lemma delayed_in k (ems : list emission) e :
  In e (delayed k ems) -> exists t d, In (t, e_pkt e, Deliver d) ems /\ 0 < d /\ e_at e = t + d.
Proof.
  revert k. induction ems as [|[[t p] v] ems IH]; intros k; cbn [delayed]; [intros []|].
  assert (G : forall k', In e (delayed k' ems) ->
              exists t0 d, In (t0, e_pkt e, Deliver d) ((t, p, v) :: ems) /\ 0 < d /\ e_at e = t0 + d).
  { intros k' H. apply IH in H as (t0 & d & H1 & H2). exists t0, d. split; [now right|exact H2]. }
  destruct v as [|d|]; try apply G.
  destruct (d =? 0) eqn:E; [apply G|].
  intros [<-|H]; [|eapply G; eauto].
  exists t, d. cbn. apply N.eqb_neq in E. repeat split; [now left|lia].
Qed.

Lemma in_delayed k (ems : list emission) t p d :
  In (t, p, Deliver d) ems -> 0 < d -> exists e, In e (delayed k ems) /\ e_pkt e = p /\ e_at e = t + d.
Proof.
  revert k. induction ems as [|[[t' p'] v] ems IH]; intros k; [intros []|].
  intros [H|H] Hd.
  - inversion H; subst. cbn [delayed].
    assert ((d =? 0) = false) as -> by (apply N.eqb_neq; lia).
    eexists. split; [now left|]. cbn. auto.
  - cbn [delayed].
    assert (G : forall k', exists e, In e (delayed k' ems) /\ e_pkt e = p /\ e_at e = t + d)
      by (intros; now apply IH).
    destruct v as [|d'|]; try apply G.
    destruct (d' =? 0); [apply G|].
    destruct (G (k + 1)) as (e & H1 & H2). exists e. split; [now right|exact H2].
Qed.

(* ---- the closed form of the scheduler state ------------------------------ *)

Definition Inv (s : sched) (ems : list emission) : Prop :=
  s_pending s = filter (later (s_now s)) (isort (delayed 0 ems)) /\
  s_next s = N.of_nat (length (delayed 0 ems)).

Lemma Inv0 : Inv sched0 [].
Proof. split; reflexivity. Qed.

Lemma route_inv (s : sched) ems p v :
  Inv s ems ->
  let r := route s p v in
  Inv (fst r) (ems ++ [(s_now s, p, v)]) /\ s_now (fst r) = s_now s /\
  snd r = immediate [(p, v)].
Proof.
  intros [Hp Hn]. unfold Inv. rewrite delayed_app. cbn [delayed length].
  destruct v as [|d|]; cbn [route].
  - rewrite app_nil_r. cbn. auto.
  - destruct (d =? 0) eqn:E; cbn [fst snd immediate flat_map]; rewrite ?E.
    + rewrite app_nil_r. cbn. auto.
    + apply N.eqb_neq in E. cbn [schedule s_now s_pending s_next app].
      rewrite isort_snoc, filter_insert by (cbn; lia).
      rewrite app_length, Hp, Hn. cbn [length]. rewrite N.add_0_l.
      repeat split; auto. lia.
  - rewrite app_nil_r. cbn. auto.
Qed.

Definition stamp (t : N) (pvs : list (P * verdict)) : list emission :=
  map (fun pv => (t, fst pv, snd pv)) pvs.

Lemma immediate_cons (pv : P * verdict) pvs : immediate (pv :: pvs) = immediate [pv] ++ immediate pvs.
Proof. unfold immediate. cbn. now rewrite app_nil_r. Qed.

Lemma route_all_inv pvs : forall (s : sched) ems,
  Inv s ems ->
  let r := route_all s pvs in
  Inv (fst r) (ems ++ stamp (s_now s) pvs) /\ s_now (fst r) = s_now s /\ snd r = immediate pvs.
Proof.
  induction pvs as [|[p v] pvs IH]; intros s ems HI; cbn [route_all stamp map].
  - rewrite app_nil_r. cbn. auto.
  - pose proof (route_inv s ems p v HI) as (H1 & H2 & H3).
    destruct (route s p v) as [s1 o1]. cbn [fst snd] in *.
    pose proof (IH s1 _ H1) as (H4 & H5 & H6).
    destruct (route_all s1 pvs) as [s2 o2]. cbn [fst snd] in *.
    rewrite H2 in H4. rewrite <- app_assoc in H4. cbn in H4.
    split; [exact H4|]. split; [congruence|].
    rewrite (immediate_cons (p, v) pvs). congruence.
Qed.

Lemma filter_later_later now now' (l : list entry) :
  now <= now' -> filter (later now') (filter (later now) l) = filter (later now') l.
Proof.
  intros H. rewrite filter_filter. apply filter_ext. intros x. unfold later.
  destruct (now' <? e_at x) eqn:E; [|now rewrite andb_false_r].
  apply N.ltb_lt in E. assert ((now <? e_at x) = true) as -> by (apply N.ltb_lt; lia). reflexivity.
Qed.

Lemma tick_inv (s : sched) ems dt pvs :
  Inv s ems ->
  let r := tick s dt pvs in
  Inv (fst r) (ems ++ stamp (s_now s + dt) pvs) /\
  s_now (fst r) = s_now s + dt /\
  snd r = mktout (s_now s) (s_now s + dt)
                 (map e_pkt (filter (in_window (s_now s) (s_now s + dt)) (isort (delayed 0 ems))))
                 (immediate pvs).
Proof.
  intros [Hp Hn]. unfold tick.
  rewrite Hp, split_due_sorted by (apply sorted_filter, isort_sorted).
  rewrite filter_later_later by lia.
  set (s1 := mksched (s_now s + dt) (filter (later (s_now s + dt)) (isort (delayed 0 ems))) (s_next s)).
  assert (H1 : Inv s1 ems) by (split; [reflexivity|exact Hn]).
  pose proof (route_all_inv pvs s1 ems H1) as (H2 & H3 & H4).
  destruct (route_all s1 pvs) as [s' imm]. cbn [fst snd] in *.
  split; [exact H2|]. split; [exact H3|].
  rewrite H4. f_equal. f_equal. rewrite filter_filter. apply filter_ext.
  intros x. unfold later, in_window. reflexivity.
Qed.

(* the declarative scheduler: what every tick hands to the fabric *)
Fixpoint spec_outs (now : N) (ems : list emission) (ticks : list (N * list (P * verdict))) : list tout :=
  match ticks with
  | [] => []
  | (dt, pvs) :: r =>
      mktout now (now + dt)
             (map e_pkt (filter (in_window now (now + dt)) (isort (delayed 0 ems))))
             (immediate pvs)
      :: spec_outs (now + dt) (ems ++ stamp (now + dt) pvs) r
  end.

Lemma srun_spec ticks : forall (s : sched) ems,
  Inv s ems ->
  let r := srun s ticks in
  snd r = spec_outs (s_now s) ems ticks /\
  Inv (fst r) (ems ++ emissions (s_now s) ticks) /\
  s_now (fst r) = fold_left (fun a tk => a + fst tk) ticks (s_now s).
Proof.
  induction ticks as [|[dt pvs] ticks IH]; intros s ems HI; cbn [srun spec_outs emissions fold_left].
  - rewrite app_nil_r. cbn. auto.
  - pose proof (tick_inv s ems dt pvs HI) as (H1 & H2 & H3).
    destruct (tick s dt pvs) as [s1 o]. cbn [fst snd] in *.
    pose proof (IH s1 _ H1) as (H4 & H5 & H6).
    destruct (srun s1 ticks) as [s2 os]. cbn [fst snd] in *.
    rewrite H2 in *. split; [now rewrite H3, H4|].
    split; [|exact H6]. unfold stamp in H5. now rewrite <- app_assoc in H5.
Qed.

Lemma tick_spec_lemma ticks : snd (srun (@sched0 P) ticks) = spec_outs 0 [] ticks.
Proof. apply (srun_spec ticks sched0 [] Inv0). Qed.


(* ---- consequences of the closed form -------------------------------------- *)

Definition etime (x : emission) : N := fst (fst x).
Definition epkt (x : emission) : P := snd (fst x).

Lemma stamp_times t pvs : Forall (fun x => etime x = t) (stamp t pvs).
Proof. unfold stamp. apply Forall_forall. intros x Hx. apply in_map_iff in Hx as (pv & <- & _). reflexivity. Qed.

Lemma emissions_times ticks : forall now, Forall (fun x => now <= etime x) (emissions now ticks).
Proof.
  induction ticks as [|[dt pvs] ticks IH]; intros now; cbn [emissions]; [constructor|].
  apply Forall_app; split.
  - eapply Forall_impl; [|apply (stamp_times (now + dt) pvs)]. cbn. intros x ->. lia.
  - eapply Forall_impl; [|apply IH]. cbn. intros; lia.
Qed.

Lemma spec_outs_due ticks : forall now ems o,
  In o (spec_outs now ems ticks) ->
  exists E rest,
    emissions now ticks = E ++ rest /\
    Forall (fun x => etime x <= o_from o) E /\
    Forall (fun x => o_at o <= etime x) rest /\
    o_due o = map e_pkt (filter (in_window (o_from o) (o_at o)) (isort (delayed 0 (ems ++ E)))) /\
    now <= o_from o /\ o_from o <= o_at o.
Proof.
  induction ticks as [|[dt pvs] ticks IH]; intros now ems o; cbn [spec_outs emissions]; [intros []|].
  intros [<-|Hin].
  - exists [], (stamp (now + dt) pvs ++ emissions (now + dt) ticks). cbn [o_from o_at o_due app].
    rewrite app_nil_r. repeat split; try constructor; try lia.
    apply Forall_app; split.
    + eapply Forall_impl; [|apply (stamp_times (now + dt) pvs)]. cbn. intros x ->. lia.
    + apply emissions_times.
  - apply IH in Hin as (E & rest & H1 & H2 & H3 & H4 & H5 & H6).
    exists (stamp (now + dt) pvs ++ E), rest. rewrite H1, <- app_assoc in *.
    repeat split; auto; try lia.
    apply Forall_app; split; [|exact H2].
    eapply Forall_impl; [|apply (stamp_times (now + dt) pvs)]. cbn. intros x ->. lia.
Qed.

Lemma spec_outs_imm ticks : forall now ems o p,
  In o (spec_outs now ems ticks) -> In p (o_imm o) ->
  exists v, In (o_at o, p, v) (emissions now ticks) /\ (v = Pass \/ v = Deliver 0).
Proof.
  induction ticks as [|[dt pvs] ticks IH]; intros now ems o p; cbn [spec_outs emissions]; [intros []|].
  intros [<-|Hin] Hp.
  - cbn [o_imm o_at] in *. unfold immediate in Hp. apply in_flat_map in Hp as ([q v] & Hq & Hv).
    cbn [fst snd] in Hv. exists v. split.
    + apply in_or_app. left. unfold stamp. apply in_map_iff. exists (q, v). cbn.
      destruct v as [|d|]; cbn in Hv; try destruct (d =? 0); cbn in Hv; intuition; subst; auto.
    + destruct v as [|d|]; cbn in Hv; [now left| |destruct Hv].
      destruct (d =? 0) eqn:E; [|destruct Hv]. apply N.eqb_eq in E. subst. now right.
  - destruct (IH _ _ _ _ Hin Hp) as (v & H1 & H2). exists v. split; [|exact H2].
    apply in_or_app. now right.
Qed.

Fixpoint tick_times (now : N) (ticks : list (N * list (P * verdict))) : list (N * N) :=
  match ticks with
  | [] => []
  | (dt, _) :: r => (now, now + dt) :: tick_times (now + dt) r
  end.

Lemma spec_outs_shape ticks : forall now ems,
  map (@o_imm P) (spec_outs now ems ticks) = map (fun tk => immediate (snd tk)) ticks /\
  map (fun o => (o_from o, o_at o)) (spec_outs now ems ticks) = tick_times now ticks.
Proof.
  induction ticks as [|[dt pvs] ticks IH]; intros now ems; cbn [spec_outs map tick_times]; [split; reflexivity|].
  cbn [o_imm o_from o_at snd]. destruct (IH (now + dt) (ems ++ stamp (now + dt) pvs)) as [-> ->].
  split; reflexivity.
Qed.

Lemma nodup_map_inj {A B} (f : A -> B) l a b :
  NoDup (map f l) -> In a l -> In b l -> f a = f b -> a = b.
Proof.
  induction l as [|x l IH]; cbn; [intros _ []|].
  intros Hn Ha Hb E. inversion Hn as [|? ? Hx Hl]; subst.
  destruct Ha as [->|Ha], Hb as [->|Hb]; auto.
  - exfalso. apply Hx. rewrite E. now apply in_map.
  - exfalso. apply Hx. rewrite <- E. now apply in_map.
Qed.

(* --- the theorems, for every run of the scheduler from its initial state --- *)

Lemma outs_due_window ticks o p :
  In o (snd (srun (@sched0 P) ticks)) -> In p (o_due o) ->
  exists t d, In (t, p, Deliver d) (emissions 0 ticks) /\ 0 < d /\
              t <= o_from o /\ o_from o < t + d /\ t + d <= o_at o.
Proof.
  rewrite tick_spec_lemma. intros Ho Hp.
  apply spec_outs_due in Ho as (E & rest & H1 & H2 & H3 & H4 & _ & _).
  rewrite H4 in Hp. apply in_map_iff in Hp as (e & <- & He).
  apply filter_In in He as [He Hw]. apply (proj1 (in_isort _ _)) in He. cbn [app] in He.
  apply delayed_in in He as (t & d & Hin & Hd & Hat).
  exists t, d. unfold in_window in Hw. apply andb_true_iff in Hw as [W1 W2].
  apply N.ltb_lt in W1. apply N.leb_le in W2.
  rewrite Forall_forall in H2. pose proof (H2 _ Hin) as Ht. unfold etime in Ht; cbn in Ht.
  rewrite H1. repeat split; [apply in_or_app; now left|lia..].
Qed.

Lemma outs_due_complete ticks o t p d :
  In o (snd (srun (@sched0 P) ticks)) ->
  In (t, p, Deliver d) (emissions 0 ticks) -> 0 < d ->
  o_from o < t + d -> t + d <= o_at o ->
  In p (o_due o).
Proof.
  rewrite tick_spec_lemma. intros Ho Hin Hd W1 W2.
  apply spec_outs_due in Ho as (E & rest & H1 & H2 & H3 & H4 & _ & _).
  rewrite H1 in Hin. apply in_app_or in Hin as [Hin|Hin].
  - apply (in_delayed 0) in Hin as (e & He & Hp & Hat); [|exact Hd].
    rewrite H4. apply in_map_iff. exists e. split; [exact Hp|].
    apply filter_In. split; [apply in_isort; exact He|].
    unfold in_window. apply andb_true_iff. split; [apply N.ltb_lt|apply N.leb_le]; lia.
  - rewrite Forall_forall in H3. apply H3 in Hin. unfold etime in Hin; cbn in Hin. lia.
Qed.

Lemma outs_due_sorted ticks o :
  In o (snd (srun (@sched0 P) ticks)) ->
  exists L, o_due o = map e_pkt L /\ sorted L /\
            Forall (fun e => o_from o < e_at e /\ e_at e <= o_at o /\
                             nth_error (delayed 0 (emissions 0 ticks)) (N.to_nat (e_seq e)) = Some e) L.
Proof.
  rewrite tick_spec_lemma. intros Ho.
  apply spec_outs_due in Ho as (E & rest & H1 & H2 & H3 & H4 & _ & _). cbn [app] in H4.
  eexists. split; [exact H4|]. split; [apply sorted_filter, isort_sorted|].
  apply Forall_forall. intros e He. apply filter_In in He as [He Hw].
  unfold in_window in Hw. apply andb_true_iff in Hw as [W1 W2].
  apply N.ltb_lt in W1. apply N.leb_le in W2. repeat split; auto.
  apply (proj1 (in_isort _ _)) in He. apply In_nth_error in He as (i & Hi).
  pose proof (delayed_nth 0 E i e Hi) as Hs. rewrite Hs, N.add_0_l, Nat2N.id.
  rewrite H1, delayed_app, nth_error_app1; [exact Hi|].
  apply nth_error_Some. congruence.
Qed.

Lemma outs_drop_never ticks t p :
  NoDup (map epkt (emissions 0 ticks)) ->
  In (t, p, Drop) (emissions 0 ticks) ->
  forall o, In o (snd (srun (@sched0 P) ticks)) -> ~ In p (o_all o).
Proof.
  intros Hn Hd o Ho Hp. unfold o_all in Hp. apply in_app_or in Hp as [Hp|Hp].
  - apply (outs_due_window ticks o p Ho) in Hp as (t' & d & Hin & _).
    pose proof (nodup_map_inj epkt _ _ _ Hn Hd Hin eq_refl). discriminate.
  - rewrite tick_spec_lemma in Ho.
    destruct (spec_outs_imm _ _ _ _ _ Ho Hp) as (v & Hin & Hv).
    pose proof (nodup_map_inj epkt _ _ _ Hn Hd Hin eq_refl) as E.
    destruct Hv; subst; discriminate.
Qed.

Lemma outs_imm ticks :
  map (@o_imm P) (snd (srun (@sched0 P) ticks)) = map (fun tk => immediate (snd tk)) ticks.
Proof. rewrite tick_spec_lemma. apply spec_outs_shape. Qed.

Lemma outs_times ticks :
  map (fun o => (o_from o, o_at o)) (snd (srun (@sched0 P) ticks)) = tick_times 0 ticks.
Proof. rewrite tick_spec_lemma. apply spec_outs_shape. Qed.

(* state invariant of every reachable scheduler *)
Lemma pending_sorted_lemma ticks :
  let s := fst (srun (@sched0 P) ticks) in
  sorted (s_pending s) /\
  Forall (fun e => s_now s < e_at e /\ e_seq e < s_next s) (s_pending s) /\
  NoDup (map (@e_seq P) (s_pending s)).
Proof.
  intros s. destruct (srun_spec ticks sched0 [] Inv0) as (_ & [Hp Hn] & _). fold s in Hp, Hn.
  cbn [app] in *. change (s_now (@sched0 P)) with 0 in *. set (D := delayed 0 (emissions 0 ticks)) in *.
  assert (Hseq : forall e, In e D -> exists i, nth_error D i = Some e /\ e_seq e = N.of_nat i).
  { intros e He. apply In_nth_error in He as (i & Hi). exists i. split; [exact Hi|].
    pose proof (delayed_nth 0 _ i e Hi). lia. }
  rewrite Hp. split; [apply sorted_filter, isort_sorted|]. split.
  - apply Forall_forall. intros e He. apply filter_In in He as [He Hl].
    unfold later in Hl. apply N.ltb_lt in Hl. split; [exact Hl|].
    apply (proj1 (in_isort _ _)), Hseq in He as (i & Hi & ->). rewrite Hn.
    assert (i < length D)%nat by (apply nth_error_Some; congruence). lia.
  - (* the seqs of a sorted sub-multiset of D are pairwise different *)
    assert (HD : NoDup (map (@e_seq P) D)).
    { unfold D. generalize 0 at 1. generalize (emissions 0 ticks).
      induction l as [|[[t p] v] l IH]; intros k; cbn [delayed map]; [constructor|].
      destruct v as [|d|]; try apply IH. destruct (d =? 0); [apply IH|].
      cbn [map e_seq]. constructor; [|apply IH].
      intros Hk. apply in_map_iff in Hk as (e & E & He).
      apply In_nth_error in He as (i & Hi). apply delayed_nth in Hi. lia. }
    assert (HP : Permutation (isort D) D).
    { clear. induction D as [|e l IH] using rev_ind; [constructor|].
      rewrite isort_snoc. eapply perm_trans; [|apply Permutation_cons_append].
      eapply perm_trans; [|apply perm_skip, IH].
      generalize (isort l). intros m. induction m as [|x m IHm]; cbn; [constructor; constructor|].
      destruct (key_leb e x); [apply Permutation_refl|].
      eapply perm_trans; [apply perm_skip, IHm|apply perm_swap]. }
    assert (HN : NoDup (map (@e_seq P) (isort D))).
    { eapply Permutation_NoDup; [apply Permutation_map, Permutation_sym, HP|exact HD]. }
    clear -HN. induction (isort D) as [|x l IH]; cbn; [constructor|].
    inversion HN as [|? ? Hx Hl]; subst. destruct (later (s_now s) x); cbn; [constructor|]; auto.
    intros Hin. apply Hx. apply in_map_iff in Hin as (y & E & Hy). apply filter_In in Hy as [Hy _].
    apply in_map_iff. eauto.
Qed.

End SchedProofs.

(* ======================================================================== *)
(* 3. Kernel::egress                                                         *)
(* ======================================================================== *)
Section EgressProofs.
Variable S : Type.
Variable segment : S -> S * list pkt.
Variable handle : S -> pkt -> S * list pkt.

Lemma fold_local_out addrs st drained :
  let '(_, _, out) := fold_local S handle addrs st drained in
  out = filter (fun p => negb (is_local addrs (p_dst p))) drained.
Proof.
  revert st. induction drained as [|p r IH]; intros st; cbn [fold_local filter]; [reflexivity|].
  destruct (is_local addrs (p_dst p)); cbn [negb].
  - destruct (handle st p) as [st1 q1]. specialize (IH st1).
    destruct (fold_local S handle addrs st1 r) as [[st2 q2] o2]. exact IH.
  - specialize (IH st). destruct (fold_local S handle addrs st r) as [[st2 q2] o2]. now rewrite IH.
Qed.

Lemma loopback_not_in_out_lemma fuel : forall addrs st outbound,
  let '(_, _, out) := kegress S segment handle fuel addrs st outbound in
  Forall (fun p => is_local addrs (p_dst p) = false) out.
Proof.
  induction fuel as [|f IH]; intros addrs st ob; cbn [kegress]; [constructor|].
  destruct (segment st) as [st1 q]. destruct (ob ++ q) as [|p0 l0] eqn:E; [constructor|].
  pose proof (fold_local_out addrs st1 (p0 :: l0)) as Ho.
  destruct (fold_local S handle addrs st1 (p0 :: l0)) as [[st2 q2] o].
  specialize (IH addrs st2 q2). destruct (kegress S segment handle f addrs st2 q2) as [[st3 rest] o'].
  apply Forall_app; split; [|exact IH].
  rewrite Ho. apply Forall_forall. intros x Hx. apply filter_In in Hx as [_ Hx].
  now apply negb_true_iff in Hx.
Qed.
End EgressProofs.

(* ======================================================================== *)
(* 4. order of the packets delivered by one tick                              *)
(* ======================================================================== *)
Section SchedOrder.
Variable P : Type.
Notation entry := (entry P).

Lemma kle_refl (a : entry) : kle P a a.
Proof. unfold kle. apply key_leb_spec. lia. Qed.

Lemma sorted_order (L : list entry) e1 e2 :
  sorted P L -> In e1 L -> In e2 L -> ~ kle P e2 e1 ->
  exists a b c, L = a ++ e1 :: b ++ e2 :: c.
Proof.
  induction 1 as [|x l Hs IH Hx]; [intros []|].
  intros H1 H2 Hn. destruct H1 as [->|H1].
  - destruct H2 as [->|H2]; [exfalso; apply Hn, kle_refl|].
    apply in_split in H2 as (b & c & ->). exists [], b, c. reflexivity.
  - destruct H2 as [->|H2].
    + exfalso. apply Hn. rewrite Forall_forall in Hx. now apply Hx.
    + destruct (IH H1 H2 Hn) as (a & b & c & ->). exists (x :: a), b, c. reflexivity.
Qed.

Lemma delayed_index k (ems : list (N * P * verdict)) e :
  In e (delayed k ems) -> nth_error (delayed k ems) (N.to_nat (e_seq e - k)) = Some e.
Proof.
  intros He. apply In_nth_error in He as (i & Hi).
  pose proof (delayed_nth P k ems i e Hi) as Hs.
  replace (N.to_nat (e_seq e - k)) with i by lia. exact Hi.
Qed.

Lemma outs_due_order ticks o :
  In o (snd (srun (@sched0 P) ticks)) ->
  let D := delayed 0 (emissions 0 ticks) in
  exists L, o_due o = map e_pkt L /\ sorted P L /\
            (forall e, In e L <-> In e D /\ o_from o < e_at e /\ e_at e <= o_at o).
Proof.
  rewrite tick_spec_lemma. intros Ho D.
  apply spec_outs_due in Ho as (E & rest & H1 & H2 & H3 & H4 & _ & _). cbn [app] in H4.
  eexists. split; [exact H4|]. split; [apply sorted_filter, isort_sorted|].
  intros e. rewrite filter_In, in_isort. unfold in_window. rewrite andb_true_iff, N.ltb_lt, N.leb_le.
  unfold D. rewrite H1, delayed_app, in_app_iff. split; [tauto|].
  intros ([He|He] & W1 & W2); [tauto|]. exfalso.
  apply delayed_in in He as (t & d & Hin & Hd & Hat).
  rewrite Forall_forall in H3. apply H3 in Hin. unfold etime in Hin; cbn in Hin. lia.
Qed.

(* two delayed packets due in the same tick leave in (deadline, emission rank)
   order; i1, i2 are their ranks among the delayed packets of the run *)
Lemma due_fifo_lemma ticks o i1 i2 e1 e2 :
  In o (snd (srun (@sched0 P) ticks)) ->
  let D := delayed 0 (emissions 0 ticks) in
  nth_error D i1 = Some e1 -> nth_error D i2 = Some e2 ->
  (e_at e1 < e_at e2 \/ (e_at e1 = e_at e2 /\ (i1 < i2)%nat)) ->
  o_from o < e_at e1 -> e_at e2 <= o_at o ->
  exists a b c, o_due o = a ++ e_pkt e1 :: b ++ e_pkt e2 :: c.
Proof.
  intros Ho D N1 N2 Hk W1 W2.
  destruct (outs_due_order ticks o Ho) as (L & HL & Hs & Hin). fold D in Hin.
  pose proof (delayed_nth P 0 _ _ _ N1) as S1. pose proof (delayed_nth P 0 _ _ _ N2) as S2.
  fold D in S1, S2.
  assert (I1 : In e1 L) by (apply Hin; split; [eapply nth_error_In; eauto|lia]).
  assert (I2 : In e2 L) by (apply Hin; split; [eapply nth_error_In; eauto|lia]).
  destruct (sorted_order L e1 e2 Hs I1 I2) as (a & b & c & E).
  - unfold kle. rewrite key_leb_spec. lia.
  - exists (map e_pkt a), (map e_pkt b), (map e_pkt c).
    rewrite HL, E, map_app. cbn. now rewrite map_app.
Qed.

End SchedOrder.

(* ======================================================================== *)
(* 5. the fixture: rules are shown exactly what left a host                    *)
(* ======================================================================== *)
From TV.NetPure Require Import Fixture.

Lemma is_local_loopback addrs a : is_loopback a = true -> is_local addrs a = true.
Proof. unfold is_local. now intros ->. Qed.

Definition dgram_handle (st : list pkt) (p : pkt) : list pkt * list pkt := (st ++ [p], []).

Lemma fold_local_noq addrs (dr : list pkt) : forall st,
  snd (fst (fold_local (list pkt) dgram_handle addrs st dr)) = [].
Proof.
  induction dr as [|p r IH]; intros st; cbn [fold_local]; [reflexivity|].
  destruct (is_local addrs (p_dst p)).
  - unfold dgram_handle at 1. specialize (IH (st ++ [p])).
    destruct (fold_local (list pkt) dgram_handle addrs (st ++ [p]) r) as [[a b] c]. cbn in *. now rewrite IH.
  - specialize (IH st). destruct (fold_local (list pkt) dgram_handle addrs st r) as [[a b] c]. exact IH.
Qed.

Lemma host_egress_out h :
  snd (host_egress h) = filter (fun p => negb (is_local (h_addrs h) (p_dst p))) (h_out h).
Proof.
  unfold host_egress. change (fun (st : list pkt) (p : pkt) => (st ++ [p], @nil pkt)) with dgram_handle.
  cbn [kegress]. rewrite app_nil_r.
  destruct (h_out h) as [|p0 l0] eqn:E; [reflexivity|].
  pose proof (fold_local_out (list pkt) dgram_handle (h_addrs h) [] (p0 :: l0)) as Ho.
  pose proof (fold_local_noq (h_addrs h) (p0 :: l0) []) as Hq.
  destruct (fold_local (list pkt) dgram_handle (h_addrs h) [] (p0 :: l0)) as [[st2 q2] o].
  cbn in Hq. subst q2. cbn. now rewrite app_nil_r.
Qed.

Lemma egress_all_nonlocal hs :
  Forall (fun p => exists h, In h hs /\ In p (h_out h) /\ is_local (h_addrs h) (p_dst p) = false)
         (snd (egress_all hs)).
Proof.
  induction hs as [|h r IH]; cbn [egress_all]; [constructor|].
  pose proof (host_egress_out h) as Ho.
  destruct (host_egress h) as [[h' f] o]. destruct (egress_all r) as [[r' f'] o']. cbn [snd] in *.
  apply Forall_app; split.
  - subst o. apply Forall_forall. intros x Hx. apply filter_In in Hx as [H1 H2].
    exists h. repeat split; [now left|exact H1|now apply negb_true_iff in H2].
  - eapply Forall_impl; [|exact IH]. cbn. intros x (h0 & H0 & H1). exists h0. split; [now right|exact H1].
Qed.

Lemma eval_all_ids (c : chain pkt) ps :
  map (fun x => fst (fst x)) (snd (eval_all c ps)) = map p_id ps /\
  map fst (snd (fst (eval_all c ps))) = ps.
Proof.
  revert c. induction ps as [|p r IH]; intros c; cbn [eval_all]; [split; reflexivity|].
  destruct (evaluate c p) as [[c1 v] log]. specialize (IH c1).
  destruct (eval_all c1 r) as [[c2 pvs] logs]. cbn in *. destruct IH as [-> ->]. split; reflexivity.
Qed.

(* one fixture tick: the packets shown to the rules are exactly the packets
   egress_all handed out, none of which has a destination local to its sender *)
Lemma tick_shows_only_egress_lemma (f : fixt) dt :
  let out := snd (egress_all (f_hosts f)) in
  let '(_, _, _, _, _, evals) := snd (fstep f (FTick dt)) in
  map (fun x => fst (fst (fst x))) evals = map p_id out /\
  Forall (fun p => exists h, In h (f_hosts f) /\ In p (h_out h) /\ is_local (h_addrs h) (p_dst p) = false) out.
Proof.
  intros out. pose proof (egress_all_nonlocal (f_hosts f)) as Hn. fold out in Hn.
  cbn [fstep]. unfold out in *. destruct (egress_all (f_hosts f)) as [[hs folded] o]. cbn [snd] in *.
  unfold do_tick. pose proof (eval_all_ids (f_chain f) o) as [Hi _].
  destruct (eval_all (f_chain f) o) as [[c pvs] logs]. destruct (tick (f_sched f) dt pvs) as [s t].
  cbn [snd] in *. split; [|exact Hn].
  unfold enc_logs. rewrite map_map. rewrite <- Hi. apply map_ext. intros [[i l] v]. reflexivity.
Qed.

(* ======================================================================== *)
(* 6. nothing is handed to the fabric twice                                     *)
(* ======================================================================== *)
Section Once.
Variable P : Type.
Notation entry := (entry P).
Notation sched := (sched P).

Lemma split_due_app now (l : list entry) : fst (split_due now l) ++ snd (split_due now l) = l.
Proof.
  induction l as [|x l IH]; cbn; [reflexivity|].
  destruct (now <? e_at x); [reflexivity|]. destruct (split_due now l) as [a b]. cbn in *. now rewrite IH.
Qed.

Lemma insert_perm (e : entry) l : Permutation (insert e l) (e :: l).
Proof.
  induction l as [|x l IH]; cbn; [apply Permutation_refl|].
  destruct (key_leb e x); [apply Permutation_refl|].
  eapply perm_trans; [apply perm_skip, IH|apply perm_swap].
Qed.

(* D: everything handed out so far; the invariant: D and the pending packets
   are pairwise different and all come from `seen` *)
Definition OnceInv (D : list P) (s : sched) (seen : list P) : Prop :=
  NoDup (D ++ map e_pkt (s_pending s)) /\ incl (D ++ map e_pkt (s_pending s)) seen.

Lemma route_once D (s : sched) seen p v :
  OnceInv D s seen -> ~ In p seen ->
  OnceInv (D ++ snd (route s p v)) (fst (route s p v)) (seen ++ [p]).
Proof.
  intros [Hn Hi] Hp.
  assert (Hfresh : ~ In p (D ++ map e_pkt (s_pending s))) by (intros H; apply Hp, Hi, H).
  assert (Hi' : incl (D ++ map e_pkt (s_pending s)) (seen ++ [p])) by (intros x Hx; apply in_or_app; left; auto).
  assert (Keep : OnceInv D s (seen ++ [p])) by (split; assumption).
  assert (Now : OnceInv (D ++ [p]) s (seen ++ [p])).
  { split.
    - rewrite <- app_assoc. cbn. apply NoDup_app_iff in Hn as (N1 & N2 & N3).
      apply NoDup_app_iff. split; [exact N1|]. split.
      + constructor; [|exact N2]. intros H. apply Hfresh, in_or_app. now right.
      + intros x Hx [<-|Hx2]; [apply Hfresh, in_or_app; now left|apply (N3 x Hx Hx2)].
    - intros x Hx. rewrite <- app_assoc in Hx. apply in_app_or in Hx as [Hx|[<-|Hx]].
      + apply Hi'. apply in_or_app. now left.
      + apply in_or_app. right. now left.
      + apply Hi'. apply in_or_app. now right. }
  destruct v as [|d|]; cbn [route fst snd].
  - exact Now.
  - destruct (d =? 0); cbn [fst snd]; [exact Now|]. rewrite app_nil_r. cbn [schedule s_pending].
    set (e := mkentry (s_now s + d) (s_next s) p).
    assert (Pm : Permutation (D ++ map e_pkt (insert e (s_pending s))) (p :: D ++ map e_pkt (s_pending s))).
    { eapply perm_trans; [apply Permutation_app_head, Permutation_map, insert_perm|]. cbn.
      apply Permutation_sym, Permutation_middle. }
    split.
    + eapply Permutation_NoDup; [apply Permutation_sym, Pm|]. constructor; assumption.
    + intros x Hx. apply (Permutation_in _ Pm) in Hx as [<-|Hx]; [apply in_or_app; right; now left|now apply Hi'].
  - rewrite app_nil_r. exact Keep.
Qed.

Lemma route_all_once pvs : forall D (s : sched) seen,
  OnceInv D s seen -> NoDup (seen ++ map fst pvs) ->
  OnceInv (D ++ snd (route_all s pvs)) (fst (route_all s pvs)) (seen ++ map fst pvs).
Proof.
  induction pvs as [|[p v] pvs IH]; intros D s seen HI Hn; cbn [route_all map].
  - cbn. now rewrite !app_nil_r.
  - assert (Hp : ~ In p seen).
    { apply NoDup_app_iff in Hn as (_ & _ & N3). intros H. apply (N3 p H). now left. }
    pose proof (route_once D s seen p v HI Hp) as H1.
    destruct (route s p v) as [s1 o1]. cbn [fst snd] in *.
    assert (Hn' : NoDup ((seen ++ [p]) ++ map fst pvs)) by (rewrite <- app_assoc; exact Hn).
    pose proof (IH _ _ _ H1 Hn') as H2.
    destruct (route_all s1 pvs) as [s2 o2]. cbn [fst snd] in *.
    rewrite <- !app_assoc in H2. cbn [app] in H2. exact H2.
Qed.

Lemma tick_once D (s : sched) seen dt pvs :
  OnceInv D s seen -> NoDup (seen ++ map fst pvs) ->
  OnceInv (D ++ o_all (snd (tick s dt pvs))) (fst (tick s dt pvs)) (seen ++ map fst pvs).
Proof.
  intros [Hn Hi] Hu. unfold tick.
  pose proof (split_due_app (s_now s + dt) (s_pending s)) as Hs.
  destruct (split_due (s_now s + dt) (s_pending s)) as [rdy rest]. cbn [fst snd] in Hs.
  assert (H1 : OnceInv (D ++ map e_pkt rdy) (mksched (s_now s + dt) rest (s_next s)) seen).
  { unfold OnceInv. cbn [s_pending]. rewrite <- app_assoc, <- map_app, Hs. split; assumption. }
  pose proof (route_all_once pvs _ _ _ H1 Hu) as H2.
  destruct (route_all (mksched (s_now s + dt) rest (s_next s)) pvs) as [s' imm]. cbn [fst snd] in *.
  unfold o_all. cbn [o_due o_imm]. now rewrite app_assoc.
Qed.

Fixpoint all_pkts (ticks : list (N * list (P * verdict))) : list P :=
  match ticks with [] => [] | (_, pvs) :: r => map fst pvs ++ all_pkts r end.

Lemma srun_once ticks : forall D (s : sched) seen,
  OnceInv D s seen -> NoDup (seen ++ all_pkts ticks) ->
  NoDup (D ++ flat_map (@o_all P) (snd (srun s ticks))).
Proof.
  induction ticks as [|[dt pvs] ticks IH]; intros D s seen HI Hu; cbn [srun all_pkts].
  - cbn. rewrite app_nil_r. destruct HI as [Hn _]. apply NoDup_app_iff in Hn. tauto.
  - cbn [all_pkts] in Hu. rewrite app_assoc in Hu.
    assert (Hu1 : NoDup (seen ++ map fst pvs)) by (apply NoDup_app_iff in Hu; tauto).
    pose proof (tick_once D s seen dt pvs HI Hu1) as H1.
    destruct (tick s dt pvs) as [s1 o]. cbn [fst snd] in *.
    pose proof (IH _ _ _ H1 Hu) as H2.
    destruct (srun s1 ticks) as [s2 os]. cbn [fst snd flat_map] in *.
    now rewrite app_assoc.
Qed.

Lemma delivered_once_lemma ticks :
  NoDup (all_pkts ticks) -> NoDup (flat_map (@o_all P) (snd (srun sched0 ticks))).
Proof.
  intros H. apply (srun_once ticks [] sched0 []); [|exact H].
  split; [constructor|intros x []].
Qed.
End Once.
