(* Lemmas for property C19 (rule chains and the fixture scheduler). *)
From TV.Lib Require Import Base.
From TV.NetPure Require Import Ip Rules Sched.
Open Scope N_scope.

(* ======================================================================== *)
(* 1. the rule chain                                                         *)
(* ======================================================================== *)
Section ChainProofs.
Variable P : Type.
Notation rule := (rule P).
Notation chain := (chain P).

Definition passes (p : P) (ir : N * rule) : Prop := answer (snd ir) p = Pass.
Definition touched (p : P) (ir : N * rule) : N * rule := (fst ir, touch (snd ir) p).

(* Net::evaluate, declaratively *)
Definition first_match (rs : list (N * rule)) (p : P)
           (rs' : list (N * rule)) (v : verdict) (log : list N) : Prop :=
  (exists pre id r post,
      rs = pre ++ (id, r) :: post /\ Forall (passes p) pre /\
      answer r p = v /\ v <> Pass /\
      log = map fst pre ++ [id] /\
      rs' = map (touched p) pre ++ (id, touch r p) :: post)
  \/ (Forall (passes p) rs /\ v = Pass /\ log = map fst rs /\ rs' = map (touched p) rs).

Lemma eval_rules_first_match (rs : list (N * rule)) (p : P) :
  let '(rs', v, log) := eval_rules rs p in first_match rs p rs' v log.
Proof.
  induction rs as [|[id r] rest IH]; cbn [eval_rules].
  - right. repeat split; constructor.
  - destruct (answer r p) eqn:Ha.
    + destruct (eval_rules rest p) as [[rest' v] log].
      destruct IH as [(pre & id' & r' & post & E & Hp & Hv & Hn & Hl & Hr)|(Hp & Hv & Hl & Hr)].
      * left. exists ((id, r) :: pre), id', r', post. subst rest log rest'. cbn.
        split; [reflexivity|]. split; [constructor; [exact Ha|exact Hp]|].
        split; [exact Hv|]. split; [exact Hn|]. split; reflexivity.
      * right. subst v log rest'. cbn.
        split; [constructor; [exact Ha|exact Hp]|]. repeat split.
    + left. exists [], id, r, rest. cbn. repeat split; try constructor; try discriminate; auto.
    + left. exists [], id, r, rest. cbn. repeat split; try constructor; try discriminate; auto.
Qed.

Lemma eval_rules_ids (rs : list (N * rule)) (p : P) : map fst (fst (fst (eval_rules rs p))) = map fst rs.
Proof.
  induction rs as [|[id r] rest IH]; cbn; [reflexivity|].
  destruct (answer r p); cbn; try reflexivity.
  destruct (eval_rules rest p) as [[rest' v] log]; cbn in *. now rewrite IH.
Qed.

Lemma eval_rules_log_sub (rs : list (N * rule)) (p : P) : incl (snd (eval_rules rs p)) (map fst rs).
Proof.
  induction rs as [|[id r] rest IH]; cbn; [intros x []|].
  destruct (answer r p); cbn.
  - destruct (eval_rules rest p) as [[rest' v] log]; cbn in *.
    intros x [<-|Hx]; [now left|right; auto].
  - intros x [<-|[]]; now left.
  - intros x [<-|[]]; now left.
Qed.

End ChainProofs.
