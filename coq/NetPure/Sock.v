(* TV.NetPure.Sock — the per-host socket table of turmoil-net: bind, ephemeral
   ports, close, UDP and TCP demultiplexing; and the fabric's routing.
   No proofs in this file.

   crates/turmoil-net/src/kernel/socket.rs
     bkey                 = BindKey
     kern                 = Kernel + SocketTable (sockets, bindings, connections, ports)
     insert_sock          = SocketTable::insert           find_by_bind   = SocketTable::find_by_bind
     insert_binding       = SocketTable::insert_binding   insert_conn    = SocketTable::insert_connection
     remove               = SocketTable::remove           in_use_port    = the predicate of allocate_port
     alloc_loop, allocate = PortAllocator::allocate (the loop visits at most |range| ports)
   crates/turmoil-net/src/kernel/mod.rs
     bind                 = Kernel::bind                  close          = Kernel::close (+ tcp::on_close)
     accept               = Kernel::poll_accept           kdeliver       = Kernel::deliver
     kegress_k            = Kernel::egress (retransmission is switched off by the harness'
                            KernelConfig, nothing is written to streams, so check_retx and
                            segment_all do nothing)
   crates/turmoil-net/src/kernel/udp.rs
     udp_send_to, udp_connect, udp_deliver, udp_target
   crates/turmoil-net/src/kernel/tcp.rs
     tcp_connect_first / tcp_connect_poll = poll_connect (first / later polls) + the FdGuard of
                            TcpStream::connect; tcp_demux + tcp_deliver = deliver;
     find_listener, accept_syn, push_to_listener, conn_deliver (= handle_on_connection for
     the segments the harness produces: handshake, in-order data, RST; sequence numbers are
     abstracted: the harness builds segments that are acceptable), close_listener
   crates/turmoil-net/src/fabric.rs
     route = Fabric::host_for_ip (ip_to_host), fdeliver = Fabric::deliver, fegress_all = egress_all

   A stream socket closed while Established with nothing unread takes the FIN path
   (Linger); that path belongs to the TCP model of C13 and is outside this model:
   the model sets k_bad and the correspondence reports the script as out of range. *)
From TV.Lib Require Import Base.
From TV.NetPure Require Import Gen Ip.
Open Scope N_scope.

Inductive sty := Stream | Dgram.
Inductive dom := Inet | Inet6.
Definition sty_eqb (a b : sty) : bool := match a, b with Stream, Stream | Dgram, Dgram => true | _, _ => false end.
Definition dom_eqb (a b : dom) : bool := match a, b with Inet, Inet | Inet6, Inet6 => true | _, _ => false end.
Definition dom_of (a : ip) : dom := if is_v4 a then Inet else Inet6.

Record bkey := mkkey { b_dom : dom; b_ty : sty; b_addr : ip; b_port : N }.
Definition bkey_eqb (a b : bkey) : bool :=
  dom_eqb (b_dom a) (b_dom b) && sty_eqb (b_ty a) (b_ty b) && ip_eqb (b_addr a) (b_addr b) && (b_port a =? b_port b).

Definition saddr := (ip * N)%type.
Definition saddr_eqb (a b : saddr) : bool := ip_eqb (fst a) (fst b) && (snd a =? snd b).

Inductive tstate := SynSent | SynReceived | Established | Closed.
(* t_sync: the acknowledgement numbers this end sends are the ones its peer expects.  False for a
   connecting socket that went Established on a forged SYN-ACK (poll_connect does not validate it):
   its ACKs never complete the handshake of the real child, whose SynReceived branch checks
   `s.ack == snd_nxt`.  Sequence numbers themselves stay abstract. *)
Record tcb := mktcb { t_state : tstate; t_peer : saddr; t_reset : bool; t_recv : list N; t_sync : bool }.

Record sock := mksock {
  s_dom : dom; s_ty : sty;
  s_bound : option bkey;
  s_peer : option saddr;
  s_listen : option (N * list N);        (* backlog, accept-ready queue *)
  s_tcb : option tcb;
  s_queue : list (saddr * N);            (* UDP recv_queue: (from, tag) *)
  s_fdc : bool                           (* fd_closed: owned by the kernel, reaped by reap_closed *)
}.

Record kern := mkkern {
  k_addrs : list ip;
  k_nextfd : N;
  k_socks : list (N * sock);                 (* IndexMap<Fd, Socket>, insertion order *)
  k_binds : list (bkey * list N);            (* IndexMap<BindKey, Vec<Fd>> *)
  k_conns : list (saddr * saddr * N);        (* IndexMap<(local, remote), Fd> *)
  k_cursor : N;                              (* PortAllocator.cursor *)
  k_out : list pkt;                          (* outbound *)
  k_backlog : N;
  k_bad : bool                               (* left the modelled fragment (Linger close) *)
}.

Definition eph_lo : N := Gen.ephemeral_lo.
Definition eph_hi : N := Gen.ephemeral_hi.

Definition kern0 (addrs : list ip) : kern := mkkern addrs 1 [] [] [] eph_lo [] Gen.default_backlog false.

(* ---- record plumbing ------------------------------------------------------- *)
Definition set_socks k v := mkkern (k_addrs k) (k_nextfd k) v (k_binds k) (k_conns k) (k_cursor k) (k_out k) (k_backlog k) (k_bad k).
Definition set_binds k v := mkkern (k_addrs k) (k_nextfd k) (k_socks k) v (k_conns k) (k_cursor k) (k_out k) (k_backlog k) (k_bad k).
Definition set_conns k v := mkkern (k_addrs k) (k_nextfd k) (k_socks k) (k_binds k) v (k_cursor k) (k_out k) (k_backlog k) (k_bad k).
Definition set_cursor k v := mkkern (k_addrs k) (k_nextfd k) (k_socks k) (k_binds k) (k_conns k) v (k_out k) (k_backlog k) (k_bad k).
Definition set_out k v := mkkern (k_addrs k) (k_nextfd k) (k_socks k) (k_binds k) (k_conns k) (k_cursor k) v (k_backlog k) (k_bad k).
Definition set_bad k := mkkern (k_addrs k) (k_nextfd k) (k_socks k) (k_binds k) (k_conns k) (k_cursor k) (k_out k) (k_backlog k) true.

Definition sock0 (d : dom) (t : sty) : sock := mksock d t None None None None [] false.
Definition sk_bound s v := mksock (s_dom s) (s_ty s) v (s_peer s) (s_listen s) (s_tcb s) (s_queue s) (s_fdc s).
Definition sk_peer s v := mksock (s_dom s) (s_ty s) (s_bound s) v (s_listen s) (s_tcb s) (s_queue s) (s_fdc s).
Definition sk_listen s v := mksock (s_dom s) (s_ty s) (s_bound s) (s_peer s) v (s_tcb s) (s_queue s) (s_fdc s).
Definition sk_tcb s v := mksock (s_dom s) (s_ty s) (s_bound s) (s_peer s) (s_listen s) v (s_queue s) (s_fdc s).
Definition sk_fdc s v := mksock (s_dom s) (s_ty s) (s_bound s) (s_peer s) (s_listen s) (s_tcb s) (s_queue s) v.
Definition sk_queue s v := mksock (s_dom s) (s_ty s) (s_bound s) (s_peer s) (s_listen s) (s_tcb s) v (s_fdc s).

Fixpoint get_sock (l : list (N * sock)) (fd : N) : option sock :=
  match l with [] => None | (f, s) :: r => if f =? fd then Some s else get_sock r fd end.
Definition get (k : kern) (fd : N) : option sock := get_sock (k_socks k) fd.

Definition upd (k : kern) (fd : N) (f : sock -> sock) : kern :=
  set_socks k (map (fun fs => if fst fs =? fd then (fst fs, f (snd fs)) else fs) (k_socks k)).

Definition is_local_k (k : kern) (a : ip) : bool := is_local (k_addrs k) a.

(* ---- SocketTable ------------------------------------------------------------ *)
Definition insert_sock (k : kern) (s : sock) : kern * N :=
  let fd := k_nextfd k in
  (mkkern (k_addrs k) (fd + 1) (k_socks k ++ [(fd, s)]) (k_binds k) (k_conns k) (k_cursor k) (k_out k) (k_backlog k) (k_bad k), fd).

Fixpoint find_binds (l : list (bkey * list N)) (key : bkey) : list N :=
  match l with [] => [] | (k', fds) :: r => if bkey_eqb k' key then fds else find_binds r key end.
Definition find_by_bind (k : kern) (key : bkey) : list N := find_binds (k_binds k) key.

Fixpoint add_binding (l : list (bkey * list N)) (key : bkey) (fd : N) : list (bkey * list N) :=
  match l with
  | [] => [(key, [fd])]
  | (k', fds) :: r => if bkey_eqb k' key then (k', fds ++ [fd]) :: r else (k', fds) :: add_binding r key fd
  end.
Definition insert_binding (k : kern) (key : bkey) (fd : N) : kern := set_binds k (add_binding (k_binds k) key fd).

Definition conn_key_eqb (a : saddr * saddr) (b : saddr * saddr) : bool :=
  saddr_eqb (fst a) (fst b) && saddr_eqb (snd a) (snd b).
Fixpoint add_conn (l : list (saddr * saddr * N)) (key : saddr * saddr) (fd : N) : list (saddr * saddr * N) :=
  match l with
  | [] => [(key, fd)]
  | (k', f) :: r => if conn_key_eqb k' key then (k', fd) :: r else (k', f) :: add_conn r key fd
  end.
Definition insert_conn (k : kern) (local remote : saddr) (fd : N) : kern :=
  set_conns k (add_conn (k_conns k) (local, remote) fd).

Fixpoint find_conn (l : list (saddr * saddr * N)) (key : saddr * saddr) : option N :=
  match l with [] => None | (k', f) :: r => if conn_key_eqb k' key then Some f else find_conn r key end.
Definition find_connection (k : kern) (local remote : saddr) : option N := find_conn (k_conns k) (local, remote).

Definition drop_fd (fd : N) (fds : list N) : list N := filter (fun f => negb (f =? fd)) fds.
Definition nonempty {A} (l : list A) : bool := match l with [] => false | _ => true end.

Definition remove (k : kern) (fd : N) : kern :=
  mkkern (k_addrs k) (k_nextfd k)
         (filter (fun fs => negb (fst fs =? fd)) (k_socks k))
         (filter (fun kb => nonempty (snd kb)) (map (fun kb => (fst kb, drop_fd fd (snd kb))) (k_binds k)))
         (filter (fun c => negb (snd c =? fd)) (k_conns k))
         (k_cursor k) (k_out k) (k_backlog k) (k_bad k).

Definition on_port (d : dom) (t : sty) (p : N) (key : bkey) : bool :=
  dom_eqb (b_dom key) d && sty_eqb (b_ty key) t && (b_port key =? p).

Definition in_use_port (k : kern) (d : dom) (t : sty) (p : N) : bool :=
  existsb (fun kb => on_port d t p (fst kb)) (k_binds k).

(* PortAllocator::allocate over the range lo..=hi; start is the cursor at entry *)
Fixpoint alloc_loop (fuel : nat) (lo hi start cur : N) (in_use : N -> bool) : option N * N :=
  match fuel with
  | O => (None, cur)
  | S f =>
      let p := cur in
      let cur' := if p =? hi then lo else p + 1 in
      if negb (in_use p) then (Some p, cur')
      else if cur' =? start then (None, cur')
      else alloc_loop f lo hi start cur' in_use
  end.

Definition allocate (lo hi cur : N) (in_use : N -> bool) : option N * N :=
  alloc_loop (N.to_nat (hi - lo + 1)) lo hi cur cur in_use.

Definition allocate_port (k : kern) (d : dom) (t : sty) : option N * kern :=
  let '(r, c) := allocate eph_lo eph_hi (k_cursor k) (in_use_port k d t) in (r, set_cursor k c).

(* ---- bind --------------------------------------------------------------------- *)
Inductive berr := AddrInUse | AddrNotAvailable.

Definition conflicts (a b : bkey) : bool :=
  on_port (b_dom b) (b_ty b) (b_port b) a &&
  (ip_eqb (b_addr a) (b_addr b) || is_unspec (b_addr a) || is_unspec (b_addr b)).

Definition bind (k : kern) (a : ip) (port : N) (t : sty) : kern * (berr + (N * N)) :=
  let d := dom_of a in
  if negb (is_unspec a) && negb (is_local_k k a) then (k, inl AddrNotAvailable)
  else
    let '(po, k1) := if port =? 0 then allocate_port k d t else (Some port, k) in
    match po with
    | None => (k1, inl AddrInUse)
    | Some p =>
        let key := mkkey d t a p in
        if existsb (fun kb => conflicts (fst kb) key) (k_binds k1) then (k1, inl AddrInUse)
        else
          let '(k2, fd) := insert_sock k1 (sock0 d t) in
          let k3 := insert_binding k2 key fd in
          (upd k3 fd (fun s => sk_bound s (Some key)), inr (fd, p))
    end.

Definition listen (k : kern) (fd : N) : kern := upd k fd (fun s => sk_listen s (Some (k_backlog k, []))).

(* ---- packets -------------------------------------------------------------------- *)
Definition F_SYN : N := 1. Definition F_ACK : N := 2. Definition F_FIN : N := 4. Definition F_RST : N := 8.
(* ghost flag: the segment's acknowledgement number is the one its receiver expects *)
Definition F_OK : N := 16.
Definition ack_flags (ok : bool) : N := if ok then F_ACK + F_OK else F_ACK.
Definition has (flags bit : N) : bool := N.testbit flags (N.log2 bit).
Definition emit (k : kern) (src dst : saddr) (flags tag : N) : kern :=
  set_out k (k_out k ++ [mkpkt tag (fst src) (fst dst) 1 (snd src) (snd dst) flags]).

Definition first_same_family (addrs : list ip) (a : ip) : option ip := find (fun x => same_family x a) addrs.

(* ---- UDP -------------------------------------------------------------------------- *)
Inductive serr := EAfNoSupport | EPermission | ENotConnected | ENotFound.

Definition is_bcast (a : ip) : bool := match a with V4 x => x mod 256 =? 255 | V6 _ => false end.

Definition udp_send_to (k : kern) (fd : N) (dst : saddr) (tag : N) : kern * option serr :=
  match get k fd with
  | None => (k, Some ENotFound)
  | Some s =>
      if negb (dom_eqb (s_dom s) (dom_of (fst dst))) then (k, Some EAfNoSupport)
      else if is_bcast (fst dst) then (k, Some EPermission)
      else match s_bound s with
           | None => (k, Some ENotFound)       (* UdpSocket is always bound *)
           | Some bk =>
               let src_ip :=
                 if is_unspec (b_addr bk) then
                   if is_loopback (fst dst) then loopback_like (fst dst)
                   else match first_same_family (k_addrs k) (fst dst) with Some a => a | None => b_addr bk end
                 else b_addr bk in
               (set_out k (k_out k ++ [mkpkt tag src_ip (fst dst) 0 (b_port bk) (snd dst) 0]), None)
           end
  end.

Definition udp_send (k : kern) (fd : N) (tag : N) : kern * option serr :=
  match get k fd with
  | None => (k, Some ENotFound)
  | Some s => match s_peer s with None => (k, Some ENotConnected) | Some p => udp_send_to k fd p tag end
  end.

Definition udp_connect (k : kern) (fd : N) (peer : saddr) : kern * option serr :=
  match get k fd with
  | None => (k, Some ENotFound)
  | Some s => if negb (dom_eqb (s_dom s) (dom_of (fst peer))) then (k, Some EAfNoSupport)
              else (upd k fd (fun s => sk_peer s (Some peer)), None)
  end.

Definition udp_target (k : kern) (p : pkt) : option N :=
  let d := dom_of (p_dst p) in
  match find_by_bind k (mkkey d Dgram (p_dst p) (p_dport p)) with
  | fd :: _ => Some fd
  | [] => match find_by_bind k (mkkey d Dgram (unspec_like (p_dst p)) (p_dport p)) with
          | fd :: _ => Some fd
          | [] => None
          end
  end.

Definition peer_ok (s : sock) (from : saddr) : bool :=
  match s_peer s with None => true | Some pr => saddr_eqb pr from end.

Definition udp_deliver (k : kern) (p : pkt) : kern :=
  match udp_target k p with
  | None => k
  | Some fd =>
      match get k fd with
      | None => k
      | Some s => let from := (p_src p, p_sport p) in
                  if peer_ok s from then upd k fd (fun s => sk_queue s (s_queue s ++ [(from, p_id p)])) else k
      end
  end.

(* ---- TCP --------------------------------------------------------------------------- *)
Inductive target := ToConn (fd : N) | ToListener (fd : N) | ReplyRst | Silent.

Definition is_listening (k : kern) (fd : N) : bool :=
  match get k fd with Some s => match s_listen s with Some _ => true | None => false end | None => false end.

Definition find_listener (k : kern) (local : saddr) : option N :=
  let d := dom_of (fst local) in
  match find (is_listening k) (find_by_bind k (mkkey d Stream (fst local) (snd local))) with
  | Some fd => Some fd
  | None => find (is_listening k) (find_by_bind k (mkkey d Stream (unspec_like (fst local)) (snd local)))
  end.

Definition tcp_demux (k : kern) (p : pkt) : target :=
  let local := (p_dst p, p_dport p) in
  let remote := (p_src p, p_sport p) in
  match find_connection k local remote with
  | Some fd => ToConn fd
  | None =>
      if has (p_flags p) F_SYN && negb (has (p_flags p) F_ACK) then
        match find_listener k local with Some l => ToListener l | None => ReplyRst end
      else if negb (has (p_flags p) F_RST) then ReplyRst else Silent
  end.

Definition emit_rst (k : kern) (local remote : saddr) (p : pkt) : kern :=
  emit k local remote (if has (p_flags p) F_ACK then F_RST else F_RST + F_ACK) 0.

Definition tstate_eqb (a b : tstate) : bool :=
  match a, b with SynSent, SynSent | SynReceived, SynReceived | Established, Established | Closed, Closed => true | _, _ => false end.

Definition sock_state_is (k : kern) (fd : N) (st : tstate) : bool :=
  match get k fd with Some s => match s_tcb s with Some t => tstate_eqb (t_state t) st | None => false end | None => false end.

Definition count_children (k : kern) (listener : N) (local : saddr) : N :=
  N.of_nat (length (filter (fun c => saddr_eqb (fst (fst c)) local && negb (snd c =? listener) && sock_state_is k (snd c) SynReceived)
                           (k_conns k))).

Definition accept_syn (k : kern) (listener : N) (local remote : saddr) : kern :=
  match get k listener with
  | None => k
  | Some ls =>
      match s_listen ls with
      | None => k
      | Some (backlog, ready) =>
          if backlog <=? count_children k listener local + N.of_nat (length ready) then k
          else
            let '(k1, child) := insert_sock k (sock0 (s_dom ls) (s_ty ls)) in
            let key := mkkey (s_dom ls) (s_ty ls) (fst local) (snd local) in
            let k2 := insert_binding k1 key child in
            let k3 := upd k2 child (fun s => sk_tcb (sk_peer (sk_bound s (Some key)) (Some remote))
                                                   (Some (mktcb SynReceived remote false [] true))) in
            let k4 := insert_conn k3 local remote child in
            emit k4 local remote (F_SYN + F_ACK + F_OK) 0
      end
  end.

Definition push_to_listener (k : kern) (child : N) (local : saddr) : kern :=
  match find_listener k local with
  | None => k
  | Some l => upd k l (fun s => match s_listen s with
                                | Some (b, ready) => sk_listen s (Some (b, ready ++ [child]))
                                | None => s end)
  end.

Definition set_tcb (k : kern) (fd : N) (f : tcb -> tcb) : kern :=
  upd k fd (fun s => match s_tcb s with Some t => sk_tcb s (Some (f t)) | None => s end).

Definition conn_deliver (k : kern) (fd : N) (local remote : saddr) (p : pkt) : kern :=
  if has (p_flags p) F_RST then
    (* abort_with: a child still in SynReceived is owned by nobody: mark it kernel-closed *)
    upd k fd (fun s => match s_tcb s with
                       | Some t => sk_tcb (if tstate_eqb (t_state t) SynReceived then sk_fdc s true else s)
                                          (Some (mktcb Closed (t_peer t) true [] (t_sync t)))
                       | None => s end)
  else
    match get k fd with
    | None => k
    | Some s =>
        match s_tcb s with
        | None => k
        | Some t =>
            match t_state t with
            | SynSent =>
                if has (p_flags p) F_SYN && has (p_flags p) F_ACK
                then emit (set_tcb k fd (fun t => mktcb Established (t_peer t) (t_reset t) (t_recv t) (has (p_flags p) F_OK)))
                          local remote (ack_flags (has (p_flags p) F_OK)) 0
                else k
            | SynReceived =>
                if has (p_flags p) F_ACK && negb (has (p_flags p) F_SYN) && has (p_flags p) F_OK      (* s.ack == snd_nxt *)
                then push_to_listener (set_tcb k fd (fun t => mktcb Established (t_peer t) (t_reset t) (t_recv t) (t_sync t))) fd local
                else k
            | Established =>
                if negb (p_id p =? 0)
                then emit (set_tcb k fd (fun t => mktcb (t_state t) (t_peer t) (t_reset t) (t_recv t ++ [p_id p]) (t_sync t))) local remote (ack_flags (t_sync t)) 0
                else if has (p_flags p) F_SYN
                then emit k local remote (ack_flags (t_sync t)) 0      (* occupies sequence space, not accepted: re-ACK *)
                else k
            | Closed => k
            end
        end
    end.

Definition tcp_deliver (k : kern) (p : pkt) : kern :=
  let local := (p_dst p, p_dport p) in
  let remote := (p_src p, p_sport p) in
  match tcp_demux k p with
  | ToConn fd => conn_deliver k fd local remote p
  | ToListener l => accept_syn k l local remote
  | ReplyRst => emit_rst k local remote p
  | Silent => k
  end.

Definition kdeliver (k : kern) (p : pkt) : kern :=
  if p_proto p =? 0 then udp_deliver k p else tcp_deliver k p.

(* TcpStream::connect, first poll *)
Inductive cres := CPending (fd : N) | CErr (e : berr) | COk | CRefused | CNone.

Definition tcp_connect_first (k : kern) (peer : saddr) : kern * cres :=
  let d := dom_of (fst peer) in
  let '(k1, fd) := insert_sock k (sock0 d Stream) in
  let local_ip :=
    if is_loopback (fst peer) then Some (loopback_like (fst peer))
    else first_same_family (k_addrs k1) (fst peer) in
  match local_ip with
  | None => (remove k1 fd, CErr AddrNotAvailable)
  | Some lip =>
      let '(po, k2) := allocate_port k1 d Stream in
      match po with
      | None => (remove k2 fd, CErr AddrInUse)
      | Some port =>
          let key := mkkey d Stream lip port in
          let k3 := upd (insert_binding k2 key fd) fd (fun s => sk_bound s (Some key)) in
          let src := (lip, port) in
          let k4 := upd k3 fd (fun s => sk_peer (sk_tcb s (Some (mktcb SynSent peer false [] true))) (Some peer)) in
          (emit (insert_conn k4 src peer fd) src peer F_SYN 0, CPending fd)
      end
  end.

(* later polls; an error drops the FdGuard, which closes the fd *)
Definition tcp_connect_poll (k : kern) (fd : N) : kern * cres :=
  match get k fd with
  | None => (k, CNone)
  | Some s =>
      match s_tcb s with
      | None => (k, CNone)
      | Some t =>
          match t_state t with
          | Established => (k, COk)
          | SynSent | SynReceived => (k, CPending fd)
          | Closed => (remove k fd, CRefused)
          end
      end
  end.

Definition bound_endpoint (s : sock) : saddr :=
  match s_bound s with Some b => (b_addr b, b_port b) | None => (V4 0, 0) end.

Definition rst_child (k : kern) (child : N) : kern :=
  match get k child with
  | None => k
  | Some s =>
      match s_tcb s with
      | None => remove k child
      | Some t => remove (emit k (bound_endpoint s) (t_peer t) (F_RST + F_ACK) 0) child
      end
  end.

Definition close_listener (k : kern) (fd : N) (s : sock) (ready : list N) : kern :=
  let local := bound_endpoint s in
  let wildcard := is_unspec (fst local) in
  let extra :=
    map fst (filter (fun fs =>
        negb (fst fs =? fd) && negb (existsb (N.eqb (fst fs)) ready) &&
        match s_tcb (snd fs), s_bound (snd fs) with
        | Some t, Some b => tstate_eqb (t_state t) SynReceived && (b_port b =? snd local) &&
                            same_family (b_addr b) (fst local) &&
                            (wildcard || ip_eqb (b_addr b) (fst local))
        | _, _ => false
        end) (k_socks k)) in
  remove (fold_left rst_child (ready ++ extra) k) fd.

(* Kernel::close *)
Definition close (k : kern) (fd : N) : kern :=
  match get k fd with
  | None => k
  | Some s =>
      match s_ty s, s_tcb s, s_listen s with
      | Stream, None, Some (_, ready) => close_listener k fd s ready
      | Stream, Some t, _ =>
          if negb (t_reset t) && tstate_eqb (t_state t) Established then
            if nonempty (t_recv t) then remove (emit k (bound_endpoint s) (t_peer t) (F_RST + F_ACK) 0) fd
            else set_bad k
          else remove k fd
      | _, _, _ => remove k fd
      end
  end.

Definition accept (k : kern) (fd : N) : kern * option (N * saddr) :=
  match get k fd with
  | None => (k, None)
  | Some s =>
      match s_listen s with
      | Some (b, child :: rest) =>
          let peer := match get k child with
                      | Some cs => match s_tcb cs with Some t => t_peer t | None => (V4 0, 0) end
                      | None => (V4 0, 0) end in
          (upd k fd (fun s => sk_listen s (Some (b, rest))), Some (child, peer))
      | _ => (k, None)
      end
  end.

(* Kernel::egress *)
Fixpoint egress_pass (k : kern) (drained : list pkt) : kern * list pkt :=
  match drained with
  | [] => (k, [])
  | p :: r => if is_local_k k (p_dst p)
              then egress_pass (kdeliver k p) r
              else let '(k', o) := egress_pass k r in (k', p :: o)
  end.

Fixpoint egress_loop (fuel : nat) (k : kern) : kern * list pkt :=
  match fuel with
  | O => (k, [])
  | S f => match k_out k with
           | [] => (k, [])
           | ob => let '(k1, o) := egress_pass (set_out k []) ob in
                   let '(k2, o') := egress_loop f k1 in (k2, o ++ o')
           end
  end.

(* tcp::reap_closed: kernel-owned sockets that reached a terminal state *)
Definition reapable (s : sock) : bool :=
  s_fdc s && match s_tcb s with Some t => tstate_eqb (t_state t) Closed || t_reset t | None => true end.
Definition reap_closed (k : kern) : kern :=
  fold_left remove (map fst (filter (fun fs => reapable (snd fs)) (k_socks k))) k.

Definition kegress_k (fuel : nat) (k : kern) : kern * list pkt :=
  let '(k1, o) := egress_loop fuel k in (reap_closed k1, o).

(* ---- the fabric ------------------------------------------------------------------------ *)
Fixpoint route_from (i : nat) (hs : list kern) (a : ip) : option nat :=
  match hs with
  | [] => None
  | k :: r => if mem_ip a (k_addrs k) then Some i else route_from (S i) r a
  end.
Definition route (hs : list kern) (a : ip) : option nat := route_from 0 hs a.

Fixpoint upd_nth {A} (l : list A) (i : nat) (f : A -> A) : list A :=
  match l, i with
  | [], _ => []
  | x :: r, O => f x :: r
  | x :: r, S j => x :: upd_nth r j f
  end.

Definition fdeliver (hs : list kern) (p : pkt) : list kern :=
  match route hs (p_dst p) with
  | Some i => upd_nth hs i (fun k => kdeliver k p)
  | None => hs
  end.

Fixpoint fegress_all (fuel : nat) (hs : list kern) : list kern * list pkt :=
  match hs with
  | [] => ([], [])
  | k :: r => let '(k', o) := kegress_k fuel k in
              let '(r', o') := fegress_all fuel r in (k' :: r', o ++ o')
  end.
