(* TV.NetPure.Ip — addresses, packets and the per-host notion of "local".
   No proofs in this file.

     ip            = std::net::IpAddr  (V4 = the u32, V6 = the u128)
     is_loopback   = IpAddr::is_loopback   (127.0.0.0/8 resp. ::1)
     is_unspec     = IpAddr::is_unspecified
     is_local      = Kernel::is_local          (kernel/mod.rs)
     pkt           = kernel::packet::Packet, reduced to the demux fields
                     (addresses, protocol, ports, TCP flags) plus a ghost id
                     (the harness carries it in the payload). *)
From TV.Lib Require Import Base.
Open Scope N_scope.

Inductive ip := V4 (a : N) | V6 (a : N).

Definition ip_eqb (a b : ip) : bool :=
  match a, b with
  | V4 x, V4 y => x =? y
  | V6 x, V6 y => x =? y
  | _, _ => false
  end.

Definition is_v4 (a : ip) : bool := match a with V4 _ => true | V6 _ => false end.
Definition same_family (a b : ip) : bool := Bool.eqb (is_v4 a) (is_v4 b).

Definition is_loopback (a : ip) : bool :=
  match a with
  | V4 x => x / 16777216 =? 127
  | V6 x => x =? 1
  end.

Definition is_unspec (a : ip) : bool :=
  match a with V4 x => x =? 0 | V6 x => x =? 0 end.

Definition unspec_like (a : ip) : ip := match a with V4 _ => V4 0 | V6 _ => V6 0 end.
Definition loopback_like (a : ip) : ip := match a with V4 _ => V4 2130706433 | V6 _ => V6 1 end.

Definition mem_ip (a : ip) (l : list ip) : bool := existsb (ip_eqb a) l.

(* Kernel::is_local: loopback is implicit, everything else must be configured. *)
Definition is_local (addrs : list ip) (a : ip) : bool := is_loopback a || mem_ip a addrs.

(* protocol: 0 = UDP, 1 = TCP; flags: bit0 syn, bit1 ack, bit2 fin, bit3 rst *)
Record pkt := mkpkt {
  p_id : N; p_src : ip; p_dst : ip; p_proto : N; p_sport : N; p_dport : N; p_flags : N
}.
