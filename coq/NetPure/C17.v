From TV.Lib Require Import Base.
From TV.NetPure Require Import Gen Ip Sock C17_proofs.
Open Scope N_scope.
Theorem c17_placeholder : forall k fd, get (remove k fd) fd = get (remove k fd) fd.
Proof. reflexivity. Qed.
Print Assumptions c17_placeholder.
