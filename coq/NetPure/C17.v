(* Property C17 — turmoil-net binds and routes packets like a real socket table.
   Statements only; proofs in C17_proofs.v.  DESIGN.md section 5 (C17). *)
From TV.Lib Require Import Base.
From TV.NetPure Require Import Gen Ip Sock SockRun C17_proofs.
Open Scope N_scope.

(* ---- bind ---------------------------------------------------------------------- *)
(* Overlap: same (domain, type, port) and equal address or a wildcard on either
   side.  Conflicts k key: some binding of the table overlaps key.  addr_ok: the
   address is the wildcard or local (loopback / configured). *)

(* bind to a non-zero port succeeds exactly when the address is acceptable and
   nothing overlaps; otherwise AddrNotAvailable resp. AddrInUse; the three
   outcomes are exhaustive and exclusive *)
Theorem bind_ok_iff : forall k a port t, port <> 0 ->
  let key := mkkey (dom_of a) t a port in
  (snd (bind k a port t) = inr (k_nextfd k, port) <-> addr_ok k a /\ ~ Conflicts k key) /\
  (snd (bind k a port t) = inl AddrNotAvailable <-> ~ addr_ok k a) /\
  (snd (bind k a port t) = inl AddrInUse <-> addr_ok k a /\ Conflicts k key) /\
  (forall r, snd (bind k a port t) = inr r -> r = (k_nextfd k, port)).
Proof. exact bind_ok_iff_lemma. Qed.

Theorem overlap_is_the_conflict_check : forall a b,
  conflicts a b = true <->
  b_dom a = b_dom b /\ b_ty a = b_ty b /\ b_port a = b_port b /\
  (b_addr a = b_addr b \/ is_unspec (b_addr a) = true \/ is_unspec (b_addr b) = true).
Proof. exact conflicts_spec. Qed.

(* port 0: the port handed out lies in the ephemeral range and is bound at no
   address for this (domain, type); the bind then succeeds; it fails with
   AddrInUse only when every port of the range is taken *)
Theorem port0_free_everywhere : forall k a t, cursor_ok k ->
  match snd (bind k a 0 t) with
  | inr (fd, p) => addr_ok k a /\ fd = k_nextfd k /\ eph_lo <= p /\ p <= eph_hi /\ port_free k (dom_of a) t p
  | inl AddrNotAvailable => ~ addr_ok k a
  | inl AddrInUse => addr_ok k a /\ forall p, eph_lo <= p -> p <= eph_hi -> ~ port_free k (dom_of a) t p
  end /\ cursor_ok (fst (bind k a 0 t)).
Proof. exact bind_port0_lemma. Qed.

(* PortAllocator::allocate on any range lo..=hi and cursor inside it: None iff
   every port is in use; Some p is the first free port in cyclic order from the
   cursor, and the cursor moves just past it (wrap-around included) *)
Theorem port0_none_iff_exhausted : forall lo hi cur in_use, lo <= cur -> cur <= hi ->
  (fst (allocate lo hi cur in_use) = None <-> forall q, lo <= q <= hi -> in_use q = true).
Proof. intros. now apply allocate_none_iff. Qed.

Theorem port0_first_free_from_cursor : forall lo hi cur in_use, lo <= cur -> cur <= hi ->
  match allocate lo hi cur in_use with
  | (Some p, c) => lo <= p <= hi /\ in_use p = false /\ c = (if p =? hi then lo else p + 1) /\
                   (forall q, lo <= q <= hi -> dist lo hi cur q < dist lo hi cur p -> in_use q = true)
  | (None, _) => forall q, lo <= q <= hi -> in_use q = true
  end.
Proof. intros. now apply allocate_spec. Qed.

(* ---- close -------------------------------------------------------------------------- *)
(* SocketTable::remove: the fd disappears from the table, from every binding
   group and from the connection index; no empty group is left behind; other
   sockets keep their bindings; a key whose only owner was fd is free again *)
Theorem close_frees : forall k fd, NoDup (map fst (k_binds k)) ->
  get (remove k fd) fd = None /\
  (forall key, ~ In fd (find_by_bind (remove k fd) key)) /\
  (forall local remote, find_connection (remove k fd) local remote <> Some fd) /\
  (forall key fds, In (key, fds) (k_binds (remove k fd)) -> fds <> []) /\
  (forall fd' key, fd' <> fd -> (In fd' (find_by_bind (remove k fd) key) <-> In fd' (find_by_bind k key))) /\
  (forall fd', fd' <> fd -> get (remove k fd) fd' = get k fd') /\
  (forall key, find_by_bind k key = [fd] -> ~ In key (keys (remove k fd))).
Proof.
  intros k fd Hn. split; [rewrite remove_get, N.eqb_refl; reflexivity|].
  split; [apply remove_binds_no_fd|]. split; [apply remove_conns|]. split; [apply remove_no_empty|].
  split; [intros; now apply remove_other_bindings|].
  split; [intros fd' Hne; rewrite remove_get; apply N.eqb_neq in Hne; now rewrite Hne|].
  intros; now apply remove_sole_owner_frees.
Qed.

(* Kernel::close (every path except the FIN/Linger path of an established stream
   with nothing unread, which the model flags with k_bad): the socket leaves the
   table and both indexes at once; closing a listener also removes every child
   still waiting in its accept queue (they share the listener's key) *)
Theorem close_releases : forall k fd, sock_wf k -> k_bad (close k fd) = k_bad k ->
  (get k fd <> None -> k_bad k = false ->
   get (close k fd) fd = None /\
   (forall key, ~ In fd (find_by_bind (close k fd) key)) /\
   (forall l r, find_connection (close k fd) l r <> Some fd)) /\
  (forall s b ready, get k fd = Some s -> s_ty s = Stream -> s_tcb s = None -> s_listen s = Some (b, ready) ->
     forall c, In c ready -> get (close k fd) c = None).
Proof. exact close_releases_lemma. Qed.

(* ... and nothing else: a socket that is not in the listener's accept queue and
   is not a SynReceived child on the listener's port, of the listener's address
   family and (unless the listener is bound to the wildcard) on its address, is
   left exactly as it was.  In particular closing 0.0.0.0:p spares the
   half-open connections of [::]:p (repaired in /repo by fix 5937758). *)
Theorem close_listener_spares_others : forall k fd s b ready c s',
  sock_wf k ->
  get k fd = Some s -> s_ty s = Stream -> s_tcb s = None -> s_listen s = Some (b, ready) ->
  c <> fd -> get k c = Some s' -> ~ In c ready ->
  match s_tcb s', s_bound s' with
  | Some t, Some bk => tstate_eqb (t_state t) SynReceived && (b_port bk =? snd (bound_endpoint s)) &&
                       same_family (b_addr bk) (fst (bound_endpoint s)) &&
                       (is_unspec (fst (bound_endpoint s)) || ip_eqb (b_addr bk) (fst (bound_endpoint s)))
  | _, _ => false
  end = false ->
  get (close k fd) c = Some s'.
Proof.
  intros k fd s b ready c s' Hw G Ht Htcb Hl Hne Gc Hr Hc.
  apply (close_listener_spares_lemma k fd s b ready c s' Hw G Ht Htcb Hl Hne Gc Hr).
  unfold child_cond. cbn [fst snd]. rewrite Hc. now rewrite andb_false_r.
Qed.

(* ---- demux -------------------------------------------------------------------------------- *)
(* a datagram goes to the first socket bound to (dst addr, dst port), else to
   the first bound to (wildcard, dst port), else nowhere; it is queued only if
   that socket is unconnected or connected to the sender; no other socket, no
   index and no queue changes *)
Theorem udp_demux : forall k p,
  let d := dom_of (p_dst p) in
  let exact := find_by_bind k (mkkey d Dgram (p_dst p) (p_dport p)) in
  let wild := find_by_bind k (mkkey d Dgram (unspec_like (p_dst p)) (p_dport p)) in
  udp_target k p = match hd_error exact with Some fd => Some fd | None => hd_error wild end /\
  (forall fd s, udp_target k p = Some fd -> get k fd = Some s ->
     get (udp_deliver k p) fd =
       Some (if peer_ok s (p_src p, p_sport p)
             then sk_queue s (s_queue s ++ [((p_src p, p_sport p), p_id p)]) else s)) /\
  (forall fd', udp_target k p <> Some fd' -> get (udp_deliver k p) fd' = get k fd') /\
  (udp_target k p = None -> udp_deliver k p = k) /\
  k_binds (udp_deliver k p) = k_binds k /\ k_conns (udp_deliver k p) = k_conns k /\ k_out (udp_deliver k p) = k_out k.
Proof.
  intros k p. cbn zeta. split; [apply udp_target_spec|]. split; [apply udp_deliver_target|].
  destruct (udp_deliver_frame k p) as (H1 & H2 & H3 & _ & H5).
  split; [exact H5|]. split; [apply udp_deliver_no_target|]. auto.
Qed.

(* a segment goes to the socket indexed under its 4-tuple if there is one; else,
   only a bare SYN goes to a listener: the first listening socket bound to the
   exact (addr, port), the wildcard one only if no exact binding listens; else a
   RST is the answer, unless the segment is itself a RST *)
Theorem tcp_demux_rule : forall k p,
  let local := (p_dst p, p_dport p) in
  let remote := (p_src p, p_sport p) in
  let bare_syn := has (p_flags p) F_SYN && negb (has (p_flags p) F_ACK) in
  match tcp_demux k p with
  | ToConn fd => find_connection k local remote = Some fd
  | ToListener l =>
      find_connection k local remote = None /\ bare_syn = true /\ is_listening k l = true /\
      (In l (find_by_bind k (mkkey (dom_of (p_dst p)) Stream (p_dst p) (p_dport p))) \/
       (In l (find_by_bind k (mkkey (dom_of (p_dst p)) Stream (unspec_like (p_dst p)) (p_dport p))) /\
        forall x, In x (find_by_bind k (mkkey (dom_of (p_dst p)) Stream (p_dst p) (p_dport p))) -> is_listening k x = false))
  | ReplyRst =>
      find_connection k local remote = None /\
      ((bare_syn = true /\
        forall x, In x (find_by_bind k (mkkey (dom_of (p_dst p)) Stream (p_dst p) (p_dport p)) ++
                        find_by_bind k (mkkey (dom_of (p_dst p)) Stream (unspec_like (p_dst p)) (p_dport p))) ->
                  is_listening k x = false) \/
       (bare_syn = false /\ has (p_flags p) F_RST = false))
  | Silent => find_connection k local remote = None /\ bare_syn = false /\ has (p_flags p) F_RST = true
  end.
Proof.
  intros k p. cbn zeta. pose proof (tcp_demux_spec k p) as H. cbn zeta in H.
  destruct (tcp_demux k p) as [fd|l| |]; auto.
  - destruct H as (H1 & H2 & H3). apply find_listener_spec in H3 as [H4 H5]. cbn in H5. auto.
  - destruct H as (H1 & [[H2 H3]|H2]); split; auto. left. split; auto.
    apply (find_listener_none k (p_dst p, p_dport p) H3).
Qed.

(* ---- fabric ----------------------------------------------------------------------------------- *)
(* Fabric::deliver hands the packet to the one host that owns the destination
   address and changes no other host; an unknown address changes nothing;
   Kernel::egress lets nothing with a local destination leave the host *)
Theorem fabric_route : forall hs p,
  length (fdeliver hs p) = length hs /\
  match route hs (p_dst p) with
  | Some i => (exists k, nth_error hs i = Some k /\ mem_ip (p_dst p) (k_addrs k) = true /\
                         nth_error (fdeliver hs p) i = Some (kdeliver k p)) /\
              (forall j, j <> i -> nth_error (fdeliver hs p) j = nth_error hs j)
  | None => fdeliver hs p = hs /\ forall k, In k hs -> mem_ip (p_dst p) (k_addrs k) = false
  end.
Proof. exact fdeliver_spec. Qed.

Theorem egress_keeps_local_traffic_inside : forall fuel k,
  Forall (fun p => is_local (k_addrs k) (p_dst p) = false) (snd (kegress_k fuel k)).
Proof. exact kegress_nonlocal. Qed.

(* ---- the index is the set of live sockets, in every reachable state ---------------------------- *)
(* sock_wf: fds unique and below next_id; binding keys unique with non-empty
   groups; fd is listed under key iff a socket fd exists whose `bound` is key;
   the allocator cursor stays inside the ephemeral range.  It holds in every
   kernel of every Net reachable through the harness alphabet (bind, listen,
   connect, poll, accept, close, UDP connect/send, raw packets through the
   fabric, egress, pump, reads), for all scripts. *)
Theorem table_describes_live_sockets : forall addrs es,
  Forall ev_ok es -> Forall sock_wf (n_hosts (nfold (net0 addrs) es)).
Proof. exact wf_reachable. Qed.

(* hence the conflict check of bind is a check against the live sockets *)
Theorem bind_conflict_is_with_a_live_socket : forall k key, sock_wf k ->
  (Conflicts k key <->
   exists fd s key', get k fd = Some s /\ s_bound s = Some key' /\
     b_dom key' = b_dom key /\ b_ty key' = b_ty key /\ b_port key' = b_port key /\
     (b_addr key' = b_addr key \/ is_unspec (b_addr key') = true \/ is_unspec (b_addr key) = true)).
Proof. exact conflicts_live. Qed.

Theorem bind_ok_iff_live : forall addrs es h a port t, Forall ev_ok es -> port <> 0 ->
  let k := kern_at (nfold (net0 addrs) es) h in
  let key := mkkey (dom_of a) t a port in
  (snd (bind k a port t) = inr (k_nextfd k, port) <->
   addr_ok k a /\ ~ exists fd s key', get k fd = Some s /\ s_bound s = Some key' /\ Overlap key' key).
Proof.
  intros addrs es h a port t He Hp k key.
  assert (Hw : sock_wf k) by (apply wf_kern_at, wf_reachable, He).
  destruct (bind_ok_iff_lemma k a port t Hp) as (H1 & _). fold key in H1. rewrite H1.
  now rewrite (conflicts_live k key Hw).
Qed.

(* ---- non-vacuity ---------------------------------------------------------------------------------- *)
Definition A1 := V4 167772161. (* 10.0.0.1 *)  Definition A2 := V4 167772162. Definition W4 := V4 0.
Definition k_ex : kern := fst (bind (fst (bind (kern0 [A1; A2]) A1 5000 Dgram)) W4 6000 Dgram).
Example c17_nonvacuous :
  snd (bind k_ex A2 5000 Dgram) = inr (3, 5000) /\         (* distinct concrete addresses coexist *)
  snd (bind k_ex W4 5000 Dgram) = inl AddrInUse /\         (* wildcard against specific *)
  snd (bind k_ex A1 6000 Dgram) = inl AddrInUse /\         (* specific against wildcard *)
  snd (bind k_ex A1 5000 Stream) = inr (3, 5000) /\        (* TCP and UDP port spaces are separate *)
  snd (bind k_ex (V4 167772415) 7000 Dgram) = inl AddrNotAvailable /\
  snd (bind (remove k_ex 1) W4 5000 Dgram) = inr (3, 5000) /\   (* close frees *)
  udp_target k_ex (mkpkt 9 (V4 1) A1 0 7 5000 0) = Some 1 /\
  udp_target k_ex (mkpkt 9 (V4 1) A2 0 7 6000 0) = Some 2 /\
  udp_target k_ex (mkpkt 9 (V4 1) A2 0 7 5000 0) = None /\
  fst (allocate 10 12 12 (fun p => p =? 12)) = Some 10 /\        (* wrap-around *)
  fst (allocate 10 11 10 (fun _ => true)) = None.
Proof. vm_compute. repeat split; reflexivity. Qed.

Print Assumptions bind_ok_iff.
Print Assumptions overlap_is_the_conflict_check.
Print Assumptions port0_free_everywhere.
Print Assumptions port0_none_iff_exhausted.
Print Assumptions port0_first_free_from_cursor.
Print Assumptions close_frees.
Print Assumptions close_releases.
Print Assumptions close_listener_spares_others.
Print Assumptions udp_demux.
Print Assumptions tcp_demux_rule.
Print Assumptions fabric_route.
Print Assumptions egress_keeps_local_traffic_inside.
Print Assumptions table_describes_live_sockets.
Print Assumptions bind_conflict_is_with_a_live_socket.
Print Assumptions bind_ok_iff_live.
Print Assumptions c17_nonvacuous.
