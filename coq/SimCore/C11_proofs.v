(* TV.SimCore.C11_proofs — Sim::run / Sim::step results (property C11). *)
From TV.Lib Require Import Base.
From TV.SimCore Require Import Model Facts.
Open Scope N_scope.

(* ---- termination -------------------------------------------------------- *)

Definition need (s : state) : nat := N.to_nat ((duration s - elapsed s) / tick s) + 1.

Lemma need_bump s l :
  0 < tick s -> elapsed s + tick s <= duration s -> S (need (bump s l)) = need s.
Proof.
  intros Ht Hd. unfold need, bump; cbn.
  replace (duration s - elapsed s) with ((duration s - (elapsed s + tick s)) + 1 * tick s) by lia.
  rewrite N.div_add by lia. set (q := (duration s - (elapsed s + tick s)) / tick s). lia.
Qed.

Lemma run_loop_fuel_enough : forall fuel orc i s log,
  0 < tick s -> (need s <= fuel)%nat ->
  snd (fst (fst (run_loop fuel orc i s log))) <> RunFuel.
Proof.
  induction fuel as [|f IH]; intros orc i s log Ht Hn.
  - exfalso. unfold need in Hn. set (q := N.to_nat _) in Hn. lia.
  - cbn. destruct (step s (orc i)) as [[s' r] lg] eqn:E.
    destruct (step_res_cases _ _ _ _ _ E) as [(A & -> & ->)|(A & [-> | ->] & _)];
      try (cbn; discriminate).
    destruct ((duration s <? elapsed s + tick s) && negb (fin_now (rts s))) eqn:C;
      [cbn; discriminate|].
    destruct (fin_now (rts s)) eqn:F; [cbn; discriminate|].
    rewrite andb_true_r in C. apply N.ltb_ge in C.
    apply IH; [exact Ht|].
    pose proof (need_bump s (map (adv (tick s)) (rts s)) Ht C). lia.
Qed.

Lemma run_terminates_lemma s orc :
  0 < tick s -> snd (fst (fst (run s orc))) <> RunFuel.
Proof.
  intro Ht. unfold run. destruct (existsb is_client (rts s)); [|cbn; discriminate].
  apply run_loop_fuel_enough; auto. unfold run_fuel, need. set (q := N.to_nat _). lia.
Qed.
