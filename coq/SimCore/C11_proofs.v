(* TV.SimCore.C11_proofs — Sim::run / Sim::step results (property C11). *)
From TV.Lib Require Import Base.
From TV.SimCore Require Import Model Facts.
Open Scope N_scope.

(* ---- termination -------------------------------------------------------- *)

Definition need (s : state) : nat := N.to_nat ((duration s - elapsed s) / tick s) + 1.

Lemma need_bump s l :
  0 < tick s -> elapsed s + tick s <= duration s -> S (need (bump s l)) = need s.
Proof.
  intros Ht Hd. unfold need, bump; cbn.
  replace (duration s - elapsed s) with ((duration s - (elapsed s + tick s)) + 1 * tick s) by lia.
  rewrite N.div_add by lia. set (q := (duration s - (elapsed s + tick s)) / tick s). lia.
Qed.

Lemma run_loop_fuel_enough : forall fuel orc i s log,
  0 < tick s -> (need s <= fuel)%nat ->
  snd (fst (fst (run_loop fuel orc i s log))) <> RunFuel.
Proof.
  induction fuel as [|f IH]; intros orc i s log Ht Hn.
  - exfalso. unfold need in Hn. set (q := N.to_nat _) in Hn. lia.
  - cbn. destruct (step s (orc i)) as [[s' r] lg] eqn:E.
    destruct (step_res_cases _ _ _ _ _ E) as [(A & -> & ->)|(A & [-> | ->] & _)];
      try (cbn; discriminate).
    destruct ((duration s <? elapsed s + tick s) && negb (fin_now (rts s))) eqn:C;
      [cbn; discriminate|].
    destruct (fin_now (rts s)) eqn:F; [cbn; discriminate|].
    rewrite andb_true_r in C. apply N.ltb_ge in C.
    apply IH; [exact Ht|].
    pose proof (need_bump s (map (adv (tick s)) (rts s)) Ht C). lia.
Qed.

Lemma run_terminates_lemma s orc :
  0 < tick s -> snd (fst (fst (run s orc))) <> RunFuel.
Proof.
  intro Ht. unfold run. destruct (existsb is_client (rts s)); [|cbn; discriminate].
  apply run_loop_fuel_enough; auto. unfold run_fuel, need. set (q := N.to_nat _). lia.
Qed.

(* ---- the specification, written without reference to the loop ------------ *)

(* state of r's JoinHandle after the j-th tick from now on (if it is polled) *)
Definition outcome_at (r : rt) (j : nat) : outcome := prog (cur_sw r) (polls r + j).
Definition pend_before (r : rt) (j : nat) : Prop :=
  forall i, (i < j)%nat -> outcome_at r i = Pend.
(* r completes with Ok in one of the next M steps *)
Definition done_ok_within (r : rt) (M : nat) : Prop :=
  exists j, (j < M)%nat /\ pend_before r j /\ outcome_at r j = Ok_.
(* r returns Err or panics in the j-th step from now (0-based) *)
Definition fails_at (r : rt) (j : nat) : Prop :=
  pend_before r j /\ (outcome_at r j = Err_ \/ outcome_at r j = Panic_).

(* "every client finished Ok within the next M steps, no software failed within
   them, and none of the steps before the M-th crossed the duration" *)
Definition spec_ok (s : state) (M : nat) : Prop :=
  (1 <= M)%nat /\
  Forall (fun r => running r = true -> is_client r = true -> done_ok_within r M) (rts s) /\
  Forall (fun r => running r = true -> forall j, (j < M)%nat -> ~ fails_at r j) (rts s) /\
  (M = 1%nat \/ elapsed s + N.of_nat (M - 1) * tick s <= duration s).

Lemma outcome_at_0 r : outcome_at r 0 = cur_outcome r.
Proof. unfold outcome_at, cur_outcome. now rewrite Nat.add_0_r. Qed.

Lemma adv_pend d r :
  running r = true -> cur_outcome r = Pend ->
  running (adv d r) = true /\ is_client (adv d r) = is_client r /\
  forall j, outcome_at (adv d r) j = outcome_at r (S j).
Proof.
  intros Hr Ho. unfold adv, rt_tick. rewrite Hr, Ho. cbn. repeat split.
  intro j. unfold outcome_at, cur_sw. cbn. f_equal. lia.
Qed.

Lemma adv_not_pend d r :
  running r = true -> cur_outcome r <> Pend -> ok_out r = true -> running (adv d r) = false.
Proof.
  intros Hr Ho Hk. unfold adv, rt_tick, ok_out in *. rewrite Hr.
  destruct (cur_outcome r); try discriminate; try contradiction; reflexivity.
Qed.

Lemma adv_stopped d r : running r = false -> running (adv d r) = false.
Proof. intro Hr. unfold adv. rewrite Hr. exact Hr. Qed.

Lemma all_ok_In l r : all_ok l = true -> In r l -> running r = true -> ok_out r = true.
Proof.
  unfold all_ok. rewrite forallb_forall. intros H Hin Hr. specialize (H r Hin).
  now rewrite Hr in H.
Qed.

Lemma fin_now_false l :
  fin_now l = false ->
  exists r, In r l /\ running r = true /\ is_client r = true /\ cur_outcome r = Pend.
Proof.
  unfold fin_now. induction l as [|x l IH]; cbn; [discriminate|].
  destruct (running x) eqn:Er, (is_client x) eqn:Ec; cbn;
    try (intro H; destruct (IH H) as (r & A & B); exists r; split; [now right|exact B]).
  destruct (cur_outcome x) eqn:Eo; cbn;
    try (intro H; destruct (IH H) as (r & A & B); exists r; split; [now right|exact B]).
  intros _. exists x. repeat split; auto.
Qed.

Lemma fin_now_true l r :
  fin_now l = true -> In r l -> running r = true -> is_client r = true -> cur_outcome r <> Pend.
Proof.
  unfold fin_now. rewrite forallb_forall. intros H Hin Hr Hc. specialize (H r Hin).
  rewrite Hr, Hc in H. cbn in H. destruct (cur_outcome r); congruence.
Qed.

Lemma ok_out_cases r : ok_out r = true -> cur_outcome r = Pend \/ cur_outcome r = Ok_.
Proof. unfold ok_out. destruct (cur_outcome r); auto; discriminate. Qed.

Lemma not_ok_out_fails r : ok_out r = false -> fails_at r 0.
Proof.
  unfold ok_out, fails_at. rewrite outcome_at_0. intro H. split.
  - intros i Hi. lia.
  - destruct (cur_outcome r); auto; discriminate.
Qed.

(* a software failure now excludes success *)
Lemma spec_not_fail s M : all_ok (rts s) = false -> ~ spec_ok s M.
Proof.
  intros A (H1 & _ & H3 & _).
  assert (exists r, In r (rts s) /\ running r = true /\ ok_out r = false) as (r & Hin & Hr & Ho).
  { unfold all_ok in A. clear -A. induction (rts s) as [|x l IH]; cbn in *; [discriminate|].
    destruct (running x) eqn:Er; cbn in *.
    - destruct (ok_out x) eqn:Eo; cbn in *.
      + destruct (IH A) as (r & B & C). exists r. split; auto.
      + exists x. auto.
    - destruct (IH A) as (r & B & C). exists r. split; auto. }
  rewrite Forall_forall in H3. apply (H3 r Hin Hr 0%nat); [lia|]. now apply not_ok_out_fails.
Qed.

(* all running clients complete now: one step suffices *)
Lemma spec_fin s : all_ok (rts s) = true -> fin_now (rts s) = true -> spec_ok s 1.
Proof.
  intros A F. split; [lia|]. split; [|split; [|now left]].
  - apply Forall_forall. intros r Hin Hr Hc. exists 0%nat. split; [lia|]. split.
    + intros i Hi; lia.
    + rewrite outcome_at_0. pose proof (fin_now_true _ _ F Hin Hr Hc).
      destruct (ok_out_cases r (all_ok_In _ _ A Hin Hr)); congruence.
  - apply Forall_forall. intros r Hin Hr j Hj [_ Hf]. assert (j = 0)%nat by lia. subst.
    rewrite outcome_at_0 in Hf.
    destruct (ok_out_cases r (all_ok_In _ _ A Hin Hr)); destruct Hf; congruence.
Qed.

Lemma spec_ge2 s M :
  all_ok (rts s) = true -> fin_now (rts s) = false -> spec_ok s M -> (2 <= M)%nat.
Proof.
  intros A F (H1 & H2 & _). destruct (fin_now_false _ F) as (r & Hin & Hr & Hc & Ho).
  rewrite Forall_forall in H2. destruct (H2 r Hin Hr Hc) as (j & Hj & Hp & Hok).
  destruct j; [rewrite outcome_at_0 in Hok; congruence|]. lia.
Qed.

(* the duration is crossed with a client unfinished *)
Lemma spec_not_timeout s M :
  all_ok (rts s) = true -> fin_now (rts s) = false -> duration s < elapsed s + tick s ->
  ~ spec_ok s M.
Proof.
  intros A F D S. pose proof (spec_ge2 _ _ A F S) as G.
  destruct S as (_ & _ & _ & [->|H]); [lia|].
  assert (N.of_nat (M - 1) >= 1) by lia. nia.
Qed.

(* one successful, not final step: the specification moves with the state *)
Lemma spec_step_down s M :
  all_ok (rts s) = true -> fin_now (rts s) = false -> spec_ok s M ->
  spec_ok (bump s (map (adv (tick s)) (rts s))) (M - 1).
Proof.
  intros A F S. pose proof (spec_ge2 _ _ A F S) as G.
  destruct S as (H1 & H2 & H3 & H4). rewrite Forall_forall in H2, H3.
  split; [lia|]. cbn [rts bump]. split; [|split].
  - apply Forall_forall. intros r' Hin' Hr' Hc'.
    apply in_map_iff in Hin' as (r & <- & Hin).
    destruct (running r) eqn:Er; [|rewrite adv_stopped in Hr' by auto; discriminate].
    pose proof (all_ok_In _ _ A Hin Er) as Ok. destruct (ok_out_cases r Ok) as [Ep|Eo].
    + destruct (adv_pend (tick s) r Er Ep) as (_ & Hc & Hs). rewrite Hc in Hc'.
      destruct (H2 r Hin Er Hc') as (j & Hj & Hp & Hok).
      destruct j; [rewrite outcome_at_0 in Hok; congruence|].
      exists j. split; [lia|]. split.
      * intros i Hi. rewrite Hs. apply Hp. lia.
      * now rewrite Hs.
    + rewrite adv_not_pend in Hr'; auto; [discriminate|congruence].
  - apply Forall_forall. intros r' Hin' Hr' j Hj.
    apply in_map_iff in Hin' as (r & <- & Hin).
    destruct (running r) eqn:Er; [|rewrite adv_stopped in Hr' by auto; discriminate].
    pose proof (all_ok_In _ _ A Hin Er) as Ok. destruct (ok_out_cases r Ok) as [Ep|Eo].
    + destruct (adv_pend (tick s) r Er Ep) as (_ & _ & Hs).
      intros [Hp Hf]. apply (H3 r Hin Er (S j)); [lia|]. split.
      * intros i Hi. destruct i; [now rewrite outcome_at_0|]. rewrite <- Hs. apply Hp. lia.
      * now rewrite <- Hs.
    + rewrite adv_not_pend in Hr'; auto; [discriminate|congruence].
  - destruct H4 as [->|H4]; [lia|]. destruct (Nat.eq_dec M 2) as [->|Hn]; [now left|right].
    cbn [elapsed tick duration bump].
    replace (N.of_nat (M - 1)) with (N.of_nat (M - 1 - 1) + 1) in H4 by lia. lia.
Qed.

Lemma spec_step_up s M :
  all_ok (rts s) = true -> elapsed s + tick s <= duration s ->
  spec_ok (bump s (map (adv (tick s)) (rts s))) M -> spec_ok s (S M).
Proof.
  intros A D (H1 & H2 & H3 & H4). cbn [rts bump] in H2, H3.
  rewrite Forall_forall in H2, H3.
  split; [lia|]. split; [|split].
  - apply Forall_forall. intros r Hin Hr Hc.
    pose proof (all_ok_In _ _ A Hin Hr) as Ok. destruct (ok_out_cases r Ok) as [Ep|Eo].
    + destruct (adv_pend (tick s) r Hr Ep) as (Hr' & Hc' & Hs).
      destruct (H2 (adv (tick s) r) (in_map _ _ _ Hin) Hr' (eq_trans Hc' Hc)) as (j & Hj & Hp & Hok).
      exists (S j). split; [lia|]. split.
      * intros i Hi. destruct i; [now rewrite outcome_at_0|]. rewrite <- Hs. apply Hp. lia.
      * now rewrite <- Hs.
    + exists 0%nat. split; [lia|]. split; [intros i Hi; lia|]. now rewrite outcome_at_0.
  - apply Forall_forall. intros r Hin Hr j Hj [Hp Hf].
    pose proof (all_ok_In _ _ A Hin Hr) as Ok. destruct (ok_out_cases r Ok) as [Ep|Eo].
    + destruct (adv_pend (tick s) r Hr Ep) as (Hr' & _ & Hs).
      destruct j; [rewrite outcome_at_0 in Hf; destruct Hf; congruence|].
      apply (H3 (adv (tick s) r) (in_map _ _ _ Hin) Hr' j); [lia|]. split.
      * intros i Hi. rewrite Hs. apply Hp. lia.
      * now rewrite !Hs.
    + destruct j; [rewrite outcome_at_0 in Hf; destruct Hf; congruence|].
      specialize (Hp 0%nat ltac:(lia)). rewrite outcome_at_0 in Hp. congruence.
  - right. cbn [elapsed tick duration bump] in H4.
    replace (S M - 1)%nat with M by lia.
    destruct H4 as [->|H4]; [lia|].
    replace (N.of_nat M) with (N.of_nat (M - 1) + 1) by lia. lia.
Qed.

(* ---- the loop against the specification ----------------------------------- *)

Definition rres_of (x : state * rres * nat * list read_obs) : rres := snd (fst (fst x)).
Definition nsteps_of (x : state * rres * nat * list read_obs) : nat := snd (fst x).
Definition state_of (x : state * rres * nat * list read_obs) : state := fst (fst (fst x)).

Lemma run_loop_ok_spec : forall fuel orc i s log,
  rres_of (run_loop fuel orc i s log) = RunOk ->
  exists m, nsteps_of (run_loop fuel orc i s log) = (i + m)%nat /\ spec_ok s m /\
            (forall M, spec_ok s M -> (m <= M)%nat).
Proof.
  induction fuel as [|f IH]; intros orc i s log H; [discriminate|].
  cbn in *. destruct (step s (orc i)) as [[s' r] lg] eqn:E.
  destruct (step_res_cases _ _ _ _ _ E) as [(A & -> & ->)|(A & [-> | ->] & _)]; try discriminate.
  destruct ((duration s <? elapsed s + tick s) && negb (fin_now (rts s))) eqn:C; [discriminate|].
  destruct (fin_now (rts s)) eqn:F.
  - exists 1%nat. cbn. split; [lia|]. split; [now apply spec_fin|]. intros M (HM & _). lia.
  - rewrite andb_true_r in C. apply N.ltb_ge in C.
    destruct (IH _ _ _ _ H) as (m & Hn & Hs & Hmin).
    exists (S m). split; [rewrite Hn; lia|]. split; [now apply spec_step_up|].
    intros M HM. pose proof (spec_ge2 _ _ A F HM).
    specialize (Hmin _ (spec_step_down _ _ A F HM)). lia.
Qed.

Lemma run_loop_spec_ok : forall fuel orc i s log M,
  0 < tick s -> (need s <= fuel)%nat -> spec_ok s M ->
  rres_of (run_loop fuel orc i s log) = RunOk.
Proof.
  induction fuel as [|f IH]; intros orc i s log M Ht Hn HM.
  - exfalso. unfold need in Hn. set (q := N.to_nat _) in Hn. lia.
  - cbn. destruct (step s (orc i)) as [[s' r] lg] eqn:E.
    destruct (step_res_cases _ _ _ _ _ E) as [(A & -> & ->)|(A & _ & _)];
      [|exfalso; eapply spec_not_fail; eauto].
    destruct (fin_now (rts s)) eqn:F.
    + rewrite andb_false_r. reflexivity.
    + rewrite andb_true_r. destruct (duration s <? elapsed s + tick s) eqn:C.
      * apply N.ltb_lt in C. exfalso. eapply spec_not_timeout; eauto.
      * apply N.ltb_ge in C. apply (IH _ _ _ _ (M - 1)%nat).
        -- exact Ht.
        -- pose proof (need_bump s (map (adv (tick s)) (rts s)) Ht C). lia.
        -- now apply spec_step_down.
Qed.

Theorem c11_ok_iff_lemma s orc :
  0 < tick s -> existsb is_client (rts s) = true ->
  (rres_of (run s orc) = RunOk <-> exists M, spec_ok s M).
Proof.
  intros Ht Hc. unfold run. rewrite Hc. split.
  - intro H. destruct (run_loop_ok_spec _ _ _ _ _ H) as (m & _ & Hs & _). eauto.
  - intros [M HM]. eapply run_loop_spec_ok; eauto. unfold run_fuel, need.
    set (q := N.to_nat _). lia.
Qed.

Theorem c11_no_clients_lemma s orc :
  existsb is_client (rts s) = false -> run s orc = (s, RunOk, 0%nat, []).
Proof. intro H. unfold run. now rewrite H. Qed.

(* the number of steps of a successful run is the least M of the specification *)
Theorem c11_ok_steps_lemma s orc :
  existsb is_client (rts s) = true -> rres_of (run s orc) = RunOk ->
  spec_ok s (nsteps_of (run s orc)) /\
  forall M, spec_ok s M -> (nsteps_of (run s orc) <= M)%nat.
Proof.
  intros Hc. unfold run. rewrite Hc. intro H.
  destruct (run_loop_ok_spec _ _ _ _ _ H) as (m & Hn & Hs & Hmin). rewrite Hn. auto.
Qed.

(* ---- failure is reported in the step in which it happens -------------------- *)

(* m successful steps can be made from s: nobody fails, not all clients are
   done, the duration is not crossed *)
Fixpoint after (s : state) (m : nat) : state :=
  match m with O => s | S k => after (bump s (map (adv (tick s)) (rts s))) k end.
Fixpoint quiet (s : state) (m : nat) : Prop :=
  match m with
  | O => True
  | S k => all_ok (rts s) = true /\ fin_now (rts s) = false /\ elapsed s + tick s <= duration s /\
           quiet (bump s (map (adv (tick s)) (rts s))) k
  end.

Lemma run_loop_err_spec : forall fuel orc i s log,
  (rres_of (run_loop fuel orc i s log) = RunErr \/ rres_of (run_loop fuel orc i s log) = RunPanic) ->
  exists m, nsteps_of (run_loop fuel orc i s log) = (i + S m)%nat /\ quiet s m /\
            all_ok (rts (after s m)) = false /\
            elapsed (state_of (run_loop fuel orc i s log)) = elapsed (after s m).
Proof.
  induction fuel as [|f IH]; intros orc i s log H; [destruct H; discriminate|].
  cbn in *. destruct (step s (orc i)) as [[s' r] lg] eqn:E.
  destruct (step_res_cases _ _ _ _ _ E) as [(A & -> & ->)|(A & Hr & l & ->)].
  - destruct ((duration s <? elapsed s + tick s) && negb (fin_now (rts s))) eqn:C;
      [destruct H; discriminate|].
    destruct (fin_now (rts s)) eqn:F; [destruct H; discriminate|].
    rewrite andb_true_r in C. apply N.ltb_ge in C.
    destruct (IH _ _ _ _ H) as (m & Hn & Hq & Hf & He).
    exists (S m). cbn. rewrite Hn. repeat split; auto. lia.
  - exists 0%nat. cbn. destruct Hr as [-> | ->]; cbn; repeat split; auto; lia.
Qed.

Lemma run_loop_timeout_spec : forall fuel orc i s log,
  rres_of (run_loop fuel orc i s log) = RunTimeout ->
  exists m, nsteps_of (run_loop fuel orc i s log) = (i + S m)%nat /\ quiet s m /\
            all_ok (rts (after s m)) = true /\ fin_now (rts (after s m)) = false /\
            duration s < elapsed (after s m) + tick s /\
            elapsed (state_of (run_loop fuel orc i s log)) = elapsed (after s m) + tick s.
Proof.
  induction fuel as [|f IH]; intros orc i s log H; [discriminate|].
  cbn in *. destruct (step s (orc i)) as [[s' r] lg] eqn:E.
  destruct (step_res_cases _ _ _ _ _ E) as [(A & -> & ->)|(A & [-> | ->] & _)]; try discriminate.
  destruct ((duration s <? elapsed s + tick s) && negb (fin_now (rts s))) eqn:C.
  - apply andb_true_iff in C as [C1 C2]. apply N.ltb_lt in C1. apply negb_true_iff in C2.
    exists 0%nat. cbn. repeat split; auto; lia.
  - destruct (fin_now (rts s)) eqn:F; [discriminate|].
    rewrite andb_true_r in C. apply N.ltb_ge in C.
    destruct (IH _ _ _ _ H) as (m & Hn & Hq & Hf1 & Hf2 & Hd & He).
    exists (S m). cbn. rewrite Hn. repeat split; auto. lia.
Qed.

(* ---- the result does not depend on the order oracle ------------------------- *)

Definition rclass (r : rres) : N :=
  match r with RunOk => 0 | RunErr | RunPanic => 1 | RunTimeout => 2 | RunFuel => 3 end.

Lemma run_loop_order_indep : forall fuel o1 o2 i1 i2 s l1 l2,
  rclass (rres_of (run_loop fuel o1 i1 s l1)) = rclass (rres_of (run_loop fuel o2 i2 s l2)) /\
  (nsteps_of (run_loop fuel o1 i1 s l1) - i1 = nsteps_of (run_loop fuel o2 i2 s l2) - i2)%nat /\
  (rclass (rres_of (run_loop fuel o1 i1 s l1)) <> 1 ->
   state_of (run_loop fuel o1 i1 s l1) = state_of (run_loop fuel o2 i2 s l2)) /\
  elapsed (state_of (run_loop fuel o1 i1 s l1)) = elapsed (state_of (run_loop fuel o2 i2 s l2)).
Proof.
  induction fuel as [|f IH]; intros o1 o2 i1 i2 s l1 l2.
  - unfold rres_of, nsteps_of, state_of; cbn [fst snd rclass run_loop]. repeat split; auto. lia.
  - cbn. destruct (step s (o1 i1)) as [[s1 r1] lg1] eqn:E1.
    destruct (step s (o2 i2)) as [[s2 r2] lg2] eqn:E2.
    destruct (step_res_cases _ _ _ _ _ E1) as [(A & -> & ->)|(A & Hr1 & la & ->)];
    destruct (step_res_cases _ _ _ _ _ E2) as [(A' & -> & ->)|(A' & Hr2 & lb & ->)];
      try congruence.
    + destruct ((duration s <? elapsed s + tick s) && negb (fin_now (rts s))).
      * unfold rres_of, nsteps_of, state_of; cbn [fst snd rclass run_loop]. repeat split; auto. lia.
      * destruct (fin_now (rts s)).
        -- unfold rres_of, nsteps_of, state_of; cbn [fst snd rclass run_loop]. repeat split; auto. lia.
        -- destruct (IH o1 o2 (S i1) (S i2) (bump s (map (adv (tick s)) (rts s)))
                       (l1 ++ lg1) (l2 ++ lg2)) as (B1 & B2 & B3 & B4).
           repeat split; auto.
           pose proof (run_loop_ok_spec f o1 (S i1)). pose proof (run_loop_ok_spec f o2 (S i2)).
           clear -B2.
           assert (forall fu o i st lg, (i <= nsteps_of (run_loop fu o i st lg))%nat) as Mono.
           { induction fu as [|fu IHf]; intros o i st lg; cbn; [lia|].
             destruct (step st (o i)) as [[st' rr] lgg]. destruct rr as [[|]| | |]; cbn; try lia.
             specialize (IHf o (S i) st' (lg ++ lgg)). lia. }
           pose proof (Mono f o1 (S i1) (bump s (map (adv (tick s)) (rts s))) (l1 ++ lg1)).
           pose proof (Mono f o2 (S i2) (bump s (map (adv (tick s)) (rts s))) (l2 ++ lg2)).
           lia.
    + destruct Hr1 as [-> | ->], Hr2 as [-> | ->]; unfold rres_of, nsteps_of, state_of; cbn [fst snd rclass run_loop]; repeat split; auto; try lia; congruence.
Qed.

Theorem c11_order_independent_lemma s o1 o2 :
  rclass (rres_of (run s o1)) = rclass (rres_of (run s o2)) /\
  nsteps_of (run s o1) = nsteps_of (run s o2) /\
  (rclass (rres_of (run s o1)) <> 1 -> state_of (run s o1) = state_of (run s o2)) /\
  elapsed (state_of (run s o1)) = elapsed (state_of (run s o2)).
Proof.
  unfold run. destruct (existsb is_client (rts s)); [|cbn; auto].
  destruct (run_loop_order_indep (run_fuel s) o1 o2 0 0 s [] []) as (A & B & C & D).
  repeat split; auto. now rewrite !Nat.sub_0_r in B.
Qed.

(* ---- loop-free reading of `after` / `quiet` --------------------------------- *)

Fixpoint advn (d : N) (m : nat) (r : rt) : rt :=
  match m with O => r | S k => advn d k (adv d r) end.

Lemma after_params s m :
  tick (after s m) = tick s /\ duration (after s m) = duration s /\
  elapsed (after s m) = elapsed s + N.of_nat m * tick s /\
  rts (after s m) = map (advn (tick s) m) (rts s).
Proof.
  revert s. induction m as [|k IH]; intro s.
  - cbn. repeat split; auto; try lia. now rewrite map_id.
  - cbn [after]. destruct (IH (bump s (map (adv (tick s)) (rts s)))) as (A & B & C & D).
    cbn [tick duration elapsed rts bump] in *. repeat split; auto; try lia.
    rewrite D, map_map. reflexivity.
Qed.

Lemma pend_before_shift r r' m :
  pend_before r' m -> cur_outcome r = Pend -> (forall j, outcome_at r' j = outcome_at r (S j)) ->
  pend_before r (S m).
Proof.
  intros Hp Ho Hs i Hi. destruct i; [now rewrite outcome_at_0|]. rewrite <- Hs. apply Hp. lia.
Qed.

(* an rt still running after m quiet steps was pending all along *)
Lemma quiet_running : forall m s r,
  quiet s m -> In r (rts s) -> running (advn (tick s) m r) = true ->
  running r = true /\ pend_before r m /\
  forall j, outcome_at (advn (tick s) m r) j = outcome_at r (m + j).
Proof.
  induction m as [|k IH]; intros s r Q Hin Hr.
  - cbn in *. repeat split; auto. intros i Hi; lia.
  - cbn [quiet] in Q. destruct Q as (A & _ & _ & Q). cbn [advn] in *.
    destruct (IH (bump s (map (adv (tick s)) (rts s))) (adv (tick s) r) Q (in_map _ _ _ Hin) Hr)
      as (R1 & R2 & R3).
    destruct (running r) eqn:Er; [|rewrite adv_stopped in R1 by auto; discriminate].
    pose proof (all_ok_In _ _ A Hin Er) as Ok. destruct (ok_out_cases r Ok) as [Ep|Eo].
    + destruct (adv_pend (tick s) r Er Ep) as (_ & _ & Hs).
      repeat split; auto.
      * eapply pend_before_shift; eauto.
      * intro j. cbn [tick bump] in R3. rewrite R3, Hs. f_equal.
    + rewrite adv_not_pend in R1; auto; [discriminate|congruence].
Qed.

(* conversely, an rt pending for m steps is still running after them *)
Lemma quiet_pending : forall m s r,
  quiet s m -> In r (rts s) -> running r = true -> pend_before r m ->
  running (advn (tick s) m r) = true /\
  is_client (advn (tick s) m r) = is_client r /\
  forall j, outcome_at (advn (tick s) m r) j = outcome_at r (m + j).
Proof.
  induction m as [|k IH]; intros s r Q Hin Hr Hp.
  - cbn. repeat split; auto.
  - cbn [quiet] in Q. destruct Q as (A & _ & _ & Q). cbn [advn].
    assert (Ep : cur_outcome r = Pend) by (rewrite <- outcome_at_0; apply Hp; lia).
    destruct (adv_pend (tick s) r Hr Ep) as (Hr' & Hc' & Hs).
    destruct (IH (bump s (map (adv (tick s)) (rts s))) (adv (tick s) r) Q (in_map _ _ _ Hin) Hr')
      as (R1 & R2 & R3).
    { intros i Hi. rewrite Hs. apply Hp. lia. }
    cbn [tick bump] in *. repeat split; auto; [congruence|].
    intro j. rewrite R3, Hs. f_equal.
Qed.

Lemma quiet_prefix : forall m s j, quiet s m -> (j < m)%nat ->
  quiet s j /\ all_ok (rts (after s j)) = true /\ fin_now (rts (after s j)) = false /\
  elapsed (after s j) + tick s <= duration s.
Proof.
  induction m as [|k IH]; intros s j Q Hj; [lia|].
  cbn [quiet] in Q. destruct Q as (A & F & D & Q). destruct j.
  - cbn. auto.
  - destruct (IH _ j Q ltac:(lia)) as (B1 & B2 & B3 & B4). cbn [quiet after].
    cbn [tick duration bump] in B4. repeat split; auto.
Qed.

Lemma all_ok_false_ex l : all_ok l = false ->
  exists r, In r l /\ running r = true /\ ok_out r = false.
Proof.
  unfold all_ok. induction l as [|x l IH]; cbn; [discriminate|].
  destruct (running x) eqn:Er; cbn.
  - destruct (ok_out x) eqn:Eo; cbn.
    + intro A. destruct (IH A) as (r & B & C). exists r. split; auto.
    + intros _. exists x. auto.
  - intro A. destruct (IH A) as (r & B & C). exists r. split; auto.
Qed.

(* no software failure during quiet steps *)
Lemma quiet_no_fail s m r j :
  quiet s m -> In r (rts s) -> running r = true -> (j < m)%nat -> ~ fails_at r j.
Proof.
  intros Q Hin Hr Hj [Hp Hf].
  destruct (quiet_prefix _ _ _ Q Hj) as (Qj & Aj & _ & _).
  destruct (quiet_pending _ _ _ Qj Hin Hr Hp) as (R1 & _ & R3).
  destruct (after_params s j) as (_ & _ & _ & Hrts).
  assert (Hin' : In (advn (tick s) j r) (rts (after s j))) by (rewrite Hrts; now apply in_map).
  pose proof (all_ok_In _ _ Aj Hin' R1) as Ok. unfold ok_out in Ok.
  rewrite <- outcome_at_0, R3, Nat.add_0_r in Ok. destruct Hf as [Hf|Hf]; rewrite Hf in Ok; discriminate.
Qed.

(* "as soon as": a failing run stops in the very step in which the first
   software failure happens; elapsed is that of the steps before it *)
Theorem c11_err_asap_lemma s orc :
  (rres_of (run s orc) = RunErr \/ rres_of (run s orc) = RunPanic) ->
  exists m r,
    nsteps_of (run s orc) = S m /\ In r (rts s) /\ running r = true /\ fails_at r m /\
    (forall r', In r' (rts s) -> running r' = true -> forall j, (j < m)%nat -> ~ fails_at r' j) /\
    elapsed (state_of (run s orc)) = elapsed s + N.of_nat m * tick s /\
    (m = 0%nat \/ elapsed s + N.of_nat m * tick s <= duration s).
Proof.
  unfold run. destruct (existsb is_client (rts s)); [|intros [H|H]; discriminate].
  intro H. destruct (run_loop_err_spec _ _ _ _ _ H) as (m & Hn & Q & Af & He).
  destruct (after_params s m) as (_ & _ & Hel & Hrts).
  destruct (all_ok_false_ex _ Af) as (r' & Hin' & Hr' & Ho').
  rewrite Hrts in Hin'. apply in_map_iff in Hin' as (r & <- & Hin).
  destruct (quiet_running _ _ _ Q Hin Hr') as (R1 & R2 & R3).
  exists m, r. repeat split; auto.
  - destruct (not_ok_out_fails _ Ho') as [_ Hf]. rewrite R3, Nat.add_0_r in Hf. exact Hf.
  - intros r0 Hin0 Hr0 j Hj. eapply quiet_no_fail; eauto.
  - congruence.
  - destruct m; [now left|right].
    destruct (quiet_prefix _ _ m Q ltac:(lia)) as (_ & _ & _ & D).
    destruct (after_params s m) as (_ & _ & Hel' & _). lia.
Qed.

(* the duration error comes in the first step whose end lies beyond the
   duration, with a client still unfinished and nothing having failed *)
Theorem c11_timeout_asap_lemma s orc :
  rres_of (run s orc) = RunTimeout ->
  exists m r,
    nsteps_of (run s orc) = S m /\
    duration s < elapsed s + N.of_nat (S m) * tick s /\
    (m = 0%nat \/ elapsed s + N.of_nat m * tick s <= duration s) /\
    In r (rts s) /\ running r = true /\ is_client r = true /\ pend_before r (S m) /\
    (forall r', In r' (rts s) -> running r' = true -> forall j, (j <= m)%nat -> ~ fails_at r' j) /\
    elapsed (state_of (run s orc)) = elapsed s + N.of_nat (S m) * tick s.
Proof.
  unfold run. destruct (existsb is_client (rts s)); [|discriminate].
  intro H. destruct (run_loop_timeout_spec _ _ _ _ _ H) as (m & Hn & Q & Ao & Ff & Hd & He).
  destruct (after_params s m) as (_ & _ & Hel & Hrts).
  destruct (fin_now_false _ Ff) as (r' & Hin' & Hr' & Hc' & Ho').
  rewrite Hrts in Hin'. apply in_map_iff in Hin' as (r & <- & Hin).
  destruct (quiet_running _ _ _ Q Hin Hr') as (R1 & R2 & R3).
  destruct (quiet_pending _ _ _ Q Hin R1 R2) as (_ & Hc & _).
  exists m, r. repeat split; auto; try lia.
  - destruct m; [now left|right].
    destruct (quiet_prefix _ _ m Q ltac:(lia)) as (_ & _ & _ & D).
    destruct (after_params s m) as (_ & _ & Hel' & _). lia.
  - congruence.
  - intros i Hi. destruct (Nat.eq_dec i m) as [->|Hne]; [|apply R2; lia].
    rewrite <- (Nat.add_0_r m), <- R3, outcome_at_0. exact Ho'.
  - intros r0 Hin0 Hr0 j Hj. destruct (Nat.eq_dec j m) as [->|Hne].
    + intros [Hp Hf]. destruct (quiet_pending _ _ _ Q Hin0 Hr0 Hp) as (S1 & _ & S3).
      assert (Hin1 : In (advn (tick s) m r0) (rts (after s m))) by (rewrite Hrts; now apply in_map).
      pose proof (all_ok_In _ _ Ao Hin1 S1) as Ok. unfold ok_out in Ok.
      rewrite <- outcome_at_0, S3, Nat.add_0_r in Ok.
      destruct Hf as [Hf|Hf]; rewrite Hf in Ok; discriminate.
    + eapply quiet_no_fail; eauto. lia.
Qed.

(* ---- hosts that never finish do not block success ---------------------------- *)

Lemma done_ok_no_fail r M : done_ok_within r M -> forall j, ~ fails_at r j.
Proof.
  intros (k & _ & Hp & Hok) j [Hpj Hf].
  destruct (Nat.lt_trichotomy j k) as [Hl|[->|Hg]].
  - rewrite (Hp j Hl) in Hf. destruct Hf; discriminate.
  - rewrite Hok in Hf. destruct Hf; discriminate.
  - rewrite (Hpj k Hg) in Hok. discriminate.
Qed.

Theorem c11_hosts_dont_block_lemma s orc M :
  0 < tick s -> existsb is_client (rts s) = true -> (1 <= M)%nat ->
  (forall r, In r (rts s) -> running r = true -> is_client r = true -> done_ok_within r M) ->
  (forall r, In r (rts s) -> running r = true -> is_client r = false ->
     forall j, (j < M)%nat -> outcome_at r j = Pend \/ outcome_at r j = Ok_) ->
  (M = 1%nat \/ elapsed s + N.of_nat (M - 1) * tick s <= duration s) ->
  rres_of (run s orc) = RunOk.
Proof.
  intros Ht Hc HM Hcl Hho Hd. apply c11_ok_iff_lemma; auto. exists M.
  split; [exact HM|]. split; [|split; [|exact Hd]].
  - apply Forall_forall. intros r Hin Hr Hic. auto.
  - apply Forall_forall. intros r Hin Hr j Hj.
    destruct (is_client r) eqn:Eic.
    + eapply done_ok_no_fail; eauto.
    + intros [_ Hf]. destruct (Hho r Hin Hr Eic j Hj) as [E|E]; rewrite E in Hf; destruct Hf; discriminate.
Qed.

(* ---- finished or crashed software is never polled again ---------------------- *)

Lemma iter_crash1 k r : running r = false ->
  running (Nat.iter k crash1 r) = false /\ polls (Nat.iter k crash1 r) = polls r /\
  starts (Nat.iter k crash1 r) = starts r.
Proof. intro H. induction k as [|k IH]; cbn; auto. destruct IH as (A & B & C). auto. Qed.

Theorem c11_no_repoll_lemma s e j r :
  nth_error (rts s) j = Some r -> running r = false ->
  exists r', nth_error (rts (fst (apply s e))) j = Some r' /\
    ((running r' = false /\ polls r' = polls r /\ starts r' = starts r) \/
     (exists hs, e = Bounce hs /\ In j hs)) /\
    (forall o, In o (obs_log (snd (apply s e))) -> o_host o <> j).
Proof.
  intros Ej Hr. destruct e as [p|p|order|orders|hs|hs|]; cbn [apply].
  - cbn. exists r. split; [now apply nth_error_app_some|]. split; [now left|intros o []].
  - cbn. exists r. split; [now apply nth_error_app_some|]. split; [now left|intros o []].
  - destruct (step s order) as [[s' res] log] eqn:E. cbn [fst snd obs_log].
    destruct (step_evolves _ _ _ _ _ E) as (_ & R). destruct (R j r Ej) as (r' & A & B).
    exists r'. split; [exact A|]. split.
    + left. destruct (ev_stopped _ _ _ B Hr). repeat split; auto. apply (ev_starts _ _ _ B).
    + intros o Ho. destruct (step_log_sound _ _ _ _ _ _ E Ho) as (r0 & A0 & B0 & _).
      intros <-. congruence.
  - destruct (run s (orc_of orders (rts s))) as [[[s' res] n] log] eqn:E. cbn [fst snd obs_log].
    destruct (run_evolves _ _ _ _ _ _ E) as (_ & _ & _ & _ & _ & _ & R).
    destruct (R j r Ej) as (r' & A & B).
    exists r'. split; [exact A|]. split.
    + left. destruct (ev_stopped _ _ _ B Hr). repeat split; auto. apply (ev_starts _ _ _ B).
    + unfold run in E. destruct (existsb is_client (rts s)).
      * eapply run_loop_log_host; eauto.
        unfold is_running_at. now rewrite Ej.
      * inversion E; subst. intros o [].
  - destruct (for_hosts crash1 (rts s) hs) as [l ok] eqn:E. cbn [fst snd obs_log set_rts rts].
    destruct (for_hosts_rel _ _ _ _ _ E) as (_ & R). destruct (R j r Ej) as (k & A & _).
    eexists. split; [exact A|]. split; [left; now apply iter_crash1|intros o []].
  - destruct (for_hosts bounce1 (rts s) hs) as [l ok] eqn:E. cbn [fst snd obs_log set_rts rts].
    destruct (for_hosts_rel _ _ _ _ _ E) as (_ & R). destruct (R j r Ej) as (k & A & B).
    eexists. split; [exact A|]. split; [|intros o []].
    destruct (in_dec Nat.eq_dec j hs) as [Hin|Hn]; [right; eauto|].
    rewrite (B Hn). cbn. left. auto.
  - cbn. exists r. split; [exact Ej|]. split; [now left|intros o []].
Qed.

(* ---- Sim::step reports completion consistently with Sim::run ------------------- *)

Fixpoint iter_steps (n : nat) (orc : nat -> list nat) (i : nat) (s : state) (log : list read_obs)
  : state * list sres * list read_obs :=
  match n with
  | O => (s, [], log)
  | S k =>
      let '(s', r, lg) := step s (orc i) in
      let '(s'', rs, lg') := iter_steps k orc (S i) s' (log ++ lg) in (s'', r :: rs, lg')
  end.

Definition final_matches (r : sres) (rr : rres) : Prop :=
  match r, rr with
  | ROk true, RunOk | RErr, RunErr | RTimeout, RunTimeout | RPanic, RunPanic => True
  | _, _ => False
  end.

Lemma iter_steps_S k orc i s log :
  iter_steps (S k) orc i s log =
  let '(s', r, lg) := step s (orc i) in
  let '(s'', rs, lg') := iter_steps k orc (S i) s' (log ++ lg) in (s'', r :: rs, lg').
Proof. reflexivity. Qed.

Lemma run_loop_is_steps : forall fuel orc i s log,
  rres_of (run_loop fuel orc i s log) <> RunFuel ->
  exists m last,
    nsteps_of (run_loop fuel orc i s log) = (i + S m)%nat /\
    iter_steps (S m) orc i s log =
      (state_of (run_loop fuel orc i s log), repeat (ROk false) m ++ [last],
       snd (run_loop fuel orc i s log)) /\
    final_matches last (rres_of (run_loop fuel orc i s log)).
Proof.
  induction fuel as [|f IH]; intros orc i s log H; [now contradiction H|].
  cbn [run_loop] in *. destruct (step s (orc i)) as [[s' r] lg] eqn:E.
  destruct r as [[|]| | |];
    try (exists 0%nat; eexists; rewrite iter_steps_S, E;
         unfold rres_of, nsteps_of, state_of; cbn [fst snd repeat app iter_steps];
         split; [lia|split; [reflexivity|exact I]]).
  destruct (IH _ _ _ _ H) as (m & last & Hn & Hi & Hf).
  exists (S m), last. split; [rewrite Hn; lia|]. split; [|exact Hf].
  rewrite iter_steps_S, E, Hi. reflexivity.
Qed.

Theorem c11_step_consistent_lemma s orc :
  0 < tick s -> existsb is_client (rts s) = true ->
  exists m last,
    nsteps_of (run s orc) = S m /\
    iter_steps (S m) orc 0 s [] =
      (state_of (run s orc), repeat (ROk false) m ++ [last], snd (run s orc)) /\
    final_matches last (rres_of (run s orc)).
Proof.
  intros Ht Hc. pose proof (run_terminates_lemma s orc Ht) as Hf.
  unfold run in *. rewrite Hc in *.
  destruct (run_loop_is_steps _ _ _ _ _ Hf) as (m & last & A & B & C). exists m, last. auto.
Qed.
