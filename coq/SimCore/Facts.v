(* TV.SimCore.Facts — structural lemmas about the SimCore model shared by the
   C05 / C11 / C04 proofs: list updates, the order oracle, the poll loop, and
   the order-independent characterisation of Sim::step. *)
From TV.Lib Require Import Base.
From TV.SimCore Require Import Model.
Open Scope N_scope.

(* ---- lists ------------------------------------------------------------- *)

Lemma nth_error_ext_eq {A} (l1 l2 : list A) :
  (forall i, nth_error l1 i = nth_error l2 i) -> l1 = l2.
Proof.
  revert l2. induction l1 as [|a l1 IH]; intros [|b l2] H; auto.
  - specialize (H O). discriminate.
  - specialize (H O). discriminate.
  - f_equal.
    + specialize (H O). cbn in H. congruence.
    + apply IH. intro i. exact (H (S i)).
Qed.

Lemma upd_nth_length {A} i (f : A -> A) l : length (upd_nth i f l) = length l.
Proof. revert i. induction l as [|a l IH]; intros [|i]; cbn; auto. Qed.

Lemma nth_error_upd_nth {A} i j (f : A -> A) l :
  nth_error (upd_nth i f l) j =
  if Nat.eqb i j then option_map f (nth_error l j) else nth_error l j.
Proof.
  revert i j. induction l as [|a l IH]; intros [|i] [|j]; cbn; auto.
  - destruct (Nat.eqb i j); reflexivity.
Qed.

Lemma nth_error_upd_nth_eq {A} i (f : A -> A) l :
  nth_error (upd_nth i f l) i = option_map f (nth_error l i).
Proof. rewrite nth_error_upd_nth, Nat.eqb_refl. reflexivity. Qed.

Lemma nth_error_upd_nth_neq {A} i j (f : A -> A) l :
  i <> j -> nth_error (upd_nth i f l) j = nth_error l j.
Proof. intro H. rewrite nth_error_upd_nth. apply Nat.eqb_neq in H. now rewrite H. Qed.

Lemma nth_error_map_some {A B} (f : A -> B) l i :
  nth_error (map f l) i = option_map f (nth_error l i).
Proof. revert i. induction l; intros [|i]; cbn; auto. Qed.

Lemma mem_nat_In x l : mem_nat x l = true <-> In x l.
Proof.
  induction l as [|y l IH]; cbn; [split; [discriminate|tauto]|].
  rewrite orb_true_iff, IH, Nat.eqb_eq. intuition.
Qed.

Lemma mem_nat_false x l : mem_nat x l = false <-> ~ In x l.
Proof. rewrite <- mem_nat_In. destruct (mem_nat x l); intuition discriminate. Qed.

Lemma dedup_In x l : In x (dedup l) <-> In x l.
Proof.
  induction l as [|y l IH]; cbn; [tauto|].
  destruct (mem_nat y l) eqn:E.
  - rewrite IH. apply mem_nat_In in E. intuition. subst. auto.
  - cbn. rewrite IH. tauto.
Qed.

Lemma dedup_NoDup l : NoDup (dedup l).
Proof.
  induction l as [|y l IH]; cbn; [constructor|].
  destruct (mem_nat y l) eqn:E; auto.
  constructor; auto. rewrite dedup_In. now apply mem_nat_false.
Qed.

(* ---- running ids and the effective order ------------------------------- *)

Lemma running_ids_from_In k l i :
  In i (running_ids_from k l) <->
  (k <= i)%nat /\ is_running_at l (i - k) = true.
Proof.
  revert k i. induction l as [|r l IH]; intros k i; cbn.
  - unfold is_running_at. destruct (i - k)%nat; cbn; intuition discriminate.
  - unfold is_running_at in *.
    destruct (running r) eqn:Er; cbn; rewrite IH.
    + split.
      * intros [<-|[H1 H2]].
        -- rewrite Nat.sub_diag. cbn. auto.
        -- split; [lia|]. replace (i - k)%nat with (S (i - S k)) by lia. exact H2.
      * intros [H1 H2]. destruct (Nat.eq_dec k i) as [->|Hn]; [auto|right].
        split; [lia|]. replace (i - k)%nat with (S (i - S k)) in H2 by lia. exact H2.
    + split.
      * intros [H1 H2]. split; [lia|]. replace (i - k)%nat with (S (i - S k)) by lia. exact H2.
      * intros [H1 H2]. destruct (Nat.eq_dec k i) as [->|Hn].
        -- rewrite Nat.sub_diag in H2. cbn in H2. congruence.
        -- split; [lia|]. replace (i - k)%nat with (S (i - S k)) in H2 by lia. exact H2.
Qed.

Lemma running_ids_In l i : In i (running_ids l) <-> is_running_at l i = true.
Proof.
  unfold running_ids. rewrite running_ids_from_In, Nat.sub_0_r. intuition lia.
Qed.

Lemma running_ids_from_NoDup k l : NoDup (running_ids_from k l).
Proof.
  revert k. induction l as [|r l IH]; intro k; cbn; [constructor|].
  destruct (running r); auto. constructor; auto.
  rewrite running_ids_from_In. lia.
Qed.

Lemma eff_order_In l o i : In i (eff_order l o) <-> is_running_at l i = true.
Proof.
  unfold eff_order. rewrite in_app_iff, !filter_In, running_ids_In, dedup_In.
  split.
  - intros [[_ H]|[H _]]; exact H.
  - intro H. destruct (mem_nat i (filter (is_running_at l) (dedup o))) eqn:E.
    + left. apply mem_nat_In in E. apply filter_In in E. rewrite dedup_In in E. tauto.
    + right. split; [exact H|]. reflexivity.
Qed.

Lemma eff_order_NoDup l o : NoDup (eff_order l o).
Proof.
  unfold eff_order. apply NoDup_app_iff. repeat split.
  - apply NoDup_filter, dedup_NoDup.
  - apply NoDup_filter, running_ids_from_NoDup.
  - intros x H1 H2. apply filter_In in H2 as [_ H2].
    apply negb_true_iff, mem_nat_false in H2. contradiction.
Qed.

Lemma filter_all_true {A} (f : A -> bool) l : (forall x, In x l -> f x = true) -> filter f l = l.
Proof.
  induction l as [|x l IH]; cbn; intro H; auto.
  rewrite (H x (or_introl eq_refl)). f_equal. apply IH. intros; apply H; now right.
Qed.

Lemma filter_all_false {A} (f : A -> bool) l : (forall x, In x l -> f x = false) -> filter f l = [].
Proof.
  induction l as [|x l IH]; cbn; intro H; auto.
  rewrite (H x (or_introl eq_refl)). apply IH. intros; apply H; now right.
Qed.

Lemma dedup_NoDup_id o : NoDup o -> dedup o = o.
Proof.
  induction 1 as [|x o Hx Hn IH]; cbn; auto.
  destruct (mem_nat x o) eqn:E; [apply mem_nat_In in E; contradiction|]. now rewrite IH.
Qed.

(* a permutation of the running ids (what `shuffle` returns) is used as is *)
Lemma eff_order_perm l o :
  NoDup o -> (forall i, In i o <-> is_running_at l i = true) -> eff_order l o = o.
Proof.
  intros Hn Hin. unfold eff_order. rewrite (dedup_NoDup_id o Hn).
  rewrite (filter_all_true (is_running_at l) o) by (intros x Hx; now apply Hin).
  rewrite filter_all_false; [apply app_nil_r|].
  intros x Hx. apply running_ids_In, Hin, mem_nat_In in Hx. now rewrite Hx.
Qed.

(* ---- per-rt view of one successful step -------------------------------- *)

Definition ok_out (r : rt) : bool :=
  match cur_outcome r with Pend | Ok_ => true | _ => false end.

(* what a step without software failure does to one rt *)
Definition adv (d : N) (r : rt) : rt :=
  if running r then timer_tick d (fst (rt_tick r)) else timer_tick d r.

Definition all_ok (l : list rt) : bool :=
  forallb (fun r => negb (running r) || ok_out r) l.

(* running clients all finish in this step *)
Definition fin_now (l : list rt) : bool :=
  forallb (fun r => negb (running r && is_client r) ||
                    match cur_outcome r with Pend => false | _ => true end) l.

Lemma rt_tick_running_ok r :
  running r = true -> ok_out r = true ->
  exists f, rt_tick r = (polled r (negb f), TOk f) /\
            f = match cur_outcome r with Pend => false | _ => true end.
Proof.
  intros Hr Ho. unfold rt_tick, ok_out in *. rewrite Hr.
  destruct (cur_outcome r); try discriminate.
  - exists false. auto.
  - exists true. auto.
Qed.

Lemma rt_tick_running_fail r :
  running r = true -> ok_out r = false ->
  (rt_tick r = (polled r false, TErr)) \/ (rt_tick r = (polled r true, TPanic)).
Proof.
  intros Hr Ho. unfold rt_tick, ok_out in *. rewrite Hr.
  destruct (cur_outcome r); try discriminate; auto.
Qed.

Lemma is_running_at_some l i : is_running_at l i = true ->
  exists r, nth_error l i = Some r /\ running r = true.
Proof. unfold is_running_at. destruct (nth_error l i) as [r|]; [eauto|discriminate]. Qed.

Lemma adv_running d r : running r = true -> adv d r = timer_tick d (fst (rt_tick r)).
Proof. unfold adv. now intros ->. Qed.

(* ---- the poll loop ------------------------------------------------------ *)

(* indices outside the order are not touched *)
Lemma poll_loop_frame s order : forall l fin log l' res log',
  poll_loop s l order fin log = (l', res, log') ->
  forall j, ~ In j order -> nth_error l' j = nth_error l j.
Proof.
  induction order as [|i rest IH]; intros l fin log l' res log' H j Hj; cbn in H.
  - now inversion H.
  - assert (Hij : i <> j) by (intro; subst; apply Hj; now left).
    assert (Hjr : ~ In j rest) by (intro; apply Hj; now right).
    destruct (nth_error l i) as [r|] eqn:En; [|eapply IH; eauto].
    destruct (rt_tick r) as [r' [f| |]] eqn:Et.
    + erewrite IH by eauto. now apply nth_error_upd_nth_neq.
    + inversion H; subst. now apply nth_error_upd_nth_neq.
    + inversion H; subst. now apply nth_error_upd_nth_neq.
Qed.

Lemma poll_loop_cons_run s l i rest fin log r :
  nth_error l i = Some r -> running r = true ->
  poll_loop s l (i :: rest) fin log =
  match cur_outcome r with
  | Pend => poll_loop s (upd_nth i (fun _ => adv (tick s) r) l) rest
              (if is_client r then fin && false else fin) (log ++ mk_reads s i r)
  | Ok_ => poll_loop s (upd_nth i (fun _ => adv (tick s) r) l) rest
              (if is_client r then fin && true else fin) (log ++ mk_reads s i r)
  | Err_ => (upd_nth i (fun _ => polled r false) l, LErr, log ++ mk_reads s i r)
  | Panic_ => (upd_nth i (fun _ => polled r true) l, LPanic, log)
  end.
Proof.
  intros En Er. cbn. rewrite En. rewrite adv_running by auto.
  unfold rt_tick. rewrite Er. destruct (cur_outcome r); reflexivity.
Qed.

Definition all_running_in (l : list rt) (order : list nat) : Prop :=
  forall i, In i order -> is_running_at l i = true.

Lemma all_running_in_upd l i f rest :
  ~ In i rest -> all_running_in l (i :: rest) -> all_running_in (upd_nth i f l) rest.
Proof.
  intros Hi H j Hj. unfold is_running_at.
  rewrite nth_error_upd_nth_neq by (intro; subst; contradiction).
  apply H. now right.
Qed.

(* every index keeps an rt; the rt is unchanged, advanced, or polled-and-failed *)
Lemma poll_loop_rel s order : forall l fin log l' res log',
  NoDup order -> all_running_in l order ->
  poll_loop s l order fin log = (l', res, log') ->
  forall j r, nth_error l j = Some r ->
    exists r', nth_error l' j = Some r' /\
      (r' = r \/ (running r = true /\ In j order /\
                  (r' = adv (tick s) r \/ (ok_out r = false /\ r' = fst (rt_tick r))))).
Proof.
  induction order as [|i rest IH]; intros l fin log l' res log' Hn Hr H j r Hj.
  - cbn in H. inversion H; subst. eauto.
  - inversion Hn as [|? ? Hi Hn']; subst.
    destruct (is_running_at_some l i (Hr i (or_introl eq_refl))) as (ri & En & Eri).
    rewrite (poll_loop_cons_run _ _ _ _ _ _ _ En Eri) in H.
    assert (Hr' : forall f, all_running_in (upd_nth i f l) rest)
      by (intro f; now apply all_running_in_upd).
    destruct (Nat.eq_dec i j) as [->|Hij].
    + rewrite Hj in En. inversion En; subst ri. clear En.
      destruct (cur_outcome r) eqn:Eo.
      * pose proof (poll_loop_frame _ _ _ _ _ _ _ _ H j Hi) as F.
        rewrite nth_error_upd_nth_eq, Hj in F. cbn in F.
        eexists; split; [exact F|]. right. split; [auto|]. split; [now left|]. now left.
      * pose proof (poll_loop_frame _ _ _ _ _ _ _ _ H j Hi) as F.
        rewrite nth_error_upd_nth_eq, Hj in F. cbn in F.
        eexists; split; [exact F|]. right. split; [auto|]. split; [now left|]. now left.
      * inversion H; subst. rewrite nth_error_upd_nth_eq, Hj. cbn.
        eexists; split; [reflexivity|]. right. split; [auto|]. split; [now left|]. right.
        unfold ok_out, rt_tick. rewrite Eri, Eo. auto.
      * inversion H; subst. rewrite nth_error_upd_nth_eq, Hj. cbn.
        eexists; split; [reflexivity|]. right. split; [auto|]. split; [now left|]. right.
        unfold ok_out, rt_tick. rewrite Eri, Eo. auto.
    + assert (K : forall f l' res log' fin log,
                poll_loop s (upd_nth i f l) rest fin log = (l', res, log') ->
                exists r', nth_error l' j = Some r' /\
                  (r' = r \/ (running r = true /\ In j (i :: rest) /\
                     (r' = adv (tick s) r \/ (ok_out r = false /\ r' = fst (rt_tick r)))))).
      { intros f l2 res2 log2 fin2 lg2 H2.
        destruct (IH _ _ _ _ _ _ Hn' (Hr' f) H2 j r) as (r' & A & B).
        - now rewrite nth_error_upd_nth_neq.
        - exists r'. split; auto. destruct B as [B|(B1 & B2 & B3)]; auto.
          right. repeat split; auto. now right. }
      destruct (cur_outcome ri).
      * eapply K; eauto.
      * eapply K; eauto.
      * inversion H; subst. rewrite nth_error_upd_nth_neq by auto. eauto.
      * inversion H; subst. rewrite nth_error_upd_nth_neq by auto. eauto.
Qed.

Lemma forallb_ext_in {A} (f g : A -> bool) l :
  (forall x, In x l -> f x = g x) -> forallb f l = forallb g l.
Proof.
  induction l as [|x l IH]; cbn; intro H; auto.
  rewrite (H x (or_introl eq_refl)), IH; auto.
Qed.

(* the loop runs to its end iff no polled software fails; then every polled rt
   has been advanced and `fin` folded over the polled clients *)
Lemma poll_loop_done s order : forall l fin log,
  NoDup order -> all_running_in l order ->
  (forall i r, In i order -> nth_error l i = Some r -> ok_out r = true) ->
  exists l' log',
    poll_loop s l order fin log = (l', LDone
      (fin && forallb (fun i => match nth_error l i with
                                | Some r => negb (is_client r) ||
                                            match cur_outcome r with Pend => false | _ => true end
                                | None => true end) order), log') /\
    (forall j r, In j order -> nth_error l j = Some r -> nth_error l' j = Some (adv (tick s) r)).
Proof.
  induction order as [|i rest IH]; intros l fin log Hn Hr Hok.
  - cbn. rewrite andb_true_r. do 2 eexists; split; [reflexivity|]. intros j r [].
  - inversion Hn as [|? ? Hi Hn']; subst.
    destruct (is_running_at_some l i (Hr i (or_introl eq_refl))) as (ri & En & Eri).
    rewrite (poll_loop_cons_run _ _ _ _ _ _ _ En Eri).
    pose proof (Hok i ri (or_introl eq_refl) En) as Oi. unfold ok_out in Oi.
    assert (Hr' : forall f, all_running_in (upd_nth i f l) rest)
      by (intro f; now apply all_running_in_upd).
    assert (Hok' : forall f i0 r, In i0 rest -> nth_error (upd_nth i f l) i0 = Some r -> ok_out r = true).
    { intros f i0 r Hi0 E. rewrite nth_error_upd_nth_neq in E by (intro; subst; contradiction).
      eapply Hok; eauto. now right. }
    assert (Hfa : forall f, forallb (fun i0 => match nth_error (upd_nth i f l) i0 with
                                | Some r => negb (is_client r) ||
                                            match cur_outcome r with Pend => false | _ => true end
                                | None => true end) rest =
                            forallb (fun i0 => match nth_error l i0 with
                                | Some r => negb (is_client r) ||
                                            match cur_outcome r with Pend => false | _ => true end
                                | None => true end) rest).
    { intro f. apply forallb_ext_in. intros i0 Hi0.
      rewrite nth_error_upd_nth_neq by (intro; subst; contradiction). reflexivity. }
    cbn [forallb]. rewrite En.
    destruct (cur_outcome ri) eqn:Eo; try discriminate.
    + destruct (IH (upd_nth i (fun _ => adv (tick s) ri) l)
                  (if is_client ri then fin && false else fin) (log ++ mk_reads s i ri)
                  Hn' (Hr' _) (Hok' _)) as (l' & log' & E & P).
      rewrite E, Hfa. exists l', log'. split.
      * f_equal. f_equal. f_equal. destruct (is_client ri), fin; cbn; auto.
      * intros j r [<-|Hj] Ej.
        -- rewrite En in Ej. inversion Ej; subst.
           erewrite poll_loop_frame by eauto. now rewrite nth_error_upd_nth_eq, En.
        -- apply P; auto. rewrite nth_error_upd_nth_neq; auto. intro; subst; contradiction.
    + destruct (IH (upd_nth i (fun _ => adv (tick s) ri) l)
                  (if is_client ri then fin && true else fin) (log ++ mk_reads s i ri)
                  Hn' (Hr' _) (Hok' _)) as (l' & log' & E & P).
      rewrite E, Hfa. exists l', log'. split.
      * f_equal. f_equal. f_equal. destruct (is_client ri), fin; cbn; auto.
      * intros j r [<-|Hj] Ej.
        -- rewrite En in Ej. inversion Ej; subst.
           erewrite poll_loop_frame by eauto. now rewrite nth_error_upd_nth_eq, En.
        -- apply P; auto. rewrite nth_error_upd_nth_neq; auto. intro; subst; contradiction.
Qed.


(* a polled software that fails makes the loop return early *)
Lemma poll_loop_fail s order : forall l fin log,
  NoDup order -> all_running_in l order ->
  (exists i r, In i order /\ nth_error l i = Some r /\ ok_out r = false) ->
  exists l' log', poll_loop s l order fin log = (l', LErr, log') \/
                  poll_loop s l order fin log = (l', LPanic, log').
Proof.
  induction order as [|i rest IH]; intros l fin log Hn Hr (k & rk & Hk & Ek & Ok).
  - destruct Hk.
  - inversion Hn as [|? ? Hi Hn']; subst.
    destruct (is_running_at_some l i (Hr i (or_introl eq_refl))) as (ri & En & Eri).
    rewrite (poll_loop_cons_run _ _ _ _ _ _ _ En Eri).
    assert (Hr' : forall f, all_running_in (upd_nth i f l) rest)
      by (intro f; now apply all_running_in_upd).
    destruct (cur_outcome ri) eqn:Eo; try (do 2 eexists; auto; fail).
    + destruct Hk as [->|Hk].
      * rewrite Ek in En. inversion En; subst. unfold ok_out in Ok. now rewrite Eo in Ok.
      * apply IH; auto. exists k, rk. repeat split; auto.
        rewrite nth_error_upd_nth_neq; auto. intro; subst; contradiction.
    + destruct Hk as [->|Hk].
      * rewrite Ek in En. inversion En; subst. unfold ok_out in Ok. now rewrite Eo in Ok.
      * apply IH; auto. exists k, rk. repeat split; auto.
        rewrite nth_error_upd_nth_neq; auto. intro; subst; contradiction.
Qed.

(* every log record comes from a polled, running rt of the list the loop started with *)
Lemma poll_loop_log s order : forall l fin log l' res log',
  NoDup order -> all_running_in l order ->
  poll_loop s l order fin log = (l', res, log') ->
  forall o, In o log' -> In o log \/
    exists i r, In i order /\ nth_error l i = Some r /\ running r = true /\ In o (mk_reads s i r).
Proof.
  induction order as [|i rest IH]; intros l fin log l' res log' Hn Hr H o Ho.
  - cbn in H. inversion H; subst. auto.
  - inversion Hn as [|? ? Hi Hn']; subst.
    destruct (is_running_at_some l i (Hr i (or_introl eq_refl))) as (ri & En & Eri).
    rewrite (poll_loop_cons_run _ _ _ _ _ _ _ En Eri) in H.
    assert (Hr' : forall f, all_running_in (upd_nth i f l) rest)
      by (intro f; now apply all_running_in_upd).
    assert (K : forall f fin2 l2 res2 log2,
              poll_loop s (upd_nth i f l) rest fin2 (log ++ mk_reads s i ri) = (l2, res2, log2) ->
              In o log2 -> In o log \/
              exists i0 r, In i0 (i :: rest) /\ nth_error l i0 = Some r /\ running r = true /\
                           In o (mk_reads s i0 r)).
    { intros f fin2 l2 res2 log2 H2 Ho2.
      destruct (IH _ _ _ _ _ _ Hn' (Hr' f) H2 o Ho2) as [A|(i0 & r & A & B & C & D)].
      - apply in_app_or in A as [A|A]; auto. right. exists i, ri. repeat split; auto. now left.
      - right. exists i0, r. repeat split; auto; [now right|].
        rewrite nth_error_upd_nth_neq in B; auto. intro; subst; contradiction. }
    destruct (cur_outcome ri).
    + eapply K; eauto.
    + eapply K; eauto.
    + inversion H; subst. apply in_app_or in Ho as [A|A]; auto.
      right. exists i, ri. repeat split; auto. now left.
    + inversion H; subst. auto.
Qed.

Lemma poll_loop_length s order : forall l fin log l' res log',
  poll_loop s l order fin log = (l', res, log') -> length l' = length l.
Proof.
  induction order as [|i rest IH]; intros l fin log l' res log' H; cbn in H.
  - now inversion H.
  - destruct (nth_error l i) as [r|]; [|eauto].
    destruct (rt_tick r) as [r' [f| |]].
    + erewrite IH by eauto. apply upd_nth_length.
    + inversion H; subst. apply upd_nth_length.
    + inversion H; subst. apply upd_nth_length.
Qed.

Lemma tick_stopped_nth d : forall was l j,
  length was = length l ->
  nth_error (tick_stopped d was l) j =
  match nth_error was j, nth_error l j with
  | Some w, Some r => Some (if w then r else timer_tick d r)
  | _, _ => None
  end.
Proof.
  induction was as [|w ws IH]; intros [|r l] j H; try discriminate.
  - destruct j; reflexivity.
  - destruct j; cbn; [reflexivity|]. apply IH. now inversion H.
Qed.

(* ---- Sim::step, order-independent characterisation ---------------------- *)

Definition bump (s : state) (l : list rt) : state :=
  {| elapsed := elapsed s + tick s; tick := tick s; wtick := wtick s; duration := duration s;
     epoch := epoch s; nsteps := nsteps s + 1; rts := l |}.

Lemma eff_all_running l o : all_running_in l (eff_order l o).
Proof. intros i Hi. now apply eff_order_In in Hi. Qed.

Lemma all_ok_spec l : all_ok l = true <->
  forall i r, nth_error l i = Some r -> running r = true -> ok_out r = true.
Proof.
  unfold all_ok. rewrite forallb_forall. split.
  - intros H i r E Hr. apply nth_error_In in E. specialize (H r E).
    rewrite Hr in H. exact H.
  - intros H r Hin. apply In_nth_error in Hin as [i E].
    destruct (running r) eqn:Er; cbn; auto. eapply H; eauto.
Qed.

Lemma fin_fold_eq l o :
  true && forallb (fun i => match nth_error l i with
                     | Some r => negb (is_client r) ||
                                 match cur_outcome r with Pend => false | _ => true end
                     | None => true end) (eff_order l o) = fin_now l.
Proof.
  cbn. apply eq_iff_eq_true. unfold fin_now. rewrite !forallb_forall. split.
  - intros H r Hin. apply In_nth_error in Hin as [i E].
    destruct (running r) eqn:Er; cbn; auto.
    assert (Hi : In i (eff_order l o)).
    { apply eff_order_In. unfold is_running_at. now rewrite E. }
    specialize (H i Hi). rewrite E in H. destruct (is_client r); cbn in *; auto.
  - intros H i Hi. apply eff_order_In, is_running_at_some in Hi as (r & E & Er).
    rewrite E. specialize (H r (nth_error_In _ _ E)). rewrite Er in H.
    destruct (is_client r); cbn in *; auto.
Qed.

Theorem step_ok s order :
  all_ok (rts s) = true ->
  exists log,
    step s order =
    (bump s (map (adv (tick s)) (rts s)),
     (if (duration s <? elapsed s + tick s) && negb (fin_now (rts s))
      then RTimeout else ROk (fin_now (rts s))), log).
Proof.
  intro Hok. unfold step.
  destruct (poll_loop_done s (eff_order (rts s) order) (rts s) true []
              (eff_order_NoDup _ _) (eff_all_running _ _)) as (l' & log' & E & P).
  { intros i r Hi En. apply eff_order_In, is_running_at_some in Hi as (r0 & E0 & Er).
    rewrite En in E0. inversion E0; subst. eapply all_ok_spec; eauto. }
  rewrite E, fin_fold_eq.
  assert (Hl : tick_stopped (tick s) (map running (rts s)) l' = map (adv (tick s)) (rts s)).
  { apply nth_error_ext_eq. intro j.
    rewrite tick_stopped_nth
      by (rewrite map_length; symmetry; eapply poll_loop_length; eauto).
    rewrite !nth_error_map_some.
    destruct (nth_error (rts s) j) as [r|] eqn:Ej; cbn; [|reflexivity].
    destruct (running r) eqn:Er.
    - assert (Hj : In j (eff_order (rts s) order)).
      { apply eff_order_In. unfold is_running_at. now rewrite Ej. }
      now rewrite (P j r Hj Ej).
    - assert (Hj : ~ In j (eff_order (rts s) order)).
      { rewrite eff_order_In. unfold is_running_at. rewrite Ej, Er. discriminate. }
      rewrite (poll_loop_frame _ _ _ _ _ _ _ _ E j Hj), Ej. unfold adv. now rewrite Er. }
  exists log'. fold (bump s (tick_stopped (tick s) (map running (rts s)) l')).
  rewrite Hl. unfold bump at 1. cbn [elapsed].
  destruct ((duration s <? elapsed s + tick s) && negb (fin_now (rts s))); reflexivity.
Qed.

Theorem step_fail s order :
  all_ok (rts s) = false ->
  exists l log, step s order = (set_rts s l, RErr, log) \/
                step s order = (set_rts s l, RPanic, log).
Proof.
  intro Hno. unfold step.
  destruct (poll_loop_fail s (eff_order (rts s) order) (rts s) true []
              (eff_order_NoDup _ _) (eff_all_running _ _)) as (l' & log' & [E|E]).
  - destruct (all_ok (rts s)) eqn:A; [discriminate|].
    assert (~ (forall i r, nth_error (rts s) i = Some r -> running r = true -> ok_out r = true))
      as Hn by (rewrite <- all_ok_spec, A; discriminate).
    unfold all_ok in A.
    assert (exists r, In r (rts s) /\ (negb (running r) || ok_out r) = false) as (r & Hin & Hr).
    { clear -A. induction (rts s) as [|x l IH]; cbn in *; [discriminate|].
      destruct (negb (running x) || ok_out x) eqn:Ex.
      - destruct (IH A) as (r & H1 & H2). exists r; auto.
      - exists x; auto. }
    apply In_nth_error in Hin as [i Ei].
    apply orb_false_iff in Hr as [Hr1 Hr2]. apply negb_false_iff in Hr1.
    exists i, r. repeat split; auto.
    apply eff_order_In. unfold is_running_at. now rewrite Ei.
  - rewrite E. exists l', log'. now left.
  - rewrite E. exists l', log'. now right.
Qed.

(* the result of a step tells which of the two cases applied *)
Lemma step_res_cases s order s' r log :
  step s order = (s', r, log) ->
  (all_ok (rts s) = true /\ s' = bump s (map (adv (tick s)) (rts s)) /\
   r = (if (duration s <? elapsed s + tick s) && negb (fin_now (rts s))
        then RTimeout else ROk (fin_now (rts s)))) \/
  (all_ok (rts s) = false /\ (r = RErr \/ r = RPanic) /\ exists l, s' = set_rts s l).
Proof.
  intro H. destruct (all_ok (rts s)) eqn:A.
  - left. destruct (step_ok s order A) as (lg & E). rewrite E in H. inversion H; subst. auto.
  - right. destruct (step_fail s order A) as (l & lg & [E|E]); rewrite E in H; inversion H; subst;
      (split; [reflexivity|]); split; eauto.
Qed.

(* ---- how one rt can change during Sim::step / Sim::run ------------------- *)

Record rt_evolves (d : N) (r r' : rt) : Prop := {
  ev_client : is_client r' = is_client r;
  ev_sw : sw r' = sw r;
  ev_starts : starts r' = starts r;
  ev_offset : t_offset r' = t_offset r;
  ev_base : inc_base r' = inc_base r;
  ev_polls : (polls r <= polls r')%nat;
  ev_elapsed : t_elapsed r <= t_elapsed r';
  ev_stopped : running r = false -> running r' = false /\ polls r' = polls r;
  ev_norestart : running r' = true -> running r = true
}.

Lemma rt_evolves_refl d r : rt_evolves d r r.
Proof. constructor; auto; lia. Qed.

Lemma rt_evolves_trans d r1 r2 r3 : rt_evolves d r1 r2 -> rt_evolves d r2 r3 -> rt_evolves d r1 r3.
Proof.
  intros [A1 A2 A3 A4 A5 A6 A7 A8 A9] [B1 B2 B3 B4 B5 B6 B7 B8 B9]. constructor; try congruence; try lia.
  - intro H. destruct (A8 H) as [H1 H2]. destruct (B8 H1) as [H3 H4]. split; congruence.
  - auto.
Qed.

Lemma rt_evolves_timer d r : rt_evolves d r (timer_tick d r).
Proof. constructor; cbn; auto; lia. Qed.

Lemma rt_evolves_polled d r b : running r = true -> rt_evolves d r (polled r b).
Proof. intro H. constructor; cbn; auto; try lia. intro; congruence. Qed.

Lemma rt_tick_fst_running r : running r = true ->
  exists b, fst (rt_tick r) = polled r b.
Proof. intro H. unfold rt_tick. rewrite H. destruct (cur_outcome r); cbn; eauto. Qed.

Lemma rt_evolves_adv d r : rt_evolves d r (adv d r).
Proof.
  unfold adv. destruct (running r) eqn:E; [|apply rt_evolves_timer].
  destruct (rt_tick_fst_running r E) as [b ->].
  eapply rt_evolves_trans; [apply rt_evolves_polled; exact E|apply rt_evolves_timer].
Qed.

Theorem step_evolves s order s' res log :
  step s order = (s', res, log) ->
  length (rts s') = length (rts s) /\
  forall j r, nth_error (rts s) j = Some r ->
    exists r', nth_error (rts s') j = Some r' /\ rt_evolves (tick s) r r'.
Proof.
  unfold step. intro H.
  destruct (poll_loop s (rts s) (eff_order (rts s) order) true []) as [[l lres] lg] eqn:E.
  pose proof (poll_loop_length _ _ _ _ _ _ _ _ E) as Hlen.
  assert (R : forall j r, nth_error (rts s) j = Some r ->
            exists r1, nth_error l j = Some r1 /\ rt_evolves (tick s) r r1 /\
                       (running r = false -> r1 = r)).
  { intros j r Ej.
    destruct (poll_loop_rel _ _ _ _ _ _ _ _ (eff_order_NoDup _ _) (eff_all_running _ _) E j r Ej)
      as (r1 & A & B). exists r1. split; [exact A|].
    destruct B as [->|(Hr & _ & [->| [_ ->]])].
    - split; [apply rt_evolves_refl|auto].
    - split; [apply rt_evolves_adv|congruence].
    - destruct (rt_tick_fst_running r Hr) as [b ->].
      split; [now apply rt_evolves_polled|congruence]. }
  destruct lres as [fin| |].
  - assert (Hs' : rts s' = tick_stopped (tick s) (map running (rts s)) l).
    { cbn in H. destruct (_ && _) in H; inversion H; subst; reflexivity. }
    rewrite Hs'. split.
    + apply (f_equal (@length rt)) in Hs'.
      assert (forall was l0, length was = length l0 ->
                length (tick_stopped (tick s) was l0) = length l0) as Hl.
      { induction was as [|w ws IH]; intros [|x l0] HH; cbn in *; try discriminate; auto. }
      rewrite Hl; [exact Hlen|]. now rewrite map_length.
    + intros j r Ej. destruct (R j r Ej) as (r1 & A & B & C).
      rewrite tick_stopped_nth by (now rewrite map_length).
      rewrite nth_error_map_some, Ej, A. cbn.
      destruct (running r) eqn:Er.
      * eauto.
      * rewrite (C eq_refl). eexists; split; [reflexivity|]. apply rt_evolves_timer.
  - inversion H; subst; cbn. split; [exact Hlen|].
    intros j r Ej. destruct (R j r Ej) as (r1 & A & B & _). eauto.
  - inversion H; subst; cbn. split; [exact Hlen|].
    intros j r Ej. destruct (R j r Ej) as (r1 & A & B & _). eauto.
Qed.

Lemma step_params s order s' res log :
  step s order = (s', res, log) ->
  tick s' = tick s /\ wtick s' = wtick s /\ duration s' = duration s /\ epoch s' = epoch s /\
  elapsed s <= elapsed s'.
Proof.
  unfold step. destruct (poll_loop _ _ _ _ _) as [[l [fin| |]] lg]; intro H.
  - destruct (_ && _); inversion H; subst; cbn; repeat split; auto; lia.
  - inversion H; subst; cbn; repeat split; auto; lia.
  - inversion H; subst; cbn; repeat split; auto; lia.
Qed.

Theorem run_loop_evolves : forall fuel orc i s log s' res n log',
  run_loop fuel orc i s log = (s', res, n, log') ->
  tick s' = tick s /\ wtick s' = wtick s /\ duration s' = duration s /\ epoch s' = epoch s /\
  elapsed s <= elapsed s' /\
  length (rts s') = length (rts s) /\
  forall j r, nth_error (rts s) j = Some r ->
    exists r', nth_error (rts s') j = Some r' /\ rt_evolves (tick s) r r'.
Proof.
  induction fuel as [|f IH]; intros orc i s log s' res n log' H; cbn in H.
  - inversion H; subst. repeat split; auto; try lia. intros j r E. exists r. split; auto.
    apply rt_evolves_refl.
  - destruct (step s (orc i)) as [[s1 r1] lg] eqn:E.
    destruct (step_params _ _ _ _ _ E) as (P1 & P2 & P3 & P4 & P5).
    destruct (step_evolves _ _ _ _ _ E) as (L & R).
    assert (Done : s' = s1 ->
      tick s' = tick s /\ wtick s' = wtick s /\ duration s' = duration s /\ epoch s' = epoch s /\
      elapsed s <= elapsed s' /\ length (rts s') = length (rts s) /\
      forall j r, nth_error (rts s) j = Some r ->
        exists r', nth_error (rts s') j = Some r' /\ rt_evolves (tick s) r r').
    { intros ->. repeat split; auto. }
    destruct r1 as [[|]| | |]; try (apply Done; inversion H; reflexivity).
    destruct (IH _ _ _ _ _ _ _ _ H) as (Q1 & Q2 & Q3 & Q4 & Q5 & Q6 & Q7).
    repeat split; try congruence; try lia.
    intros j r Ej. destruct (R j r Ej) as (r2 & A & B).
    destruct (Q7 j r2 A) as (r3 & C & D). exists r3. split; auto.
    rewrite P1 in D. eapply rt_evolves_trans; eauto.
Qed.

Theorem run_evolves s orc s' res n log :
  run s orc = (s', res, n, log) ->
  tick s' = tick s /\ wtick s' = wtick s /\ duration s' = duration s /\ epoch s' = epoch s /\
  elapsed s <= elapsed s' /\
  length (rts s') = length (rts s) /\
  forall j r, nth_error (rts s) j = Some r ->
    exists r', nth_error (rts s') j = Some r' /\ rt_evolves (tick s) r r'.
Proof.
  unfold run. destruct (existsb is_client (rts s)).
  - apply run_loop_evolves.
  - intro H. inversion H; subst. repeat split; auto; try lia.
    intros j r E. exists r. split; auto. apply rt_evolves_refl.
Qed.

(* ---- logs ---------------------------------------------------------------- *)

Lemma mk_reads_host s i r o : In o (mk_reads s i r) -> o_host o = i /\ o_inc o = pred (starts r).
Proof. unfold mk_reads. intro H. apply in_map_iff in H as (x & <- & _). auto. Qed.

Theorem step_log_sound s order s' res log o :
  step s order = (s', res, log) -> In o log ->
  exists r, nth_error (rts s) (o_host o) = Some r /\ running r = true /\
            In o (mk_reads s (o_host o) r).
Proof.
  unfold step. intros H Ho.
  destruct (poll_loop s (rts s) (eff_order (rts s) order) true []) as [[l lres] lg] eqn:E.
  assert (lg = log) as ->.
  { destruct lres; [cbn in H; destruct (_ && _) in H|..]; inversion H; reflexivity. }
  destruct (poll_loop_log _ _ _ _ _ _ _ _ (eff_order_NoDup _ _) (eff_all_running _ _) E o Ho)
    as [[]|(i & r & _ & A & B & C)].
  destruct (mk_reads_host _ _ _ _ C) as [Eh _]. rewrite Eh. eauto.
Qed.

Lemma run_loop_log_host : forall fuel orc i s log s' res n log' j,
  run_loop fuel orc i s log = (s', res, n, log') ->
  is_running_at (rts s) j = false ->
  (forall o, In o log -> o_host o <> j) ->
  forall o, In o log' -> o_host o <> j.
Proof.
  induction fuel as [|f IH]; intros orc i s log s' res n log' j H Hj Hl; cbn in H.
  - inversion H; subst. exact Hl.
  - destruct (step s (orc i)) as [[s1 r1] lg] eqn:E.
    assert (Hl1 : forall o, In o (log ++ lg) -> o_host o <> j).
    { intros o Ho. apply in_app_or in Ho as [Ho|Ho]; [auto|].
      destruct (step_log_sound _ _ _ _ _ _ E Ho) as (r & A & B & _). intros <-.
      unfold is_running_at in Hj. rewrite A in Hj. congruence. }
    assert (Hj1 : is_running_at (rts s1) j = false).
    { destruct (step_evolves _ _ _ _ _ E) as (L & R). unfold is_running_at in *.
      destruct (nth_error (rts s) j) as [r|] eqn:Ej.
      - destruct (R j r Ej) as (r' & A & B). rewrite A. now apply (ev_stopped _ _ _ B).
      - apply nth_error_None in Ej. rewrite <- L in Ej. apply nth_error_None in Ej. now rewrite Ej. }
    destruct r1 as [[|]| | |]; try (inversion H; subst; exact Hl1).
    eapply IH; eauto.
Qed.

(* ---- Sim::crash / Sim::bounce over a host list ------------------------------ *)

Lemma for_hosts_rel f : forall hs l l' ok,
  for_hosts f l hs = (l', ok) ->
  length l' = length l /\
  forall j r, nth_error l j = Some r ->
    exists k, nth_error l' j = Some (Nat.iter k f r) /\ (~ In j hs -> k = 0%nat).
Proof.
  induction hs as [|h rest IH]; intros l l' ok H; cbn in H.
  - inversion H; subst. split; auto. intros j r E. exists 0%nat. auto.
  - destruct (nth_error l h) as [rh|] eqn:Eh.
    + destruct (is_client rh).
      * inversion H; subst. split; auto. intros j r E. exists 0%nat. auto.
      * destruct (IH _ _ _ H) as (L & R). split; [now rewrite L, upd_nth_length|].
        intros j r E. destruct (Nat.eq_dec h j) as [->|Hn].
        -- destruct (R j (f r)) as (k & A & B); [now rewrite nth_error_upd_nth_eq, E|].
           exists (S k). split.
           ++ rewrite A. f_equal. clear. induction k as [|k IHk]; [reflexivity|].
              change (f (Nat.iter k f (f r)) = f (Nat.iter (S k) f r)). now rewrite IHk.
           ++ intro Hn. exfalso. apply Hn. now left.
        -- destruct (R j r) as (k & A & B); [now rewrite nth_error_upd_nth_neq|].
           exists k. split; auto. intro Hj. apply B. intro. apply Hj. now right.
    + inversion H; subst. split; auto. intros j r E. exists 0%nat. auto.
Qed.

(* a successful call over distinct hosts applies f exactly once to each of them *)
Lemma for_hosts_once f : forall hs l l',
  NoDup hs -> for_hosts f l hs = (l', true) ->
  (forall j r, nth_error l j = Some r ->
     nth_error l' j = Some (if mem_nat j hs then f r else r)) /\
  (forall h, In h hs -> exists r, nth_error l h = Some r /\ is_client r = false).
Proof.
  induction hs as [|h rest IH]; intros l l' Hn H; cbn in H.
  - inversion H; subst. split; [auto|intros h []].
  - inversion Hn as [|? ? Hh Hn']; subst.
    destruct (nth_error l h) as [rh|] eqn:Eh; [|discriminate].
    destruct (is_client rh) eqn:Ec; [discriminate|].
    destruct (IH _ _ Hn' H) as (R & C). split.
    + intros j r E. cbn [mem_nat]. destruct (Nat.eq_dec h j) as [->|Hne].
      * rewrite Nat.eqb_refl. cbn.
        rewrite (R j (f r)) by (now rewrite nth_error_upd_nth_eq, E).
        apply mem_nat_false in Hh. now rewrite Hh.
      * assert (Nat.eqb j h = false) as -> by (apply Nat.eqb_neq; congruence). cbn.
        apply R. now rewrite nth_error_upd_nth_neq.
    + intros x [<-|Hx]; [eauto|].
      destruct (C x Hx) as (r & A & B).
      rewrite nth_error_upd_nth_neq in A by (intro; subst; contradiction). eauto.
Qed.

Definition obs_log (o : obs) : list read_obs :=
  match o with OStep _ _ _ lg => lg | ORun _ _ _ _ lg => lg | _ => [] end.

Lemma nth_error_app_some {A} (l l2 : list A) j x :
  nth_error l j = Some x -> nth_error (l ++ l2) j = Some x.
Proof.
  intro H. rewrite nth_error_app1; auto. apply nth_error_Some. congruence.
Qed.

Lemma iter_comm {A} (f : A -> A) k x : Nat.iter k f (f x) = f (Nat.iter k f x).
Proof.
  induction k as [|k IH]; [reflexivity|].
  change (f (Nat.iter k f (f x)) = f (f (Nat.iter k f x))). now rewrite IH.
Qed.

(* a successful call applies f at least once to every listed host, none is a client *)
Lemma for_hosts_in f :
  forall hs l l', for_hosts f l hs = (l', true) ->
  forall h r, In h hs -> nth_error l h = Some r ->
    is_client r = false /\ exists k, nth_error l' h = Some (Nat.iter (S k) f r).
Proof.
  induction hs as [|x rest IH]; intros l l' E h r Hin Er; [destruct Hin|].
  cbn in E. destruct (nth_error l x) as [rx|] eqn:Ex; [|discriminate].
  destruct (is_client rx) eqn:Ec; [discriminate|].
  destruct (Nat.eq_dec x h) as [->|Hn].
  - rewrite Er in Ex. inversion Ex; subst rx. split; [exact Ec|].
    destruct (for_hosts_rel _ _ _ _ _ E) as (_ & R).
    destruct (R h (f r)) as (k & A & _); [now rewrite nth_error_upd_nth_eq, Er|].
    exists k. rewrite A. f_equal. apply iter_comm.
  - destruct Hin as [->|Hin]; [congruence|].
    eapply IH; eauto. now rewrite nth_error_upd_nth_neq.
Qed.
