(* TV.SimCore.Model — executable model of the simulation core of crate turmoil:
   crates/turmoil/src/sim.rs (Sim::client, Sim::host, Sim::step, Sim::run,
   Sim::crash, Sim::bounce, Sim::elapsed, Sim::since_epoch), rt.rs (Rt::tick,
   Rt::crash, Rt::bounce, is_software_running), host.rs (HostTimer), world.rs
   (World::register, World::tick), lib.rs (elapsed, sim_elapsed, since_epoch).
   No proofs in this file.

   Correspondence of names:
     software        = what a client future / a host software factory does, seen
                       from the simulation core: its JoinHandle state after the
                       j-th Rt::tick of an incarnation (prog) and the instants,
                       relative to the start of that tick's window, at which its
                       code reads a clock (reads).  Arbitrary functions: the
                       theorems quantify over all of them.
     rt              = Rt (kind, handle) + the host's HostTimer
     add_rt          = Sim::client / Sim::host (HostTimer::new(self.elapsed, ..))
     rt_tick         = Rt::tick   (handle inspected after the window ran)
     timer_tick      = World::tick = HostTimer::tick
     eff_order       = the `running` vector of Sim::step after the optional
                       shuffle; the shuffle result is an INPUT (order oracle)
     poll_loop       = the `for (&addr, rt) in running` loop, including the early
                       `?` return
     step            = Sim::step
     run             = Sim::run
     crash1 / bounce1= Rt::crash / Rt::bounce (through Sim::crash / Sim::bounce)
     read_obs        = HostTimer::elapsed / sim_elapsed / since_epoch evaluated by
                       host code `off` after the window started
   Ghost fields (no counterpart in the code, erased by the encoders):
     inc_base = value of HostTimer.elapsed when the current incarnation started.
   Environment parameter: wtick = how far the host's paused tokio clock moves
   during one Rt::tick(tick) (see TokioClock.v: ceil_ms tick). *)
From TV.Lib Require Import Base.
Open Scope N_scope.

Inductive outcome := Pend | Ok_ | Err_ | Panic_.

Definition outcome_eqb (a b : outcome) : bool :=
  match a, b with
  | Pend, Pend | Ok_, Ok_ | Err_, Err_ | Panic_, Panic_ => true
  | _, _ => false
  end.

Record software := {
  prog : nat -> outcome;         (* local poll index -> state of the JoinHandle after that tick *)
  reads : nat -> list (N * N)    (* local poll index -> (tag, offset into the window) of clock reads *)
}.

Record rt := {
  is_client : bool;
  running : bool;                (* handle.is_some() *)
  crashed : bool;                (* Rt.crashed: tasks were cancelled by Rt::crash, not bounced since *)
  sw : nat -> software;          (* incarnation number -> software (constant for a client) *)
  polls : nat;                   (* Rt::tick calls received by the current incarnation *)
  starts : nat;                  (* software factory invocations; incarnation = starts - 1 *)
  t_elapsed : N;                 (* HostTimer.elapsed *)
  t_offset : N;                  (* HostTimer.start_offset *)
  inc_base : N                   (* ghost *)
}.

Record state := {
  elapsed : N;                   (* Sim.elapsed *)
  tick : N;                      (* config.tick *)
  wtick : N;                     (* environment: tokio clock advance per Rt::tick *)
  duration : N;                  (* config.duration *)
  epoch : N;                     (* Sim.since_epoch (the field) *)
  nsteps : N;                    (* Sim.steps - 1 *)
  rts : list rt                  (* IndexMap<IpAddr, Rt>, insertion order; index = host id *)
}.

Definition init (tick wtick duration epoch : N) : state :=
  {| elapsed := 0; tick := tick; wtick := wtick; duration := duration; epoch := epoch;
     nsteps := 0; rts := [] |}.

Definition set_rts (s : state) (l : list rt) : state :=
  {| elapsed := elapsed s; tick := tick s; wtick := wtick s; duration := duration s;
     epoch := epoch s; nsteps := nsteps s; rts := l |}.

Definition cur_sw (r : rt) : software := sw r (pred (starts r)).
Definition cur_outcome (r : rt) : outcome := prog (cur_sw r) (polls r).

(* Sim::client / Sim::host *)
Definition new_rt (client : bool) (f : nat -> software) (now : N) : rt :=
  {| is_client := client; running := true; crashed := false; sw := f; polls := 0; starts := 1;
     t_elapsed := 0; t_offset := now; inc_base := 0 |}.
Definition add_rt (s : state) (client : bool) (f : nat -> software) : state :=
  set_rts s (rts s ++ [new_rt client f (elapsed s)]).

(* HostTimer::tick *)
Definition timer_tick (d : N) (r : rt) : rt :=
  {| is_client := is_client r; running := running r; crashed := crashed r; sw := sw r; polls := polls r;
     starts := starts r; t_elapsed := t_elapsed r + d; t_offset := t_offset r;
     inc_base := inc_base r |}.

Inductive tick_res := TOk (finished : bool) | TErr | TPanic.

(* Rt::tick: the window has run; look at the handle. *)
Definition polled (r : rt) (still_running : bool) : rt :=
  {| is_client := is_client r; running := still_running; crashed := crashed r; sw := sw r; polls := S (polls r);
     starts := starts r; t_elapsed := t_elapsed r; t_offset := t_offset r;
     inc_base := inc_base r |}.
Definition rt_tick (r : rt) : rt * tick_res :=
  if running r then
    match cur_outcome r with
    | Pend => (polled r true, TOk false)
    | Ok_ => (polled r false, TOk true)
    | Err_ => (polled r false, TErr)        (* handle consumed, `res??` returns the error *)
    | Panic_ => (polled r true, TPanic)     (* block_on unwinds before the handle is looked at *)
    end
  else (r, TOk true).

Fixpoint upd_nth {A} (i : nat) (f : A -> A) (l : list A) : list A :=
  match l, i with
  | [], _ => []
  | x :: r, O => f x :: r
  | x :: r, S i' => x :: upd_nth i' f r
  end.

Definition is_running_at (l : list rt) (i : nat) : bool :=
  match nth_error l i with Some r => running r | None => false end.

(* ids of the rts with running software, in map order *)
Fixpoint running_ids_from (k : nat) (l : list rt) : list nat :=
  match l with
  | [] => []
  | r :: t => if running r then k :: running_ids_from (S k) t else running_ids_from (S k) t
  end.
Definition running_ids (l : list rt) : list nat := running_ids_from 0 l.

Fixpoint mem_nat (x : nat) (l : list nat) : bool :=
  match l with [] => false | y :: t => Nat.eqb x y || mem_nat x t end.
Fixpoint dedup (l : list nat) : list nat :=
  match l with [] => [] | x :: t => if mem_nat x t then dedup t else x :: dedup t end.

(* The order oracle made total: the ids of `order` that are running (first
   occurrence only... last occurrence, any fixed choice), followed by the
   running ids the oracle forgot.  For an oracle that is a permutation of the
   running ids (what shuffle produces) this is the oracle itself. *)
Definition eff_order (l : list rt) (order : list nat) : list nat :=
  let o := filter (is_running_at l) (dedup order) in
  o ++ filter (fun i => negb (mem_nat i o)) (running_ids l).

(* One clock read by host code `off` after its window started. *)
Record read_obs := {
  o_host : nat; o_inc : nat; o_tag : N;
  o_elapsed : N;      (* turmoil::elapsed() *)
  o_sim : N;          (* turmoil::sim_elapsed() *)
  o_epoch : N;        (* turmoil::since_epoch() *)
  o_clk : N           (* tokio Instant::now() relative to the incarnation's first poll *)
}.
Definition mk_reads (s : state) (i : nat) (r : rt) : list read_obs :=
  map (fun to =>
         {| o_host := i; o_inc := pred (starts r); o_tag := fst to;
            o_elapsed := t_elapsed r + snd to;
            o_sim := t_offset r + (t_elapsed r + snd to);
            o_epoch := epoch s + (t_offset r + (t_elapsed r + snd to));
            o_clk := N.of_nat (polls r) * wtick s + snd to |})
      (reads (cur_sw r) (polls r)).

Inductive loop_res := LDone (fin : bool) | LErr | LPanic.

(* the `for (&addr, rt) in running` loop of Sim::step *)
Fixpoint poll_loop (s : state) (l : list rt) (order : list nat) (fin : bool) (log : list read_obs)
  : list rt * loop_res * list read_obs :=
  match order with
  | [] => (l, LDone fin, log)
  | i :: rest =>
      match nth_error l i with
      | None => poll_loop s l rest fin log
      | Some r =>
          let log' := log ++ mk_reads s i r in
          match rt_tick r with
          | (r', TErr) => (upd_nth i (fun _ => r') l, LErr, log')
          | (r', TPanic) => (upd_nth i (fun _ => r') l, LPanic, log)
          | (r', TOk f) =>
              let fin' := if is_client r then fin && f else fin in
              poll_loop s (upd_nth i (fun _ => timer_tick (tick s) r') l) rest fin' log'
          end
      end
  end.

Inductive sres := ROk (fin : bool) | RErr | RTimeout | RPanic.

(* stopped hosts are ticked after the loop; `was` = is_software_running at
   partition time.  Since /repo 2342d63 the loop first drains the inbound
   network of a stopped host whose `crashed` flag is set
   (Topology::deliver_messages): no code of the host runs, its (empty) socket
   tables answer TCP data / FIN with RST, refuse SYNs and drop datagrams — see
   Tables.receive and c04_crashed_stack_answers.  Message delivery (for running
   hosts as well) is outside this model of the core. *)
Fixpoint tick_stopped (d : N) (was : list bool) (l : list rt) : list rt :=
  match was, l with
  | w :: ws, r :: t => (if w then r else timer_tick d r) :: tick_stopped d ws t
  | _, _ => l
  end.

(* Sim::step *)
Definition step (s : state) (order : list nat) : state * sres * list read_obs :=
  let was := map running (rts s) in
  let '(l, res, log) := poll_loop s (rts s) (eff_order (rts s) order) true [] in
  match res with
  | LErr => (set_rts s l, RErr, log)
  | LPanic => (set_rts s l, RPanic, log)
  | LDone fin =>
      let s' := {| elapsed := elapsed s + tick s; tick := tick s; wtick := wtick s;
                   duration := duration s; epoch := epoch s; nsteps := nsteps s + 1;
                   rts := tick_stopped (tick s) was l |} in
      if (duration s <? elapsed s') && negb fin then (s', RTimeout, log) else (s', ROk fin, log)
  end.

Inductive rres := RunOk | RunErr | RunTimeout | RunPanic | RunFuel.

(* the loop of Sim::run; orc i = order oracle of the i-th iteration *)
Fixpoint run_loop (fuel : nat) (orc : nat -> list nat) (i : nat) (s : state) (log : list read_obs)
  : state * rres * nat * list read_obs :=
  match fuel with
  | O => (s, RunFuel, i, log)
  | S f =>
      let '(s', r, lg) := step s (orc i) in
      match r with
      | ROk true => (s', RunOk, S i, log ++ lg)
      | ROk false => run_loop f orc (S i) s' (log ++ lg)
      | RErr => (s', RunErr, S i, log ++ lg)
      | RTimeout => (s', RunTimeout, S i, log ++ lg)
      | RPanic => (s', RunPanic, S i, log ++ lg)
      end
  end.

Definition run_fuel (s : state) : nat := N.to_nat ((duration s - elapsed s) / tick s) + 2.

(* Sim::run; returns also the number of Sim::step calls made *)
Definition run (s : state) (orc : nat -> list nat) : state * rres * nat * list read_obs :=
  if existsb is_client (rts s) then run_loop (run_fuel s) orc 0 s [] else (s, RunOk, O, []).

(* Rt::crash: `if self.handle.take().is_some() { self.cancel_tasks(); self.crashed = true }` *)
Definition crash1 (r : rt) : rt :=
  {| is_client := is_client r; running := false; crashed := running r || crashed r; sw := sw r; polls := polls r;
     starts := starts r; t_elapsed := t_elapsed r; t_offset := t_offset r;
     inc_base := inc_base r |}.
(* Rt::bounce: cancel_tasks, spawn software() on the fresh runtime, crashed = false *)
Definition bounce1 (r : rt) : rt :=
  {| is_client := is_client r; running := true; crashed := false; sw := sw r; polls := 0;
     starts := S (starts r); t_elapsed := t_elapsed r; t_offset := t_offset r;
     inc_base := t_elapsed r |}.

(* Sim::crash / Sim::bounce over the resolved hosts, in order.  Rt::crash and
   Rt::bounce panic for a client ("can only crash host's software"); hosts
   before it in the list have been processed.  false = panicked. *)
Fixpoint for_hosts (f : rt -> rt) (l : list rt) (hs : list nat) : list rt * bool :=
  match hs with
  | [] => (l, true)
  | h :: rest =>
      match nth_error l h with
      | Some r => if is_client r then (l, false) else for_hosts f (upd_nth h f l) rest
      | None => (l, false)
      end
  end.

Inductive ev :=
| AddClient (p : software)
| AddHost (p : nat -> software)
| Step (order : list nat)
| Run (orders : list (list nat))
| Crash (hs : list nat)
| Bounce (hs : list nat)
| Probe.

Inductive obs :=
| OReg
| OStep (r : sres) (elapsed since_epoch : N) (log : list read_obs)
| ORun (r : rres) (n : nat) (elapsed since_epoch : N) (log : list read_obs)
| OCtl (ok : bool)
| OProbe (elapsed since_epoch : N) (hosts : list (bool * nat * nat * N * N)).

Definition since_epoch (s : state) : N := epoch s + elapsed s.   (* Sim::since_epoch *)

Definition orc_of (orders : list (list nat)) (l0 : list rt) : nat -> list nat :=
  fun i => nth i orders [].

Definition apply (s : state) (e : ev) : state * obs :=
  match e with
  | AddClient p => (add_rt s true (fun _ => p), OReg)
  | AddHost p => (add_rt s false p, OReg)
  | Step order =>
      let '(s', r, log) := step s order in (s', OStep r (elapsed s') (since_epoch s') log)
  | Run orders =>
      let '(s', r, n, log) := run s (orc_of orders (rts s)) in
      (s', ORun r n (elapsed s') (since_epoch s') log)
  | Crash hs => let '(l, ok) := for_hosts crash1 (rts s) hs in (set_rts s l, OCtl ok)
  | Bounce hs => let '(l, ok) := for_hosts bounce1 (rts s) hs in (set_rts s l, OCtl ok)
  | Probe =>
      (s, OProbe (elapsed s) (since_epoch s)
            (map (fun r => (running r, starts r, polls r, t_elapsed r, t_offset r)) (rts s)))
  end.

Fixpoint exec (s : state) (es : list ev) : state :=
  match es with [] => s | e :: t => exec (fst (apply s e)) t end.

Fixpoint exec_obs (s : state) (es : list ev) : list obs :=
  match es with
  | [] => []
  | e :: t => let '(s', o) := apply s e in o :: exec_obs s' t
  end.

(* ---- plain-data encoding for the correspondence check ------------------ *)
Definition enc_sres (r : sres) : N :=
  match r with ROk true => 1 | ROk false => 0 | RErr => 2 | RTimeout => 3 | RPanic => 4 end.
Definition enc_rres (r : rres) : N :=
  match r with RunOk => 1 | RunErr => 2 | RunTimeout => 3 | RunPanic => 4 | RunFuel => 5 end.
Definition enc_read (o : read_obs) : list N :=
  [N.of_nat (o_host o); N.of_nat (o_inc o); o_tag o; o_elapsed o; o_sim o; o_epoch o; o_clk o].
Definition enc_bool (b : bool) : N := if b then 1 else 0.
Definition enc_obs (o : obs) : N * list N * list (list N) :=
  match o with
  | OReg => (0, [], [])
  | OStep r e se log => (1, [enc_sres r; e; se], map enc_read log)
  | ORun r n e se log => (2, [enc_rres r; N.of_nat n; e; se], map enc_read log)
  | OCtl ok => (3, [enc_bool ok], [])
  | OProbe e se hs =>
      (4, [e; se],
       map (fun h => match h with (rn, st, pl, te, tof) =>
                       [enc_bool rn; N.of_nat st; N.of_nat pl; te; tof] end) hs)
  end.
Definition exec_enc (s : state) (es : list ev) := map enc_obs (exec_obs s es).
