(* Property C04 — a crashed host stops dead, releases everything, and restarts
   cleanly.  Statements only; proofs in C04_proofs.v.  See DESIGN.md section 5
   (C04).

   Proved on the models:
   * simulation core (Model.v): a crashed host is in no step until bounced, each
     Bounce starts the software exactly once per named host, other hosts and the
     clocks are untouched (c04_crash_stops, c04_not_polled, c04_bounce_once,
     c04_starts_only_bounce, c04_isolation);
   * socket tables (Tables.v): running the destructors of all live socket
     objects of the host, in ANY order, leaves the host without UDP bind, TCP
     bind, stream entry and multicast membership; every peer of a stream whose
     write half was open gets a FIN or a RST; every queued SYN's ack channel is
     dropped (=> ConnectionRefused); other hosts' memberships are untouched
     (c04_tables_released), given the ownership relation `owns`, which the
     socket API establishes (c04_owns_api).
   NOT provable here (runtime behaviour of tokio, checked by correspondence
   only — level partial): that dropping the tokio Runtime / LocalSet inside
   Sim::crash really runs the destructor of every task, synchronously, and that
   no code of the host runs afterwards. *)
From Coq Require Import Permutation.
From TV.Lib Require Import Base.
From TV.SimCore Require Import Model Facts Tables C05_proofs C11_proofs C04_proofs.
Open Scope N_scope.

(* Sim::crash on hosts hs (no client among them): each is stopped, and nothing
   else about it changes (poll / start counters, clocks). *)
Theorem c04_crash_stops : forall s hs h r,
  snd (apply s (Crash hs)) = OCtl true -> In h hs -> nth_error (rts s) h = Some r ->
  exists r', nth_error (rts (fst (apply s (Crash hs)))) h = Some r' /\
    running r' = false /\ polls r' = polls r /\ starts r' = starts r /\
    t_elapsed r' = t_elapsed r /\ t_offset r' = t_offset r /\ is_client r' = false.
Proof. exact c04_crash_stops_lemma. Qed.

(* (Reading of "no further observable effect" since /repo 2342d63: the host's
   SOFTWARE — its tasks, its code — causes none: it is never polled, never
   started, reads no clock.  Its network stack, with the empty tables left by
   c04_tables_released, still answers what arrives for it, and only with
   refusals, resets and drops: c04_crashed_stack_answers.) *)
(* A stopped host stops dead: whatever happens next (steps, runs, registrations,
   crashes, bounces of OTHER hosts), as long as no Bounce names it, it is never
   polled (poll counter fixed), never restarted (start counter fixed), stays
   stopped, and no clock read of it is recorded. *)
Theorem c04_not_polled : forall h es s r,
  nth_error (rts s) h = Some r -> running r = false -> no_bounce_of h es ->
  exists r', nth_error (rts (exec s es)) h = Some r' /\
    running r' = false /\ polls r' = polls r /\ starts r' = starts r /\
    forall o, In o (logs_of s es) -> o_host o <> h.
Proof. exact c04_not_polled_lemma. Qed.

(* Sim::bounce over distinct hosts (what a name, an address or a regex resolves
   to): exactly one software start per named host — running or crashed before —
   on a fresh incarnation (poll counter 0), clocks kept; hosts not named are
   literally unchanged. *)
Theorem c04_bounce_once : forall s hs,
  NoDup hs -> snd (apply s (Bounce hs)) = OCtl true ->
  forall j r, nth_error (rts s) j = Some r ->
    exists r', nth_error (rts (fst (apply s (Bounce hs)))) j = Some r' /\
      (In j hs -> starts r' = S (starts r) /\ polls r' = 0%nat /\ running r' = true /\
                  inc_base r' = t_elapsed r /\ is_client r = false) /\
      (~ In j hs -> r' = r) /\
      t_elapsed r' = t_elapsed r /\ t_offset r' = t_offset r /\ sw r' = sw r.
Proof. exact c04_bounce_once_lemma. Qed.

(* No other event ever starts software. *)
Theorem c04_starts_only_bounce : forall s e j r,
  nth_error (rts s) j = Some r ->
  (forall hs, e = Bounce hs -> ~ In j hs) ->
  exists r', nth_error (rts (fst (apply s e))) j = Some r' /\ starts r' = starts r.
Proof. exact c04_starts_only_bounce_lemma. Qed.

(* Crashing or bouncing hs leaves every other host's rt (software state, poll
   and start counters, timer), Sim::elapsed and the step counter as they were. *)
Theorem c04_isolation : forall s e hs j,
  (e = Crash hs \/ e = Bounce hs) -> ~ In j hs ->
  nth_error (rts (fst (apply s e))) j = nth_error (rts s) j /\
  elapsed (fst (apply s e)) = elapsed s /\ nsteps (fst (apply s e)) = nsteps s /\
  length (rts (fst (apply s e))) = length (rts s).
Proof. exact c04_isolation_lemma. Qed.

(* Table release: for every table state t of a host and every set objs of live
   socket objects that owns it, dropping the objects in ANY order ... *)
Theorem c04_tables_released : forall t objs order,
  owns t objs -> Permutation objs order ->
  let t' := fst (drop_all t order) in
  let ms := snd (drop_all t order) in
  udp t' = [] /\ tcp t' = [] /\ streams t' = [] /\
  (forall g port, ~ In (g, self t, port) (mcast t')) /\
  (forall g h port, h <> self t -> (In (g, h, port) (mcast t') <-> In (g, h, port) (mcast t))) /\
  (forall p, In (SWrite p false) objs -> lookup_stream p (streams t) <> None ->
     In (MFin (self t) p) ms \/ In (MRst (self t) p) ms) /\
  (forall port syns s, In (port, syns) (tcp t) -> In s syns -> In (MAckDropped (syn_ack s)) ms).
Proof. exact c04_tables_released_lemma. Qed.

(* ... and `owns` is what the socket API maintains: it holds for the empty
   host and is kept by binding a UDP socket / a listener on a free port, by a
   SYN being queued, by connect registering a stream under a ConnectGuard, by
   accept (or a completed connect) registering a stream and handing out its two
   halves, by a RST from the peer removing the entry, by joining a multicast
   group on a live socket, and by every destructor. *)
Theorem c04_owns_api :
  (forall h, owns (empty_tables h) []) /\
  (forall t objs port, owns t objs -> cnt (N.eqb port) (udp t) = 0%nat ->
     owns (set_udp t (udp t ++ [port])) (SUdp port :: objs)) /\
  (forall t objs port, owns t objs -> cnt (fun b => fst b =? port) (tcp t) = 0%nat ->
     owns (set_tcp t (tcp t ++ [(port, [])])) (SListener port :: objs)) /\
  (forall t objs port s, owns t objs -> owns (set_tcp t (push_syn port s (tcp t))) objs) /\
  (forall t objs p, owns t objs -> lookup_stream p (streams t) = None ->
     cnt (is_half p) objs = 0%nat -> cnt (is_guard p) objs = 0%nat ->
     owns (set_streams t ((p, 2%nat) :: streams t)) (SConnGuard p :: objs)) /\
  (forall t objs p, owns t objs -> lookup_stream p (streams t) = None ->
     cnt (is_half p) objs = 0%nat -> cnt (is_guard p) objs = 0%nat ->
     owns (set_streams t ((p, 2%nat) :: streams t)) (SRead p false false :: SWrite p false :: objs)) /\
  (forall t objs p, owns t objs -> owns (set_streams t (remove_stream p (streams t))) objs) /\
  (forall t objs g port, owns t objs -> (1 <= cnt (is_udp port) objs)%nat ->
     owns (set_mcast t ((g, self t, port) :: mcast t)) objs) /\
  (forall t o rest, owns t (o :: rest) -> owns (fst (drop_sock t o)) rest).
Proof.
  exact (conj owns_empty (conj owns_udp_bind (conj owns_tcp_bind (conj owns_syn_queued
          (conj owns_connect_start (conj owns_new_stream (conj owns_rst_received (conj owns_join owns_drop)))))))).
Qed.

(* The stack of a crashed host.  Sim::step keeps delivering the inbound network
   to a host whose `crashed` flag is set (no code of the host runs).  After the
   release of all its sockets, in any order, any sequence of arriving messages
   leaves its tables as they are (empty: nothing is queued, buffered or
   delivered, so nothing can be handed to the next incarnation) and is
   answered message by message: SYN -> refused (ack sender dropped), data / FIN
   -> RST, RST -> nothing, datagram -> dropped. *)
Theorem c04_crashed_stack_answers : forall t objs order msgs,
  owns t objs -> Permutation objs order ->
  let t0 := fst (drop_all t order) in
  fst (fold_left (fun acc m => (fst (receive (fst acc) m), snd acc ++ [snd (receive (fst acc) m)]))
                 msgs (t0, [])) = t0 /\
  snd (fold_left (fun acc m => (fst (receive (fst acc) m), snd acc ++ [snd (receive (fst acc) m)]))
                 msgs (t0, [])) = map crashed_reply msgs.
Proof. exact c04_crashed_stack_answers_lemma. Qed.

(* Loopback streams.  The destructors run without a current runtime, where
   send_loopback is a no-op: of what they "send", nothing addressed to the host
   itself reaches the wire (no task is spawned that could outlive the
   incarnation), and both ends of every loopback stream are released all the
   same, being entries of this host owned by objects of this host. *)
Theorem c04_loopback_silent : forall t objs order p,
  owns t objs -> Permutation objs order -> rhost p = self t ->
  let ms := on_wire (self t) (snd (drop_all t order)) in
  ~ In (MFin (self t) p) ms /\ ~ In (MRst (self t) p) ms /\
  streams (fst (drop_all t order)) = [].
Proof. exact c04_loopback_silent_lemma. Qed.

(* The flag that selects those hosts: set by Sim::crash exactly when software
   was running (a host whose software had finished is not drained), cleared by
   bounce, never touched by a step or a registration; crashing a host that is
   already down changes nothing (Rt::crash is idempotent, the flag stays set:
   the host keeps being drained after any number of crash calls). *)
Theorem c04_crashed_flag : forall d r,
  (running r = true -> crashed (crash1 r) = true) /\
  (running r = false -> crashed (crash1 r) = crashed r) /\
  crashed (bounce1 r) = false /\
  crashed (adv d r) = crashed r /\
  crashed (new_rt (is_client r) (sw r) d) = false /\
  crash1 (crash1 r) = crash1 r /\
  (crashed r = true -> crashed (crash1 r) = true).
Proof. exact c04_crashed_flag_lemma. Qed.

(* ---- non-vacuity ------------------------------------------------------------------- *)

(* core: host 1 is crashed after one step, the others go on; it is bounced
   later and starts exactly once more *)
Definition sw_pend : software := {| prog := fun _ => Pend; reads := fun _ => [(7, 0)] |}.
Definition hist_c04 : list ev :=
  [AddHost (fun _ => sw_pend); AddHost (fun _ => sw_pend); AddClient sw_pend; Step [0; 1; 2]%nat;
   Crash [1%nat]; Step [2; 0]%nat; Step [0; 2]%nat; Bounce [1%nat]; Step [1; 0; 2]%nat].
Example c04_nonvacuous_core :
  let s := exec (init 2 2 100 0) hist_c04 in
  map (fun r => (running r, starts r, polls r, t_elapsed r)) (rts s) =
    [(true, 1%nat, 4%nat, 8); (true, 2%nat, 1%nat, 8); (true, 1%nat, 4%nat, 8)] /\
  map (fun o => (o_host o, o_inc o, o_sim o)) (logs_of (init 2 2 100 0) hist_c04) =
    [(0%nat, 0%nat, 0); (1%nat, 0%nat, 0); (2%nat, 0%nat, 0);
     (2%nat, 0%nat, 2); (0%nat, 0%nat, 2); (0%nat, 0%nat, 4); (2%nat, 0%nat, 4);
     (1%nat, 1%nat, 6); (0%nat, 0%nat, 6); (2%nat, 0%nat, 6)].
Proof. cbv zeta. split; vm_compute; reflexivity. Qed.

(* tables: a host with a UDP socket in a multicast group, a listener with a
   queued SYN, one established stream with both halves (unread data on the read
   half), one whose read half is already gone and one connect still in its
   handshake: ownership holds, and two
   different destructor orders both leave nothing, tell both peers, and drop
   the queued SYN. *)
Definition p1 : pair := {| lport := 9000; rhost := 2; rport := 49152 |}.
Definition p2 : pair := {| lport := 9000; rhost := 3; rport := 49153 |}.
Definition p3 : pair := {| lport := 49200; rhost := 4; rport := 9001 |}.
Definition t_nv : tables :=
  {| self := 1; udp := [9100]; tcp := [(9000, [{| syn_host := 4; syn_port := 49154; syn_ack := 77 |}])];
     streams := [(p1, 2%nat); (p2, 1%nat); (p3, 2%nat)]; mcast := [(5, 1, 9100); (5, 2, 9100)] |}.
Definition objs_nv : list sock :=
  [SUdp 9100; SListener 9000; SRead p1 true false; SWrite p1 false; SWrite p2 false; SConnGuard p3].
Lemma owns_nv : owns t_nv objs_nv.
Proof.
  constructor.
  - intro q. unfold cnt; cbn [objs_nv t_nv udp filter is_udp].
    rewrite (N.eqb_sym q 9100). destruct (9100 =? q); reflexivity.
  - intro q. unfold cnt; cbn [objs_nv t_nv tcp filter is_listener fst]. destruct (9000 =? q); reflexivity.
  - intro q. unfold cnt; cbn [objs_nv t_nv tcp filter fst]. destruct (9000 =? q); cbn; lia.
  - intros p n H. cbn in H. unfold cnt; cbn [objs_nv filter is_half is_guard].
    destruct (pair_eqb p1 p) eqn:E1; [|destruct (pair_eqb p2 p) eqn:E2;
      [|destruct (pair_eqb p3 p) eqn:E3; [|discriminate]]].
    + inversion H; subst n. apply pair_eqb_eq in E1. subst p. cbn. lia.
    + inversion H; subst n. apply pair_eqb_eq in E2. subst p. cbn. lia.
    + inversion H; subst n. cbn. lia.
  - intros q Hq. unfold cnt in *; cbn [objs_nv filter is_half is_guard] in *.
    destruct (pair_eqb p3 q) eqn:E3; [|cbn in Hq; lia].
    apply pair_eqb_eq in E3. subst q. reflexivity.
  - intro q. unfold cnt; cbn [t_nv streams filter fst].
    destruct (pair_eqb p1 q) eqn:E1, (pair_eqb p2 q) eqn:E2, (pair_eqb p3 q) eqn:E3; cbn; try lia;
      apply pair_eqb_eq in E1 || apply pair_eqb_eq in E2; try apply pair_eqb_eq in E2;
      try apply pair_eqb_eq in E3; subst; discriminate.
  - intros g q Hin. cbn in Hin. destruct Hin as [Hin|[Hin|[]]]; inversion Hin; subst.
    vm_compute. lia.
Qed.
Example c04_nonvacuous_tables :
  owns t_nv objs_nv /\
  release_enc t_nv objs_nv =
    ([[]; []; []; [5; 2; 9100]],
     [[3; 77]; [2; 1; 9000; 2; 49152]; [1; 1; 9000; 3; 49153]]) /\
  release_enc t_nv (rev objs_nv) =
    ([[]; []; []; [5; 2; 9100]],
     [[1; 1; 9000; 3; 49153]; [1; 1; 9000; 2; 49152]; [2; 1; 9000; 2; 49152]; [3; 77]]).
Proof. split; [exact owns_nv|]. split; vm_compute; reflexivity. Qed.

Check c04_tables_released : forall t objs order,
  owns t objs -> Permutation objs order ->
  let t' := fst (drop_all t order) in
  let ms := snd (drop_all t order) in
  udp t' = [] /\ tcp t' = [] /\ streams t' = [] /\
  (forall g port, ~ In (g, self t, port) (mcast t')) /\
  (forall g h port, h <> self t -> (In (g, h, port) (mcast t') <-> In (g, h, port) (mcast t))) /\
  (forall p, In (SWrite p false) objs -> lookup_stream p (streams t) <> None ->
     In (MFin (self t) p) ms \/ In (MRst (self t) p) ms) /\
  (forall port syns s, In (port, syns) (tcp t) -> In s syns -> In (MAckDropped (syn_ack s)) ms).

Print Assumptions c04_crash_stops.
Print Assumptions c04_not_polled.
Print Assumptions c04_bounce_once.
Print Assumptions c04_starts_only_bounce.
Print Assumptions c04_isolation.
Print Assumptions c04_tables_released.
Print Assumptions c04_owns_api.
Print Assumptions c04_crashed_stack_answers.
Print Assumptions c04_crashed_flag.
Print Assumptions c04_loopback_silent.
Print Assumptions c04_nonvacuous_core.
Print Assumptions c04_nonvacuous_tables.
