(* TV.SimCore.C04_proofs — crash / bounce on the simulation core (property C04):
   a crashed host is in no step until bounced, each bounce starts the software
   exactly once, other hosts are untouched.  (Socket tables: Tables.v.) *)
From TV.Lib Require Import Base.
From TV.SimCore Require Import Model Facts C05_proofs C11_proofs.
Open Scope N_scope.

Definition logs_of (s : state) (es : list ev) : list read_obs := flat_map obs_log (exec_obs s es).

Lemma logs_of_cons s e es :
  logs_of s (e :: es) = obs_log (snd (apply s e)) ++ logs_of (fst (apply s e)) es.
Proof. unfold logs_of. cbn. destruct (apply s e) as [s' o]. reflexivity. Qed.

(* Sim::crash stops the software of the selected hosts, and nothing else of them changes *)
Theorem c04_crash_stops_lemma s hs h r :
  snd (apply s (Crash hs)) = OCtl true -> In h hs -> nth_error (rts s) h = Some r ->
  exists r', nth_error (rts (fst (apply s (Crash hs)))) h = Some r' /\
    running r' = false /\ polls r' = polls r /\ starts r' = starts r /\
    t_elapsed r' = t_elapsed r /\ t_offset r' = t_offset r /\ is_client r' = false.
Proof.
  cbn [apply]. destruct (for_hosts crash1 (rts s) hs) as [l ok] eqn:E. cbn [fst snd].
  intros Hok Hin Er. inversion Hok; subst ok.
  destruct (for_hosts_in _ _ _ _ E h r Hin Er) as (Hc & k & A).
  unfold set_rts; cbn [rts]. eexists. split; [exact A|].
  destruct (iter_crash1_clock (S k) r) as (C1 & C2 & _ & C4 & _).
  assert (Hst : forall n, starts (Nat.iter n crash1 r) = starts r /\
                          is_client (Nat.iter n crash1 r) = is_client r)
    by (induction n as [|n IH]; cbn; auto).
  destruct (Hst (S k)) as (S1 & S2). repeat split; auto. congruence.
Qed.

(* a stopped host takes part in nothing until it is bounced: over any sequence
   of events without a Bounce naming it, it stays stopped, its poll and start
   counters do not move and no clock read of it is recorded *)
Theorem c04_not_polled_lemma h : forall es s r,
  nth_error (rts s) h = Some r -> running r = false -> no_bounce_of h es ->
  exists r', nth_error (rts (exec s es)) h = Some r' /\
    running r' = false /\ polls r' = polls r /\ starts r' = starts r /\
    forall o, In o (logs_of s es) -> o_host o <> h.
Proof.
  induction es as [|e t IH]; intros s r Er Hr Hn.
  - cbn. exists r. repeat split; auto.
  - inversion Hn as [|? ? H1 H2]; subst.
    destruct (c11_no_repoll_lemma s e h r Er Hr) as (r1 & A & B & C).
    destruct B as [(B1 & B2 & B3)|(hs & -> & Hin)]; [|exfalso; eapply H1; eauto].
    destruct (IH _ _ A B1 H2) as (r2 & A2 & R1 & R2 & R3 & R4).
    exists r2. cbn [exec]. split; [exact A2|]. repeat split; try congruence.
    intros o Ho. rewrite logs_of_cons in Ho. apply in_app_or in Ho as [Ho|Ho]; auto.
Qed.

(* ... while its clock keeps up: every successful step still ticks it *)
(* (c05_step_advances covers every registered host, running or not.) *)

(* Sim::bounce over distinct hosts starts the software of each exactly once, on
   a fresh incarnation, and keeps the clocks *)
Theorem c04_bounce_once_lemma s hs :
  NoDup hs -> snd (apply s (Bounce hs)) = OCtl true ->
  forall j r, nth_error (rts s) j = Some r ->
    exists r', nth_error (rts (fst (apply s (Bounce hs)))) j = Some r' /\
      (In j hs -> starts r' = S (starts r) /\ polls r' = 0%nat /\ running r' = true /\
                  inc_base r' = t_elapsed r /\ is_client r = false) /\
      (~ In j hs -> r' = r) /\
      t_elapsed r' = t_elapsed r /\ t_offset r' = t_offset r /\ sw r' = sw r.
Proof.
  cbn [apply]. destruct (for_hosts bounce1 (rts s) hs) as [l ok] eqn:E. cbn [fst snd].
  intros Hn Hok j r Er. inversion Hok; subst ok.
  destruct (for_hosts_once _ _ _ _ Hn E) as (R & C).
  unfold set_rts; cbn [rts]. rewrite (R j r Er). eexists. split; [reflexivity|].
  destruct (mem_nat j hs) eqn:M.
  - apply mem_nat_In in M. split.
    + intros _. destruct (C j M) as (rj & A & B). rewrite Er in A. inversion A; subst rj.
      cbn. repeat split; auto.
    + split; [intro Hc; contradiction|]. cbn. auto.
  - apply mem_nat_false in M. split; [intro Hc; contradiction|]. split; auto.
Qed.

(* the start counter moves for no other reason *)
Theorem c04_starts_only_bounce_lemma s e j r :
  nth_error (rts s) j = Some r ->
  (forall hs, e = Bounce hs -> ~ In j hs) ->
  exists r', nth_error (rts (fst (apply s e))) j = Some r' /\ starts r' = starts r.
Proof.
  intros Er Hb. destruct (c05_base_stable_lemma s e j r Er Hb) as (r' & A & _ & B & _). eauto.
Qed.

(* crashing or bouncing some hosts leaves every other rt and every global clock as it was *)
Theorem c04_isolation_lemma s e hs j :
  (e = Crash hs \/ e = Bounce hs) -> ~ In j hs ->
  nth_error (rts (fst (apply s e))) j = nth_error (rts s) j /\
  elapsed (fst (apply s e)) = elapsed s /\ nsteps (fst (apply s e)) = nsteps s /\
  length (rts (fst (apply s e))) = length (rts s).
Proof.
  intros [-> | ->] Hj; cbn [apply].
  - destruct (for_hosts crash1 (rts s) hs) as [l ok] eqn:E. cbn [fst]. unfold set_rts; cbn.
    destruct (for_hosts_rel _ _ _ _ _ E) as (L & R). repeat split; auto.
    destruct (nth_error (rts s) j) as [r|] eqn:Er.
    + destruct (R j r Er) as (k & A & B). rewrite (B Hj) in A. exact A.
    + apply nth_error_None. rewrite L. now apply nth_error_None.
  - destruct (for_hosts bounce1 (rts s) hs) as [l ok] eqn:E. cbn [fst]. unfold set_rts; cbn.
    destruct (for_hosts_rel _ _ _ _ _ E) as (L & R). repeat split; auto.
    destruct (nth_error (rts s) j) as [r|] eqn:Er.
    + destruct (R j r Er) as (k & A & B). rewrite (B Hj) in A. exact A.
    + apply nth_error_None. rewrite L. now apply nth_error_None.
Qed.

(* ======================================================================== *)
(* Socket tables (Tables.v): every destructor order releases everything.     *)
From Coq Require Import Permutation.
From TV.SimCore Require Import Tables.

Lemma pair_eqb_eq a b : pair_eqb a b = true <-> a = b.
Proof.
  unfold pair_eqb. rewrite !andb_true_iff, !N.eqb_eq. destruct a, b; cbn. split.
  - intros [[-> ->] ->]. reflexivity.
  - intro H. inversion H. auto.
Qed.
Lemma pair_eqb_refl a : pair_eqb a a = true.
Proof. now apply pair_eqb_eq. Qed.
Lemma pair_eqb_neq a b : pair_eqb a b = false <-> a <> b.
Proof. rewrite <- pair_eqb_eq. destruct (pair_eqb a b); intuition discriminate. Qed.
Lemma pair_eqb_sym a b : pair_eqb a b = pair_eqb b a.
Proof.
  destruct (pair_eqb a b) eqn:E.
  - apply pair_eqb_eq in E. subst. now rewrite pair_eqb_refl.
  - symmetry. apply pair_eqb_neq. apply pair_eqb_neq in E. congruence.
Qed.

Definition cnt {A} (f : A -> bool) (l : list A) : nat := length (filter f l).
Lemma cnt_cons {A} (f : A -> bool) x l : cnt f (x :: l) = ((if f x then 1 else 0) + cnt f l)%nat.
Proof. unfold cnt. cbn. destruct (f x); reflexivity. Qed.
Lemma cnt_perm {A} (f : A -> bool) l l' : Permutation l l' -> cnt f l = cnt f l'.
Proof.
  induction 1; rewrite ?cnt_cons in *; try lia.
Qed.

Definition is_udp (port : N) (o : sock) : bool := match o with SUdp q => q =? port | _ => false end.
Definition is_listener (port : N) (o : sock) : bool := match o with SListener q => q =? port | _ => false end.
Definition is_half (p : pair) (o : sock) : bool :=
  match o with SRead q _ _ | SWrite q _ => pair_eqb q p | _ => false end.
Definition is_guard (p : pair) (o : sock) : bool :=
  match o with SConnGuard q => pair_eqb q p | _ => false end.

(* every table entry of the host is owned by live socket objects of its tasks:
   one UdpSocket per UDP bind, one TcpListener per TCP bind, as many halves as
   the reference count of each stream entry — or the ConnectGuard of a connect
   still in its handshake, which stands for both (halves of streams that were
   reset by the peer own nothing), every multicast membership belongs to a live
   UdpSocket *)
Record owns (t : tables) (objs : list sock) : Prop := {
  own_udp : forall port, cnt (N.eqb port) (udp t) = cnt (is_udp port) objs;
  own_tcp : forall port, cnt (fun b => fst b =? port) (tcp t) = cnt (is_listener port) objs;
  own_tcp_uniq : forall port, (cnt (fun b => (fst b =? port)%N) (tcp t) <= 1)%nat;
  own_str : forall p n, lookup_stream p (streams t) = Some n ->
              n = (cnt (is_half p) objs + 2 * cnt (is_guard p) objs)%nat /\ (1 <= n)%nat;
  own_guard : forall p, (1 <= cnt (is_guard p) objs)%nat -> cnt (is_half p) objs = 0%nat;
  own_str_uniq : forall p, (cnt (fun e => pair_eqb (fst e) p) (streams t) <= 1)%nat;
  own_mc : forall g port, In (g, self t, port) (mcast t) -> (1 <= cnt (is_udp port) objs)%nat
}.

Lemma owns_perm t l l' : Permutation l l' -> owns t l -> owns t l'.
Proof.
  intros P [A B C D G E F]. constructor; intros; rewrite <- ?(cnt_perm _ _ _ P); eauto.
  apply G. now rewrite (cnt_perm _ _ _ P).
Qed.

Lemma cnt_zero_nil {A} (l : list A) (key : A -> N) :
  (forall k, cnt (fun x => key x =? k) l = 0%nat) -> l = [].
Proof.
  destruct l as [|x l]; auto. intro H. specialize (H (key x)).
  rewrite cnt_cons, N.eqb_refl in H. discriminate.
Qed.

Theorem owns_nil_empty t : owns t [] ->
  udp t = [] /\ tcp t = [] /\ streams t = [] /\
  (forall g h port, In (g, h, port) (mcast t) -> h <> self t).
Proof.
  intros [A B C D G E F]. repeat split.
  - apply (cnt_zero_nil (udp t) (fun x => x)). intro k.
    transitivity (cnt (N.eqb k) (udp t)); [|rewrite (A k); reflexivity].
    unfold cnt. f_equal. apply filter_ext. intro x. apply N.eqb_sym.
  - apply (cnt_zero_nil (tcp t) fst). intro k. now rewrite B.
  - destruct (streams t) as [|[p n] l] eqn:Es; auto. exfalso.
    destruct (D p n) as [H1 H2]; [cbn; now rewrite pair_eqb_refl|]. cbn in H1. lia.
  - intros g h port Hin ->. specialize (F g port Hin). cbn in F. lia.
Qed.

(* --- table operations and counts --- *)

Lemma cnt_remove_port q l p :
  cnt (N.eqb p) (remove_port q l) =
  if (q =? p) then pred (cnt (N.eqb p) l) else cnt (N.eqb p) l.
Proof.
  induction l as [|x l IH]; cbn [remove_port]; [destruct (q =? p); reflexivity|].
  destruct (x =? q) eqn:Exq.
  - apply N.eqb_eq in Exq. subst x. rewrite cnt_cons. rewrite (N.eqb_sym p q).
    destruct (q =? p); cbn; lia.
  - rewrite !cnt_cons, IH. destruct (q =? p) eqn:Eqp; [|reflexivity].
    apply N.eqb_eq in Eqp. subst p. rewrite (N.eqb_sym q x), Exq. cbn. reflexivity.
Qed.

Lemma cnt_remove_bind q l p :
  cnt (fun b => fst b =? p) (fst (remove_bind q l)) =
  if (q =? p) then pred (cnt (fun b => fst b =? p) l) else cnt (fun b => fst b =? p) l.
Proof.
  induction l as [|[x syns] l IH]; cbn [remove_bind]; [destruct (q =? p); reflexivity|].
  destruct (x =? q) eqn:Exq.
  - apply N.eqb_eq in Exq. subst x. cbn [fst]. rewrite cnt_cons. cbn [fst].
    destruct (q =? p); cbn; lia.
  - destruct (remove_bind q l) as [r' s] eqn:Er. cbn [fst] in *. rewrite !cnt_cons, IH. cbn [fst].
    destruct (q =? p) eqn:Eqp; [|reflexivity].
    apply N.eqb_eq in Eqp. subst p. rewrite Exq. cbn. reflexivity.
Qed.

Lemma lookup_cnt p l : lookup_stream p l = None <-> cnt (fun e => pair_eqb (fst e) p) l = 0%nat.
Proof.
  induction l as [|[q n] l IH]; cbn [lookup_stream]; [split; reflexivity|].
  rewrite cnt_cons. cbn [fst]. destruct (pair_eqb q p); [split; [discriminate|lia]|].
  rewrite IH. split; lia.
Qed.

Lemma lookup_remove_stream p l q :
  (cnt (fun e => pair_eqb (fst e) p) l <= 1)%nat ->
  lookup_stream q (remove_stream p l) = if pair_eqb p q then None else lookup_stream q l.
Proof.
  induction l as [|[x n] l IH]; intro U; cbn [remove_stream lookup_stream].
  - destruct (pair_eqb p q); reflexivity.
  - rewrite cnt_cons in U. cbn [fst] in U. destruct (pair_eqb x p) eqn:Exp.
    + apply pair_eqb_eq in Exp. subst x. destruct (pair_eqb p q) eqn:Epq; [|reflexivity].
      apply pair_eqb_eq in Epq. subst q. apply lookup_cnt. lia.
    + cbn [lookup_stream]. destruct (pair_eqb x q) eqn:Exq.
      * destruct (pair_eqb p q) eqn:Epq; [|reflexivity].
        apply pair_eqb_eq in Epq, Exq. subst. rewrite pair_eqb_refl in Exp. discriminate.
      * apply IH. lia.
Qed.

Lemma lookup_close_half p l q :
  (cnt (fun e => pair_eqb (fst e) p) l <= 1)%nat ->
  lookup_stream q (close_half p l) =
  if pair_eqb p q then match lookup_stream p l with Some (S (S m)) => Some (S m) | _ => None end
  else lookup_stream q l.
Proof.
  induction l as [|[x n] l IH]; intro U; cbn [close_half lookup_stream].
  - destruct (pair_eqb p q); reflexivity.
  - rewrite cnt_cons in U. cbn [fst] in U. destruct (pair_eqb x p) eqn:Exp.
    + apply pair_eqb_eq in Exp. subst x.
      assert (Hn : lookup_stream p l = None) by (apply lookup_cnt; lia).
      destruct (pair_eqb p q) eqn:Epq.
      * apply pair_eqb_eq in Epq. subst q. destruct n as [|[|m]]; cbn [lookup_stream];
          rewrite ?pair_eqb_refl; auto.
      * destruct n as [|[|m]]; cbn [lookup_stream]; rewrite ?Epq; auto.
    + cbn [lookup_stream]. destruct (pair_eqb x q) eqn:Exq.
      * destruct (pair_eqb p q) eqn:Epq; [|reflexivity].
        apply pair_eqb_eq in Epq, Exq. subst. rewrite pair_eqb_refl in Exp. discriminate.
      * apply IH. lia.
Qed.

Lemma cnt_remove_stream_le p l q :
  (cnt (fun e => pair_eqb (fst e) q) (remove_stream p l) <= cnt (fun e => pair_eqb (fst e) q) l)%nat.
Proof.
  induction l as [|[x n] l IH]; cbn [remove_stream]; [lia|].
  destruct (pair_eqb x p); rewrite !cnt_cons; [lia|]. cbn [fst]. lia.
Qed.

Lemma cnt_close_half_le p l q :
  (cnt (fun e => pair_eqb (fst e) q) (close_half p l) <= cnt (fun e => pair_eqb (fst e) q) l)%nat.
Proof.
  induction l as [|[x n] l IH]; cbn [close_half]; [lia|].
  destruct (pair_eqb x p).
  - destruct n as [|[|m]]; rewrite !cnt_cons; cbn [fst]; lia.
  - rewrite !cnt_cons. cbn [fst]. lia.
Qed.

(* --- one destructor keeps the ownership relation for the remaining objects --- *)

Ltac guard_rest G :=
  let q := fresh "q" in let Hg := fresh "Hg" in
  intros q Hg; specialize (G q); rewrite !cnt_cons in G; cbn [is_guard is_half] in G;
  repeat match type of G with context [pair_eqb ?a ?b] => destruct (pair_eqb a b) end; lia.

Lemma owns_drop t o rest : owns t (o :: rest) -> owns (fst (drop_sock t o)) rest.
Proof.
  intros [A B C D G E F]. destruct o as [q|q|p unread closed|p shut|p]; cbn [drop_sock].
  - (* UdpSocket *)
    cbn [fst]. constructor; cbn [udp tcp streams mcast self set_udp set_mcast].
    + intro port. rewrite cnt_remove_port. specialize (A port). rewrite cnt_cons in A. cbn [is_udp] in A.
      destruct (q =? port); lia.
    + intro port. specialize (B port). now rewrite cnt_cons in B.
    + exact C.
    + intros p n H. specialize (D p n H). now rewrite !cnt_cons in D.
    + guard_rest G.
    + exact E.
    + intros g port Hin. apply filter_In in Hin as [Hin Hf]. cbn in Hf.
      rewrite N.eqb_refl in Hf. cbn in Hf. apply negb_true_iff in Hf.
      specialize (F g port Hin). rewrite cnt_cons in F. cbn [is_udp] in F.
      rewrite (N.eqb_sym q port), Hf in F. exact F.
  - (* TcpListener *)
    destruct (remove_bind q (tcp t)) as [b syns] eqn:Er. cbn [fst].
    constructor; cbn [udp tcp streams mcast self set_tcp].
    + intro port. specialize (A port). now rewrite cnt_cons in A.
    + intro port. pose proof (cnt_remove_bind q (tcp t) port) as K. rewrite Er in K. cbn [fst] in K.
      rewrite K. specialize (B port). rewrite cnt_cons in B. cbn [is_listener] in B.
      destruct (q =? port); lia.
    + intro port. pose proof (cnt_remove_bind q (tcp t) port) as K. rewrite Er in K. cbn [fst] in K.
      rewrite K. specialize (C port). destruct (q =? port); lia.
    + intros p n H. specialize (D p n H). now rewrite !cnt_cons in D.
    + guard_rest G.
    + exact E.
    + intros g port Hin. specialize (F g port Hin). now rewrite cnt_cons in F.
  - (* ReadHalf *)
    destruct (negb closed && unread); cbn [fst];
      constructor; cbn [udp tcp streams mcast self set_streams].
    + intro port. specialize (A port). now rewrite cnt_cons in A.
    + intro port. specialize (B port). now rewrite cnt_cons in B.
    + exact C.
    + intros q n H. rewrite lookup_remove_stream in H by apply E.
      destruct (pair_eqb p q) eqn:Epq; [discriminate|].
      specialize (D q n H). rewrite !cnt_cons in D. cbn [is_half is_guard] in D. now rewrite Epq in D.
    + guard_rest G.
    + intro q. pose proof (cnt_remove_stream_le p (streams t) q). specialize (E q). lia.
    + intros g port Hin. specialize (F g port Hin). now rewrite cnt_cons in F.
    + intro port. specialize (A port). now rewrite cnt_cons in A.
    + intro port. specialize (B port). now rewrite cnt_cons in B.
    + exact C.
    + intros q n H. rewrite lookup_close_half in H by apply E.
      destruct (pair_eqb p q) eqn:Epq.
      * apply pair_eqb_eq in Epq. subst q.
        destruct (lookup_stream p (streams t)) as [[|[|m]]|] eqn:El; try discriminate.
        inversion H; subst n. destruct (D p (S (S m)) El) as [D1 D2].
        rewrite !cnt_cons in D1. cbn [is_half is_guard] in D1. rewrite pair_eqb_refl in D1. lia.
      * specialize (D q n H). rewrite !cnt_cons in D. cbn [is_half is_guard] in D. now rewrite Epq in D.
    + guard_rest G.
    + intro q. pose proof (cnt_close_half_le p (streams t) q). specialize (E q). lia.
    + intros g port Hin. specialize (F g port Hin). now rewrite cnt_cons in F.
  - (* WriteHalf *)
    cbn [fst]. constructor; cbn [udp tcp streams mcast self set_streams].
    + intro port. specialize (A port). now rewrite cnt_cons in A.
    + intro port. specialize (B port). now rewrite cnt_cons in B.
    + exact C.
    + intros q n H. rewrite lookup_close_half in H by apply E.
      destruct (pair_eqb p q) eqn:Epq.
      * apply pair_eqb_eq in Epq. subst q.
        destruct (lookup_stream p (streams t)) as [[|[|m]]|] eqn:El; try discriminate.
        inversion H; subst n. destruct (D p (S (S m)) El) as [D1 D2].
        rewrite !cnt_cons in D1. cbn [is_half is_guard] in D1. rewrite pair_eqb_refl in D1. lia.
      * specialize (D q n H). rewrite !cnt_cons in D. cbn [is_half is_guard] in D. now rewrite Epq in D.
    + guard_rest G.
    + intro q. pose proof (cnt_close_half_le p (streams t) q). specialize (E q). lia.
    + intros g port Hin. specialize (F g port Hin). now rewrite cnt_cons in F.
  - (* ConnectGuard *)
    cbn [fst]. constructor; cbn [udp tcp streams mcast self set_streams].
    + intro port. specialize (A port). now rewrite cnt_cons in A.
    + intro port. specialize (B port). now rewrite cnt_cons in B.
    + exact C.
    + intros q n H. rewrite lookup_remove_stream in H by apply E.
      destruct (pair_eqb p q) eqn:Epq; [discriminate|].
      specialize (D q n H). rewrite !cnt_cons in D. cbn [is_half is_guard] in D. now rewrite Epq in D.
    + guard_rest G.
    + intro q. pose proof (cnt_remove_stream_le p (streams t) q). specialize (E q). lia.
    + intros g port Hin. specialize (F g port Hin). now rewrite cnt_cons in F.
Qed.

Lemma drop_sock_self t o : self (fst (drop_sock t o)) = self t.
Proof.
  destruct o as [q|q|p u c|p s|p]; cbn; auto.
  - destruct (remove_bind q (tcp t)); reflexivity.
  - destruct (negb c && u); reflexivity.
Qed.

(* memberships of other hosts are not touched *)
Lemma drop_sock_mcast_others t o g h port :
  h <> self t -> (In (g, h, port) (mcast (fst (drop_sock t o))) <-> In (g, h, port) (mcast t)).
Proof.
  intro Hh. destruct o as [q|q|p u c|p s|p]; cbn; try tauto.
  - rewrite filter_In. cbn. apply N.eqb_neq in Hh. rewrite Hh. cbn. tauto.
  - destruct (remove_bind q (tcp t)); cbn; tauto.
  - destruct (negb c && u); cbn; tauto.
Qed.

Lemma drop_all_owns : forall objs t, owns t objs -> owns (fst (drop_all t objs)) [].
Proof.
  induction objs as [|o rest IH]; intros t H; cbn [drop_all]; [exact H|].
  pose proof (owns_drop _ _ _ H) as H1.
  destruct (drop_sock t o) as [t1 m1]. cbn [fst] in H1.
  specialize (IH t1 H1). destruct (drop_all t1 rest) as [t2 m2]. exact IH.
Qed.

Lemma drop_all_self : forall objs t, self (fst (drop_all t objs)) = self t.
Proof.
  induction objs as [|o rest IH]; intro t; cbn [drop_all]; [reflexivity|].
  pose proof (drop_sock_self t o) as H1. destruct (drop_sock t o) as [t1 m1]. cbn [fst] in H1.
  specialize (IH t1). destruct (drop_all t1 rest) as [t2 m2]. cbn [fst] in *. congruence.
Qed.

Lemma drop_all_mcast_others : forall objs t g h port,
  h <> self t -> (In (g, h, port) (mcast (fst (drop_all t objs))) <-> In (g, h, port) (mcast t)).
Proof.
  induction objs as [|o rest IH]; intros t g h port Hh; cbn [drop_all]; [tauto|].
  pose proof (drop_sock_mcast_others t o g h port Hh) as H1.
  pose proof (drop_sock_self t o) as H2.
  destruct (drop_sock t o) as [t1 m1]. cbn [fst] in *.
  specialize (IH t1 g h port ltac:(congruence)). destruct (drop_all t1 rest) as [t2 m2]. cbn [fst] in *.
  tauto.
Qed.

(* --- what the peers are told --- *)

Lemma remove_bind_syns q l syns :
  (cnt (fun b => (fst b =? q)%N) l <= 1)%nat -> In (q, syns) l -> snd (remove_bind q l) = syns.
Proof.
  induction l as [|[x s] l IH]; intros U Hin; [destruct Hin|].
  cbn [remove_bind]. rewrite cnt_cons in U. cbn [fst] in U. destruct (x =? q) eqn:Exq.
  - destruct Hin as [Hin|Hin]; [now inversion Hin|].
    exfalso. assert (1 <= cnt (fun b : N * list syn => (fst b =? q)%N) l)%nat; [|lia].
    clear -Hin. induction l as [|[y s'] l IH]; [destruct Hin|]. rewrite cnt_cons. cbn [fst].
    destruct Hin as [Hin|Hin]; [inversion Hin; subst; rewrite N.eqb_refl; lia|].
    specialize (IH Hin). lia.
  - destruct Hin as [Hin|Hin]; [inversion Hin; subst; rewrite N.eqb_refl in Exq; discriminate|].
    destruct (remove_bind q l) as [r' s'] eqn:Er. cbn [snd] in *. apply IH; [lia|exact Hin].
Qed.

Lemma remove_bind_other q l port syns :
  port <> q -> In (port, syns) l -> In (port, syns) (fst (remove_bind q l)).
Proof.
  intro Hne. induction l as [|[x s] l IH]; intro Hin; [destruct Hin|].
  cbn [remove_bind]. destruct (x =? q) eqn:Exq.
  - apply N.eqb_eq in Exq. subst x. destruct Hin as [Hin|Hin]; [inversion Hin; congruence|exact Hin].
  - destruct (remove_bind q l) as [r' s'] eqn:Er. cbn [fst] in *.
    destruct Hin as [Hin|Hin]; [left; exact Hin|right; auto].
Qed.

(* every SYN queued at a listener of the host has its ack channel dropped *)
Lemma drop_all_syns : forall objs t port syns s,
  owns t objs -> In (port, syns) (tcp t) -> In s syns ->
  In (MAckDropped (syn_ack s)) (snd (drop_all t objs)).
Proof.
  induction objs as [|o rest IH]; intros t port syns s H Hin Hs.
  - destruct (owns_nil_empty t H) as (_ & E & _). rewrite E in Hin. destruct Hin.
  - cbn [drop_all]. pose proof (owns_drop _ _ _ H) as H1.
    destruct (drop_sock t o) as [t1 m1] eqn:Ed. cbn [fst] in H1.
    destruct (drop_all t1 rest) as [t2 m2] eqn:Ea. cbn [snd]. apply in_or_app.
    assert (Keep : tcp t1 = tcp t -> In (MAckDropped (syn_ack s)) m2).
    { intro Et. specialize (IH t1 port syns s H1). rewrite Ea in IH. apply IH; auto. now rewrite Et. }
    destruct o as [q|q|p u c|p sh|p]; cbn [drop_sock] in Ed;
      [| | | |inversion Ed; subst; right; apply Keep; reflexivity].
    + inversion Ed; subst. right. apply Keep. reflexivity.
    + destruct (remove_bind q (tcp t)) as [b sy] eqn:Er. inversion Ed; subst.
      destruct (N.eq_dec port q) as [->|Hne].
      * left. pose proof (remove_bind_syns q (tcp t) syns (own_tcp_uniq _ _ H q) Hin) as K.
        rewrite Er in K. cbn [snd] in K. subst sy. apply in_map_iff. eauto.
      * right. specialize (IH (set_tcp t b) port syns s H1). rewrite Ea in IH. apply IH; auto.
        cbn. pose proof (remove_bind_other q (tcp t) port syns Hne Hin) as K. now rewrite Er in K.
    + destruct (negb c && u); inversion Ed; subst; right; apply Keep; reflexivity.
    + inversion Ed; subst. right. apply Keep. reflexivity.
Qed.

(* the peer of every stream whose write half is still open gets a FIN or a RST *)
Lemma drop_all_fin_or_rst : forall objs t p,
  owns t objs -> In (SWrite p false) objs -> lookup_stream p (streams t) <> None ->
  In (MFin (self t) p) (snd (drop_all t objs)) \/ In (MRst (self t) p) (snd (drop_all t objs)).
Proof.
  induction objs as [|o rest IH]; intros t p H Hin Hl; [destruct Hin|].
  cbn [drop_all]. pose proof (owns_drop _ _ _ H) as H1.
  pose proof (drop_sock_self t o) as Hs.
  destruct (drop_sock t o) as [t1 m1] eqn:Ed. cbn [fst] in H1, Hs.
  destruct (drop_all t1 rest) as [t2 m2] eqn:Ea. cbn [snd].
  assert (Later : In (SWrite p false) rest -> lookup_stream p (streams t1) <> None ->
                  In (MFin (self t) p) (m1 ++ m2) \/ In (MRst (self t) p) (m1 ++ m2)).
  { intros A B. specialize (IH t1 p H1 A B). rewrite Ea, Hs in IH. cbn [snd] in IH.
    destruct IH; [left|right]; apply in_or_app; auto. }
  (* number of halves of p among o :: rest when the write half is in rest *)
  assert (Two : forall u c, o = SRead p u c \/ (exists sh, o = SWrite p sh) -> In (SWrite p false) rest ->
                exists m, lookup_stream p (streams t) = Some (S (S m))).
  { intros u c Ho Hr. destruct (lookup_stream p (streams t)) as [n|] eqn:El; [|congruence].
    destruct (own_str _ _ H p n El) as [N1 N2]. rewrite !cnt_cons in N1.
    assert (Hh : is_half p o = true) by (destruct Ho as [->|[sh ->]]; cbn; apply pair_eqb_refl).
    rewrite Hh in N1.
    assert (1 <= cnt (is_half p) rest)%nat.
    { clear -Hr. induction rest as [|x l IHl]; [destruct Hr|]. rewrite cnt_cons.
      destruct Hr as [->|Hr]; [cbn; rewrite pair_eqb_refl; lia|]. specialize (IHl Hr). lia. }
    destruct n as [|[|m]]; try lia. eauto. }
  destruct o as [q|q|q u c|q sh|q]; cbn [drop_sock] in Ed.
  5:{ (* a ConnectGuard: never for a pair that has halves *)
    destruct Hin as [Hin|Hin]; [discriminate|].
    destruct (pair_eqb q p) eqn:Eqp.
    - exfalso. apply pair_eqb_eq in Eqp. subst q.
      pose proof (own_guard _ _ H p) as G. rewrite !cnt_cons in G. cbn [is_guard is_half] in G.
      rewrite pair_eqb_refl in G.
      assert (1 <= cnt (is_half p) rest)%nat.
      { clear -Hin. induction rest as [|x l IHl]; [destruct Hin|]. rewrite cnt_cons.
        destruct Hin as [->|Hin]; [cbn; rewrite pair_eqb_refl; lia|]. specialize (IHl Hin). lia. }
      lia.
    - inversion Ed; subst. apply Later; auto. cbn [streams set_streams].
      rewrite lookup_remove_stream by apply (own_str_uniq _ _ H). now rewrite Eqp. }
  - inversion Ed; subst. destruct Hin as [Hin|Hin]; [discriminate|]. apply Later; auto.
  - destruct (remove_bind q (tcp t)) as [b sy]. inversion Ed; subst.
    destruct Hin as [Hin|Hin]; [discriminate|]. apply Later; auto.
  - destruct Hin as [Hin|Hin]; [discriminate|].
    destruct (pair_eqb q p) eqn:Eqp.
    + apply pair_eqb_eq in Eqp. subst q. destruct (negb c && u).
      * inversion Ed; subst. right. apply in_or_app. left. now left.
      * inversion Ed; subst. apply Later; auto. cbn [streams set_streams].
        rewrite lookup_close_half by apply (own_str_uniq _ _ H). rewrite pair_eqb_refl.
        destruct (Two u c (or_introl eq_refl) Hin) as [m ->]. discriminate.
    + assert (Same : forall l', (l' = remove_stream q (streams t) \/ l' = close_half q (streams t)) ->
                      lookup_stream p l' = lookup_stream p (streams t)).
      { intros l' [-> | ->].
        - rewrite lookup_remove_stream by apply (own_str_uniq _ _ H). now rewrite Eqp.
        - rewrite lookup_close_half by apply (own_str_uniq _ _ H). now rewrite Eqp. }
      destruct (negb c && u); inversion Ed; subst; apply Later; auto; cbn [streams set_streams];
        rewrite Same; auto.
  - destruct (pair_eqb q p) eqn:Eqp.
    + apply pair_eqb_eq in Eqp. subst q. destruct sh.
      * destruct Hin as [Hin|Hin]; [discriminate|]. inversion Ed; subst. apply Later; auto.
        cbn [streams set_streams]. rewrite lookup_close_half by apply (own_str_uniq _ _ H).
        rewrite pair_eqb_refl.
        destruct (Two false false (or_intror (ex_intro _ true eq_refl)) Hin) as [m ->]. discriminate.
      * inversion Ed; subst. left. apply in_or_app. left.
        destruct (lookup_stream p (streams t)); [now left|congruence].
    + destruct Hin as [Hin|Hin]; [inversion Hin; subst; rewrite pair_eqb_refl in Eqp; discriminate|].
      inversion Ed; subst. apply Later; auto. cbn [streams set_streams].
      rewrite lookup_close_half by apply (own_str_uniq _ _ H). now rewrite Eqp.
Qed.

(* --- the table-release theorem --- *)
Theorem c04_tables_released_lemma t objs order :
  owns t objs -> Permutation objs order ->
  let t' := fst (drop_all t order) in
  let ms := snd (drop_all t order) in
  udp t' = [] /\ tcp t' = [] /\ streams t' = [] /\
  (forall g port, ~ In (g, self t, port) (mcast t')) /\
  (forall g h port, h <> self t -> (In (g, h, port) (mcast t') <-> In (g, h, port) (mcast t))) /\
  (forall p, In (SWrite p false) objs -> lookup_stream p (streams t) <> None ->
     In (MFin (self t) p) ms \/ In (MRst (self t) p) ms) /\
  (forall port syns s, In (port, syns) (tcp t) -> In s syns -> In (MAckDropped (syn_ack s)) ms).
Proof.
  intros H P. pose proof (owns_perm _ _ _ P H) as H'. cbv zeta.
  pose proof (drop_all_owns order t H') as E. destruct (owns_nil_empty _ E) as (E1 & E2 & E3 & E4).
  rewrite drop_all_self in E4.
  repeat split; auto.
  - intros g port Hin. now apply (E4 g (self t) port Hin).
  - apply drop_all_mcast_others; auto.
  - apply drop_all_mcast_others; auto.
  - intros p Hin Hl. apply drop_all_fin_or_rst; auto. eapply Permutation_in; eauto.
  - intros port syns s Hin Hs. eapply drop_all_syns; eauto.
Qed.

(* --- `owns` is established by the socket API (so the theorem is not vacuous) --- *)

Lemma cnt_app {A} (f : A -> bool) l1 l2 : cnt f (l1 ++ l2) = (cnt f l1 + cnt f l2)%nat.
Proof. unfold cnt. now rewrite filter_app, app_length. Qed.

Definition empty_tables (h : N) : tables := {| self := h; udp := []; tcp := []; streams := []; mcast := [] |}.

Lemma owns_empty h : owns (empty_tables h) [].
Proof. constructor; cbn; intros; auto; try discriminate; try contradiction. Qed.

Ltac guard_cons G :=
  let q := fresh "q" in let Hg := fresh "Hg" in
  intros q Hg; rewrite !cnt_cons in *; cbn [is_guard is_half] in *;
  specialize (G q);
  repeat match goal with |- context [pair_eqb ?a ?b] => destruct (pair_eqb a b) eqn:? end;
  try lia.

(* UdpSocket::bind on a free port *)
Lemma owns_udp_bind t objs port :
  owns t objs -> cnt (N.eqb port) (udp t) = 0%nat ->
  owns (set_udp t (udp t ++ [port])) (SUdp port :: objs).
Proof.
  intros [A B C D G E F] Hfree. constructor; cbn [udp tcp streams mcast self set_udp].
  - intro q. rewrite cnt_app, (A q), !cnt_cons. cbn [cnt filter length is_udp].
    rewrite (N.eqb_sym q port). destruct (port =? q); lia.
  - intro q. rewrite cnt_cons. cbn. apply B.
  - exact C.
  - intros p n H. rewrite !cnt_cons. cbn. now apply D.
  - guard_cons G.
  - exact E.
  - intros g q Hin. rewrite cnt_cons. specialize (F g q Hin). lia.
Qed.

(* TcpListener::bind on a free port *)
Lemma owns_tcp_bind t objs port :
  owns t objs -> cnt (fun b => fst b =? port) (tcp t) = 0%nat ->
  owns (set_tcp t (tcp t ++ [(port, [])])) (SListener port :: objs).
Proof.
  intros [A B C D G E F] Hfree. constructor; cbn [udp tcp streams mcast self set_tcp].
  - intro q. rewrite cnt_cons. cbn. apply A.
  - intro q. rewrite cnt_app, (B q), !cnt_cons. cbn [cnt filter length fst is_listener].
    destruct (port =? q); lia.
  - intro q. rewrite cnt_app, cnt_cons. cbn [cnt filter length fst]. specialize (C q).
    destruct (port =? q) eqn:Epq; [|lia]. apply N.eqb_eq in Epq. subst q. lia.
  - intros p n H. rewrite !cnt_cons. cbn. now apply D.
  - guard_cons G.
  - exact E.
  - intros g q Hin. rewrite cnt_cons. specialize (F g q Hin). cbn. lia.
Qed.

(* a SYN delivered to a bound listener is queued *)
Fixpoint push_syn (port : N) (s : syn) (l : list (N * list syn)) : list (N * list syn) :=
  match l with
  | [] => []
  | (q, syns) :: r => if q =? port then (q, syns ++ [s]) :: r else (q, syns) :: push_syn port s r
  end.
Lemma cnt_push_syn port s l q :
  cnt (fun b => fst b =? q) (push_syn port s l) = cnt (fun b => fst b =? q) l.
Proof.
  induction l as [|[x syns] l IH]; cbn [push_syn]; auto.
  destruct (x =? port); rewrite !cnt_cons; cbn [fst]; auto.
Qed.
Lemma owns_syn_queued t objs port s :
  owns t objs -> owns (set_tcp t (push_syn port s (tcp t))) objs.
Proof.
  intros [A B C D G E F]. constructor; cbn [udp tcp streams mcast self set_tcp]; auto;
    intro q; rewrite cnt_push_syn; auto.
Qed.

(* TcpStream::connect registers the pair (ref_ct 2) before the handshake; until
   the SYN-ACK arrives the entry belongs to the ConnectGuard of the future *)
Lemma owns_connect_start t objs p :
  owns t objs -> lookup_stream p (streams t) = None ->
  cnt (is_half p) objs = 0%nat -> cnt (is_guard p) objs = 0%nat ->
  owns (set_streams t ((p, 2%nat) :: streams t)) (SConnGuard p :: objs).
Proof.
  intros [A B C D G E F] Hnone Hz Hg0. constructor; cbn [udp tcp streams mcast self set_streams].
  - intro q. rewrite !cnt_cons. cbn. apply A.
  - intro q. rewrite !cnt_cons. cbn. apply B.
  - exact C.
  - intros q n H. cbn [lookup_stream] in H. rewrite !cnt_cons. cbn [is_half is_guard].
    destruct (pair_eqb p q) eqn:Epq.
    + inversion H; subst n. apply pair_eqb_eq in Epq. subst q. lia.
    + destruct (D q n H). lia.
  - intros q Hq. rewrite !cnt_cons in *. cbn [is_half is_guard] in *.
    destruct (pair_eqb p q) eqn:Epq.
    + apply pair_eqb_eq in Epq. subst q. lia.
    + apply G. lia.
  - intro q. rewrite cnt_cons. cbn [fst]. specialize (E q).
    destruct (pair_eqb p q) eqn:Epq; [|lia]. apply pair_eqb_eq in Epq. subst q.
    apply lookup_cnt in Hnone. lia.
  - intros g q Hin. rewrite !cnt_cons. specialize (F g q Hin). cbn. lia.
Qed.

(* accept (or a completed connect): the pair is registered with ref_ct 2 and the
   TcpStream (two halves) goes to the task *)
Lemma owns_new_stream t objs p :
  owns t objs -> lookup_stream p (streams t) = None ->
  cnt (is_half p) objs = 0%nat -> cnt (is_guard p) objs = 0%nat ->
  owns (set_streams t ((p, 2%nat) :: streams t)) (SRead p false false :: SWrite p false :: objs).
Proof.
  intros [A B C D G E F] Hnone Hz Hg0. constructor; cbn [udp tcp streams mcast self set_streams].
  - intro q. rewrite !cnt_cons. cbn. apply A.
  - intro q. rewrite !cnt_cons. cbn. apply B.
  - exact C.
  - intros q n H. cbn [lookup_stream] in H. rewrite !cnt_cons. cbn [is_half is_guard].
    destruct (pair_eqb p q) eqn:Epq.
    + inversion H; subst n. apply pair_eqb_eq in Epq. subst q. lia.
    + destruct (D q n H). lia.
  - intros q Hq. rewrite !cnt_cons in *. cbn [is_half is_guard] in *.
    destruct (pair_eqb p q) eqn:Epq.
    + apply pair_eqb_eq in Epq. subst q. lia.
    + apply G. lia.
  - intro q. rewrite cnt_cons. cbn [fst]. specialize (E q).
    destruct (pair_eqb p q) eqn:Epq; [|lia]. apply pair_eqb_eq in Epq. subst q.
    apply lookup_cnt in Hnone. lia.
  - intros g q Hin. rewrite !cnt_cons. specialize (F g q Hin). cbn. lia.
Qed.

(* a RST from the peer removes the entry; the halves keep existing and own nothing *)
Lemma owns_rst_received t objs p :
  owns t objs -> owns (set_streams t (remove_stream p (streams t))) objs.
Proof.
  intros [A B C D G E F]. constructor; cbn [udp tcp streams mcast self set_streams]; auto.
  - intros q n H. rewrite lookup_remove_stream in H by apply E.
    destruct (pair_eqb p q); [discriminate|]. now apply D.
  - intro q. pose proof (cnt_remove_stream_le p (streams t) q). specialize (E q). lia.
Qed.

(* join_multicast on a live UdpSocket *)
Lemma owns_join t objs g port :
  owns t objs -> (1 <= cnt (is_udp port) objs)%nat ->
  owns (set_mcast t ((g, self t, port) :: mcast t)) objs.
Proof.
  intros [A B C D G E F] Hs. constructor; cbn [udp tcp streams mcast self set_mcast]; auto.
  intros g' q [Hin|Hin]; [inversion Hin; subst; exact Hs|eauto].
Qed.

(* --- the stack of a crashed host (empty tables, /repo 2342d63) --- *)

Definition crashed_reply (m : inbound) : reply :=
  match m with
  | ISyn _ _ => RRefused | IData _ | IFin _ => RReset | IRst _ => RRemoved | IUdp _ => RDropped
  end.

Lemma receive_empty t m :
  udp t = [] -> tcp t = [] -> streams t = [] ->
  receive t m = (t, crashed_reply m).
Proof.
  intros Hu Ht Hs. destruct m as [port s|p|p|p|port]; cbn; rewrite ?Hu, ?Ht, ?Hs; cbn; auto.
  destruct t; cbn in *; subst; reflexivity.
Qed.

(* after all sockets of a host have been released (in any order), whatever
   arrives for it — any number of messages — leaves its tables empty, queues
   nothing, delivers nothing: SYNs are refused, data and FINs are answered with
   a RST, datagrams are dropped *)
Theorem c04_crashed_stack_answers_lemma t objs order msgs :
  owns t objs -> Permutation objs order ->
  let t0 := fst (drop_all t order) in
  fst (fold_left (fun acc m => (fst (receive (fst acc) m), snd acc ++ [snd (receive (fst acc) m)]))
                 msgs (t0, [])) = t0 /\
  snd (fold_left (fun acc m => (fst (receive (fst acc) m), snd acc ++ [snd (receive (fst acc) m)]))
                 msgs (t0, [])) = map crashed_reply msgs.
Proof.
  intros H P. cbv zeta.
  destruct (c04_tables_released_lemma t objs order H P) as (Hu & Ht & Hs & _).
  set (t0 := fst (drop_all t order)) in *.
  assert (G : forall msgs acc, fst acc = t0 ->
            fst (fold_left (fun acc m => (fst (receive (fst acc) m), snd acc ++ [snd (receive (fst acc) m)])) msgs acc) = t0 /\
            snd (fold_left (fun acc m => (fst (receive (fst acc) m), snd acc ++ [snd (receive (fst acc) m)])) msgs acc)
              = snd acc ++ map crashed_reply msgs).
  { induction msgs0 as [|m ms IH]; intros acc Ha; cbn.
    - now rewrite app_nil_r.
    - rewrite Ha, (receive_empty t0 m Hu Ht Hs). cbn [fst snd].
      destruct (IH (t0, snd acc ++ [crashed_reply m]) eq_refl) as (A & B).
      split; [exact A|]. rewrite B. cbn [snd]. now rewrite <- app_assoc. }
  destruct (G msgs (t0, []) eq_refl) as (A & B). split; [exact A|exact B].
Qed.

(* the `crashed` flag of the core: set by Sim::crash exactly for hosts whose
   software was running (a finished host is not "crashed": nothing is drained
   for it), cleared by bounce, untouched by steps *)
Theorem c04_crashed_flag_lemma d r :
  (running r = true -> crashed (crash1 r) = true) /\
  (running r = false -> crashed (crash1 r) = crashed r) /\
  crashed (bounce1 r) = false /\
  crashed (adv d r) = crashed r /\
  crashed (new_rt (is_client r) (sw r) d) = false /\
  crash1 (crash1 r) = crash1 r /\
  (crashed r = true -> crashed (crash1 r) = true).
Proof.
  split; [cbn; intros ->; reflexivity|]. split; [cbn; intros ->; reflexivity|].
  split; [reflexivity|]. split.
  - unfold adv. destruct (running r) eqn:E; [|reflexivity].
    destruct (rt_tick_fst_running r E) as [b ->]. reflexivity.
  - split; [reflexivity|]. split; [reflexivity|]. cbn. intros ->. apply orb_true_r.
Qed.

(* --- loopback streams at crash: nothing for the host itself is put on the wire --- *)
Lemma on_wire_spec me ms m :
  In m (on_wire me ms) <-> In m ms /\ to_self me m = false.
Proof. unfold on_wire. rewrite filter_In, negb_true_iff. tauto. Qed.

Theorem c04_loopback_silent_lemma t objs order p :
  owns t objs -> Permutation objs order -> rhost p = self t ->
  let ms := on_wire (self t) (snd (drop_all t order)) in
  ~ In (MFin (self t) p) ms /\ ~ In (MRst (self t) p) ms /\
  streams (fst (drop_all t order)) = [].
Proof.
  intros H P Hp. cbv zeta. repeat split.
  - rewrite on_wire_spec. intros [_ E]. cbn in E. rewrite Hp, N.eqb_refl in E. discriminate.
  - rewrite on_wire_spec. intros [_ E]. cbn in E. rewrite Hp, N.eqb_refl in E. discriminate.
  - now destruct (c04_tables_released_lemma t objs order H P) as (_ & _ & Hs & _).
Qed.
