(* Property C11 — Sim::run succeeds exactly when every client finished Ok in
   time.  Statements only; proofs in C11_proofs.v.  See DESIGN.md section 5 (C11).

   Reading guide.  A software is an arbitrary function from the local poll index
   to the state of its JoinHandle after that Rt::tick (Pend / Ok_ / Err_ /
   Panic_); `outcome_at r j` is what r's handle shows after the j-th step from
   now, `pend_before r j` that it is still pending during the j steps before,
   `done_ok_within r M` that it completes with Ok in one of the next M steps,
   `fails_at r j` that it returns Err (or panics) in step j.  None of these
   mentions the loop of Sim::run.  Every theorem holds for every state (any
   history of registrations, earlier runs, crashes and bounces), every mix of
   software and every host-order oracle `orc` (random_node_order on or off). *)
From TV.Lib Require Import Base.
From TV.SimCore Require Import Model Facts C11_proofs.
Open Scope N_scope.

(* With a positive tick the loop of Sim::run ends within duration/tick + 2
   iterations.  (With tick = 0 and an unfinished client it does not end; the
   guard is the hypothesis.) *)
Theorem run_terminates : forall s orc,
  0 < tick s -> rres_of (run s orc) <> RunFuel.
Proof. exact run_terminates_lemma. Qed.

(* Sim::run returns Ok  <->  there is a number of steps M >= 1 such that every
   running client completes with Ok within the first M steps, no running
   software (client or host) returns Err or panics within them, and none of the
   steps before the M-th ended beyond the configured duration. *)
Theorem c11_ok_iff : forall s orc,
  0 < tick s -> existsb is_client (rts s) = true ->
  (rres_of (run s orc) = RunOk <->
   exists M, (1 <= M)%nat /\
     Forall (fun r => running r = true -> is_client r = true -> done_ok_within r M) (rts s) /\
     Forall (fun r => running r = true -> forall j, (j < M)%nat -> ~ fails_at r j) (rts s) /\
     (M = 1%nat \/ elapsed s + N.of_nat (M - 1) * tick s <= duration s)).
Proof. exact c11_ok_iff_lemma. Qed.

(* ... and then the number of steps made is the least such M. *)
Theorem c11_ok_steps : forall s orc,
  existsb is_client (rts s) = true -> rres_of (run s orc) = RunOk ->
  spec_ok s (nsteps_of (run s orc)) /\
  forall M, spec_ok s M -> (nsteps_of (run s orc) <= M)%nat.
Proof. exact c11_ok_steps_lemma. Qed.

(* Without a registered client Sim::run returns Ok at once, without a step. *)
Theorem c11_no_clients : forall s orc,
  existsb is_client (rts s) = false -> run s orc = (s, RunOk, 0%nat, []).
Proof. exact c11_no_clients_lemma. Qed.

(* "As soon as": a run that fails with a software error (or panic) stops in the
   very step m+1 in which the first software fails; nothing failed before; the
   clock shows the m completed steps. *)
Theorem c11_err_asap : forall s orc,
  (rres_of (run s orc) = RunErr \/ rres_of (run s orc) = RunPanic) ->
  exists m r,
    nsteps_of (run s orc) = S m /\ In r (rts s) /\ running r = true /\ fails_at r m /\
    (forall r', In r' (rts s) -> running r' = true -> forall j, (j < m)%nat -> ~ fails_at r' j) /\
    elapsed (state_of (run s orc)) = elapsed s + N.of_nat m * tick s /\
    (m = 0%nat \/ elapsed s + N.of_nat m * tick s <= duration s).
Proof. exact c11_err_asap_lemma. Qed.

(* The duration error comes in the first step that ends beyond the duration
   (the step before it did not), with a client still pending and no software
   failure so far. *)
Theorem c11_timeout_asap : forall s orc,
  rres_of (run s orc) = RunTimeout ->
  exists m r,
    nsteps_of (run s orc) = S m /\
    duration s < elapsed s + N.of_nat (S m) * tick s /\
    (m = 0%nat \/ elapsed s + N.of_nat m * tick s <= duration s) /\
    In r (rts s) /\ running r = true /\ is_client r = true /\ pend_before r (S m) /\
    (forall r', In r' (rts s) -> running r' = true -> forall j, (j <= m)%nat -> ~ fails_at r' j) /\
    elapsed (state_of (run s orc)) = elapsed s + N.of_nat (S m) * tick s.
Proof. exact c11_timeout_asap_lemma. Qed.

(* The result class (Ok / software failure / duration), the number of steps and
   the final clock are the same for every two order oracles; unless a software
   failed the whole final state is the same.  (An Err and a panic in the same
   step: which of the two surfaces depends on the order, hence the class.) *)
Theorem c11_order_independent : forall s o1 o2,
  rclass (rres_of (run s o1)) = rclass (rres_of (run s o2)) /\
  nsteps_of (run s o1) = nsteps_of (run s o2) /\
  (rclass (rres_of (run s o1)) <> 1 -> state_of (run s o1) = state_of (run s o2)) /\
  elapsed (state_of (run s o1)) = elapsed (state_of (run s o2)).
Proof. exact c11_order_independent_lemma. Qed.

(* Host software that never finishes (or finishes Ok) does not prevent success. *)
Theorem c11_hosts_dont_block : forall s orc M,
  0 < tick s -> existsb is_client (rts s) = true -> (1 <= M)%nat ->
  (forall r, In r (rts s) -> running r = true -> is_client r = true -> done_ok_within r M) ->
  (forall r, In r (rts s) -> running r = true -> is_client r = false ->
     forall j, (j < M)%nat -> outcome_at r j = Pend \/ outcome_at r j = Ok_) ->
  (M = 1%nat \/ elapsed s + N.of_nat (M - 1) * tick s <= duration s) ->
  rres_of (run s orc) = RunOk.
Proof. exact c11_hosts_dont_block_lemma. Qed.

(* Software that is not running (finished or crashed) is not polled by any
   event: its poll counter and start counter do not move, it stays stopped, and
   no clock read of it appears — unless the event is a Bounce naming it. *)
Theorem c11_no_repoll : forall s e j r,
  nth_error (rts s) j = Some r -> running r = false ->
  exists r', nth_error (rts (fst (apply s e))) j = Some r' /\
    ((running r' = false /\ polls r' = polls r /\ starts r' = starts r) \/
     (exists hs, e = Bounce hs /\ In j hs)) /\
    (forall o, In o (obs_log (snd (apply s e))) -> o_host o <> j).
Proof. exact c11_no_repoll_lemma. Qed.

(* Sim::step is consistent with Sim::run: a run of n steps is exactly n calls
   of step with the same oracle — same final state and clock reads — whose
   results are Ok(false) n-1 times and then the result of the run
   (Ok(true) for Ok, the error for an error). *)
Theorem c11_step_consistent : forall s orc,
  0 < tick s -> existsb is_client (rts s) = true ->
  exists m last,
    nsteps_of (run s orc) = S m /\
    iter_steps (S m) orc 0 s [] =
      (state_of (run s orc), repeat (ROk false) m ++ [last], snd (run s orc)) /\
    final_matches last (rres_of (run s orc)).
Proof. exact c11_step_consistent_lemma. Qed.

(* Non-vacuity: two clients (done after 2 and 4 polls), one host that never
   finishes, one that finishes Ok: Ok after exactly 4 steps when the duration
   allows 3 full steps before the last one, the duration error when it does
   not, a software error in step 3 when a host returns Err there. *)
Definition sw_done (k : nat) (o : outcome) : software :=
  {| prog := fun j => if (j <? k)%nat then Pend else o; reads := fun _ => [] |}.
Definition st0 (dur : N) (h : outcome) : state :=
  exec (init 2 2 dur 0)
    [AddHost (fun _ => sw_done 0 Pend); AddClient (sw_done 1 Ok_); AddHost (fun _ => sw_done 2 h);
     AddClient (sw_done 3 Ok_)].
Definition orc0 : nat -> list nat := fun i => if Nat.even i then [3; 2; 1; 0]%nat else [].
Example c11_nonvacuous :
  (rres_of (run (st0 6 Ok_) orc0), nsteps_of (run (st0 6 Ok_) orc0)) = (RunOk, 4%nat) /\
  spec_ok (st0 6 Ok_) 4 /\ ~ spec_ok (st0 6 Ok_) 3 /\
  (rres_of (run (st0 5 Ok_) orc0), nsteps_of (run (st0 5 Ok_) orc0)) = (RunTimeout, 3%nat) /\
  (rres_of (run (st0 6 Err_) orc0), nsteps_of (run (st0 6 Err_) orc0)) = (RunErr, 3%nat).
Proof.
  split; [vm_compute; reflexivity|]. split.
  - change 4%nat with (nsteps_of (run (st0 6 Ok_) orc0)).
    apply (proj1 (c11_ok_steps (st0 6 Ok_) orc0 eq_refl eq_refl)).
  - split; [|split; vm_compute; reflexivity].
    intro H. pose proof (proj2 (c11_ok_steps (st0 6 Ok_) orc0 eq_refl eq_refl) 3%nat H) as C.
    vm_compute in C. lia.
Qed.

Check c11_ok_iff : forall s orc,
  0 < tick s -> existsb is_client (rts s) = true ->
  (rres_of (run s orc) = RunOk <->
   exists M, (1 <= M)%nat /\
     Forall (fun r => running r = true -> is_client r = true -> done_ok_within r M) (rts s) /\
     Forall (fun r => running r = true -> forall j, (j < M)%nat -> ~ fails_at r j) (rts s) /\
     (M = 1%nat \/ elapsed s + N.of_nat (M - 1) * tick s <= duration s)).

Print Assumptions run_terminates.
Print Assumptions c11_ok_iff.
Print Assumptions c11_ok_steps.
Print Assumptions c11_no_clients.
Print Assumptions c11_err_asap.
Print Assumptions c11_timeout_asap.
Print Assumptions c11_order_independent.
Print Assumptions c11_hosts_dont_block.
Print Assumptions c11_no_repoll.
Print Assumptions c11_step_consistent.
Print Assumptions c11_nonvacuous.
