(* Property C11 — Sim::run succeeds exactly when every client finished Ok in
   time.  Statements only; proofs in C11_proofs.v.  See DESIGN.md section 5 (C11). *)
From TV.Lib Require Import Base.
From TV.SimCore Require Import Model Facts C11_proofs.
Open Scope N_scope.

(* With a positive tick the loop of Sim::run ends within duration/tick + 2
   iterations (the fuel of the model is never exhausted), for every state,
   every mix of software and every host-order oracle. *)
Theorem run_terminates : forall s orc,
  0 < tick s -> snd (fst (fst (run s orc))) <> RunFuel.
Proof. exact run_terminates_lemma. Qed.

Print Assumptions run_terminates.
