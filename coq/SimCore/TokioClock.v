(* TV.SimCore.TokioClock — ASSUMED environment model (modelled, NOT verified):
   the behaviour of a paused tokio current-thread runtime (tokio 1.x,
   `start_paused(true)`, test-util auto-advance) as far as the simulation core
   depends on it.  Nothing here is transcribed from /repo; it describes tokio
   and is validated only by the correspondence check (family simcore).

   Assumptions, in words:
   A1  After `rt::init` (which sleeps 1 ms once) the runtime clock is aligned to
       the 1 ms grid of the timer wheel; call that instant clk = 0.
   A2  A timer with deadline D fires when the wheel reaches ceil_ms(D); with
       auto-advance the clock jumps from one wheel expiration to the next, so
       the clock only ever takes whole-millisecond values and a task that
       executed `sleep(d)` at clock c is polled again at clock cms(c + d).
   A3  `Rt::tick(tick)` = `block_on(local.run_until(sleep(tick)))` started at
       clock c returns at clock cms(c + tick); `run_until` polls its own sleep
       first, so a task whose wake-up instant equals the end of the window is
       polled at the start of the NEXT window.  Hence the window of the j-th
       tick of an incarnation is [j*W, (j+1)*W) with W = cms tick.
   A4  `timeout(limit, sleep(inner))` started at c completes at
       min(cms(c+inner), cms(c+limit)), Ok iff cms(c+inner) <= cms(c+limit);
       `interval(p)` started at c ticks at cms(c + i*p), i = 0, 1, ..
   A5  Tasks of one host do not influence each other's wake-up instants (they
       only sleep), and a panic in any task of the LocalSet makes `Rt::tick`
       panic in the tick whose window contains the panic
       (`UnhandledPanic::ShutdownRuntime`, requires --cfg tokio_unstable).
   A6  HostTimer::elapsed() = elapsed + now.elapsed() is only meaningful while
       the host's paused clock is the current tokio clock, i.e. for reads made
       by host code during its own Rt::tick.  Outside a runtime context (the
       controller between steps, destructors run by Sim::crash after the
       runtime is gone) tokio's Instant::elapsed falls back to the wall clock;
       such reads are outside the model (defect of that kind in Sim::step:
       /repo 9eeda06).  read_obs records only cover reads of kind A6-valid.
   No proofs in this file. *)
From TV.Lib Require Import Base.
From TV.SimCore Require Import Model.
Open Scope N_scope.

Definition ms : N := 1000000.
Definition cms (x : N) : N := ((x + (ms - 1)) / ms) * ms.     (* round up to the wheel grid *)

(* A2/A3: advance of the paused clock during one Rt::tick *)
Definition wtick_of (tick : N) : N := cms tick.

Inductive op :=
| Sleep (d : N)                    (* tokio::time::sleep(d).await *)
| Obs                              (* read elapsed / sim_elapsed / since_epoch / Instant *)
| Timeout (limit inner : N)        (* timeout(limit, sleep(inner)).await, result recorded *)
| Interval (period : N) (n : nat). (* n ticks of interval(period), each recorded *)

(* tag of a record: task id, index of the op, aux (0 obs, 1 timeout Ok, 2 timeout
   Elapsed, 3 interval tick) *)
Definition mk_tag (tid k aux : N) : N := (tid * 1000 + k) * 4 + aux.

Fixpoint interval_events (tid k c p : N) (i : N) (n : nat) : list (N * N) :=
  match n with
  | O => []
  | S n' => (mk_tag tid k 3, cms (c + i * p)) :: interval_events tid k c p (i + 1) n'
  end.

(* records (tag, clock) of a task first polled at clock c, and the clock at
   which it has executed all its ops *)
Fixpoint task_events (tid k c : N) (ops : list op) : list (N * N) * N :=
  match ops with
  | [] => ([], c)
  | Sleep d :: r => task_events tid (k + 1) (cms (c + d)) r
  | Obs :: r => let '(l, e) := task_events tid (k + 1) c r in ((mk_tag tid k 0, c) :: l, e)
  | Timeout lim inn :: r =>
      let ci := cms (c + inn) in
      let cl := cms (c + lim) in
      let c' := N.min ci cl in
      let '(l, e) := task_events tid (k + 1) c' r in
      ((mk_tag tid k (if ci <=? cl then 1 else 2), c') :: l, e)
  | Interval p n :: r =>
      let c' := match n with O => c | S m => cms (c + N.of_nat m * p) end in
      let '(l, e) := task_events tid (k + 1) c' r in
      (interval_events tid k c p 0 n ++ l, e)
  end.

Record task := { t_ops : list op; t_panics : bool }.
Record script := {
  s_main : list op;
  s_end : outcome;          (* Pend = the main future never returns *)
  s_tasks : list task;      (* spawned by the main future at its first poll *)
  s_ticker : bool           (* a spawned `loop { obs; sleep(tick) }` *)
}.

Definition ticker_tag : N := mk_tag 999 0 0.

Fixpoint tasks_events (tid : N) (ts : list task) : list (N * N) :=
  match ts with
  | [] => []
  | t :: r => fst (task_events tid 0 0 (t_ops t)) ++ tasks_events (tid + 1) r
  end.

Fixpoint tasks_panics (w : N) (ts : list task) : list N :=
  match ts with
  | [] => []
  | t :: r =>
      if t_panics t then snd (task_events 0 0 0 (t_ops t)) / w :: tasks_panics w r
      else tasks_panics w r
  end.

Definition end_tag : N := mk_tag 998 0 0.    (* written when the main future completes *)

Definition all_events (sc : script) : list (N * N) :=
  fst (task_events 0 0 0 (s_main sc)) ++
  (match s_end sc with Pend => [] | _ => [(end_tag, snd (task_events 0 0 0 (s_main sc)))] end) ++
  tasks_events 1 (s_tasks sc).

(* The software seen by the simulation core when the host runs `sc` with
   tick `tick` (A3, A5). *)
Definition sw_of_script (tick : N) (sc : script) : software :=
  let w := wtick_of tick in
  let jm := snd (task_events 0 0 0 (s_main sc)) / w in
  let ps := tasks_panics w (s_tasks sc) in
  {| prog := fun j =>
       let jn := N.of_nat j in
       if existsb (N.eqb jn) ps then Panic_
       else if jn <? jm then Pend
       else s_end sc;
     reads := fun j =>
       let jn := N.of_nat j in
       (if s_ticker sc then [(ticker_tag, 0)] else []) ++
       map (fun tc => (fst tc, snd tc - jn * w))
           (filter (fun tc => snd tc / w =? jn) (all_events sc)) |}.

Definition host_sw (tick : N) (scs : list script) (dflt : script) : nat -> software :=
  fun inc => sw_of_script tick (nth inc scs dflt).
