(* TV.SimCore.Tables — model of the socket tables of one host and of the
   destructors of the socket objects its tasks own, for the table-release part
   of property C04.  No proofs in this file (they are in C04_proofs.v).

   Transcribed from crates/turmoil/src/host.rs (Udp::unbind, Tcp::unbind,
   Tcp::close_stream_half, Tcp::reset_stream, Tcp::assign_send_seq),
   net/udp.rs (impl Drop for UdpSocket, MulticastGroups::leave_all),
   net/tcp/listener.rs (impl Drop for TcpListener),
   net/tcp/stream.rs (impl Drop for ReadHalf, impl Drop for WriteHalf,
   impl Drop for ConnectGuard).

     tables.udp      = Host.udp.binds                (keys: ports)
     tables.tcp      = Host.tcp.binds                (port, queued (Syn, origin) deque;
                                                      a Syn carries the oneshot `ack` sender, ghost id here)
     tables.streams  = Host.tcp.sockets              (SocketPair -> ref_ct)
     tables.mcast    = World.multicast_groups        ((group, port) -> members (host, port)),
                                                      flattened to (group, member host, member port)
   Socket objects live in the host's tasks; Sim::crash drops the runtime with
   the host set as current, so every object's destructor runs, in an order the
   model does not fix (the theorem is for every order).
   The order inside IndexMaps is not modelled (only membership matters here).
   What the destructors send is returned as a list of messages. *)
From TV.Lib Require Import Base.
Open Scope N_scope.

Record pair := { lport : N; rhost : N; rport : N }.   (* local port, remote host, remote port *)
Definition pair_eqb (a b : pair) : bool :=
  (lport a =? lport b) && (rhost a =? rhost b) && (rport a =? rport b).

Record syn := { syn_host : N; syn_port : N; syn_ack : N }.

Record tables := {
  self : N;                                 (* this host *)
  udp : list N;
  tcp : list (N * list syn);
  streams : list (pair * nat);
  mcast : list (N * N * N)                  (* group, member host, member port: the WORLD's table *)
}.

Inductive sock :=
| SUdp (port : N)                           (* UdpSocket *)
| SListener (port : N)                      (* TcpListener *)
| SRead (p : pair) (unread closed : bool)   (* ReadHalf: has unread data / FIN already received *)
| SWrite (p : pair) (shut : bool)           (* WriteHalf: FIN already sent *)
| SConnGuard (p : pair).                    (* ConnectGuard of a connect() still waiting for its SYN-ACK:
                                               the entry is registered (ref_ct 2), no TcpStream exists yet *)

Inductive msg :=
| MFin (from : N) (p : pair)                (* Segment::Fin to (rhost p, rport p) *)
| MRst (from : N) (p : pair)                (* Segment::Rst *)
| MAckDropped (ack : N).                    (* the oneshot sender of a queued SYN was dropped: connect() -> ConnectionRefused *)

Definition set_udp t v := {| self := self t; udp := v; tcp := tcp t; streams := streams t; mcast := mcast t |}.
Definition set_tcp t v := {| self := self t; udp := udp t; tcp := v; streams := streams t; mcast := mcast t |}.
Definition set_streams t v := {| self := self t; udp := udp t; tcp := tcp t; streams := v; mcast := mcast t |}.
Definition set_mcast t v := {| self := self t; udp := udp t; tcp := tcp t; streams := streams t; mcast := v |}.

Fixpoint remove_port (port : N) (l : list N) : list N :=
  match l with [] => [] | x :: r => if x =? port then r else x :: remove_port port r end.

Fixpoint remove_bind (port : N) (l : list (N * list syn)) : list (N * list syn) * list syn :=
  match l with
  | [] => ([], [])
  | (q, syns) :: r =>
      if q =? port then (r, syns)
      else let '(r', s) := remove_bind port r in ((q, syns) :: r', s)
  end.

Fixpoint lookup_stream (p : pair) (l : list (pair * nat)) : option nat :=
  match l with
  | [] => None
  | (q, n) :: r => if pair_eqb q p then Some n else lookup_stream p r
  end.

Fixpoint remove_stream (p : pair) (l : list (pair * nat)) : list (pair * nat) :=
  match l with
  | [] => []
  | (q, n) :: r => if pair_eqb q p then r else (q, n) :: remove_stream p r
  end.

(* Tcp::close_stream_half *)
Fixpoint close_half (p : pair) (l : list (pair * nat)) : list (pair * nat) :=
  match l with
  | [] => []
  | (q, n) :: r =>
      if pair_eqb q p then (match n with S (S m) => (q, S m) :: r | _ => r end)
      else (q, n) :: close_half p r
  end.

(* the destructor of one socket object of host `self t` *)
Definition drop_sock (t : tables) (o : sock) : tables * list msg :=
  match o with
  | SUdp port =>
      (* leave_all(member = (host addr, port)), then udp.unbind *)
      (set_udp (set_mcast t (filter (fun gm => negb ((snd (fst gm) =? self t) && (snd gm =? port))) (mcast t)))
               (remove_port port (udp t)), [])
  | SListener port =>
      let '(b, syns) := remove_bind port (tcp t) in
      (set_tcp t b, map (fun s => MAckDropped (syn_ack s)) syns)
  | SRead p unread closed =>
      if negb closed && unread then
        (set_streams t (remove_stream p (streams t)), [MRst (self t) p])     (* RST + reset_stream *)
      else (set_streams t (close_half p (streams t)), [])
  | SWrite p shut =>
      let fin := match lookup_stream p (streams t) with
                 | Some _ => if shut then [] else [MFin (self t) p]            (* seq assignable => FIN *)
                 | None => []
                 end in
      (set_streams t (close_half p (streams t)), fin)
  | SConnGuard p => (set_streams t (remove_stream p (streams t)), [])         (* reset_stream, nothing sent *)
  end.

Fixpoint drop_all (t : tables) (objs : list sock) : tables * list msg :=
  match objs with
  | [] => (t, [])
  | o :: r => let '(t1, m1) := drop_sock t o in let '(t2, m2) := drop_all t1 r in (t2, m1 ++ m2)
  end.

(* What of the destructors' messages reaches a peer when they run WITHOUT a current tokio runtime,
   as they do in Rt::cancel_tasks (the old LocalSet is dropped outside of any runtime context):
   a FIN / RST of a loopback stream (remote = the host itself) goes through send_loopback, which
   returns at once when Handle::try_current() fails — nothing is spawned, nothing is sent.
   (Both ends of a loopback stream are entries of the same host and are released by their own
   objects' destructors.) *)
Definition to_self (me : N) (m : msg) : bool :=
  match m with MFin _ p | MRst _ p => rhost p =? me | MAckDropped _ => false end.
Definition on_wire (me : N) (ms : list msg) : list msg := filter (fun m => negb (to_self me m)) ms.

(* ---- what the host's stack does with a message from the network -------------------------
   Host::receive_from_network / Tcp::receive_from_network / Udp::receive_from_network at
   the level of table look-ups.  Since /repo 2342d63 Sim::step keeps calling it for a
   CRASHED host (all objects dropped, tables empty), with no code of the host running. *)
Inductive inbound :=
| ISyn (port : N) (s : syn)          (* Segment::Syn to a local port *)
| IData (p : pair)                   (* Segment::Data for the stream (local port, remote) *)
| IFin (p : pair)
| IRst (p : pair)
| IUdp (port : N).                   (* a datagram to a local port *)
Inductive reply :=
| RQueued            (* SYN queued at a listener *)
| RRefused           (* no listener: the Syn (and its ack sender) is dropped => ConnectionRefused *)
| RBuffered          (* data / FIN handed to the stream's reorder buffer *)
| RReset             (* no such stream: Err(Segment::Rst) is sent back *)
| RRemoved           (* a RST removed the entry (or there was none) *)
| RDelivered         (* datagram queued at the socket *)
| RDropped.          (* no socket bound to the port *)

Fixpoint has_bind (port : N) (l : list (N * list syn)) : bool :=
  match l with [] => false | (q, _) :: r => (q =? port) || has_bind port r end.
Fixpoint push_syn_at (port : N) (s : syn) (l : list (N * list syn)) : list (N * list syn) :=
  match l with
  | [] => []
  | (q, syns) :: r => if q =? port then (q, syns ++ [s]) :: r else (q, syns) :: push_syn_at port s r
  end.

Definition receive (t : tables) (m : inbound) : tables * reply :=
  match m with
  | ISyn port s =>
      if has_bind port (tcp t) then (set_tcp t (push_syn_at port s (tcp t)), RQueued) else (t, RRefused)
  | IData p | IFin p =>
      match lookup_stream p (streams t) with Some _ => (t, RBuffered) | None => (t, RReset) end
  | IRst p => (set_streams t (remove_stream p (streams t)), RRemoved)
  | IUdp port => if existsb (N.eqb port) (udp t) then (t, RDelivered) else (t, RDropped)
  end.

(* ---- plain-data encoding for the correspondence check ------------------------------ *)
Definition enc_pair (p : pair) : list N := [lport p; rhost p; rport p].
Definition enc_msg (m : msg) : list N :=
  match m with
  | MFin f p => 1 :: f :: enc_pair p
  | MRst f p => 2 :: f :: enc_pair p
  | MAckDropped a => [3; a]
  end.
Definition enc_tables (t : tables) : list (list N) :=
  [udp t; map fst (tcp t); flat_map (fun pn => enc_pair (fst pn)) (streams t);
   flat_map (fun gm => [fst (fst gm); snd (fst gm); snd gm]) (mcast t)].
Definition release_enc (t : tables) (objs : list sock) : list (list N) * list (list N) :=
  let '(t', ms) := drop_all t objs in (enc_tables t', map enc_msg ms).
