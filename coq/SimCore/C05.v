(* Property C05 — virtual clocks advance exactly one tick per step and agree
   with each other.  Statements only; proofs in C05_proofs.v.  See DESIGN.md
   section 5 (C05).

   Two layers.  (1) Theorems about the transcribed simulation core (Model.v):
   Sim::elapsed, every HostTimer, registration offsets, crash / bounce, and what
   host code computes from them (elapsed / sim_elapsed / since_epoch) given the
   offset `off` of a clock read into its step window.  They hold for all
   histories, software and order oracles.  (2) Theorems that additionally use
   TokioClock.v, the ASSUMED model of tokio's paused clock (modelled, not
   verified; validated by the correspondence check): they say which offsets
   occur and when timers fire.

   Findings recorded here (reproduced on the real crate, see known_findings.txt):
   * tick not a whole number of ms: tokio's clock advances ceil_ms(tick) per
     step while HostTimer adds tick, so timers and elapsed() diverge
     (c05_timer_exact_refuted).  Clock reads still fall into the window of
     their step (c05_window_scripted holds for every positive tick).
   * a Sim::step that returns a software error has ticked the hosts polled
     before the failing one but not Sim::elapsed nor the others
     (c05_failed_step_refuted); the theorems below are for histories whose
     steps did not fail that way (`no_failed`). *)
From TV.Lib Require Import Base.
From TV.SimCore Require Import Model Facts TokioClock C05_proofs.
Open Scope N_scope.

(* Every step that does not fail with a software error (Ok(_) or the duration
   error) adds exactly one tick to Sim::elapsed and to the HostTimer of EVERY
   registered host — running, finished or crashed — and leaves offsets alone. *)
Theorem c05_step_advances : forall s order s' res log,
  step s order = (s', res, log) -> clocks_advanced s res ->
  elapsed s' = elapsed s + tick s /\ nsteps s' = nsteps s + 1 /\
  length (rts s') = length (rts s) /\
  forall i r, nth_error (rts s) i = Some r ->
    exists r', nth_error (rts s') i = Some r' /\
      t_elapsed r' = t_elapsed r + tick s /\ t_offset r' = t_offset r.
Proof. exact c05_step_advances_lemma. Qed.

(* For every history of registrations, steps, runs, crashes and bounces without
   a failed step: start_offset + elapsed = Sim::elapsed for every registered
   host, Sim::since_epoch = epoch + Sim::elapsed, Sim::elapsed = steps * tick. *)
Theorem c05_consistent : forall tk w d ep es,
  no_failed (init tk w d ep) es ->
  let s := exec (init tk w d ep) es in
  Forall (fun r => t_offset r + t_elapsed r = elapsed s) (rts s) /\
  since_epoch s = epoch s + elapsed s /\
  elapsed s = nsteps s * tick s.
Proof. exact c05_consistent_lemma. Qed.

(* Every event (failing or not) leaves Sim::elapsed and every HostTimer
   monotone, and never changes an offset, the epoch or the tick. *)
Theorem c05_monotone : forall s e,
  elapsed s <= elapsed (fst (apply s e)) /\
  epoch (fst (apply s e)) = epoch s /\ tick (fst (apply s e)) = tick s /\
  forall j r, nth_error (rts s) j = Some r ->
    exists r', nth_error (rts (fst (apply s e))) j = Some r' /\
      t_elapsed r <= t_elapsed r' /\ t_offset r' = t_offset r.
Proof. exact c05_monotone_lemma. Qed.

(* Crash and Bounce touch no clock: they keep counting across crash/bounce. *)
Theorem c05_crash_bounce_neutral : forall s e,
  (exists hs, e = Crash hs \/ e = Bounce hs) ->
  elapsed (fst (apply s e)) = elapsed s /\ since_epoch (fst (apply s e)) = since_epoch s /\
  length (rts (fst (apply s e))) = length (rts s) /\
  forall j r, nth_error (rts s) j = Some r ->
    exists r', nth_error (rts (fst (apply s e))) j = Some r' /\
      t_elapsed r' = t_elapsed r /\ t_offset r' = t_offset r.
Proof. exact c05_crash_bounce_neutral_lemma. Qed.

(* What host code reads during a step of a consistent state, if its reads
   happen at most one tick after its window started: sim_elapsed = offset +
   elapsed, since_epoch = epoch + sim_elapsed, and both lie in the window of
   that step. *)
Theorem c05_window : forall s order s' res log o,
  step s order = (s', res, log) -> consistent s -> reads_within s -> In o log ->
  exists r, nth_error (rts s) (o_host o) = Some r /\ running r = true /\
    o_sim o = t_offset r + o_elapsed o /\
    o_epoch o = epoch s + o_sim o /\
    elapsed s <= o_sim o <= elapsed s + tick s /\
    t_elapsed r <= o_elapsed o <= t_elapsed r + tick s.
Proof. exact c05_window_lemma. Qed.

(* Under the TokioClock model the premise holds for scripted software and every
   positive tick, whole milliseconds or not (reads are strictly inside). *)
Theorem c05_window_scripted : forall s order s' res log o,
  step s order = (s', res, log) -> consistent s -> scripted s -> In o log ->
  exists r, nth_error (rts s) (o_host o) = Some r /\ running r = true /\
    o_sim o = t_offset r + o_elapsed o /\
    o_epoch o = epoch s + o_sim o /\
    elapsed s <= o_sim o < elapsed s + tick s /\
    t_elapsed r <= o_elapsed o < t_elapsed r + tick s.
Proof. exact c05_window_scripted_lemma. Qed.

(* Timer exactness, part 1 (core): if tokio's clock moves exactly one tick per
   Rt::tick (wtick = tick), then for two clock reads of the same incarnation of
   a host in any two steps — no failed step, no bounce of that host in between,
   anything else allowed — host virtual time and the host's tokio clock have
   advanced by the same amount. *)
Theorem c05_timer_exact : forall s1 ord1 s1' res1 log1 o1 es ord2 s2' res2 log2 o2 h,
  lockstep s1 -> wtick s1 = tick s1 ->
  step s1 ord1 = (s1', res1, log1) -> In o1 log1 -> o_host o1 = h ->
  no_failed s1 (Step ord1 :: es) -> no_bounce_of h es ->
  step (exec s1' es) ord2 = (s2', res2, log2) -> In o2 log2 -> o_host o2 = h ->
  o_inc o2 = o_inc o1 /\
  o_elapsed o2 + o_clk o1 = o_elapsed o1 + o_clk o2 /\
  o_sim o2 + o_clk o1 = o_sim o1 + o_clk o2.
Proof. exact c05_timer_lockstep_lemma. Qed.

(* `lockstep` holds in every state reached without a failed step. *)
Theorem c05_lockstep_reached : forall tk w d ep es,
  no_failed (init tk w d ep) es -> lockstep (exec (init tk w d ep) es).
Proof.
  intros. destruct (init_invariants tk w d ep) as (_ & B & _).
  now apply (inv_exec es _ H).
Qed.

(* Timer exactness, part 2 (TokioClock): with a tick of whole milliseconds the
   tokio clock moves exactly one tick per Rt::tick, and `obs; sleep(d); obs`
   with d whole milliseconds, anywhere in a task, reads tokio clocks c and
   c + d.  Together with part 1: the second read sees elapsed(), sim_elapsed()
   and since_epoch() exactly d later — the timer fires at exactly its virtual
   instant. *)
Theorem c05_wtick_whole : forall tk, tk mod ms = 0 -> wtick_of tk = tk.
Proof. exact wtick_whole. Qed.

Theorem c05_tokio_sleep_exact : forall tid pre d post,
  d mod ms = 0 ->
  exists c l1 l2,
    c mod ms = 0 /\
    fst (task_events tid 0 0 (pre ++ Obs :: Sleep d :: Obs :: post)) =
      l1 ++ (mk_tag tid (N.of_nat (length pre)) 0, c) ::
            (mk_tag tid (N.of_nat (length pre) + 2) 0, c + d) :: l2.
Proof. exact tokio_sleep_exact. Qed.

(* Timer exactness, composed (core + TokioClock): tick of whole milliseconds,
   a scripted host whose main future contains `.. obs; sleep(d); obs ..` with d
   whole milliseconds; the two reads may lie any number of steps apart, with
   registrations, runs, crashes and bounces of OTHER hosts in between, no failed
   step, no bounce of this host.  The second read sees elapsed(), sim_elapsed()
   and since_epoch() exactly d later: the timer fired at exactly its virtual
   instant.  (small_script: fewer than 1000 ops per task, so that the tags that
   identify the reads are unambiguous.) *)
Theorem c05_timer_exact_scripted :
  forall s1 ord1 s1' res1 log1 o1 es ord2 s2' res2 log2 o2 h r1 scs pre d post,
  lockstep s1 -> wtick s1 = wtick_of (tick s1) -> tick s1 mod ms = 0 -> 0 < tick s1 ->
  step s1 ord1 = (s1', res1, log1) -> In o1 log1 -> o_host o1 = h ->
  nth_error (rts s1) h = Some r1 ->
  (forall inc, sw r1 inc = sw_of_script (tick s1) (scs inc)) ->
  small_script (scs (o_inc o1)) ->
  s_main (scs (o_inc o1)) = pre ++ Obs :: Sleep d :: Obs :: post -> d mod ms = 0 ->
  o_tag o1 = mk_tag 0 (N.of_nat (length pre)) 0 ->
  o_tag o2 = mk_tag 0 (N.of_nat (length pre) + 2) 0 ->
  no_failed s1 (Step ord1 :: es) -> no_bounce_of h es ->
  step (exec s1' es) ord2 = (s2', res2, log2) -> In o2 log2 -> o_host o2 = h ->
  o_elapsed o2 = o_elapsed o1 + d /\ o_sim o2 = o_sim o1 + d /\ o_epoch o2 = o_epoch o1 + d.
Proof. exact c05_timer_exact_scripted_lemma. Qed.

(* ---- witnesses ------------------------------------------------------------------ *)

Definition all_logs (s : state) (es : list ev) : list read_obs := flat_map obs_log (exec_obs s es).

Definition sc_sleep3 : script :=
  {| s_main := [Obs; Sleep (3 * ms); Obs]; s_end := Ok_; s_tasks := []; s_ticker := false |}.
Definition hist_sleep3 (tk : N) : list ev :=
  [AddHost (host_sw tk [sc_sleep3] sc_sleep3); Step [0%nat]; Step [0%nat]; Step [0%nat]; Step [0%nat]].
Definition reads_of_tag (tk : N) (tag : N) : list (N * N) :=
  map (fun o => (o_clk o, o_elapsed o))
      (filter (fun o => o_tag o =? tag) (all_logs (init tk (wtick_of tk) (1000 * ms) 0) (hist_sleep3 tk))).

(* Finding "tick not a multiple of 1 ms": with a 700 us tick a 3 ms sleep spans
   3 ms of the tokio clock but only 2.1 ms of elapsed(). *)
Example c05_timer_exact_refuted :
  reads_of_tag 700000 (mk_tag 0 0 0) = [(0, 0)] /\
  reads_of_tag 700000 (mk_tag 0 2 0) = [(3 * ms, 2100000)].
Proof. split; vm_compute; reflexivity. Qed.

(* Finding "failed step": the host polled before the failing client has been
   ticked, Sim::elapsed has not. *)
Definition sw_const (o : outcome) : software := {| prog := fun _ => o; reads := fun _ => [] |}.
Definition hist_failed : list ev :=
  [AddHost (fun _ => sw_const Pend); AddClient (sw_const Err_); Step [0%nat; 1%nat]].
Example c05_failed_step_refuted :
  let s := exec (init (2 * ms) (2 * ms) (1000 * ms) 0) hist_failed in
  elapsed s = 0 /\ map (fun r => t_offset r + t_elapsed r) (rts s) = [2 * ms; 0] /\
  ~ no_failed (init (2 * ms) (2 * ms) (1000 * ms) 0) hist_failed.
Proof.
  cbv zeta. split; [vm_compute; reflexivity|]. split; [vm_compute; reflexivity|].
  intros (_ & _ & H & _). vm_compute in H. discriminate.
Qed.

(* A simulation with nothing registered yet: step still moves the clock (there is
   no early return for an empty simulation), so a node registered after five
   empty steps of 7 ms starts at sim time 35 ms. *)
Example c05_empty_sim_steps :
  let s0 := init (7 * ms) (7 * ms) (1000 * ms) 0 in
  let s5 := exec s0 [Step []; Step []; Step []; Step []; Step []] in
  elapsed s5 = 35 * ms /\ nsteps s5 = 5 /\
  (forall order, elapsed (fst (fst (step s0 order))) = 7 * ms /\ snd (fst (step s0 order)) = ROk true) /\
  map t_offset (rts (exec s5 [AddHost (fun _ => sw_const Pend)])) = [35 * ms].
Proof.
  cbv zeta. split; [vm_compute; reflexivity|]. split; [vm_compute; reflexivity|]. split.
  - intro order. unfold step. cbn [rts init]. unfold eff_order. cbn [running_ids running_ids_from filter app].
    assert (E : filter (is_running_at []) (dedup order) = []).
    { induction (dedup order) as [|x l IH]; cbn; auto. destruct x; cbn; exact IH. }
    rewrite E. cbn. split; reflexivity.
  - vm_compute. reflexivity.
Qed.

(* Non-vacuity: a history with a late-registered client, a crash and a bounce
   has no failed step, its reads are where the theorems say (3 ms sleep = 3 ms
   of elapsed() with a 1 ms tick; the bounced host's second incarnation starts
   reading at elapsed 4 ms, sim_elapsed 4 ms; the late client at elapsed 0 /
   sim_elapsed 2 ms), and the hypotheses of c05_timer_exact are met. *)
Definition sc_obs : script := {| s_main := [Obs]; s_end := Pend; s_tasks := []; s_ticker := false |}.
Definition hist_nv : list ev :=
  [AddHost (host_sw ms [sc_sleep3; sc_obs] sc_obs); Step [0%nat]; Step [0%nat];
   AddClient (sw_of_script ms sc_obs); Crash [0%nat]; Step [1%nat]; Step [1%nat]; Bounce [0%nat];
   Step [0%nat; 1%nat]; Step [1%nat; 0%nat]].
Example c05_nonvacuous :
  let s0 := init ms (wtick_of ms) (1000 * ms) 7 in
  no_failed s0 hist_nv /\
  map (fun o => (o_host o, o_inc o, o_elapsed o, o_sim o, o_epoch o)) (all_logs s0 hist_nv) =
    [(0%nat, 0%nat, 0, 0, 7); (1%nat, 0%nat, 0, 2 * ms, 7 + 2 * ms); (0%nat, 1%nat, 4 * ms, 4 * ms, 7 + 4 * ms)] /\
  elapsed (exec s0 hist_nv) = 6 * ms /\
  reads_of_tag ms (mk_tag 0 2 0) = [(3 * ms, 3 * ms)] /\
  wtick s0 = tick s0 /\ scripted (exec s0 (firstn 1 hist_nv)).
Proof.
  cbv zeta. split.
  - cbn [no_failed hist_nv]. repeat (split; [vm_compute; reflexivity|]). exact I.
  - split; [vm_compute; reflexivity|]. split; [vm_compute; reflexivity|].
    split; [vm_compute; reflexivity|]. split; [vm_compute; reflexivity|].
    split; [reflexivity|]. split; [vm_compute; reflexivity|].
    constructor; [|constructor]. intro inc. cbn. eexists. reflexivity.
Qed.

Check c05_consistent : forall tk w d ep es,
  no_failed (init tk w d ep) es ->
  let s := exec (init tk w d ep) es in
  Forall (fun r => t_offset r + t_elapsed r = elapsed s) (rts s) /\
  since_epoch s = epoch s + elapsed s /\
  elapsed s = nsteps s * tick s.

Print Assumptions c05_step_advances.
Print Assumptions c05_consistent.
Print Assumptions c05_monotone.
Print Assumptions c05_crash_bounce_neutral.
Print Assumptions c05_window.
Print Assumptions c05_window_scripted.
Print Assumptions c05_timer_exact.
Print Assumptions c05_lockstep_reached.
Print Assumptions c05_wtick_whole.
Print Assumptions c05_tokio_sleep_exact.
Print Assumptions c05_timer_exact_scripted.
Print Assumptions c05_timer_exact_refuted.
Print Assumptions c05_failed_step_refuted.
Print Assumptions c05_empty_sim_steps.
Print Assumptions c05_nonvacuous.
