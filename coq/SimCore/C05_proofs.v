(* TV.SimCore.C05_proofs — virtual clocks (property C05). *)
From TV.Lib Require Import Base.
From TV.SimCore Require Import Model Facts TokioClock.
Open Scope N_scope.

(* ---- per-rt clock facts ------------------------------------------------------- *)

Lemma adv_t_elapsed d r : t_elapsed (adv d r) = t_elapsed r + d.
Proof.
  unfold adv. destruct (running r) eqn:E; [|reflexivity].
  destruct (rt_tick_fst_running r E) as [b ->]. reflexivity.
Qed.

Lemma adv_t_offset d r : t_offset (adv d r) = t_offset r.
Proof. apply (ev_offset _ _ _ (rt_evolves_adv d r)). Qed.

Lemma adv_inc_base d r : inc_base (adv d r) = inc_base r.
Proof. apply (ev_base _ _ _ (rt_evolves_adv d r)). Qed.

(* ---- every successful step advances every clock by exactly one tick ------------- *)

Definition clocks_advanced (s : state) (res : sres) : Prop :=
  match res with ROk _ | RTimeout => True | RErr | RPanic => False end.

Theorem c05_step_advances_lemma s order s' res log :
  step s order = (s', res, log) -> clocks_advanced s res ->
  elapsed s' = elapsed s + tick s /\ nsteps s' = nsteps s + 1 /\
  length (rts s') = length (rts s) /\
  forall i r, nth_error (rts s) i = Some r ->
    exists r', nth_error (rts s') i = Some r' /\
      t_elapsed r' = t_elapsed r + tick s /\ t_offset r' = t_offset r.
Proof.
  intros H C. destruct (step_res_cases _ _ _ _ _ H) as [(A & -> & ->)|(A & [-> | ->] & _)];
    try contradiction.
  cbn [elapsed nsteps rts bump]. repeat split; auto; [now rewrite map_length|].
  intros i r E. exists (adv (tick s) r). rewrite nth_error_map_some, E. cbn.
  split; [reflexivity|]. split; [apply adv_t_elapsed|apply adv_t_offset].
Qed.

(* ... and a step that fails with a software error does not move Sim::elapsed *)
Lemma step_failed_elapsed s order s' res log :
  step s order = (s', res, log) -> (res = RErr \/ res = RPanic) ->
  elapsed s' = elapsed s /\ nsteps s' = nsteps s.
Proof.
  intros H C. destruct (step_res_cases _ _ _ _ _ H) as [(A & -> & ->)|(A & _ & l & ->)].
  - destruct (_ && _); destruct C; discriminate.
  - auto.
Qed.

(* ---- invariants of histories ------------------------------------------------------ *)

Definition ev_failed (s : state) (e : ev) : bool :=
  match snd (apply s e) with
  | OStep RErr _ _ _ | OStep RPanic _ _ _ => true
  | ORun RunErr _ _ _ _ | ORun RunPanic _ _ _ _ => true
  | _ => false
  end.

(* no Sim::step / Sim::run of the history failed with a software error or panic *)
Fixpoint no_failed (s : state) (es : list ev) : Prop :=
  match es with
  | [] => True
  | e :: t => ev_failed s e = false /\ no_failed (fst (apply s e)) t
  end.

(* start_offset + elapsed = Sim::elapsed for every registered host *)
Definition consistent (s : state) : Prop :=
  Forall (fun r => t_offset r + t_elapsed r = elapsed s) (rts s).

(* HostTimer.elapsed = (elapsed when the incarnation started) + polls * tick *)
Definition lockstep (s : state) : Prop :=
  Forall (fun r => running r = true -> t_elapsed r = inc_base r + N.of_nat (polls r) * tick s) (rts s).

(* elapsed = steps * tick *)
Definition counted (s : state) : Prop := elapsed s = nsteps s * tick s.

Definition rres_of_ok (r : rres) : Prop :=
  match r with RunErr | RunPanic => False | _ => True end.

Section StepInvariant.
  (* an invariant kept by every successful step is kept by run unless it fails *)
  Variable P : state -> Prop.
  Hypothesis P_ok_step : forall s, P s -> all_ok (rts s) = true ->
    P (bump s (map (adv (tick s)) (rts s))).

  Lemma run_loop_inv : forall fuel orc i s log,
    P s ->
    rres_of_ok (snd (fst (fst (run_loop fuel orc i s log)))) ->
    P (fst (fst (fst (run_loop fuel orc i s log)))).
  Proof.
    induction fuel as [|f IH]; intros orc i s log Hp Hr; [exact Hp|].
    cbn in *. destruct (step s (orc i)) as [[s' r] lg] eqn:E.
    destruct (step_res_cases _ _ _ _ _ E) as [(A & -> & ->)|(A & [-> | ->] & _)];
      try (cbn in Hr; contradiction).
    destruct ((duration s <? elapsed s + tick s) && negb (fin_now (rts s))); [cbn; auto|].
    destruct (fin_now (rts s)); cbn; auto.
  Qed.
End StepInvariant.

Lemma consistent_ok_step s : consistent s -> all_ok (rts s) = true ->
  consistent (bump s (map (adv (tick s)) (rts s))).
Proof.
  intros H _. unfold consistent in *. cbn [rts elapsed bump]. rewrite Forall_map.
  eapply Forall_impl; [|exact H]. intros r E. cbn beta in *. rewrite adv_t_elapsed, adv_t_offset. lia.
Qed.

Lemma lockstep_ok_step s : lockstep s -> all_ok (rts s) = true ->
  lockstep (bump s (map (adv (tick s)) (rts s))).
Proof.
  intros H A. unfold lockstep in *. cbn [rts tick bump]. rewrite Forall_map.
  rewrite Forall_forall in *. intros r Hin Hr.
  destruct (running r) eqn:Er.
  - pose proof (H r Hin Er) as E. unfold adv in *. rewrite Er in *.
    destruct (rt_tick_fst_running r Er) as [b Eb]. rewrite Eb in *.
    cbn [t_elapsed inc_base polls running polled timer_tick] in *.
    rewrite Nat2N.inj_succ, N.mul_succ_l. lia.
  - unfold adv in Hr. rewrite Er in Hr. cbn in Hr. congruence.
Qed.

Lemma counted_ok_step s : counted s -> all_ok (rts s) = true ->
  counted (bump s (map (adv (tick s)) (rts s))).
Proof. unfold counted. cbn. intros H _. lia. Qed.

Lemma iter_crash1_clock k r :
  t_elapsed (Nat.iter k crash1 r) = t_elapsed r /\ t_offset (Nat.iter k crash1 r) = t_offset r /\
  inc_base (Nat.iter k crash1 r) = inc_base r /\ polls (Nat.iter k crash1 r) = polls r /\
  (running (Nat.iter k crash1 r) = true -> running r = true /\ k = 0%nat).
Proof.
  induction k as [|k IH]; cbn; [repeat split; auto|]. destruct IH as (A & B & C & D & E).
  repeat split; auto; discriminate.
Qed.

Lemma iter_bounce1_clock k r :
  t_elapsed (Nat.iter k bounce1 r) = t_elapsed r /\ t_offset (Nat.iter k bounce1 r) = t_offset r /\
  (k <> 0%nat -> inc_base (Nat.iter k bounce1 r) = t_elapsed r /\ polls (Nat.iter k bounce1 r) = 0%nat).
Proof.
  induction k as [|k IH]; cbn; [repeat split; auto; congruence|].
  destruct IH as (A & B & C). repeat split; auto.
Qed.

(* the three invariants are kept by every event that does not fail *)
Lemma inv_apply s e :
  ev_failed s e = false ->
  (consistent s -> consistent (fst (apply s e))) /\
  (lockstep s -> lockstep (fst (apply s e))) /\
  (counted s -> counted (fst (apply s e))).
Proof.
  intro Hf. destruct e as [p|p|order|orders|hs|hs|]; cbn [apply] in *.
  - cbn. unfold consistent, lockstep, counted, add_rt; cbn. repeat split; auto.
    + intro H. apply Forall_app; split; auto; constructor; auto; cbn; intros; lia.
    + intro H. apply Forall_app; split; auto; constructor; auto; cbn; intros; lia.
  - cbn. unfold consistent, lockstep, counted, add_rt; cbn. repeat split; auto.
    + intro H. apply Forall_app; split; auto; constructor; auto; cbn; intros; lia.
    + intro H. apply Forall_app; split; auto; constructor; auto; cbn; intros; lia.
  - unfold ev_failed in Hf. cbn [apply] in Hf.
    destruct (step s order) as [[s' res] log] eqn:E. cbn [fst snd] in *.
    destruct (step_res_cases _ _ _ _ _ E) as [(A & -> & ->)|(A & [-> | ->] & _)]; try discriminate.
    repeat split; intro H; [apply consistent_ok_step|apply lockstep_ok_step|apply counted_ok_step]; auto.
  - unfold ev_failed in Hf. cbn [apply] in Hf. unfold run in *.
    destruct (existsb is_client (rts s)).
    + pose proof (run_loop_inv consistent consistent_ok_step (run_fuel s) (orc_of orders (rts s)) 0 s []) as I1.
      pose proof (run_loop_inv lockstep lockstep_ok_step (run_fuel s) (orc_of orders (rts s)) 0 s []) as I2.
      pose proof (run_loop_inv counted counted_ok_step (run_fuel s) (orc_of orders (rts s)) 0 s []) as I3.
      destruct (run_loop (run_fuel s) (orc_of orders (rts s)) 0 s []) as [[[s' res] n] log].
      cbn [fst snd] in *.
      assert (rres_of_ok res) by (destruct res; cbn; auto; discriminate).
      repeat split; auto.
    + cbn. auto.
  - destruct (for_hosts crash1 (rts s) hs) as [l ok] eqn:E. cbn [fst].
    destruct (for_hosts_rel _ _ _ _ _ E) as (L & R).
    unfold consistent, lockstep, counted, set_rts; cbn [rts elapsed tick nsteps]. repeat split; auto.
    + rewrite !Forall_forall. intros H r' Hin. apply In_nth_error in Hin as [j Ej].
      destruct (nth_error (rts s) j) as [r|] eqn:Er.
      * destruct (R j r Er) as (k & A & _). rewrite Ej in A. inversion A; subst.
        destruct (iter_crash1_clock k r) as (B & C & _). rewrite B, C. apply H. eapply nth_error_In; eauto.
      * apply nth_error_None in Er. rewrite <- L in Er. apply nth_error_None in Er. congruence.
    + rewrite !Forall_forall. intros H r' Hin Hr'. apply In_nth_error in Hin as [j Ej].
      destruct (nth_error (rts s) j) as [r|] eqn:Er.
      * destruct (R j r Er) as (k & A & _). rewrite Ej in A. inversion A; subst.
        destruct (iter_crash1_clock k r) as (B & C & D & F & G). destruct (G Hr') as [Hr ->].
        cbn. apply H; auto. eapply nth_error_In; eauto.
      * apply nth_error_None in Er. rewrite <- L in Er. apply nth_error_None in Er. congruence.
  - destruct (for_hosts bounce1 (rts s) hs) as [l ok] eqn:E. cbn [fst].
    destruct (for_hosts_rel _ _ _ _ _ E) as (L & R).
    unfold consistent, lockstep, counted, set_rts; cbn [rts elapsed tick nsteps]. repeat split; auto.
    + rewrite !Forall_forall. intros H r' Hin. apply In_nth_error in Hin as [j Ej].
      destruct (nth_error (rts s) j) as [r|] eqn:Er.
      * destruct (R j r Er) as (k & A & _). rewrite Ej in A. inversion A; subst.
        destruct (iter_bounce1_clock k r) as (B & C & _). rewrite B, C. apply H. eapply nth_error_In; eauto.
      * apply nth_error_None in Er. rewrite <- L in Er. apply nth_error_None in Er. congruence.
    + rewrite !Forall_forall. intros H r' Hin Hr'. apply In_nth_error in Hin as [j Ej].
      destruct (nth_error (rts s) j) as [r|] eqn:Er.
      * destruct (R j r Er) as (k & A & _). rewrite Ej in A. inversion A; subst.
        destruct (iter_bounce1_clock k r) as (B & C & D). destruct k.
        -- cbn in *. apply H; auto. eapply nth_error_In; eauto.
        -- destruct (D ltac:(discriminate)) as [D1 D2]. rewrite B, D1, D2. lia.
      * apply nth_error_None in Er. rewrite <- L in Er. apply nth_error_None in Er. congruence.
  - cbn. auto.
Qed.

Lemma inv_exec : forall es s,
  no_failed s es ->
  (consistent s -> consistent (exec s es)) /\
  (lockstep s -> lockstep (exec s es)) /\
  (counted s -> counted (exec s es)).
Proof.
  induction es as [|e t IH]; intros s H; cbn in *; [auto|].
  destruct H as [H1 H2]. destruct (inv_apply s e H1) as (A & B & C).
  destruct (IH _ H2) as (A' & B' & C'). repeat split; auto.
Qed.

Lemma init_invariants tk w d ep :
  consistent (init tk w d ep) /\ lockstep (init tk w d ep) /\ counted (init tk w d ep).
Proof. unfold consistent, lockstep, counted; cbn. repeat split; constructor. Qed.

Theorem c05_consistent_lemma tk w d ep es :
  no_failed (init tk w d ep) es ->
  let s := exec (init tk w d ep) es in
  Forall (fun r => t_offset r + t_elapsed r = elapsed s) (rts s) /\
  since_epoch s = epoch s + elapsed s /\
  elapsed s = nsteps s * tick s.
Proof.
  intros H s. destruct (init_invariants tk w d ep) as (A & B & C).
  destruct (inv_exec es _ H) as (A' & _ & C'). split; [exact (A' A)|]. split; [reflexivity|exact (C' C)].
Qed.

(* ---- monotone, for every event, failing or not ------------------------------------ *)

Theorem c05_monotone_lemma s e :
  elapsed s <= elapsed (fst (apply s e)) /\
  epoch (fst (apply s e)) = epoch s /\ tick (fst (apply s e)) = tick s /\
  forall j r, nth_error (rts s) j = Some r ->
    exists r', nth_error (rts (fst (apply s e))) j = Some r' /\
      t_elapsed r <= t_elapsed r' /\ t_offset r' = t_offset r.
Proof.
  destruct e as [p|p|order|orders|hs|hs|]; cbn [apply].
  - cbn. repeat split; auto; try lia. intros j r E. exists r. split; [now apply nth_error_app_some|split; [lia|auto]].
  - cbn. repeat split; auto; try lia. intros j r E. exists r. split; [now apply nth_error_app_some|split; [lia|auto]].
  - destruct (step s order) as [[s' res] log] eqn:E. cbn [fst].
    destruct (step_params _ _ _ _ _ E) as (P1 & _ & _ & P4 & P5).
    destruct (step_evolves _ _ _ _ _ E) as (_ & R). repeat split; auto.
    intros j r Ej. destruct (R j r Ej) as (r' & A & B). exists r'. split; auto.
    split; [apply (ev_elapsed _ _ _ B)|apply (ev_offset _ _ _ B)].
  - destruct (run s (orc_of orders (rts s))) as [[[s' res] n] log] eqn:E. cbn [fst].
    destruct (run_evolves _ _ _ _ _ _ E) as (P1 & _ & _ & P4 & P5 & _ & R). repeat split; auto.
    intros j r Ej. destruct (R j r Ej) as (r' & A & B). exists r'. split; auto.
    split; [apply (ev_elapsed _ _ _ B)|apply (ev_offset _ _ _ B)].
  - destruct (for_hosts crash1 (rts s) hs) as [l ok] eqn:E. cbn [fst]. unfold set_rts; cbn.
    destruct (for_hosts_rel _ _ _ _ _ E) as (_ & R). repeat split; auto; try lia.
    intros j r Ej. destruct (R j r Ej) as (k & A & _). eexists. split; [exact A|].
    destruct (iter_crash1_clock k r) as (B & C & _). rewrite B, C. split; [lia|auto].
  - destruct (for_hosts bounce1 (rts s) hs) as [l ok] eqn:E. cbn [fst]. unfold set_rts; cbn.
    destruct (for_hosts_rel _ _ _ _ _ E) as (_ & R). repeat split; auto; try lia.
    intros j r Ej. destruct (R j r Ej) as (k & A & _). eexists. split; [exact A|].
    destruct (iter_bounce1_clock k r) as (B & C & _). rewrite B, C. split; [lia|auto].
  - cbn. repeat split; auto; try lia. intros j r E. exists r. split; auto. split; [lia|auto].
Qed.

(* Crash and Bounce do not touch any clock *)
Theorem c05_crash_bounce_neutral_lemma s e :
  (exists hs, e = Crash hs \/ e = Bounce hs) ->
  elapsed (fst (apply s e)) = elapsed s /\ since_epoch (fst (apply s e)) = since_epoch s /\
  length (rts (fst (apply s e))) = length (rts s) /\
  forall j r, nth_error (rts s) j = Some r ->
    exists r', nth_error (rts (fst (apply s e))) j = Some r' /\
      t_elapsed r' = t_elapsed r /\ t_offset r' = t_offset r.
Proof.
  intros (hs & [-> | ->]); cbn [apply].
  - destruct (for_hosts crash1 (rts s) hs) as [l ok] eqn:E. cbn [fst]. unfold set_rts, since_epoch; cbn.
    destruct (for_hosts_rel _ _ _ _ _ E) as (L & R). repeat split; auto.
    intros j r Ej. destruct (R j r Ej) as (k & A & _). eexists. split; [exact A|].
    destruct (iter_crash1_clock k r) as (B & C & _). auto.
  - destruct (for_hosts bounce1 (rts s) hs) as [l ok] eqn:E. cbn [fst]. unfold set_rts, since_epoch; cbn.
    destruct (for_hosts_rel _ _ _ _ _ E) as (L & R). repeat split; auto.
    intros j r Ej. destruct (R j r Ej) as (k & A & _). eexists. split; [exact A|].
    destruct (iter_bounce1_clock k r) as (B & C & _). auto.
Qed.

(* ---- what host code reads during a step -------------------------------------------- *)

(* environment guarantee needed from tokio: clock reads of a tick happen at most
   `tick` after the window started *)
Definition reads_within (s : state) : Prop :=
  forall r, In r (rts s) -> running r = true ->
    forall to, In to (reads (cur_sw r) (polls r)) -> snd to <= tick s.

Theorem c05_window_lemma s order s' res log o :
  step s order = (s', res, log) -> consistent s -> reads_within s -> In o log ->
  exists r, nth_error (rts s) (o_host o) = Some r /\ running r = true /\
    o_sim o = t_offset r + o_elapsed o /\
    o_epoch o = epoch s + o_sim o /\
    elapsed s <= o_sim o <= elapsed s + tick s /\
    t_elapsed r <= o_elapsed o <= t_elapsed r + tick s.
Proof.
  intros H Hc Hw Ho. destruct (step_log_sound _ _ _ _ _ _ H Ho) as (r & A & B & C).
  exists r. split; [exact A|]. split; [exact B|].
  unfold mk_reads in C. apply in_map_iff in C as (to & <- & Hto). cbn.
  pose proof (nth_error_In _ _ A) as Hin.
  pose proof (Hw r Hin B to Hto) as Hoff.
  unfold consistent in Hc. rewrite Forall_forall in Hc. pose proof (Hc r Hin). lia.
Qed.

(* with tokio's clock moving exactly one tick per Rt::tick, host time and the
   host's tokio clock run in lockstep within an incarnation *)
Theorem c05_lockstep_obs_lemma s order s' res log o :
  step s order = (s', res, log) -> lockstep s -> wtick s = tick s -> In o log ->
  exists r, nth_error (rts s) (o_host o) = Some r /\ running r = true /\
    o_inc o = pred (starts r) /\
    o_elapsed o = inc_base r + o_clk o /\
    o_sim o = t_offset r + o_elapsed o.
Proof.
  intros H Hl Hw Ho. destruct (step_log_sound _ _ _ _ _ _ H Ho) as (r & A & B & C).
  exists r. split; [exact A|]. split; [exact B|].
  unfold mk_reads in C. apply in_map_iff in C as (to & <- & Hto). cbn. split; [reflexivity|].
  unfold lockstep in Hl. rewrite Forall_forall in Hl.
  rewrite (Hl r (nth_error_In _ _ A) B), Hw. split; lia.
Qed.

(* the incarnation's base only changes when the host is bounced *)
Theorem c05_base_stable_lemma s e j r :
  nth_error (rts s) j = Some r ->
  (forall hs, e = Bounce hs -> ~ In j hs) ->
  exists r', nth_error (rts (fst (apply s e))) j = Some r' /\
    inc_base r' = inc_base r /\ starts r' = starts r /\ sw r' = sw r.
Proof.
  intros Ej Hb. destruct e as [p|p|order|orders|hs|hs|]; cbn [apply].
  - cbn. exists r. split; [now apply nth_error_app_some|auto].
  - cbn. exists r. split; [now apply nth_error_app_some|auto].
  - destruct (step s order) as [[s' res] log] eqn:E. cbn [fst].
    destruct (step_evolves _ _ _ _ _ E) as (_ & R). destruct (R j r Ej) as (r' & A & B).
    exists r'. split; auto. split; [apply (ev_base _ _ _ B)|split; [apply (ev_starts _ _ _ B)|apply (ev_sw _ _ _ B)]].
  - destruct (run s (orc_of orders (rts s))) as [[[s' res] n] log] eqn:E. cbn [fst].
    destruct (run_evolves _ _ _ _ _ _ E) as (_ & _ & _ & _ & _ & _ & R). destruct (R j r Ej) as (r' & A & B).
    exists r'. split; auto. split; [apply (ev_base _ _ _ B)|split; [apply (ev_starts _ _ _ B)|apply (ev_sw _ _ _ B)]].
  - destruct (for_hosts crash1 (rts s) hs) as [l ok] eqn:E. cbn [fst]. unfold set_rts; cbn.
    destruct (for_hosts_rel _ _ _ _ _ E) as (_ & R). destruct (R j r Ej) as (k & A & _).
    eexists. split; [exact A|]. clear. induction k as [|k IH]; cbn; auto.
  - destruct (for_hosts bounce1 (rts s) hs) as [l ok] eqn:E. cbn [fst]. unfold set_rts; cbn.
    destruct (for_hosts_rel _ _ _ _ _ E) as (_ & R). destruct (R j r Ej) as (k & A & B).
    rewrite (B (Hb hs eq_refl)) in A. cbn in A. eauto.
  - cbn. eauto.
Qed.

(* ---- facts about the assumed tokio clock model ---------------------------------------- *)

Definition aligned (x : N) : Prop := x mod ms = 0.

Lemma ms_pos : 0 < ms. Proof. reflexivity. Qed.
Lemma ms_nz : ms <> 0. Proof. discriminate. Qed.

Lemma cms_spec x : x <= cms x /\ cms x < x + ms /\ aligned (cms x).
Proof.
  unfold cms, aligned. pose proof (N.div_mod (x + (ms - 1)) ms ms_nz) as D.
  pose proof (N.mod_lt (x + (ms - 1)) ms ms_nz) as L.
  set (q := (x + (ms - 1)) / ms) in *. set (m := (x + (ms - 1)) mod ms) in *.
  assert (ms - 1 + 1 = ms) by reflexivity.
  repeat split; try lia. apply N.mod_mul. exact ms_nz.
Qed.

Lemma aligned_mul x : aligned x -> x = ms * (x / ms).
Proof. unfold aligned. intro H. pose proof (N.div_mod x ms ms_nz). lia. Qed.

Lemma cms_aligned x : aligned x -> cms x = x.
Proof.
  intro H. destruct (cms_spec x) as (A & B & C).
  rewrite (aligned_mul _ H) in *. rewrite (aligned_mul _ C) in *.
  set (a := x / ms) in *. set (b := cms (ms * a) / ms) in *. clearbody a b.
  unfold ms in *. lia.
Qed.

Lemma aligned_add x y : aligned x -> aligned y -> aligned (x + y).
Proof.
  unfold aligned. intros A B. rewrite N.add_mod by exact ms_nz. rewrite A, B. reflexivity.
Qed.

Lemma aligned_0 : aligned 0. Proof. reflexivity. Qed.

Lemma aligned_min x y : aligned x -> aligned y -> aligned (N.min x y).
Proof. intros A B. destruct (N.min_spec x y) as [[_ ->]|[_ ->]]; auto. Qed.

Lemma interval_events_aligned tid k c p n : forall i,
  Forall (fun tc => aligned (snd tc)) (interval_events tid k c p i n).
Proof.
  induction n as [|n IH]; intro i; cbn; constructor; auto. cbn. apply cms_spec.
Qed.

Lemma task_events_aligned : forall ops tid k c, aligned c ->
  Forall (fun tc => aligned (snd tc)) (fst (task_events tid k c ops)) /\
  aligned (snd (task_events tid k c ops)).
Proof.
  induction ops as [|o ops IH]; intros tid k c Hc; cbn.
  - split; [constructor|exact Hc].
  - destruct o as [d| |lim inn|p n].
    + apply IH. apply cms_spec.
    + destruct (task_events tid (k + 1) c ops) as [l e] eqn:E. cbn.
      destruct (IH tid (k + 1) c Hc) as (A & B). rewrite E in *. cbn in *. split; auto.
    + set (c' := N.min (cms (c + inn)) (cms (c + lim))).
      assert (Hc' : aligned c') by (apply aligned_min; apply cms_spec).
      destruct (task_events tid (k + 1) c' ops) as [l e] eqn:E. cbn.
      destruct (IH tid (k + 1) c' Hc') as (A & B). rewrite E in *. cbn in *. split; auto.
    + set (c' := match n with O => c | S m => cms (c + N.of_nat m * p) end).
      assert (Hc' : aligned c') by (destruct n; [exact Hc|apply cms_spec]).
      destruct (task_events tid (k + 1) c' ops) as [l e] eqn:E. cbn.
      destruct (IH tid (k + 1) c' Hc') as (A & B). rewrite E in *. cbn in *. split; auto.
      apply Forall_app. split; auto. apply interval_events_aligned.
Qed.

Lemma tasks_events_aligned : forall ts tid,
  Forall (fun tc => aligned (snd tc)) (tasks_events tid ts).
Proof.
  induction ts as [|t ts IH]; intro tid; cbn; [constructor|].
  apply Forall_app. split; auto. apply task_events_aligned, aligned_0.
Qed.

Lemma all_events_aligned sc : Forall (fun tc => aligned (snd tc)) (all_events sc).
Proof.
  unfold all_events. destruct (task_events_aligned (s_main sc) 0 0 0 aligned_0) as (A & B).
  apply Forall_app. split; auto. apply Forall_app. split; [|apply tasks_events_aligned].
  destruct (s_end sc); repeat constructor; auto.
Qed.

Lemma wtick_pos tk : 0 < tk -> 0 < wtick_of tk.
Proof. intro H. unfold wtick_of. pose proof (cms_spec tk). lia. Qed.

(* every clock read of scripted software happens strictly less than one tick
   after its window started — for EVERY positive tick *)
Theorem tokio_reads_in_window tk sc j to :
  0 < tk -> In to (reads (sw_of_script tk sc) j) -> snd to < tk /\ aligned (snd to).
Proof.
  intros Ht H. cbn [reads sw_of_script] in H. apply in_app_or in H as [H|H].
  - destruct (s_ticker sc); [|destruct H]. destruct H as [<-|[]]. cbn. split; [exact Ht|reflexivity].
  - apply in_map_iff in H as ((tag & clk) & <- & H). apply filter_In in H as [Hin Hj]. cbn in *.
    apply N.eqb_eq in Hj.
    pose proof (all_events_aligned sc) as Al. rewrite Forall_forall in Al.
    pose proof (Al _ Hin) as Hclk. cbn in Hclk.
    set (w := wtick_of tk) in *. pose proof (wtick_pos tk Ht) as Hw. fold w in Hw.
    assert (Aw : aligned w) by apply cms_spec.
    assert (Hlt : w < tk + ms) by apply cms_spec.
    pose proof (N.div_mod clk w ltac:(lia)) as D. pose proof (N.mod_lt clk w ltac:(lia)) as L.
    rewrite Hj in D.
    assert (Eoff : clk - N.of_nat j * w = clk mod w).
    { rewrite (N.mul_comm (N.of_nat j) w). set (m := clk mod w) in *. set (x := w * N.of_nat j) in *. lia. }
    rewrite Eoff.
    assert (Ao : aligned (clk mod w)).
    { unfold aligned in *. rewrite (aligned_mul _ Hclk), (aligned_mul _ Aw) in *.
      set (a := clk / ms) in *. set (b := w / ms) in *.
      assert (b <> 0) by (intro Z; rewrite Z in Hw; cbn in Hw; lia).
      rewrite N.mul_mod_distr_l by (auto; discriminate).
      rewrite N.mul_comm. apply N.mod_mul. discriminate. }
    split; [|exact Ao].
    rewrite (aligned_mul _ Ao), (aligned_mul _ Aw) in *.
    set (a := (clk mod w) / ms) in *. set (b := w / ms) in *. clearbody a b.
    unfold ms in *. lia.
Qed.

Lemma wtick_whole tk : aligned tk -> wtick_of tk = tk.
Proof. apply cms_aligned. Qed.

(* concatenation of op lists *)
Lemma task_events_app : forall pre tid k c post,
  task_events tid k c (pre ++ post) =
  let '(l1, c1) := task_events tid k c pre in
  let '(l2, c2) := task_events tid (k + N.of_nat (length pre)) c1 post in (l1 ++ l2, c2).
Proof.
  induction pre as [|o pre IH]; intros tid k c post.
  - cbn. rewrite N.add_0_r. destruct (task_events tid k c post). reflexivity.
  - assert (K : forall k, k + 1 + N.of_nat (length pre) = k + N.of_nat (length (o :: pre)))
      by (intro; cbn [length]; lia).
    cbn [app task_events]. destruct o as [d| |lim inn|p n].
    + rewrite IH, K. reflexivity.
    + rewrite IH, K. destruct (task_events tid (k + 1) c pre) as [l1 c1].
      destruct (task_events tid _ c1 post) as [l2 c2]. reflexivity.
    + rewrite IH, K. destruct (task_events tid (k + 1) _ pre) as [l1 c1].
      destruct (task_events tid _ c1 post) as [l2 c2]. reflexivity.
    + rewrite IH, K. destruct (task_events tid (k + 1) _ pre) as [l1 c1].
      destruct (task_events tid _ c1 post) as [l2 c2]. now rewrite app_assoc.
Qed.

(* a tokio timer set for a whole number of milliseconds fires exactly d later on
   the host's tokio clock: `obs; sleep(d); obs` anywhere in a task reads clocks
   c and c + d *)
Theorem tokio_sleep_exact tid pre d post :
  aligned d ->
  exists c l1 l2,
    aligned c /\
    fst (task_events tid 0 0 (pre ++ Obs :: Sleep d :: Obs :: post)) =
      l1 ++ (mk_tag tid (N.of_nat (length pre)) 0, c) ::
            (mk_tag tid (N.of_nat (length pre) + 2) 0, c + d) :: l2.
Proof.
  intro Hd. rewrite task_events_app.
  destruct (task_events tid 0 0 pre) as [l1 c1] eqn:E1.
  destruct (task_events_aligned pre tid 0 0 aligned_0) as (_ & Ac). rewrite E1 in Ac. cbn in Ac.
  cbn [task_events]. rewrite (cms_aligned (c1 + d)) by (now apply aligned_add).
  destruct (task_events tid (0 + N.of_nat (length pre) + 1 + 1 + 1) (c1 + d) post) as [l2 c2].
  exists c1, l1, l2. split; [exact Ac|]. cbn [fst]. rewrite N.add_0_l.
  replace (N.of_nat (length pre) + 1 + 1) with (N.of_nat (length pre) + 2) by lia. reflexivity.
Qed.

(* ---- scripted software: the window property for every positive tick ------------------- *)

Definition scripted (s : state) : Prop :=
  0 < tick s /\ wtick s = wtick_of (tick s) /\
  Forall (fun r => forall inc, exists sc, sw r inc = sw_of_script (tick s) sc) (rts s).

Lemma scripted_reads_within s : scripted s -> reads_within s.
Proof.
  intros (Ht & _ & Hs) r Hin Hr to Hto. rewrite Forall_forall in Hs.
  destruct (Hs r Hin (pred (starts r))) as [sc E]. unfold cur_sw in Hto. rewrite E in Hto.
  destruct (tokio_reads_in_window _ _ _ _ Ht Hto). lia.
Qed.

Theorem c05_window_scripted_lemma s order s' res log o :
  step s order = (s', res, log) -> consistent s -> scripted s -> In o log ->
  exists r, nth_error (rts s) (o_host o) = Some r /\ running r = true /\
    o_sim o = t_offset r + o_elapsed o /\
    o_epoch o = epoch s + o_sim o /\
    elapsed s <= o_sim o < elapsed s + tick s /\
    t_elapsed r <= o_elapsed o < t_elapsed r + tick s.
Proof.
  intros H Hc Hs Ho. destruct (step_log_sound _ _ _ _ _ _ H Ho) as (r & A & B & C).
  exists r. split; [exact A|]. split; [exact B|].
  unfold mk_reads in C. apply in_map_iff in C as (to & <- & Hto). cbn.
  pose proof (nth_error_In _ _ A) as Hin.
  destruct Hs as (Ht & _ & Hs). rewrite Forall_forall in Hs.
  destruct (Hs r Hin (pred (starts r))) as [sc E]. unfold cur_sw in Hto. rewrite E in Hto.
  destruct (tokio_reads_in_window _ _ _ _ Ht Hto) as [Hoff _].
  unfold consistent in Hc. rewrite Forall_forall in Hc. pose proof (Hc r Hin). lia.
Qed.

(* ---- timer exactness across steps --------------------------------------------------------- *)

Definition no_bounce_of (h : nat) (es : list ev) : Prop :=
  Forall (fun e => forall hs, e = Bounce hs -> ~ In h hs) es.

Lemma apply_params s e :
  tick (fst (apply s e)) = tick s /\ wtick (fst (apply s e)) = wtick s.
Proof.
  destruct e as [p|p|order|orders|hs|hs|]; cbn [apply]; try (cbn; auto; fail).
  - destruct (step s order) as [[s' res] log] eqn:E. cbn [fst].
    destruct (step_params _ _ _ _ _ E) as (A & B & _). auto.
  - destruct (run s (orc_of orders (rts s))) as [[[s' res] n] log] eqn:E. cbn [fst].
    destruct (run_evolves _ _ _ _ _ _ E) as (A & B & _). auto.
  - destruct (for_hosts crash1 (rts s) hs). cbn. auto.
  - destruct (for_hosts bounce1 (rts s) hs). cbn. auto.
Qed.

Lemma exec_params : forall es s, tick (exec s es) = tick s /\ wtick (exec s es) = wtick s.
Proof.
  induction es as [|e t IH]; intro s; cbn; auto.
  destruct (IH (fst (apply s e))) as (A & B). destruct (apply_params s e) as (C & D).
  split; congruence.
Qed.

Lemma base_stable_exec h : forall es s r,
  nth_error (rts s) h = Some r -> no_bounce_of h es ->
  exists r', nth_error (rts (exec s es)) h = Some r' /\
    inc_base r' = inc_base r /\ starts r' = starts r /\ sw r' = sw r.
Proof.
  induction es as [|e t IH]; intros s r E Hn; cbn; [eauto|].
  inversion Hn as [|? ? H1 H2]; subst.
  destruct (c05_base_stable_lemma s e h r E H1) as (r1 & A & B & C & D).
  destruct (IH _ _ A H2) as (r2 & A2 & B2 & C2 & D2).
  exists r2. split; auto. repeat split; congruence.
Qed.

(* Two clock reads of the same incarnation of host h, in any two steps of a
   history without failed steps and without a bounce of h in between: the
   difference of the host's virtual time equals the difference of its tokio
   clock (when tokio's clock moves exactly one tick per step). *)
Theorem c05_timer_lockstep_lemma s1 ord1 s1' res1 log1 o1 es ord2 s2' res2 log2 o2 h :
  lockstep s1 -> wtick s1 = tick s1 ->
  step s1 ord1 = (s1', res1, log1) -> In o1 log1 -> o_host o1 = h ->
  no_failed s1 (Step ord1 :: es) -> no_bounce_of h es ->
  step (exec s1' es) ord2 = (s2', res2, log2) -> In o2 log2 -> o_host o2 = h ->
  o_inc o2 = o_inc o1 /\
  o_elapsed o2 + o_clk o1 = o_elapsed o1 + o_clk o2 /\
  o_sim o2 + o_clk o1 = o_sim o1 + o_clk o2.
Proof.
  intros Hl Hw E1 Ho1 Hh1 Hnf Hnb E2 Ho2 Hh2.
  destruct (c05_lockstep_obs_lemma _ _ _ _ _ _ E1 Hl Hw Ho1) as (r1 & A1 & B1 & C1 & D1 & S1).
  assert (Es1' : s1' = fst (apply s1 (Step ord1))) by (cbn; now rewrite E1).
  assert (Hl2 : lockstep (exec s1' es)).
  { rewrite Es1'. change (exec (fst (apply s1 (Step ord1))) es) with (exec s1 (Step ord1 :: es)).
    now apply (inv_exec (Step ord1 :: es) s1 Hnf). }
  assert (Hw2 : wtick (exec s1' es) = tick (exec s1' es)).
  { destruct (exec_params es s1') as (P1 & P2). rewrite P1, P2.
    destruct (step_params _ _ _ _ _ E1) as (Q1 & Q2 & _). congruence. }
  destruct (c05_lockstep_obs_lemma _ _ _ _ _ _ E2 Hl2 Hw2 Ho2) as (r2 & A2 & B2 & C2 & D2 & S2).
  rewrite Hh1 in A1. rewrite Hh2 in A2.
  destruct (step_evolves _ _ _ _ _ E1) as (_ & R). destruct (R h r1 A1) as (r1' & F1 & G1).
  destruct (base_stable_exec h es s1' r1' F1 Hnb) as (r2' & F2 & G2 & G3 & G4).
  rewrite A2 in F2. inversion F2; subst r2'.
  assert (Hb : inc_base r2 = inc_base r1) by (rewrite G2; apply (ev_base _ _ _ G1)).
  assert (Hst : starts r2 = starts r1) by (rewrite G3; apply (ev_starts _ _ _ G1)).
  assert (Hof : t_offset r2 = t_offset r1).
  { destruct (step_log_sound _ _ _ _ _ _ E2 Ho2) as (rx & _). clear rx.
    (* t_offset never changes *)
    assert (forall es s r, nth_error (rts s) h = Some r ->
              exists r', nth_error (rts (exec s es)) h = Some r' /\ t_offset r' = t_offset r) as K.
    { induction es0 as [|e t IH]; intros s r E; cbn; [eauto|].
      destruct (c05_monotone_lemma s e) as (_ & _ & _ & M). destruct (M h r E) as (ra & Ea & _ & Eb).
      destruct (IH _ _ Ea) as (rb & Ec & Ed). exists rb. split; auto. congruence. }
    destruct (K es s1' r1' F1) as (rb & Eb & Ec). rewrite A2 in Eb. inversion Eb; subst.
    rewrite Ec. apply (ev_offset _ _ _ G1). }
  split; [congruence|]. split; lia.
Qed.

(* ---- timer exactness, composed: scripted main future, tick of whole ms -------------------- *)

Lemma mk_tag_inj tid k aux tid' k' aux' :
  k < 1000 -> k' < 1000 -> aux < 4 -> aux' < 4 ->
  mk_tag tid k aux = mk_tag tid' k' aux' -> tid = tid' /\ k = k' /\ aux = aux'.
Proof. unfold mk_tag. intros. lia. Qed.

Lemma interval_events_aux tid k c p n : forall i tag x,
  In (tag, x) (interval_events tid k c p i n) -> tag = mk_tag tid k 3.
Proof.
  induction n as [|n IH]; intros i tag x H; cbn in H; [destruct H|].
  destruct H as [H|H]; [now inversion H|eauto].
Qed.

Lemma task_events_snd_indep : forall ops tid k tid' k' c,
  snd (task_events tid k c ops) = snd (task_events tid' k' c ops).
Proof.
  induction ops as [|o ops IH]; intros tid k tid' k' c; cbn; [reflexivity|].
  destruct o as [d| |lim inn|p n].
  - apply IH.
  - pose proof (IH tid (k + 1) tid' (k' + 1) c) as H.
    destruct (task_events tid (k + 1) c ops), (task_events tid' (k' + 1) c ops); exact H.
  - match goal with |- context [task_events tid (k + 1) ?x ops] =>
      pose proof (IH tid (k + 1) tid' (k' + 1) x) as H;
      destruct (task_events tid (k + 1) x ops), (task_events tid' (k' + 1) x ops); exact H end.
  - match goal with |- context [task_events tid (k + 1) ?x ops] =>
      pose proof (IH tid (k + 1) tid' (k' + 1) x) as H;
      destruct (task_events tid (k + 1) x ops), (task_events tid' (k' + 1) x ops); exact H end.
Qed.

(* an `obs` record of a task comes from the Obs op at that index and carries the
   clock the task has when it reaches that op *)
Lemma task_events_obs : forall ops tid k0 c0 k c,
  k0 + N.of_nat (length ops) <= 1000 -> k < 1000 ->
  In (mk_tag tid k 0, c) (fst (task_events tid k0 c0 ops)) ->
  exists j, k = k0 + N.of_nat j /\ nth_error ops j = Some Obs /\
            c = snd (task_events tid k0 c0 (firstn j ops)).
Proof.
  induction ops as [|o ops IH]; intros tid k0 c0 k c Hb Hlt Hin; [destruct Hin|].
  cbn [length] in Hb.
  assert (Hb' : k0 + 1 + N.of_nat (length ops) <= 1000) by lia.
  assert (Step : forall c1, In (mk_tag tid k 0, c) (fst (task_events tid (k0 + 1) c1 ops)) ->
            exists j, k = k0 + 1 + N.of_nat j /\ nth_error ops j = Some Obs /\
                      c = snd (task_events tid (k0 + 1) c1 (firstn j ops)))
    by (intros c1 H; eapply IH; eauto).
  cbn [task_events] in Hin. destruct o as [d| |lim inn|p n].
  - destruct (Step _ Hin) as (j & A & B & C). exists (S j). split; [lia|]. split; [exact B|].
    cbn [firstn task_events]. exact C.
  - destruct (task_events tid (k0 + 1) c0 ops) as [l e] eqn:E. cbn [fst] in Hin.
    destruct Hin as [Hin|Hin].
    + inversion Hin as [[Ht Hc]]. apply mk_tag_inj in Ht as (_ & Hk & _); try lia.
      exists 0%nat. split; [lia|]. split; [reflexivity|]. cbn. congruence.
    + destruct (Step c0) as (j & A & B & C); [now rewrite E|].
      exists (S j). split; [lia|]. split; [exact B|]. cbn [firstn task_events].
      destruct (task_events tid (k0 + 1) c0 (firstn j ops)). exact C.
  - set (c' := N.min (cms (c0 + inn)) (cms (c0 + lim))) in *.
    destruct (task_events tid (k0 + 1) c' ops) as [l e] eqn:E. cbn [fst] in Hin.
    destruct Hin as [Hin|Hin].
    + inversion Hin as [[Ht Hc]]. apply mk_tag_inj in Ht as (_ & _ & Ha); try lia;
        destruct (cms (c0 + inn) <=? cms (c0 + lim)); lia.
    + destruct (Step c') as (j & A & B & C); [now rewrite E|].
      exists (S j). split; [lia|]. split; [exact B|]. cbn [firstn task_events]. fold c'.
      destruct (task_events tid (k0 + 1) c' (firstn j ops)). exact C.
  - set (c' := match n with O => c0 | S m => cms (c0 + N.of_nat m * p) end) in *.
    destruct (task_events tid (k0 + 1) c' ops) as [l e] eqn:E. cbn [fst] in Hin.
    apply in_app_or in Hin as [Hin|Hin].
    + apply interval_events_aux in Hin. apply mk_tag_inj in Hin as (_ & _ & Ha); lia.
    + destruct (Step c') as (j & A & B & C); [now rewrite E|].
      exists (S j). split; [lia|]. split; [exact B|]. cbn [firstn task_events]. fold c'.
      destruct (task_events tid (k0 + 1) c' (firstn j ops)). exact C.
Qed.

Lemma task_events_tid : forall ops tid k0 c0 tag c,
  In (tag, c) (fst (task_events tid k0 c0 ops)) ->
  exists k aux, tag = mk_tag tid k aux /\ k0 <= k < k0 + N.of_nat (length ops) /\ aux < 4.
Proof.
  induction ops as [|o ops IH]; intros tid k0 c0 tag c Hin; [destruct Hin|].
  cbn [task_events length] in *.
  assert (Step : forall c1, In (tag, c) (fst (task_events tid (k0 + 1) c1 ops)) ->
            exists k aux, tag = mk_tag tid k aux /\ k0 <= k < k0 + N.of_nat (S (length ops)) /\ aux < 4).
  { intros c1 H. destruct (IH _ _ _ _ _ H) as (k & aux & A & B & C). exists k, aux. repeat split; auto; lia. }
  destruct o as [d| |lim inn|p n].
  - eauto.
  - destruct (task_events tid (k0 + 1) c0 ops) as [l e] eqn:E. cbn [fst] in Hin.
    destruct Hin as [Hin|Hin]; [inversion Hin; exists k0, 0; repeat split; lia|].
    apply (Step c0). now rewrite E.
  - destruct (task_events tid (k0 + 1) _ ops) as [l e] eqn:E. cbn [fst] in Hin.
    destruct Hin as [Hin|Hin].
    + inversion Hin. eexists k0, _. split; [reflexivity|]. split; [lia|].
      destruct (cms (c0 + inn) <=? cms (c0 + lim)); lia.
    + eapply Step. now rewrite E.
  - destruct (task_events tid (k0 + 1) _ ops) as [l e] eqn:E. cbn [fst] in Hin.
    apply in_app_or in Hin as [Hin|Hin].
    + apply interval_events_aux in Hin. exists k0, 3. repeat split; auto; lia.
    + eapply Step. now rewrite E.
Qed.

Lemma tasks_events_tid : forall ts tid0 tag c,
  In (tag, c) (tasks_events tid0 ts) ->
  exists tid k aux, tag = mk_tag tid k aux /\ tid0 <= tid /\ k < N.of_nat (length (t_ops (nth (N.to_nat (tid - tid0)) ts {| t_ops := []; t_panics := false |}))) + 1 /\ aux < 4.
Proof.
  induction ts as [|t ts IH]; intros tid0 tag c Hin; [destruct Hin|].
  cbn [tasks_events] in Hin. apply in_app_or in Hin as [Hin|Hin].
  - destruct (task_events_tid _ _ _ _ _ _ Hin) as (k & aux & A & B & C).
    exists tid0, k, aux. rewrite N.sub_diag. cbn. repeat split; auto; lia.
  - destruct (IH _ _ _ Hin) as (tid & k & aux & A & B & C & D).
    exists tid, k, aux. repeat split; auto; try lia.
    replace (N.to_nat (tid - tid0)) with (S (N.to_nat (tid - (tid0 + 1)))) by lia. exact C.
Qed.

Definition small_script (sc : script) : Prop :=
  (length (s_main sc) < 1000)%nat /\
  Forall (fun t => (length (t_ops t) < 999)%nat) (s_tasks sc).

Lemma tasks_events_small : forall ts tid0 tag c,
  Forall (fun t => (length (t_ops t) < 999)%nat) ts ->
  In (tag, c) (tasks_events tid0 ts) ->
  exists tid k aux, tag = mk_tag tid k aux /\ tid0 <= tid /\ k < 1000 /\ aux < 4.
Proof.
  induction ts as [|t ts IH]; intros tid0 tag c Hs Hin; [destruct Hin|].
  inversion Hs as [|? ? H1 H2]; subst.
  cbn [tasks_events] in Hin. apply in_app_or in Hin as [Hin|Hin].
  - destruct (task_events_tid _ _ _ _ _ _ Hin) as (k & aux & A & B & C).
    exists tid0, k, aux. repeat split; auto; lia.
  - destruct (IH _ _ _ H2 Hin) as (tid & k & aux & A & B & C & D).
    exists tid, k, aux. repeat split; auto; lia.
Qed.

(* a clock read tagged as the k-th op of the main future is the Obs at index k
   and carries the clock the main future has when it gets there *)
Lemma main_obs_clock sc k c :
  small_script sc -> k < 1000 -> In (mk_tag 0 k 0, c) (all_events sc) ->
  exists j, k = N.of_nat j /\ nth_error (s_main sc) j = Some Obs /\
            c = snd (task_events 0 0 0 (firstn j (s_main sc))).
Proof.
  intros (Hm & Ht) Hk Hin. unfold all_events in Hin.
  apply in_app_or in Hin as [Hin|Hin]; [|apply in_app_or in Hin as [Hin|Hin]].
  - destruct (task_events_obs (s_main sc) 0 0 0 k c ltac:(lia) Hk Hin) as (j & A & B & C).
    exists j. split; [lia|]. split; [exact B|exact C].
  - exfalso. assert (Hc : exists c', (mk_tag 0 k 0, c) = (end_tag, c')).
    { destruct (s_end sc); cbn in Hin; try contradiction; destruct Hin as [Hin|[]]; eauto. }
    destruct Hc as [c' Hc]. inversion Hc as [[Hg Hc2]]. unfold end_tag in Hg.
    apply mk_tag_inj in Hg as (Hx & _); lia.
  - exfalso. destruct (tasks_events_small _ _ _ _ Ht Hin) as (tid & k' & aux & A & B & C & D).
    apply mk_tag_inj in A as (E & _); lia.
Qed.

Lemma reads_event tk sc j tag off :
  0 < tk -> In (tag, off) (reads (sw_of_script tk sc) j) ->
  (tag = ticker_tag /\ off = 0) \/ In (tag, N.of_nat j * wtick_of tk + off) (all_events sc).
Proof.
  intros Ht H. cbn [reads sw_of_script] in H. apply in_app_or in H as [H|H].
  - destruct (s_ticker sc); [|destruct H]. destruct H as [H|[]]. inversion H. now left.
  - right. apply in_map_iff in H as ((tg & clk) & E & H). apply filter_In in H as [Hin Hj]. cbn in *.
    inversion E; subst tag off. apply N.eqb_eq in Hj.
    pose proof (wtick_pos tk Ht) as Hw.
    pose proof (N.div_mod clk (wtick_of tk) ltac:(lia)) as D. rewrite Hj in D.
    replace (N.of_nat j * wtick_of tk + (clk - N.of_nat j * wtick_of tk)) with clk; [exact Hin|].
    rewrite (N.mul_comm (N.of_nat j)). set (x := wtick_of tk * N.of_nat j) in *.
    set (m := clk mod wtick_of tk) in *. lia.
Qed.

Lemma scripted_read_clock s order s' res log o r sc k :
  step s order = (s', res, log) -> In o log ->
  nth_error (rts s) (o_host o) = Some r ->
  sw r (pred (starts r)) = sw_of_script (tick s) sc ->
  wtick s = wtick_of (tick s) -> 0 < tick s -> small_script sc ->
  o_tag o = mk_tag 0 k 0 -> k < 1000 ->
  exists j, k = N.of_nat j /\ nth_error (s_main sc) j = Some Obs /\
            o_clk o = snd (task_events 0 0 0 (firstn j (s_main sc))) /\
            o_epoch o = epoch s + o_sim o.
Proof.
  intros H Ho Er Esw Hw Ht Hs Htag Hk.
  destruct (step_log_sound _ _ _ _ _ _ H Ho) as (r0 & A & B & C).
  rewrite Er in A. inversion A; subst r0.
  unfold mk_reads in C. apply in_map_iff in C as ((tag & off) & E & Hto).
  unfold cur_sw in Hto. rewrite Esw in Hto.
  assert (Eo : o_tag o = tag /\ o_clk o = N.of_nat (polls r) * wtick s + off /\
               o_epoch o = epoch s + o_sim o) by (rewrite <- E; cbn; auto).
  destruct Eo as (E1 & E2 & E3). rewrite Htag in E1. subst tag.
  destruct (reads_event _ _ _ _ _ Ht Hto) as [[Hg _]|Hin].
  - exfalso. unfold ticker_tag in Hg. apply mk_tag_inj in Hg as (Hc & _); lia.
  - rewrite <- Hw, <- E2 in Hin.
    destruct (main_obs_clock sc k (o_clk o) Hs Hk Hin) as (j & J1 & J2 & J3). eauto.
Qed.

Lemma firstn_app_exact {A} (l1 l2 : list A) : firstn (length l1) (l1 ++ l2) = l1.
Proof. rewrite firstn_app, Nat.sub_diag, firstn_all. cbn. apply app_nil_r. Qed.

(* THE timer-exactness statement: whole-ms tick, scripted main future
   `.. obs; sleep(d); obs ..` with d whole ms, any history in between without a
   failed step and without a bounce of this host (crashes / bounces of others,
   registrations, runs allowed): the second read sees elapsed(), sim_elapsed()
   and since_epoch() exactly d after the first. *)
Theorem c05_timer_exact_scripted_lemma
  s1 ord1 s1' res1 log1 o1 es ord2 s2' res2 log2 o2 h r1 scs pre d post :
  lockstep s1 -> wtick s1 = wtick_of (tick s1) -> aligned (tick s1) -> 0 < tick s1 ->
  step s1 ord1 = (s1', res1, log1) -> In o1 log1 -> o_host o1 = h ->
  nth_error (rts s1) h = Some r1 ->
  (forall inc, sw r1 inc = sw_of_script (tick s1) (scs inc)) ->
  small_script (scs (o_inc o1)) ->
  s_main (scs (o_inc o1)) = pre ++ Obs :: Sleep d :: Obs :: post -> aligned d ->
  o_tag o1 = mk_tag 0 (N.of_nat (length pre)) 0 ->
  o_tag o2 = mk_tag 0 (N.of_nat (length pre) + 2) 0 ->
  no_failed s1 (Step ord1 :: es) -> no_bounce_of h es ->
  step (exec s1' es) ord2 = (s2', res2, log2) -> In o2 log2 -> o_host o2 = h ->
  o_elapsed o2 = o_elapsed o1 + d /\ o_sim o2 = o_sim o1 + d /\ o_epoch o2 = o_epoch o1 + d.
Proof.
  intros Hl Hw Hal Ht E1 Ho1 Hh1 Er1 Hsw Hsm Hmain Hd Tg1 Tg2 Hnf Hnb E2 Ho2 Hh2.
  assert (Hw' : wtick s1 = tick s1) by (rewrite Hw; now apply wtick_whole).
  destruct (c05_timer_lockstep_lemma _ _ _ _ _ _ _ _ _ _ _ _ _ Hl Hw' E1 Ho1 Hh1 Hnf Hnb E2 Ho2 Hh2)
    as (Hinc & Hel & Hsim).
  set (sc := scs (o_inc o1)) in *.
  assert (Hlen : (length pre + 3 <= length (s_main sc))%nat)
    by (rewrite Hmain, app_length; cbn; lia).
  destruct Hsm as (Hm & Htk).
  (* first read *)
  destruct (step_log_sound _ _ _ _ _ _ E1 Ho1) as (ra & Aa & _ & Ca).
  rewrite Hh1, Er1 in Aa. inversion Aa; subst ra.
  assert (Hinc1 : o_inc o1 = pred (starts r1)).
  { unfold mk_reads in Ca. apply in_map_iff in Ca as (x & <- & _). reflexivity. }
  destruct (scripted_read_clock _ _ _ _ _ o1 r1 sc _ E1 Ho1 ltac:(now rewrite Hh1)
              ltac:(rewrite <- Hinc1; apply Hsw) Hw Ht (conj Hm Htk) Tg1 ltac:(lia))
    as (j1 & J1 & _ & K1 & P1).
  apply Nat2N.inj in J1. subst j1.
  rewrite Hmain, firstn_app_exact in K1.
  (* second read: same incarnation, same script *)
  destruct (step_params _ _ _ _ _ E1) as (Q1 & Q2 & _ & Q4 & _).
  destruct (exec_params es s1') as (P2 & P3).
  destruct (step_evolves _ _ _ _ _ E1) as (_ & R). destruct (R h r1 Er1) as (r1' & F1 & G1).
  destruct (base_stable_exec h es s1' r1' F1 Hnb) as (r2 & F2 & _ & G3 & G4).
  assert (Hst : starts r2 = starts r1) by (rewrite G3; apply (ev_starts _ _ _ G1)).
  assert (Hsw2 : sw r2 = sw r1) by (rewrite G4; apply (ev_sw _ _ _ G1)).
  assert (Hep : epoch (exec s1' es) = epoch s1).
  { rewrite <- Q4. clear. generalize s1' as s. induction es as [|e t IH]; intro s; cbn; auto.
    rewrite IH. now destruct (c05_monotone_lemma s e) as (_ & M & _). }
  destruct (scripted_read_clock _ _ _ _ _ o2 r2 sc (N.of_nat (length pre) + 2) E2 Ho2
              ltac:(now rewrite Hh2)) as (j2 & J2 & _ & K2 & P2').
  { rewrite Hst, Hsw2, <- Hinc1, P2, Q1. apply Hsw. }
  { rewrite P2, P3, Q1, Q2. exact Hw. }
  { rewrite P2, Q1. exact Ht. }
  { exact (conj Hm Htk). }
  { exact Tg2. }
  { lia. }
  assert (j2 = (length pre + 2)%nat) by lia. subst j2.
  replace (firstn (length pre + 2) (s_main sc)) with (pre ++ [Obs; Sleep d]) in K2.
  2:{ rewrite Hmain. replace (pre ++ Obs :: Sleep d :: Obs :: post)
        with ((pre ++ [Obs; Sleep d]) ++ Obs :: post) by (now rewrite <- app_assoc).
      replace (length pre + 2)%nat with (length (pre ++ [Obs; Sleep d])) by (rewrite app_length; cbn; lia).
      now rewrite firstn_app_exact. }
  rewrite task_events_app in K2.
  destruct (task_events 0 0 0 pre) as [l1 c1] eqn:Ep. cbn [snd] in K1.
  destruct (task_events_aligned pre 0 0 0 aligned_0) as (_ & Ac). rewrite Ep in Ac. cbn [snd] in Ac.
  cbn [task_events snd] in K2. rewrite (cms_aligned (c1 + d)) in K2 by (now apply aligned_add).
  cbn [snd] in K2.
  repeat split; lia.
Qed.
