(* TV.Uring.Model — executable model of crates/turmoil-io-uring (simulated io_uring).
   No proofs in this file.

   Correspondence of names:
     has_unsupported   = squeue::Flags::has_unsupported
     push              = squeue::SubmissionQueue::push
     swap_remove       = Vec::swap_remove             (order of `inflight` is kept faithfully)
     cancel            = sim::RingState::cancel
     submit_entries    = the `for entry in entries` loop of submit::schedule_pending
     submit            = submit::schedule_pending (Submitter::submit / submit_and_wait / submit_with_args)
     ready_cq_count    = sim::RingState::ready_cq_count
     sync              = cqueue::CompletionQueue::sync
     promote_loop      = the `while i < inflight.len()` loop of sim::RingState::promote_ready
     reorder           = `matured.shuffle(rng)`: the permutation is an ARGUMENT (a list of (user_data,
                         result) pairs giving the order in which matured entries are to be queued)
     promote           = sim::RingState::promote_ready
     exec              = sim::PendingApply::execute (exec_read / exec_write / exec_fsync, faults off)
     next              = <cqueue::CompletionQueue as Iterator>::next (pop_ready + execute)
     readable          = the readiness snapshot of async_fd::AsyncFd::readable
     hstep HNew        = IoUring::new / Builder::build;  HDrop = Drop for IoUring
     hstep HCrash      = host::IoUringHostState::crash (called by Sim::crash)

   The filesystem is a parameter: the state type and the synchronous-API effect
   functions are Section variables (bundled in one record).  The sampled latency
   of every scheduled op is an argument of Submit; the shuffle of every matured
   batch is an argument of Next.  `c_sid` is a ghost submission id (no code
   counterpart, erased by enc_hobs). *)
From TV.Lib Require Import Base.
From TV.Uring Require Import Gen.
Open Scope N_scope.

(* The synchronous file API the ring is compared with.  fd, offset, length are
   numbers, data are byte lists; results are the values a CQE carries (byte
   count >= 0, or a negative errno). *)
(* what a descriptor is used for: a read needs read access, a write needs
   write access, fsync only needs the descriptor to be open *)
Inductive use := URead | UWrite | USync.

Record fsapi := {
  FS : Type;
  fs_ok    : FS -> N -> use -> bool;                     (* fd is in Fs::open_handles and was opened with
                                                            the access this use needs (Fs::unreadable_fds /
                                                            unwritable_fds) *)
  fs_read  : FS -> N -> N -> N -> FS * Z * list N;       (* fd off len -> state, result, bytes put in the buffer *)
  fs_write : FS -> N -> N -> list N -> FS * Z;           (* fd off data *)
  fs_fsync : FS -> N -> FS * Z }.

Definition EBADF : Z := - Z.of_N errno_EBADF.
Definition ECANCELED : Z := - Z.of_N errno_ECANCELED.
Definition ENOENT : Z := - Z.of_N errno_ENOENT.
Definition EINVAL : Z := - Z.of_N errno_EINVAL.

Inductive op :=
| Read (fd off len : N) | Write (fd off : N) (data : list N) | Fsync (fd : N) | Cancel (target : N).
Record sqe := { s_op : op; s_ud : N; s_flags : N }.

Definition rejected_mask : N :=
  N.shiftl 1 flag_FIXED_FILE_shift + N.shiftl 1 flag_IO_DRAIN_shift + N.shiftl 1 flag_IO_LINK_shift
  + N.shiftl 1 flag_IO_HARDLINK_shift + N.shiftl 1 flag_BUFFER_SELECT_shift.
Definition has_unsupported (f : N) : bool := negb (N.land f rejected_mask =? 0).

(* sim::PendingApply *)
Inductive apply := ARead (fd off len : N) | AWrite (fd off : N) (data : list N) | AFsync (fd : N) | AErr (e : Z).
(* sim::ScheduledCqe + ghost sid *)
Record scqe := { c_when : N; c_ud : N; c_app : apply; c_sid : N }.

Record ring := {
  depth : N;
  sq : list sqe;
  inflight : list scqe;
  ready : list scqe;
  visible : N;          (* CompletionQueue::visible of the one live handle (None = 0) *)
  nsid : N              (* ghost: next submission id *)
}.

Definition new_ring (d : N) : ring :=
  {| depth := d; sq := []; inflight := []; ready := []; visible := 0; nsid := 0 |}.

Definition set_sq (r : ring) v :=
  {| depth := depth r; sq := v; inflight := inflight r; ready := ready r; visible := visible r; nsid := nsid r |}.
Definition set_inflight (r : ring) v :=
  {| depth := depth r; sq := sq r; inflight := v; ready := ready r; visible := visible r; nsid := nsid r |}.
Definition set_ready (r : ring) v :=
  {| depth := depth r; sq := sq r; inflight := inflight r; ready := v; visible := visible r; nsid := nsid r |}.
Definition set_visible (r : ring) v :=
  {| depth := depth r; sq := sq r; inflight := inflight r; ready := ready r; visible := v; nsid := nsid r |}.
Definition bump_sid (r : ring) :=
  {| depth := depth r; sq := sq r; inflight := inflight r; ready := ready r; visible := visible r; nsid := nsid r + 1 |}.

(* SubmissionQueue::push *)
Definition push (r : ring) (e : sqe) : ring * bool :=
  if depth r <=? N.of_nat (length (sq r)) then (r, false) else (set_sq r (sq r ++ [e]), true).

(* Vec::swap_remove *)
Definition swap_remove {A} (i : nat) (l : list A) : list A :=
  match nth_error l i, rev l with
  | Some _, z :: _ =>
      if Nat.eqb (S i) (length l) then removelast l
      else firstn i l ++ z :: removelast (skipn (S i) l)
  | _, _ => l
  end.
(* VecDeque::remove *)
Definition remove_nth {A} (i : nat) (l : list A) : list A := firstn i l ++ skipn (S i) l.

(* iter().position(|s| s.user_data == u) together with the element *)
Fixpoint find_ud (u : N) (l : list scqe) : option (nat * scqe) :=
  match l with
  | [] => None
  | c :: r => if c_ud c =? u then Some (O, c)
              else match find_ud u r with Some (i, x) => Some (S i, x) | None => None end
  end.

Definition mk (w u : N) (a : apply) (s : N) : scqe := {| c_when := w; c_ud := u; c_app := a; c_sid := s |}.

(* RingState::cancel; `csid` is the canceller's ghost id, the target keeps its own. *)
Definition cancel (r : ring) (cud tud now csid : N) : ring :=
  match find_ud tud (inflight r) with
  | Some (i, c) =>
      set_inflight r (swap_remove i (inflight r)
                      ++ [mk now tud (AErr ECANCELED) (c_sid c); mk now cud (AErr 0%Z) csid])
  | None =>
      match find_ud tud (ready r) with
      | Some (i, c) =>
          set_inflight (set_ready r (remove_nth i (ready r)))
            (inflight r ++ [mk now tud (AErr ECANCELED) (c_sid c); mk now cud (AErr 0%Z) csid])
      | None => set_inflight r (inflight r ++ [mk now cud (AErr ENOENT) csid])
      end
  end.

Definition sched (r : ring) (c : scqe) : ring := set_inflight r (inflight r ++ [c]).

Definition take_lat (lats : list N) : N * list N :=
  match lats with [] => (0, []) | x :: t => (x, t) end.

(* One iteration of the loop in schedule_pending. *)
Definition submit_one (r : ring) (now : N) (lats : list N) (e : sqe) : ring * list N :=
  let sid := nsid r in
  let r := bump_sid r in
  if has_unsupported (s_flags e) then (sched r (mk now (s_ud e) (AErr EINVAL) sid), lats)
  else match s_op e with
       | Read fd off len => let '(l, t) := take_lat lats in (sched r (mk (now + l) (s_ud e) (ARead fd off len) sid), t)
       | Write fd off d => let '(l, t) := take_lat lats in (sched r (mk (now + l) (s_ud e) (AWrite fd off d) sid), t)
       | Fsync fd => let '(l, t) := take_lat lats in (sched r (mk (now + l) (s_ud e) (AFsync fd) sid), t)
       | Cancel tud => (cancel r (s_ud e) tud now sid, lats)
       end.

Fixpoint submit_entries (r : ring) (now : N) (lats : list N) (es : list sqe) : ring :=
  match es with
  | [] => r
  | e :: es' => let '(r', lats') := submit_one r now lats e in submit_entries r' now lats' es'
  end.

Definition submit (r : ring) (now : N) (lats : list N) : ring * N :=
  (submit_entries (set_sq r []) now lats (sq r), N.of_nat (length (sq r))).

Definition due (now : N) (c : scqe) : bool := c_when c <=? now.

Definition ready_cq_count (r : ring) (now : N) : N :=
  N.of_nat (length (ready r)) + N.of_nat (length (filter (due now) (inflight r))).

(* promote_ready's loop: `i` only advances past entries that are not due. *)
Fixpoint promote_loop (fuel : nat) (now : N) (i : nat) (infl matured : list scqe) : list scqe * list scqe :=
  match fuel with
  | O => (infl, matured)
  | S f =>
      match nth_error infl i with
      | None => (infl, matured)
      | Some c => if due now c then promote_loop f now i (swap_remove i infl) (matured ++ [c])
                  else promote_loop f now (S i) infl matured
      end
  end.

(* The shuffle: `order` lists (user_data, result) pairs; matured entries are
   queued in that order (each time the first entry with that user_data whose
   effect is that error constant, else the first one that executes an operation),
   entries not named keep their relative order at the end.  Every permutation
   of a batch with distinct user_data is obtained by some `order`
   (C18_proofs / Facts.reorder_onto).  The result component only serves to tell
   apart entries that share a user_data (a cancelled entry and a live one). *)
Definition is_err (z : Z) (c : scqe) : bool :=
  match c_app c with AErr e => Z.eqb e z | _ => false end.
Definition is_op (c : scqe) : bool :=
  match c_app c with AErr _ => false | _ => true end.
(* an entry whose effect is exactly the error constant z ... *)
Definition exact (k : N * Z) (c : scqe) : bool := (c_ud c =? fst k) && is_err (snd k) c.
(* ... else an entry that executes an operation (any result except -ECANCELED,
   which only the cancellation constant produces) *)
Definition loose (k : N * Z) (c : scqe) : bool :=
  (c_ud c =? fst k) && is_op c && negb (Z.eqb (snd k) ECANCELED).

Fixpoint pick_by (p : scqe -> bool) (l : list scqe) : option (scqe * list scqe) :=
  match l with
  | [] => None
  | c :: r => if p c then Some (c, r)
              else match pick_by p r with Some (x, r') => Some (x, c :: r') | None => None end
  end.

Definition pick (k : N * Z) (l : list scqe) : option (scqe * list scqe) :=
  match pick_by (exact k) l with
  | Some x => Some x
  | None => pick_by (loose k) l
  end.

Fixpoint reorder (order : list (N * Z)) (batch : list scqe) : list scqe :=
  match order with
  | [] => batch
  | u :: o => match pick u batch with
              | Some (c, rest) => c :: reorder o rest
              | None => reorder o batch
              end
  end.

(* `order` describes the ready queue from its current head: the keys that
   belong to entries already queued are consumed first (one key per entry). *)
Fixpoint drop_key (e : scqe) (order : list (N * Z)) : list (N * Z) :=
  match order with
  | [] => []
  | k :: t => if exact k e || loose k e then t else k :: drop_key e t
  end.
Definition consume (rdy : list scqe) (order : list (N * Z)) : list (N * Z) :=
  fold_left (fun o e => drop_key e o) rdy order.

Definition promote (r : ring) (now : N) (order : list (N * Z)) : ring :=
  let '(infl, matured) := promote_loop (length (inflight r)) now 0 (inflight r) [] in
  set_ready (set_inflight r infl) (ready r ++ reorder (consume (ready r) order) matured).

(* What a completion-queue iteration yields: the CQE (ud, result), the bytes a
   read put into its buffer, and ghost data (sid, the instant it was scheduled
   for, the effect that was executed). *)
Record yield := { y_ud : N; y_res : Z; y_data : list N; y_sid : N; y_when : N; y_app : apply }.

(* Accepted-submission record (ghost log of Submit). *)
Record acc := { a_sid : N; a_ud : N; a_op : op; a_flags : N; a_when : N }.

Inductive robs :=
| OPush (ok : bool) | OSubmit (n : N) (accepted : list acc) | OSync (n : N)
| ONext (y : option yield) | OReadable (b : bool) | OUnit.

Inductive rv :=
| Push (e : sqe) | Submit (now : N) (lats : list N) | CqNew | Sync (now : N)
| Next (now : N) (order : list (N * Z)) | Readable (now : N).

(* ghost: the accepted records of a submit, computed alongside submit_entries *)
Definition acc_one (sid now : N) (lats : list N) (e : sqe) : acc * list N :=
  if has_unsupported (s_flags e) then
    ({| a_sid := sid; a_ud := s_ud e; a_op := s_op e; a_flags := s_flags e; a_when := now |}, lats)
  else match s_op e with
       | Cancel _ => ({| a_sid := sid; a_ud := s_ud e; a_op := s_op e; a_flags := s_flags e; a_when := now |}, lats)
       | _ => let '(l, t) := take_lat lats in
              ({| a_sid := sid; a_ud := s_ud e; a_op := s_op e; a_flags := s_flags e; a_when := now + l |}, t)
       end.
Fixpoint acc_list (sid now : N) (lats : list N) (es : list sqe) : list acc :=
  match es with
  | [] => []
  | e :: es' => let '(a, lats') := acc_one sid now lats e in a :: acc_list (sid + 1) now lats' es'
  end.

Section WithFs.
Variable A : fsapi.

(* PendingApply::execute with every fault probability 0 and no O_DIRECT. *)
Definition exec (fs : FS A) (a : apply) : FS A * Z * list N :=
  match a with
  | AErr e => (fs, e, [])
  | ARead fd off len => if fs_ok A fs fd URead then fs_read A fs fd off len else (fs, EBADF, [])
  | AWrite fd off d => if fs_ok A fs fd UWrite then let '(fs', z) := fs_write A fs fd off d in (fs', z, [])
                       else (fs, EBADF, [])
  | AFsync fd => if fs_ok A fs fd USync then let '(fs', z) := fs_fsync A fs fd in (fs', z, [])
                 else (fs, EBADF, [])
  end.

Definition next (r : ring) (fs : FS A) (now : N) (order : list (N * Z)) : ring * FS A * option yield :=
  if visible r =? 0 then (r, fs, None)
  else
    let r1 := promote r now order in
    match ready r1 with
    | [] => (r1, fs, None)
    | c :: rest =>
        let '(fs', z, d) := exec fs (c_app c) in
        (set_visible (set_ready r1 rest) (visible r - 1), fs',
         Some {| y_ud := c_ud c; y_res := z; y_data := d; y_sid := c_sid c; y_when := c_when c; y_app := c_app c |})
    end.

Definition rstep (r : ring) (fs : FS A) (e : rv) : ring * FS A * robs :=
  match e with
  | Push q => let '(r', ok) := push r q in (r', fs, OPush ok)
  | Submit now lats => let '(r', n) := submit r now lats in (r', fs, OSubmit n (acc_list (nsid r) now lats (sq r)))
  | CqNew => (set_visible r 0, fs, OUnit)
  | Sync now => (set_visible r (ready_cq_count r now), fs, OSync (ready_cq_count r now))
  | Next now order => let '(r', fs', y) := next r fs now order in (r', fs', ONext y)
  | Readable now => (r, fs, OReadable (negb (ready_cq_count r now =? 0)))
  end.

(* ---- the per-host registry (host::IoUringHostState) ---- *)
Record host := { rings : list (N * ring); hfs : FS A; nrid : N }.

Inductive hev :=
| HNew (entries : N)
| HRing (rid : N) (e : rv)
| HDrop (rid : N)
| HCrash
| HFs (f : FS A -> FS A * (Z * list N)).    (* any other activity on the file system, incl. the synchronous API *)

Inductive hobs :=
| ONew (rid : option N) | ORing (rid : N) (o : robs) | OGone (rid : N) (e : rv) | OFs (z : Z) (d : list N) | ONone.

Fixpoint get_ring (rid : N) (l : list (N * ring)) : option ring :=
  match l with
  | [] => None
  | (k, r) :: t => if k =? rid then Some r else get_ring rid t
  end.
Fixpoint set_ring (rid : N) (r : ring) (l : list (N * ring)) : list (N * ring) :=
  match l with
  | [] => []
  | (k, x) :: t => if k =? rid then (k, r) :: t else (k, x) :: set_ring rid r t
  end.
Definition del_ring (rid : N) (l : list (N * ring)) : list (N * ring) :=
  filter (fun kr => negb (fst kr =? rid)) l.

(* u32::next_power_of_two for entries >= 1 *)
Definition next_pow2 (n : N) : N := 2 ^ N.log2_up n.

Definition hstep (h : host) (e : hev) : host * hobs :=
  match e with
  | HNew entries =>
      if entries =? 0 then (h, ONew None)
      else ({| rings := rings h ++ [(nrid h, new_ring (next_pow2 entries))]; hfs := hfs h; nrid := nrid h + 1 |},
            ONew (Some (nrid h)))
  | HRing rid ev =>
      match get_ring rid (rings h) with
      | None => (h, OGone rid ev)        (* push -> PushError, submit -> NotFound, sync -> 0, next -> None *)
      | Some r => let '(r', fs', o) := rstep r (hfs h) ev in
                  ({| rings := set_ring rid r' (rings h); hfs := fs'; nrid := nrid h |}, ORing rid o)
      end
  | HDrop rid => ({| rings := del_ring rid (rings h); hfs := hfs h; nrid := nrid h |}, ONone)
  | HCrash => ({| rings := []; hfs := hfs h; nrid := nrid h |}, ONone)
  | HFs f => let '(fs', (z, d)) := f (hfs h) in ({| rings := rings h; hfs := fs'; nrid := nrid h |}, OFs z d)
  end.

Definition hinit (fs : FS A) : host := {| rings := []; hfs := fs; nrid := 0 |}.

Fixpoint hrun (h : host) (es : list hev) : host * list hobs :=
  match es with
  | [] => (h, [])
  | e :: es' => let '(h', o) := hstep h e in let '(h'', os) := hrun h' es' in (h'', o :: os)
  end.

(* Plain-data encoding for the correspondence: (tag, integers, bytes). *)
Definition Zb (b : bool) : Z := if b then 1%Z else 0%Z.
Definition enc_hobs (o : hobs) : N * list Z * list N :=
  match o with
  | ONew None => (0, [(-1)%Z], [])
  | ONew (Some k) => (0, [Z.of_N k], [])
  | ORing _ (OPush ok) => (1, [Zb ok], [])
  | ORing _ (OSubmit n _) => (2, [Z.of_N n], [])
  | ORing _ (OSync n) => (3, [Z.of_N n], [])
  | ORing _ (ONext None) => (4, [], [])
  | ORing _ (ONext (Some y)) => (4, [Z.of_N (y_ud y); y_res y], y_data y)
  | ORing _ (OReadable b) => (7, [Zb b], [])
  | ORing _ OUnit => (6, [], [])
  | OGone _ (Push _) => (1, [0%Z], [])
  | OGone _ (Submit _ _) => (2, [(-1)%Z], [])
  | OGone _ (Sync _) => (3, [0%Z], [])
  | OGone _ (Next _ _) => (4, [], [])
  | OGone _ (Readable _) => (7, [(-1)%Z], [])
  | OGone _ CqNew => (6, [], [])
  | OFs z d => (5, [z], d)
  | ONone => (6, [], [])
  end.

Definition hrun_enc (fs : FS A) (es : list hev) : list (N * list Z * list N) :=
  map enc_hobs (snd (hrun (hinit fs) es)).

End WithFs.

Arguments rings {A}.
Arguments hfs {A}.
Arguments nrid {A}.
Arguments HNew {A}.
Arguments HRing {A}.
Arguments HDrop {A}.
Arguments HCrash {A}.
Arguments HFs {A}.
