(* Property C18 — every io_uring submission completes exactly once with the
   right result.  This file only states the theorems and closes them with the
   lemmas of C18_proofs.v; see DESIGN.md section 5 (C18).

   Every theorem is stated for an arbitrary file system `A : fsapi` (state type
   and synchronous-API effect functions are parameters), every queue depth `d`,
   every initial file-system state, every history `es` of ring events, every
   value of the latency arguments of Submit and of the shuffle argument of
   Next.  `accepted os` / `yields os` are the ghost logs of a history: the
   submissions accepted by `submit` (with ghost id, user_data, operation, the
   instant they were scheduled for) and the completions handed out by the
   completion-queue iterator. *)
From TV.Lib Require Import Base.
From Coq Require Import Permutation.
From TV.Uring Require Import Gen Model Concrete Facts C18_proofs.
Open Scope N_scope.

(* At any time every accepted submission is in exactly one of in-flight /
   matured-ready / yielded (the three id lists together are a duplicate-free
   permutation of the accepted ids), so it is yielded at most once; a yielded
   completion carries the user_data of its submission and either was cancelled
   (it completes with -ECANCELED, nothing is executed, no byte is read) or
   still has its own effect and instant.  For a cancel submission the
   `faithful` effect is the constant 0 or -ENOENT. *)
Theorem c18_exactly_once : forall (A : fsapi) d (fs : FS A) es r fs' os,
  rrun A (new_ring d) fs es = (r, fs', os) ->
  NoDup (map a_sid (accepted os)) /\
  Permutation (map c_sid (inflight r) ++ map c_sid (ready r) ++ map y_sid (yields os)) (map a_sid (accepted os)) /\
  NoDup (map c_sid (inflight r) ++ map c_sid (ready r) ++ map y_sid (yields os)) /\
  (forall y, In y (yields os) -> exists a, In a (accepted os) /\ a_sid a = y_sid y /\ a_ud a = y_ud y /\
      ((y_app y = AErr ECANCELED /\ y_res y = ECANCELED /\ y_data y = []) \/
       (y_when y = a_when a /\ faithful a (y_app y)))).
Proof. exact exactly_once_lemma. Qed.

(* With a clock that does not run backwards, a completion yielded by an
   iteration at `now` was scheduled for an instant <= now; and the instant an
   accepted submission is scheduled for is never before its submit call (it is
   submit time + the sampled latency). *)
Theorem c18_not_early : forall (A : fsapi) d (fs : FS A) es r fs' os,
  mono 0 es -> rrun A (new_ring d) fs es = (r, fs', os) ->
  Forall2 timely es os /\ Forall2 submitted_at es os.
Proof.
  intros A d fs es r fs' os M H. split.
  - eapply rrun_timely; [|exact M|exact H]. constructor.
  - eapply rrun_submitted; exact H.
Qed.

(* Nothing is visible early either: with a monotone clock, in every reachable
   state the count exposed by `sync` (and tested by AsyncFd::readable) at an
   instant `now` not before the last event is exactly the number of accepted,
   not yet yielded entries whose scheduled instant is <= now. *)
Theorem c18_visible_count : forall (A : fsapi) d (fs : FS A) es r fs' os now,
  mono 0 es -> rrun A (new_ring d) fs es = (r, fs', os) -> tlast 0 es <= now ->
  ready_cq_count r now = N.of_nat (length (filter (due now) (inflight r ++ ready r))).
Proof.
  intros A d fs es r fs' os now M H L.
  eapply visible_count_lemma; [|exact L]. eapply rrun_readydue; [|exact M|exact H]. constructor.
Qed.

(* The file system changes only through the yielded effects: replaying them on
   the initial state, once each, in yield order, gives the final state and
   exactly the results and buffer contents that were reported; and each such
   effect is the synchronous API applied to the submitted operation (or an
   error constant without effect: cancelled, rejected flag, cancel request). *)
Theorem c18_same_as_sync : forall (A : fsapi) d (fs : FS A) es r fs' os,
  rrun A (new_ring d) fs es = (r, fs', os) ->
  replay A fs (yields os) = (fs', map (fun y => (y_res y, y_data y)) (yields os)) /\
  (forall y, In y (yields os) -> exists a, In a (accepted os) /\ a_sid a = y_sid y /\
    (y_app y = AErr ECANCELED \/
     (has_unsupported (a_flags a) = false /\ is_io (a_op a) = true /\
      forall f, exec A f (y_app y) = sync_op A f (a_op a)) \/
     (exists e, y_app y = AErr e /\ forall f, exec A f (y_app y) = (f, e, [])))).
Proof.
  intros A d fs es r fs' os H. split; [eapply rrun_replay; exact H|eapply same_as_sync_history; exact H].
Qed.

(* In every reachable state the submission queue holds at most `depth`
   entries, and a push fails iff it holds exactly `depth`; a failed push
   changes nothing, a successful one appends the entry. *)
Theorem c18_push_full : forall (A : fsapi) d (fs : FS A) es r fs' os e,
  rrun A (new_ring d) fs es = (r, fs', os) ->
  N.of_nat (length (sq r)) <= depth r /\
  (snd (push r e) = false <-> N.of_nat (length (sq r)) = depth r) /\
  (snd (push r e) = false -> fst (push r e) = r) /\
  (snd (push r e) = true -> sq (fst (push r e)) = sq r ++ [e]).
Proof. exact push_full_lemma. Qed.

(* An entry with a rejected flag is scheduled for the submit instant itself
   with the constant -EINVAL, which has no effect when executed; and in every
   history its completion carries -EINVAL (or -ECANCELED if it was cancelled
   first) and touches no buffer. *)
Theorem c18_unsupported_flag :
  (forall r now lats e, has_unsupported (s_flags e) = true ->
     submit_one r now lats e = (sched (bump_sid r) (mk now (s_ud e) (AErr EINVAL) (nsid r)), lats)) /\
  (forall (A : fsapi) (fs : FS A), exec A fs (AErr EINVAL) = (fs, EINVAL, [])) /\
  (forall (A : fsapi) d (fs : FS A) es r fs' os,
     rrun A (new_ring d) fs es = (r, fs', os) ->
     forall y a, In y (yields os) -> In a (accepted os) -> a_sid a = y_sid y ->
     has_unsupported (a_flags a) = true ->
     (y_res y = EINVAL \/ y_res y = ECANCELED) /\ y_data y = [] /\ exists e, y_app y = AErr e).
Proof.
  split; [|split].
  - intros r now lats e U. unfold submit_one. now rewrite U.
  - reflexivity.
  - intros A d fs es r fs' os H. eapply unsupported_history; exact H.
Qed.

(* Executing a read, write or fsync whose descriptor is not open (or was not
   opened with the access the operation needs) gives -EBADF and leaves the file
   system and the buffer alone. *)
Theorem c18_closed_file : forall (A : fsapi) (fs : FS A) fd off len d,
  (fs_ok A fs fd URead = false -> exec A fs (ARead fd off len) = (fs, EBADF, [])) /\
  (fs_ok A fs fd UWrite = false -> exec A fs (AWrite fd off d) = (fs, EBADF, [])) /\
  (fs_ok A fs fd USync = false -> exec A fs (AFsync fd) = (fs, EBADF, [])).
Proof. intros A fs fd off len d. cbn. repeat split; intros H; now rewrite H. Qed.

(* Crash empties the ring registry and by itself does not touch the file
   system.  From then on every event addressed to a ring that existed before
   the crash is inert: its observation is "no such ring" (push refused, submit
   error, nothing visible, nothing yielded) and deleting all such events from
   the rest of the history leaves the final state - file system included -
   unchanged.  Ring ids are never reused, so nothing submitted before the crash
   ever completes or takes effect. *)
Theorem c18_crash_forgets : forall (A : fsapi) (fs : FS A) es1 es2,
  let h := fst (hrun A (hinit A fs) es1) in
  let hc := fst (hstep A h HCrash) in
  rings hc = [] /\ hfs hc = hfs h /\
  fst (hrun A hc es2) = fst (hrun A hc (filter (fun e => negb (below A (nrid h) e)) es2)) /\
  Forall2 (fun e o => below A (nrid h) e = true -> o = ONone \/ exists rid ev, o = OGone rid ev)
          es2 (snd (hrun A hc es2)).
Proof. exact crash_forgets_lemma. Qed.

(* Several rings on one host: an event addressed to one ring (or to none)
   leaves every other registered ring exactly as it was; the addressed ring
   changes by the single-ring step on the host's file system.  So the
   single-ring theorems above apply to each ring of a host history. *)
Theorem c18_ring_isolated : forall (A : fsapi) (fs : FS A) es e rid r,
  let h := fst (hrun A (hinit A fs) es) in
  get_ring rid (rings h) = Some r ->
  get_ring rid (rings (fst (hstep A h e))) =
    match e with
    | HRing k ev => if k =? rid then Some (fst (fst (rstep A r (hfs h) ev))) else Some r
    | HDrop k => if k =? rid then None else Some r
    | HCrash => None
    | _ => Some r
    end.
Proof.
  intros A fs es e rid r h G. apply ring_isolated_lemma; [|exact G].
  apply hrun_ridsbelow. intros k x. discriminate.
Qed.

(* Completeness of a late drain: in any state, once every in-flight entry is
   due, `sync` followed by as many iterations as there are in-flight + ready
   entries yields that many completions and leaves nothing behind - whatever
   the shuffle arguments.  With c18_exactly_once: after such a drain every
   accepted submission has been yielded exactly once. *)
Theorem c18_drain_completes : forall (A : fsapi) (r : ring) (fs : FS A) now orders,
  Forall (fun c => due now c = true) (inflight r) ->
  length orders = (length (inflight r) + length (ready r))%nat ->
  let '(r', _, os) := rrun A r fs (Sync now :: map (Next now) orders) in
  inflight r' = [] /\ ready r' = [] /\ length (yields os) = length orders.
Proof. exact drain_after_sync. Qed.

(* The shuffle argument reaches every permutation of a batch with distinct
   user_data, and is always a permutation. *)
Theorem c18_shuffle_complete :
  (forall order batch, Permutation (reorder order batch) batch) /\
  (forall batch target, Permutation target batch -> NoDup (map c_ud batch) ->
     reorder (map key target) batch = target).
Proof. split; [exact reorder_perm|exact reorder_onto]. Qed.

(* Non-vacuity on the concrete byte-array file system: a write and a read are
   submitted, mature and are yielded in the order chosen by the shuffle
   argument (the read sees the write or not accordingly); cancelling the write
   instead leaves the file empty; nothing is visible one tick early; a crash
   in between leaves the file empty and the old ring dead. *)
Definition wr : sqe := {| s_op := Write 0 1 [5; 6]; s_ud := 11; s_flags := 0 |}.
Definition rd : sqe := {| s_op := Read 0 0 4; s_ud := 12; s_flags := 0 |}.
Definition cn : sqe := {| s_op := Cancel 11; s_ud := 13; s_flags := 0 |}.
Definition pre : list (hev CFS) :=
  [CFs (x_open 0 0 3); CNew 2; CRing 0 (Push wr); CRing 0 (Push rd); CRing 0 (Push rd); CRing 0 (Submit 0 [100; 100])].
Definition drain (t : N) (order : list (N * Z)) : list (hev CFS) :=
  [CRing 0 CqNew; CRing 0 (Sync t); CRing 0 (Next t order); CRing 0 (Next t order); CRing 0 (Next t order); CFs (x_dump 0)].
Example c18_nonvacuous :
  crun 1 None (pre ++ drain 100 [(11, 2%Z); (12, 3%Z)]) =
    [(5, [0%Z], []); (0, [0%Z], []); (1, [1%Z], []); (1, [1%Z], []); (1, [0%Z], []); (2, [2%Z], []);
     (6, [], []); (3, [2%Z], []); (4, [11%Z; 2%Z], []); (4, [12%Z; 3%Z], [0; 5; 6]); (4, [], []); (5, [3%Z], [0; 5; 6])] /\
  crun 1 None (pre ++ drain 100 [(12, 0%Z); (11, 2%Z)]) =
    [(5, [0%Z], []); (0, [0%Z], []); (1, [1%Z], []); (1, [1%Z], []); (1, [0%Z], []); (2, [2%Z], []);
     (6, [], []); (3, [2%Z], []); (4, [12%Z; 0%Z], []); (4, [11%Z; 2%Z], []); (4, [], []); (5, [3%Z], [0; 5; 6])] /\
  crun 1 None (pre ++ drain 99 [(11, 2%Z); (12, 3%Z)]) =
    [(5, [0%Z], []); (0, [0%Z], []); (1, [1%Z], []); (1, [1%Z], []); (1, [0%Z], []); (2, [2%Z], []);
     (6, [], []); (3, [0%Z], []); (4, [], []); (4, [], []); (4, [], []); (5, [0%Z], [])] /\
  crun 1 None (pre ++ [CRing 0 (Push cn); CRing 0 (Submit 50 [])] ++ drain 100 [(11, (-125)%Z); (13, 0%Z); (12, 0%Z)]) =
    [(5, [0%Z], []); (0, [0%Z], []); (1, [1%Z], []); (1, [1%Z], []); (1, [0%Z], []); (2, [2%Z], []);
     (1, [1%Z], []); (2, [1%Z], []);
     (6, [], []); (3, [3%Z], []); (4, [11%Z; (-125)%Z], []); (4, [13%Z; 0%Z], []); (4, [12%Z; 0%Z], []); (5, [0%Z], [])] /\
  crun 1 None (pre ++ [CCrash; CFs x_crash] ++ drain 100 [(11, 2%Z); (12, 3%Z)]) =
    [(5, [0%Z], []); (0, [0%Z], []); (1, [1%Z], []); (1, [1%Z], []); (1, [0%Z], []); (2, [2%Z], []);
     (6, [], []); (5, [0%Z], []);
     (6, [], []); (3, [0%Z], []); (4, [], []); (4, [], []); (4, [], []); (5, [0%Z], [])].
Proof. repeat split; vm_compute; reflexivity. Qed.

Check c18_exactly_once : forall (A : fsapi) d (fs : FS A) es r fs' os,
  rrun A (new_ring d) fs es = (r, fs', os) ->
  NoDup (map a_sid (accepted os)) /\
  Permutation (map c_sid (inflight r) ++ map c_sid (ready r) ++ map y_sid (yields os)) (map a_sid (accepted os)) /\
  NoDup (map c_sid (inflight r) ++ map c_sid (ready r) ++ map y_sid (yields os)) /\
  (forall y, In y (yields os) -> exists a, In a (accepted os) /\ a_sid a = y_sid y /\ a_ud a = y_ud y /\
      ((y_app y = AErr ECANCELED /\ y_res y = ECANCELED /\ y_data y = []) \/
       (y_when y = a_when a /\ faithful a (y_app y)))).

Print Assumptions c18_exactly_once.
Print Assumptions c18_not_early.
Print Assumptions c18_visible_count.
Print Assumptions c18_same_as_sync.
Print Assumptions c18_push_full.
Print Assumptions c18_unsupported_flag.
Print Assumptions c18_closed_file.
Print Assumptions c18_crash_forgets.
Print Assumptions c18_ring_isolated.
Print Assumptions c18_drain_completes.
Print Assumptions c18_shuffle_complete.
Print Assumptions c18_nonvacuous.
