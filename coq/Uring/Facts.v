(* TV.Uring.Facts — list facts behind the ring bookkeeping (swap_remove,
   VecDeque::remove, the shuffle argument, the promotion loop). *)
From TV.Lib Require Import Base.
From Coq Require Import Permutation.
From TV.Uring Require Import Gen Model.
Open Scope N_scope.

Lemma nth_error_split' {A} (l : list A) i x :
  nth_error l i = Some x -> l = firstn i l ++ x :: skipn (S i) l.
Proof.
  revert i. induction l as [|a l IH]; intros [|i] H; cbn in *; try discriminate.
  - now inversion H.
  - f_equal. now apply IH.
Qed.

Lemma remove_nth_perm {A} (l : list A) i x :
  nth_error l i = Some x -> Permutation l (x :: remove_nth i l).
Proof.
  intros H. rewrite (nth_error_split' l i x H) at 1. unfold remove_nth.
  symmetry. apply Permutation_middle.
Qed.

Lemma removelast_last_rev {A} (l : list A) z t : rev l = z :: t -> l = removelast l ++ [z].
Proof.
  intros H. assert (L : l = rev t ++ [z]).
  { rewrite <- (rev_involutive l), H. reflexivity. }
  rewrite L at 2. rewrite removelast_last. exact L.
Qed.

Lemma swap_remove_perm {A} (l : list A) i x :
  nth_error l i = Some x -> Permutation l (x :: swap_remove i l).
Proof.
  intros H. unfold swap_remove. rewrite H.
  destruct (rev l) as [|z t] eqn:R.
  - apply (f_equal (@length A)) in R. rewrite rev_length in R.
    destruct l; [destruct i; discriminate|discriminate].
  - destruct (Nat.eqb (S i) (length l)) eqn:E.
    + apply Nat.eqb_eq in E.
      pose proof (removelast_last_rev l z t R) as L.
      assert (x = z).
      { rewrite L in H. rewrite nth_error_app2 in H.
        - assert (length (removelast l) = i).
          { apply (f_equal (@length A)) in L. rewrite app_length in L. cbn in L. lia. }
          rewrite H0, Nat.sub_diag in H. now inversion H.
        - apply (f_equal (@length A)) in L. rewrite app_length in L. cbn in L. lia. }
      subst. rewrite L at 1. apply Permutation_sym, Permutation_cons_append.
    + apply Nat.eqb_neq in E.
      pose proof (nth_error_split' l i x H) as Sp.
      assert (Hlt : (i < length l)%nat) by (apply nth_error_Some; congruence).
      set (tl := skipn (S i) l) in *.
      assert (Rt : exists t', rev tl = z :: t').
      { assert (tl <> []).
        { intro Z. apply (f_equal (@length A)) in Z. unfold tl in Z. rewrite skipn_length in Z. cbn in Z. lia. }
        clearbody tl. rewrite Sp in R. rewrite rev_app_distr in R. cbn in R. rewrite <- app_assoc in R.
        destruct (rev tl) as [|z' t'] eqn:Rt.
        - apply (f_equal (@rev A)) in Rt. rewrite rev_involutive in Rt. cbn in Rt. contradiction.
        - cbn in R. inversion R. subst. eauto. }
      destruct Rt as [t' Rt].
      pose proof (removelast_last_rev tl z t' Rt) as Lt.
      rewrite Sp at 1. rewrite Lt at 1.
      (* firstn ++ x :: (rl ++ [z])  ~  x :: firstn ++ z :: rl *)
      eapply perm_trans; [apply Permutation_sym, Permutation_middle|].
      constructor. apply Permutation_app_head.
      apply Permutation_sym, Permutation_cons_append.
Qed.

Lemma swap_remove_length {A} (l : list A) i x :
  nth_error l i = Some x -> S (length (swap_remove i l)) = length l.
Proof.
  intros H. apply swap_remove_perm in H. apply Permutation_length in H. cbn in H. lia.
Qed.

Lemma find_ud_nth u l i c : find_ud u l = Some (i, c) -> nth_error l i = Some c /\ c_ud c = u.
Proof.
  revert i. induction l as [|x l IH]; cbn; intros i H; [discriminate|].
  destruct (c_ud x =? u) eqn:E.
  - inversion H; subst. split; [reflexivity|now apply N.eqb_eq].
  - destruct (find_ud u l) as [[j y]|]; [|discriminate]. inversion H; subst. cbn. now apply IH.
Qed.

Lemma find_ud_none u l : find_ud u l = None -> forall c, In c l -> c_ud c <> u.
Proof.
  induction l as [|x l IH]; cbn; intros H c Hin; [contradiction|].
  destruct (c_ud x =? u) eqn:E; [discriminate|].
  destruct (find_ud u l) as [[j y]|] eqn:F; [discriminate|].
  destruct Hin as [<-|Hin]; [now apply N.eqb_neq|auto].
Qed.

Lemma pick_perm u l c r : pick u l = Some (c, r) -> Permutation l (c :: r) /\ c_ud c = u.
Proof.
  revert c r. induction l as [|x l IH]; cbn; intros c r H; [discriminate|].
  destruct (c_ud x =? u) eqn:E.
  - inversion H; subst. split; [reflexivity|now apply N.eqb_eq].
  - destruct (pick u l) as [[y r']|]; [|discriminate]. inversion H; subst.
    destruct (IH _ _ eq_refl) as [P Q]. split; [|exact Q].
    eapply perm_trans; [apply perm_skip, P|apply perm_swap].
Qed.

Lemma pick_none u l : pick u l = None -> forall c, In c l -> c_ud c <> u.
Proof.
  induction l as [|x l IH]; cbn; intros H c Hin; [contradiction|].
  destruct (c_ud x =? u) eqn:E; [discriminate|].
  destruct (pick u l) as [[y r']|] eqn:F; [discriminate|].
  destruct Hin as [<-|Hin]; [now apply N.eqb_neq|auto].
Qed.

Lemma reorder_perm order batch : Permutation (reorder order batch) batch.
Proof.
  revert batch. induction order as [|u o IH]; intros batch; cbn; [reflexivity|].
  destruct (pick u batch) as [[c rest]|] eqn:P; [|apply IH].
  apply pick_perm in P as [P _]. eapply perm_trans; [apply perm_skip, IH|now symmetry].
Qed.

(* Every arrangement of a batch whose user_data are pairwise distinct is
   produced by some `order` argument: the model's shuffle argument covers all
   permutations the implementation's rng can draw. *)
Lemma pick_head_distinct c l1 l2 :
  ~ In (c_ud c) (map c_ud l1) -> pick (c_ud c) (l1 ++ c :: l2) = Some (c, l1 ++ l2).
Proof.
  induction l1 as [|x l1 IH]; intros Hn; cbn.
  - now rewrite N.eqb_refl.
  - cbn in Hn. destruct (c_ud x =? c_ud c) eqn:E.
    + apply N.eqb_eq in E. exfalso. apply Hn. now left.
    + rewrite IH; [reflexivity|]. intro. apply Hn. now right.
Qed.

Lemma reorder_onto batch target :
  Permutation target batch -> NoDup (map c_ud batch) -> reorder (map c_ud target) batch = target.
Proof.
  revert batch. induction target as [|c t IH]; intros batch P ND; cbn.
  - apply Permutation_nil in P. now subst.
  - assert (Hin : In c batch) by (eapply Permutation_in; [exact P|now left]).
    apply in_split in Hin as (l1 & l2 & ->).
    assert (P' : Permutation t (l1 ++ l2)).
    { apply Permutation_cons_inv with (a := c). eapply perm_trans; [exact P|].
      apply Permutation_sym, Permutation_middle. }
    assert (ND' : NoDup (map c_ud (c :: l1 ++ l2))).
    { eapply Permutation_NoDup; [|exact ND]. apply Permutation_map, Permutation_sym, Permutation_middle. }
    cbn in ND'. inversion ND' as [|? ? Hn Hd]; subst.
    rewrite (pick_head_distinct c l1 l2).
    + f_equal. now apply IH.
    + intro Hi. apply Hn. rewrite map_app. apply in_or_app. now left.
Qed.

(* The promotion loop neither loses nor duplicates entries, and everything it
   matures is due. *)
Lemma promote_loop_spec fuel now : forall i infl m infl' m',
  promote_loop fuel now i infl m = (infl', m') ->
  Permutation (infl ++ m) (infl' ++ m') /\ exists m2, m' = m ++ m2 /\ Forall (fun c => due now c = true) m2.
Proof.
  induction fuel as [|f IH]; intros i infl m infl' m' H; cbn in H.
  - inversion H; subst. split; [reflexivity|]. exists []. now rewrite app_nil_r.
  - destruct (nth_error infl i) as [c|] eqn:N.
    + destruct (due now c) eqn:D.
      * apply IH in H as (P & m2 & -> & F). split.
        -- eapply perm_trans; [|exact P].
           eapply perm_trans; [apply Permutation_app_tail, (swap_remove_perm _ _ _ N)|].
           cbn. rewrite app_assoc. apply Permutation_cons_app. rewrite <- app_assoc, app_nil_r. reflexivity.
        -- exists (c :: m2). rewrite <- app_assoc. split; [reflexivity|]. now constructor.
      * now apply IH in H.
    + inversion H; subst. split; [reflexivity|]. exists []. now rewrite app_nil_r.
Qed.

(* With enough fuel nothing that is due stays behind. *)
Lemma firstn_swap_remove {A} (l : list A) i : firstn i (swap_remove i l) = firstn i l.
Proof.
  unfold swap_remove. destruct (nth_error l i) as [x|] eqn:N; [|reflexivity].
  destruct (rev l) as [|z t] eqn:R; [reflexivity|].
  assert (Hlt : (i < length l)%nat) by (apply nth_error_Some; congruence).
  destruct (Nat.eqb (S i) (length l)) eqn:E.
  - apply Nat.eqb_eq in E. pose proof (removelast_last_rev l z t R) as L.
    rewrite L at 2. rewrite firstn_app.
    assert (length (removelast l) = i).
    { apply (f_equal (@length A)) in L. rewrite app_length in L. cbn in L. lia. }
    rewrite H, Nat.sub_diag. cbn. rewrite app_nil_r. rewrite <- H at 1. now rewrite firstn_all, <- H, firstn_all.
  - rewrite firstn_app, firstn_firstn, Nat.min_id, firstn_length_le by lia.
    rewrite Nat.sub_diag. cbn. now rewrite app_nil_r.
Qed.

Lemma promote_loop_left fuel now : forall i infl m infl' m',
  promote_loop fuel now i infl m = (infl', m') ->
  (length infl <= fuel + i)%nat ->
  Forall (fun c => due now c = false) (firstn i infl) ->
  Forall (fun c => due now c = false) infl'.
Proof.
  induction fuel as [|f IH]; intros i infl m infl' m' H L F; cbn in H.
  - inversion H; subst. rewrite firstn_all2 in F by lia. exact F.
  - destruct (nth_error infl i) as [c|] eqn:N.
    + destruct (due now c) eqn:D.
      * eapply IH; [exact H| |].
        -- pose proof (swap_remove_length _ _ _ N). lia.
        -- now rewrite firstn_swap_remove.
      * eapply IH; [exact H|lia|].
        rewrite (nth_error_split' _ _ _ N), firstn_app, firstn_firstn.
        assert (Hlt : (i < length infl)%nat) by (apply nth_error_Some; congruence).
        rewrite firstn_length_le by lia.
        replace (Nat.min (S i) i) with i by lia. replace (S i - i)%nat with 1%nat by lia.
        cbn. apply Forall_app. split; [exact F|]. constructor; [exact D|constructor].
    + inversion H; subst. apply nth_error_None in N. rewrite firstn_all2 in F by lia. exact F.
Qed.
