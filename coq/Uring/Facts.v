(* TV.Uring.Facts — list facts behind the ring bookkeeping (swap_remove,
   VecDeque::remove, the shuffle argument, the promotion loop). *)
From TV.Lib Require Import Base.
From Coq Require Import Permutation.
From TV.Uring Require Import Gen Model.
Open Scope N_scope.

Lemma nth_error_split' {A} (l : list A) i x :
  nth_error l i = Some x -> l = firstn i l ++ x :: skipn (S i) l.
Proof.
  revert i. induction l as [|a l IH]; intros [|i] H; cbn in *; try discriminate.
  - now inversion H.
  - f_equal. now apply IH.
Qed.

Lemma remove_nth_perm {A} (l : list A) i x :
  nth_error l i = Some x -> Permutation l (x :: remove_nth i l).
Proof.
  intros H. rewrite (nth_error_split' l i x H) at 1. unfold remove_nth.
  symmetry. apply Permutation_middle.
Qed.

Lemma removelast_last_rev {A} (l : list A) z t : rev l = z :: t -> l = removelast l ++ [z].
Proof.
  intros H. assert (L : l = rev t ++ [z]).
  { rewrite <- (rev_involutive l), H. reflexivity. }
  rewrite L at 2. rewrite removelast_last. exact L.
Qed.

Lemma swap_remove_perm {A} (l : list A) i x :
  nth_error l i = Some x -> Permutation l (x :: swap_remove i l).
Proof.
  intros H. unfold swap_remove. rewrite H.
  destruct (rev l) as [|z t] eqn:R.
  - apply (f_equal (@length A)) in R. rewrite rev_length in R.
    destruct l; [destruct i; discriminate|discriminate].
  - destruct (Nat.eqb (S i) (length l)) eqn:E.
    + apply Nat.eqb_eq in E.
      pose proof (removelast_last_rev l z t R) as L.
      assert (x = z).
      { rewrite L in H. rewrite nth_error_app2 in H.
        - assert (length (removelast l) = i).
          { apply (f_equal (@length A)) in L. rewrite app_length in L. cbn in L. lia. }
          rewrite H0, Nat.sub_diag in H. now inversion H.
        - apply (f_equal (@length A)) in L. rewrite app_length in L. cbn in L. lia. }
      subst. rewrite L at 1. apply Permutation_sym, Permutation_cons_append.
    + apply Nat.eqb_neq in E.
      pose proof (nth_error_split' l i x H) as Sp.
      assert (Hlt : (i < length l)%nat) by (apply nth_error_Some; congruence).
      set (tl := skipn (S i) l) in *.
      assert (Rt : exists t', rev tl = z :: t').
      { assert (tl <> []).
        { intro Z. apply (f_equal (@length A)) in Z. unfold tl in Z. rewrite skipn_length in Z. cbn in Z. lia. }
        clearbody tl. rewrite Sp in R. rewrite rev_app_distr in R. cbn in R. rewrite <- app_assoc in R.
        destruct (rev tl) as [|z' t'] eqn:Rt.
        - apply (f_equal (@rev A)) in Rt. rewrite rev_involutive in Rt. cbn in Rt. contradiction.
        - cbn in R. inversion R. subst. eauto. }
      destruct Rt as [t' Rt].
      pose proof (removelast_last_rev tl z t' Rt) as Lt.
      rewrite Sp at 1. rewrite Lt at 1.
      (* firstn ++ x :: (rl ++ [z])  ~  x :: firstn ++ z :: rl *)
      eapply perm_trans; [apply Permutation_sym, Permutation_middle|].
      constructor. apply Permutation_app_head.
      apply Permutation_sym, Permutation_cons_append.
Qed.

Lemma swap_remove_length {A} (l : list A) i x :
  nth_error l i = Some x -> S (length (swap_remove i l)) = length l.
Proof.
  intros H. apply swap_remove_perm in H. apply Permutation_length in H. cbn in H. lia.
Qed.

Lemma find_ud_nth u l i c : find_ud u l = Some (i, c) -> nth_error l i = Some c /\ c_ud c = u.
Proof.
  revert i. induction l as [|x l IH]; cbn; intros i H; [discriminate|].
  destruct (c_ud x =? u) eqn:E.
  - inversion H; subst. split; [reflexivity|now apply N.eqb_eq].
  - destruct (find_ud u l) as [[j y]|]; [|discriminate]. inversion H; subst. cbn. now apply IH.
Qed.

Lemma find_ud_none u l : find_ud u l = None -> forall c, In c l -> c_ud c <> u.
Proof.
  induction l as [|x l IH]; cbn; intros H c Hin; [contradiction|].
  destruct (c_ud x =? u) eqn:E; [discriminate|].
  destruct (find_ud u l) as [[j y]|] eqn:F; [discriminate|].
  destruct Hin as [<-|Hin]; [now apply N.eqb_neq|auto].
Qed.

Lemma pick_by_perm p l c r : pick_by p l = Some (c, r) -> Permutation l (c :: r) /\ p c = true.
Proof.
  revert c r. induction l as [|x l IH]; cbn; intros c r H; [discriminate|].
  destruct (p x) eqn:E.
  - inversion H; subst. split; [reflexivity|exact E].
  - destruct (pick_by p l) as [[y r']|]; [|discriminate]. inversion H; subst.
    destruct (IH _ _ eq_refl) as [P Q]. split; [|exact Q].
    eapply perm_trans; [apply perm_skip, P|apply perm_swap].
Qed.

Lemma pick_perm u l c r : pick u l = Some (c, r) -> Permutation l (c :: r).
Proof.
  unfold pick. destruct (pick_by (exact u) l) as [[y r']|] eqn:E.
  - intros H. inversion H; subst. now apply pick_by_perm in E.
  - intros H. now apply pick_by_perm in H.
Qed.

Lemma reorder_perm order batch : Permutation (reorder order batch) batch.
Proof.
  revert batch. induction order as [|u o IH]; intros batch; cbn; [reflexivity|].
  destruct (pick u batch) as [[c rest]|] eqn:P; [|apply IH].
  apply pick_perm in P. eapply perm_trans; [apply perm_skip, IH|now symmetry].
Qed.

(* Every arrangement of a batch whose user_data are pairwise distinct is
   produced by some `order` argument: the model's shuffle argument covers all
   permutations the implementation's rng can draw. *)
Definition key (c : scqe) : N * Z := (c_ud c, match c_app c with AErr e => e | _ => 0%Z end).

Lemma pick_by_none p l : (forall x, In x l -> p x = false) -> pick_by p l = None.
Proof.
  induction l as [|x l IH]; cbn; intros H; [reflexivity|]. rewrite (H x (or_introl eq_refl)).
  rewrite IH; [reflexivity|]. intros y Hy. apply H. now right.
Qed.

Lemma pick_by_head p c l1 l2 :
  (forall x, In x l1 -> p x = false) -> p c = true -> pick_by p (l1 ++ c :: l2) = Some (c, l1 ++ l2).
Proof.
  induction l1 as [|x l1 IH]; intros H Hc; cbn.
  - now rewrite Hc.
  - rewrite (H x (or_introl eq_refl)). rewrite IH; [reflexivity| |exact Hc]. intros y Hy. apply H. now right.
Qed.

Lemma pick_head_distinct c l1 l2 :
  ~ In (c_ud c) (map c_ud (l1 ++ l2)) -> pick (key c) (l1 ++ c :: l2) = Some (c, l1 ++ l2).
Proof.
  intros Hn. unfold pick.
  assert (Other : forall q x, In x (l1 ++ l2) -> (c_ud x =? fst (key c)) && q x = false).
  { intros q x Hx. cbn. destruct (c_ud x =? c_ud c) eqn:E; [|reflexivity].
    apply N.eqb_eq in E. exfalso. apply Hn. rewrite <- E. now apply in_map. }
  destruct (is_op c) eqn:O.
  - (* c executes an operation: the exact pass finds nothing, the loose pass finds c *)
    rewrite pick_by_none.
    + apply pick_by_head.
      * intros x Hx. unfold loose. rewrite (Other is_op x); [reflexivity|]. apply in_or_app. now left.
      * unfold loose, key. cbn. rewrite N.eqb_refl, O. unfold is_op in O.
        destruct (c_app c); try discriminate; reflexivity.
    + intros x Hx. apply in_app_or in Hx as [Hx|[<-|Hx]].
      * apply (Other (is_err (snd (key c)))). apply in_or_app. now left.
      * unfold exact, key, is_err. cbn. unfold is_op in O. destruct (c_app c); try discriminate; now rewrite andb_false_r.
      * apply (Other (is_err (snd (key c)))). apply in_or_app. now right.
  - (* c is an error constant: the exact pass finds it *)
    rewrite pick_by_head; [reflexivity| |].
    + intros x Hx. apply (Other (is_err (snd (key c)))). apply in_or_app. now left.
    + unfold exact, key, is_err. cbn. rewrite N.eqb_refl. unfold is_op in O.
      destruct (c_app c); try discriminate. cbn. apply Z.eqb_refl.
Qed.

Lemma reorder_onto batch target :
  Permutation target batch -> NoDup (map c_ud batch) -> reorder (map key target) batch = target.
Proof.
  revert batch. induction target as [|c t IH]; intros batch P ND; cbn.
  - apply Permutation_nil in P. now subst.
  - assert (Hin : In c batch) by (eapply Permutation_in; [exact P|now left]).
    apply in_split in Hin as (l1 & l2 & ->).
    assert (P' : Permutation t (l1 ++ l2)).
    { apply Permutation_cons_inv with (a := c). eapply perm_trans; [exact P|].
      apply Permutation_sym, Permutation_middle. }
    assert (ND' : NoDup (map c_ud (c :: l1 ++ l2))).
    { eapply Permutation_NoDup; [|exact ND]. apply Permutation_map, Permutation_sym, Permutation_middle. }
    cbn in ND'. inversion ND' as [|? ? Hn Hd]; subst.
    rewrite (pick_head_distinct c l1 l2 Hn). f_equal. now apply IH.
Qed.

(* keys whose user_data does not occur among the queued entries are not consumed *)
Lemma drop_key_skip e order :
  (forall k, In k order -> fst k <> c_ud e) -> drop_key e order = order.
Proof.
  induction order as [|k t IH]; cbn; intros H; [reflexivity|].
  assert (E : c_ud e =? fst k = false).
  { apply N.eqb_neq. intro X. apply (H k (or_introl eq_refl)). now symmetry. }
  unfold exact, loose. rewrite E. cbn. f_equal. apply IH. intros k' Hk'. apply H. now right.
Qed.

Lemma consume_skip rdy : forall order,
  (forall k e, In k order -> In e rdy -> fst k <> c_ud e) -> consume rdy order = order.
Proof.
  induction rdy as [|e rdy IH]; intros order H; cbn; [reflexivity|].
  rewrite drop_key_skip; [|intros k Hk; apply (H k e Hk); now left].
  apply IH. intros k e' Hk He. apply (H k e' Hk). now right.
Qed.

(* The promotion loop neither loses nor duplicates entries, and everything it
   matures is due. *)
Lemma promote_loop_spec fuel now : forall i infl m infl' m',
  promote_loop fuel now i infl m = (infl', m') ->
  Permutation (infl ++ m) (infl' ++ m') /\ exists m2, m' = m ++ m2 /\ Forall (fun c => due now c = true) m2.
Proof.
  induction fuel as [|f IH]; intros i infl m infl' m' H; cbn in H.
  - inversion H; subst. split; [reflexivity|]. exists []. now rewrite app_nil_r.
  - destruct (nth_error infl i) as [c|] eqn:N.
    + destruct (due now c) eqn:D.
      * apply IH in H as (P & m2 & -> & F). split.
        -- eapply perm_trans; [|exact P].
           eapply perm_trans; [apply Permutation_app_tail, (swap_remove_perm _ _ _ N)|].
           cbn. rewrite app_assoc. apply Permutation_cons_app. rewrite <- app_assoc, app_nil_r. reflexivity.
        -- exists (c :: m2). rewrite <- app_assoc. split; [reflexivity|]. now constructor.
      * now apply IH in H.
    + inversion H; subst. split; [reflexivity|]. exists []. now rewrite app_nil_r.
Qed.

(* With enough fuel nothing that is due stays behind. *)
Lemma firstn_swap_remove {A} (l : list A) i : firstn i (swap_remove i l) = firstn i l.
Proof.
  unfold swap_remove. destruct (nth_error l i) as [x|] eqn:N; [|reflexivity].
  destruct (rev l) as [|z t] eqn:R; [reflexivity|].
  assert (Hlt : (i < length l)%nat) by (apply nth_error_Some; congruence).
  destruct (Nat.eqb (S i) (length l)) eqn:E.
  - apply Nat.eqb_eq in E. pose proof (removelast_last_rev l z t R) as L.
    rewrite L at 2. rewrite firstn_app.
    assert (length (removelast l) = i).
    { apply (f_equal (@length A)) in L. rewrite app_length in L. cbn in L. lia. }
    rewrite H, Nat.sub_diag. cbn. rewrite app_nil_r. rewrite <- H at 1. now rewrite firstn_all, <- H, firstn_all.
  - rewrite firstn_app, firstn_firstn, Nat.min_id, firstn_length_le by lia.
    rewrite Nat.sub_diag. cbn. now rewrite app_nil_r.
Qed.

Lemma promote_loop_left fuel now : forall i infl m infl' m',
  promote_loop fuel now i infl m = (infl', m') ->
  (length infl <= fuel + i)%nat ->
  Forall (fun c => due now c = false) (firstn i infl) ->
  Forall (fun c => due now c = false) infl'.
Proof.
  induction fuel as [|f IH]; intros i infl m infl' m' H L F; cbn in H.
  - inversion H; subst. rewrite firstn_all2 in F by lia. exact F.
  - destruct (nth_error infl i) as [c|] eqn:N.
    + destruct (due now c) eqn:D.
      * eapply IH; [exact H| |].
        -- pose proof (swap_remove_length _ _ _ N). lia.
        -- now rewrite firstn_swap_remove.
      * eapply IH; [exact H|lia|].
        rewrite (nth_error_split' _ _ _ N), firstn_app, firstn_firstn.
        assert (Hlt : (i < length infl)%nat) by (apply nth_error_Some; congruence).
        rewrite firstn_length_le by lia.
        replace (Nat.min (S i) i) with i by lia. replace (S i - i)%nat with 1%nat by lia.
        cbn. apply Forall_app. split; [exact F|]. constructor; [exact D|constructor].
    + inversion H; subst. apply nth_error_None in N. rewrite firstn_all2 in F by lia. exact F.
Qed.
