(* TV.Uring.C18_proofs — invariants of the ring model (property C18). *)
From TV.Lib Require Import Base.
From Coq Require Import Permutation.
From TV.Uring Require Import Gen Model Facts.
Open Scope N_scope.

(* ---- history-level vocabulary (independent of the file system) ---- *)

Definition acc_of (o : robs) : list acc := match o with OSubmit _ l => l | _ => [] end.
Definition yield_of (o : robs) : list yield := match o with ONext (Some y) => [y] | _ => [] end.
Definition accepted (os : list robs) : list acc := flat_map acc_of os.
Definition yields (os : list robs) : list yield := flat_map yield_of os.

(* What an accepted submission must turn into when it is not cancelled. *)
Definition faithful (a : acc) (p : apply) : Prop :=
  if has_unsupported (a_flags a) then p = AErr EINVAL
  else match a_op a with
       | Read fd off len => p = ARead fd off len
       | Write fd off d => p = AWrite fd off d
       | Fsync fd => p = AFsync fd
       | Cancel _ => p = AErr 0%Z \/ p = AErr ENOENT
       end.

(* (sid, ud, when, effect) of a scheduled or yielded completion stems from `a`:
   same ghost id, same user_data, and either it was cancelled (effect replaced
   by the -ECANCELED error) or it still carries a's own effect and instant. *)
Definition origin (a : acc) (sid ud w : N) (p : apply) : Prop :=
  a_sid a = sid /\ a_ud a = ud /\ (p = AErr ECANCELED \/ (w = a_when a /\ faithful a p)).

Definition live (r : ring) : list scqe := inflight r ++ ready r.

Record Inv (r : ring) (al : list acc) (yl : list yield) : Prop := {
  inv_nodup : NoDup (map a_sid al);
  inv_bound : forall a, In a al -> a_sid a < nsid r;
  inv_perm  : Permutation (map c_sid (live r) ++ map y_sid yl) (map a_sid al);
  inv_live  : forall c, In c (live r) -> exists a, In a al /\ origin a (c_sid c) (c_ud c) (c_when c) (c_app c);
  inv_yield : forall y, In y yl -> exists a, In a al /\ origin a (y_sid y) (y_ud y) (y_when y) (y_app y) }.

Lemma inv_new d : Inv (new_ring d) [] [].
Proof. constructor; cbn; intros; try contradiction; constructor. Qed.

Lemma Inv_ext r r' al yl :
  inflight r' = inflight r -> ready r' = ready r -> nsid r' = nsid r -> Inv r al yl -> Inv r' al yl.
Proof.
  intros E1 E2 E3 [A B C D E]. unfold live in *.
  constructor; unfold live; rewrite ?E1, ?E2, ?E3; auto.
Qed.

(* ---- one submitted entry ---- *)

(* How `live` changes in one iteration of the submit loop. *)
Definition new_entry (r : ring) (now : N) (lats : list N) (e : sqe) (c : scqe) : Prop :=
  c_sid c = nsid r /\ c_ud c = s_ud e /\
  (if has_unsupported (s_flags e) then c_when c = now /\ c_app c = AErr EINVAL
   else match s_op e with
        | Read fd off len => c_when c = now + fst (take_lat lats) /\ c_app c = ARead fd off len
        | Write fd off d => c_when c = now + fst (take_lat lats) /\ c_app c = AWrite fd off d
        | Fsync fd => c_when c = now + fst (take_lat lats) /\ c_app c = AFsync fd
        | Cancel _ => c_when c = now /\ (c_app c = AErr 0%Z \/ c_app c = AErr ENOENT)
        end).

Lemma take_lat_fst lats : take_lat lats = (fst (take_lat lats), snd (take_lat lats)).
Proof. destruct lats; reflexivity. Qed.

Lemma live_sched r c : live (sched r c) = inflight r ++ [c] ++ ready r.
Proof. unfold live, sched. cbn. now rewrite <- app_assoc. Qed.

Lemma perm_sched r c : Permutation (live (sched r c)) (c :: live r).
Proof. rewrite live_sched. unfold live. apply Permutation_sym, Permutation_middle. Qed.

(* Shape of `live` after cancel. *)
Lemma cancel_shape r cud tud now csid :
  let r' := cancel r cud tud now csid in
  nsid r' = nsid r /\ sq r' = sq r /\ depth r' = depth r /\ visible r' = visible r /\
  ((exists c0 rest, Permutation (live r) (c0 :: rest) /\ c_ud c0 = tud /\
      Permutation (live r') (mk now tud (AErr ECANCELED) (c_sid c0) :: mk now cud (AErr 0%Z) csid :: rest))
   \/ Permutation (live r') (mk now cud (AErr ENOENT) csid :: live r)).
Proof.
  unfold cancel. destruct (find_ud tud (inflight r)) as [[i c]|] eqn:F.
  - cbn. repeat split; try reflexivity. left.
    apply find_ud_nth in F as [Hn Hu]. exists c, (swap_remove i (inflight r) ++ ready r).
    split; [|split; [exact Hu|]].
    + unfold live. change (c :: swap_remove i (inflight r) ++ ready r) with ((c :: swap_remove i (inflight r)) ++ ready r).
      apply Permutation_app_tail, swap_remove_perm, Hn.
    + unfold live. cbn. rewrite <- app_assoc. cbn.
      eapply perm_trans; [apply Permutation_sym, Permutation_middle|]. constructor.
      apply Permutation_sym, Permutation_middle.
  - destruct (find_ud tud (ready r)) as [[i c]|] eqn:G.
    + cbn. repeat split; try reflexivity. left.
      apply find_ud_nth in G as [Hn Hu]. exists c, (inflight r ++ remove_nth i (ready r)).
      split; [|split; [exact Hu|]].
      * unfold live. eapply perm_trans; [apply Permutation_app_head, (remove_nth_perm _ _ _ Hn)|].
        apply Permutation_sym, Permutation_middle.
      * unfold live. cbn. rewrite <- app_assoc. cbn.
        eapply perm_trans; [apply Permutation_sym, Permutation_middle|]. constructor.
        apply Permutation_sym, Permutation_middle.
    + cbn. repeat split; try reflexivity. right. unfold live. cbn. rewrite <- app_assoc. cbn.
      apply Permutation_sym, Permutation_middle.
Qed.

Lemma faithful_acc_one sid now lats e :
  let a := fst (acc_one sid now lats e) in
  a_sid a = sid /\ a_ud a = s_ud e /\ a_op a = s_op e /\ a_flags a = s_flags e /\
  snd (acc_one sid now lats e) =
    (if has_unsupported (s_flags e) then lats
     else match s_op e with Cancel _ => lats | _ => snd (take_lat lats) end) /\
  a_when a = (if has_unsupported (s_flags e) then now
              else match s_op e with Cancel _ => now | _ => now + fst (take_lat lats) end).
Proof.
  unfold acc_one. destruct (has_unsupported (s_flags e)); cbn; [repeat split; reflexivity|].
  destruct (s_op e); try rewrite (take_lat_fst lats); cbn; repeat split; reflexivity.
Qed.

Lemma submit_one_lats r now lats e :
  snd (submit_one r now lats e) = snd (acc_one (nsid r) now lats e).
Proof.
  unfold submit_one, acc_one. destruct (has_unsupported (s_flags e)); [reflexivity|].
  destruct (s_op e); try rewrite (take_lat_fst lats); reflexivity.
Qed.

Lemma in_perm_cons {A} (x : A) l l' y : Permutation l' (x :: l) -> In y l' -> y = x \/ In y l.
Proof. intros P H. apply (Permutation_in _ P) in H. destruct H; auto. Qed.

Lemma submit_one_inv r al yl now lats e :
  Inv r al yl ->
  let r' := fst (submit_one r now lats e) in
  let a := fst (acc_one (nsid r) now lats e) in
  Inv r' (al ++ [a]) yl /\ nsid r' = nsid r + 1.
Proof.
  intros I r' a.
  destruct (faithful_acc_one (nsid r) now lats e) as (As & Au & Ao & Af & _ & Aw). fold a in As, Au, Ao, Af, Aw.
  (* common part: the new accepted record has a fresh sid *)
  assert (Fresh : ~ In (a_sid a) (map a_sid al)).
  { rewrite As. intro Hin. apply in_map_iff in Hin as (b & Hb & Hin). apply (inv_bound _ _ _ I) in Hin. lia. }
  assert (ND : NoDup (map a_sid (al ++ [a]))).
  { rewrite map_app. cbn. apply NoDup_app_iff. split; [apply (inv_nodup _ _ _ I)|]. split; [repeat constructor; auto|].
    intros x Hx [<-|[]]. contradiction. }
  (* a direct schedule of an entry c that is new_entry *)
  assert (Sched : forall c, new_entry r now lats e c -> (c_app c <> AErr ECANCELED -> faithful a (c_app c) /\ c_when c = a_when a) ->
            faithful a (c_app c) /\ c_when c = a_when a ->
            Inv (sched (bump_sid r) c) (al ++ [a]) yl /\ nsid (sched (bump_sid r) c) = nsid r + 1).
  { intros c (Cs & Cu & _) _ (Cf & Cw). split; [|reflexivity]. constructor.
    - exact ND.
    - intros b Hb. cbn. apply in_app_or in Hb as [Hb|[<-|[]]]; [apply (inv_bound _ _ _ I) in Hb|]; lia.
    - rewrite map_app. cbn.
      eapply perm_trans; [apply Permutation_app_tail, Permutation_map, perm_sched|].
      cbn. rewrite Cs, <- As. eapply perm_trans; [|apply Permutation_cons_append].
      constructor. apply (inv_perm _ _ _ I).
    - intros x Hx. apply (in_perm_cons _ _ _ _ (perm_sched _ _)) in Hx as [->|Hx].
      + exists a. split; [apply in_or_app; right; now left|]. repeat split; auto; try congruence.
      + destruct (inv_live _ _ _ I x Hx) as (b & Hb & O). exists b. split; [apply in_or_app; now left|exact O].
    - intros y Hy. destruct (inv_yield _ _ _ I y Hy) as (b & Hb & O). exists b. split; [apply in_or_app; now left|exact O]. }
  unfold r', submit_one.
  destruct (has_unsupported (s_flags e)) eqn:U.
  - cbn. apply Sched.
    + repeat split; cbn; try reflexivity. now rewrite U.
    + intros _. unfold faithful. rewrite Af, U. cbn. now rewrite Aw.
    + unfold faithful. rewrite Af, U. cbn. now rewrite Aw.
  - destruct (s_op e) as [fd off len|fd off d|fd|tud] eqn:O.
    + rewrite (take_lat_fst lats). cbn. apply Sched.
      * repeat split; cbn; try reflexivity. now rewrite U, O.
      * intros _. unfold faithful. rewrite Af, U, Ao. cbn. now rewrite Aw.
      * unfold faithful. rewrite Af, U, Ao. cbn. now rewrite Aw.
    + rewrite (take_lat_fst lats). cbn. apply Sched.
      * repeat split; cbn; try reflexivity. now rewrite U, O.
      * intros _. unfold faithful. rewrite Af, U, Ao. cbn. now rewrite Aw.
      * unfold faithful. rewrite Af, U, Ao. cbn. now rewrite Aw.
    + rewrite (take_lat_fst lats). cbn. apply Sched.
      * repeat split; cbn; try reflexivity. now rewrite U, O.
      * intros _. unfold faithful. rewrite Af, U, Ao. cbn. now rewrite Aw.
      * unfold faithful. rewrite Af, U, Ao. cbn. now rewrite Aw.
    + (* cancel *)
      cbn [fst].
      assert (Ib : Inv (bump_sid r) al yl /\ nsid (bump_sid r) = nsid r + 1).
      { split; [|reflexivity]. destruct I as [A B C D E]. constructor; auto.
        intros b Hb. cbn. apply B in Hb. lia. }
      destruct Ib as [Ib Nb].
      pose proof (cancel_shape (bump_sid r) (s_ud e) tud now (nsid r)) as (Ns & _ & _ & _ & Sh).
      set (rc := cancel (bump_sid r) (s_ud e) tud now (nsid r)) in *.
      assert (Live0 : live (bump_sid r) = live r) by reflexivity.
      split; [|rewrite Ns; exact Nb].
      assert (Fa0 : faithful a (AErr 0%Z)) by (unfold faithful; rewrite Af, U, Ao; now left).
      assert (Fa1 : faithful a (AErr ENOENT)) by (unfold faithful; rewrite Af, U, Ao; now right).
      assert (Aw' : a_when a = now) by exact Aw.
      destruct Sh as [(c0 & rest & P0 & Hu & P1)|P1].
      * rewrite Live0 in P0. constructor.
        -- exact ND.
        -- intros b Hb. rewrite Ns, Nb. apply in_app_or in Hb as [Hb|[<-|[]]]; [apply (inv_bound _ _ _ I) in Hb|]; lia.
        -- rewrite map_app. cbn.
           eapply perm_trans; [apply Permutation_app_tail, Permutation_map, P1|]. cbn.
           rewrite <- As.
           eapply perm_trans; [apply perm_swap|].
           eapply perm_trans; [|apply Permutation_cons_append]. constructor.
           eapply perm_trans; [|apply (inv_perm _ _ _ I)].
           change (c_sid c0 :: map c_sid rest ++ map y_sid yl) with (map c_sid (c0 :: rest) ++ map y_sid yl).
           apply Permutation_app_tail, Permutation_map, Permutation_sym, P0.
        -- intros x Hx. apply (Permutation_in _ P1) in Hx. destruct Hx as [<-|[<-|Hx]].
           ++ assert (H0 : In c0 (live r)) by (apply (Permutation_in _ (Permutation_sym P0)); now left).
              destruct (inv_live _ _ _ I c0 H0) as (b & Hb & (Os & Ou & _)).
              exists b. split; [apply in_or_app; now left|]. cbn. repeat split; auto. congruence.
           ++ exists a. split; [apply in_or_app; right; now left|]. cbn. repeat split; auto.
           ++ assert (H0 : In x (live r)) by (apply (Permutation_in _ (Permutation_sym P0)); now right).
              destruct (inv_live _ _ _ I x H0) as (b & Hb & Ob). exists b. split; [apply in_or_app; now left|exact Ob].
        -- intros y Hy. destruct (inv_yield _ _ _ I y Hy) as (b & Hb & Ob). exists b. split; [apply in_or_app; now left|exact Ob].
      * rewrite Live0 in P1. constructor.
        -- exact ND.
        -- intros b Hb. rewrite Ns, Nb. apply in_app_or in Hb as [Hb|[<-|[]]]; [apply (inv_bound _ _ _ I) in Hb|]; lia.
        -- rewrite map_app. cbn.
           eapply perm_trans; [apply Permutation_app_tail, Permutation_map, P1|]. cbn.
           rewrite <- As. eapply perm_trans; [|apply Permutation_cons_append]. constructor. apply (inv_perm _ _ _ I).
        -- intros x Hx. apply (Permutation_in _ P1) in Hx. destruct Hx as [<-|Hx].
           ++ exists a. split; [apply in_or_app; right; now left|]. cbn. repeat split; auto.
           ++ destruct (inv_live _ _ _ I x Hx) as (b & Hb & Ob). exists b. split; [apply in_or_app; now left|exact Ob].
        -- intros y Hy. destruct (inv_yield _ _ _ I y Hy) as (b & Hb & Ob). exists b. split; [apply in_or_app; now left|exact Ob].
Qed.

Lemma submit_entries_inv es : forall r al yl now lats,
  Inv r al yl -> Inv (submit_entries r now lats es) (al ++ acc_list (nsid r) now lats es) yl.
Proof.
  induction es as [|e es IH]; intros r al yl now lats I; cbn.
  - now rewrite app_nil_r.
  - pose proof (submit_one_inv r al yl now lats e I) as [I' Ns].
    pose proof (submit_one_lats r now lats e) as L.
    destruct (submit_one r now lats e) as [r' lats'] eqn:S1.
    destruct (acc_one (nsid r) now lats e) as [a lats''] eqn:A1. cbn in *. subst lats''.
    specialize (IH r' (al ++ [a]) yl now lats' I'). rewrite Ns in IH.
    now rewrite <- app_assoc in IH.
Qed.

(* ---- promotion and iteration ---- *)

Lemma promote_live r now order : Permutation (live (promote r now order)) (live r) /\ nsid (promote r now order) = nsid r.
Proof.
  unfold promote. destruct (promote_loop _ _ _ _ _) as [infl m] eqn:P.
  apply promote_loop_spec in P as (Pm & _). rewrite app_nil_r in Pm. split; [|reflexivity].
  unfold live. cbn.
  eapply perm_trans; [|apply Permutation_app_tail, Permutation_sym, Pm].
  rewrite <- app_assoc. apply Permutation_app_head.
  eapply perm_trans; [apply Permutation_app_comm|]. apply Permutation_app_tail, reorder_perm.
Qed.

Lemma Inv_perm_live r r' al yl :
  Permutation (live r') (live r) -> nsid r' = nsid r -> Inv r al yl -> Inv r' al yl.
Proof.
  intros P N [A B C D E]. constructor; auto.
  - intros a Ha. rewrite N. auto.
  - eapply perm_trans; [apply Permutation_app_tail, Permutation_map, P|exact C].
  - intros c Hc. apply D. eapply Permutation_in; eauto.
Qed.

Section WithFs.
Variable A : fsapi.

Lemma next_inv r fs now order r' fs' oy al yl :
  Inv r al yl -> next A r fs now order = (r', fs', oy) ->
  Inv r' al (yl ++ match oy with Some y => [y] | None => [] end).
Proof.
  intros I H. unfold next in H. destruct (visible r =? 0).
  - inversion H; subst. now rewrite app_nil_r.
  - destruct (promote_live r now order) as [P N].
    pose proof (Inv_perm_live _ _ _ _ P N I) as I1.
    set (r1 := promote r now order) in *.
    destruct (ready r1) as [|c rest] eqn:R.
    + inversion H; subst. now rewrite app_nil_r.
    + destruct (exec A fs (c_app c)) as [[fs1 z] d] eqn:X. inversion H; subst. clear H.
      assert (L1 : live r1 = inflight r1 ++ c :: rest) by (unfold live; now rewrite R).
      destruct I1 as [IA IB IC ID IE]. constructor; auto.
      * assert (L2 : live (set_visible (set_ready r1 rest) (visible r - 1)) = inflight r1 ++ rest) by reflexivity.
        rewrite L2. eapply perm_trans; [|exact IC]. rewrite L1, !map_app. cbn.
        rewrite <- !app_assoc. apply Permutation_app_head.
        rewrite app_assoc. apply Permutation_sym, Permutation_cons_append.
      * intros x Hx. apply ID. rewrite L1.
        assert (L2 : live (set_visible (set_ready r1 rest) (visible r - 1)) = inflight r1 ++ rest) by reflexivity.
        rewrite L2 in Hx.
        apply in_app_or in Hx as [Hx|Hx]; apply in_or_app; [now left|right; now right].
      * intros y Hy. apply in_app_or in Hy as [Hy|[<-|[]]]; [now apply IE|]. cbn.
        apply ID. rewrite L1. apply in_or_app. right. now left.
Qed.

Fixpoint rrun (r : ring) (fs : FS A) (es : list rv) : ring * FS A * list robs :=
  match es with
  | [] => (r, fs, [])
  | e :: es' => let '(r', fs', o) := rstep A r fs e in
                let '(r'', fs'', os) := rrun r' fs' es' in (r'', fs'', o :: os)
  end.

Lemma rstep_inv r fs e r' fs' o al yl :
  Inv r al yl -> rstep A r fs e = (r', fs', o) -> Inv r' (al ++ acc_of o) (yl ++ yield_of o).
Proof.
  intros I H. destruct e as [q|now lats| |now|now order|now]; cbn in H.
  - unfold push in H. destruct (depth r <=? N.of_nat (length (sq r))); inversion H; subst; cbn; rewrite !app_nil_r; auto.
    eapply Inv_ext; [| | |exact I]; reflexivity.
  - inversion H; subst. cbn. rewrite app_nil_r.
    apply (submit_entries_inv (sq r) (set_sq r []) al yl now lats).
    eapply Inv_ext; [| | |exact I]; reflexivity.
  - inversion H; subst; cbn; rewrite !app_nil_r. eapply Inv_ext; [| | |exact I]; reflexivity.
  - inversion H; subst; cbn; rewrite !app_nil_r. eapply Inv_ext; [| | |exact I]; reflexivity.
  - destruct (next A r fs now order) as [[r1 fs1] oy] eqn:X. inversion H; subst. cbn. rewrite app_nil_r.
    exact (next_inv _ _ _ _ _ _ _ _ _ I X).
  - inversion H; subst; cbn; rewrite !app_nil_r. exact I.
Qed.

Lemma rrun_inv es : forall r fs r' fs' os al yl,
  Inv r al yl -> rrun r fs es = (r', fs', os) -> Inv r' (al ++ accepted os) (yl ++ yields os).
Proof.
  induction es as [|e es IH]; intros r fs r' fs' os al yl I H; cbn in H.
  - inversion H; subst. cbn. now rewrite !app_nil_r.
  - destruct (rstep A r fs e) as [[r1 fs1] o] eqn:S.
    destruct (rrun r1 fs1 es) as [[r2 fs2] os2] eqn:R. inversion H; subst.
    pose proof (rstep_inv _ _ _ _ _ _ _ _ I S) as I1.
    specialize (IH _ _ _ _ _ _ _ I1 R). unfold accepted, yields in *. cbn. now rewrite !app_assoc.
Qed.

(* ---- exactly once ---- *)

Lemma exec_err fs e : exec A fs (AErr e) = (fs, e, []).
Proof. reflexivity. Qed.

(* the result carried by a yielded completion is the result of executing its effect *)
Definition res_ok (y : yield) : Prop := forall e, y_app y = AErr e -> y_res y = e /\ y_data y = [].

Lemma rrun_res_ok es : forall r fs r' fs' os,
  rrun r fs es = (r', fs', os) -> Forall res_ok (yields os).
Proof.
  induction es as [|e es IH]; intros r fs r' fs' os H; cbn in H.
  - inversion H; subst. constructor.
  - destruct (rstep A r fs e) as [[r1 fs1] o] eqn:S.
    destruct (rrun r1 fs1 es) as [[r2 fs2] os2] eqn:R. inversion H; subst.
    unfold yields. cbn. apply Forall_app. split; [|eapply IH; eauto].
    destruct e; cbn in S; try (inversion S; subst; constructor).
    + destruct (push r e); inversion S; subst; constructor.
    + destruct (next A r fs now order) as [[rr ff] oy] eqn:X. inversion S; subst.
      unfold next in X. destruct (visible r =? 0); [inversion X; subst; constructor|].
      destruct (ready (promote r now order)) as [|c rest]; [inversion X; subst; constructor|].
      destruct (exec A fs (c_app c)) as [[f1 z] d] eqn:E. inversion X; subst. cbn.
      constructor; [|constructor]. intros e' He. cbn in He. rewrite He in E. cbn in E. inversion E; subst. now split.
Qed.

Lemma exactly_once_lemma d fs es r fs' os :
  rrun (new_ring d) fs es = (r, fs', os) ->
  NoDup (map a_sid (accepted os)) /\
  Permutation (map c_sid (inflight r) ++ map c_sid (ready r) ++ map y_sid (yields os)) (map a_sid (accepted os)) /\
  NoDup (map c_sid (inflight r) ++ map c_sid (ready r) ++ map y_sid (yields os)) /\
  (forall y, In y (yields os) -> exists a, In a (accepted os) /\ a_sid a = y_sid y /\ a_ud a = y_ud y /\
      ((y_app y = AErr ECANCELED /\ y_res y = ECANCELED /\ y_data y = []) \/
       (y_when y = a_when a /\ faithful a (y_app y)))).
Proof.
  intros H. pose proof (rrun_inv es _ _ _ _ _ [] [] (inv_new d) H) as I. cbn in I.
  pose proof (rrun_res_ok es _ _ _ _ _ H) as RO.
  destruct I as [IA IB IC ID IE]. split; [exact IA|].
  assert (P : Permutation (map c_sid (inflight r) ++ map c_sid (ready r) ++ map y_sid (yields os))
                          (map a_sid (accepted os))).
  { unfold live in IC. rewrite map_app, <- app_assoc in IC. exact IC. }
  split; [exact P|]. split; [eapply Permutation_NoDup; [apply Permutation_sym, P|exact IA]|].
  intros y Hy. destruct (IE y Hy) as (a & Ha & Os & Ou & Oc). exists a. repeat split; auto.
  destruct Oc as [Oc|Oc]; [left|now right].
  rewrite Forall_forall in RO. destruct (RO y Hy _ Oc). auto.
Qed.

(* ---- not early ---- *)

Definition ev_time (e : rv) : option N :=
  match e with Submit t _ | Sync t | Next t _ | Readable t => Some t | _ => None end.
Fixpoint mono (t : N) (es : list rv) : Prop :=
  match es with
  | [] => True
  | e :: es' => match ev_time e with Some t' => t <= t' /\ mono t' es' | None => mono t es' end
  end.
Definition timely (e : rv) (o : robs) : Prop :=
  match e, o with Next now _, ONext (Some y) => y_when y <= now | _, _ => True end.
Definition ReadyDue (r : ring) (t : N) : Prop := Forall (fun c => c_when c <= t) (ready r).

Lemma ReadyDue_mono r t t' : t <= t' -> ReadyDue r t -> ReadyDue r t'.
Proof. intros L. apply Forall_impl. intros c. lia. Qed.

Lemma remove_nth_incl {X} i (l : list X) x : In x (remove_nth i l) -> In x l.
Proof.
  unfold remove_nth. intros H. apply in_app_or in H as [H|H].
  - rewrite <- (firstn_skipn i l). apply in_or_app. now left.
  - rewrite <- (firstn_skipn (S i) l). apply in_or_app. now right.
Qed.

Lemma cancel_ready r cud tud now csid x :
  In x (ready (cancel r cud tud now csid)) -> In x (ready r).
Proof.
  unfold cancel. destruct (find_ud tud (inflight r)) as [[i c]|]; [auto|].
  destruct (find_ud tud (ready r)) as [[i c]|]; [|auto]. cbn. apply remove_nth_incl.
Qed.

Lemma submit_one_ready r now lats e x :
  In x (ready (fst (submit_one r now lats e))) -> In x (ready r).
Proof.
  unfold submit_one. destruct (has_unsupported (s_flags e)); [auto|].
  destruct (s_op e); try rewrite (take_lat_fst lats); cbn; auto. apply cancel_ready.
Qed.

Lemma submit_entries_ready es : forall r now lats x,
  In x (ready (submit_entries r now lats es)) -> In x (ready r).
Proof.
  induction es as [|e es IH]; intros r now lats x; cbn; [auto|].
  destruct (submit_one r now lats e) as [r' l'] eqn:S. intros H. apply IH in H.
  apply (submit_one_ready r now lats e). now rewrite S.
Qed.

Lemma promote_ready_due r now order t :
  t <= now -> ReadyDue r t -> ReadyDue (promote r now order) now.
Proof.
  intros L RD. unfold promote. destruct (promote_loop _ _ _ _ _) as [infl m] eqn:P.
  apply promote_loop_spec in P as (_ & m2 & -> & F). cbn in F |- *.
  unfold ReadyDue. cbn. apply Forall_app. split; [eapply ReadyDue_mono; eauto|].
  rewrite Forall_forall in *. intros c Hc. apply (Permutation_in _ (reorder_perm _ m2)) in Hc.
  apply F in Hc. unfold due in Hc. now apply N.leb_le.
Qed.

Lemma rstep_timely r fs e r' fs' o t :
  ReadyDue r t -> (match ev_time e with Some t' => t <= t' | None => True end) ->
  rstep A r fs e = (r', fs', o) ->
  timely e o /\ ReadyDue r' (match ev_time e with Some t' => t' | None => t end).
Proof.
  intros RD L H. destruct e as [q|now lats| |now|now order|now]; cbn in *.
  - unfold push in H. destruct (depth r <=? N.of_nat (length (sq r))); inversion H; subst; split; auto.
  - inversion H; subst. split; [exact I|]. unfold ReadyDue. rewrite Forall_forall. intros c Hc.
    apply submit_entries_ready in Hc. cbn in Hc. unfold ReadyDue in RD. rewrite Forall_forall in RD.
    specialize (RD c Hc). lia.
  - inversion H; subst. split; auto.
  - inversion H; subst. split; [exact I|]. eapply ReadyDue_mono; eauto.
  - destruct (next A r fs now order) as [[r1 fs1] oy] eqn:X. inversion H; subst. clear H.
    unfold next in X. destruct (visible r =? 0).
    + inversion X; subst. split; [exact I|]. eapply ReadyDue_mono; eauto.
    + pose proof (promote_ready_due r now order t L RD) as RD1.
      destruct (ready (promote r now order)) as [|c rest] eqn:R.
      * inversion X; subst. split; [exact I|exact RD1].
      * destruct (exec A fs (c_app c)) as [[f1 z] d]. inversion X; subst. unfold ReadyDue in RD1. rewrite R in RD1.
        inversion RD1; subst. split; [cbn; assumption|]. unfold ReadyDue. cbn. assumption.
  - inversion H; subst. split; [exact I|]. eapply ReadyDue_mono; eauto.
Qed.

Lemma rrun_timely es : forall r fs r' fs' os t,
  ReadyDue r t -> mono t es -> rrun r fs es = (r', fs', os) -> Forall2 timely es os.
Proof.
  induction es as [|e es IH]; intros r fs r' fs' os t RD M H; cbn in H.
  - inversion H; subst. constructor.
  - destruct (rstep A r fs e) as [[r1 fs1] o] eqn:S.
    destruct (rrun r1 fs1 es) as [[r2 fs2] os2] eqn:R. inversion H; subst.
    cbn in M.
    assert (L : match ev_time e with Some t' => t <= t' | None => True end) by (destruct (ev_time e); tauto).
    destruct (rstep_timely _ _ _ _ _ _ _ RD L S) as [T RD1].
    constructor; [exact T|]. eapply IH; [exact RD1| |exact R].
    destruct (ev_time e); tauto.
Qed.

(* the scheduled instant of an accepted submission is its submission time plus
   a latency taken from the Submit argument (never earlier than the submission) *)
Lemma acc_list_when es : forall sid now lats a,
  In a (acc_list sid now lats es) -> now <= a_when a.
Proof.
  induction es as [|e es IH]; intros sid now lats a H; cbn in H; [contradiction|].
  destruct (acc_one sid now lats e) as [a0 l0] eqn:E. destruct H as [<-|H]; [|eauto].
  pose proof (faithful_acc_one sid now lats e) as (_ & _ & _ & _ & _ & W). rewrite E in W. cbn in W.
  rewrite W. destruct (has_unsupported (s_flags e)); [lia|]. destruct (s_op e); lia.
Qed.

(* ---- same as the synchronous API ---- *)

(* The synchronous API applied to a user-level operation. *)
Definition sync_op (fs : FS A) (o : op) : FS A * Z * list N :=
  match o with
  | Read fd off len => if fs_ok A fs fd URead then fs_read A fs fd off len else (fs, EBADF, [])
  | Write fd off d => if fs_ok A fs fd UWrite then let '(fs', z) := fs_write A fs fd off d in (fs', z, []) else (fs, EBADF, [])
  | Fsync fd => if fs_ok A fs fd USync then let '(fs', z) := fs_fsync A fs fd in (fs', z, []) else (fs, EBADF, [])
  | Cancel _ => (fs, 0%Z, [])
  end.

Definition is_io (o : op) : bool := match o with Cancel _ => false | _ => true end.

Lemma faithful_exec a p fs :
  faithful a p -> has_unsupported (a_flags a) = false -> is_io (a_op a) = true ->
  exec A fs p = sync_op fs (a_op a).
Proof.
  unfold faithful. intros F U I. rewrite U in F. destruct (a_op a); try discriminate; subst; reflexivity.
Qed.

Lemma faithful_noeffect a p fs :
  faithful a p -> has_unsupported (a_flags a) = true \/ is_io (a_op a) = false ->
  exists e, p = AErr e /\ exec A fs p = (fs, e, []).
Proof.
  unfold faithful. intros F [U|I].
  - rewrite U in F. subst. eexists; split; reflexivity.
  - destruct (has_unsupported (a_flags a)); [subst; eexists; split; reflexivity|].
    destruct (a_op a); try discriminate. destruct F; subst; eexists; split; reflexivity.
Qed.

(* Replaying the yielded effects, in yield order, on the initial file system. *)
Fixpoint replay (fs : FS A) (ys : list yield) : FS A * list (Z * list N) :=
  match ys with
  | [] => (fs, [])
  | y :: t => let '(fs', z, d) := exec A fs (y_app y) in
              let '(f, l) := replay fs' t in (f, (z, d) :: l)
  end.

Lemma rrun_replay es : forall r fs r' fs' os,
  rrun r fs es = (r', fs', os) ->
  replay fs (yields os) = (fs', map (fun y => (y_res y, y_data y)) (yields os)).
Proof.
  induction es as [|e es IH]; intros r fs r' fs' os H; cbn in H.
  - inversion H; subst. reflexivity.
  - destruct (rstep A r fs e) as [[r1 fs1] o] eqn:S.
    destruct (rrun r1 fs1 es) as [[r2 fs2] os2] eqn:R. inversion H; subst.
    specialize (IH _ _ _ _ _ R). unfold yields in *. cbn.
    assert (Nochg : yield_of o = [] -> fs1 = fs -> replay fs (yield_of o ++ flat_map yield_of os2) =
              (fs', map (fun y => (y_res y, y_data y)) (yield_of o ++ flat_map yield_of os2))).
    { intros -> ->. exact IH. }
    destruct e; cbn in S.
    + destruct (push r e); inversion S; subst. now apply Nochg.
    + inversion S; subst. now apply Nochg.
    + inversion S; subst. now apply Nochg.
    + inversion S; subst. now apply Nochg.
    + destruct (next A r fs now order) as [[rr ff] oy] eqn:X. inversion S; subst. clear S.
      unfold next in X. destruct (visible r =? 0); [inversion X; subst; now apply Nochg|].
      destruct (ready (promote r now order)) as [|c rest]; [inversion X; subst; now apply Nochg|].
      destruct (exec A fs (c_app c)) as [[f1 z] d] eqn:E. inversion X; subst. cbn.
      rewrite E. now rewrite IH.
    + inversion S; subst. now apply Nochg.
Qed.


(* ---- submission instants and rejected flags, history level ---- *)

Definition submitted_at (e : rv) (o : robs) : Prop :=
  match e, o with
  | Submit now _, OSubmit n l => n = N.of_nat (length l) /\ forall a, In a l -> now <= a_when a
  | _, _ => True
  end.

Lemma acc_list_length es : forall sid now lats, length (acc_list sid now lats es) = length es.
Proof.
  induction es as [|e es IH]; intros; cbn; [reflexivity|].
  destruct (acc_one sid now lats e). cbn. now rewrite IH.
Qed.

Lemma rrun_submitted es : forall r fs r' fs' os,
  rrun r fs es = (r', fs', os) -> Forall2 submitted_at es os.
Proof.
  induction es as [|e es IH]; intros r fs r' fs' os H; cbn in H.
  - inversion H; subst. constructor.
  - destruct (rstep A r fs e) as [[r1 fs1] o] eqn:S.
    destruct (rrun r1 fs1 es) as [[r2 fs2] os2] eqn:R. inversion H; subst.
    constructor; [|eapply IH; eauto].
    destruct e as [q|now lats| |now|now order|now]; cbn in S.
    + destruct (push r q); inversion S; subst; exact I.
    + inversion S; subst. cbn. split; [now rewrite acc_list_length|]. intros a. apply acc_list_when.
    + inversion S; subst; exact I.
    + inversion S; subst; exact I.
    + destruct (next A r fs now order) as [[? ?] ?]. inversion S; subst. exact I.
    + inversion S; subst; exact I.
Qed.

Lemma NoDup_map_inj {X Y} (f : X -> Y) l a b :
  NoDup (map f l) -> In a l -> In b l -> f a = f b -> a = b.
Proof.
  induction l as [|x l IH]; cbn; intros ND Ha Hb E; [contradiction|].
  inversion ND as [|? ? Hn Hd]; subst.
  destruct Ha as [<-|Ha], Hb as [<-|Hb]; auto.
  - exfalso. apply Hn. rewrite E. now apply in_map.
  - exfalso. apply Hn. rewrite <- E. now apply in_map.
Qed.

Lemma unsupported_history d fs es r fs' os :
  rrun (new_ring d) fs es = (r, fs', os) ->
  forall y a, In y (yields os) -> In a (accepted os) -> a_sid a = y_sid y ->
  has_unsupported (a_flags a) = true ->
  (y_res y = EINVAL \/ y_res y = ECANCELED) /\ y_data y = [] /\ exists e, y_app y = AErr e.
Proof.
  intros H y a Hy Ha Es U.
  destruct (exactly_once_lemma _ _ _ _ _ _ H) as (ND & _ & _ & Y).
  destruct (Y y Hy) as (a' & Ha' & Es' & _ & C).
  assert (a' = a) by (eapply NoDup_map_inj; eauto; congruence). subst a'.
  pose proof (rrun_res_ok es _ _ _ _ _ H) as RO. rewrite Forall_forall in RO.
  destruct C as [(C1 & C2 & C3)|(_ & F)].
  - repeat split; eauto.
  - unfold faithful in F. rewrite U in F. destruct (RO y Hy _ F) as [R1 R2]. repeat split; eauto.
Qed.

Lemma same_as_sync_history d fs es r fs' os :
  rrun (new_ring d) fs es = (r, fs', os) ->
  forall y, In y (yields os) -> exists a, In a (accepted os) /\ a_sid a = y_sid y /\
    (y_app y = AErr ECANCELED \/
     (has_unsupported (a_flags a) = false /\ is_io (a_op a) = true /\
      forall f, exec A f (y_app y) = sync_op f (a_op a)) \/
     (exists e, y_app y = AErr e /\ forall f, exec A f (y_app y) = (f, e, []))).
Proof.
  intros H y Hy.
  destruct (exactly_once_lemma _ _ _ _ _ _ H) as (_ & _ & _ & Y).
  destruct (Y y Hy) as (a & Ha & Es & _ & C). exists a. split; [exact Ha|]. split; [exact Es|].
  destruct C as [(C1 & _)|(_ & F)]; [now left|right].
  destruct (has_unsupported (a_flags a)) eqn:U.
  - right. destruct (faithful_noeffect a (y_app y) fs F (or_introl U)) as (e & E1 & _).
    exists e. split; [exact E1|]. intros f. now rewrite E1.
  - destruct (is_io (a_op a)) eqn:IO.
    + left. repeat split; auto. intros f. now apply faithful_exec.
    + right. destruct (faithful_noeffect a (y_app y) fs F (or_intror IO)) as (e & E1 & _).
      exists e. split; [exact E1|]. intros f. now rewrite E1.
Qed.

(* ---- a late full drain yields everything (liveness of the bookkeeping) ---- *)

Lemma promote_all_due r now order :
  Forall (fun c => due now c = true) (inflight r) ->
  inflight (promote r now order) = [] /\
  length (ready (promote r now order)) = (length (ready r) + length (inflight r))%nat /\
  visible (promote r now order) = visible r.
Proof.
  intros D. unfold promote. destruct (promote_loop _ _ _ _ _) as [infl m] eqn:P.
  pose proof (promote_loop_spec _ _ _ _ _ _ _ P) as (Pm & _). rewrite app_nil_r in Pm.
  assert (L : Forall (fun c => due now c = false) infl).
  { eapply promote_loop_left; [exact P|cbn; lia|constructor]. }
  assert (E : infl = []).
  { destruct infl as [|c t]; [reflexivity|]. exfalso. inversion L as [|? ? Hc _]; subst.
    assert (In c (inflight r)) by (apply (Permutation_in _ (Permutation_sym Pm)); now left).
    rewrite Forall_forall in D. rewrite (D c H) in Hc. discriminate. }
  subst infl. cbn. split; [reflexivity|]. split; [|reflexivity].
  rewrite app_length. f_equal. cbn in Pm.
  rewrite (Permutation_length (reorder_perm _ m)). symmetry. now apply Permutation_length.
Qed.

Lemma drain_all orders : forall r fs,
  N.of_nat (length orders) = visible r ->
  (length (inflight r) + length (ready r) = length orders)%nat ->
  forall now, Forall (fun c => due now c = true) (inflight r) ->
  let '(r', _, os) := rrun r fs (map (Next now) orders) in
  inflight r' = [] /\ ready r' = [] /\ length (yields os) = length orders.
Proof.
  induction orders as [|o orders IH]; intros r fs Vis Len now D; cbn.
  - cbn in Len. destruct (inflight r), (ready r); try discriminate. auto.
  - unfold next. destruct (visible r =? 0) eqn:V0.
    { apply N.eqb_eq in V0. cbn in Vis. lia. }
    destruct (promote_all_due r now o D) as (PI & PL & PV).
    destruct (ready (promote r now o)) as [|c rest] eqn:R.
    { cbn in PL, Len. lia. }
    destruct (exec A fs (c_app c)) as [[fs1 z] d].
    set (r2 := set_visible (set_ready (promote r now o) rest) (visible r - 1)).
    assert (I2 : inflight r2 = []) by exact PI.
    assert (H := IH r2 fs1).
    assert (Hv : N.of_nat (length orders) = visible r2) by (subst r2; cbn; cbn in Vis; lia).
    assert (Hl : (length (inflight r2) + length (ready r2) = length orders)%nat)
      by (subst r2; cbn; rewrite PI; cbn; cbn in PL, Len; lia).
    assert (Hd : Forall (fun c => due now c = true) (inflight r2)) by (rewrite I2; constructor).
    specialize (H Hv Hl now Hd).
    destruct (rrun r2 fs1 (map (Next now) orders)) as [[r3 fs3] os3].
    destruct H as (H1 & H2 & H3). repeat split; auto. unfold yields in *. cbn. now rewrite H3.
Qed.

Lemma length_filter_all {X} (p : X -> bool) l : Forall (fun x => p x = true) l -> length (filter p l) = length l.
Proof. induction 1 as [|x l Hx _ IH]; cbn; [reflexivity|]. rewrite Hx. cbn. now rewrite IH. Qed.

Lemma drain_after_sync r fs now orders :
  Forall (fun c => due now c = true) (inflight r) ->
  length orders = (length (inflight r) + length (ready r))%nat ->
  let '(r', _, os) := rrun r fs (Sync now :: map (Next now) orders) in
  inflight r' = [] /\ ready r' = [] /\ length (yields os) = length orders.
Proof.
  intros D L. cbn.
  assert (Hv : N.of_nat (length orders) = visible (set_visible r (ready_cq_count r now))).
  { cbn. unfold ready_cq_count. rewrite (length_filter_all _ _ D), L. lia. }
  assert (Hl : (length (inflight (set_visible r (ready_cq_count r now))) +
                length (ready (set_visible r (ready_cq_count r now))) = length orders)%nat) by (cbn; lia).
  pose proof (drain_all orders (set_visible r (ready_cq_count r now)) fs Hv Hl now D) as H.
  destruct (rrun (set_visible r (ready_cq_count r now)) fs (map (Next now) orders)) as [[r3 fs3] os3].
  destruct H as (H1 & H2 & H3). unfold yields in *. cbn. auto.
Qed.

(* what `sync` / `readable` expose at `now` is exactly the number of accepted,
   not yet yielded entries whose scheduled instant has been reached *)
Fixpoint tlast (t : N) (es : list rv) : N :=
  match es with
  | [] => t
  | e :: es' => tlast (match ev_time e with Some t' => t' | None => t end) es'
  end.

Lemma rrun_readydue es : forall r fs r' fs' os t,
  ReadyDue r t -> mono t es -> rrun r fs es = (r', fs', os) -> ReadyDue r' (tlast t es).
Proof.
  induction es as [|e es IH]; intros r fs r' fs' os t RD M H; cbn in H.
  - inversion H; subst. exact RD.
  - destruct (rstep A r fs e) as [[r1 fs1] o] eqn:S.
    destruct (rrun r1 fs1 es) as [[r2 fs2] os2] eqn:R. inversion H; subst.
    cbn in M.
    assert (L : match ev_time e with Some t' => t <= t' | None => True end) by (destruct (ev_time e); tauto).
    destruct (rstep_timely _ _ _ _ _ _ _ RD L S) as [_ RD1].
    cbn. eapply IH; [exact RD1| |exact R]. destruct (ev_time e); tauto.
Qed.

Lemma visible_count_lemma r t now :
  ReadyDue r t -> t <= now ->
  ready_cq_count r now = N.of_nat (length (filter (due now) (live r))).
Proof.
  intros RD L. unfold ready_cq_count, live. rewrite filter_app, app_length.
  rewrite (length_filter_all (due now) (ready r)).
  - lia.
  - eapply Forall_impl; [|exact RD]. intros c Hc. cbv beta in Hc. unfold due. apply N.leb_le. lia.
Qed.

(* ---- push ---- *)

Definition SqOk (r : ring) : Prop := N.of_nat (length (sq r)) <= depth r.

Lemma submit_entries_sq es : forall r now lats,
  sq (submit_entries r now lats es) = sq r /\ depth (submit_entries r now lats es) = depth r.
Proof.
  induction es as [|e es IH]; intros r now lats; cbn; [auto|].
  destruct (submit_one r now lats e) as [r' l'] eqn:S.
  destruct (IH r' now l') as [E1 E2]. rewrite E1, E2.
  unfold submit_one in S. destruct (has_unsupported (s_flags e)); [inversion S; subst; auto|].
  destruct (s_op e); try rewrite (take_lat_fst lats) in S; inversion S; subst; auto.
  destruct (cancel_shape (bump_sid r) (s_ud e) target now (nsid r)) as (_ & Q & D & _). auto.
Qed.

Lemma promote_sq r now order : sq (promote r now order) = sq r /\ depth (promote r now order) = depth r.
Proof. unfold promote. destruct (promote_loop _ _ _ _ _). auto. Qed.

Lemma rstep_sqok r fs e r' fs' o : SqOk r -> rstep A r fs e = (r', fs', o) -> SqOk r'.
Proof.
  unfold SqOk. intros I H. destruct e; cbn in H.
  - unfold push in H. destruct (depth r <=? N.of_nat (length (sq r))) eqn:E; inversion H; subst; auto.
    cbn. rewrite app_length. cbn. apply N.leb_gt in E. lia.
  - inversion H; subst. destruct (submit_entries_sq (sq r) (set_sq r []) now lats) as [E1 E2].
    rewrite E1, E2. cbn. lia.
  - inversion H; subst; auto.
  - inversion H; subst; auto.
  - destruct (next A r fs now order) as [[rr ff] oy] eqn:X. inversion H; subst.
    unfold next in X. destruct (visible r =? 0); [inversion X; subst; auto|].
    destruct (promote_sq r now order) as [E1 E2].
    destruct (ready (promote r now order)); [inversion X; subst; now rewrite E1, E2|].
    destruct (exec A fs (c_app s)) as [[? ?] ?]. inversion X; subst. cbn. now rewrite E1, E2.
  - inversion H; subst; auto.
Qed.

Lemma rrun_sqok es : forall r fs r' fs' os, SqOk r -> rrun r fs es = (r', fs', os) -> SqOk r'.
Proof.
  induction es as [|e es IH]; intros r fs r' fs' os I H; cbn in H.
  - inversion H; subst. exact I.
  - destruct (rstep A r fs e) as [[r1 fs1] o] eqn:S.
    destruct (rrun r1 fs1 es) as [[r2 fs2] os2] eqn:R. inversion H; subst.
    eapply IH; [|exact R]. eapply rstep_sqok; eauto.
Qed.

Lemma push_full_lemma d fs es r fs' os e :
  rrun (new_ring d) fs es = (r, fs', os) ->
  N.of_nat (length (sq r)) <= depth r /\
  (snd (push r e) = false <-> N.of_nat (length (sq r)) = depth r) /\
  (snd (push r e) = false -> fst (push r e) = r) /\
  (snd (push r e) = true -> sq (fst (push r e)) = sq r ++ [e]).
Proof.
  intros H. assert (I : SqOk r).
  { eapply rrun_sqok; [|exact H]. unfold SqOk. cbn. lia. }
  unfold SqOk in I. split; [exact I|]. unfold push.
  destruct (depth r <=? N.of_nat (length (sq r))) eqn:E; cbn.
  - apply N.leb_le in E. repeat split; auto; try discriminate. lia.
  - apply N.leb_gt in E. repeat split; auto; try discriminate. lia.
Qed.

(* ---- crash ---- *)

Definition below (n : N) (e : hev A) : bool :=
  match e with HRing rid _ | HDrop rid => rid <? n | _ => false end.

Definition RidsBelow (h : host A) : Prop := forall rid r, get_ring rid (rings h) = Some r -> rid < nrid h.
Definition NoneBelow (n : N) (h : host A) : Prop := (forall rid, rid < n -> get_ring rid (rings h) = None) /\ n <= nrid h.

Lemma get_ring_app rid l k r :
  get_ring rid (l ++ [(k, r)]) = match get_ring rid l with Some x => Some x | None => if k =? rid then Some r else None end.
Proof. induction l as [|[k' r'] l IH]; cbn; [reflexivity|]. destruct (k' =? rid); auto. Qed.

Lemma get_ring_set rid rid' r l :
  get_ring rid (set_ring rid' r l) =
  match get_ring rid l with Some x => Some (if rid' =? rid then r else x) | None => None end.
Proof.
  induction l as [|[k x] l IH]; cbn; [reflexivity|].
  destruct (k =? rid') eqn:E1; cbn.
  - apply N.eqb_eq in E1. subst. destruct (rid' =? rid) eqn:E2; [reflexivity|].
    destruct (get_ring rid l); reflexivity.
  - destruct (k =? rid) eqn:E2.
    + apply N.eqb_eq in E2. subst. rewrite N.eqb_sym in E1. rewrite E1. reflexivity.
    + exact IH.
Qed.

Lemma get_ring_del rid rid' l :
  get_ring rid (del_ring rid' l) = if rid' =? rid then None else get_ring rid l.
Proof.
  unfold del_ring. induction l as [|[k x] l IH]; cbn; [now destruct (rid' =? rid)|].
  destruct (k =? rid') eqn:E1; cbn.
  - apply N.eqb_eq in E1. subst. rewrite IH. destruct (rid' =? rid); reflexivity.
  - rewrite IH. destruct (k =? rid) eqn:E2; [|reflexivity].
    apply N.eqb_eq in E2. subst. rewrite N.eqb_sym in E1. now rewrite E1.
Qed.

Lemma hstep_nonebelow n h e : NoneBelow n h -> NoneBelow n (fst (hstep A h e)).
Proof.
  intros [NB L]. destruct e as [entries|rid ev|rid| |f]; cbn.
  - destruct (entries =? 0); [split; auto|]. cbn. split; cbn; [|lia].
    intros rid Hr. rewrite get_ring_app, (NB rid Hr). destruct (nrid h =? rid) eqn:E; [|reflexivity].
    apply N.eqb_eq in E. lia.
  - destruct (get_ring rid (rings h)) as [r|] eqn:G; [|split; auto].
    destruct (rstep A r (hfs h) ev) as [[r' fs'] o]. cbn. split; cbn; [|exact L].
    intros k Hk. rewrite get_ring_set, (NB k Hk). reflexivity.
  - split; cbn; [|exact L]. intros k Hk. rewrite get_ring_del, (NB k Hk). now destruct (rid =? k).
  - split; [|exact L]. reflexivity.
  - destruct (f (hfs h)) as [fs' [z d]]. split; auto.
Qed.

Lemma hstep_below_inert n h e :
  NoneBelow n h -> below n e = true ->
  fst (hstep A h e) = h /\
  (snd (hstep A h e) = ONone \/ exists rid ev, snd (hstep A h e) = OGone rid ev).
Proof.
  intros [NB L] B. destruct e as [entries|rid ev|rid| |f]; cbn in B; try discriminate; apply N.ltb_lt in B.
  - cbn. rewrite (NB rid B). split; [reflexivity|]. right. exists rid, ev. reflexivity.
  - cbn. split; [|now left]. destruct h as [rs fs nr]. cbn in *. f_equal.
    unfold del_ring. assert (forall l, (forall k, k < n -> get_ring k l = None) -> filter (fun kr => negb (fst kr =? rid)) l = l).
    { induction l as [|[k x] l IH]; intros Hl; cbn; [reflexivity|].
      destruct (k =? rid) eqn:E.
      - apply N.eqb_eq in E. subst. specialize (Hl rid B). cbn in Hl. now rewrite N.eqb_refl in Hl.
      - cbn. f_equal. apply IH. intros k' Hk'. specialize (Hl k' Hk'). cbn in Hl.
        destruct (k =? k'); [discriminate|exact Hl]. }
    now apply H.
Qed.

Lemma hrun_drop_below n es : forall h,
  NoneBelow n h ->
  fst (hrun A h es) = fst (hrun A h (filter (fun e => negb (below n e)) es)) /\
  Forall2 (fun e o => below n e = true -> o = ONone \/ exists rid ev, o = OGone rid ev) es (snd (hrun A h es)).
Proof.
  induction es as [|e es IH]; intros h NB; cbn; [split; [reflexivity|constructor]|].
  destruct (hstep A h e) as [h1 o] eqn:S.
  pose proof (hstep_nonebelow n h e NB) as NB1. rewrite S in NB1. cbn in NB1.
  destruct (below n e) eqn:B; cbn.
  - destruct (hstep_below_inert n h e NB B) as [E O]. rewrite S in E, O. cbn in E, O. subst h1.
    destruct (hrun A h es) as [h2 os] eqn:R. cbn.
    destruct (IH h NB) as [E2 F2]. rewrite R in E2, F2. cbn in E2, F2. split; [exact E2|].
    constructor; [intros _; exact O|exact F2].
  - rewrite S. destruct (hrun A h1 es) as [h2 os] eqn:R.
    destruct (IH h1 NB1) as [E2 F2]. rewrite R in E2, F2. cbn in E2, F2.
    destruct (hrun A h1 (filter (fun e0 => negb (below n e0)) es)) as [h3 os3] eqn:R3. cbn in *.
    split; [exact E2|]. constructor; [intros Hb; rewrite B in Hb; discriminate|exact F2].
Qed.

Lemma hstep_ridsbelow h e : RidsBelow h -> RidsBelow (fst (hstep A h e)).
Proof.
  unfold RidsBelow. intros RB. destruct e as [entries|rid ev|rid| |f]; cbn.
  - destruct (entries =? 0); [exact RB|]. cbn. intros k r. rewrite get_ring_app.
    destruct (get_ring k (rings h)) eqn:G.
    + intros _. apply RB in G. lia.
    + destruct (nrid h =? k) eqn:E; [|discriminate]. apply N.eqb_eq in E. lia.
  - destruct (get_ring rid (rings h)) as [r|] eqn:G; [|exact RB].
    destruct (rstep A r (hfs h) ev) as [[r' fs'] o]. cbn. intros k x. rewrite get_ring_set.
    destruct (get_ring k (rings h)) eqn:G2; [|discriminate]. intros _. now apply RB in G2.
  - intros k x. rewrite get_ring_del. destruct (rid =? k); [discriminate|apply RB].
  - intros k x. discriminate.
  - destruct (f (hfs h)) as [fs' [z d]]. exact RB.
Qed.

Lemma hrun_ridsbelow es : forall h, RidsBelow h -> RidsBelow (fst (hrun A h es)).
Proof.
  induction es as [|e es IH]; intros h RB; cbn; [exact RB|].
  destruct (hstep A h e) as [h1 o] eqn:S. pose proof (hstep_ridsbelow h e RB) as RB1. rewrite S in RB1.
  specialize (IH h1 RB1). destruct (hrun A h1 es). exact IH.
Qed.

(* rings of one host do not interfere: an event leaves every other ring as it
   was, and changes the addressed ring by `rstep` on the shared file system *)
Lemma ring_isolated_lemma h e rid r :
  RidsBelow h -> get_ring rid (rings h) = Some r ->
  get_ring rid (rings (fst (hstep A h e))) =
    match e with
    | HRing k ev => if k =? rid then Some (fst (fst (rstep A r (hfs h) ev))) else Some r
    | HDrop k => if k =? rid then None else Some r
    | HCrash => None
    | _ => Some r
    end.
Proof.
  intros RB G. destruct e as [entries|k ev|k| |f]; cbn.
  - destruct (entries =? 0); [exact G|]. cbn. now rewrite get_ring_app, G.
  - destruct (get_ring k (rings h)) as [rk|] eqn:Gk.
    + destruct (rstep A rk (hfs h) ev) as [[r' fs'] o] eqn:S. cbn. rewrite get_ring_set, G.
      destruct (k =? rid) eqn:E; [|reflexivity]. apply N.eqb_eq in E. subst.
      rewrite G in Gk. inversion Gk; subst. now rewrite S.
    + destruct (k =? rid) eqn:E; [|exact G]. apply N.eqb_eq in E. subst. congruence.
  - rewrite get_ring_del, G. reflexivity.
  - reflexivity.
  - destruct (f (hfs h)) as [fs' [z d]]. exact G.
Qed.

Lemma crash_forgets_lemma fs es1 es2 :
  let h := fst (hrun A (hinit A fs) es1) in
  let hc := fst (hstep A h HCrash) in
  rings hc = [] /\ hfs hc = hfs h /\
  fst (hrun A hc es2) = fst (hrun A hc (filter (fun e => negb (below (nrid h) e)) es2)) /\
  Forall2 (fun e o => below (nrid h) e = true -> o = ONone \/ exists rid ev, o = OGone rid ev)
          es2 (snd (hrun A hc es2)).
Proof.
  intros h hc. split; [reflexivity|]. split; [reflexivity|].
  apply hrun_drop_below. split; [reflexivity|]. cbn. lia.
Qed.

End WithFs.
