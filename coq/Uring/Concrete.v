(* TV.Uring.Concrete — a tiny byte-array file system used to instantiate the
   parametric ring model for the executable correspondence (the real file-system
   model lives in coq/Fs and is not used here).  No proofs in this file.

   A file is its current contents plus the contents made durable by the last
   fsync (files are created, fsynced and their directory entry synced by the
   harness before the script starts, so a crash rolls `cur` back to `dur` and
   closes every descriptor).  Descriptors are numbered by the script. *)
From TV.Lib Require Import Base.
From TV.Uring Require Import Gen Model.
Open Scope N_scope.

(* `pend` = (offset, length) of the writes since the last fsync of the file: Fs::used_bytes
   charges every pending write that ends beyond the durable length separately. *)
Record cfile := { cur : list N; dur : list N; pend : list (N * N) }.
Record cfs := { cfiles : list cfile; cfds : list (N * (N * N)); ccap : option N }.    (* fd -> (file index, access: bit 0 read, bit 1 write) *)

Fixpoint fd_entry (fd : N) (t : list (N * (N * N))) : option (N * N) :=
  match t with
  | [] => None
  | (k, fm) :: r => if k =? fd then Some fm else fd_entry fd r
  end.
Definition fd_file (fd : N) (t : list (N * (N * N))) : option N :=
  match fd_entry fd t with Some (f, _) => Some f | None => None end.

Definition c_ok (s : cfs) (fd : N) (u : use) : bool :=
  match fd_entry fd (cfds s) with
  | Some (_, m) => match u with URead => N.testbit m 0 | UWrite => N.testbit m 1 | USync => true end
  | None => false
  end.

Definition get_file (s : cfs) (f : N) : cfile :=
  nth (N.to_nat f) (cfiles s) {| cur := []; dur := []; pend := [] |}.

Fixpoint upd_nth {A} (i : nat) (x : A) (l : list A) : list A :=
  match l, i with
  | [], _ => []
  | _ :: r, O => x :: r
  | y :: r, S j => y :: upd_nth j x r
  end.

Definition set_file (s : cfs) (f : N) (c : cfile) : cfs :=
  {| cfiles := upd_nth (N.to_nat f) c (cfiles s); cfds := cfds s; ccap := ccap s |}.

(* Fs::read_file *)
Definition read_bytes (content : list N) (off len : N) : list N :=
  firstn (N.to_nat len) (skipn (N.to_nat off) content).

(* Fs::write_file as seen by later reads: zero-fill the gap, overlay, keep the tail *)
Definition write_bytes (content : list N) (off : N) (d : list N) : list N :=
  let o := N.to_nat off in
  let padded := content ++ repeat 0 (o - length content) in
  firstn o padded ++ d ++ skipn (o + length d) content.

Definition c_read (s : cfs) (fd off len : N) : cfs * Z * list N :=
  match fd_file fd (cfds s) with
  | None => (s, EBADF, [])
  | Some f => let d := read_bytes (cur (get_file s f)) off len in (s, Z.of_nat (length d), d)
  end.

Definition ENOSPC : Z := - Z.of_N errno_ENOSPC.

(* Fs::used_bytes *)
Definition file_used (c : cfile) : N :=
  let dl := N.of_nat (length (dur c)) in
  fold_left (fun acc ol => acc + (fst ol + snd ol - dl)) (pend c) dl.
Definition used_bytes (s : cfs) : N := fold_left (fun acc c => acc + file_used c) (cfiles s) 0.
(* Fs::check_space *)
Definition no_space (s : cfs) (additional : N) : bool :=
  match ccap s with Some cap => cap <? used_bytes s + additional | None => false end.

(* File::write_at_internal after the descriptor checks = exec_write: capacity check on
   the growth beyond the current end of file (the gap of a write past EOF included),
   then Fs::write_file *)
Definition c_write (s : cfs) (fd off : N) (d : list N) : cfs * Z :=
  match fd_file fd (cfds s) with
  | None => (s, EBADF)
  | Some f =>
      let c := get_file s f in
      let len := N.of_nat (length d) in
      let additional := off + len - N.of_nat (length (cur c)) in
      if (0 <? additional) && no_space s additional then (s, ENOSPC)
      else match d with
           | [] => (s, 0%Z)
           | _ => (set_file s f {| cur := write_bytes (cur c) off d; dur := dur c; pend := pend c ++ [(off, len)] |},
                   Z.of_nat (length d))
           end
  end.

Definition c_fsync (s : cfs) (fd : N) : cfs * Z :=
  match fd_file fd (cfds s) with
  | None => (s, EBADF)
  | Some f => let c := get_file s f in (set_file s f {| cur := cur c; dur := cur c; pend := [] |}, 0%Z)
  end.

Definition CFS : fsapi :=
  {| FS := cfs; fs_ok := c_ok; fs_read := c_read; fs_write := c_write; fs_fsync := c_fsync |}.

(* ---- external activity rendered by the generator as HFs events ---- *)
Definition x_open (fd f mode : N) (s : cfs) : cfs * (Z * list N) :=
  ({| cfiles := cfiles s; cfds := (fd, (f, mode)) :: cfds s; ccap := ccap s |}, (0%Z, [])).
Definition x_close (fd : N) (s : cfs) : cfs * (Z * list N) :=
  ({| cfiles := cfiles s; cfds := filter (fun kf => negb (fst kf =? fd)) (cfds s); ccap := ccap s |}, (0%Z, [])).
(* Fs::crash + every File dropped *)
Definition x_crash (s : cfs) : cfs * (Z * list N) :=
  ({| cfiles := map (fun c => {| cur := dur c; dur := dur c; pend := [] |}) (cfiles s); cfds := []; ccap := ccap s |}, (0%Z, [])).
(* FileExt::read_at / write_at / File::sync_all on an open descriptor; the shim
   refuses a use the descriptor was not opened for with PermissionDenied
   (rendered as -13) *)
Definition EACCES_shim : Z := (-13)%Z.
Definition x_read (fd off len : N) (s : cfs) : cfs * (Z * list N) :=
  if c_ok s fd URead then let '(s', z, d) := c_read s fd off len in (s', (z, d)) else (s, (EACCES_shim, [])).
Definition x_write (fd off : N) (d : list N) (s : cfs) : cfs * (Z * list N) :=
  if c_ok s fd UWrite then let '(s', z) := c_write s fd off d in (s', (z, [])) else (s, (EACCES_shim, [])).
Definition x_fsync (fd : N) (s : cfs) : cfs * (Z * list N) :=
  let '(s', z) := c_fsync s fd in (s', (z, [])).
(* whole contents of a file by path *)
Definition x_dump (f : N) (s : cfs) : cfs * (Z * list N) :=
  let d := cur (get_file s f) in (s, (Z.of_nat (length d), d)).

(* CFS-specialised constructors used by the generated case files *)
Definition CNew (entries : N) : hev CFS := @HNew CFS entries.
Definition CRing (rid : N) (e : rv) : hev CFS := @HRing CFS rid e.
Definition CDrop (rid : N) : hev CFS := @HDrop CFS rid.
Definition CCrash : hev CFS := @HCrash CFS.
Definition CFs (f : cfs -> cfs * (Z * list N)) : hev CFS := @HFs CFS f.

Definition cfs_init (nfiles : nat) (cap : option N) : cfs :=
  {| cfiles := repeat {| cur := []; dur := []; pend := [] |} nfiles; cfds := []; ccap := cap |}.

Definition crun (nfiles : nat) (cap : option N) (es : list (hev CFS)) : list (N * list Z * list N) :=
  hrun_enc CFS (cfs_init nfiles cap) es.
