(* TV.Uring.Concrete — a tiny byte-array file system used to instantiate the
   parametric ring model for the executable correspondence (the real file-system
   model lives in coq/Fs and is not used here).  No proofs in this file.

   A file is its current contents plus the contents made durable by the last
   fsync (files are created, fsynced and their directory entry synced by the
   harness before the script starts, so a crash rolls `cur` back to `dur` and
   closes every descriptor).  Descriptors are numbered by the script. *)
From TV.Lib Require Import Base.
From TV.Uring Require Import Gen Model.
Open Scope N_scope.

Record cfile := { cur : list N; dur : list N }.
Record cfs := { cfiles : list cfile; cfds : list (N * (N * N)) }.    (* fd -> (file index, access: bit 0 read, bit 1 write) *)

Fixpoint fd_entry (fd : N) (t : list (N * (N * N))) : option (N * N) :=
  match t with
  | [] => None
  | (k, fm) :: r => if k =? fd then Some fm else fd_entry fd r
  end.
Definition fd_file (fd : N) (t : list (N * (N * N))) : option N :=
  match fd_entry fd t with Some (f, _) => Some f | None => None end.

Definition c_ok (s : cfs) (fd : N) (u : use) : bool :=
  match fd_entry fd (cfds s) with
  | Some (_, m) => match u with URead => N.testbit m 0 | UWrite => N.testbit m 1 | USync => true end
  | None => false
  end.

Definition get_file (s : cfs) (f : N) : cfile :=
  nth (N.to_nat f) (cfiles s) {| cur := []; dur := [] |}.

Fixpoint upd_nth {A} (i : nat) (x : A) (l : list A) : list A :=
  match l, i with
  | [], _ => []
  | _ :: r, O => x :: r
  | y :: r, S j => y :: upd_nth j x r
  end.

Definition set_file (s : cfs) (f : N) (c : cfile) : cfs :=
  {| cfiles := upd_nth (N.to_nat f) c (cfiles s); cfds := cfds s |}.

(* Fs::read_file *)
Definition read_bytes (content : list N) (off len : N) : list N :=
  firstn (N.to_nat len) (skipn (N.to_nat off) content).

(* Fs::write_file as seen by later reads: zero-fill the gap, overlay, keep the tail *)
Definition write_bytes (content : list N) (off : N) (d : list N) : list N :=
  let o := N.to_nat off in
  let padded := content ++ repeat 0 (o - length content) in
  firstn o padded ++ d ++ skipn (o + length d) content.

Definition c_read (s : cfs) (fd off len : N) : cfs * Z * list N :=
  match fd_file fd (cfds s) with
  | None => (s, EBADF, [])
  | Some f => let d := read_bytes (cur (get_file s f)) off len in (s, Z.of_nat (length d), d)
  end.

Definition c_write (s : cfs) (fd off : N) (d : list N) : cfs * Z :=
  match fd_file fd (cfds s) with
  | None => (s, EBADF)
  | Some f =>
      match d with
      | [] => (s, 0%Z)
      | _ => let c := get_file s f in
             (set_file s f {| cur := write_bytes (cur c) off d; dur := dur c |}, Z.of_nat (length d))
      end
  end.

Definition c_fsync (s : cfs) (fd : N) : cfs * Z :=
  match fd_file fd (cfds s) with
  | None => (s, EBADF)
  | Some f => let c := get_file s f in (set_file s f {| cur := cur c; dur := cur c |}, 0%Z)
  end.

Definition CFS : fsapi :=
  {| FS := cfs; fs_ok := c_ok; fs_read := c_read; fs_write := c_write; fs_fsync := c_fsync |}.

(* ---- external activity rendered by the generator as HFs events ---- *)
Definition x_open (fd f mode : N) (s : cfs) : cfs * (Z * list N) :=
  ({| cfiles := cfiles s; cfds := (fd, (f, mode)) :: cfds s |}, (0%Z, [])).
Definition x_close (fd : N) (s : cfs) : cfs * (Z * list N) :=
  ({| cfiles := cfiles s; cfds := filter (fun kf => negb (fst kf =? fd)) (cfds s) |}, (0%Z, [])).
(* Fs::crash + every File dropped *)
Definition x_crash (s : cfs) : cfs * (Z * list N) :=
  ({| cfiles := map (fun c => {| cur := dur c; dur := dur c |}) (cfiles s); cfds := [] |}, (0%Z, [])).
(* FileExt::read_at / write_at / File::sync_all on an open descriptor; the shim
   refuses a use the descriptor was not opened for with PermissionDenied
   (rendered as -13) *)
Definition EACCES_shim : Z := (-13)%Z.
Definition x_read (fd off len : N) (s : cfs) : cfs * (Z * list N) :=
  if c_ok s fd URead then let '(s', z, d) := c_read s fd off len in (s', (z, d)) else (s, (EACCES_shim, [])).
Definition x_write (fd off : N) (d : list N) (s : cfs) : cfs * (Z * list N) :=
  if c_ok s fd UWrite then let '(s', z) := c_write s fd off d in (s', (z, [])) else (s, (EACCES_shim, [])).
Definition x_fsync (fd : N) (s : cfs) : cfs * (Z * list N) :=
  let '(s', z) := c_fsync s fd in (s', (z, [])).
(* whole contents of a file by path *)
Definition x_dump (f : N) (s : cfs) : cfs * (Z * list N) :=
  let d := cur (get_file s f) in (s, (Z.of_nat (length d), d)).

(* CFS-specialised constructors used by the generated case files *)
Definition CNew (entries : N) : hev CFS := @HNew CFS entries.
Definition CRing (rid : N) (e : rv) : hev CFS := @HRing CFS rid e.
Definition CDrop (rid : N) : hev CFS := @HDrop CFS rid.
Definition CCrash : hev CFS := @HCrash CFS.
Definition CFs (f : cfs -> cfs * (Z * list N)) : hev CFS := @HFs CFS f.

Definition cfs_init (nfiles : nat) : cfs :=
  {| cfiles := repeat {| cur := []; dur := [] |} nfiles; cfds := [] |}.

Definition crun (nfiles : nat) (es : list (hev CFS)) : list (N * list Z * list N) :=
  hrun_enc CFS (cfs_init nfiles) es.
