(* TV.Link.C14_proofs — latency window and equal-latency order (property C14). *)
From TV.Lib Require Import Base.
From TV.Link Require Import Model Facts C08_proofs.
Open Scope N_scope.

(* ---- the sampled delay lies in the configured range, for every sample ---- *)

Lemma delay_in_bounds_lemma g l x :
  lmin (eff_lat g l) <= lmax (eff_lat g l) ->
  lmin (eff_lat g l) <= delay g l x <= lmax (eff_lat g l).
Proof. unfold delay. intros H. cbn zeta. unfold ms. lia. Qed.

(* ---- maturity: a message leaves `sent` at the first tick at or after its instant ---- *)

Definition dest_ready (l : link) (d : dir) := match d with AB => ready_b l | BA => ready_a l end.

Lemma tick_matures_lemma g l dt m t :
  In m (sent l) -> mstat m = After t ->
  let l' := fin (step g l (Tick dt)) in
  (t <= lnow l + dt -> In (mid m) (dest_ready l' (mdir m)) /\ ~ In m (sent l')) /\
  (lnow l + dt < t -> In m (sent l') /\ lnow l' = lnow l + dt).
Proof.
  intros Hin Hst. unfold fin; cbn [step fst snd]. split; intros Ht.
  - assert (Hd : due (lnow l + dt) m = true) by (unfold due; rewrite Hst; apply N.leb_le; exact Ht).
    split.
    + destruct (mdir m) eqn:Hdir; cbn; rewrite in_app_iff; right; apply in_map_iff; exists m;
        (split; [reflexivity|]); apply filter_In; (split; [apply filter_In; auto|now rewrite Hdir]).
    + cbn. intros H. apply filter_In in H as [_ H]. rewrite Hd in H. discriminate.
  - assert (Hd : due (lnow l + dt) m = false) by (unfold due; rewrite Hst; apply N.leb_gt; exact Ht).
    split; [|reflexivity]. cbn. apply filter_In. split; [exact Hin|now rewrite Hd].
Qed.

(* A healthy send stamps lnow + delay. *)
Lemma send_stamp_lemma g l d id x p :
  state_of l d = Healthy -> good_states l ->
  let l' := fin (step g l (Send d id x false p)) in
  let m := {| mid := id; mdir := d; mstat := After (lnow l + delay g l x) |} in
  (0 < delay g l x -> In m (sent l')) /\
  (delay g l x = 0 -> In id (dest_ready l' d)).
Proof.
  intros Hst Hg. unfold fin; cbn [step fst snd]. rewrite rand_step_good by exact Hg.
  unfold enqueue. rewrite Hst. split; intros Hd.
  - cbn. apply filter_In. split; [apply in_or_app; right; now left|].
    cbn. apply negb_true_iff, N.leb_gt. lia.
  - assert (E : forall d0, In {| mid := id; mdir := d0; mstat := After (lnow l + delay g l x) |}
                 (filter (due (lnow l))
                    (sent l ++ [{| mid := id; mdir := d0; mstat := After (lnow l + delay g l x) |}]))).
    { intros d0. apply filter_In. split; [apply in_or_app; right; now left|].
      cbn. apply N.leb_le. lia. }
    destruct d; cbn; rewrite in_app_iff; right; apply in_map_iff;
      [exists {| mid := id; mdir := AB; mstat := After (lnow l + delay g l x) |}
      |exists {| mid := id; mdir := BA; mstat := After (lnow l + delay g l x) |}];
      (split; [reflexivity|]); (apply filter_In; split; [apply E|reflexivity]).
Qed.

(* ---- per-link overrides ---- *)

Lemma override_fixed_lemma g g' l v x :
  let l' := fin (step g l (SetLinkLatency v)) in
  delay g' l' x = v /\ forall g'', eff_lat g'' l' = {| lmin := v; lmax := v |}.
Proof. unfold fin; cbn [step fst snd]. unfold delay, eff_lat; cbn. split; [unfold ms; lia|reflexivity]. Qed.

Definition keeps_llat (e : ev) : Prop :=
  match e with SetLinkLatency _ | SetLinkMax _ => False | _ => True end.

Lemma step_keeps_llat g l e : keeps_llat e -> llat (fin (step g l e)) = llat l.
Proof.
  intros H. unfold fin. destruct e; cbn [keeps_llat] in H; try contradiction; cbn [step fst snd]; try reflexivity.
  - unfold enqueue, rand_step.
    destruct (do_rand && _); [|destruct (_ && do_repair)]; cbn;
      match goal with |- context [match ?s with _ => _ end] => destruct s end; reflexivity.
  - destruct to_b; reflexivity.
  - destruct d; reflexivity.
  - destruct d; reflexivity.
Qed.

Lemma run_keeps_llat es : forall g l, Forall keeps_llat es -> llat (fin (run g l es)) = llat l.
Proof.
  induction es as [|e es IH]; intros g l Hal; [reflexivity|].
  inversion Hal as [|? ? He Hes]; subst. cbn [run].
  pose proof (step_keeps_llat g l e He) as H1.
  destruct (step g l e) as [[g' l'] o]. unfold fin in H1; cbn [fst snd] in H1.
  specialize (IH g' l' Hes). destruct (run g' l' es) as [[g'' l''] os].
  unfold fin in *; cbn [fst snd] in *. congruence.
Qed.

(* The global maximum only matters for links without their own copy. *)
Lemma global_max_lemma g l v x :
  let '(g', l', _) := step g l (SetGlobalMax v) in
  l' = l /\
  (llat l <> None -> delay g' l' x = delay g l x) /\
  (llat l = None -> eff_lat g' l' = {| lmin := lmin g; lmax := v |}).
Proof.
  cbn [step]. split; [reflexivity|]. split.
  - unfold delay, eff_lat. destruct (llat l); [reflexivity|congruence].
  - unfold eff_lat. intros ->. reflexivity.
Qed.

(* ---- FIFO for non-decreasing delivery instants ---- *)

Inductive precedes {A} (x y : A) : list A -> Prop :=
| Prec l1 l2 l3 : precedes x y (l1 ++ x :: l2 ++ y :: l3).

Lemma precedes_app_l {A} (x y : A) l l' : precedes x y l -> precedes x y (l' ++ l).
Proof. intros [l1 l2 l3]. rewrite app_assoc. constructor. Qed.

Lemma precedes_app_r {A} (x y : A) l l' : precedes x y l -> precedes x y (l ++ l').
Proof.
  intros [l1 l2 l3]. rewrite <- app_assoc. cbn. rewrite <- app_assoc. cbn.
  apply (Prec x y l1 l2 (l3 ++ l')).
Qed.

Lemma precedes_split {A} (x y : A) l l' : In x l -> In y l' -> precedes x y (l ++ l').
Proof.
  intros Hx Hy. apply in_split in Hx as (a & b & ->). apply in_split in Hy as (c & d & ->).
  rewrite <- app_assoc. cbn. rewrite app_assoc. apply (Prec x y a (b ++ c) d).
Qed.

Lemma precedes_map {A B} (f : A -> B) x y l : precedes x y l -> precedes (f x) (f y) (map f l).
Proof. intros [l1 l2 l3]. rewrite map_app. cbn. rewrite map_app. cbn. constructor. Qed.

Lemma precedes_filter {A} (f : A -> bool) x y l :
  precedes x y l -> f x = true -> f y = true -> precedes x y (filter f l).
Proof.
  intros [l1 l2 l3] Hx Hy. rewrite filter_app. cbn. rewrite Hx, filter_app. cbn. rewrite Hy. constructor.
Qed.

Lemma precedes_in {A} (x y : A) l : precedes x y l -> In x l /\ In y l.
Proof.
  intros [l1 l2 l3]. split; apply in_or_app; right; [now left|].
  right. apply in_or_app. right. now left.
Qed.

(* The C14 alphabet: healthy links only. *)
Definition c14_event (e : ev) : Prop :=
  match e with
  | Send _ _ _ r _ => r = false
  | Tick _ | Drain _ | SetLinkLatency _ | SetLinkMax _ | SetGlobalMax _ => True
  | _ => False
  end.

Definition healthy (l : link) : Prop := sab l = Healthy /\ sba l = Healthy.

Lemma healthy_good l : healthy l -> good_states l.
Proof. intros [A B]. unfold good_states. rewrite A, B. auto. Qed.

Lemma step_healthy g l e : c14_event e -> healthy l -> healthy (fin (step g l e)).
Proof.
  intros He Hh. pose proof Hh as [A B]. unfold fin, healthy.
  destruct e; cbn [c14_event] in He; try contradiction; cbn [step fst snd]; auto.
  - subst do_rand. rewrite rand_step_good by (apply healthy_good; exact Hh).
    unfold enqueue. destruct d; cbn [state_of]; rewrite ?A, ?B; cbn; auto.
  - destruct to_b; cbn; auto.
Qed.

(* delivery sequence of direction d: what was already handed to the
   destination, then what is ready for it *)
Definition seq_d (d : dir) (o : list N) (l : link) : list N := o ++ dest_ready l d.
Definition is_dir (d : dir) (m : msg) : bool := dir_eqb (mdir m) d.

Lemma dest_ready_process l d :
  dest_ready (process l) d =
  dest_ready l d ++ map mid (filter (is_dir d) (filter (due (lnow l)) (sent l))).
Proof. destruct d; reflexivity. Qed.

(* Invariant for an ordered pair of messages of direction d: m1 sent first. *)
Record pair_inv (d : dir) (m1 m2 : msg) (o : list N) (l : link) : Prop := {
  pi_sent : In m2 (sent l) ->
            precedes m1 m2 (sent l) \/ (~ In m1 (sent l) /\ In (mid m1) (seq_d d o l));
  pi_seq : In (mid m2) (seq_d d o l) -> precedes (mid m1) (mid m2) (seq_d d o l);
  pi_uniq : forall m, In m (sent l) -> mid m = mid m2 -> m = m2;
  pi_excl : In m2 (sent l) -> ~ In (mid m2) (seq_d d o l) }.

Lemma process_pair d m1 m2 o l t1 t2 :
  mdir m1 = d -> mdir m2 = d -> mstat m1 = After t1 -> mstat m2 = After t2 -> t1 <= t2 ->
  pair_inv d m1 m2 o l -> pair_inv d m1 m2 o (process l).
Proof.
  intros D1 D2 S1 S2 Hle [Hs Hq Hu Hx].
  assert (Hdue : due (lnow l) m2 = true -> due (lnow l) m1 = true).
  { unfold due. rewrite S1, S2. intros H. apply N.leb_le in H. apply N.leb_le. lia. }
  assert (Hse : sent (process l) = filter (fun m => negb (due (lnow l) m)) (sent l)) by reflexivity.
  assert (I1 : is_dir d m1 = true) by (unfold is_dir; rewrite D1; apply dir_eqb_refl).
  assert (I2 : is_dir d m2 = true) by (unfold is_dir; rewrite D2; apply dir_eqb_refl).
  constructor.
  - rewrite Hse. intros Hin. apply filter_In in Hin as [Hin Hnd2]. apply negb_true_iff in Hnd2.
    destruct (Hs Hin) as [Hp|[Hn Hi]].
    + destruct (due (lnow l) m1) eqn:Hd1.
      * right. split; [intros H; apply filter_In in H as [_ H]; rewrite Hd1 in H; discriminate|].
        unfold seq_d. rewrite dest_ready_process, !in_app_iff. right. right.
        apply in_map_iff. exists m1. split; [reflexivity|].
        apply filter_In. split; [apply filter_In; split; [apply (precedes_in _ _ _ Hp)|exact Hd1]|exact I1].
      * left. apply precedes_filter; auto; [now rewrite Hd1|now rewrite Hnd2].
    + right. split; [intros H; apply filter_In in H; tauto|].
      unfold seq_d in *. rewrite dest_ready_process, !in_app_iff in *. tauto.
  - unfold seq_d. rewrite dest_ready_process, app_assoc. intros Hin. apply in_app_or in Hin as [Hin|Hin].
    + apply precedes_app_r. apply Hq. exact Hin.
    + apply in_map_iff in Hin as (m & Hid & Hm). apply filter_In in Hm as [Hm _].
      apply filter_In in Hm as [Hm Hdm]. pose proof (Hu m Hm Hid) as ->.
      destruct (Hs Hm) as [Hp|[Hn Hi]].
      * apply precedes_app_l. apply (precedes_map mid). apply precedes_filter; auto.
        apply precedes_filter; auto.
      * apply precedes_split; [exact Hi|].
        apply in_map_iff. exists m2. split; [reflexivity|].
        apply filter_In. split; [apply filter_In; auto|exact I2].
  - rewrite Hse. intros m Hin. apply filter_In in Hin as [Hin _]. auto.
  - rewrite Hse. intros Hin. apply filter_In in Hin as [Hin Hnd2]. apply negb_true_iff in Hnd2.
    unfold seq_d. rewrite dest_ready_process, app_assoc, in_app_iff. intros [H|H].
    + exact (Hx Hin H).
    + apply in_map_iff in H as (m & Hid & Hm). apply filter_In in Hm as [Hm _].
      apply filter_In in Hm as [Hm Hdm]. pose proof (Hu m Hm Hid) as ->. congruence.
Qed.

(* "m1 is not lost": it is in flight or in the delivery sequence. *)
Definition alive (d : dir) (m1 : msg) (o : list N) (l : link) : Prop :=
  In m1 (sent l) \/ In (mid m1) (seq_d d o l).

Lemma process_alive d m1 o l : mdir m1 = d -> alive d m1 o l -> alive d m1 o (process l).
Proof.
  intros D1 [H|H].
  - destruct (due (lnow l) m1) eqn:Hd.
    + right. unfold seq_d. rewrite dest_ready_process, !in_app_iff. right. right.
      apply in_map_iff. exists m1. split; [reflexivity|].
      apply filter_In. split; [apply filter_In; auto|unfold is_dir; rewrite D1; apply dir_eqb_refl].
    + left. cbn. apply filter_In. split; [exact H|now rewrite Hd].
  - right. unfold seq_d in *. rewrite dest_ready_process, !in_app_iff in *. tauto.
Qed.

(* outputs towards the destination of d *)
Definition out_d (d : dir) (e : ev) (o : list N) : list N :=
  match e, d with Drain true, AB => o | Drain false, BA => o | _, _ => [] end.

Fixpoint run_d (d : dir) (g : lat) (l : link) (es : list ev) : lat * link * list N :=
  match es with
  | [] => (g, l, [])
  | e :: es' =>
      let '(g', l', o) := step g l e in
      let '(g'', l'', os) := run_d d g' l' es' in (g'', l'', out_d d e o ++ os)
  end.

Lemma run_d_app d g l es1 es2 :
  run_d d g l (es1 ++ es2) =
  let '(g1, l1, o1) := run_d d g l es1 in
  let '(g2, l2, o2) := run_d d g1 l1 es2 in (g2, l2, o1 ++ o2).
Proof.
  revert g l. induction es1 as [|e es1 IH]; intros g l; cbn [run_d app].
  - destruct (run_d d g l es2) as [[g2 l2] o2]. reflexivity.
  - destruct (step g l e) as [[g' l'] o] eqn:Hs.
    rewrite IH. destruct (run_d d g' l' es1) as [[g1 l1] o1].
    destruct (run_d d g1 l1 es2) as [[g2 l2] o2]. now rewrite app_assoc.
Qed.

(* One step on a healthy link, for an event that sends neither id. *)
Lemma step_seq_cases d g l e o :
  c14_event e -> healthy l ->
  let '(g', l', oe) := step g l e in
  let o' := o ++ out_d d e oe in
  (* either the step is a process after a change that keeps sent/ready, or an append *)
  (exists l0, l' = process l0 /\ dest_ready l0 d = dest_ready l d /\ o' = o /\
              (sent l0 = sent l \/ exists m, sent l0 = sent l ++ [m] /\ In (mid m) (send_ids [e])))
  \/ (sent l' = sent l /\ seq_d d o' l' = seq_d d o l).
Proof.
  intros He Hh. pose proof Hh as [A B].
  destruct e; cbn [c14_event] in He; try contradiction; cbn [step].
  - subst do_rand. rewrite rand_step_good by (apply healthy_good; exact Hh). left.
    exists (enqueue g l d0 id x_ms). split; [reflexivity|]. unfold enqueue.
    assert (Hst : state_of l d0 = Healthy) by (destruct d0; cbn; auto). rewrite Hst.
    split; [destruct d; reflexivity|]. split; [destruct d; cbn; now rewrite app_nil_r|].
    right. eexists. split; [reflexivity|]. cbn. auto.
  - left. exists (set_now l (lnow l + dt)). split; [reflexivity|].
    split; [destruct d; reflexivity|]. split; [destruct d; cbn; now rewrite app_nil_r|]. left. reflexivity.
  - destruct to_b; right; (split; [reflexivity|]);
      unfold seq_d; destruct d; cbn; rewrite ?app_nil_r, <- ?app_assoc; cbn; rewrite ?app_nil_r; reflexivity.
  - right. split; [reflexivity|]. unfold seq_d. destruct d; cbn; now rewrite app_nil_r.
  - right. split; [reflexivity|]. unfold seq_d. destruct d; cbn; now rewrite app_nil_r.
  - right. split; [reflexivity|]. unfold seq_d. destruct d; cbn; now rewrite app_nil_r.
Qed.

Lemma alive_step d m1 g l e o :
  mdir m1 = d -> c14_event e -> healthy l -> alive d m1 o l ->
  let '(g', l', oe) := step g l e in alive d m1 (o ++ out_d d e oe) l'.
Proof.
  intros D1 He Hh Ha. pose proof (step_seq_cases d g l e o He Hh) as Hc.
  destruct (step g l e) as [[g' l'] oe]. cbn zeta in Hc.
  destruct Hc as [(l0 & -> & Hr & -> & Hs)|[Hs Hq]].
  - apply process_alive; [exact D1|]. destruct Ha as [Ha|Ha].
    + left. destruct Hs as [->|(m & -> & _)]; [exact Ha|apply in_or_app; auto].
    + right. unfold seq_d in *. now rewrite Hr.
  - destruct Ha as [Ha|Ha]; [left; now rewrite Hs|right; now rewrite Hq].
Qed.

Lemma pair_step d m1 m2 t1 t2 g l e o :
  mdir m1 = d -> mdir m2 = d -> mstat m1 = After t1 -> mstat m2 = After t2 -> t1 <= t2 ->
  c14_event e -> healthy l -> ~ In (mid m1) (send_ids [e]) -> ~ In (mid m2) (send_ids [e]) ->
  pair_inv d m1 m2 o l ->
  let '(g', l', oe) := step g l e in pair_inv d m1 m2 (o ++ out_d d e oe) l'.
Proof.
  intros D1 D2 S1 S2 Hle He Hh Hf1 Hf HI. pose proof (step_seq_cases d g l e o He Hh) as Hc.
  destruct (step g l e) as [[g' l'] oe]. cbn zeta in Hc.
  destruct Hc as [(l0 & -> & Hr & -> & Hs)|[Hs Hq]].
  - apply (process_pair d m1 m2 o l0 t1 t2); auto.
    destruct HI as [Hs' Hq' Hu Hx]. unfold seq_d in *.
    destruct Hs as [E|(m & E & Hm)]; rewrite ?E, ?Hr.
    + constructor; unfold seq_d; rewrite ?E, ?Hr; auto.
    + assert (Hne : m <> m2) by (intros ->; apply Hf; exact Hm).
      constructor; unfold seq_d; rewrite ?E, ?Hr; auto.
      * intros Hin. apply in_app_or in Hin as [Hin|[Hin|[]]]; [|congruence].
        destruct (Hs' Hin) as [Hp|[Hn Hi]]; [left; now apply precedes_app_r|].
        right. split; [|exact Hi]. intros H. apply in_app_or in H as [H|[H|[]]]; [tauto|].
        subst m. apply Hf1. exact Hm.
      * intros m' Hin Hid. apply in_app_or in Hin as [Hin|[<-|[]]]; [auto|].
        exfalso. apply Hf. rewrite <- Hid. exact Hm.
      * intros Hin. apply in_app_or in Hin as [Hin|[Hin|[]]]; [auto|congruence].
  - destruct HI as [Hs' Hq' Hu Hx]. constructor; rewrite ?Hs, ?Hq; auto.
Qed.


Lemma run_d_run d es : forall g l,
  fst (run_d d g l es) = fst (run g l es) /\ incl (snd (run_d d g l es)) (snd (run g l es)).
Proof.
  induction es as [|e es IH]; intros g l; cbn [run_d run]; [split; [reflexivity|apply incl_refl]|].
  destruct (step g l e) as [[g' l'] o]. destruct (IH g' l') as [E I].
  destruct (run_d d g' l' es) as [[g2 l2] o2]. destruct (run g' l' es) as [[g3 l3] o3].
  cbn [fst snd] in *. inversion E; subst. split; [reflexivity|].
  apply incl_app; [|apply incl_appr; exact I].
  destruct e; cbn; try apply incl_nil_l. destruct to_b, d; cbn; try apply incl_nil_l; apply incl_appl, incl_refl.
Qed.

Lemma run_d_fresh d es g x :
  ~ In x (send_ids es) ->
  ~ In x (ids_of (fin (run_d d g init es))) /\ ~ In x (outs (run_d d g init es)).
Proof.
  intros Hf. destruct (run_d_run d es g init) as [E I].
  pose proof (run_ids es g init x) as H. unfold fin, outs in *.
  rewrite E. split; intros Hin.
  - destruct H as [H|H]; [apply in_or_app; left; exact Hin|destruct H|exact (Hf H)].
  - destruct H as [H|H]; [apply in_or_app; right; apply I; exact Hin|destruct H|exact (Hf H)].
Qed.

Lemma run_healthy d es : forall g l, Forall c14_event es -> healthy l -> healthy (fin (run_d d g l es)).
Proof.
  induction es as [|e es IH]; intros g l Hal Hh; [exact Hh|].
  inversion Hal as [|? ? He Hes]; subst. cbn [run_d].
  pose proof (step_healthy g l e He Hh) as H1.
  destruct (step g l e) as [[g' l'] o]. unfold fin in H1; cbn [fst snd] in H1.
  specialize (IH g' l' Hes H1). destruct (run_d d g' l' es) as [[g2 l2] o2]. exact IH.
Qed.

Lemma alive_run d m1 es : forall g l o,
  mdir m1 = d -> Forall c14_event es -> healthy l -> alive d m1 o l ->
  alive d m1 (o ++ outs (run_d d g l es)) (fin (run_d d g l es)).
Proof.
  induction es as [|e es IH]; intros g l o D1 Hal Hh Ha.
  - unfold outs, fin; cbn. now rewrite app_nil_r.
  - inversion Hal as [|? ? He Hes]; subst. cbn [run_d].
    pose proof (alive_step (mdir m1) m1 g l e o eq_refl He Hh Ha) as H1.
    pose proof (step_healthy g l e He Hh) as H2.
    destruct (step g l e) as [[g' l'] oe]. unfold fin in H2; cbn [fst snd] in H2.
    specialize (IH g' l' (o ++ out_d (mdir m1) e oe) eq_refl Hes H2 H1).
    destruct (run_d (mdir m1) g' l' es) as [[g2 l2] o2]. unfold outs, fin in *; cbn [fst snd] in *.
    now rewrite app_assoc.
Qed.

Lemma pair_run d m1 m2 t1 t2 es : forall g l o,
  mdir m1 = d -> mdir m2 = d -> mstat m1 = After t1 -> mstat m2 = After t2 -> t1 <= t2 ->
  Forall c14_event es -> healthy l ->
  ~ In (mid m1) (send_ids es) -> ~ In (mid m2) (send_ids es) ->
  pair_inv d m1 m2 o l ->
  pair_inv d m1 m2 (o ++ outs (run_d d g l es)) (fin (run_d d g l es)).
Proof.
  induction es as [|e es IH]; intros g l o D1 D2 S1 S2 Hle Hal Hh Hf1 Hf2 HI.
  - unfold outs, fin; cbn. now rewrite app_nil_r.
  - inversion Hal as [|? ? He Hes]; subst. cbn [run_d].
    change (e :: es) with ([e] ++ es) in Hf1, Hf2. rewrite send_ids_app, in_app_iff in Hf1, Hf2.
    pose proof (pair_step (mdir m1) m1 m2 t1 t2 g l e o eq_refl D2 S1 S2 Hle He Hh
                  (fun H => Hf1 (or_introl H)) (fun H => Hf2 (or_introl H)) HI) as H1.
    pose proof (step_healthy g l e He Hh) as H2.
    destruct (step g l e) as [[g' l'] oe]. unfold fin in H2; cbn [fst snd] in H2.
    specialize (IH g' l' (o ++ out_d (mdir m1) e oe) eq_refl D2 S1 S2 Hle Hes H2
                  (fun H => Hf1 (or_intror H)) (fun H => Hf2 (or_intror H)) H1).
    destruct (run_d (mdir m1) g' l' es) as [[g2 l2] o2]. unfold outs, fin in *; cbn [fst snd] in *.
    now rewrite app_assoc.
Qed.

Lemma msg_eq_dec (a b : msg) : {a = b} + {a <> b}.
Proof. repeat decide equality. Qed.

Lemma enqueue_pair d m1 m2 o l :
  alive d m1 o l -> (forall m, In m (sent l) -> mid m <> mid m2) ->
  ~ In (mid m2) (seq_d d o l) -> m1 <> m2 ->
  pair_inv d m1 m2 o (set_sent l (sent l ++ [m2])).
Proof.
  intros Ha Hns Hnq Hne.
  assert (Hq : seq_d d o (set_sent l (sent l ++ [m2])) = seq_d d o l) by (destruct d; reflexivity).
  constructor; rewrite ?Hq; cbn [sent set_sent].
  - intros _. destruct (in_dec msg_eq_dec m1 (sent l)) as [Hin|Hn].
    + left. apply precedes_split; [exact Hin|now left].
    + right. destruct Ha as [Ha|Ha]; [contradiction|]. split; [|exact Ha].
      intros H. apply in_app_or in H as [H|[H|[]]]; [auto|]. congruence.
  - intros H. exfalso. exact (Hnq H).
  - intros m Hm E. apply in_app_or in Hm as [Hm|[Hm|[]]]; [exfalso; exact (Hns m Hm E)|auto].
  - intros _. exact Hnq.
Qed.

Lemma healthy_init t : healthy (init_at t).
Proof. split; reflexivity. Qed.

Lemma c14_fifo_lemma d g es1 id1 x1 p1 es2 id2 x2 p2 es3 :
  let s1 := Send d id1 x1 false p1 in
  let s2 := Send d id2 x2 false p2 in
  let es := es1 ++ s1 :: es2 ++ s2 :: es3 in
  Forall c14_event es -> NoDup (send_ids es) ->
  let r1 := run_d d g init es1 in
  let r2 := run_d d g init (es1 ++ s1 :: es2) in
  lnow (fin r1) + delay (gfin r1) (fin r1) x1 <= lnow (fin r2) + delay (gfin r2) (fin r2) x2 ->
  let r := run_d d g init es in
  In id2 (seq_d d (outs r) (fin r)) -> precedes id1 id2 (seq_d d (outs r) (fin r)).
Proof.
  intros s1 s2 es Hal Hnd r1 r2 Hle r.
  (* split the alphabet and freshness facts *)
  unfold es in Hal. apply Forall_app in Hal as [Hal1 Hal]. inversion Hal as [|? ? Hs1 Hal']; subst.
  apply Forall_app in Hal' as [Hal2 Hal'']. inversion Hal'' as [|? ? Hs2 Hal3]; subst.
  unfold es in Hnd. rewrite send_ids_app in Hnd. change (s1 :: es2 ++ s2 :: es3) with ([s1] ++ es2 ++ [s2] ++ es3) in Hnd.
  rewrite !send_ids_app in Hnd. cbn [send_ids flat_map s1 s2 app] in Hnd.
  assert (F1a : ~ In id1 (send_ids es1)) by
    (intros H; apply NoDup_app_iff in Hnd as (_ & _ & Hd); apply (Hd id1 H); now left).
  assert (F2a : ~ In id2 (send_ids es1)) by
    (intros H; apply NoDup_app_iff in Hnd as (_ & _ & Hd); apply (Hd id2 H); right;
     apply in_or_app; right; now left).
  apply NoDup_app_iff in Hnd as (_ & Hnd & _). inversion Hnd as [|? ? N1 Hnd2]; subst.
  assert (F1b : ~ In id1 (send_ids es2)) by (intros H; apply N1, in_or_app; auto).
  assert (F12 : id1 <> id2) by (intros ->; apply N1, in_or_app; right; now left).
  assert (F1c : ~ In id1 (send_ids es3)) by (intros H; apply N1, in_or_app; right; right; exact H).
  apply NoDup_app_iff in Hnd2 as (_ & Hnd3 & Hd2). inversion Hnd3 as [|? ? N2 _]; subst.
  assert (F2b : ~ In id2 (send_ids es2)) by (intros H; apply (Hd2 id2 H); now left).
  (* phase 0 *)
  unfold r. unfold es. rewrite run_d_app. fold r1.
  pose proof (run_healthy d es1 g init Hal1 (healthy_init 0)) as Hh1. fold r1 in Hh1.
  destruct (run_d_fresh d es1 g id1 F1a) as [Fa1 Fo1]. destruct (run_d_fresh d es1 g id2 F2a) as [Fa2 Fo2].
  fold r1 in Fa1, Fo1, Fa2, Fo2.
  unfold r2 in Hle. rewrite run_d_app in Hle. fold r1 in Hle.
  destruct r1 as [[g1 l1] o1]. unfold fin, gfin, outs in *; cbn [fst snd] in *.
  (* phase 1: first send *)
  cbn [run_d] in Hle |- *.
  set (T1 := lnow l1 + delay g1 l1 x1) in *.
  set (m1 := {| mid := id1; mdir := d; mstat := After T1 |}).
  pose proof (step_healthy g1 l1 s1 Hs1 Hh1) as Hh1'.
  assert (Ha1 : alive d m1 o1 (fin (step g1 l1 s1))).
  { unfold fin, s1; cbn [step fst snd]. rewrite rand_step_good by (apply healthy_good; exact Hh1).
    apply process_alive; [reflexivity|]. left. unfold enqueue.
    assert (Hst : state_of l1 d = Healthy) by (destruct Hh1; destruct d; cbn; auto). rewrite Hst.
    cbn. apply in_or_app. right. now left. }
  assert (Fa2' : ~ In id2 (ids_of (fin (step g1 l1 s1)))).
  { intros H. destruct (step_ids g1 l1 s1 id2) as [H'|H']; [apply in_or_app; auto|tauto|].
    cbn in H'. destruct H' as [H'|[]]. auto. }
  assert (Hos1 : out_d d s1 (outs (step g1 l1 s1)) = []) by reflexivity.
  destruct (step g1 l1 s1) as [[g1' l1'] oe1]. unfold fin, outs in *; cbn [fst snd] in *.
  rewrite Hos1 in *. cbn [app] in *.
  (* phase 2 *)
  rewrite run_d_app.
  pose proof (alive_run d m1 es2 g1' l1' o1 eq_refl Hal2 Hh1' Ha1) as Ha2.
  pose proof (run_healthy d es2 g1' l1' Hal2 Hh1') as Hh2.
  assert (Fr2 : ~ In id2 (ids_of (fin (run_d d g1' l1' es2)) ++ outs (run_d d g1' l1' es2))).
  { destruct (run_d_run d es2 g1' l1') as [E I]. intros H.
    destruct (run_ids es2 g1' l1' id2) as [H'|H']; auto.
    unfold fin, outs in *. rewrite <- E. apply in_app_or in H as [H|H]; apply in_or_app; auto. }
  destruct (run_d d g1' l1' es2) as [[g2 l2] o2]. unfold fin, gfin, outs in *; cbn [fst snd] in *.
  (* phase 3: second send *)
  cbn [run_d] in *.
  set (T2 := lnow l2 + delay g2 l2 x2) in *.
  set (m2 := {| mid := id2; mdir := d; mstat := After T2 |}).
  pose proof (step_healthy g2 l2 s2 Hs2 Hh2) as Hh2'.
  assert (HI : pair_inv d m1 m2 (o1 ++ o2) (fin (step g2 l2 s2))).
  { unfold fin, s2; cbn [step fst snd]. rewrite rand_step_good by (apply healthy_good; exact Hh2).
    apply (process_pair d m1 m2 _ _ T1 T2); try reflexivity; [exact Hle|].
    unfold enqueue.
    assert (Hst : state_of l2 d = Healthy) by (destruct Hh2; destruct d; cbn; auto). rewrite Hst.
    apply enqueue_pair.
    - exact Ha2.
    - intros m Hm E. apply Fr2. apply in_or_app. left. unfold ids_of. apply in_or_app. left.
      apply in_map_iff. eauto.
    - unfold seq_d. rewrite <- app_assoc, !in_app_iff. intros [H|[H|H]]; [auto| |].
      + apply Fr2. apply in_or_app. now right.
      + apply Fr2. apply in_or_app. left. unfold ids_of. rewrite !in_app_iff. destruct d; cbn in H; auto.
    - intros E. inversion E. auto. }
  assert (Hos2 : out_d d s2 (outs (step g2 l2 s2)) = []) by reflexivity.
  destruct (step g2 l2 s2) as [[g2' l2'] oe2]. unfold fin, outs in *; cbn [fst snd] in *.
  rewrite Hos2. cbn [app].
  (* phase 4 *)
  pose proof (pair_run d m1 m2 T1 T2 es3 g2' l2' (o1 ++ o2) eq_refl eq_refl eq_refl eq_refl Hle
                Hal3 Hh2' F1c N2 HI) as HF.
  destruct (run_d d g2' l2' es3) as [[g3 l3] o3]. unfold fin, outs in *; cbn [fst snd] in *.
  rewrite <- app_assoc in HF. intros Hin. exact (pi_seq _ _ _ _ _ HF Hin).
Qed.
