(* Property C14 — messages arrive within the configured latency window, in
   order on equal latency.  Statements only; proofs in C14_proofs.v. *)
From TV.Lib Require Import Base.
From TV.Link Require Import Model Facts Topo_proofs Topo_run C03_topo C08_proofs C14_proofs C14_e2e C14_topo Gen.
Open Scope N_scope.

(* Every sampled delay lies in the effective latency range of the link, for
   every value of the random sample. *)
Theorem c14_delay_in_bounds : forall g l x,
  lmin (eff_lat g l) <= lmax (eff_lat g l) ->
  lmin (eff_lat g l) <= delay g l x <= lmax (eff_lat g l).
Proof. exact delay_in_bounds_lemma. Qed.

(* A healthy send is stamped (link time + delay); a zero delay matures inside the send. *)
Theorem c14_send_stamp : forall g l d id x p,
  state_of l d = Healthy -> good_states l ->
  let l' := fin (step g l (Send d id x false p)) in
  let m := {| mid := id; mdir := d; mstat := After (lnow l + delay g l x) |} in
  (0 < delay g l x -> In m (sent l')) /\
  (delay g l x = 0 -> In id (dest_ready l' d)).
Proof. exact send_stamp_lemma. Qed.

(* Maturity: a message stamped t leaves `sent` for its destination's ready
   queue at the first tick whose time R satisfies t <= R, and not before. *)
Theorem c14_maturity : forall g l dt m t,
  In m (sent l) -> mstat m = After t ->
  let l' := fin (step g l (Tick dt)) in
  (t <= lnow l + dt -> In (mid m) (dest_ready l' (mdir m)) /\ ~ In m (sent l')) /\
  (lnow l + dt < t -> In m (sent l') /\ lnow l' = lnow l + dt).
Proof. exact tick_matures_lemma. Qed.

(* The measured window.  S = link time at the send, s = sender's clock with
   S - tick <= s <= S, delay in [lo, hi]; the message is handed over at the
   destination's first turn after it matured, i.e. at a step start r with
   S + delay - tick <= r <= S + delay (matured by the tick R with
   S + delay <= R < S + delay + tick: r = R - tick; zero delay, matured inside
   the send: r = S - tick if the destination still has its turn in this step,
   else r = S).  Then lo - tick <= r - s <= hi + tick. *)
Theorem c14_window : forall (S s delay lo hi r tick : Z),
  (0 < tick -> S - tick <= s <= S -> lo <= delay <= hi ->
   S + delay - tick <= r <= S + delay ->
   lo - tick <= r - s <= hi + tick)%Z.
Proof. intros. lia. Qed.

(* A per-link latency takes precedence from the moment it is made, whatever
   the global configuration is or becomes. *)
Theorem c14_override : forall g g' l v x,
  let l' := fin (step g l (SetLinkLatency v)) in
  delay g' l' x = v /\ forall g'', eff_lat g'' l' = {| lmin := v; lmax := v |}.
Proof. exact override_fixed_lemma. Qed.

Theorem c14_override_persists : forall es g l,
  Forall keeps_llat es -> llat (fin (run g l es)) = llat l.
Proof. exact run_keeps_llat. Qed.

Theorem c14_global_max : forall g l v x,
  let '(g', l', _) := step g l (SetGlobalMax v) in
  l' = l /\
  (llat l <> None -> delay g' l' x = delay g l x) /\
  (llat l = None -> eff_lat g' l' = {| lmin := lmin g; lmax := v |}).
Proof. exact global_max_lemma. Qed.

(* FIFO: two messages of one direction sent in this order whose delivery
   instants are non-decreasing (in particular under a fixed latency) are
   handed to the destination in that order -- for every history of sends,
   ticks, drains and latency changes on a healthy link. *)
Theorem c14_fifo_equal_latency : forall d g es1 id1 x1 p1 es2 id2 x2 p2 es3,
  let s1 := Send d id1 x1 false p1 in
  let s2 := Send d id2 x2 false p2 in
  let es := es1 ++ s1 :: es2 ++ s2 :: es3 in
  Forall c14_event es -> NoDup (send_ids es) ->
  let r1 := run_d d g init es1 in
  let r2 := run_d d g init (es1 ++ s1 :: es2) in
  lnow (fin r1) + delay (gfin r1) (fin r1) x1 <= lnow (fin r2) + delay (gfin r2) (fin r2) x2 ->
  let r := run_d d g init es in
  In id2 (seq_d d (outs r) (fin r)) -> precedes id1 id2 (seq_d d (outs r) (fin r)).
Proof. exact c14_fifo_lemma. Qed.

(* On a healthy link nothing is lost (conservation, from C08's development). *)
Theorem c14_delivered : forall g es x,
  Forall c08_event es ->
  (mass x (fin (run g init es)) + cnt x (outs (run g init es)) = cnt x (send_ids es))%nat.
Proof. exact c08_conservation_lemma. Qed.

(* End to end, lower bound: on the latency alphabet (sends, ticks, drains,
   latency setters -- no hold / manual delivery, which reschedule) a message is
   neither handed to its destination nor even in a deliverable queue while the
   link clock is below (link time at the send) + (its sampled delay).  With
   c14_delay_in_bounds: never earlier than the minimum latency. *)
Theorem c14_not_early : forall g es1 d id x p es2,
  let s := Send d id x false p in
  Forall c14_event (es1 ++ s :: es2) -> NoDup (send_ids (es1 ++ s :: es2)) ->
  let r1 := run g init es1 in
  let r := run g init (es1 ++ s :: es2) in
  lnow (fin r) < lnow (fin r1) + delay (gfin r1) (fin r1) x ->
  ~ In id (outs r) /\ ~ In id (ready_a (fin r) ++ ready_b (fin r)).
Proof. exact c14_not_early_lemma. Qed.

(* End to end, upper bound: as soon as the link clock has reached that instant
   the message is in its destination's delivery sequence (handed over, or ready
   for the destination's next turn).  With c14_delay_in_bounds: by the first
   tick at or after the maximum latency. *)
Theorem c14_on_time : forall d g es1 id x p es2,
  let s := Send d id x false p in
  Forall c14_event (es1 ++ s :: es2) ->
  let r1 := run_d d g init es1 in
  let r := run_d d g init (es1 ++ s :: es2) in
  lnow (fin r1) + delay (gfin r1) (fin r1) x <= lnow (fin r) ->
  In id (seq_d d (outs r) (fin r)).
Proof. exact c14_on_time_lemma. Qed.

(* Calls that mean nothing on a healthy link -- release of a link that is not
   held, repair / repair_oneway of a link that is not partitioned -- can be
   erased from any healthy-link history without changing anything: state,
   global latency and everything handed to the hosts are those of the history
   without them, and the erased history is in the alphabet of the theorems
   above.  (A release that pulled in-flight messages forward, or a repair that
   touched anything, would break this.) *)
Theorem c14_noop_erasure : forall es g,
  Forall c14_event_ext es ->
  run g init es = run g init (erase es) /\ Forall c14_event (erase es).
Proof.
  intros es g H. split; [apply c14_noop_erasure_lemma; [exact H|exact (healthy_init 0)|exact (all_after_init 0)]|apply erase_c14; exact H].
Qed.

(* The lower bound on the whole topology: while the clock of the pair's link is
   below (link time at the send) + (the sampled delay) the message is handed to
   NO host, for every topology history whose projection on that pair is a
   healthy-link history. *)
Theorem c14_topology_not_early : forall t es1 src dst id x p es2,
  let q := pair_of src dst in
  let es := es1 ++ TSend src dst id x false p :: es2 in
  fresh_topo t -> Forall no_reg es -> Forall c14_event (proj q es) -> NoDup (tsend_ids es) ->
  let r1 := run (tg t) init (proj q es1) in
  let r := run (tg t) init (proj q es) in
  lnow (fin r) < lnow (fin r1) + delay (gfin r1) (fin r1) x ->
  ~ In id (touts t es).
Proof. exact c14_topology_not_early_lemma. Qed.

(* Non-vacuity; the default configuration read from config.rs satisfies lmin <= lmax. *)
Definition gdef := {| lmin := default_min_latency_ms * ms; lmax := default_max_latency_ms * ms |}.
Definition hfifo := [Send AB 1 3 false false; Tick ms; Send AB 2 2 false false; Tick (5 * ms); Drain true].
Example c14_nonvacuous :
  lmin gdef <= lmax gdef /\
  Forall c14_event hfifo /\ NoDup (send_ids hfifo) /\
  outs (run_d AB gdef init hfifo) = [1; 2] /\
  delay gdef init 1000 = lmax gdef /\
  (* message 2 (sent at 1 ms with 2 ms of delay): not yet out after 1 more ms, out after 5 *)
  (let r := run gdef init [Send AB 1 3 false false; Tick ms; Send AB 2 2 false false; Tick ms; Drain true] in
   lnow (fin r) < ms + delay gdef (fin (run gdef init [Send AB 1 3 false false; Tick ms])) 2 /\ ~ In 2 (outs r)).
Proof.
  split; [vm_compute; discriminate|]. split; [repeat constructor|].
  split; [repeat constructor; cbn; intuition discriminate|]. split; [reflexivity|]. split; [reflexivity|].
  vm_compute. split; [reflexivity|tauto].
Qed.

Print Assumptions c14_delay_in_bounds.
Print Assumptions c14_send_stamp.
Print Assumptions c14_maturity.
Print Assumptions c14_window.
Print Assumptions c14_override.
Print Assumptions c14_override_persists.
Print Assumptions c14_global_max.
Print Assumptions c14_fifo_equal_latency.
Print Assumptions c14_delivered.
Print Assumptions c14_not_early.
Print Assumptions c14_on_time.
Print Assumptions c14_noop_erasure.
Print Assumptions c14_topology_not_early.
Print Assumptions c14_nonvacuous.
