(* TV.Link.C08_topo — at most once on the whole topology: per id, what sits in
   all links plus what was handed to any host never exceeds what was put on the
   network, for every topology history (registrations included). *)
From TV.Lib Require Import Base.
From TV.Link Require Import Model Facts Topo_proofs Topo_run C03_proofs C03_topo C08_proofs.
Open Scope N_scope.

Fixpoint tmass (x : N) (ls : list (N * N * link)) : nat :=
  match ls with [] => 0%nat | ql :: r => (mass x (snd ql) + tmass x r)%nat end.

Lemma tmass_app x a b : tmass x (a ++ b) = (tmass x a + tmass x b)%nat.
Proof. induction a as [|ql r IH]; cbn; [reflexivity|]. rewrite IH. lia. Qed.

Lemma upd_link_mass x p f k ls :
  (forall l, (mass x (fst (f l)) + cnt x (snd (f l)) <= mass x l + k)%nat) ->
  (tmass x (fst (upd_link p f ls)) + cnt x (snd (upd_link p f ls)) <= tmass x ls + k)%nat.
Proof.
  intros Hf. induction ls as [|[q l] r IH]; cbn [upd_link]; [cbn; lia|].
  destruct (pair_eqb p q).
  - specialize (Hf l). destruct (f l) as [l' o]. cbn in *. lia.
  - destruct (upd_link p f r) as [r' o]. cbn in *. lia.
Qed.

Lemma step_fun_mass x g e l :
  (mass x (fst (let '(_, l', o) := step g l e in (l', o))) +
   cnt x (snd (let '(_, l', o) := step g l e in (l', o))) <= mass x l + cnt x (send_ids [e]))%nat.
Proof.
  pose proof (step_mass_le g l e x) as H. destruct (step g l e) as [[g' l'] o].
  unfold fin, outs in H; cbn in *. exact H.
Qed.

Lemma drain_host_mass x g h ls :
  (tmass x (fst (drain_host g h ls)) + cnt x (snd (drain_host g h ls)) <= tmass x ls)%nat.
Proof.
  induction ls as [|[[a b] l] r IH]; cbn [drain_host]; [cbn; lia|].
  destruct (drain_host g h r) as [r' o']. cbn [fst snd] in IH.
  destruct (a =? h).
  - pose proof (step_mass_le g l (Drain false) x) as H.
    destruct (step g l (Drain false)) as [[g' l'] o]. unfold fin, outs in H. cbn [fst snd] in H.
    cbn [fst snd tmass send_ids flat_map app] in *. rewrite cnt_nil in H. rewrite cnt_app. lia.
  - destruct (b =? h).
    + pose proof (step_mass_le g l (Drain true) x) as H.
      destruct (step g l (Drain true)) as [[g' l'] o]. unfold fin, outs in H. cbn [fst snd] in H.
      cbn [fst snd tmass send_ids flat_map app] in *. rewrite cnt_nil in H. rewrite cnt_app. lia.
    + cbn [fst snd tmass]. lia.
Qed.

Lemma tick_mass x g dt ls :
  (tmass x (map (fun ql => (fst ql, snd (fst (step g (snd ql) (Tick dt))))) ls) <= tmass x ls)%nat.
Proof.
  induction ls as [|[q l] r IH]; cbn [map tmass snd fst]; [lia|].
  pose proof (step_mass_le g l (Tick dt) x) as H.
  destruct (step g l (Tick dt)) as [[g' l'] o]. unfold fin, outs in H.
  cbn [fst snd send_ids flat_map app] in *. rewrite cnt_nil in H. lia.
Qed.

Lemma init_links_mass x tnow0 hs h :
  tmass x (map (fun y => (pair_of y h, init_at tnow0)) hs) = 0%nat.
Proof. induction hs as [|y r IH]; cbn; [reflexivity|]. rewrite IH. reflexivity. Qed.

Lemma tstep_mass x t e :
  (tmass x (tlinks (fst (tstep t e))) + cnt x (ids_of_obs (snd (tstep t e)))
   <= tmass x (tlinks t) + cnt x (tsend_ids [e]))%nat.
Proof.
  destruct e as [h|src dst id y rr pp|dt|h| |a b e'].
  - cbn [tstep fst snd tlinks ids_of_obs]. rewrite tmass_app, init_links_mass, cnt_nil. lia.
  - cbn [tstep]. destruct (has_link _ _); [|cbn [fst snd ids_of_obs]; rewrite cnt_nil; lia].
    match goal with |- context [upd_link ?p ?f ?ls] =>
      pose proof (upd_link_mass x p f (cnt x (send_ids [Send (dir_of src dst) id y rr pp])) ls
                    (step_fun_mass x (tg t) (Send (dir_of src dst) id y rr pp))) as H;
      destruct (upd_link p f ls) as [ls' o] end.
    cbn [fst snd tlinks ids_of_obs tsend_ids send_ids flat_map app] in *. rewrite cnt_nil. lia.
  - cbn [tstep fst snd tlinks ids_of_obs]. pose proof (tick_mass x (tg t) dt (tlinks t)).
    rewrite cnt_nil. lia.
  - cbn [tstep]. pose proof (drain_host_mass x (tg t) h (tlinks t)) as H.
    destruct (drain_host (tg t) h (tlinks t)) as [ls o].
    cbn [fst snd tlinks ids_of_obs] in *. lia.
  - cbn [tstep fst snd tlinks ids_of_obs]. rewrite cnt_nil. lia.
  - assert (Hs : cnt x (tsend_ids [TLink a b e']) = cnt x (send_ids [e']))
      by (destruct e'; reflexivity).
    rewrite Hs.
    destruct e'; cbn [tstep];
      try (cbn [fst snd tlinks ids_of_obs]; rewrite cnt_nil; lia);
      match goal with |- context [upd_link ?p ?f ?ls] =>
        match goal with |- context [send_ids [?ev]] =>
          pose proof (upd_link_mass x p f (cnt x (send_ids [ev])) ls (step_fun_mass x (tg t) ev)) as H;
          destruct (upd_link p f ls) as [ls' o] end end;
      cbn [fst snd tlinks ids_of_obs] in *; rewrite cnt_nil; lia.
Qed.

Lemma touts_mass es : forall t x,
  (tmass x (tlinks (tstate t es)) + cnt x (touts t es) <= tmass x (tlinks t) + cnt x (tsend_ids es))%nat.
Proof.
  induction es as [|e es IH]; intros t x; [cbn; lia|].
  cbn [tstate touts]. pose proof (tstep_mass x t e) as H1.
  destruct (tstep t e) as [t' o]. cbn [fst snd] in *.
  specialize (IH t' x).
  change (e :: es) with ([e] ++ es). rewrite tsend_ids_app, !cnt_app. lia.
Qed.

Lemma c08_topology_at_most_once_lemma g es :
  NoDup (tsend_ids es) -> NoDup (touts (tinit g) es).
Proof.
  intros Hnd. apply NoDup_cnt. intros x.
  pose proof (touts_mass es (tinit g) x) as H. cbn [tinit tlinks tmass] in H.
  pose proof (proj1 (NoDup_cnt _) Hnd x). lia.
Qed.
