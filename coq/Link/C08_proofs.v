(* TV.Link.C08_proofs — hold / release / manual delivery (property C08). *)
From TV.Lib Require Import Base.
From TV.Link Require Import Model Facts.
Open Scope N_scope.

(* ---- counting ---- *)

Definition cnt (x : N) (l : list N) : nat := count_occ N.eq_dec l x.
Definition mass (x : N) (l : link) : nat := cnt x (ids_of l).

Lemma cnt_app x a b : cnt x (a ++ b) = (cnt x a + cnt x b)%nat.
Proof. apply count_occ_app. Qed.

Lemma cnt_nil x : cnt x [] = 0%nat.
Proof. reflexivity. Qed.

Lemma cnt_split x (f : msg -> bool) l :
  (cnt x (map mid (filter f l)) + cnt x (map mid (filter (fun m => negb (f m)) l)))%nat
  = cnt x (map mid l).
Proof.
  unfold cnt. induction l as [|m r IH]; cbn; [reflexivity|].
  destruct (f m); cbn; destruct (N.eq_dec (mid m) x); lia.
Qed.

Lemma cnt_filter_le x (f : msg -> bool) l :
  (cnt x (map mid (filter f l)) <= cnt x (map mid l))%nat.
Proof. pose proof (cnt_split x f l). lia. Qed.

Lemma filter_dir_compl l :
  filter (fun m => dir_eqb (mdir m) AB) l = filter (fun m => negb (dir_eqb (mdir m) BA)) l.
Proof. apply filter_ext. intros m. destruct (mdir m); reflexivity. Qed.

Lemma process_mass x l : mass x (process l) = mass x l.
Proof.
  unfold mass, ids_of, process; cbn [sent ready_a ready_b].
  rewrite !cnt_app.
  pose proof (cnt_split x (due (lnow l)) (sent l)) as H1.
  pose proof (cnt_split x (fun m => dir_eqb (mdir m) BA) (filter (due (lnow l)) (sent l))) as H2.
  rewrite <- filter_dir_compl in H2. lia.
Qed.

Lemma rand_step_mass_le x l r p : (mass x (rand_step l r p) <= mass x l)%nat.
Proof.
  unfold rand_step.
  destruct (r && (is_healthy (sab l) || is_healthy (sba l))).
  - unfold mass. rewrite ids_set_sent. cbn [ready_a ready_b set_states]. unfold ids_of.
    rewrite !cnt_app. pose proof (cnt_filter_le x (fun m => negb (is_healthy (state_of l (mdir m)))) (sent l)). lia.
  - destruct ((is_rand (sab l) || is_rand (sba l)) && p); unfold mass; rewrite ?ids_set_states; lia.
Qed.

Lemma rand_step_mass_eq x l p : mass x (rand_step l false p) = mass x l.
Proof.
  unfold rand_step. cbn [andb].
  destruct ((is_rand (sab l) || is_rand (sba l)) && p); reflexivity.
Qed.

Definition one (b : bool) : nat := if b then 1%nat else 0%nat.

Lemma cnt_single x id : cnt x [id] = one (N.eqb id x).
Proof.
  unfold cnt; cbn. destruct (N.eq_dec id x) as [->|Hn].
  - now rewrite N.eqb_refl.
  - apply N.eqb_neq in Hn. now rewrite Hn.
Qed.

Definition accepts (s : lstate) : bool := match s with Healthy | Held => true | _ => false end.

Lemma enqueue_mass x g l d id xm :
  mass x (enqueue g l d id xm) = (mass x l + (if accepts (state_of l d) then cnt x [id] else 0))%nat.
Proof.
  unfold enqueue. destruct (state_of l d); cbn [accepts]; try lia;
    unfold mass; rewrite ids_set_sent; unfold ids_of; rewrite map_app, !cnt_app; cbn [map mid]; lia.
Qed.

Lemma cnt_map_restamp x (f : msg -> status) l :
  cnt x (map mid (map (fun m => restamp m (f m)) l)) = cnt x (map mid l).
Proof. now rewrite map_mid_restamp. Qed.

Lemma map_mid_release now l : map mid (release_msgs now l) = map mid l.
Proof.
  unfold release_msgs. rewrite map_map. apply map_ext. intros m. destruct (mstat m); reflexivity.
Qed.

(* Nothing is created: per id, what is in the link plus what was handed out
   never exceeds what was there plus what was sent. *)
Lemma step_mass_le g l e x :
  (mass x (fin (step g l e)) + cnt x (outs (step g l e)) <= mass x l + cnt x (send_ids [e]))%nat.
Proof.
  unfold fin, outs. destruct e; cbn [step fst snd send_ids flat_map app]; rewrite ?cnt_nil.
  - rewrite process_mass, enqueue_mass.
    pose proof (rand_step_mass_le x l do_rand do_repair).
    destruct (accepts _); lia.
  - rewrite process_mass. unfold mass. rewrite ids_set_now. lia.
  - destruct to_b; cbn [fst snd]; unfold mass, ids_of; cbn [sent ready_a ready_b];
      rewrite !cnt_app, ?cnt_nil; lia.
  - unfold mass. rewrite ids_set_sent. cbn [ready_a ready_b set_states]. unfold ids_of.
    rewrite !cnt_app, map_mid_restamp. lia.
  - unfold mass, release. rewrite ids_set_sent. cbn [ready_a ready_b set_states]. unfold ids_of.
    rewrite !cnt_app, map_mid_release. lia.
  - unfold mass. rewrite ids_set_sent. cbn [ready_a ready_b set_states map]. unfold ids_of.
    rewrite !cnt_app. cbn. lia.
  - unfold mass. rewrite ids_set_sent. destruct (ready_set_state l d Explicit) as (-> & -> & _).
    unfold ids_of. rewrite !cnt_app.
    pose proof (cnt_filter_le x (fun m => negb (dir_eqb (mdir m) d)) (sent l)). lia.
  - unfold mass. rewrite ids_set_states. lia.
  - unfold mass. rewrite ids_set_state. lia.
  - unfold mass. rewrite ids_set_sent. unfold ids_of. rewrite !cnt_app, map_mid_deliver_nth. lia.
  - unfold mass. rewrite ids_set_sent. unfold ids_of. rewrite !cnt_app, map_mid_restamp. lia.
  - unfold mass. rewrite ids_set_lat. lia.
  - unfold mass. rewrite ids_set_lat. lia.
  - lia.
Qed.

Lemma run_mass_le es : forall g l x,
  (mass x (fin (run g l es)) + cnt x (outs (run g l es)) <= mass x l + cnt x (send_ids es))%nat.
Proof.
  induction es as [|e es IH]; intros g l x; cbn [run].
  - unfold fin, outs; cbn. lia.
  - pose proof (step_mass_le g l e x) as Hs.
    destruct (step g l e) as [[g' l'] o]. specialize (IH g' l' x).
    destruct (run g' l' es) as [[g'' l''] os].
    unfold fin, outs in *; cbn [fst snd] in *.
    change (e :: es) with ([e] ++ es). rewrite send_ids_app, !cnt_app. lia.
Qed.

Lemma NoDup_cnt l : NoDup l <-> forall x, (cnt x l <= 1)%nat.
Proof. apply NoDup_count_occ. Qed.

(* at most once, and only what was sent *)
Lemma c08_at_most_once_lemma g es :
  NoDup (send_ids es) -> NoDup (outs (run g init es)) /\ incl (outs (run g init es)) (send_ids es).
Proof.
  intros Hnd. split.
  - apply NoDup_cnt. intros x. pose proof (run_mass_le es g init x) as H.
    pose proof (proj1 (NoDup_cnt _) Hnd x). unfold mass at 2 in H. cbn in H. lia.
  - intros x Hin. destruct (run_ids es g init x) as [H|H]; [apply in_or_app; auto|destruct H|exact H].
Qed.

(* ---- conservation on the hold alphabet: nothing is lost ---- *)

Definition c08_event (e : ev) : Prop :=
  match e with
  | Send _ _ _ r _ => r = false
  | Partition | PartitionOne _ => False
  | _ => True
  end.

Definition good_states (l : link) : Prop :=
  accepts (sab l) = true /\ accepts (sba l) = true.

Lemma rand_step_good l p : good_states l -> rand_step l false p = l.
Proof.
  intros [Ha Hb]. unfold rand_step. cbn [andb].
  destruct (sab l), (sba l); cbn in *; try discriminate; reflexivity.
Qed.

Lemma step_good g l e : c08_event e -> good_states l -> good_states (fin (step g l e)).
Proof.
  intros He [Ha Hb]. unfold fin, good_states.
  destruct e; cbn [c08_event] in He; try contradiction; cbn [step fst snd]; auto.
  - subst do_rand. rewrite rand_step_good by (split; auto).
    unfold enqueue. destruct (state_of l d); cbn; auto.
  - destruct to_b; cbn; auto.
  - destruct d; cbn; auto.
Qed.

Lemma step_mass_eq g l e x :
  c08_event e -> good_states l ->
  (mass x (fin (step g l e)) + cnt x (outs (step g l e)) = mass x l + cnt x (send_ids [e]))%nat.
Proof.
  intros He Hg. unfold fin, outs.
  destruct e; cbn [c08_event] in He; try contradiction;
    cbn [step fst snd send_ids flat_map app]; rewrite ?cnt_nil.
  - subst do_rand. rewrite rand_step_good by exact Hg.
    rewrite process_mass, enqueue_mass.
    destruct Hg as [Ha Hb]. destruct d; cbn [state_of]; rewrite ?Ha, ?Hb; lia.
  - rewrite process_mass. unfold mass. rewrite ids_set_now. lia.
  - destruct to_b; cbn [fst snd]; unfold mass, ids_of; cbn [sent ready_a ready_b];
      rewrite !cnt_app, ?cnt_nil; lia.
  - unfold mass. rewrite ids_set_sent. cbn [ready_a ready_b set_states]. unfold ids_of.
    rewrite !cnt_app, map_mid_restamp. lia.
  - unfold mass, release. rewrite ids_set_sent. cbn [ready_a ready_b set_states]. unfold ids_of.
    rewrite !cnt_app, map_mid_release. lia.
  - unfold mass. rewrite ids_set_states. lia.
  - unfold mass. rewrite ids_set_state. lia.
  - unfold mass. rewrite ids_set_sent. unfold ids_of. rewrite !cnt_app, map_mid_deliver_nth. lia.
  - unfold mass. rewrite ids_set_sent. unfold ids_of. rewrite !cnt_app, map_mid_restamp. lia.
  - unfold mass. rewrite ids_set_lat. lia.
  - unfold mass. rewrite ids_set_lat. lia.
  - lia.
Qed.

Lemma run_mass_eq es : forall g l x,
  Forall c08_event es -> good_states l ->
  good_states (fin (run g l es)) /\
  (mass x (fin (run g l es)) + cnt x (outs (run g l es)) = mass x l + cnt x (send_ids es))%nat.
Proof.
  induction es as [|e es IH]; intros g l x Hal Hg; cbn [run].
  - unfold fin, outs; cbn. split; [exact Hg|lia].
  - inversion Hal as [|? ? He Hes]; subst.
    pose proof (step_mass_eq g l e x He Hg) as Hs.
    pose proof (step_good g l e He Hg) as Hg'.
    destruct (step g l e) as [[g' l'] o]. unfold fin, outs in Hs, Hg'; cbn [fst snd] in Hs, Hg'.
    destruct (IH g' l' x Hes Hg') as [Hg'' IH'].
    destruct (run g' l' es) as [[g'' l''] os].
    unfold fin, outs in *; cbn [fst snd] in *.
    split; [exact Hg''|].
    change (e :: es) with ([e] ++ es). rewrite send_ids_app, !cnt_app. lia.
Qed.

Lemma good_init t : good_states (init_at t).
Proof. split; reflexivity. Qed.

(* every sent id is, at any time, either still on the link (sent or ready) or
   has been handed to its destination exactly once *)
Lemma c08_conservation_lemma g es x :
  Forall c08_event es ->
  (mass x (fin (run g init es)) + cnt x (outs (run g init es)) = cnt x (send_ids es))%nat.
Proof.
  intros Hal. destruct (run_mass_eq es g init x Hal (good_init 0)) as [_ H].
  unfold mass at 2 in H. cbn in H. lia.
Qed.

(* ---- held messages are not delivered ---- *)

Definition no_release (e : ev) : Prop :=
  match e with Release | DeliverOne _ | DeliverAll => False | _ => True end.

(* id sits in `sent` with status OnHold, or is gone from the link altogether *)
Definition parked (l : link) (id : N) : Prop :=
  ~ In id (ready_a l ++ ready_b l) /\
  forall m, In m (sent l) -> mid m = id -> mstat m = OnHold.

Lemma parked_process l id : parked l id -> parked (process l) id.
Proof.
  intros [Hr Hs]. split.
  - cbn. rewrite !in_app_iff in *. intros [[H|H]|[H|H]]; try tauto;
      apply in_map_iff in H as (m & Hid & Hin); apply filter_In in Hin as [Hin _];
      apply filter_In in Hin as [Hin Hd]; unfold due in Hd; rewrite (Hs m Hin Hid) in Hd; discriminate.
  - cbn. intros m Hin. apply filter_In in Hin as [Hin _]. auto.
Qed.

Lemma step_parked g l e id :
  no_release e -> ~ In id (send_ids [e]) -> parked l id ->
  parked (fin (step g l e)) id /\ ~ In id (outs (step g l e)).
Proof.
  intros He Hf [Hr Hs]. unfold fin, outs.
  destruct e; cbn [no_release] in He; try contradiction; cbn [step fst snd].
  - split; [|intros []]. apply parked_process. cbn in Hf.
    assert (P1 : parked (rand_step l do_rand do_repair) id).
    { unfold rand_step. destruct (do_rand && _).
      - split; [exact Hr|]. cbn. intros m Hin. apply filter_In in Hin as [Hin _]. auto.
      - destruct (_ && do_repair); split; auto. }
    destruct P1 as [Hr1 Hs1]. unfold enqueue.
    destruct (state_of (rand_step l do_rand do_repair) d); split; auto; cbn;
      intros m Hin; apply in_app_or in Hin as [Hin|[<-|[]]]; auto; cbn; intros; subst; tauto.
  - split; [|intros []]. apply parked_process. split; auto.
  - destruct to_b; cbn; (split; [split; [|exact Hs]|]); rewrite ?in_app_iff in *; cbn; tauto.
  - split; [|intros []]. split; [exact Hr|]. cbn. intros m Hin _.
    apply in_map_iff in Hin as (m' & <- & _). reflexivity.
  - split; [|intros []]. split; [exact Hr|]. cbn. intros m [].
  - split; [|intros []]. destruct (ready_set_state l d Explicit) as (Ea & Eb & _).
    split; [cbn [ready_a ready_b set_sent]; rewrite Ea, Eb; exact Hr|].
    cbn [sent set_sent]. intros m Hin. apply filter_In in Hin as [Hin _]. auto.
  - split; [|intros []]. split; auto.
  - split; [|intros []]. destruct (ready_set_state l d Healthy) as (Ea & Eb & Es).
    split; [rewrite Ea, Eb; exact Hr|rewrite Es; exact Hs].
  - split; [|intros []]. split; auto.
  - split; [|intros []]. split; auto.
  - split; [|intros []]. split; auto.
Qed.

Lemma c08_held_not_delivered_lemma es : forall g l id,
  Forall no_release es -> ~ In id (send_ids es) -> parked l id ->
  ~ In id (outs (run g l es)).
Proof.
  induction es as [|e es IH]; intros g l id Hal Hf Hp; cbn [run]; [intros []|].
  inversion Hal as [|? ? He Hes]; subst.
  change (e :: es) with ([e] ++ es) in Hf. rewrite send_ids_app, in_app_iff in Hf.
  destruct (step_parked g l e id He (fun H => Hf (or_introl H)) Hp) as [Hp' Ho].
  destruct (step g l e) as [[g' l'] o]. unfold fin, outs in Hp', Ho; cbn [fst snd] in Hp', Ho.
  specialize (IH g' l' id Hes (fun H => Hf (or_intror H)) Hp').
  destruct (run g' l' es) as [[g'' l''] os]. unfold outs in *; cbn [fst snd] in *.
  rewrite in_app_iff. tauto.
Qed.

(* hold parks everything in flight; a send on a held direction is parked *)
Lemma hold_parks g l id : ~ In id (ready_a l ++ ready_b l) -> parked (fin (step g l Hold)) id.
Proof.
  intros Hr. unfold fin; cbn [step fst snd]. split; [exact Hr|].
  cbn. intros m Hin _. apply in_map_iff in Hin as (m' & <- & _). reflexivity.
Qed.

Lemma send_held_parks g l d id x p :
  state_of l d = Held -> good_states l -> ~ In id (ids_of l) ->
  (forall m, In m (sent l) -> mstat m = OnHold \/ exists t, mstat m = After t) ->
  parked (fin (step g l (Send d id x false p))) id.
Proof.
  intros Hst Hg Hni _. unfold fin; cbn [step fst snd]. rewrite rand_step_good by exact Hg.
  apply parked_process. unfold enqueue. rewrite Hst. split.
  - cbn. intros H. apply Hni. unfold ids_of. rewrite in_app_iff. right. exact H.
  - cbn. intros m Hin Hid. apply in_app_or in Hin as [Hin|[<-|[]]]; [|reflexivity].
    exfalso. apply Hni. unfold ids_of. rewrite in_app_iff. left. apply in_map_iff. eauto.
Qed.

(* ---- release: everything held goes out, per direction in send order ---- *)

Definition all_held (l : link) : Prop := forall m, In m (sent l) -> mstat m = OnHold.

Lemma filter_all_true {A} (f : A -> bool) l : (forall x, In x l -> f x = true) -> filter f l = l.
Proof.
  induction l as [|a r IH]; cbn; intros H; [reflexivity|].
  rewrite (H a (or_introl eq_refl)). f_equal. apply IH. intros; apply H; auto.
Qed.

Lemma filter_all_false {A} (f : A -> bool) l : (forall x, In x l -> f x = false) -> filter f l = [].
Proof.
  induction l as [|a r IH]; cbn; intros H; [reflexivity|].
  rewrite (H a (or_introl eq_refl)). apply IH. intros; apply H; auto.
Qed.

Lemma release_filter_dir now d l :
  map mid (filter (fun m => dir_eqb (mdir m) d) (release_msgs now l))
  = map mid (filter (fun m => dir_eqb (mdir m) d) l).
Proof.
  unfold release_msgs. induction l as [|a r IH]; [reflexivity|].
  cbn [map filter]. destruct (mstat a); cbn [restamp mdir];
    destruct (dir_eqb (mdir a) d); cbn [map mid restamp]; rewrite IH; reflexivity.
Qed.

Lemma c08_release_order_lemma g l dt :
  all_held l ->
  let l2 := fin (step g (fin (step g l Release)) (Tick dt)) in
  sent l2 = [] /\
  ready_b l2 = ready_b l ++ map mid (filter (fun m => dir_eqb (mdir m) AB) (sent l)) /\
  ready_a l2 = ready_a l ++ map mid (filter (fun m => dir_eqb (mdir m) BA) (sent l)).
Proof.
  intros Hall. unfold fin; cbn [step fst snd].
  set (rel := release_msgs (lnow l) (sent l)).
  assert (Hdue : forall m, In m rel -> due (lnow l + dt) m = true).
  { intros m Hin. unfold rel, release_msgs in Hin. apply in_map_iff in Hin as (m' & <- & Hin).
    rewrite (Hall m' Hin). cbn. apply N.leb_le. lia. }
  assert (Hdir : forall d, map mid (filter (fun m => dir_eqb (mdir m) d) rel)
                         = map mid (filter (fun m => dir_eqb (mdir m) d) (sent l)))
    by (intros d; apply release_filter_dir).
  cbn [process sent ready_a ready_b lnow set_now release set_sent set_states].
  fold rel. rewrite (filter_all_true _ rel Hdue).
  rewrite (filter_all_false (fun m => negb (due (lnow l + dt) m)) rel)
    by (intros m Hin; rewrite (Hdue m Hin); reflexivity).
  rewrite !Hdir. auto.
Qed.

(* ---- the links iterator shows exactly what is in flight ---- *)
(* (definitional: links_view_of lists `sent` of every link in map order; what
   `sent` contains is characterised by conservation and by process) *)

Lemma process_sent_not_due l m : In m (sent (process l)) -> due (lnow l) m = false.
Proof. cbn. intros H. apply filter_In in H as [_ H]. now apply negb_true_iff in H. Qed.

Lemma process_keeps_not_due l m : In m (sent l) -> due (lnow l) m = false -> In m (sent (process l)).
Proof. intros Hin Hd. cbn. apply filter_In. split; [exact Hin|now rewrite Hd]. Qed.

(* ---- end to end: after release and a flush everything sent was handed out exactly once ---- *)

Definition flush (dt : N) : list ev := [Release; Tick dt; Drain true; Drain false].

Lemma flush_empties g l dt :
  (forall m, In m (sent l) -> mstat m = OnHold \/ exists t, mstat m = After t /\ t <= lnow l + dt) ->
  ids_of (fin (run g l (flush dt))) = [].
Proof.
  intros Hs. unfold flush, fin. cbn [run step fst snd].
  set (rel := release_msgs (lnow l) (sent l)).
  assert (Hdue : forall m, In m rel -> due (lnow l + dt) m = true).
  { intros m Hin. unfold rel, release_msgs in Hin. apply in_map_iff in Hin as (m' & <- & Hin).
    destruct (Hs m' Hin) as [Ho|(t & Ht & Hle)].
    - rewrite Ho. unfold due. cbn. apply N.leb_le. lia.
    - rewrite Ht. unfold due. rewrite Ht. apply N.leb_le. exact Hle. }
  unfold ids_of. cbn [process sent ready_a ready_b lnow set_now release set_sent set_states].
  fold rel.
  rewrite (filter_all_false (fun m => negb (due (lnow l + dt) m)) rel)
    by (intros m Hin; rewrite (Hdue m Hin); reflexivity).
  reflexivity.
Qed.

Lemma c08_exactly_once_lemma g es dt :
  Forall c08_event es -> NoDup (send_ids es) ->
  (let l := fin (run g init es) in
   forall m, In m (sent l) -> mstat m = OnHold \/ exists t, mstat m = After t /\ t <= lnow l + dt) ->
  forall x, In x (send_ids es) -> cnt x (outs (run g init (es ++ flush dt))) = 1%nat.
Proof.
  intros Hal Hnd Hs x Hin.
  assert (Hal' : Forall c08_event (es ++ flush dt))
    by (apply Forall_app; split; [exact Hal|repeat constructor]).
  pose proof (c08_conservation_lemma g (es ++ flush dt) x Hal') as Hc.
  rewrite send_ids_app in Hc. cbn [flush send_ids flat_map app] in Hc. rewrite app_nil_r in Hc.
  assert (H1 : cnt x (send_ids es) = 1%nat).
  { pose proof (proj1 (NoDup_cnt _) Hnd x) as Hle.
    assert (0 < cnt x (send_ids es))%nat by (apply count_occ_In; exact Hin). lia. }
  assert (H0 : mass x (fin (run g init (es ++ flush dt))) = 0%nat).
  { rewrite run_app. destruct (run g init es) as [[g1 l1] o1] eqn:Hr.
    unfold fin in Hs; cbn [fst snd] in Hs.
    pose proof (flush_empties g1 l1 dt Hs) as He.
    destruct (run g1 l1 (flush dt)) as [[g2 l2] o2]. unfold fin in *; cbn [fst snd] in *.
    unfold mass. rewrite He. reflexivity. }
  lia.
Qed.
