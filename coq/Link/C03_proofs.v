(* TV.Link.C03_proofs — explicit partitions (property C03). *)
From TV.Lib Require Import Base.
From TV.Link Require Import Model Facts.
Open Scope N_scope.

(* Ghost: which directions are explicitly partitioned, from the API calls alone. *)
Definition upd (f : dir -> bool) (e : ev) : dir -> bool :=
  match e with
  | Partition => fun _ => true
  | PartitionOne d => fun x => if dir_eqb x d then true else f x
  | Repair => fun _ => false
  | RepairOne d => fun x => if dir_eqb x d then false else f x
  | _ => f
  end.
Definition explicit (h : list ev) : dir -> bool := fold_left upd h (fun _ => false).

(* hold/release/manual delivery are outside C03's alphabet. *)
Definition c03_alphabet (e : ev) : Prop :=
  match e with Hold | Release | DeliverOne _ | DeliverAll => False | _ => True end.

Lemma explicit_snoc h e : explicit (h ++ [e]) = upd (explicit h) e.
Proof. unfold explicit. now rewrite fold_left_app. Qed.

Lemma explicit_app_cons h e es : explicit (h ++ e :: es) = fold_left upd es (upd (explicit h) e).
Proof. unfold explicit. rewrite fold_left_app. reflexivity. Qed.

Record Inv (h : list ev) (l : link) : Prop := {
  inv_state : forall d, explicit h d = true -> state_of l d = Explicit;
  inv_sent  : forall m, In m (sent l) -> explicit h (mdir m) = false;
  inv_nohold : forall m, In m (sent l) -> exists t, mstat m = After t /\ lnow l < t;
  inv_noheld : forall d, state_of l d <> Held }.

Lemma inv_init t : Inv [] (init_at t).
Proof. constructor; cbn; intros; try discriminate; try contradiction. destruct d; discriminate. Qed.

Lemma Inv_ext h h' l : explicit h' = explicit h -> Inv h l -> Inv h' l.
Proof. intros E [A B C D]. constructor; rewrite ?E; auto. Qed.

Lemma process_inv h l :
  (forall d, explicit h d = true -> state_of l d = Explicit) ->
  (forall m, In m (sent l) -> explicit h (mdir m) = false) ->
  (forall m, In m (sent l) -> exists t, mstat m = After t) ->
  (forall d, state_of l d <> Held) ->
  Inv h (process l).
Proof.
  intros Hs Hm Ha Hh. constructor.
  - intros d Hd. specialize (Hs d Hd). destruct d; exact Hs.
  - cbn. intros m Hin. apply filter_In in Hin as [Hin _]. auto.
  - cbn. intros m Hin. apply filter_In in Hin as [Hin Hd].
    destruct (Ha m Hin) as [t Ht]. exists t. split; [exact Ht|].
    unfold due in Hd. rewrite Ht in Hd. apply negb_true_iff in Hd.
    apply N.leb_gt in Hd. exact Hd.
  - intros d. specialize (Hh d). destruct d; exact Hh.
Qed.

Lemma rand_step_state l r p d :
  state_of l d = Explicit -> state_of (rand_step l r p) d = Explicit.
Proof.
  intros H. unfold rand_step.
  destruct (r && (is_healthy (sab l) || is_healthy (sba l))).
  - destruct d; cbn in *; rewrite H; reflexivity.
  - destruct ((is_rand (sab l) || is_rand (sba l)) && p); [|exact H].
    destruct d; cbn in *; rewrite H; reflexivity.
Qed.

Lemma rand_step_sent l r p m : In m (sent (rand_step l r p)) -> In m (sent l).
Proof.
  unfold rand_step.
  destruct (r && (is_healthy (sab l) || is_healthy (sba l))); cbn.
  - intros H. apply filter_In in H. tauto.
  - destruct ((is_rand (sab l) || is_rand (sba l)) && p); auto.
Qed.

Lemma rand_step_now l r p : lnow (rand_step l r p) = lnow l.
Proof.
  unfold rand_step.
  destruct (r && (is_healthy (sab l) || is_healthy (sba l))); [reflexivity|].
  destruct ((is_rand (sab l) || is_rand (sba l)) && p); reflexivity.
Qed.

Lemma rand_step_noheld l r p :
  (forall d, state_of l d <> Held) -> forall d, state_of (rand_step l r p) d <> Held.
Proof.
  intros H d. pose proof (H AB) as Ha. pose proof (H BA) as Hb. cbn in Ha, Hb.
  unfold rand_step.
  destruct (r && (is_healthy (sab l) || is_healthy (sba l))).
  - destruct d; cbn; [destruct (sab l)|destruct (sba l)]; cbn; congruence.
  - destruct ((is_rand (sab l) || is_rand (sba l)) && p); [|apply H].
    destruct d; cbn; [destruct (sab l)|destruct (sba l)]; cbn; congruence.
Qed.

Lemma step_inv g h l e :
  c03_alphabet e -> Inv h l -> Inv (h ++ [e]) (fin (step g l e)).
Proof.
  intros Hal [Hs Hm Hn Hh].
  destruct e; cbn [c03_alphabet] in Hal; try contradiction; unfold fin; cbn [step fst snd].
  - (* Send *)
    assert (He : explicit (h ++ [Send d id x_ms do_rand do_repair]) = explicit h)
      by (rewrite explicit_snoc; reflexivity).
    apply (Inv_ext h _ _ He). set (l1 := rand_step l do_rand do_repair).
    assert (Hs1 : forall d0, explicit h d0 = true -> state_of l1 d0 = Explicit)
      by (intros d0 Hd0; apply rand_step_state; auto).
    assert (Hm1 : forall m, In m (sent l1) -> explicit h (mdir m) = false)
      by (intros m Hin; apply Hm; eapply rand_step_sent; eauto).
    assert (Hn1 : forall m, In m (sent l1) -> exists t, mstat m = After t).
    { intros m Hin. destruct (Hn m (rand_step_sent _ _ _ _ Hin)) as (t & Ht & _). eauto. }
    assert (Hh1 : forall d0, state_of l1 d0 <> Held) by (apply rand_step_noheld; auto).
    unfold enqueue. destruct (state_of l1 d) eqn:Hst.
    + apply process_inv.
      * intros d0 Hd0. specialize (Hs1 d0 Hd0). destruct d0; exact Hs1.
      * cbn [sent set_sent]. intros m Hin. apply in_app_or in Hin as [Hin|[<-|[]]]; [auto|]. cbn.
        destruct (explicit h d) eqn:Hx; [|reflexivity].
        rewrite (Hs1 d Hx) in Hst. discriminate.
      * cbn [sent set_sent]. intros m Hin. apply in_app_or in Hin as [Hin|[<-|[]]]; [auto|]. cbn. eauto.
      * intros d0. specialize (Hh1 d0). destruct d0; exact Hh1.
    + apply process_inv; auto.
    + apply process_inv; auto.
    + exfalso. exact (Hh1 d Hst).
  - (* Tick *)
    assert (He : explicit (h ++ [Tick dt]) = explicit h) by (rewrite explicit_snoc; reflexivity).
    apply (Inv_ext h _ _ He). apply process_inv.
    + intros d Hd. specialize (Hs d Hd). destruct d; exact Hs.
    + exact Hm.
    + cbn [sent set_now]. intros m Hin. destruct (Hn m Hin) as (t & Ht & _). eauto.
    + intros d. specialize (Hh d). destruct d; exact Hh.
  - (* Drain *)
    assert (He : explicit (h ++ [Drain to_b]) = explicit h) by (rewrite explicit_snoc; reflexivity).
    apply (Inv_ext h _ _ He).
    destruct to_b; (constructor;
      [intros d Hd; specialize (Hs d Hd); destruct d; exact Hs | exact Hm | exact Hn
      |intros d; specialize (Hh d); destruct d; exact Hh]).
  - (* Partition *)
    constructor; cbn [sent set_sent set_states].
    + intros d0 _. destruct d0; reflexivity.
    + intros m [].
    + intros m [].
    + intros d0. destruct d0; cbn; discriminate.
  - (* PartitionOne *)
    destruct (ready_set_state l d Explicit) as (_ & _ & E).
    constructor.
    + intros x. rewrite explicit_snoc. cbn [upd].
      destruct x, d; cbn; intros Hx; try reflexivity; apply (Hs _ Hx).
    + intros m Hin. cbn [sent set_sent] in Hin. apply filter_In in Hin as [Hin Hd].
      rewrite explicit_snoc. cbn [upd]. apply negb_true_iff in Hd. rewrite Hd. auto.
    + intros m Hin. cbn [sent set_sent] in Hin. apply filter_In in Hin as [Hin _].
      destruct d; cbn; auto.
    + intros x. pose proof (Hh x) as Hx. destruct x, d; cbn in *; congruence.
  - (* Repair *)
    constructor.
    + intros d0. rewrite explicit_snoc. cbn. discriminate.
    + intros m Hin. rewrite explicit_snoc. reflexivity.
    + exact Hn.
    + intros d0. destruct d0; cbn; discriminate.
  - (* RepairOne *)
    destruct (ready_set_state l d Healthy) as (_ & _ & E).
    constructor.
    + intros x. rewrite explicit_snoc. cbn [upd].
      destruct x, d; cbn; intros Hx; try discriminate; apply (Hs _ Hx).
    + intros m Hin. rewrite E in Hin.
      rewrite explicit_snoc. cbn [upd]. destruct (dir_eqb (mdir m) d); auto.
    + intros m Hin. rewrite E in Hin. destruct d; cbn; auto.
    + intros x. pose proof (Hh x) as Hx. destruct x, d; cbn in *; congruence.
  - (* SetLinkLatency *)
    assert (He : explicit (h ++ [SetLinkLatency v]) = explicit h) by (rewrite explicit_snoc; reflexivity).
    apply (Inv_ext h _ _ He). constructor; auto.
  - assert (He : explicit (h ++ [SetLinkMax v]) = explicit h) by (rewrite explicit_snoc; reflexivity).
    apply (Inv_ext h _ _ He). constructor; auto.
  - assert (He : explicit (h ++ [SetGlobalMax v]) = explicit h) by (rewrite explicit_snoc; reflexivity).
    apply (Inv_ext h _ _ He). constructor; auto.
Qed.

Lemma run_inv es : forall g h l,
  Forall c03_alphabet es -> Inv h l -> Inv (h ++ es) (fin (run g l es)).
Proof.
  induction es as [|e es IH]; intros g h l Hal HI.
  - rewrite app_nil_r. exact HI.
  - inversion Hal as [|? ? He Hes]; subst.
    pose proof (step_inv g h l e He HI) as HI'.
    cbn [run]. destruct (step g l e) as [[g' l'] o] eqn:Hst.
    specialize (IH g' (h ++ [e]) l' Hes HI').
    destruct (run g' l' es) as [[g'' l''] os] eqn:Hr.
    unfold fin in *; cbn [fst snd] in *.
    replace (h ++ e :: es) with ((h ++ [e]) ++ es) by (now rewrite <- app_assoc).
    exact IH.
Qed.

(* ---- never delivered ---- *)

Lemma send_blocked g l d id x r p :
  state_of l d = Explicit -> ~ In id (ids_of l) ->
  ~ In id (ids_of (fin (step g l (Send d id x r p)))).
Proof.
  intros Hst Hni Hin. unfold fin in Hin. cbn [step fst snd] in Hin.
  apply (proj1 (process_ids _ _)) in Hin.
  pose proof (rand_step_state l r p d Hst) as Hst'.
  unfold enqueue in Hin. rewrite Hst' in Hin.
  apply Hni. eapply rand_step_ids; eauto.
Qed.

Lemma c03_never_delivered_lemma g es1 d id x r p es2 :
  Forall c03_alphabet es1 ->
  explicit es1 d = true ->
  ~ In id (send_ids es1) -> ~ In id (send_ids es2) ->
  ~ In id (outs (run g init (es1 ++ Send d id x r p :: es2))).
Proof.
  intros Hal Hex Hf1 Hf2.
  rewrite run_app.
  pose proof (run_inv es1 g [] init Hal (inv_init 0)) as HI. cbn [app] in HI.
  pose proof (fresh_absent es1 g id Hf1) as Hab.
  pose proof (absent_stays es1 g init id) as Ho1.
  destruct (run g init es1) as [[g1 l1] o1] eqn:Hr1. unfold fin, outs in *; cbn [fst snd] in *.
  cbn [run].
  pose proof (send_blocked g1 l1 d id x r p (inv_state _ _ HI d Hex) Hab) as Hb.
  destruct (step g1 l1 (Send d id x r p)) as [[g2 l2] o2] eqn:Hs2.
  assert (o2 = []) by (cbn in Hs2; inversion Hs2; reflexivity). subst o2.
  pose proof (absent_stays es2 g2 l2 id Hb Hf2) as Ho3.
  destruct (run g2 l2 es2) as [[g3 l3] o3]. unfold fin, outs in *; cbn [fst snd] in *.
  rewrite in_app_iff. cbn [app]. intros [H|H]; [|auto].
  apply Ho1; auto.
Qed.

(* ---- in flight messages are dropped ---- *)

Definition partitions (e : ev) (d : dir) : bool :=
  match e with Partition => true | PartitionOne d' => dir_eqb d d' | _ => false end.

Lemma partition_drops g l e d id :
  partitions e d = true ->
  (forall m, In m (sent l) -> mid m = id -> mdir m = d) ->
  ~ In id (ready_a l ++ ready_b l) ->
  ~ In id (ids_of (fin (step g l e))).
Proof.
  intros Hp Hdir Hr. destruct e; cbn in Hp; try discriminate; unfold fin; cbn [step fst snd].
  - exact Hr.
  - rewrite ids_set_sent. destruct (ready_set_state l d0 Explicit) as (-> & -> & _).
    rewrite in_app_iff, in_map_iff. intros [(m & Hid & Hin)|H]; [|auto].
    apply filter_In in Hin as [Hin Hne]. apply dir_eqb_eq in Hp. subst d0.
    rewrite (Hdir m Hin Hid), dir_eqb_refl in Hne. discriminate.
Qed.

(* With unique ids, the id of a Send of direction d can only sit in `sent`
   with that direction. *)
Definition sent_dir_ok (l : link) (id : N) (d : dir) : Prop :=
  forall m, In m (sent l) -> mid m = id -> mdir m = d.

Lemma deliver_nth_in now k l m :
  In m (deliver_nth now k l) -> exists m', In m' l /\ mid m = mid m' /\ mdir m = mdir m'.
Proof.
  revert k. induction l as [|a r IH]; intros k Hin; [destruct k; destruct Hin|].
  destruct k; cbn in Hin.
  - destruct Hin as [<-|Hin]; [exists a|exists m]; cbn; auto.
  - destruct Hin as [->|Hin]; [exists m; cbn; auto|].
    destruct (IH _ Hin) as (m' & H1 & H2). exists m'. cbn; auto.
Qed.

Lemma step_sent_dir g l e id d :
  ~ In id (send_ids [e]) -> sent_dir_ok l id d -> sent_dir_ok (fin (step g l e)) id d.
Proof.
  intros Hf Hok m. unfold fin. destruct e; cbn [step fst snd].
  - cbn in Hf. intros Hin Hid. cbn in Hin. apply filter_In in Hin as [Hin _].
    unfold enqueue in Hin. destruct (state_of (rand_step l do_rand do_repair) d0);
      cbn in Hin; try apply in_app_or in Hin as [Hin|[<-|[]]];
      try (cbn in Hid; subst; tauto); eapply Hok; eauto using rand_step_sent.
  - cbn. intros Hin. apply filter_In in Hin as [Hin _]. apply Hok; auto.
  - destruct to_b; cbn; apply Hok.
  - cbn. intros Hin Hid. apply in_map_iff in Hin as (m' & <- & Hin). cbn in *. apply Hok; auto.
  - cbn. intros Hin Hid. unfold release_msgs in Hin. apply in_map_iff in Hin as (m' & <- & Hin).
    destruct (mstat m'); cbn in *; apply Hok; auto.
  - cbn. intros [].
  - cbn [sent set_sent]. intros Hin. apply filter_In in Hin as [Hin _].
    destruct (ready_set_state l d0 Explicit) as (_ & _ & E). apply Hok; auto.
  - cbn. apply Hok.
  - destruct (ready_set_state l d0 Healthy) as (_ & _ & E). rewrite E. apply Hok.
  - cbn. intros Hin Hid. apply deliver_nth_in in Hin as (m' & Hin & E1 & E2).
    rewrite E2. apply Hok; auto. congruence.
  - cbn. intros Hin Hid. apply in_map_iff in Hin as (m' & <- & Hin). cbn in *. apply Hok; auto.
  - cbn. apply Hok.
  - cbn. apply Hok.
  - cbn. apply Hok.
Qed.

Lemma run_sent_dir es : forall g l id d,
  ~ In id (send_ids es) -> sent_dir_ok l id d -> sent_dir_ok (fin (run g l es)) id d.
Proof.
  induction es as [|e es IH]; intros g l id d Hf Hok; [exact Hok|].
  change (e :: es) with ([e] ++ es) in Hf. rewrite send_ids_app, in_app_iff in Hf.
  cbn [run]. pose proof (step_sent_dir g l e id d (fun H => Hf (or_introl H)) Hok) as Hok'.
  destruct (step g l e) as [[g' l'] o]. unfold fin in Hok'; cbn [fst snd] in Hok'.
  specialize (IH g' l' id d (fun H => Hf (or_intror H)) Hok').
  destruct (run g' l' es) as [[g'' l''] os]. exact IH.
Qed.

Lemma send_sent_dir g l d id x r p :
  ~ In id (ids_of l) -> sent_dir_ok (fin (step g l (Send d id x r p))) id d.
Proof.
  intros Hni m. unfold fin; cbn [step fst snd]. cbn. intros Hin Hid.
  apply filter_In in Hin as [Hin _].
  assert (Hni' : ~ In id (map mid (sent (rand_step l r p)))).
  { intros H. apply Hni. eapply rand_step_ids. unfold ids_of. apply in_or_app. left. exact H. }
  unfold enqueue in Hin. destruct (state_of (rand_step l r p) d); cbn in Hin;
    try apply in_app_or in Hin as [Hin|[<-|[]]]; try reflexivity;
    exfalso; apply Hni'; apply in_map_iff; eauto.
Qed.

(* es = es1 ++ Send d id :: es2 ++ e :: es3, e partitions d, and when e is
   applied the message has not matured (it is not in a ready queue): then it
   is never delivered. *)
Lemma c03_inflight_dropped_lemma g es1 d id x r p es2 e es3 :
  ~ In id (send_ids es1) -> ~ In id (send_ids es2) -> ~ In id (send_ids es3) ->
  partitions e d = true ->
  let pre := run g init (es1 ++ Send d id x r p :: es2) in
  ~ In id (ready_a (fin pre) ++ ready_b (fin pre)) ->
  ~ In id (outs (run (gfin pre) (fin pre) (e :: es3))).
Proof.
  intros Hf1 Hf2 Hf3 Hp pre Hnr.
  assert (Hok : sent_dir_ok (fin pre) id d).
  { unfold pre. rewrite run_app. pose proof (fresh_absent es1 g id Hf1) as Hab.
    destruct (run g init es1) as [[g1 l1] o1]. unfold fin in Hab; cbn [fst snd] in Hab.
    cbn [run]. pose proof (send_sent_dir g1 l1 d id x r p Hab) as H1.
    destruct (step g1 l1 (Send d id x r p)) as [[g2 l2] o2]. unfold fin in H1; cbn [fst snd] in H1.
    pose proof (run_sent_dir es2 g2 l2 id d Hf2 H1) as H2.
    destruct (run g2 l2 es2) as [[g3 l3] o3]. exact H2. }
  destruct pre as [[g3 l3] o3].
  unfold fin, gfin, outs in *; cbn [fst snd] in *.
  cbn [run].
  pose proof (partition_drops g3 l3 e d id Hp Hok Hnr) as Hd.
  assert (Hoe : outs (step g3 l3 e) = []) by (destruct e; cbn in Hp; try discriminate; reflexivity).
  destruct (step g3 l3 e) as [[g4 l4] o4]. unfold fin, outs in *; cbn [fst snd] in *. subst o4.
  pose proof (absent_stays es3 g4 l4 id Hd Hf3) as Ha.
  destruct (run g4 l4 es3) as [[g5 l5] o5]. unfold outs in *; cbn [fst snd] in *.
  exact Ha.
Qed.

(* ---- the reverse direction of a one-way partition is untouched ---- *)

Definition dir_view (l : link) (d : dir) :=
  (state_of l d, filter (fun m => dir_eqb (mdir m) d) (sent l),
   match d with AB => ready_b l | BA => ready_a l end, lnow l, llat l).

Lemma c03_reverse_untouched_lemma g l d :
  let l' := fin (step g l (PartitionOne d)) in
  dir_view l' (flip d) = dir_view l (flip d).
Proof.
  unfold fin; cbn [step fst snd]. unfold dir_view.
  destruct d; cbn; rewrite filter_filter;
    match goal with |- (_, ?a, _, _, _) = (_, ?b, _, _, _) => replace a with b; [reflexivity|] end;
    apply filter_ext; intros m; destruct (mdir m); reflexivity.
Qed.

Lemma c03_repair_untouched_lemma g l d :
  let l' := fin (step g l (RepairOne d)) in
  dir_view l' (flip d) = dir_view l (flip d).
Proof. unfold fin; cbn [step fst snd]. unfold dir_view. destruct d; reflexivity. Qed.
