(* TV.Link.Model — executable model of crates/turmoil/src/top.rs (struct Link and
   struct Topology).  No proofs in this file.

   Correspondence of names:
     rand_step      = Link::rand_partition_or_repair   (coins are inputs)
     enqueue        = Link::enqueue                     (sampled x is an input)
     process        = Link::process_deliverables
     step (Send ..) = Link::enqueue_message
     step (Tick dt) = Link::tick (Topology::tick_by advances every link by dt)
     step (Drain b) = the drain of `deliverable[host]` in Link::deliver_messages
     Hold/Release/Partition/PartitionOne/Repair/RepairOne
                    = hold / release / explicit_partition / partition_oneway /
                      explicit_repair / repair_oneway
     DeliverOne k   = SentRef::deliver on the k-th element of LinkIter
     DeliverAll     = LinkIter::deliver_all
     SetLinkLatency/SetLinkMax = Topology::set_link_message_latency /
                      set_link_max_message_latency (per-link copy of the config)
   Message ids are ghost: the harness puts them in the payload. *)
From TV.Lib Require Import Base.
Open Scope N_scope.

Inductive dir := AB | BA.          (* AB: from the smaller address to the larger *)
Definition dir_eqb (a b : dir) : bool :=
  match a, b with AB, AB | BA, BA => true | _, _ => false end.
Definition flip (d : dir) := match d with AB => BA | BA => AB end.

Inductive lstate := Healthy | Explicit | Rand | Held.
Inductive status := After (t : N) | OnHold.
Record msg := { mid : N; mdir : dir; mstat : status }.
Record lat := { lmin : N; lmax : N }.                (* nanoseconds *)

Record link := {
  sab : lstate; sba : lstate;
  sent : list msg;
  ready_a : list N;       (* deliverable[a] : ids sent in direction BA *)
  ready_b : list N;       (* deliverable[b] : ids sent in direction AB *)
  lnow : N;
  llat : option lat       (* per-link latency copy, None = use the global one *)
}.

Inductive ev :=
| Send (d : dir) (id : N) (x_ms : N) (do_rand do_repair : bool)
| Tick (dt : N)
| Drain (to_b : bool)
| Hold | Release | Partition | PartitionOne (d : dir) | Repair | RepairOne (d : dir)
| DeliverOne (k : nat) | DeliverAll
| SetLinkLatency (v : N) | SetLinkMax (v : N) | SetGlobalMax (v : N).

Definition state_of (l : link) (d : dir) := match d with AB => sab l | BA => sba l end.
Definition is_healthy s := match s with Healthy => true | _ => false end.
Definition is_rand s := match s with Rand => true | _ => false end.

Definition set_states (l : link) a b :=
  {| sab := a; sba := b; sent := sent l; ready_a := ready_a l; ready_b := ready_b l;
     lnow := lnow l; llat := llat l |}.
Definition set_state (l : link) (d : dir) s :=
  match d with AB => set_states l s (sba l) | BA => set_states l (sab l) s end.
Definition set_sent (l : link) s :=
  {| sab := sab l; sba := sba l; sent := s; ready_a := ready_a l; ready_b := ready_b l;
     lnow := lnow l; llat := llat l |}.
Definition set_now (l : link) t :=
  {| sab := sab l; sba := sba l; sent := sent l; ready_a := ready_a l; ready_b := ready_b l;
     lnow := t; llat := llat l |}.
Definition set_lat (l : link) c :=
  {| sab := sab l; sba := sba l; sent := sent l; ready_a := ready_a l; ready_b := ready_b l;
     lnow := lnow l; llat := c |}.

Definition restamp (m : msg) (s : status) := {| mid := mid m; mdir := mdir m; mstat := s |}.

Definition release_msgs (now : N) (ms : list msg) :=
  map (fun m => match mstat m with OnHold => restamp m (After now) | After _ => m end) ms.

Definition release (l : link) : link :=
  set_sent (set_states l Healthy Healthy) (release_msgs (lnow l) (sent l)).

(* Link::rand_partition_or_repair.  do_rand is the result of rand_partition
   (always drawn); do_repair the result of rand_repair, consulted only in the
   second arm. *)
Definition rand_step (l : link) (do_rand do_repair : bool) : link :=
  if do_rand && (is_healthy (sab l) || is_healthy (sba l)) then
    let a := if is_healthy (sab l) then Rand else sab l in
    let b := if is_healthy (sba l) then Rand else sba l in
    set_sent (set_states l a b)
      (filter (fun m => negb (is_healthy (state_of l (mdir m)))) (sent l))
  else if (is_rand (sab l) || is_rand (sba l)) && do_repair then
    let a := if is_rand (sab l) then Healthy else sab l in
    let b := if is_rand (sba l) then Healthy else sba l in
    set_states l a b
  else l.

Definition due (now : N) (m : msg) : bool :=
  match mstat m with After t => N.leb t now | OnHold => false end.

(* Link::process_deliverables: a stable partition of `sent`. *)
Definition process (l : link) : link :=
  let rdy := filter (due (lnow l)) (sent l) in
  let keep := filter (fun m => negb (due (lnow l) m)) (sent l) in
  {| sab := sab l; sba := sba l; sent := keep;
     ready_a := ready_a l ++ map mid (filter (fun m => dir_eqb (mdir m) BA) rdy);
     ready_b := ready_b l ++ map mid (filter (fun m => dir_eqb (mdir m) AB) rdy);
     lnow := lnow l; llat := llat l |}.

Definition ms : N := 1000000.

Definition eff_lat (g : lat) (l : link) : lat :=
  match llat l with Some c => c | None => g end.

(* Link::delay: x_ms = (range_ms * mult) as u64 is supplied by the caller. *)
Definition delay (g : lat) (l : link) (x_ms : N) : N :=
  let c := eff_lat g l in N.min (lmin c + x_ms * ms) (lmax c).

Definition enqueue (g : lat) (l : link) d id x : link :=
  match state_of l d with
  | Healthy => set_sent l (sent l ++ [{| mid := id; mdir := d; mstat := After (lnow l + delay g l x) |}])
  | Held => set_sent l (sent l ++ [{| mid := id; mdir := d; mstat := OnHold |}])
  | _ => l
  end.

Fixpoint deliver_nth (now : N) (k : nat) (l : list msg) : list msg :=
  match l, k with
  | [], _ => []
  | m :: r, O => restamp m (After now) :: r
  | m :: r, S k' => m :: deliver_nth now k' r
  end.

(* step returns the new global latency config, the new link, and the ids
   handed to the destination host (non-empty only for Drain). *)
Definition step (g : lat) (l : link) (e : ev) : lat * link * list N :=
  match e with
  | Send d id x r p => (g, process (enqueue g (rand_step l r p) d id x), [])
  | Tick dt => (g, process (set_now l (lnow l + dt)), [])
  | Drain true =>
      (g, {| sab := sab l; sba := sba l; sent := sent l; ready_a := ready_a l;
             ready_b := []; lnow := lnow l; llat := llat l |}, ready_b l)
  | Drain false =>
      (g, {| sab := sab l; sba := sba l; sent := sent l; ready_a := [];
             ready_b := ready_b l; lnow := lnow l; llat := llat l |}, ready_a l)
  | Hold => (g, set_sent (set_states l Held Held) (map (fun m => restamp m OnHold) (sent l)), [])
  | Release => (g, release l, [])
  | Partition => (g, set_sent (set_states l Explicit Explicit) [], [])
  | PartitionOne d =>
      (g, set_sent (set_state l d Explicit)
            (filter (fun m => negb (dir_eqb (mdir m) d)) (sent l)), [])
  | Repair => (g, set_states l Healthy Healthy, [])
  | RepairOne d => (g, set_state l d Healthy, [])
  | DeliverOne k => (g, set_sent l (deliver_nth (lnow l) k (sent l)), [])
  | DeliverAll => (g, set_sent l (map (fun m => restamp m (After (lnow l))) (sent l)), [])
  | SetLinkLatency v => (g, set_lat l (Some {| lmin := v; lmax := v |}), [])
  | SetLinkMax v => (g, set_lat l (Some {| lmin := lmin (eff_lat g l); lmax := v |}), [])
  | SetGlobalMax v => ({| lmin := lmin g; lmax := v |}, l, [])
  end.

Definition init_at (t : N) : link :=
  {| sab := Healthy; sba := Healthy; sent := []; ready_a := []; ready_b := [];
     lnow := t; llat := None |}.
Definition init : link := init_at 0.

Fixpoint run (g : lat) (l : link) (es : list ev) : lat * link * list N :=
  match es with
  | [] => (g, l, [])
  | e :: es' =>
      let '(g', l', o) := step g l e in
      let '(g'', l'', os) := run g' l' es' in (g'', l'', o ++ os)
  end.

(* Same as run but keeps one output per event (used for correspondence). *)
Fixpoint run_obs (g : lat) (l : link) (es : list ev) : list (list N) :=
  match es with
  | [] => []
  | e :: es' => let '(g', l', o) := step g l e in o :: run_obs g' l' es'
  end.

(* ------------------------------------------------------------------ *)
(* Topology: hosts are numbers ordered like their addresses.           *)

Record topo := {
  thosts : list N;
  tlinks : list (N * N * link);   (* key (a,b) with a < b, insertion order *)
  tnow : N;
  tg : lat
}.

Inductive tev :=
| TRegister (h : N)
| TSend (src dst : N) (id x_ms : N) (do_rand do_repair : bool)
| TTick (dt : N)
| TDrain (h : N)
| TView
| TLink (a b : N) (e : ev).   (* e is one of Hold .. SetLinkMax; for PartitionOne/RepairOne
                                 the direction is given relative to the ordered pair *)

Definition pair_of (x y : N) : N * N := if x <? y then (x, y) else (y, x).
Definition pair_eqb (p q : N * N) := (fst p =? fst q) && (snd p =? snd q).
Definition dir_of (src dst : N) : dir := if src <? dst then AB else BA.

Fixpoint upd_link (p : N * N) (f : link -> link * list N) (ls : list (N * N * link))
  : list (N * N * link) * list N :=
  match ls with
  | [] => ([], [])
  | (q, l) :: r =>
      if pair_eqb p q then let '(l', o) := f l in ((q, l') :: r, o)
      else let '(r', o) := upd_link p f r in ((q, l) :: r', o)
  end.

Definition has_link (p : N * N) (ls : list (N * N * link)) : bool :=
  existsb (fun ql => pair_eqb p (fst ql)) ls.

(* Drain every link that has h as an endpoint, in map order. *)
Fixpoint drain_host (g : lat) (h : N) (ls : list (N * N * link)) : list (N * N * link) * list N :=
  match ls with
  | [] => ([], [])
  | ((a, b), l) :: r =>
      let '(r', o') := drain_host g h r in
      if a =? h then let '(_, l', o) := step g l (Drain false) in (((a, b), l') :: r', o ++ o')
      else if b =? h then let '(_, l', o) := step g l (Drain true) in (((a, b), l') :: r', o ++ o')
      else (((a, b), l) :: r', o')
  end.

Inductive tobs := ORefused | OIds (ids : list N) | OView (v : list (N * N * list N)).

(* What Sim::links shows for each link: (a, b, ids of `sent` in order). *)
Definition links_view_of (ls : list (N * N * link)) : list (N * N * list N) :=
  map (fun ql => (fst (fst ql), snd (fst ql), map mid (sent (snd ql)))) ls.

Definition tstep (t : topo) (e : tev) : topo * tobs :=
  match e with
  | TRegister h =>
      ({| thosts := thosts t ++ [h];
          tlinks := tlinks t ++ map (fun x => (pair_of x h, init_at (tnow t))) (thosts t);
          tnow := tnow t; tg := tg t |}, OIds [])
  | TSend src dst id x r p =>
      let pr := pair_of src dst in
      if has_link pr (tlinks t) then
        let '(ls, _) := upd_link pr (fun l => let '(_, l', o) :=
                          step (tg t) l (Send (dir_of src dst) id x r p) in (l', o)) (tlinks t) in
        ({| thosts := thosts t; tlinks := ls; tnow := tnow t; tg := tg t |}, OIds [])
      else (t, ORefused)
  | TTick dt =>
      ({| thosts := thosts t;
          tlinks := map (fun ql => (fst ql, snd (fst (step (tg t) (snd ql) (Tick dt))))) (tlinks t);
          tnow := tnow t + dt; tg := tg t |}, OIds [])
  | TDrain h =>
      let '(ls, o) := drain_host (tg t) h (tlinks t) in
      ({| thosts := thosts t; tlinks := ls; tnow := tnow t; tg := tg t |}, OIds o)
  | TView => (t, OView (links_view_of (tlinks t)))
  | TLink a b (SetGlobalMax v) =>
      ({| thosts := thosts t; tlinks := tlinks t; tnow := tnow t;
          tg := {| lmin := lmin (tg t); lmax := v |} |}, OIds [])
  | TLink a b e' =>
      let '(ls, _) := upd_link (pair_of a b) (fun l => let '(_, l', o) := step (tg t) l e' in (l', o))
                        (tlinks t) in
      ({| thosts := thosts t; tlinks := ls; tnow := tnow t; tg := tg t |}, OIds [])
  end.

Definition tinit (g : lat) : topo := {| thosts := []; tlinks := []; tnow := 0; tg := g |}.

Fixpoint trun (t : topo) (es : list tev) : list tobs :=
  match es with
  | [] => []
  | e :: es' => let '(t', o) := tstep t e in o :: trun t' es'
  end.

Definition links_view (t : topo) : list (N * N * list N) := links_view_of (tlinks t).

(* Plain-data encoding of observations for the correspondence check. *)
Definition enc_obs (o : tobs) : N * list (list N) :=
  match o with
  | ORefused => (0, [])
  | OIds ids => (1, [ids])
  | OView v => (2, map (fun x => fst (fst x) :: snd (fst x) :: snd x) v)
  end.
Definition trun_enc (g : lat) (es : list tev) : list (N * list (list N)) :=
  map enc_obs (trun (tinit g) es).

Fixpoint tstate (t : topo) (es : list tev) : topo :=
  match es with
  | [] => t
  | e :: es' => tstate (fst (tstep t e)) es'
  end.
