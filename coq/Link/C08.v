(* Property C08 — held links deliver nothing until released, then everything
   exactly once in order.  Statements only; proofs in C08_proofs.v. *)
From TV.Lib Require Import Base.
From TV.Link Require Import Model Facts Topo_proofs Topo_run C03_topo C08_proofs C08_topo C08_topo_held.
Open Scope N_scope.

(* A message that is parked (status OnHold in `sent`, in no ready queue) is in
   no Drain output for as long as no Release / manual delivery happens —
   whatever else happens (ticks, sends, drains, further holds, even
   partitions and random coins), for every latency sample. *)
Theorem c08_held_not_delivered : forall es g l id,
  Forall no_release es -> ~ In id (send_ids es) -> parked l id ->
  ~ In id (outs (run g l es)).
Proof. exact c08_held_not_delivered_lemma. Qed.

(* `hold` parks every message in flight, and a message sent on a held
   direction is parked. *)
Theorem c08_hold_parks : forall g l id,
  ~ In id (ready_a l ++ ready_b l) -> parked (fin (step g l Hold)) id.
Proof. exact hold_parks. Qed.

Theorem c08_send_while_held_parks : forall g l d id x p,
  state_of l d = Held -> good_states l -> ~ In id (ids_of l) ->
  (forall m, In m (sent l) -> mstat m = OnHold \/ exists t, mstat m = After t) ->
  parked (fin (step g l (Send d id x false p))) id.
Proof. exact send_held_parks. Qed.

(* Exactly once, first half: whatever the history (any events, coins,
   latencies), no id is handed out twice and only sent ids are handed out. *)
Theorem c08_at_most_once : forall g es,
  NoDup (send_ids es) ->
  NoDup (outs (run g init es)) /\ incl (outs (run g init es)) (send_ids es).
Proof. exact c08_at_most_once_lemma. Qed.

(* Exactly once, second half (nothing is lost): on the hold alphabet (no
   partitions, fail_rate 0) every sent id is, at any time, either still on
   the link (in flight, held or ready) or has been handed out exactly once. *)
Theorem c08_conservation : forall g es x,
  Forall c08_event es ->
  (mass x (fin (run g init es)) + cnt x (outs (run g init es)) = cnt x (send_ids es))%nat.
Proof. exact c08_conservation_lemma. Qed.

(* End to end: on the hold alphabet, once the link is released and flushed (one
   tick long enough for what is still in flight, then both hosts take their
   turn), every message that was ever sent has been handed to its destination
   exactly once -- whatever holds, releases and manual deliveries came before. *)
Theorem c08_exactly_once : forall g es dt,
  Forall c08_event es -> NoDup (send_ids es) ->
  (let l := fin (run g init es) in
   forall m, In m (sent l) -> mstat m = OnHold \/ exists t, mstat m = After t /\ t <= lnow l + dt) ->
  forall x, In x (send_ids es) -> cnt x (outs (run g init (es ++ flush dt))) = 1%nat.
Proof. exact c08_exactly_once_lemma. Qed.

(* Release: everything held is ready after the next tick (for any tick
   length), per direction in send order, and nothing stays behind. *)
Theorem c08_release_order : forall g l dt,
  all_held l ->
  let l2 := fin (step g (fin (step g l Release)) (Tick dt)) in
  sent l2 = [] /\
  ready_b l2 = ready_b l ++ map mid (filter (fun m => dir_eqb (mdir m) AB) (sent l)) /\
  ready_a l2 = ready_a l ++ map mid (filter (fun m => dir_eqb (mdir m) BA) (sent l)).
Proof. exact c08_release_order_lemma. Qed.

(* The links iterator: what stays in `sent` after maturation is exactly what
   is not yet due. *)
Theorem c08_links_view : forall l m,
  (In m (sent (process l)) -> In m (sent l) /\ due (lnow l) m = false) /\
  (In m (sent l) -> due (lnow l) m = false -> In m (sent (process l))).
Proof.
  intros l m. split.
  - intros H. split; [cbn in H; apply filter_In in H; tauto|eapply process_sent_not_due; eauto].
  - apply process_keeps_not_due.
Qed.

(* Links that are not held keep delivering: hold/release/manual delivery on
   pair (a,b) leaves the link of every other pair exactly as it was. *)
Theorem c08_unheld_links_untouched : forall t a b e q,
  is_global e = false -> pair_eqb (pair_of a b) q = false ->
  get_link q (tlinks (fst (tstep t (TLink a b e)))) = get_link q (tlinks t).
Proof. exact topo_frame_link. Qed.

(* The same on the whole topology, registrations included: per id, what sits in
   all links plus what any host was handed never exceeds what was put on the
   network -- so with unique ids no host ever receives a message twice and no
   two hosts receive the same message, whatever the history (holds, releases,
   manual deliveries, partitions, coins, any number of hosts). *)
Theorem c08_topology_at_most_once : forall g es,
  NoDup (tsend_ids es) -> NoDup (touts (tinit g) es).
Proof. exact c08_topology_at_most_once_lemma. Qed.

Theorem c08_topology_mass : forall es t x,
  (tmass x (tlinks (tstate t es)) + cnt x (touts t es) <= tmass x (tlinks t) + cnt x (tsend_ids es))%nat.
Proof. exact touts_mass. Qed.

(* Held, hence not delivered, on the whole topology: a message sent between two
   hosts while the projected history of their pair has the link held is handed
   to NO host for as long as that pair sees no release / manual delivery --
   whatever happens on this link otherwise and on all other links. *)
Theorem c08_topology_held_not_delivered : forall t es1 src dst id x p es2,
  let q := pair_of src dst in
  let d := dir_of src dst in
  let l1 := fin (run (tg t) init (proj q es1)) in
  fresh_topo t -> Forall no_reg (es1 ++ TSend src dst id x false p :: es2) ->
  state_of l1 d = Held -> good_states l1 ->
  Forall no_release (proj q es2) ->
  ~ In id (tsend_ids es1) -> ~ In id (tsend_ids es2) ->
  ~ In id (touts t (es1 ++ TSend src dst id x false p :: es2)).
Proof. exact c08_topology_held_not_delivered_lemma. Qed.

(* Non-vacuity: a held message is not delivered during the hold and is
   delivered exactly once after release. *)
Definition g0 := {| lmin := 0; lmax := 5 * ms |}.
Definition h1 := [Send AB 1 3 false false; Hold; Send AB 2 0 false false; Send BA 3 1 false false;
                  Tick (10 * ms); Drain true; Drain false].
Definition h2 := [Release; Tick ms; Drain true; Drain false].
Example c08_nonvacuous :
  Forall c08_event (h1 ++ h2) /\ NoDup (send_ids (h1 ++ h2)) /\
  outs (run g0 init h1) = [] /\
  parked (fin (run g0 init h1)) 2 /\
  outs (run g0 init (h1 ++ h2)) = [1; 2; 3].
Proof.
  split; [repeat constructor|]. split; [repeat constructor; cbn; intuition discriminate|].
  split; [reflexivity|]. split; [|reflexivity].
  split; [vm_compute; tauto|].
  vm_compute. intros m [<-|[<-|[<-|[]]]]; intros H; try reflexivity; discriminate.
Qed.

Print Assumptions c08_held_not_delivered.
Print Assumptions c08_hold_parks.
Print Assumptions c08_send_while_held_parks.
Print Assumptions c08_at_most_once.
Print Assumptions c08_conservation.
Print Assumptions c08_exactly_once.
Print Assumptions c08_release_order.
Print Assumptions c08_links_view.
Print Assumptions c08_unheld_links_untouched.
Print Assumptions c08_topology_at_most_once.
Print Assumptions c08_topology_mass.
Print Assumptions c08_topology_held_not_delivered.
Print Assumptions c08_nonvacuous.
