(* Property C03 — nothing sent across an explicitly partitioned direction is
   ever delivered.  This file only states the theorems and closes them with the
   lemmas of C03_proofs.v; see DESIGN.md section 5 (C03). *)
From TV.Lib Require Import Base.
From TV.Link Require Import Gen Model Facts Topo_proofs Topo_run C03_proofs C03_topo Topo_fresh C08_proofs C14_proofs C03_flow.
Open Scope N_scope.

(* A message sent while its direction is explicitly partitioned is in no
   Drain output, ever: whatever follows (repairs, random repair coins, even
   hold/release), for every value of the random coins and sampled latencies. *)
Theorem c03_never_delivered : forall g es1 d id x r p es2,
  Forall c03_alphabet es1 ->
  explicit es1 d = true ->
  ~ In id (send_ids es1) -> ~ In id (send_ids es2) ->
  ~ In id (outs (run g init (es1 ++ Send d id x r p :: es2))).
Proof. exact c03_never_delivered_lemma. Qed.

(* A message still in flight (not yet matured into a ready queue) when its
   direction is partitioned is in no later Drain output. *)
Theorem c03_inflight_dropped : forall g es1 d id x r p es2 e es3,
  ~ In id (send_ids es1) -> ~ In id (send_ids es2) -> ~ In id (send_ids es3) ->
  partitions e d = true ->
  let pre := run g init (es1 ++ Send d id x r p :: es2) in
  ~ In id (ready_a (fin pre) ++ ready_b (fin pre)) ->
  ~ In id (outs (run (gfin pre) (fin pre) (e :: es3))).
Proof. exact c03_inflight_dropped_lemma. Qed.

(* State invariant behind both: while a direction is explicitly partitioned
   its link state is Explicit and it carries nothing in flight. *)
Theorem c03_state_invariant : forall g es,
  Forall c03_alphabet es ->
  let l := fin (run g init es) in
  (forall d, explicit es d = true -> state_of l d = Explicit) /\
  (forall m, In m (sent l) -> explicit es (mdir m) = false).
Proof.
  intros g es Hal l. pose proof (run_inv es g [] init Hal (inv_init 0)) as [A B _ _].
  split; assumption.
Qed.

(* A one-way partition / repair leaves the reverse direction's state, in-flight
   messages, ready queue, clock and latency untouched. *)
Theorem c03_reverse_untouched : forall g l d,
  dir_view (fin (step g l (PartitionOne d))) (flip d) = dir_view l (flip d) /\
  dir_view (fin (step g l (RepairOne d))) (flip d) = dir_view l (flip d).
Proof. intros; split; [apply c03_reverse_untouched_lemma|apply c03_repair_untouched_lemma]. Qed.

(* Other links are unaffected: the topology is a map of independent links.  A
   partition/repair call (any link-level call) or a send on pair (a,b) leaves
   the link of every other pair q exactly as it was, and on its own pair it is
   exactly the single-link step the theorems above talk about. *)
Theorem c03_other_links_untouched : forall t a b e q src dst id x r p,
  (is_global e = false -> pair_eqb (pair_of a b) q = false ->
   get_link q (tlinks (fst (tstep t (TLink a b e)))) = get_link q (tlinks t)) /\
  (pair_eqb (pair_of src dst) q = false ->
   get_link q (tlinks (fst (tstep t (TSend src dst id x r p)))) = get_link q (tlinks t)).
Proof. intros. split; [apply topo_frame_link|apply topo_frame_send]. Qed.

Theorem c03_topology_refines_link : forall t a b e l src dst id x r p dt q,
  (is_global e = false -> get_link (pair_of a b) (tlinks t) = Some l ->
   get_link (pair_of a b) (tlinks (fst (tstep t (TLink a b e)))) = Some (fin (step (tg t) l e))) /\
  (get_link (pair_of src dst) (tlinks t) = Some l ->
   get_link (pair_of src dst) (tlinks (fst (tstep t (TSend src dst id x r p))))
   = Some (fin (step (tg t) l (Send (dir_of src dst) id x r p)))) /\
  (get_link q (tlinks t) = Some l ->
   get_link q (tlinks (fst (tstep t (TTick dt)))) = Some (fin (step (tg t) l (Tick dt)))).
Proof.
  intros. split; [apply topo_link_is_step|split; [apply topo_send_is_step|apply topo_tick_is_step]].
Qed.

(* Keeps flowing: with fail_rate 0 (no random coin comes up), a message sent on
   a direction that is not explicitly partitioned at that moment -- in
   particular after an explicit repair -- and not partitioned while in flight,
   is in the destination's delivery sequence (already handed over, or ready for
   its next turn) as soon as the link clock has passed its delivery instant.
   Together with c08_at_most_once: delivered exactly once. *)
Theorem c03_flows_again : forall d g es1 id x p es2,
  let s := Send d id x false p in
  Forall c03_alphabet (es1 ++ s :: es2) -> Forall no_rand (es1 ++ s :: es2) ->
  explicit es1 d = false ->
  Forall (fun e => partitions e d = false) es2 ->
  let r1 := run_d d g init es1 in
  let r := run_d d g init (es1 ++ s :: es2) in
  lnow (fin r1) + delay (gfin r1) (fin r1) x <= lnow (fin r) ->
  In id (seq_d d (outs r) (fin r)).
Proof. exact c03_flows_again_lemma. Qed.

(* The whole topology, any number of hosts and any history: the link of every
   pair q after the history is the single-link run of the history projected on
   q (its sends, the ticks, the drains of its endpoints, its link calls, the
   global latency changes), and the global latency agrees.  So every
   single-link theorem of C03 / C08 / C14 is a theorem about `Topology`. *)
Theorem c03_topology_projects : forall es t q l,
  get_link q (tlinks t) = Some l ->
  get_link q (tlinks (tstate t es)) = Some (fin (run (tg t) l (proj q es))) /\
  tg (tstate t es) = gfin (run (tg t) l (proj q es)).
Proof. exact topo_projects_lemma. Qed.

(* ... and the headline statement on the topology itself: on a topology whose
   hosts were registered at time 0, a message sent from src to dst while the
   projected history of that pair has the direction explicitly partitioned is
   handed to NO host, ever -- whatever happens on this and on all other links
   afterwards.  (touts = everything any host receives along the history.) *)
Theorem c03_topology_never_delivered : forall t es1 src dst id x r p es2,
  let q := pair_of src dst in
  let d := dir_of src dst in
  fresh_topo t -> Forall no_reg (es1 ++ TSend src dst id x r p :: es2) ->
  Forall c03_alphabet (proj q es1) -> explicit (proj q es1) d = true ->
  ~ In id (tsend_ids es1) -> ~ In id (tsend_ids es2) ->
  ~ In id (touts t (es1 ++ TSend src dst id x r p :: es2)).
Proof. exact c03_topology_never_delivered_lemma. Qed.

(* No host is ever handed an id that was not put on the network. *)
Theorem c03_topology_only_sent : forall t es x,
  fresh_topo t -> Forall no_reg es -> In x (touts t es) -> In x (tsend_ids es).
Proof. exact touts_only_sent_lemma. Qed.

(* Registering pairwise different hosts at time 0 -- what the harness and every
   turmoil test do before the first step -- gives such a fresh topology, so the
   two theorems above hold for every history that starts with registrations. *)
Theorem c03_fresh_after_registration : forall g hs,
  NoDup hs -> fresh_topo (reg_all g hs) /\ tg (reg_all g hs) = g.
Proof. intros g hs H. split; [apply fresh_after_registration_lemma; exact H|apply reg_all_no_reg_tg]. Qed.

(* Structural tie to the source (Gen.v is re-read from top.rs on every run): the
   Rust enums `State` and `DeliveryStatus` have exactly the variants the model's
   inductives `lstate` and `status` have, in the same order.  A new or renamed
   variant in the code makes this fail to check. *)
Definition ascii_codes (s : list N) := s.
Example c03_model_matches_enums :
  link_state_variants =
    [ [72;101;97;108;116;104;121];                                              (* Healthy  -> Healthy  *)
      [69;120;112;108;105;99;105;116;80;97;114;116;105;116;105;111;110];        (* ExplicitPartition -> Explicit *)
      [82;97;110;100;80;97;114;116;105;116;105;111;110];                        (* RandPartition -> Rand *)
      [72;111;108;100] ] /\                                                      (* Hold -> Held *)
  delivery_status_variants =
    [ [68;101;108;105;118;101;114;65;102;116;101;114];                          (* DeliverAfter -> After *)
      [72;111;108;100] ] /\                                                      (* Hold -> OnHold *)
  (forall s : lstate, In s [Healthy; Explicit; Rand; Held]) /\
  (forall s : status, (exists t, s = After t) \/ s = OnHold).
Proof.
  split; [reflexivity|]. split; [reflexivity|]. split.
  - intros []; cbn; auto.
  - intros [t|]; eauto.
Qed.

(* Non-vacuity: the hypotheses are met by a real history, and the same history
   without the partition does deliver the message. *)
Definition g0 := {| lmin := 0; lmax := 100 * ms |}.
Definition h_part := [Send AB 1 0 false false; PartitionOne AB].
Definition h_tail := [Repair; Tick ms; Drain true; Send AB 3 0 true true; Tick ms; Drain true].
Example c03_nonvacuous :
  Forall c03_alphabet h_part /\ explicit h_part AB = true /\
  ~ In 2 (outs (run g0 init (h_part ++ Send AB 2 0 false true :: h_tail))) /\
  In 2 (outs (run g0 init ([Send AB 1 0 false false] ++ Send AB 2 0 false true :: h_tail))).
Proof.
  split; [repeat constructor|]. split; [reflexivity|]. split; vm_compute; intuition discriminate.
Qed.

(* Non-vacuity of the topology statements: three hosts registered at time 0
   give a fresh topology; a partitioned send reaches nobody while the same
   history without the partition delivers it to host 2. *)
Definition t3 := tstate (tinit g0) [TRegister 1; TRegister 2; TRegister 3].
Definition th1 := [TSend 1 3 7 0 false false; TLink 2 1 Partition].
Definition th2 := [TLink 1 2 Repair; TTick ms; TDrain 1; TDrain 2; TDrain 3].
Example c03_topology_nonvacuous :
  fresh_topo t3 /\
  Forall no_reg (th1 ++ TSend 1 2 8 0 false false :: th2) /\
  Forall c03_alphabet (proj (pair_of 1 2) th1) /\ explicit (proj (pair_of 1 2) th1) (dir_of 1 2) = true /\
  touts t3 (th1 ++ TSend 1 2 8 0 false false :: th2) = [7] /\
  touts t3 ([TSend 1 3 7 0 false false] ++ TSend 1 2 8 0 false false :: th2) = [8; 7].
Proof.
  split.
  { split; [vm_compute; repeat constructor; cbn; intuition discriminate|].
    intros q l. unfold t3. cbn [tstate tstep tinit fst thosts tlinks app map tnow].
    cbn [get_link]. repeat (destruct (pair_eqb q _); [intros H; inversion H; reflexivity|]). discriminate. }
  split; [repeat constructor|]. split; [vm_compute; repeat constructor|].
  split; [reflexivity|]. split; reflexivity.
Qed.

Check c03_never_delivered : forall g es1 d id x r p es2,
  Forall c03_alphabet es1 -> explicit es1 d = true ->
  ~ In id (send_ids es1) -> ~ In id (send_ids es2) ->
  ~ In id (outs (run g init (es1 ++ Send d id x r p :: es2))).

Print Assumptions c03_never_delivered.
Print Assumptions c03_inflight_dropped.
Print Assumptions c03_state_invariant.
Print Assumptions c03_reverse_untouched.
Print Assumptions c03_other_links_untouched.
Print Assumptions c03_topology_refines_link.
Print Assumptions c03_topology_projects.
Print Assumptions c03_topology_never_delivered.
Print Assumptions c03_topology_only_sent.
Print Assumptions c03_fresh_after_registration.
Print Assumptions c03_topology_nonvacuous.
Print Assumptions c03_flows_again.
Print Assumptions c03_model_matches_enums.
Print Assumptions c03_nonvacuous.
