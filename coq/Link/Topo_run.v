(* TV.Link.Topo_run — every topology history projects, on each pair, onto a
   single-link history: the link of pair q after any sequence of topology
   events is the link-level `run` of the projected events.  This is what lets
   the single-link theorems (C03, C08, C14) speak about `Topology`, the object
   the correspondence check actually drives. *)
From TV.Lib Require Import Base.
From TV.Link Require Import Model Facts Topo_proofs.
Open Scope N_scope.

Definition proj_ev (q : N * N) (e : tev) : list ev :=
  match e with
  | TRegister _ => []
  | TSend src dst id x r p =>
      if pair_eqb (pair_of src dst) q then [Send (dir_of src dst) id x r p] else []
  | TTick dt => [Tick dt]
  | TDrain h => if fst q =? h then [Drain false] else if snd q =? h then [Drain true] else []
  | TView => []
  | TLink a b (SetGlobalMax v) => [SetGlobalMax v]
  | TLink a b e' => if pair_eqb (pair_of a b) q then [e'] else []
  end.

Definition proj (q : N * N) (es : list tev) : list ev := flat_map (proj_ev q) es.

Lemma get_link_app q a b l : get_link q a = Some l -> get_link q (a ++ b) = Some l.
Proof.
  induction a as [|[p l'] r IH]; cbn; [discriminate|].
  destruct (pair_eqb q p); auto.
Qed.

Lemma get_link_has q ls l : get_link q ls = Some l -> has_link q ls = true.
Proof.
  induction ls as [|[p l'] r IH]; cbn; [discriminate|].
  destruct (pair_eqb q p); cbn; auto.
Qed.

Lemma drain_host_link g h q ls l :
  get_link q ls = Some l ->
  get_link q (fst (drain_host g h ls)) =
  Some (if fst q =? h then fin (step g l (Drain false))
        else if snd q =? h then fin (step g l (Drain true)) else l).
Proof.
  induction ls as [|[[a b] l'] r IH]; cbn [get_link drain_host]; [discriminate|].
  destruct (drain_host g h r) as [r' o'] eqn:Er. cbn [fst] in IH.
  destruct (pair_eqb q (a, b)) eqn:E.
  - intros H; inversion H; subst l'. apply pair_eqb_eq in E. subst q. cbn [fst snd].
    destruct (a =? h); [cbn; rewrite pair_eqb_refl; reflexivity|].
    destruct (b =? h); cbn; rewrite pair_eqb_refl; reflexivity.
  - intros H. specialize (IH H).
    destruct (a =? h); [cbn; rewrite E; exact IH|].
    destruct (b =? h); cbn; rewrite E; exact IH.
Qed.

Lemma gfin_local g l e : is_global e = false -> gfin (run g l [e]) = g.
Proof. destruct e; cbn [is_global]; intros G; try discriminate; try destruct to_b; reflexivity. Qed.

(* one topology event = the projected link events, on the link and on the global latency *)
Lemma tstep_projects t e q l :
  get_link q (tlinks t) = Some l ->
  get_link q (tlinks (fst (tstep t e))) = Some (fin (run (tg t) l (proj_ev q e))) /\
  tg (fst (tstep t e)) = gfin (run (tg t) l (proj_ev q e)).
Proof.
  intros Hl. destruct e as [h|src dst id x r p|dt|h| |a b e'].
  - (* register *) cbn. split; [apply get_link_app; exact Hl|reflexivity].
  - (* send *) cbn [proj_ev]. destruct (pair_eqb (pair_of src dst) q) eqn:E.
    + apply pair_eqb_eq in E. subst q.
      split; [rewrite (topo_send_is_step t src dst id x r p l Hl); unfold fin; cbn; reflexivity|].
      cbn [tstep]. rewrite (get_link_has _ _ _ Hl).
      destruct (upd_link _ _ _); reflexivity.
    + split; [rewrite (topo_frame_send t src dst id x r p q E); exact Hl|].
      cbn [tstep]. destruct (has_link _ _); [destruct (upd_link _ _ _)|]; reflexivity.
  - (* tick *) split; [rewrite (topo_tick_is_step t dt q l Hl); reflexivity|reflexivity].
  - (* drain *) cbn [tstep proj_ev].
    pose proof (drain_host_link (tg t) h q (tlinks t) l Hl) as H.
    destruct (drain_host (tg t) h (tlinks t)) as [ls o]. cbn [fst tlinks tg] in *.
    destruct (fst q =? h); [split; [exact H|reflexivity]|].
    destruct (snd q =? h); split; try exact H; reflexivity.
  - (* view *) cbn. split; [exact Hl|reflexivity].
  - (* link call *)
    destruct (is_global e') eqn:G.
    + destruct e'; cbn in G; try discriminate. cbn. split; [exact Hl|reflexivity].
    + assert (Hp : proj_ev q (TLink a b e') = if pair_eqb (pair_of a b) q then [e'] else [])
        by (destruct e'; cbn in G; try discriminate; reflexivity).
      rewrite Hp. destruct (pair_eqb (pair_of a b) q) eqn:E.
      * apply pair_eqb_eq in E. subst q.
        split; [rewrite (topo_link_is_step t a b e' l G Hl); unfold fin; cbn;
                destruct (step (tg t) l e') as [[g' l'] o]; reflexivity|].
        rewrite (gfin_local _ _ _ G).
        destruct e'; cbn in G; try discriminate; cbn [tstep];
          destruct (upd_link _ _ _); reflexivity.
      * split; [rewrite (topo_frame_link t a b e' q G E); exact Hl|].
        destruct e'; cbn in G; try discriminate; cbn [tstep];
          destruct (upd_link _ _ _); reflexivity.
Qed.

Lemma topo_projects_lemma es : forall t q l,
  get_link q (tlinks t) = Some l ->
  get_link q (tlinks (tstate t es)) = Some (fin (run (tg t) l (proj q es))) /\
  tg (tstate t es) = gfin (run (tg t) l (proj q es)).
Proof.
  induction es as [|e es IH]; intros t q l Hl.
  - cbn. auto.
  - cbn [tstate proj flat_map]. fold (proj q es).
    destruct (tstep_projects t e q l Hl) as [H1 H2].
    destruct (IH (fst (tstep t e)) q _ H1) as [I1 I2].
    rewrite H2 in I1, I2.
    rewrite run_app.
    destruct (run (tg t) l (proj_ev q e)) as [[g1 l1] o1]. unfold fin, gfin in *; cbn [fst snd] in *.
    destruct (run g1 l1 (proj q es)) as [[g2 l2] o2]. cbn [fst snd] in *. auto.
Qed.

(* ---- what the hosts receive comes out of some link's projected run ---- *)

Definition ids_of_obs (o : tobs) : list N := match o with OIds ids => ids | _ => [] end.

(* everything handed to any host along a topology history *)
Fixpoint touts (t : topo) (es : list tev) : list N :=
  match es with
  | [] => []
  | e :: es' => let '(t', o) := tstep t e in ids_of_obs o ++ touts t' es'
  end.

Definition no_reg (e : tev) : Prop := match e with TRegister _ => False | _ => True end.

Lemma upd_link_keys p f ls : map fst (fst (upd_link p f ls)) = map fst ls.
Proof.
  induction ls as [|[q l] r IH]; cbn; [reflexivity|].
  destruct (pair_eqb p q).
  - destruct (f l). reflexivity.
  - destruct (upd_link p f r). cbn in *. now rewrite IH.
Qed.

Lemma drain_host_keys g h ls : map fst (fst (drain_host g h ls)) = map fst ls.
Proof.
  induction ls as [|[[a b] l] r IH]; cbn [drain_host]; [reflexivity|].
  destruct (drain_host g h r) as [r' o']. cbn [fst] in IH.
  destruct (a =? h); [cbn; now rewrite IH|].
  destruct (b =? h); cbn; now rewrite IH.
Qed.

Lemma tstep_keys t e : no_reg e -> map fst (tlinks (fst (tstep t e))) = map fst (tlinks t).
Proof.
  destruct e as [h|src dst id x r p|dt|h| |a b e']; cbn [no_reg]; intros H; try contradiction.
  - cbn [tstep]. destruct (has_link _ _); [|reflexivity].
    match goal with |- context [upd_link ?p ?f ?ls] =>
      pose proof (upd_link_keys p f ls) as K; destruct (upd_link p f ls); exact K end.
  - cbn. rewrite map_map. reflexivity.
  - cbn [tstep]. pose proof (drain_host_keys (tg t) h (tlinks t)) as K.
    destruct (drain_host _ _ _). exact K.
  - reflexivity.
  - destruct e'; cbn [tstep]; try reflexivity;
      match goal with |- context [upd_link ?p ?f ?ls] =>
        pose proof (upd_link_keys p f ls) as K; destruct (upd_link p f ls); exact K end.
Qed.

Lemma get_link_in q ls l : NoDup (map fst ls) -> In (q, l) ls -> get_link q ls = Some l.
Proof.
  induction ls as [|[p l'] r IH]; cbn; [tauto|].
  intros Hnd [H|H].
  - inversion H; subst. now rewrite pair_eqb_refl.
  - inversion Hnd as [|? ? Hn Hnd']; subst.
    destruct (pair_eqb q p) eqn:E; [|auto].
    apply pair_eqb_eq in E. subst p. exfalso. apply Hn.
    apply in_map_iff. exists (q, l). auto.
Qed.

Lemma get_link_keys q ls ls' l' :
  map fst ls = map fst ls' -> get_link q ls' = Some l' -> exists l, get_link q ls = Some l.
Proof.
  revert ls'. induction ls as [|[p l] r IH]; intros [|[p' l2] r']; cbn; try discriminate.
  intros H. inversion H; subst p'. destruct (pair_eqb q p); eauto.
Qed.

Lemma drain_host_out g h ls x :
  In x (snd (drain_host g h ls)) ->
  exists a b l, In ((a, b), l) ls /\
    In x (outs (run g l (proj_ev (a, b) (TDrain h)))).
Proof.
  induction ls as [|[[a b] l] r IH]; cbn [drain_host]; [intros []|].
  destruct (drain_host g h r) as [r' o'] eqn:Er. cbn [snd] in IH.
  assert (Hrest : In x o' -> exists a0 b0 l0, In ((a0, b0), l0) (((a, b), l) :: r) /\
            In x (outs (run g l0 (proj_ev (a0, b0) (TDrain h))))).
  { intros H. destruct (IH H) as (a0 & b0 & l0 & Hin & Hx). exists a0, b0, l0. split; [right; exact Hin|exact Hx]. }
  destruct (a =? h) eqn:Ea.
  - cbn. intros H. apply in_app_or in H as [H|H]; [|auto].
    exists a, b, l. split; [now left|]. cbn [proj_ev fst snd]. rewrite Ea. unfold outs; cbn. rewrite app_nil_r. exact H.
  - destruct (b =? h) eqn:Eb; [|exact Hrest].
    cbn. intros H. apply in_app_or in H as [H|H]; [|auto].
    exists a, b, l. split; [now left|]. cbn [proj_ev fst snd]. rewrite Ea, Eb. unfold outs; cbn. rewrite app_nil_r. exact H.
Qed.

Lemma tstep_out t e x :
  In x (ids_of_obs (snd (tstep t e))) -> exists h, e = TDrain h /\ In x (snd (drain_host (tg t) h (tlinks t))).
Proof.
  destruct e as [h|src dst id y r p|dt|h| |a b e']; cbn [tstep].
  - intros [].
  - destruct (has_link _ _); [destruct (upd_link _ _ _)|]; intros [].
  - intros [].
  - destruct (drain_host (tg t) h (tlinks t)) as [ls o] eqn:E. cbn. intros H. exists h. split; [reflexivity|rewrite E; exact H].
  - intros [].
  - destruct e'; try (intros []); destruct (upd_link _ _ _); intros [].
Qed.

Lemma touts_in_link_lemma es : forall t x,
  NoDup (map fst (tlinks t)) -> Forall no_reg es -> In x (touts t es) ->
  exists q l, get_link q (tlinks t) = Some l /\ In x (outs (run (tg t) l (proj q es))).
Proof.
  induction es as [|e es IH]; intros t x Hnd Hnr Hin; [destruct Hin|].
  inversion Hnr as [|? ? He Hes]; subst. cbn [touts] in Hin.
  pose proof (tstep_keys t e He) as Hk.
  destruct (tstep t e) as [t' o] eqn:Hs. cbn [fst] in Hk.
  apply in_app_or in Hin as [Hin|Hin].
  - assert (Hin' : In x (ids_of_obs (snd (tstep t e)))) by (rewrite Hs; exact Hin).
    destruct (tstep_out t e x Hin') as (h & -> & Hd).
    destruct (drain_host_out _ _ _ _ Hd) as (a & b & l & Hl & Hx).
    exists (a, b), l. split; [apply get_link_in; assumption|].
    cbn [proj flat_map]. rewrite run_app.
    destruct (run (tg t) l (proj_ev (a, b) (TDrain h))) as [[g1 l1] o1]. unfold outs in *; cbn [snd] in *.
    destruct (run g1 l1 (flat_map (proj_ev (a, b)) es)) as [[g2 l2] o2]. cbn. apply in_or_app. auto.
  - assert (Hnd' : NoDup (map fst (tlinks t'))) by (rewrite Hk; exact Hnd).
    destruct (IH t' x Hnd' Hes Hin) as (q & l' & Hl' & Hx).
    destruct (get_link_keys q (tlinks t) (tlinks t') l' (eq_sym Hk) Hl') as [l Hl].
    exists q, l. split; [exact Hl|].
    destruct (tstep_projects t e q l Hl) as [H1 H2]. rewrite Hs in H1, H2. cbn [fst] in H1, H2.
    rewrite Hl' in H1. inversion H1; subst l'. rewrite H2 in Hx.
    cbn [proj flat_map]. fold (proj q es). rewrite run_app.
    destruct (run (tg t) l (proj_ev q e)) as [[g1 l1] o1]. unfold fin, gfin, outs in *; cbn [fst snd] in *.
    destruct (run g1 l1 (proj q es)) as [[g2 l2] o2]. cbn [snd] in *. apply in_or_app. auto.
Qed.
