(* TV.Link.C08_topo_held — "held, hence not delivered" on the whole topology:
   a message sent between two hosts while the projected history of their pair
   has the link held is handed to NO host for as long as that pair sees no
   release / manual delivery, whatever happens on all other links. *)
From TV.Lib Require Import Base.
From TV.Link Require Import Model Facts Topo_proofs Topo_run C03_proofs C03_topo C08_proofs.
Open Scope N_scope.

Lemma status_cases (m : msg) : mstat m = OnHold \/ exists t, mstat m = After t.
Proof. destruct (mstat m); eauto. Qed.

Lemma c08_topology_held_not_delivered_lemma t es1 src dst id x p es2 :
  let q := pair_of src dst in
  let d := dir_of src dst in
  let l1 := fin (run (tg t) init (proj q es1)) in
  fresh_topo t -> Forall no_reg (es1 ++ TSend src dst id x false p :: es2) ->
  state_of l1 d = Held -> good_states l1 ->
  Forall no_release (proj q es2) ->
  ~ In id (tsend_ids es1) -> ~ In id (tsend_ids es2) ->
  ~ In id (touts t (es1 ++ TSend src dst id x false p :: es2)).
Proof.
  intros q d l1 [Hnd Hinit] Hnr Hst Hgood Hrel Hf1 Hf2 Hin.
  destruct (touts_in_link_lemma _ t id Hnd Hnr Hin) as (q' & l & Hl & Hx).
  rewrite (Hinit q' l Hl) in Hx. clear l Hl.
  rewrite proj_app in Hx. cbn [proj flat_map proj_ev] in Hx. fold (proj q' es2) in Hx.
  destruct (pair_eqb (pair_of src dst) q') eqn:E.
  - apply pair_eqb_eq in E. subst q'. cbn [app] in Hx. fold q d in Hx.
    assert (Hs1 : ~ In id (send_ids (proj q es1))) by (intros H; apply Hf1; eapply proj_send_ids; eauto).
    assert (Hs2 : ~ In id (send_ids (proj q es2))) by (intros H; apply Hf2; eapply proj_send_ids; eauto).
    rewrite run_app in Hx.
    pose proof (fresh_absent (proj q es1) (tg t) id Hs1) as Hab.
    pose proof (absent_stays (proj q es1) (tg t) init id) as Ho1.
    unfold l1 in *. clear l1.
    destruct (run (tg t) init (proj q es1)) as [[g1 la] o1]. unfold fin, outs in *; cbn [fst snd] in *.
    cbn [run] in Hx.
    pose proof (send_held_parks g1 la d id x p Hst Hgood Hab (fun m _ => status_cases m)) as Hpk.
    assert (Hoe : outs (step g1 la (Send d id x false p)) = []) by reflexivity.
    destruct (step g1 la (Send d id x false p)) as [[g2 lb] oe]. unfold fin, outs in *; cbn [fst snd] in *. subst oe.
    pose proof (c08_held_not_delivered_lemma (proj q es2) g2 lb id Hrel Hs2 Hpk) as Hnd2.
    destruct (run g2 lb (proj q es2)) as [[g3 lc] o3]. unfold outs in *; cbn [fst snd app] in *.
    apply in_app_or in Hx as [Hx|Hx]; [|contradiction].
    apply Ho1; [cbn; tauto|exact Hs1|exact Hx].
  - cbn [app] in Hx. rewrite <- proj_app in Hx.
    revert Hx. apply absent_stays; [cbn; tauto|].
    intros H. apply proj_send_ids in H. rewrite tsend_ids_app, in_app_iff in H. tauto.
Qed.
