(* TV.Link.C14_topo — the end-to-end lower latency bound on the whole topology:
   while the clock of the pair's link is below (link time at the send) + (the
   sampled delay) the message is handed to NO host. *)
From TV.Lib Require Import Base.
From TV.Link Require Import Model Facts Topo_proofs Topo_run C03_proofs C03_topo C08_proofs C14_proofs C03_flow C14_e2e.
Open Scope N_scope.

Lemma proj_ev_ids_cases q e :
  send_ids (proj_ev q e) = [] \/ send_ids (proj_ev q e) = tsend_ids [e].
Proof.
  destruct e as [h|src dst id y r p|dt|h| |a b e']; cbn [proj_ev]; auto.
  - destruct (pair_eqb _ _); cbn; auto.
  - destruct (fst q =? h); [auto|destruct (snd q =? h); auto].
  - destruct e'; cbn [proj_ev]; try (destruct (pair_eqb _ _); cbn; auto; fail); cbn; auto.
Qed.

Lemma nodup_app_sub {A} (a a' b b' : list A) :
  NoDup (a ++ b) -> (a' = [] \/ a' = a) -> NoDup b' -> incl b' b -> NoDup (a' ++ b').
Proof.
  intros H [->| ->] Hb Hi; [exact Hb|].
  induction a as [|x a IH]; [exact Hb|].
  cbn in *. inversion H as [|? ? Hn H']; subst. constructor; [|auto].
  rewrite in_app_iff in *. intros [Hx|Hx]; [tauto|]. apply Hn. right. apply Hi. exact Hx.
Qed.

Lemma nodup_app_r {A} (a b : list A) : NoDup (a ++ b) -> NoDup b.
Proof. induction a as [|x a IH]; cbn; [auto|]. intros H. inversion H; auto. Qed.

Lemma proj_nodup q es : NoDup (tsend_ids es) -> NoDup (send_ids (proj q es)).
Proof.
  induction es as [|e es IH]; intros H; [constructor|].
  change (e :: es) with ([e] ++ es) in H. rewrite tsend_ids_app in H.
  cbn [proj flat_map]. fold (proj q es). rewrite send_ids_app.
  apply (nodup_app_sub (tsend_ids [e]) _ (tsend_ids es)); auto.
  - apply proj_ev_ids_cases.
  - apply IH. eapply nodup_app_r; eauto.
  - intros x Hx. eapply proj_send_ids; eauto.
Qed.

Lemma c14_topology_not_early_lemma t es1 src dst id x p es2 :
  let q := pair_of src dst in
  let es := es1 ++ TSend src dst id x false p :: es2 in
  fresh_topo t -> Forall no_reg es -> Forall c14_event (proj q es) -> NoDup (tsend_ids es) ->
  let r1 := run (tg t) init (proj q es1) in
  let r := run (tg t) init (proj q es) in
  lnow (fin r) < lnow (fin r1) + delay (gfin r1) (fin r1) x ->
  ~ In id (touts t es).
Proof.
  intros q es [Hnd Hinit] Hnr Hev Hnds r1 r Hlt Hin.
  destruct (touts_in_link_lemma _ t id Hnd Hnr Hin) as (q' & l & Hl & Hx).
  rewrite (Hinit q' l Hl) in Hx. clear l Hl.
  assert (Hpq : proj q es = proj q es1 ++ Send (dir_of src dst) id x false p :: proj q es2).
  { unfold es. rewrite proj_app. cbn [proj flat_map proj_ev]. fold (proj q es2).
    unfold q. rewrite pair_eqb_refl. reflexivity. }
  destruct (pair_eqb (pair_of src dst) q') eqn:E.
  - apply pair_eqb_eq in E. subst q'. fold q in Hx.
    pose proof (proj_nodup q es Hnds) as Hnq.
    unfold r in Hlt. rewrite Hpq in Hx, Hev, Hnq, Hlt.
    destruct (c14_not_early_lemma (tg t) (proj q es1) (dir_of src dst) id x p (proj q es2) Hev Hnq Hlt) as [Ho _].
    contradiction.
  - assert (Hq' : proj q' es = proj q' (es1 ++ es2)).
    { unfold es. rewrite !proj_app. cbn [proj flat_map proj_ev]. rewrite E. reflexivity. }
    rewrite Hq' in Hx. revert Hx. apply absent_stays; [cbn; tauto|].
    intros H. apply proj_send_ids in H. unfold es in Hnds.
    rewrite tsend_ids_app in Hnds. change (TSend src dst id x false p :: es2) with ([TSend src dst id x false p] ++ es2) in Hnds.
    rewrite tsend_ids_app in Hnds. cbn [tsend_ids flat_map app] in Hnds.
    apply NoDup_remove_2 in Hnds. apply Hnds. rewrite tsend_ids_app in H. exact H.
Qed.
