(* TV.Link.Topo_proofs — the topology is a map of independent links: an
   operation on one pair leaves every other link untouched (frame), and what a
   pair's link does is exactly the single-link `step`. *)
From TV.Lib Require Import Base.
From TV.Link Require Import Model Facts.
Open Scope N_scope.

Fixpoint get_link (q : N * N) (ls : list (N * N * link)) : option link :=
  match ls with
  | [] => None
  | (p, l) :: r => if pair_eqb q p then Some l else get_link q r
  end.

Lemma pair_eqb_refl p : pair_eqb p p = true.
Proof. unfold pair_eqb. now rewrite !N.eqb_refl. Qed.

Lemma pair_eqb_eq p q : pair_eqb p q = true -> p = q.
Proof.
  unfold pair_eqb. intros H. apply andb_true_iff in H as [A B].
  apply N.eqb_eq in A, B. destruct p, q; cbn in *; congruence.
Qed.

Lemma pair_eqb_sym p q : pair_eqb p q = pair_eqb q p.
Proof. unfold pair_eqb. now rewrite (N.eqb_sym (fst p)), (N.eqb_sym (snd p)). Qed.

Lemma upd_link_other p q f ls :
  pair_eqb p q = false -> get_link q (fst (upd_link p f ls)) = get_link q ls.
Proof.
  intros Hne. induction ls as [|[p' l] r IH]; cbn; [reflexivity|].
  destruct (pair_eqb p p') eqn:E.
  - destruct (f l) as [l' o]. cbn. apply pair_eqb_eq in E. subst p'.
    rewrite pair_eqb_sym, Hne. reflexivity.
  - destruct (upd_link p f r) as [r' o] eqn:Er. cbn in *. rewrite IH. reflexivity.
Qed.

Lemma upd_link_same p f ls l :
  get_link p ls = Some l -> get_link p (fst (upd_link p f ls)) = Some (fst (f l)).
Proof.
  induction ls as [|[p' l'] r IH]; cbn; [discriminate|].
  destruct (pair_eqb p p') eqn:E.
  - intros H; inversion H; subst. destruct (f l) as [l2 o]. cbn. now rewrite E.
  - intros H. destruct (upd_link p f r) as [r' o] eqn:Er. cbn in *. rewrite E. auto.
Qed.

Definition is_global (e : ev) : bool := match e with SetGlobalMax _ => true | _ => false end.

(* Frame: a link-level call or a send on pair p changes no other link. *)
Lemma topo_frame_link t a b e q :
  is_global e = false -> pair_eqb (pair_of a b) q = false ->
  get_link q (tlinks (fst (tstep t (TLink a b e)))) = get_link q (tlinks t).
Proof.
  intros Hg Hne. destruct e; cbn in Hg; try discriminate; cbn [tstep];
    match goal with |- context [upd_link ?p ?f ?ls] =>
      pose proof (upd_link_other p q f ls Hne) as H; destruct (upd_link p f ls); cbn in *; exact H end.
Qed.

Lemma topo_frame_send t src dst id x r p q :
  pair_eqb (pair_of src dst) q = false ->
  get_link q (tlinks (fst (tstep t (TSend src dst id x r p)))) = get_link q (tlinks t).
Proof.
  intros Hne. cbn [tstep]. destruct (has_link _ _); [|reflexivity].
  match goal with |- context [upd_link ?p ?f ?ls] =>
    pose proof (upd_link_other p q f ls Hne) as H; destruct (upd_link p f ls); cbn in *; exact H end.
Qed.

(* Refinement: on its own pair a topology call is the single-link step. *)
Lemma topo_link_is_step t a b e l :
  is_global e = false -> get_link (pair_of a b) (tlinks t) = Some l ->
  get_link (pair_of a b) (tlinks (fst (tstep t (TLink a b e)))) = Some (fin (step (tg t) l e)).
Proof.
  intros Hg Hl. destruct e; cbn in Hg; try discriminate; cbn [tstep];
    match goal with |- context [upd_link ?p ?f ?ls] =>
      pose proof (upd_link_same p f ls l Hl) as H; destruct (upd_link p f ls); unfold fin; cbn in *;
      first [exact H | destruct to_b; exact H | destruct d; exact H] end.
Qed.

Lemma topo_send_is_step t src dst id x r p l :
  get_link (pair_of src dst) (tlinks t) = Some l ->
  get_link (pair_of src dst) (tlinks (fst (tstep t (TSend src dst id x r p))))
  = Some (fin (step (tg t) l (Send (dir_of src dst) id x r p))).
Proof.
  intros Hl. cbn [tstep].
  assert (Hh : has_link (pair_of src dst) (tlinks t) = true).
  { clear -Hl. induction (tlinks t) as [|[p' l'] r0 IH]; cbn in *; [discriminate|].
    destruct (pair_eqb (pair_of src dst) p'); cbn; auto. }
  rewrite Hh.
  match goal with |- context [upd_link ?p ?f ?ls] =>
    pose proof (upd_link_same p f ls l Hl) as H; destruct (upd_link p f ls); unfold fin; cbn in *; exact H end.
Qed.

(* Ticks advance every link by the same single-link Tick. *)
Lemma topo_tick_is_step t dt q l :
  get_link q (tlinks t) = Some l ->
  get_link q (tlinks (fst (tstep t (TTick dt)))) = Some (fin (step (tg t) l (Tick dt))).
Proof.
  cbn [tstep fst tlinks]. induction (tlinks t) as [|[p' l'] r IH]; cbn; [discriminate|].
  destruct (pair_eqb q p'); [intros H; inversion H; reflexivity|exact IH].
Qed.
