(* TV.Link.Topo_fresh — registering pairwise different hosts at time 0 yields a
   fresh topology (unique pair keys, every link in its initial state), so the
   topology-level theorems of C03_topo.v apply to every history that starts
   with the registrations, as the harness and every turmoil test do. *)
From Coq Require Import FinFun.
From TV.Lib Require Import Base.
From TV.Link Require Import Model Facts Topo_proofs Topo_run C03_proofs C03_topo.
Open Scope N_scope.

Definition reg_all (g : lat) (hs : list N) : topo := tstate (tinit g) (map TRegister hs).

Lemma tstate_app t a b : tstate t (a ++ b) = tstate (tstate t a) b.
Proof. revert t. induction a as [|e a IH]; intros t; cbn; auto. Qed.

Lemma pair_of_cases x y :
  (pair_of x y = (x, y)) \/ (pair_of x y = (y, x)).
Proof. unfold pair_of. destruct (x <? y); auto. Qed.

Lemma pair_of_inj_l h x x' : pair_of x h = pair_of x' h -> x = x'.
Proof.
  destruct (pair_of_cases x h) as [A|A], (pair_of_cases x' h) as [B|B];
    rewrite A, B; intros H; inversion H; subst; auto.
Qed.

Lemma nodup_app {A} (l1 l2 : list A) :
  NoDup l1 -> NoDup l2 -> (forall x, In x l1 -> ~ In x l2) -> NoDup (l1 ++ l2).
Proof.
  induction l1 as [|a l1 IH]; cbn; intros H1 H2 Hd; [exact H2|].
  inversion H1 as [|? ? Hn H1']; subst. constructor.
  - rewrite in_app_iff. intros [H|H]; [auto|]. apply (Hd a); auto.
  - apply IH; auto; intros x Hx; apply Hd; now right.
Qed.

(* what holds after registering hs, in order, at time 0 *)
Record Reg (hs : list N) (t : topo) : Prop := {
  rg_hosts : thosts t = hs;
  rg_hnd : NoDup hs;
  rg_now : tnow t = 0;
  rg_keys : forall k, In k (map fst (tlinks t)) -> In (fst k) hs /\ In (snd k) hs;
  rg_nodup : NoDup (map fst (tlinks t));
  rg_init : forall ql, In ql (tlinks t) -> snd ql = init }.

Lemma reg_nil g : Reg [] (tinit g).
Proof. constructor; cbn; auto; try tauto; constructor. Qed.

Lemma reg_step hs t h : Reg hs t -> ~ In h hs -> Reg (hs ++ [h]) (fst (tstep t (TRegister h))).
Proof.
  intros [Hh Hhs Hn Hk Hnd Hi] Hnew. cbn [tstep fst].
  constructor; cbn [thosts tnow tlinks].
  - now rewrite Hh.
  - apply nodup_app; [exact Hhs|repeat constructor; tauto|].
    intros x Hx [<-|[]]. contradiction.
  - exact Hn.
  - intros k Hin. rewrite map_app, in_app_iff in Hin. destruct Hin as [Hin|Hin].
    + destruct (Hk k Hin). rewrite !in_app_iff. tauto.
    + rewrite map_map in Hin. cbn in Hin. apply in_map_iff in Hin as (x & <- & Hx). rewrite Hh in Hx.
      rewrite !in_app_iff. cbn.
      destruct (pair_of_cases x h) as [A|A]; rewrite A; cbn; tauto.
  - rewrite map_app. apply nodup_app; [exact Hnd| |].
    + rewrite map_map. cbn. rewrite Hh.
      apply FinFun.Injective_map_NoDup; [|exact Hhs].
      intros x x' E. eapply pair_of_inj_l; eauto.
    + intros k Hin Hin2. rewrite map_map in Hin2. cbn in Hin2.
      apply in_map_iff in Hin2 as (x & <- & Hx).
      destruct (Hk _ Hin) as [A B].
      destruct (pair_of_cases x h) as [E|E]; rewrite E in A, B; cbn in A, B; contradiction.
  - intros ql Hin. apply in_app_or in Hin as [Hin|Hin]; [auto|].
    apply in_map_iff in Hin as (x & <- & _). cbn. rewrite Hn. reflexivity.
Qed.

Lemma reg_run g hs : NoDup hs -> Reg hs (reg_all g hs).
Proof.
  unfold reg_all. induction hs as [|h hs IH] using rev_ind; intros Hnd; [apply reg_nil|].
  rewrite map_app, tstate_app. cbn [map tstate].
  assert (Hnd' : NoDup hs /\ ~ In h hs).
  { clear IH. apply NoDup_remove in Hnd. rewrite app_nil_r in Hnd. destruct Hnd as [A B].
    split; [exact A|exact B]. }
  destruct Hnd' as [A B]. apply reg_step; auto.
Qed.

Lemma get_link_in_list q ls l : get_link q ls = Some l -> exists p, In (p, l) ls.
Proof.
  induction ls as [|[p l'] r IH]; cbn; [discriminate|].
  destruct (pair_eqb q p); [intros H; inversion H; subst; eauto|].
  intros H. destruct (IH H) as [p' Hp]. eauto.
Qed.

(* Registering pairwise different hosts at time 0 gives a fresh topology. *)
Lemma fresh_after_registration_lemma g hs : NoDup hs -> fresh_topo (reg_all g hs).
Proof.
  intros Hnd. destruct (reg_run g hs Hnd) as [_ _ _ _ Hk Hi].
  split; [exact Hk|]. intros q l Hl.
  destruct (get_link_in_list _ _ _ Hl) as [p Hp]. exact (Hi _ Hp).
Qed.

Lemma reg_all_no_reg_tg g hs : tg (reg_all g hs) = g.
Proof.
  unfold reg_all. assert (H : forall t, tg (tstate t (map TRegister hs)) = tg t).
  { induction hs as [|h hs IH]; intros t; cbn [map tstate]; [reflexivity|]. rewrite IH. reflexivity. }
  rewrite H. reflexivity.
Qed.
