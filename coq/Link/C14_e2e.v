(* TV.Link.C14_e2e — end-to-end lower bound of C14: on the latency alphabet
   (sends, ticks, drains, latency setters; no hold / manual delivery, which
   reschedule) a message stamped T = (link time at the send) + delay is neither
   in a deliverable queue nor handed to its destination while the link clock is
   below T.  Together with c03_flows_again (it is in the destination's sequence
   as soon as the clock has reached T) the hand-over instant is pinned to the
   first tick at or after T. *)
From TV.Lib Require Import Base.
From TV.Link Require Import Model Facts C03_proofs C08_proofs C14_proofs C03_flow.
Open Scope N_scope.

Record stamped (id T : N) (l : link) (o : list N) : Prop := {
  st_sent : forall m, In m (sent l) -> mid m = id -> mstat m = After T;
  st_ready : In id (ready_a l ++ ready_b l) -> T <= lnow l;
  st_out : In id o -> T <= lnow l }.

Lemma stamped_process id T l o : stamped id T l o -> stamped id T (process l) o.
Proof.
  intros [Hs Hr Ho]. constructor.
  - intros m Hm. cbn in Hm. apply filter_In in Hm as [Hm _]. auto.
  - cbn [process ready_a ready_b lnow]. intros Hin.
    assert (Hcase : In id (ready_a l ++ ready_b l) \/
                    exists m, In m (sent l) /\ mid m = id /\ due (lnow l) m = true).
    { rewrite !in_app_iff in Hin. rewrite !in_app_iff.
      destruct Hin as [[H|H]|[H|H]]; auto; right;
        apply in_map_iff in H as (m & Hid & Hm);
        apply filter_In in Hm as [Hm _]; apply filter_In in Hm as [Hm Hd]; eauto. }
    destruct Hcase as [H|(m & Hm & Hid & Hd)]; [auto|].
    unfold due in Hd. rewrite (Hs m Hm Hid) in Hd. apply N.leb_le in Hd. exact Hd.
  - exact Ho.
Qed.

Lemma rand_step_false_frame l p :
  sent (rand_step l false p) = sent l /\ ready_a (rand_step l false p) = ready_a l /\
  ready_b (rand_step l false p) = ready_b l /\ lnow (rand_step l false p) = lnow l.
Proof.
  unfold rand_step. cbn [andb].
  destruct ((is_rand (sab l) || is_rand (sba l)) && p); cbn; auto.
Qed.

Lemma stamped_step g l e o id T :
  c14_event e -> ~ In id (send_ids [e]) -> stamped id T l o ->
  stamped id T (fin (step g l e)) (o ++ outs (step g l e)).
Proof.
  intros Hev Hfresh HS. pose proof HS as [Hs Hr Ho].
  destruct e; cbn [c14_event] in Hev; try contradiction;
    unfold fin, outs; cbn [step fst snd]; rewrite ?app_nil_r.
  - (* Send *) subst do_rand.
    destruct (rand_step_false_frame l do_repair) as (Es & Ea & Eb & En).
    apply stamped_process. constructor.
    + intros m Hm Hid. unfold enqueue in Hm.
      destruct (state_of (rand_step l false do_repair) d); cbn [sent set_sent] in Hm;
        rewrite ?Es in Hm; auto;
        apply in_app_or in Hm as [Hm|[<-|[]]]; auto;
        exfalso; apply Hfresh; cbn in *; auto.
    + unfold enqueue. destruct (state_of (rand_step l false do_repair) d);
        cbn [ready_a ready_b lnow set_sent]; rewrite Ea, Eb, En; exact Hr.
    + unfold enqueue. destruct (state_of (rand_step l false do_repair) d);
        cbn [lnow set_sent]; rewrite En; exact Ho.
  - (* Tick *) apply stamped_process. constructor; cbn [sent ready_a ready_b lnow set_now].
    + exact Hs.
    + intros H. specialize (Hr H). lia.
    + intros H. specialize (Ho H). lia.
  - (* Drain *) destruct to_b; cbn [fst snd]; constructor; cbn [sent ready_a ready_b lnow]; auto.
    + intros H. apply Hr. rewrite app_nil_r in H. apply in_or_app; auto.
    + intros H. apply in_app_or in H as [H|H]; [auto|apply Hr, in_or_app; auto].
    + intros H. apply Hr. apply in_or_app; auto.
    + intros H. apply in_app_or in H as [H|H]; [auto|apply Hr, in_or_app; auto].
  - constructor; cbn; auto.
  - constructor; cbn; auto.
  - constructor; auto.
Qed.

Lemma stamped_run id T es : forall g l o,
  Forall c14_event es -> ~ In id (send_ids es) -> stamped id T l o ->
  stamped id T (fin (run g l es)) (o ++ outs (run g l es)).
Proof.
  induction es as [|e es IH]; intros g l o Hev Hfresh HS.
  - unfold fin, outs; cbn. rewrite app_nil_r. exact HS.
  - inversion Hev as [|? ? He Hes]; subst. cbn [run].
    change (e :: es) with ([e] ++ es) in Hfresh. rewrite send_ids_app, in_app_iff in Hfresh.
    assert (Hf1 : ~ In id (send_ids [e])) by tauto.
    assert (Hf2 : ~ In id (send_ids es)) by tauto.
    pose proof (stamped_step g l e o id T He Hf1 HS) as H1.
    destruct (step g l e) as [[g' l'] oe]. unfold fin, outs in H1; cbn [fst snd] in H1.
    specialize (IH g' l' (o ++ oe) Hes Hf2 H1).
    destruct (run g' l' es) as [[g2 l2] o2]. unfold fin, outs in *; cbn [fst snd] in *.
    rewrite <- app_assoc in IH. exact IH.
Qed.

Lemma run_c14_healthy es : forall g l, Forall c14_event es -> healthy l -> healthy (fin (run g l es)).
Proof.
  induction es as [|e es IH]; intros g l Hev Hh; [exact Hh|].
  inversion Hev as [|? ? He Hes]; subst. cbn [run].
  pose proof (step_healthy g l e He Hh) as H1.
  destruct (step g l e) as [[g' l'] oe]. unfold fin in H1; cbn [fst snd] in H1.
  specialize (IH g' l' Hes H1).
  destruct (run g' l' es) as [[g2 l2] o2]. exact IH.
Qed.

Lemma c14_not_early_lemma g es1 d id x p es2 :
  let s := Send d id x false p in
  Forall c14_event (es1 ++ s :: es2) -> NoDup (send_ids (es1 ++ s :: es2)) ->
  let r1 := run g init es1 in
  let r := run g init (es1 ++ s :: es2) in
  lnow (fin r) < lnow (fin r1) + delay (gfin r1) (fin r1) x ->
  ~ In id (outs r) /\ ~ In id (ready_a (fin r) ++ ready_b (fin r)).
Proof.
  intros s Hev Hnd r1 r Hlt.
  apply Forall_app in Hev as [Hev1 Hev]. inversion Hev as [|? ? Hs Hev2]; subst.
  rewrite send_ids_app in Hnd. change (s :: es2) with ([s] ++ es2) in Hnd.
  rewrite send_ids_app in Hnd. cbn [send_ids flat_map app s] in Hnd.
  apply NoDup_remove_2 in Hnd. rewrite in_app_iff in Hnd.
  assert (Hf1 : ~ In id (send_ids es1)) by tauto.
  assert (Hf2 : ~ In id (send_ids es2)) by tauto.
  pose proof (fresh_absent es1 g id Hf1) as Hab.
  pose proof (absent_stays es1 g init id) as Hout1.
  assert (Ho1 : ~ In id (outs r1)) by (apply Hout1; [cbn; tauto|exact Hf1]).
  pose proof (run_c14_healthy es1 g init Hev1 (healthy_init 0)) as Hh1.
  unfold r in *. rewrite run_app in *. fold r1 in Hab, Hh1, Hlt |- *.
  destruct r1 as [[g1 l1] o1]. unfold fin, gfin, outs in *; cbn [fst snd] in *.
  cbn [run] in *.
  set (T := lnow l1 + delay g1 l1 x) in *.
  assert (HS : stamped id T (fin (step g1 l1 s)) (o1 ++ outs (step g1 l1 s))).
  { unfold fin, outs, s; cbn [step fst snd]. rewrite app_nil_r.
    rewrite (rand_step_good l1 p (healthy_good l1 Hh1)).
    apply stamped_process. unfold enqueue. destruct Hh1 as [A B].
    assert (Hst : state_of l1 d = Healthy) by (destruct d; assumption). rewrite Hst.
    constructor; cbn [sent ready_a ready_b lnow set_sent].
    - intros m Hm Hid. apply in_app_or in Hm as [Hm|[<-|[]]]; [|reflexivity].
      exfalso. apply Hab. unfold ids_of. apply in_or_app. left. apply in_map_iff. eauto.
    - intros H. exfalso. apply Hab. unfold ids_of. apply in_or_app. right. exact H.
    - intros H. contradiction. }
  destruct (step g1 l1 s) as [[g1' l1'] oe]. unfold fin, outs in HS; cbn [fst snd] in HS.
  pose proof (stamped_run id T es2 g1' l1' (o1 ++ oe) Hev2 Hf2 HS) as [_ Hr Ho].
  destruct (run g1' l1' es2) as [[g2 l2] o2]. unfold fin, outs in *; cbn [fst snd] in *.
  rewrite <- app_assoc in Ho.
  split; intros H; [specialize (Ho H)|specialize (Hr H)]; lia.
Qed.

(* ---- upper bound on the latency alphabet: a corollary of the C03 flow lemma ---- *)

Lemma c14_is_c03 e : c14_event e -> c03_alphabet e /\ no_rand e /\ forall d, partitions e d = false.
Proof. destruct e; cbn; intros H; try contradiction; auto. Qed.

Lemma c14_explicit_false es : Forall c14_event es -> forall d, explicit es d = false.
Proof.
  induction es as [|e es IH] using rev_ind; intros Hev d; [reflexivity|].
  apply Forall_app in Hev as [H1 H2]. inversion H2 as [|? ? He _]; subst.
  rewrite explicit_snoc. specialize (IH H1).
  destruct e; cbn [c14_event] in He; try contradiction; cbn [upd]; auto.
Qed.

Lemma c14_on_time_lemma d g es1 id x p es2 :
  let s := Send d id x false p in
  Forall c14_event (es1 ++ s :: es2) ->
  let r1 := run_d d g init es1 in
  let r := run_d d g init (es1 ++ s :: es2) in
  lnow (fin r1) + delay (gfin r1) (fin r1) x <= lnow (fin r) ->
  In id (seq_d d (outs r) (fin r)).
Proof.
  intros s Hev r1 r Hle.
  assert (H3 : Forall (fun e => c03_alphabet e /\ no_rand e /\ forall d, partitions e d = false) (es1 ++ s :: es2))
    by (eapply Forall_impl; [|exact Hev]; intros e; apply c14_is_c03).
  apply c03_flows_again_lemma; auto.
  - eapply Forall_impl; [|exact H3]; cbn; tauto.
  - eapply Forall_impl; [|exact H3]; cbn; tauto.
  - apply c14_explicit_false. apply Forall_app in Hev as [H _]. exact H.
  - apply Forall_app in H3 as [_ H]. inversion H as [|? ? _ H2]; subst.
    eapply Forall_impl; [|exact H2]. cbn. intros e (_ & _ & Hp). apply Hp.
Qed.

(* ---- calls that are no-ops on a healthy link can be erased from a history ---- *)

Definition is_noop (e : ev) : bool :=
  match e with Release | Repair | RepairOne _ => true | _ => false end.
Definition c14_event_ext (e : ev) : Prop := c14_event e \/ is_noop e = true.
Definition erase (es : list ev) : list ev := filter (fun e => negb (is_noop e)) es.
Definition all_after (l : link) : Prop := forall m, In m (sent l) -> exists t, mstat m = After t.

Lemma release_msgs_all_after now ms0 :
  (forall m, In m ms0 -> exists t, mstat m = After t) -> release_msgs now ms0 = ms0.
Proof.
  induction ms0 as [|m r IH]; intros H; [reflexivity|]. cbn.
  destruct (H m (or_introl eq_refl)) as [t Ht]. rewrite Ht.
  f_equal. apply IH. intros m' Hm'. apply H. now right.
Qed.

Lemma noop_step g l e :
  is_noop e = true -> healthy l -> all_after l -> step g l e = (g, l, []).
Proof.
  intros Hn [A B] Ha. destruct e; cbn in Hn; try discriminate; cbn [step].
  - unfold release. rewrite (release_msgs_all_after (lnow l) (sent l) Ha).
    destruct l; cbn in *; subst; reflexivity.
  - destruct l; cbn in *; subst; reflexivity.
  - destruct d, l; cbn in *; subst; reflexivity.
Qed.

Lemma c14_step_all_after g l e :
  c14_event e -> healthy l -> all_after l -> all_after (fin (step g l e)).
Proof.
  intros Hev Hh Ha. destruct e; cbn [c14_event] in Hev; try contradiction;
    unfold fin; cbn [step fst snd].
  - subst do_rand. rewrite (rand_step_good l do_repair (healthy_good l Hh)).
    intros m Hm. cbn in Hm. apply filter_In in Hm as [Hm _].
    unfold enqueue in Hm. destruct Hh as [A B].
    assert (Hst : state_of l d = Healthy) by (destruct d; assumption). rewrite Hst in Hm.
    cbn in Hm. apply in_app_or in Hm as [Hm|[<-|[]]]; [auto|cbn; eauto].
  - intros m Hm. cbn in Hm. apply filter_In in Hm as [Hm _]. auto.
  - destruct to_b; exact Ha.
  - exact Ha.
  - exact Ha.
  - exact Ha.
Qed.

Lemma c14_noop_erasure_lemma es : forall g l,
  Forall c14_event_ext es -> healthy l -> all_after l -> run g l es = run g l (erase es).
Proof.
  induction es as [|e es IH]; intros g l Hev Hh Ha; [reflexivity|].
  inversion Hev as [|? ? He Hes]; subst. cbn [erase filter]. fold (erase es).
  destruct (is_noop e) eqn:En; cbn [negb].
  - cbn [run]. rewrite (noop_step g l e En Hh Ha). rewrite (IH g l Hes Hh Ha).
    destruct (run g l (erase es)) as [[g2 l2] o2]. reflexivity.
  - destruct He as [He|He]; [|congruence]. cbn [run].
    pose proof (step_healthy g l e He Hh) as H1.
    pose proof (c14_step_all_after g l e He Hh Ha) as H2.
    destruct (step g l e) as [[g' l'] o]. unfold fin in H1, H2; cbn [fst snd] in H1, H2.
    rewrite (IH g' l' Hes H1 H2). reflexivity.
Qed.

Lemma all_after_init t : all_after (init_at t).
Proof. intros m []. Qed.

Lemma erase_c14 es : Forall c14_event_ext es -> Forall c14_event (erase es).
Proof.
  induction 1 as [|e es He _ IH]; cbn; [constructor|].
  destruct (is_noop e) eqn:En; cbn; [exact IH|].
  constructor; [destruct He as [He|He]; [exact He|congruence]|exact IH].
Qed.
