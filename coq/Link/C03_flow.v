(* TV.Link.C03_flow — the "keeps flowing" half of C03: with fail_rate 0, a
   message sent on a direction that is not explicitly partitioned, and not
   partitioned while in flight, reaches its destination's delivery sequence once
   its latency has elapsed. *)
From TV.Lib Require Import Base.
From TV.Link Require Import Model Facts C03_proofs C08_proofs C14_proofs.
Open Scope N_scope.

Definition no_rand (e : ev) : Prop := match e with Send _ _ _ r _ => r = false | _ => True end.

(* with fail_rate 0 a direction is Explicit exactly when the API says so, and Healthy otherwise *)
Record Clean (h : list ev) (l : link) : Prop := {
  cl_state : forall d, state_of l d = if explicit h d then Explicit else Healthy;
  cl_after : forall m, In m (sent l) -> exists t, mstat m = After t /\ lnow l < t }.

Lemma clean_init t : Clean [] (init_at t).
Proof. constructor; [intros []; reflexivity|intros m []]. Qed.

Lemma rand_step_clean h l p : Clean h l -> rand_step l false p = l.
Proof.
  intros [Hs _]. unfold rand_step. cbn [andb].
  pose proof (Hs AB) as A. pose proof (Hs BA) as B. cbn in A, B.
  destruct (explicit h AB), (explicit h BA); rewrite A, B; reflexivity.
Qed.

Lemma process_after l :
  (forall m, In m (sent l) -> exists t, mstat m = After t) ->
  forall m, In m (sent (process l)) -> exists t, mstat m = After t /\ lnow (process l) < t.
Proof.
  intros Ha m Hin. cbn in Hin. apply filter_In in Hin as [Hin Hd].
  destruct (Ha m Hin) as [t Ht]. exists t. split; [exact Ht|].
  unfold due in Hd. rewrite Ht in Hd. apply negb_true_iff, N.leb_gt in Hd. exact Hd.
Qed.

Lemma step_clean g h l e :
  c03_alphabet e -> no_rand e -> Clean h l -> Clean (h ++ [e]) (fin (step g l e)).
Proof.
  intros Hal Hnr HC. pose proof HC as [Hs Ha].
  assert (Ha' : forall m, In m (sent l) -> exists t, mstat m = After t)
    by (intros m Hm; destruct (Ha m Hm) as (t & Ht & _); eauto).
  destruct e; cbn [c03_alphabet] in Hal; try contradiction; cbn [no_rand] in Hnr;
    unfold fin; cbn [step fst snd].
  - subst do_rand. rewrite (rand_step_clean h l do_repair HC).
    assert (He : explicit (h ++ [Send d id x_ms false do_repair]) = explicit h)
      by (rewrite explicit_snoc; reflexivity).
    constructor.
    + intros d0. rewrite He. rewrite <- (Hs d0). unfold enqueue.
      destruct (state_of l d); destruct d0; reflexivity.
    + apply process_after. unfold enqueue. destruct (state_of l d) eqn:Hst; cbn [sent set_sent]; auto.
      * intros m Hm. apply in_app_or in Hm as [Hm|[<-|[]]]; [auto|cbn; eauto].
      * exfalso. pose proof (Hs d) as Hd. destruct (explicit h d); congruence.
  - constructor.
    + intros d0. rewrite explicit_snoc. cbn [upd]. rewrite <- (Hs d0). destruct d0; reflexivity.
    + apply process_after. exact Ha'.
  - constructor.
    + intros d0. rewrite explicit_snoc. cbn [upd]. rewrite <- (Hs d0). destruct to_b, d0; reflexivity.
    + destruct to_b; exact Ha.
  - constructor; [|intros m []].
    intros d0. rewrite explicit_snoc. destruct d0; reflexivity.
  - destruct (ready_set_state l d Explicit) as (_ & _ & E).
    constructor.
    + intros d0. rewrite explicit_snoc. cbn [upd]. pose proof (Hs d0) as H0.
      destruct d0, d; cbn in *; auto.
    + cbn [sent set_sent]. intros m Hm. apply filter_In in Hm as [Hm _].
      destruct d; cbn; auto.
  - constructor; [|exact Ha].
    intros d0. rewrite explicit_snoc. destruct d0; reflexivity.
  - destruct (ready_set_state l d Healthy) as (_ & _ & E).
    constructor.
    + intros d0. rewrite explicit_snoc. cbn [upd]. pose proof (Hs d0) as H0.
      destruct d0, d; cbn in *; auto.
    + rewrite E. destruct d; cbn; auto.
  - constructor; [|exact Ha]. intros d0. rewrite explicit_snoc. cbn [upd]. rewrite <- (Hs d0). destruct d0; reflexivity.
  - constructor; [|exact Ha]. intros d0. rewrite explicit_snoc. cbn [upd]. rewrite <- (Hs d0). destruct d0; reflexivity.
  - constructor; [|exact Ha]. intros d0. rewrite explicit_snoc. cbn [upd]. exact (Hs d0).
Qed.

(* a message of direction d survives every step that does not partition d *)
Lemma alive_step_c03 d m g h l e o :
  mdir m = d -> c03_alphabet e -> no_rand e -> partitions e d = false -> Clean h l ->
  alive d m o l ->
  alive d m (o ++ out_d d e (outs (step g l e))) (fin (step g l e)).
Proof.
  intros D Hal Hnr Hp HC Ha.
  destruct e; cbn [c03_alphabet] in Hal; try contradiction; cbn [no_rand] in Hnr; cbn in Hp;
    unfold fin, outs; cbn [step fst snd out_d]; rewrite ?app_nil_r.
  - subst do_rand. rewrite (rand_step_clean h l do_repair HC).
    apply process_alive; [exact D|]. unfold enqueue.
    destruct Ha as [Ha|Ha]; [left|right; unfold seq_d in *; destruct (state_of l d0); destruct d; exact Ha].
    destruct (state_of l d0); cbn; auto; apply in_or_app; auto.
  - apply process_alive; [exact D|]. destruct Ha as [Ha|Ha]; [left; exact Ha|right].
    unfold seq_d in *. destruct d; exact Ha.
  - destruct Ha as [Ha|Ha]; [left; destruct to_b; exact Ha|right].
    unfold seq_d in *. destruct to_b, d; cbn; rewrite ?app_nil_r, <- ?app_assoc; cbn; rewrite ?app_nil_r; exact Ha.
  - discriminate.
  - destruct (ready_set_state l d0 Explicit) as (Ea & Eb & _).
    destruct Ha as [Ha|Ha]; [left|right].
    + cbn [sent set_sent]. apply filter_In. split; [exact Ha|].
      rewrite D. destruct d, d0; cbn in *; congruence.
    + unfold seq_d in *. destruct d; cbn [dest_ready ready_a ready_b set_sent]; rewrite ?Ea, ?Eb; exact Ha.
  - destruct Ha as [Ha|Ha]; [left; exact Ha|right; unfold seq_d in *; destruct d; exact Ha].
  - destruct (ready_set_state l d0 Healthy) as (Ea & Eb & Es).
    destruct Ha as [Ha|Ha]; [left; rewrite Es; exact Ha|right].
    unfold seq_d in *. destruct d; cbn [dest_ready]; rewrite ?Ea, ?Eb; exact Ha.
  - destruct Ha as [Ha|Ha]; [left; exact Ha|right; unfold seq_d in *; destruct d; exact Ha].
  - destruct Ha as [Ha|Ha]; [left; exact Ha|right; unfold seq_d in *; destruct d; exact Ha].
  - destruct Ha as [Ha|Ha]; [left; exact Ha|right; unfold seq_d in *; destruct d; exact Ha].
Qed.

Lemma alive_run_c03 m es : forall g h l o,
  Forall c03_alphabet es -> Forall no_rand es ->
  Forall (fun e => partitions e (mdir m) = false) es -> Clean h l -> alive (mdir m) m o l ->
  alive (mdir m) m (o ++ outs (run_d (mdir m) g l es)) (fin (run_d (mdir m) g l es)) /\
  Clean (h ++ es) (fin (run_d (mdir m) g l es)).
Proof.
  induction es as [|e es IH]; intros g h l o Hal Hnr Hp HC Ha.
  - unfold outs, fin; cbn. rewrite !app_nil_r. auto.
  - inversion Hal as [|? ? Hal1 Hal2]; inversion Hnr as [|? ? Hnr1 Hnr2]; inversion Hp as [|? ? Hp1 Hp2]; subst.
    cbn [run_d].
    pose proof (alive_step_c03 (mdir m) m g h l e o eq_refl Hal1 Hnr1 Hp1 HC Ha) as H1.
    pose proof (step_clean g h l e Hal1 Hnr1 HC) as H2.
    destruct (step g l e) as [[g' l'] oe]. unfold fin, outs in H1, H2; cbn [fst snd] in H1, H2.
    destruct (IH g' (h ++ [e]) l' (o ++ out_d (mdir m) e oe) Hal2 Hnr2 Hp2 H2 H1) as [I1 I2].
    destruct (run_d (mdir m) g' l' es) as [[g2 l2] o2]. unfold outs, fin in *; cbn [fst snd] in *.
    rewrite <- app_assoc in I1, I2. cbn [app] in I2. split; assumption.
Qed.

Lemma run_d_clean d es : forall g h l,
  Forall c03_alphabet es -> Forall no_rand es -> Clean h l -> Clean (h ++ es) (fin (run_d d g l es)).
Proof.
  induction es as [|e es IH]; intros g h l Hal Hnr HC.
  - rewrite app_nil_r. exact HC.
  - inversion Hal as [|? ? Hal1 Hal2]; inversion Hnr as [|? ? Hnr1 Hnr2]; subst. cbn [run_d].
    pose proof (step_clean g h l e Hal1 Hnr1 HC) as H2.
    destruct (step g l e) as [[g' l'] oe]. unfold fin in H2; cbn [fst snd] in H2.
    specialize (IH g' (h ++ [e]) l' Hal2 Hnr2 H2).
    destruct (run_d d g' l' es) as [[g2 l2] o2]. unfold fin in *; cbn [fst snd] in *.
    rewrite <- app_assoc in IH. exact IH.
Qed.

Lemma c03_flows_again_lemma d g es1 id x p es2 :
  let s := Send d id x false p in
  Forall c03_alphabet (es1 ++ s :: es2) -> Forall no_rand (es1 ++ s :: es2) ->
  explicit es1 d = false ->
  Forall (fun e => partitions e d = false) es2 ->
  let r1 := run_d d g init es1 in
  let r := run_d d g init (es1 ++ s :: es2) in
  lnow (fin r1) + delay (gfin r1) (fin r1) x <= lnow (fin r) ->
  In id (seq_d d (outs r) (fin r)).
Proof.
  intros s Hal Hnr Hex Hp r1 r Hle.
  apply Forall_app in Hal as [Hal1 Hal]. inversion Hal as [|? ? Hs Hal2]; subst.
  apply Forall_app in Hnr as [Hnr1 Hnr]. inversion Hnr as [|? ? Hs' Hnr2]; subst.
  pose proof (run_d_clean d es1 g [] init Hal1 Hnr1 (clean_init 0)) as HC1. cbn [app] in HC1. fold r1 in HC1.
  unfold r in *. rewrite run_d_app in *. fold r1 in Hle |- *.
  destruct r1 as [[g1 l1] o1]. unfold fin, gfin, outs in *; cbn [fst snd] in *.
  cbn [run_d] in *.
  set (T := lnow l1 + delay g1 l1 x) in *.
  set (m := {| mid := id; mdir := d; mstat := After T |}).
  assert (Hst : state_of l1 d = Healthy) by (rewrite (cl_state _ _ HC1 d), Hex; reflexivity).
  assert (Ha1 : alive d m o1 (fin (step g1 l1 s))).
  { unfold fin, s; cbn [step fst snd]. rewrite (rand_step_clean es1 l1 p HC1).
    apply process_alive; [reflexivity|]. left. unfold enqueue. rewrite Hst. cbn.
    apply in_or_app. right. now left. }
  pose proof (step_clean g1 es1 l1 s Hs Hs' HC1) as HC2.
  assert (Hos : out_d d s (outs (step g1 l1 s)) = []) by reflexivity.
  destruct (step g1 l1 s) as [[g1' l1'] oe]. unfold fin, outs in *; cbn [fst snd] in *.
  rewrite Hos in *. cbn [app] in *.
  destruct (alive_run_c03 m es2 g1' (es1 ++ [s]) l1' o1 Hal2 Hnr2 Hp HC2 Ha1) as [Ha2 HC3].
  change (mdir m) with d in Ha2, HC3.
  destruct (run_d d g1' l1' es2) as [[g2 l2] o2]. unfold fin, outs in *; cbn [fst snd] in *.
  destruct Ha2 as [Hin|Hin]; [|exact Hin].
  exfalso. destruct (cl_after _ _ HC3 m Hin) as (t & Ht & Hlt). cbn in Ht. inversion Ht; subst t.
  unfold T in Hlt. lia.
Qed.
