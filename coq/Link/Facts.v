(* TV.Link.Facts — structural lemmas about the Link model shared by C03/C08/C14. *)
From TV.Lib Require Import Base.
From TV.Link Require Import Model.
Open Scope N_scope.

Definition ids_of (l : link) : list N := map mid (sent l) ++ ready_a l ++ ready_b l.

Definition send_ids (es : list ev) : list N :=
  flat_map (fun e => match e with Send _ id _ _ _ => [id] | _ => [] end) es.

Definition outs (r : lat * link * list N) : list N := snd r.
Definition fin (r : lat * link * list N) : link := snd (fst r).
Definition gfin (r : lat * link * list N) : lat := fst (fst r).

Lemma dir_eqb_eq a b : dir_eqb a b = true <-> a = b.
Proof. destruct a, b; cbn; split; congruence. Qed.

Lemma dir_eqb_refl a : dir_eqb a a = true.
Proof. destruct a; reflexivity. Qed.

Lemma send_ids_app a b : send_ids (a ++ b) = send_ids a ++ send_ids b.
Proof. unfold send_ids. now rewrite flat_map_app. Qed.

Lemma run_app g l es1 es2 :
  run g l (es1 ++ es2) =
  let '(g1, l1, o1) := run g l es1 in
  let '(g2, l2, o2) := run g1 l1 es2 in (g2, l2, o1 ++ o2).
Proof.
  revert g l. induction es1 as [|e es1 IH]; intros g l; cbn [run app].
  - destruct (run g l es2) as [[g2 l2] o2]. reflexivity.
  - destruct (step g l e) as [[g' l'] o] eqn:Hs.
    rewrite IH. destruct (run g' l' es1) as [[g1 l1] o1].
    destruct (run g1 l1 es2) as [[g2 l2] o2]. now rewrite app_assoc.
Qed.

(* ---- membership: nothing appears from nowhere ---- *)

Lemma in_release_msgs now l x : In x (map mid (release_msgs now l)) <-> In x (map mid l).
Proof.
  unfold release_msgs. rewrite map_map.
  assert (E : map (fun m => mid match mstat m with OnHold => restamp m (After now) | After _ => m end) l
              = map mid l).
  { apply map_ext. intros m. destruct (mstat m); reflexivity. }
  now rewrite E.
Qed.

Lemma map_mid_restamp (f : msg -> status) l :
  map mid (map (fun m => restamp m (f m)) l) = map mid l.
Proof. rewrite map_map. apply map_ext. reflexivity. Qed.

Lemma map_mid_deliver_nth now k l : map mid (deliver_nth now k l) = map mid l.
Proof.
  revert k. induction l as [|m r IH]; intros k; [destruct k; reflexivity|].
  destruct k; cbn; [reflexivity|]. now rewrite IH.
Qed.

Lemma process_ids x l : In x (ids_of (process l)) <-> In x (ids_of l).
Proof.
  unfold ids_of, process; cbn. rewrite !in_app_iff, !in_map_iff.
  split.
  - intros [(m & <- & Hm)|[[H|(m & <- & Hm)]|[H|(m & <- & Hm)]]]; auto.
    + apply filter_In in Hm as [Hm _]. left; eauto.
    + apply filter_In in Hm as [Hm _]. apply filter_In in Hm as [Hm _]. left; eauto.
    + apply filter_In in Hm as [Hm _]. apply filter_In in Hm as [Hm _]. left; eauto.
  - intros [(m & <- & Hm)|[H|H]]; auto.
    destruct (due (lnow l) m) eqn:Hd.
    + destruct (mdir m) eqn:Hdir.
      * right; right; right. exists m; split; auto.
        apply filter_In; split; [apply filter_In; auto|now rewrite Hdir].
      * right; left; right. exists m; split; auto.
        apply filter_In; split; [apply filter_In; auto|now rewrite Hdir].
    + left. exists m; split; auto. apply filter_In; split; auto. now rewrite Hd.
Qed.

Lemma rand_step_ids x l r p : In x (ids_of (rand_step l r p)) -> In x (ids_of l).
Proof.
  unfold rand_step, ids_of.
  destruct (r && (is_healthy (sab l) || is_healthy (sba l))); cbn.
  - rewrite !in_app_iff, !in_map_iff. intros [(m & <- & Hm)|H]; auto.
    apply filter_In in Hm as [Hm _]. left; eauto.
  - destruct ((is_rand (sab l) || is_rand (sba l)) && p); cbn; auto.
Qed.

Lemma enqueue_ids x g l d id xm :
  In x (ids_of (enqueue g l d id xm)) -> In x (ids_of l) \/ x = id.
Proof.
  unfold enqueue, ids_of. destruct (state_of l d); cbn; auto;
    rewrite !map_app, !in_app_iff; cbn; intuition.
Qed.

Lemma ids_set_states l a b : ids_of (set_states l a b) = ids_of l.
Proof. reflexivity. Qed.
Lemma ids_set_state l d s : ids_of (set_state l d s) = ids_of l.
Proof. destruct d; reflexivity. Qed.
Lemma ids_set_lat l c : ids_of (set_lat l c) = ids_of l.
Proof. reflexivity. Qed.
Lemma ids_set_now l t : ids_of (set_now l t) = ids_of l.
Proof. reflexivity. Qed.
Lemma ids_set_sent l s : ids_of (set_sent l s) = map mid s ++ ready_a l ++ ready_b l.
Proof. reflexivity. Qed.
Lemma ready_set_state l d s :
  ready_a (set_state l d s) = ready_a l /\ ready_b (set_state l d s) = ready_b l
  /\ sent (set_state l d s) = sent l.
Proof. destruct d; auto. Qed.

Lemma step_ids g l e x :
  In x (ids_of (fin (step g l e)) ++ outs (step g l e)) ->
  In x (ids_of l) \/ In x (send_ids [e]).
Proof.
  unfold fin, outs. destruct e; cbn [step fst snd send_ids flat_map app]; rewrite ?app_nil_r.
  - (* Send *) intros H. apply (proj1 (process_ids _ _)) in H.
    apply enqueue_ids in H as [H| ->]; [left; eapply rand_step_ids; eauto|right; now left].
  - intros H. apply (proj1 (process_ids _ _)) in H. left. exact H.
  - destruct to_b; cbn [fst snd]; unfold ids_of; cbn [sent ready_a ready_b];
      rewrite ?in_app_iff; cbn [In]; tauto.
  - rewrite ids_set_sent. cbn [ready_a ready_b set_states]. rewrite map_mid_restamp. auto.
  - unfold release. rewrite ids_set_sent. cbn [ready_a ready_b set_states].
    unfold ids_of. rewrite !in_app_iff, in_release_msgs. auto.
  - rewrite ids_set_sent. cbn [ready_a ready_b set_states map]. unfold ids_of.
    rewrite !in_app_iff. cbn [In]. tauto.
  - rewrite ids_set_sent. destruct (ready_set_state l d Explicit) as (-> & -> & _).
    unfold ids_of. rewrite !in_app_iff, !in_map_iff.
    intros [(m & <- & Hm)|H]; [apply filter_In in Hm as [Hm _]; left; left; eauto|auto].
  - auto.
  - rewrite ids_set_state. auto.
  - rewrite ids_set_sent, map_mid_deliver_nth. auto.
  - rewrite ids_set_sent, map_mid_restamp. auto.
  - auto.
  - auto.
  - auto.
Qed.

(* Every id in the link or in the outputs was in the link before or is the id of a Send. *)
Lemma run_ids es : forall g l x,
  In x (ids_of (fin (run g l es)) ++ outs (run g l es)) ->
  In x (ids_of l) \/ In x (send_ids es).
Proof.
  induction es as [|e es IH]; intros g l x; cbn [run].
  - unfold fin, outs; cbn. rewrite app_nil_r. auto.
  - destruct (step g l e) as [[g' l'] o] eqn:Hs.
    specialize (IH g' l' x).
    destruct (run g' l' es) as [[g'' l''] os] eqn:Hr.
    unfold fin, outs in *; cbn [fst snd] in *.
    rewrite in_app_iff, in_app_iff. intros [H|[H|H]].
    + destruct IH as [IH|IH]; [apply in_or_app; auto| |].
      * pose proof (step_ids g l e x) as S. rewrite Hs in S. unfold fin, outs in S; cbn in S.
        destruct S as [S|S]; [apply in_or_app; auto|auto|].
        right. change (e :: es) with ([e] ++ es). rewrite send_ids_app. apply in_or_app; auto.
      * right. change (e :: es) with ([e] ++ es). rewrite send_ids_app. apply in_or_app; auto.
    + pose proof (step_ids g l e x) as S. rewrite Hs in S. unfold fin, outs in S; cbn in S.
      destruct S as [S|S]; [apply in_or_app; auto|auto|].
      right. change (e :: es) with ([e] ++ es). rewrite send_ids_app. apply in_or_app; auto.
    + destruct IH as [IH|IH]; [apply in_or_app; auto| |].
      * pose proof (step_ids g l e x) as S. rewrite Hs in S. unfold fin, outs in S; cbn in S.
        destruct S as [S|S]; [apply in_or_app; auto|auto|].
        right. change (e :: es) with ([e] ++ es). rewrite send_ids_app. apply in_or_app; auto.
      * right. change (e :: es) with ([e] ++ es). rewrite send_ids_app. apply in_or_app; auto.
Qed.

Corollary absent_stays es g l x :
  ~ In x (ids_of l) -> ~ In x (send_ids es) -> ~ In x (outs (run g l es)).
Proof.
  intros H1 H2 H3. destruct (run_ids es g l x); auto. apply in_or_app; auto.
Qed.

Corollary fresh_absent es g x :
  ~ In x (send_ids es) -> ~ In x (ids_of (fin (run g init es))).
Proof.
  intros H2 H3. destruct (run_ids es g init x) as [H|H]; auto. apply in_or_app; auto.
Qed.
