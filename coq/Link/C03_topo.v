(* TV.Link.C03_topo — the single-link theorems lifted to the whole topology
   through the projection of Topo_run.v: what any host receives along any
   topology history came out of some pair's projected single-link history. *)
From TV.Lib Require Import Base.
From TV.Link Require Import Model Facts Topo_proofs Topo_run C03_proofs.
Open Scope N_scope.

(* ids put on the network by a topology history *)
Definition tsend_ids (es : list tev) : list N :=
  flat_map (fun e => match e with
                     | TSend _ _ id _ _ _ => [id]
                     | TLink _ _ (Send _ id _ _ _) => [id]
                     | _ => []
                     end) es.

Lemma tsend_ids_app a b : tsend_ids (a ++ b) = tsend_ids a ++ tsend_ids b.
Proof. unfold tsend_ids. apply flat_map_app. Qed.

Lemma proj_app q a b : proj q (a ++ b) = proj q a ++ proj q b.
Proof. unfold proj. apply flat_map_app. Qed.

Lemma proj_ev_send_ids q e x :
  In x (send_ids (proj_ev q e)) -> In x (tsend_ids [e]).
Proof.
  destruct e as [h|src dst id y r p|dt|h| |a b e']; cbn [proj_ev].
  - intros [].
  - destruct (pair_eqb _ _); cbn; auto.
  - intros [].
  - destruct (fst q =? h); [intros []|destruct (snd q =? h); intros []].
  - intros [].
  - destruct e'; cbn [proj_ev]; try (destruct (pair_eqb _ _); cbn; auto; fail); cbn; auto.
Qed.

Lemma proj_send_ids q es x : In x (send_ids (proj q es)) -> In x (tsend_ids es).
Proof.
  induction es as [|e es IH]; [intros []|].
  cbn [proj flat_map]. fold (proj q es). rewrite send_ids_app, in_app_iff.
  change (e :: es) with ([e] ++ es). rewrite tsend_ids_app, in_app_iff.
  intros [H|H]; [left; eapply proj_ev_send_ids; eauto|right; auto].
Qed.

(* a topology whose links are all in their initial state (hosts registered at time 0) *)
Definition fresh_topo (t : topo) : Prop :=
  NoDup (map fst (tlinks t)) /\ forall q l, get_link q (tlinks t) = Some l -> l = init.

Lemma c03_topology_never_delivered_lemma t es1 src dst id x r p es2 :
  let q := pair_of src dst in
  let d := dir_of src dst in
  fresh_topo t -> Forall no_reg (es1 ++ TSend src dst id x r p :: es2) ->
  Forall c03_alphabet (proj q es1) -> explicit (proj q es1) d = true ->
  ~ In id (tsend_ids es1) -> ~ In id (tsend_ids es2) ->
  ~ In id (touts t (es1 ++ TSend src dst id x r p :: es2)).
Proof.
  intros q d [Hnd Hinit] Hnr Hal Hex Hf1 Hf2 Hin.
  destruct (touts_in_link_lemma _ t id Hnd Hnr Hin) as (q' & l & Hl & Hx).
  rewrite (Hinit q' l Hl) in Hx. clear l Hl.
  rewrite proj_app in Hx. cbn [proj flat_map proj_ev] in Hx. fold (proj q' es2) in Hx.
  destruct (pair_eqb (pair_of src dst) q') eqn:E.
  - apply pair_eqb_eq in E. subst q'. cbn [app] in Hx. fold q d in Hx.
    revert Hx. apply c03_never_delivered_lemma; auto.
    + intros H. apply Hf1. eapply proj_send_ids; eauto.
    + intros H. apply Hf2. eapply proj_send_ids; eauto.
  - cbn [app] in Hx. rewrite <- proj_app in Hx.
    revert Hx. apply absent_stays; [cbn; tauto|].
    intros H. apply proj_send_ids in H. rewrite tsend_ids_app, in_app_iff in H. tauto.
Qed.

(* at most once, topology-wide: with unique ids no host is ever handed an id that was not sent *)
Lemma touts_only_sent_lemma t es x :
  fresh_topo t -> Forall no_reg es -> In x (touts t es) -> In x (tsend_ids es).
Proof.
  intros [Hnd Hinit] Hnr Hin.
  destruct (touts_in_link_lemma _ t x Hnd Hnr Hin) as (q & l & Hl & Hx).
  rewrite (Hinit q l Hl) in Hx.
  destruct (run_ids (proj q es) (tg t) init x) as [H|H]; [apply in_or_app; auto|destruct H|].
  eapply proj_send_ids; eauto.
Qed.
