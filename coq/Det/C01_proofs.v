(* TV.Det.C01_proofs — order lemmas and the discharge table for the inventory
   of order-/time-/entropy-sensitive sites (Sites.v is regenerated from the
   Rust sources on every run). *)
From TV.Lib Require Import Base.
From Coq Require Import String Permutation.
From TV.Det Require Import Sites Order.
Open Scope N_scope.

(* ---- insertion-ordered collection ---- *)

Lemma mem_In x l : mem x l = true <-> In x l.
Proof.
  unfold mem. rewrite existsb_exists. split.
  - intros (y & Hy & E). apply N.eqb_eq in E. now subst.
  - intros H. exists x. split; [exact H|apply N.eqb_refl].
Qed.

Lemma index_insert_spec acc x y : In y (index_insert acc x) <-> In y acc \/ y = x.
Proof.
  unfold index_insert. destruct (mem x acc) eqn:E.
  - apply mem_In in E. split; [auto|intros [H| ->]; auto].
  - rewrite in_app_iff. cbn. intuition.
Qed.

Lemma index_insert_nodup acc x : NoDup acc -> NoDup (index_insert acc x).
Proof.
  intros H. unfold index_insert. destruct (mem x acc) eqn:E; [exact H|].
  apply NoDup_app_iff. repeat split; [exact H|repeat constructor; intros []|].
  intros y Hy [<-|[]]. apply mem_In in Hy. congruence.
Qed.

Lemma fold_insert_spec xs : forall acc y,
  In y (fold_left index_insert xs acc) <-> In y acc \/ In y xs.
Proof.
  induction xs as [|x xs IH]; intros acc y; cbn; [tauto|].
  rewrite IH, index_insert_spec. intuition.
Qed.

Lemma fold_insert_nodup xs : forall acc, NoDup acc -> NoDup (fold_left index_insert xs acc).
Proof. induction xs as [|x xs IH]; intros acc H; cbn; [exact H|]. apply IH, index_insert_nodup, H. Qed.

Lemma fold_insert_prefix xs : forall acc, exists t, fold_left index_insert xs acc = acc ++ t.
Proof.
  induction xs as [|x xs IH]; intros acc; cbn; [exists []; now rewrite app_nil_r|].
  destruct (IH (index_insert acc x)) as [t Ht]. rewrite Ht. unfold index_insert.
  destruct (mem x acc); [eauto|]. exists ([x] ++ t). now rewrite app_assoc.
Qed.

(* The listing has no duplicates, contains exactly the source entries, and is a
   function of the (ordered) sources alone: no oracle appears. *)
Lemma dir_entries_spec files dirs links pending :
  NoDup (dir_entries files dirs links pending) /\
  (forall y, In y (dir_entries files dirs links pending) <->
             In y files \/ In y dirs \/ In y links \/ In y pending).
Proof.
  unfold dir_entries, index_collect. split; [apply fold_insert_nodup; constructor|].
  intros y. rewrite fold_insert_spec, !in_app_iff. cbn. tauto.
Qed.

(* first-occurrence order: the listing of a longer source list extends the
   listing of its prefix (entries found earlier are listed earlier) *)
Lemma index_collect_prefix a b : exists t, index_collect (a ++ b) = index_collect a ++ t.
Proof. unfold index_collect. rewrite fold_left_app. apply fold_insert_prefix. Qed.

(* ---- the defect that was repaired: a hash set's order is an oracle ---- *)

Lemma dir_entries_hashset_order_dependent :
  exists files o1 o2,
    Permutation (o1 (index_collect files)) (index_collect files) /\
    Permutation (o2 (index_collect files)) (index_collect files) /\
    dir_entries_hashset o1 files [] [] [] <> dir_entries_hashset o2 files [] [] [].
Proof.
  exists [1; 2], (fun l => l), (@rev N). repeat split.
  - apply Permutation_refl.
  - cbn. apply perm_swap.
  - cbn. discriminate.
Qed.

(* ---- a set that is only queried: the answer does not depend on its order ---- *)

Lemma mem_perm_invariant x l l' : Permutation l l' -> mem x l = mem x l'.
Proof.
  intros P. destruct (mem x l) eqn:E.
  - symmetry. apply mem_In. apply mem_In in E. eapply Permutation_in; eauto.
  - destruct (mem x l') eqn:E'; [|reflexivity].
    apply mem_In in E'. apply Permutation_sym in P.
    assert (H : mem x l = true) by (apply mem_In; eapply Permutation_in; eauto). congruence.
Qed.

(* ---- discharge table ---- *)

Inductive reason :=
| KeyedLookupOnly        (* set/map used for insert/contains only; see mem_perm_invariant *)
| VirtualClock           (* tokio::time::Instant under the paused runtime clock, not wall time *)
| UnseededByDesign       (* only reached when the builder is not given rng_seed / epoch *)
| IdentityOnly           (* random id used for equality only, never ordered or printed *)
| DirectIoAlignment.     (* O_DIRECT emulation checks the caller's buffer alignment; only with direct I/O
                            enabled, and an aligned buffer passes in every run *)

Local Open Scope string_scope.
Definition discharge (s : site) : option reason :=
  let f := s_file s in let fn := s_fn s in
  match s_kind s with
  | KHashSet =>
      if (String.eqb f "crates/turmoil-fs/src/shim/std/fs/mod.rs" && String.eqb fn "canonicalize")%bool
      then Some KeyedLookupOnly else None
  | KTokioInstantNow => Some VirtualClock
  | KOsRng =>
      if (String.eqb f "crates/turmoil/src/builder.rs" && String.eqb fn "build")%bool
      then Some UnseededByDesign else None
  | KSystemTimeNow =>
      if (String.eqb f "crates/turmoil/src/config.rs" && String.eqb fn "default")%bool
      then Some UnseededByDesign else None
  | KUuid =>
      if (String.eqb f "crates/turmoil/src/barriers.rs" && String.eqb fn "build")%bool
      then Some IdentityOnly else None
  | KPtrAddr =>
      if (String.eqb f "crates/turmoil-fs/src/shim/std/fs/mod.rs" &&
          (String.eqb fn "read_at_internal" || String.eqb fn "write_at_internal"))%bool
      then Some DirectIoAlignment else None
  | _ => None
  end.

Definition discharged (s : site) : bool := match discharge s with Some _ => true | None => false end.
