(* TV.Det.Order — unordered std collections modelled with an explicit
   iteration-order oracle, and the insertion-ordered replacement.
   Mirrors Fs::dir_entries (crates/turmoil-fs/src/lib.rs) and the
   `visited_symlinks` set of shim::std::fs::canonicalize. No proofs here. *)
From TV.Lib Require Import Base.
Open Scope N_scope.

Definition mem (x : N) (l : list N) : bool := existsb (N.eqb x) l.

(* IndexSet::insert in a loop: keeps the first occurrence, in order. *)
Definition index_insert (acc : list N) (x : N) : list N := if mem x acc then acc else acc ++ [x].
Definition index_collect (xs : list N) : list N := fold_left index_insert xs [].

(* Fs::dir_entries after the fix: sources are visited in a fixed order
   (persisted files, dirs, symlinks: IndexMap key order; then pending ops) and
   collected into an IndexSet; `into_iter().collect()` keeps that order. *)
Definition dir_entries (files dirs links pending : list N) : list N :=
  index_collect (files ++ dirs ++ links ++ pending).

(* A std HashSet: same elements, iteration order chosen by an oracle that may
   differ from run to run (the per-process random hasher). *)
Definition hash_collect (order : list N -> list N) (xs : list N) : list N := order (index_collect xs).
Definition dir_entries_hashset (order : list N -> list N) (files dirs links pending : list N) : list N :=
  hash_collect order (files ++ dirs ++ links ++ pending).
