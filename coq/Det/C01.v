(* Property C01 — same seed, configuration and programs give the same
   execution.  What a theorem can carry (DESIGN.md section 5, C01): every model of
   this development is a Gallina function of its explicit oracle arguments, so
   determinism of the system reduces to (i) no hidden source of order, time or
   entropy feeding an observable, and (ii) the runtime (tokio scheduler, timer
   wheel) being deterministic under rng_seed/start_paused -- (ii) is not
   provable here and is covered by the double-run search.  Statements only. *)
From TV.Lib Require Import Base.
From Coq Require Import String Permutation.
From TV.Det Require Import Sites Order C01_proofs.
Open Scope N_scope.

(* (i) Every order-/time-/entropy-sensitive site found in the current Rust
   sources (Sites.v, regenerated on every run) is discharged by a reason of
   the table.  A new HashMap/HashSet/SystemTime/OsRng/... site, or an existing
   one moving to another function, makes this theorem fail to check. *)
Theorem c01_sites_discharged : forallb discharged sites = true.
Proof. vm_compute. reflexivity. Qed.

Theorem c01_sites_discharged_all : forall s, In s sites -> exists r, discharge s = Some r.
Proof.
  intros s Hin. pose proof c01_sites_discharged as H. rewrite forallb_forall in H.
  specialize (H s Hin). unfold discharged in H. destruct (discharge s); [eauto|discriminate].
Qed.

(* Directory listings: insertion-ordered collection is a function of the
   ordered sources, has no duplicates and exactly the source entries. *)
Theorem c01_dir_entries_deterministic : forall files dirs links pending,
  NoDup (dir_entries files dirs links pending) /\
  (forall y, In y (dir_entries files dirs links pending) <->
             In y files \/ In y dirs \/ In y links \/ In y pending).
Proof. exact dir_entries_spec. Qed.

Theorem c01_dir_entries_stable_prefix : forall a b,
  exists t, index_collect (a ++ b) = index_collect a ++ t.
Proof. exact index_collect_prefix. Qed.

(* The repaired defect, kept as a witness: with a std HashSet the listing
   depends on the hasher's iteration order. *)
Theorem c01_hashset_listing_refuted :
  exists files o1 o2,
    Permutation (o1 (index_collect files)) (index_collect files) /\
    Permutation (o2 (index_collect files)) (index_collect files) /\
    dir_entries_hashset o1 files [] [] [] <> dir_entries_hashset o2 files [] [] [].
Proof. exact dir_entries_hashset_order_dependent. Qed.

(* A hash set that is only queried (canonicalize's visited set): the answer is
   the same for every iteration order. *)
Theorem c01_lookup_order_independent : forall x l l',
  Permutation l l' -> mem x l = mem x l'.
Proof. exact mem_perm_invariant. Qed.

Example c01_nonvacuous :
  sites <> [] /\ dir_entries [3; 1] [2; 1] [] [3; 9] = [3; 1; 2; 9].
Proof. split; [discriminate|reflexivity]. Qed.

Print Assumptions c01_sites_discharged.
Print Assumptions c01_sites_discharged_all.
Print Assumptions c01_dir_entries_deterministic.
Print Assumptions c01_dir_entries_stable_prefix.
Print Assumptions c01_hashset_listing_refuted.
Print Assumptions c01_lookup_order_independent.
Print Assumptions c01_nonvacuous.
