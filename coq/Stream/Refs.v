(* TV.Stream.Refs — table-entry facts of the Stream model used by property C12
   (TV.Conn): a removed socket entry never comes back, and an entry exists only
   while one of its two halves is alive (ref_ct = number of live halves). *)
From TV.Lib Require Import Base.
From TV.Stream Require Import Gen Model Facts.
Close Scope N_scope.

Definition halves (e : endpoint) : nat :=
  (if is_some (rd e) then 1 else 0) + (if is_some (wr e) then 1 else 0).

(* Tcp::close_stream_half bookkeeping: ref_ct counts the live halves *)
Definition refs_ep (e : endpoint) : Prop :=
  forall k, sk e = Some k -> refs k = halves e /\ 1 <= halves e.
Definition refs_ok (s : sys) : Prop := forall x, refs_ep (eps s x).

(* "no entry" is stable *)
Definition gone (s : sys) (x : side) : Prop := sk (eps s x) = None.

Lemma refs_none e : sk e = None -> refs_ep e.
Proof. intros H k Hk. congruence. Qed.

Lemma drain_ep_sk cp e e' rst :
  drain_ep cp e = (e', rst) ->
  (sk e = None -> sk e' = None) /\ rd e' = rd e /\ wr e' = wr e /\
  (forall k k', sk e = Some k -> sk e' = Some k' -> refs k' = refs k).
Proof.
  unfold drain_ep. destruct (sk e) as [k|] eqn:Esk.
  - destruct (drain _ _ _ _ _) as [[k' ch'] r'] eqn:Ed. intros [= <- <-]. cbn.
    apply drain_next in Ed as [_ Hr]. repeat split; try discriminate.
    intros k0 k1 [= <-] [= <-]. exact Hr.
  - intros [= <- <-]. rewrite Esk. repeat split; auto. discriminate.
Qed.

Lemma drain_ep_refs cp e e' rst : drain_ep cp e = (e', rst) -> refs_ep e -> refs_ep e'.
Proof.
  intros Hd H. destruct (drain_ep_sk _ _ _ _ Hd) as (Hn & Hrd & Hwr & Hrefs).
  intros k' Hk'. destruct (sk e) as [k|] eqn:Esk; [|rewrite Hn in Hk' by reflexivity; discriminate].
  destruct (H k Esk) as [H1 H2]. unfold halves in *. rewrite Hrd, Hwr.
  rewrite (Hrefs k k' eq_refl Hk'). auto.
Qed.

Lemma recv_ep_sk cp e p :
  (sk e = None -> sk (fst (recv_ep cp e p)) = None) /\
  (refs_ep e -> refs_ep (fst (recv_ep cp e p))).
Proof.
  unfold recv_ep. destruct p as [q sg|].
  - destruct (sk e) as [k|] eqn:Esk.
    + destruct (drain_ep cp _) as [e1 rst] eqn:Ed. cbn [fst]. split; [discriminate|].
      intros H. eapply drain_ep_refs; [exact Ed|].
      intros k0 [= <-]. cbn. destruct (H k Esk) as [H1 H2]. unfold halves in *. cbn. auto.
    + cbn. split; auto.
  - cbn. split; [reflexivity|]. intros _. apply refs_none. reflexivity.
Qed.

Lemma deliver1_sk s z p x :
  (gone s x -> gone (deliver1 s z p) x) /\ (refs_ok s -> refs_ok (deliver1 s z p)).
Proof.
  unfold deliver1, gone, refs_ok.
  destruct (recv_ep_sk (cap s) (eps s z) p) as [Hn Hr].
  destruct (recv_ep (cap s) (eps s z) p) as [e [|r l]] eqn:E; cbn [fst] in *.
  - split.
    + intros H. destruct x, z; cbn; auto.
    + intros H y. destruct y, z; cbn; auto.
  - cbn [lo set_ep]. destruct (lo s).
    + split.
      * intros H. destruct (recv_ep_sk (cap s) (eps (set_ep s z e) (other z)) r) as [Hn2 _].
        destruct x, z; cbn in *; auto.
      * intros H y. destruct (recv_ep_sk (cap s) (eps (set_ep s z e) (other z)) r) as [_ Hr2].
        destruct y, z; cbn in *; auto.
    + unfold net_send. cbn. destruct (cut s z); cbn; split.
      * intros H. destruct x, z; cbn; auto.
      * intros H y. destruct y, z; cbn; auto.
      * intros H. destruct x, z; cbn; auto.
      * intros H y. destruct y, z; cbn; auto.
Qed.

Lemma close_half_refs e o r w :
  refs_ep e -> o = close_half (sk e) ->
  halves {| sk := o; chan := chan e; rd := r; wr := w |} + 1 = halves e ->
  refs_ep {| sk := o; chan := chan e; rd := r; wr := w |}.
Proof.
  intros H -> Hh k Hk. cbn in Hk. destruct (sk e) as [k0|] eqn:Esk; [|discriminate].
  destruct (H k0 Esk) as [H1 H2]. cbn in Hk.
  destruct (refs k0) as [|[|n]] eqn:Er; try discriminate. injection Hk as <-. unfold halves in *. cbn in *. lia.
Qed.

(* ---- a removed entry stays removed ---------------------------------------------- *)

Ltac gone_fin H :=
  cbn in *; try exact H; try reflexivity; try congruence.

Lemma try_write_gone pf s z bs x : gone s x -> gone (fst (op_try_write pf s z bs)) x.
Proof.
  unfold gone. intros H. unfold op_try_write.
  destruct (wr (eps s z)) as [sh|] eqn:Ewr; [|exact H].
  destruct (pf && sh) eqn:E1; [exact H|].
  destruct bs as [|b0 bs]; [exact H|].
  destruct sh; [exact H|].
  destruct (sk (eps s z)) as [k|] eqn:Esk; cbn [is_some negb]; [|exact H].
  destruct (cred s z) as [|c] eqn:Ec; [destruct pf; exact H|].
  unfold stamp_send. cbn [eps set_cred]. rewrite Esk. cbn [fst].
  unfold emit, net_send. cbn [cut set_gsent set_ep set_cred].
  destruct (cut s z); destruct x, z; gone_fin H.
Qed.

Lemma shutdown_gone s z x : gone s x -> gone (fst (op_shutdown s z)) x.
Proof.
  unfold gone. intros H. unfold op_shutdown.
  destruct (wr (eps s z)) as [[|]|] eqn:Ewr; try exact H.
  unfold stamp_send.
  destruct (sk (eps s z)) as [k|] eqn:Esk; cbn [fst]; [|exact H].
  unfold emit, net_send. cbn [cut set_gsent set_ep].
  destruct (cut s z); destruct x, z; gone_fin H.
Qed.

Lemma drop_w_gone s z x : gone s x -> gone (fst (op_drop_w s z)) x.
Proof.
  unfold gone. intros H. unfold op_drop_w.
  destruct (wr (eps s z)) as [sh|] eqn:Ewr; [|exact H].
  destruct sh.
  - cbn [fst]. destruct (sk (eps s z)) as [k|] eqn:Esk; [destruct (refs k) as [|[|n]] eqn:Er|];
      destruct x, z; cbn; rewrite ?Esk; cbn; rewrite ?Er; gone_fin H.
  - unfold stamp_send.
    destruct (sk (eps s z)) as [k|] eqn:Esk; cbn [fst].
    + unfold emit, net_send. cbn [cut set_gsent set_ep].
      destruct (cut s z); destruct (refs k) as [|[|n]] eqn:Er; destruct x, z; cbn; rewrite ?Er; gone_fin H.
    + destruct x, z; cbn; rewrite ?Esk; gone_fin H.
Qed.

Lemma read_gone s z n x : gone s x -> gone (fst (op_read s z n)) x.
Proof.
  unfold gone. intros H. unfold op_read.
  destruct (rd (eps s z)) as [r|] eqn:Erd; [|exact H].
  destruct (closed r || Nat.eqb n 0) eqn:Ecl; [exact H|].
  destruct (stash r) as [bs|] eqn:Est.
  - destruct (take_stash bs n) as [out rest] eqn:Et. cbn [fst]. destruct x, z; gone_fin H.
  - destruct (chan (eps s z)) as [|sg ch] eqn:Ech; [exact H|].
    unfold after_pop.
    destruct x, z; cbn [eps set_gpop set_ep cap upd side_eqb other];
      match goal with |- context [drain_ep ?c ?e] => destruct (drain_ep c e) as [e1 rst] eqn:Ed end;
      destruct (drain_ep_sk _ _ _ _ Ed) as (Hn & _);
      (destruct sg as [bs|]; [destruct (take_stash bs n) as [out rest] eqn:Et|]); cbn [fst];
      cbn; try exact H; apply Hn; exact H.
Qed.

Lemma peek_gone s z n x : gone s x -> gone (fst (op_peek s z n)) x.
Proof.
  unfold gone. intros H. unfold op_peek.
  destruct (rd (eps s z)) as [r|] eqn:Erd; [|exact H].
  destruct (closed r || Nat.eqb n 0) eqn:Ecl; [exact H|].
  destruct (stash r) as [bs|] eqn:Est; [exact H|].
  destruct (chan (eps s z)) as [|sg ch] eqn:Ech; [exact H|].
  unfold after_pop.
  destruct x, z; cbn [eps set_gpop set_ep cap upd side_eqb other];
    match goal with |- context [drain_ep ?c ?e] => destruct (drain_ep c e) as [e1 rst] eqn:Ed end;
    destruct (drain_ep_sk _ _ _ _ Ed) as (Hn & _);
    destruct sg as [bs|]; cbn [fst]; cbn; try exact H; apply Hn; exact H.
Qed.

Lemma drop_r_gone s z x : gone s x -> gone (fst (op_drop_r s z)) x.
Proof.
  unfold gone. intros H. unfold op_drop_r.
  destruct (rd (eps s z)) as [r|] eqn:Erd; [|exact H].
  match goal with |- context [if ?c then _ else _] => destruct c end; cbn [fst].
  - unfold emit, net_send. cbn [cut set_ep]. destruct (cut s z); destruct x, z; gone_fin H.
  - destruct (sk (eps s z)) as [k|] eqn:Esk; [destruct (refs k) as [|[|m]] eqn:Er|];
      destruct x, z; cbn; rewrite ?Esk; cbn; rewrite ?Er; gone_fin H.
Qed.

Lemma deliver_list_sk l : forall s z x,
  (gone s x -> gone (deliver_list s z l) x) /\ (refs_ok s -> refs_ok (deliver_list s z l)).
Proof.
  induction l as [|p l IH]; intros s z x; cbn; [auto|].
  destruct (deliver1_sk s z p x) as [D1 D2]. destruct (IH (deliver1 s z p) z x) as [I1 I2]. split; auto.
Qed.

Lemma loop_fold_sk l : forall s x,
  (gone s x -> gone (fold_left (fun s' m => deliver1 s' (other (fst m)) (snd m)) l s) x) /\
  (refs_ok s -> refs_ok (fold_left (fun s' m => deliver1 s' (other (fst m)) (snd m)) l s)).
Proof.
  induction l as [|m l IH]; intros s x; cbn; [auto|].
  destruct (deliver1_sk s (other (fst m)) (snd m) x) as [D1 D2].
  destruct (IH (deliver1 s (other (fst m)) (snd m)) x) as [I1 I2]. split; auto.
Qed.

Theorem step_gone s e x : gone s x -> gone (fst (step s e)) x.
Proof.
  intros H. destruct e; cbn [step fst].
  - apply try_write_gone, H.
  - apply try_write_gone, H.
  - apply shutdown_gone, H.
  - apply drop_w_gone, H.
  - apply read_gone, H.
  - apply peek_gone, H.
  - apply drop_r_gone, H.
  - unfold mature. destruct (split_wire 0 ks (wire s)). exact H.
  - unfold mature. destruct (split_wire _ _ (wire s)). exact H.
  - apply deliver_list_sk. exact H.
  - exact H.
  - exact H.
  - exact H.
  - exact H.
  - apply (loop_fold_sk _ (set_wire s (skipn (lmark s) (wire s))) x). exact H.
  - exact H.
Qed.

(* ---- ref_ct = number of live halves ------------------------------------------------------ *)

Lemma refs_same e e' :
  (forall k', sk e' = Some k' -> exists k, sk e = Some k /\ refs k' = refs k) ->
  rd e' = rd e -> wr e' = wr e -> refs_ep e -> refs_ep e'.
Proof.
  intros Hs Hr Hw H k' Hk'. destruct (Hs k' Hk') as (k & Hk & E). destruct (H k Hk) as [H1 H2].
  unfold halves in *. rewrite Hr, Hw, E. auto.
Qed.

Ltac refs_fin H Esk :=
  cbn in *; try exact H; try (apply refs_none; reflexivity);
  try (eapply refs_same; [| | |exact H]; cbn; auto; intros k' [= <-]; eexists; split; [exact Esk|reflexivity]).

Lemma try_write_refs pf s z bs : refs_ok s -> refs_ok (fst (op_try_write pf s z bs)).
Proof.
  intros H y. specialize (H y). unfold op_try_write.
  destruct (wr (eps s z)) as [sh|] eqn:Ewr; [|exact H].
  destruct (pf && sh) eqn:E1; [exact H|].
  destruct bs as [|b0 bs]; [exact H|].
  destruct sh; [exact H|].
  destruct (sk (eps s z)) as [k|] eqn:Esk; cbn [is_some negb]; [|exact H].
  destruct (cred s z) as [|c] eqn:Ec; [destruct pf; exact H|].
  unfold stamp_send. cbn [eps set_cred]. rewrite Esk. cbn [fst].
  unfold emit, net_send. cbn [cut set_gsent set_ep set_cred].
  destruct (cut s z); destruct y, z; refs_fin H Esk.
Qed.

Lemma shutdown_refs s z : refs_ok s -> refs_ok (fst (op_shutdown s z)).
Proof.
  intros H y. specialize (H y). unfold op_shutdown.
  destruct (wr (eps s z)) as [[|]|] eqn:Ewr; try exact H.
  unfold stamp_send.
  destruct (sk (eps s z)) as [k|] eqn:Esk; cbn [fst]; [|exact H].
  unfold emit, net_send. cbn [cut set_gsent set_ep].
  destruct (cut s z); destruct y, z; cbn; try exact H;
    (intros k' [= <-]; destruct (H _ Esk) as [R1 R2]; unfold halves in *; cbn in *; rewrite Ewr in *; cbn; auto).
Qed.

Lemma close_half_ep e r w :
  refs_ep e -> halves {| sk := None; chan := []; rd := r; wr := w |} + 1 = halves e ->
  forall c, refs_ep {| sk := close_half (sk e); chan := c; rd := r; wr := w |}.
Proof.
  intros H Hh c k Hk. cbn in Hk. destruct (sk e) as [k0|] eqn:Esk; [|discriminate].
  destruct (H k0 Esk) as [H1 H2]. cbn in Hk.
  destruct (refs k0) as [|[|n]] eqn:Er; try discriminate. injection Hk as <-. unfold halves in *. cbn in *. lia.
Qed.

Lemma drop_w_refs s z : refs_ok s -> refs_ok (fst (op_drop_w s z)).
Proof.
  intros H y. specialize (H y). unfold op_drop_w.
  destruct (wr (eps s z)) as [sh|] eqn:Ewr; [|exact H].
  assert (Hh : forall e, wr e = Some sh -> halves {| sk := None; chan := []; rd := rd e; wr := None |} + 1 = halves e).
  { intros e E. unfold halves. cbn. rewrite E. cbn. lia. }
  destruct sh.
  - cbn [fst]. destruct y, z; cbn; try exact H; apply close_half_ep; auto.
  - unfold stamp_send.
    destruct (sk (eps s z)) as [k|] eqn:Esk; cbn [fst].
    + unfold emit, net_send. cbn [cut set_gsent set_ep].
      destruct (cut s z); destruct y, z; cbn; try exact H;
        (intros k' Hk'; cbn in Hk'; destruct (refs k) as [|[|m]] eqn:Er; try discriminate; injection Hk' as <-;
         destruct (H _ Esk) as [R1 R2]; unfold halves in *; cbn in *; rewrite Ewr in *; cbn in *; lia).
    + destruct y, z; cbn; try exact H; apply close_half_ep; auto.
Qed.

Lemma read_refs s z n : refs_ok s -> refs_ok (fst (op_read s z n)).
Proof.
  intros H y. specialize (H y). unfold op_read.
  destruct (rd (eps s z)) as [r|] eqn:Erd; [|exact H].
  destruct (closed r || Nat.eqb n 0) eqn:Ecl; [exact H|].
  destruct (stash r) as [bs|] eqn:Est.
  - destruct (take_stash bs n) as [out rest] eqn:Et. cbn [fst].
    destruct y, z; cbn; try exact H;
      (intros k' Hk'; cbn in *; destruct (H _ Hk') as [R1 R2]; unfold halves in *; cbn; rewrite Erd in *; auto).
  - destruct (chan (eps s z)) as [|sg ch] eqn:Ech; [exact H|].
    unfold after_pop.
    destruct y, z; cbn [eps set_gpop set_ep cap upd side_eqb other];
      match goal with |- context [drain_ep ?c ?e] => destruct (drain_ep c e) as [e1 rst] eqn:Ed end;
      destruct (drain_ep_sk _ _ _ _ Ed) as (_ & Hrd & Hwr & _);
      (destruct sg as [bs|]; [destruct (take_stash bs n) as [out rest] eqn:Et|]); cbn [fst];
      cbn; try exact H;
      (assert (Hre : refs_ep e1) by (eapply drain_ep_refs; [exact Ed|]; intros k1 Hk1; cbn in *;
                                      destruct (H _ Hk1) as [R1 R2]; unfold halves in *; cbn; auto);
       intros k' Hk'; cbn in *; destruct (Hre _ Hk') as [R1 R2]; unfold halves in *; cbn in *;
       rewrite Hrd, Hwr in *; cbn in *; rewrite Erd in *; auto).
Qed.

Lemma peek_refs s z n : refs_ok s -> refs_ok (fst (op_peek s z n)).
Proof.
  intros H y. specialize (H y). unfold op_peek.
  destruct (rd (eps s z)) as [r|] eqn:Erd; [|exact H].
  destruct (closed r || Nat.eqb n 0) eqn:Ecl; [exact H|].
  destruct (stash r) as [bs|] eqn:Est; [exact H|].
  destruct (chan (eps s z)) as [|sg ch] eqn:Ech; [exact H|].
  unfold after_pop.
  destruct y, z; cbn [eps set_gpop set_ep cap upd side_eqb other];
    match goal with |- context [drain_ep ?c ?e] => destruct (drain_ep c e) as [e1 rst] eqn:Ed end;
    destruct (drain_ep_sk _ _ _ _ Ed) as (_ & Hrd & Hwr & _);
    destruct sg as [bs|]; cbn [fst]; cbn; try exact H;
    (assert (Hre : refs_ep e1) by (eapply drain_ep_refs; [exact Ed|]; intros k1 Hk1; cbn in *;
                                    destruct (H _ Hk1) as [R1 R2]; unfold halves in *; cbn; auto);
     intros k' Hk'; cbn in *; destruct (Hre _ Hk') as [R1 R2]; unfold halves in *; cbn in *;
     rewrite Hrd, Hwr in *; cbn in *; rewrite Erd in *; auto).
Qed.

Lemma drop_r_refs s z : refs_ok s -> refs_ok (fst (op_drop_r s z)).
Proof.
  intros H y. specialize (H y). unfold op_drop_r.
  destruct (rd (eps s z)) as [r|] eqn:Erd; [|exact H].
  assert (Hh : forall e, rd e = Some r -> halves {| sk := None; chan := []; rd := None; wr := wr e |} + 1 = halves e).
  { intros e E. unfold halves. cbn. rewrite E. cbn. lia. }
  match goal with |- context [if ?c then _ else _] => destruct c end; cbn [fst].
  - unfold emit, net_send. cbn [cut set_ep].
    destruct (cut s z); destruct y, z; cbn; try exact H; apply refs_none; reflexivity.
  - destruct y, z; cbn; try exact H; apply close_half_ep; auto.
Qed.

Theorem step_refs s e : refs_ok s -> refs_ok (fst (step s e)).
Proof.
  intros H. destruct e; cbn [step fst].
  - apply try_write_refs, H.
  - apply try_write_refs, H.
  - apply shutdown_refs, H.
  - apply drop_w_refs, H.
  - apply read_refs, H.
  - apply peek_refs, H.
  - apply drop_r_refs, H.
  - unfold mature. destruct (split_wire 0 ks (wire s)). exact H.
  - unfold mature. destruct (split_wire _ _ (wire s)). exact H.
  - apply (deliver_list_sk (rdy s x) (set_rdy s x []) x A). exact H.
  - exact H.
  - exact H.
  - exact H.
  - exact H.
  - apply (loop_fold_sk _ (set_wire s (skipn (lmark s) (wire s))) A). exact H.
  - exact H.
Qed.

Lemma init_refs cp loop : refs_ok (init cp loop).
Proof. intros x k. cbn. intros [= <-]. cbn. auto. Qed.
