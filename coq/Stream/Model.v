(* TV.Stream.Model — executable model of one established turmoil::net TCP
   connection: both endpoints, both directions, and the wire between them.
   No proofs in this file.

   Rust code mirrored (crates/turmoil/src):
     sock / drain / insert_seg  = host.rs  struct StreamSocket, StreamSocket::buffer
                                   (+ StreamSocket::drain of fix 3a3f8b8)
     recv                       = host.rs  Tcp::receive_from_network (Data / Fin / Rst arms)
     close_half / reset         = host.rs  Tcp::close_stream_half / Tcp::reset_stream
     op_try_write / op_write    = net/tcp/stream.rs  WriteHalf::try_write / poll_write_priv
                                   (a missing socket entry is reported before the credit test: fix e5646f9)
     op_shutdown                = net/tcp/stream.rs  WriteHalf::poll_shutdown_priv
     op_drop_w / op_drop_r      = net/tcp/stream.rs  Drop for WriteHalf / Drop for ReadHalf
     op_read / op_peek          = net/tcp/stream.rs  ReadHalf::poll_read_priv / poll_peek
                                   (polled exactly once: Pending is an outcome)
     cred                       = net/tcp/stream.rs  FlowControl (credits of the side that WRITES)
     net_send / Mature / Drain  = top.rs  Link::enqueue (Healthy|Hold -> queued, partitioned -> dropped),
                                   Link::process_deliverables (a stable partition of `sent`),
                                   Link::deliver_messages (incl. the RST pushed back)
     lo = true                  = stream.rs send_loopback (same host / 127.0.0.1: a refused
                                   segment is answered by a RST delivered at once)
   The tokio mpsc channel is a bounded FIFO `chan` (capacity `cap`), the Sender
   lives in the socket entry (`sk`), the Receiver in the read half (`rd`).
   Fields starting with g are ghost history (no counterpart in the code); they are
   never read by the executable part. *)
From TV.Lib Require Import Base.
From TV.Stream Require Import Gen.
Close Scope N_scope.   (* Gen.v opens it; this development writes %N explicitly *)

Inductive side := A | B.          (* A = the connecting end, B = the accepted end *)
Definition other (x : side) := match x with A => B | B => A end.
Definition side_eqb (x y : side) := match x, y with A, A | B, B => true | _, _ => false end.

Inductive seg := Data (bs : list N) | Fin.
Inductive pkt := PSeg (q : N) (sg : seg) | PRst.

Definition is_data (sg : seg) := match sg with Data _ => true | Fin => false end.
Definition payload (sg : seg) : list N := match sg with Data bs => bs | Fin => [] end.
Definition bytes_of (l : list seg) : list N := flat_map payload l.

(* host.rs StreamSocket (the mpsc Sender is "this record exists") *)
Record sock := { buf : list (N * seg); next_seq : N; recv_seq : N; refs : nat }.
(* stream.rs ReadHalf: rx.buffer and is_closed *)
Record reader := { stash : option (list N); closed : bool }.
Record endpoint := {
  sk : option sock;        (* entry in host.tcp.sockets *)
  chan : list seg;         (* segments queued in the mpsc towards this end's reader *)
  rd : option reader;      (* ReadHalf, None = dropped (Receiver closed) *)
  wr : option bool         (* WriteHalf: Some is_shutdown, None = dropped *)
}.

Inductive errkind := WouldBlock | BrokenPipe | NotConnected | ConnectionReset.
Inductive res :=
| RPending | ROkN (n : nat) | ROkBytes (bs : list N) | ROk | RErr (k : errkind)
| RNone                                   (* events without a result *)
| RInvalid                                (* operation on a half that was already dropped *)
| RView (w : list (side * pkt)) (ska skb : bool).

Definition upd {T} (f : side -> T) (x : side) (v : T) : side -> T :=
  fun z => if side_eqb z x then v else f z.

Record sys := {
  eps : side -> endpoint;
  cred : side -> nat;              (* credits of the FlowControl side x writes with *)
  cap : nat;                       (* tcp_capacity *)
  wire : list (side * pkt);        (* Link.sent: (source side, packet), in link order *)
  rdy : side -> list pkt;          (* Link.deliverable[host of side x] *)
  cut : side -> bool;              (* direction FROM side x is partitioned *)
  lo : bool;                       (* both ends on one host (loopback path) *)
  lmark : nat;                     (* loopback: wire packets whose delivery task is due next *)
  gsent : side -> list seg;        (* ghost: every segment side x stamped, in seq order *)
  gpop : side -> nat;              (* ghost: segments the reader of side x took off its chan *)
  gread : side -> list N;          (* ghost: bytes returned by reads of side x *)
  glost : side -> bool             (* ghost: direction FROM x was ever partitioned *)
}.

Definition set_ep (s : sys) x e :=
  {| eps := upd (eps s) x e; cred := cred s; cap := cap s; wire := wire s; rdy := rdy s;
     cut := cut s; lo := lo s; lmark := lmark s; gsent := gsent s; gpop := gpop s; gread := gread s; glost := glost s |}.
Definition set_cred (s : sys) x n :=
  {| eps := eps s; cred := upd (cred s) x n; cap := cap s; wire := wire s; rdy := rdy s;
     cut := cut s; lo := lo s; lmark := lmark s; gsent := gsent s; gpop := gpop s; gread := gread s; glost := glost s |}.
Definition set_wire (s : sys) w :=
  {| eps := eps s; cred := cred s; cap := cap s; wire := w; rdy := rdy s;
     cut := cut s; lo := lo s; lmark := lmark s; gsent := gsent s; gpop := gpop s; gread := gread s; glost := glost s |}.
Definition set_rdy (s : sys) x l :=
  {| eps := eps s; cred := cred s; cap := cap s; wire := wire s; rdy := upd (rdy s) x l;
     cut := cut s; lo := lo s; lmark := lmark s; gsent := gsent s; gpop := gpop s; gread := gread s; glost := glost s |}.
Definition set_cut (s : sys) x b :=
  {| eps := eps s; cred := cred s; cap := cap s; wire := wire s; rdy := rdy s;
     cut := upd (cut s) x b; lo := lo s; lmark := lmark s; gsent := gsent s; gpop := gpop s; gread := gread s;
     glost := if b then upd (glost s) x true else glost s |}.
Definition set_gsent (s : sys) x l :=
  {| eps := eps s; cred := cred s; cap := cap s; wire := wire s; rdy := rdy s;
     cut := cut s; lo := lo s; lmark := lmark s; gsent := upd (gsent s) x l; gpop := gpop s; gread := gread s; glost := glost s |}.
Definition set_gpop (s : sys) x n :=
  {| eps := eps s; cred := cred s; cap := cap s; wire := wire s; rdy := rdy s;
     cut := cut s; lo := lo s; lmark := lmark s; gsent := gsent s; gpop := upd (gpop s) x n; gread := gread s; glost := glost s |}.
Definition set_gread (s : sys) x l :=
  {| eps := eps s; cred := cred s; cap := cap s; wire := wire s; rdy := rdy s;
     cut := cut s; lo := lo s; lmark := lmark s; gsent := gsent s; gpop := gpop s; gread := upd (gread s) x l; glost := glost s |}.

Definition set_lmark (s : sys) n :=
  {| eps := eps s; cred := cred s; cap := cap s; wire := wire s; rdy := rdy s;
     cut := cut s; lo := lo s; lmark := n; gsent := gsent s; gpop := gpop s; gread := gread s; glost := glost s |}.

Definition set_sk (e : endpoint) o := {| sk := o; chan := chan e; rd := rd e; wr := wr e |}.
Definition set_chan (e : endpoint) c := {| sk := sk e; chan := c; rd := rd e; wr := wr e |}.
Definition set_rd (e : endpoint) r := {| sk := sk e; chan := chan e; rd := r; wr := wr e |}.
Definition set_wr (e : endpoint) w := {| sk := sk e; chan := chan e; rd := rd e; wr := w |}.

Definition set_buf (k : sock) b := {| buf := b; next_seq := next_seq k; recv_seq := recv_seq k; refs := refs k |}.
Definition set_recv (k : sock) r := {| buf := buf k; next_seq := next_seq k; recv_seq := r; refs := refs k |}.

(* ---- reorder buffer ------------------------------------------------------ *)

Fixpoint lookup (q : N) (l : list (N * seg)) : option seg :=
  match l with
  | [] => None
  | (q', sg) :: r => if N.eqb q q' then Some sg else lookup q r
  end.
Fixpoint remove1 (q : N) (l : list (N * seg)) : list (N * seg) :=
  match l with
  | [] => []
  | (q', sg) :: r => if N.eqb q q' then r else (q', sg) :: remove1 q r
  end.

(* StreamSocket::drain: move contiguous segments into the channel.  Returns the
   socket, the channel and whether try_reserve reported Closed (=> RST).
   Closed leaves recv_seq incremented and the segment in buf; Full rolls
   recv_seq back.  One iteration per buffered segment at most. *)
Fixpoint drain (fuel : nat) (cp : nat) (rd_alive : bool) (k : sock) (ch : list seg)
  : sock * list seg * bool :=
  match fuel with
  | O => (k, ch, false)
  | S f =>
      match lookup (recv_seq k + 1)%N (buf k) with
      | None => (k, ch, false)
      | Some sg =>
          if negb rd_alive then (set_recv k (recv_seq k + 1)%N, ch, true)
          else if Nat.eqb (length ch) cp then (k, ch, false)
          else drain f cp rd_alive
                 (set_recv (set_buf k (remove1 (recv_seq k + 1)%N (buf k))) (recv_seq k + 1)%N)
                 (ch ++ [sg])
      end
  end.

Definition is_some {T} (o : option T) := match o with Some _ => true | None => false end.

(* drain of the socket of endpoint e, result discarded except for the RST flag *)
Definition drain_ep (cp : nat) (e : endpoint) : endpoint * bool :=
  match sk e with
  | None => (e, false)
  | Some k =>
      let '(k', ch, rst) := drain (length (buf k)) cp (is_some (rd e)) k (chan e) in
      ({| sk := Some k'; chan := ch; rd := rd e; wr := wr e |}, rst)
  end.

(* Tcp::receive_from_network for this connection's pair, at side x.
   Returns the replies side x's host hands back (a RST or nothing). *)
Definition recv_ep (cp : nat) (e : endpoint) (p : pkt) : endpoint * list pkt :=
  match p with
  | PRst => (set_sk e None, [])
  | PSeg q sg =>
      match sk e with
      | None => (e, [PRst])
      | Some k =>
          let '(e', rst) := drain_ep cp (set_sk e (Some (set_buf k ((q, sg) :: buf k)))) in
          (e', if rst then [PRst] else [])
      end
  end.

(* Tcp::close_stream_half *)
Definition close_half (o : option sock) : option sock :=
  match o with
  | None => None
  | Some k => match refs k with
              | S (S n) => Some {| buf := buf k; next_seq := next_seq k; recv_seq := recv_seq k; refs := S n |}
              | _ => None
              end
  end.

(* ---- the network between the two ends --------------------------------------- *)

(* Link::enqueue: partitioned direction => dropped; otherwise appended to `sent`. *)
Definition net_send (s : sys) (x : side) (p : pkt) : sys :=
  if cut s x then s else set_wire s (wire s ++ [(x, p)]).

(* receive one packet at side x and route the replies *)
Definition deliver1 (s : sys) (x : side) (p : pkt) : sys :=
  let '(e, replies) := recv_ep (cap s) (eps s x) p in
  let s1 := set_ep s x e in
  match replies with
  | [] => s1
  | r :: _ =>
      if lo s1 then (* loopback: the RST is handed to the same host at once *)
        set_ep s1 (other x) (fst (recv_ep (cap s1) (eps s1 (other x)) r))
      else net_send s1 x r
  end.

(* send a packet side x emits: over the link, or (loopback) queued for the
   spawned delivery task — both are the wire here *)
Definition emit (s : sys) (x : side) (p : pkt) : sys := net_send s x p.

(* WriteHalf::seq + send of a sequenced segment *)
Definition stamp_send (s : sys) (x : side) (sg : seg) : option sys :=
  let e := eps s x in
  match sk e with
  | None => None
  | Some k =>
      let s1 := set_ep s x (set_sk e (Some {| buf := buf k; next_seq := (next_seq k + 1)%N;
                                                recv_seq := recv_seq k; refs := refs k |})) in
      Some (emit (set_gsent s1 x (gsent s1 x ++ [sg])) x (PSeg (next_seq k) sg))
  end.

(* ---- application calls ---------------------------------------------------------- *)

Definition op_try_write (pending_on_full : bool) (s : sys) (x : side) (bs : list N) : sys * res :=
  match wr (eps s x) with
  | None => (s, RInvalid)
  | Some sh =>
      if pending_on_full && sh then (s, RErr BrokenPipe)        (* poll_write_priv checks first *)
      else match bs with
      | [] => (s, ROkN 0)
      | _ =>
          if sh then (s, RErr BrokenPipe)
          else if negb (is_some (sk (eps s x))) then (s, RErr BrokenPipe)   (* reset: fix e5646f9 *)
          else match cred s x with
          | O => (s, if pending_on_full then RPending else RErr WouldBlock)
          | S c =>
              let s1 := set_cred s x c in          (* the credit is taken before seq() *)
              match stamp_send s1 x (Data bs) with
              | None => (s1, RErr BrokenPipe)
              | Some s2 => (s2, ROkN (length bs))
              end
          end
      end
  end.

Definition op_shutdown (s : sys) (x : side) : sys * res :=
  match wr (eps s x) with
  | None => (s, RInvalid)
  | Some true => (s, RErr NotConnected)
  | Some false =>
      match stamp_send s x Fin with
      | None => (s, RErr BrokenPipe)
      | Some s1 => (set_ep s1 x (set_wr (eps s1 x) (Some true)), ROk)
      end
  end.

Definition op_drop_w (s : sys) (x : side) : sys * res :=
  match wr (eps s x) with
  | None => (s, RInvalid)
  | Some sh =>
      let s1 := if sh then s else match stamp_send s x Fin with None => s | Some s' => s' end in
      let e := eps s1 x in
      (set_ep s1 x {| sk := close_half (sk e); chan := chan e; rd := rd e; wr := None |}, RNone)
  end.

Definition take_stash (bs : list N) (n : nat) : list N * option (list N) :=
  (firstn n bs, match skipn n bs with [] => None | r => Some r end).

(* the reader of side x took a segment: fix 3a3f8b8 re-drains the reorder buffer *)
Definition after_pop (s : sys) (x : side) : sys :=
  set_ep s x (fst (drain_ep (cap s) (eps s x))).

Definition op_read (s : sys) (x : side) (n : nat) : sys * res :=
  let e := eps s x in
  match rd e with
  | None => (s, RInvalid)
  | Some r =>
      if closed r || Nat.eqb n 0 then (s, ROkBytes [])
      else match stash r with
      | Some bs =>
          let '(out, rest) := take_stash bs n in
          (set_gread (set_ep s x (set_rd e (Some {| stash := rest; closed := false |}))) x (gread s x ++ out),
           ROkBytes out)
      | None =>
          match chan e with
          | [] => (s, if is_some (sk e) then RPending else RErr ConnectionReset)
          | sg :: ch =>
              let s1 := after_pop (set_gpop (set_ep s x (set_chan e ch)) x (S (gpop s x))) x in
              let e1 := eps s1 x in
              match sg with
              | Data bs =>
                  let '(out, rest) := take_stash bs n in
                  let s2 := set_cred s1 (other x) (S (cred s1 (other x))) in
                  (set_gread (set_ep s2 x (set_rd e1 (Some {| stash := rest; closed := false |}))) x
                     (gread s2 x ++ out), ROkBytes out)
              | Fin => (set_ep s1 x (set_rd e1 (Some {| stash := None; closed := true |})), ROkBytes [])
              end
          end
      end
  end.

Definition op_peek (s : sys) (x : side) (n : nat) : sys * res :=
  let e := eps s x in
  match rd e with
  | None => (s, RInvalid)
  | Some r =>
      if closed r || Nat.eqb n 0 then (s, ROkBytes [])
      else match stash r with
      | Some bs => (s, ROkBytes (firstn n bs))
      | None =>
          match chan e with
          | [] => (s, if is_some (sk e) then RPending else RErr ConnectionReset)
          | sg :: ch =>
              let s1 := after_pop (set_gpop (set_ep s x (set_chan e ch)) x (S (gpop s x))) x in
              let e1 := eps s1 x in
              match sg with
              | Data bs =>
                  let s2 := set_cred s1 (other x) (S (cred s1 (other x))) in
                  (set_ep s2 x (set_rd e1 (Some {| stash := Some bs; closed := false |})),
                   ROkBytes (firstn n bs))
              | Fin => (set_ep s1 x (set_rd e1 (Some {| stash := None; closed := true |})), ROkBytes [])
              end
          end
      end
  end.

Definition head_is_data (l : list seg) := match l with Data _ :: _ => true | _ => false end.

Definition op_drop_r (s : sys) (x : side) : sys * res :=
  let e := eps s x in
  match rd e with
  | None => (s, RInvalid)
  | Some r =>
      let unread := negb (closed r) &&
                    (is_some (stash r) || head_is_data (chan e) ||
                     match sk e with Some k => existsb (fun qs => is_data (snd qs)) (buf k) | None => false end) in
      if unread then
        (* RST to the peer, socket removed at once (reset_stream) *)
        let s1 := set_ep s x {| sk := None; chan := []; rd := None; wr := wr e |} in
        (emit s1 x PRst, RNone)
      else
        (set_ep s x {| sk := close_half (sk e); chan := []; rd := None; wr := wr e |}, RNone)
  end.

(* ---- events -------------------------------------------------------------------- *)

Inductive ev :=
| TryWrite (x : side) (bs : list N)
| Write (x : side) (bs : list N)          (* poll_write, polled once *)
| Shutdown (x : side)
| DropW (x : side)
| Read (x : side) (n : nat)               (* poll_read, polled once, buffer of n bytes *)
| Peek (x : side) (n : nat)
| DropR (x : side)
| Mature (ks : list nat)                  (* the wire positions whose latency has elapsed *)
| MatureAll
| Drain (x : side)                        (* deliver_messages for the host of side x *)
| Partition | PartitionOne (x : side) | Repair | RepairOne (x : side)
| LoopStep                                (* loopback: the delivery tasks spawned before the previous
                                             LoopStep run, in send order (send_loopback sleeps one tick) *)
| View.

Fixpoint split_wire (i : nat) (ks : list nat) (w : list (side * pkt))
  : list (side * pkt) * list (side * pkt) :=     (* (matured, kept), both in order *)
  match w with
  | [] => ([], [])
  | m :: r =>
      let '(a, b) := split_wire (S i) ks r in
      if existsb (Nat.eqb i) ks then (m :: a, b) else (a, m :: b)
  end.

Definition pkts_from (x : side) (l : list (side * pkt)) : list pkt :=
  map snd (filter (fun m => side_eqb (fst m) x) l).

Definition mature (s : sys) (ks : list nat) : sys :=
  let '(m, keep) := split_wire 0 ks (wire s) in
  let s1 := set_wire s keep in
  let s2 := set_rdy s1 B (rdy s1 B ++ pkts_from A m) in
  set_rdy s2 A (rdy s2 A ++ pkts_from B m).

Fixpoint deliver_list (s : sys) (x : side) (l : list pkt) : sys :=
  match l with
  | [] => s
  | p :: r => deliver_list (deliver1 s x p) x r
  end.

Definition step (s : sys) (e : ev) : sys * res :=
  match e with
  | TryWrite x bs => op_try_write false s x bs
  | Write x bs => op_try_write true s x bs
  | Shutdown x => op_shutdown s x
  | DropW x => op_drop_w s x
  | Read x n => op_read s x n
  | Peek x n => op_peek s x n
  | DropR x => op_drop_r s x
  | Mature ks => (mature s ks, RNone)
  | MatureAll => (mature s (seq 0 (length (wire s))), RNone)
  | Drain x => (deliver_list (set_rdy s x []) x (rdy s x), RNone)
  | Partition => (set_wire (set_cut (set_cut s A true) B true) [], RNone)
  | PartitionOne x =>
      (set_wire (set_cut s x true) (filter (fun m => negb (side_eqb (fst m) x)) (wire s)), RNone)
  | Repair => (set_cut (set_cut s A false) B false, RNone)
  | RepairOne x => (set_cut s x false, RNone)
  | LoopStep =>
      let s1 := fold_left (fun s' m => deliver1 s' (other (fst m)) (snd m)) (firstn (lmark s) (wire s))
                  (set_wire s (skipn (lmark s) (wire s))) in
      (set_lmark s1 (length (wire s1)), RNone)
  | View => (s, RView (wire s) (is_some (sk (eps s A))) (is_some (sk (eps s B))))
  end.

Definition init_ep : endpoint :=
  {| sk := Some {| buf := []; next_seq := first_send_seq; recv_seq := first_recv_seq;
                  refs := N.to_nat stream_half_refs |};
     chan := []; rd := Some {| stash := None; closed := false |}; wr := Some false |}.

(* the state right after connect/accept completed *)
Definition init (cp : nat) (loop : bool) : sys :=
  {| eps := fun _ => init_ep; cred := fun _ => cp; cap := cp; wire := []; rdy := fun _ => [];
     cut := fun _ => false; lo := loop; lmark := O; gsent := fun _ => []; gpop := fun _ => O;
     gread := fun _ => []; glost := fun _ => false |}.

Fixpoint run (s : sys) (es : list ev) : sys * list res :=
  match es with
  | [] => (s, [])
  | e :: es' => let '(s1, o) := step s e in let '(s2, os) := run s1 es' in (s2, o :: os)
  end.

(* test data of the correspondence scripts: len bytes (s + i) mod 251 (large writes) *)
Fixpoint pat_aux (fuel : nat) (v : N) : list N :=
  match fuel with O => [] | S f => (v mod 251)%N :: pat_aux f (v + 1)%N end.
Definition pat (s len : N) : list N := pat_aux (N.to_nat len) s.

(* ---- plain-data encoding of the outputs (correspondence) ------------------------- *)

Definition enc_side (x : side) : N := match x with A => 0 | B => 1 end%N.
Definition enc_err (k : errkind) : N :=
  match k with WouldBlock => 1 | BrokenPipe => 2 | NotConnected => 3 | ConnectionReset => 4 end%N.
(* packet: [src; kind; seq; len]   kind 1 = data, 2 = fin, 3 = rst *)
Definition enc_pkt (m : side * pkt) : list N :=
  match snd m with
  | PSeg q (Data bs) => [enc_side (fst m); 1; q; N.of_nat (length bs)]
  | PSeg q Fin => [enc_side (fst m); 2; q; 0]
  | PRst => [enc_side (fst m); 3; 0; 0]
  end%N.
(* position-sensitive checksum of a long read result (printing 10^5 numbers is too slow) *)
Definition digest (bs : list N) : N :=
  snd (fold_left (fun (a : N * N) b => (fst a + 1, (snd a + (fst a + 1) * (b + 1)) mod 1000003))%N bs (0, 0)%N).

(* (tag, numbers, lists): 0 pending, 1 ok n, 2 ok bytes, 3 ok, 4 err k, 5 none, 6 invalid, 7 view,
   8 ok long bytes as [length; digest] *)
Definition enc_res (r : res) : N * list N * list (list N) :=
  match r with
  | RPending => (0, [], [])
  | ROkN n => (1, [N.of_nat n], [])
  | ROkBytes bs => if Nat.ltb 256 (length bs) then (8, [N.of_nat (length bs); digest bs], []) else (2, bs, [])
  | ROk => (3, [], [])
  | RErr k => (4, [enc_err k], [])
  | RNone => (5, [], [])
  | RInvalid => (6, [], [])
  | RView w a b => (7, [if a then 1 else 0; if b then 1 else 0], map enc_pkt w)
  end%N.
Definition run_enc (cp : nat) (loop : bool) (es : list ev) :=
  map enc_res (snd (run (init cp loop) es)).
