(* TV.Stream.Inv — the invariant of one direction of a connection, stated over
   the components the direction owns, and its preservation by each elementary
   move (send, reorganise the wire, lose, insert, drain, pop, read the stash,
   drop).  C02_proofs.v maps every model event onto these moves. *)
From TV.Lib Require Import Base.
From TV.Stream Require Import Gen Model Facts.
Close Scope N_scope.

Definition seg_at (sent : list seg) (q : N) (sg : seg) : Prop :=
  exists i, q = N.of_nat (S i) /\ nth_error sent i = Some sg.
Definition stash_bytes (r : reader) : list N := match stash r with Some bs => bs | None => [] end.
Definition rx_buf (rx : option (list (N * seg) * N)) : list (N * seg) :=
  match rx with Some (b, _) => b | None => [] end.

(* Direction x -> y.
   sent  ghost: every segment x stamped, in order      next  next_seq of x's socket (if it exists)
   wire  packets from x on the link                    rdy   packets matured for y, not yet received
   rx    (reorder buffer, recv_seq) of y's socket      chan  y's mpsc queue      rd  y's read half
   pop   ghost: segments y's reader took               read  ghost: bytes y's reads returned
   cred  credits of x's writer    wr  x's write half   lost  ghost: direction ever partitioned
   cutf  direction partitioned now                     cap   tcp_capacity *)
Record DI (sent : list seg) (next : option N) (wire rdy : list pkt) (rx : option (list (N * seg) * N))
  (chan : list seg) (rd : option reader) (pop : nat) (read : list N) (cred : nat) (wr : option bool)
  (lost cutf : bool) (cap : nat) : Prop := {
  d_w : forall q sg, In (PSeg q sg) (wire ++ rdy) -> seg_at sent q sg;
  d_bf : forall q sg, In (q, sg) (rx_buf rx) -> seg_at sent q sg;
  d_n : forall n, next = Some n -> n = N.of_nat (S (length sent));
  d_pop : pop + length chan <= length sent;
  d_c : exists rest, skipn pop sent = chan ++ rest;
  d_r : exists tail, read ++ tail = bytes_of (firstn pop sent) /\
                     (forall r, rd = Some r -> tail = stash_bytes r);
  d_q : forall b r, rx = Some (b, r) -> rd <> None -> r = N.of_nat (pop + length chan);
  d_f : forall i, nth_error sent i = Some Fin -> S i = length sent;
  d_fw : In Fin sent -> wr <> Some false;
  d_cr : cred + ndata_pkt wire + ndata_pkt rdy + ndata_buf (rx_buf rx) + ndata_seg chan <= cap;
  d_st : forall r bs, rd = Some r -> stash r = Some bs -> bs <> [] /\ closed r = false;
  d_cl : forall r, rd = Some r -> (closed r = true <-> In Fin (firstn pop sent));
  d_cut : cutf = true -> lost = true;
  d_a : lost = false -> forall b r, rx = Some (b, r) -> forall i, i < length sent ->
        (N.of_nat (S i) <= r)%N \/ lookup (N.of_nat (S i)) b <> None \/
        exists sg, In (PSeg (N.of_nat (S i)) sg) (wire ++ rdy);
  d_dat : forall bs, In (Data bs) sent -> bs <> []
}.

Ltac di_split H :=
  destruct H as [Hw Hbf Hn Hpop Hc Hr Hq Hf Hfw Hcr Hst Hcl Hcut Ha Hdat].

Lemma seg_at_app sent sg q s : seg_at sent q s -> seg_at (sent ++ [sg]) q s.
Proof. intros (i & -> & Hi). exists i. split; [reflexivity|]. now apply nth_error_app_l. Qed.

Lemma seg_at_new sent sg : seg_at (sent ++ [sg]) (N.of_nat (S (length sent))) sg.
Proof. exists (length sent). split; [reflexivity|apply nth_error_snoc]. Qed.

Lemma in_mid {T} (a : T) l1 l2 x : In x (l1 ++ l2) -> In x ((l1 ++ [a]) ++ l2).
Proof. rewrite <- app_assoc. intros H. apply in_app_or in H as [H|H]; apply in_or_app; [now left|right; now right]. Qed.

Lemma lookup_cons q q' s b : lookup q ((q', s) :: b) = if N.eqb q q' then Some s else lookup q b.
Proof. reflexivity. Qed.

(* ---- initial state -------------------------------------------------------- *)

Lemma DI_init cp :
  DI [] (Some first_send_seq) [] [] (Some ([], first_recv_seq)) []
     (Some {| stash := None; closed := false |}) 0 [] cp (Some false) false false cp.
Proof.
  constructor; cbn; try tauto; try (intros; discriminate); try lia.
  - intros n [= <-]. reflexivity.
  - eexists; reflexivity.
  - exists (@nil N). split; [reflexivity|]. intros r [= <-]. reflexivity.
  - intros b r [= <- <-] _. reflexivity.
  - intros [|i]; discriminate.
  - intros r bs [= <-]. discriminate.
  - intros r [= <-]. cbn. split; [discriminate|tauto].
Qed.

(* ---- weakenings --------------------------------------------------------------- *)

Lemma L_cred sent next wire rdy rx chan rd pop read c c' wr lost cutf cap :
  c' <= c ->
  DI sent next wire rdy rx chan rd pop read c wr lost cutf cap ->
  DI sent next wire rdy rx chan rd pop read c' wr lost cutf cap.
Proof. intros Hle H. di_split H. constructor; auto. lia. Qed.

Lemma L_next_none sent next wire rdy rx chan rd pop read c wr lost cutf cap :
  DI sent next wire rdy rx chan rd pop read c wr lost cutf cap ->
  DI sent None wire rdy rx chan rd pop read c wr lost cutf cap.
Proof. intros H. di_split H. constructor; auto. discriminate. Qed.

Lemma L_rx_none sent next wire rdy rx chan rd pop read c wr lost cutf cap :
  DI sent next wire rdy rx chan rd pop read c wr lost cutf cap ->
  DI sent next wire rdy None chan rd pop read c wr lost cutf cap.
Proof.
  intros H. di_split H. constructor; auto; cbn; try tauto; try discriminate.
  lia.
Qed.

Lemma L_wr sent next wire rdy rx chan rd pop read c wr wr' lost cutf cap :
  wr' <> Some false ->
  DI sent next wire rdy rx chan rd pop read c wr lost cutf cap ->
  DI sent next wire rdy rx chan rd pop read c wr' lost cutf cap.
Proof. intros Hne H. di_split H. constructor; auto. Qed.

Lemma L_cutf sent next wire rdy rx chan rd pop read c wr lost cutf cap :
  DI sent next wire rdy rx chan rd pop read c wr lost cutf cap ->
  DI sent next wire rdy rx chan rd pop read c wr lost false cap.
Proof. intros H. di_split H. constructor; auto. discriminate. Qed.

(* ---- sending ------------------------------------------------------------------- *)

Lemma L_send_data sent n wire rdy rx chan rd pop read c lost cutf cap bs :
  bs <> [] ->
  DI sent (Some n) wire rdy rx chan rd pop read (S c) (Some false) lost cutf cap ->
  DI (sent ++ [Data bs]) (Some (n + 1)%N) (wire ++ [PSeg n (Data bs)]) rdy rx chan rd pop read c
     (Some false) lost cutf cap.
Proof.
  intros Hbs H. di_split H. pose proof (Hn _ eq_refl) as ->.
  assert (Hnofin : ~ In Fin sent) by (intros Hin; now apply Hfw in Hin).
  constructor; try assumption.
  - intros q sg Hin. rewrite <- app_assoc in Hin. apply in_app_or in Hin as [Hin|Hin].
    + apply seg_at_app, Hw, in_or_app; now left.
    + destruct Hin as [[= <- <-]|Hin]; [apply seg_at_new|]. apply seg_at_app, Hw, in_or_app; now right.
  - intros q sg Hin. apply seg_at_app; auto.
  - intros n' [= <-]. rewrite app_length. cbn. lia.
  - rewrite app_length; cbn; lia.
  - destruct Hc as [rest Hc]. exists (rest ++ [Data bs]). rewrite skipn_snoc by lia. rewrite Hc. now rewrite app_assoc.
  - rewrite firstn_snoc by lia. exact Hr.
  - intros i Hi. destruct (Nat.lt_ge_cases i (length sent)) as [Hlt|Hge].
    + rewrite nth_error_app1 in Hi by exact Hlt. exfalso. apply Hnofin. eapply nth_error_In; eauto.
    + rewrite nth_error_app2 in Hi by exact Hge. destruct (i - length sent) as [|[|m]] eqn:E; cbn in Hi; discriminate.
  - intros Hin. apply in_app_or in Hin as [Hin|[Hin|[]]]; [tauto|discriminate].
  - rewrite ndata_pkt_app. cbn. lia.
  - intros r Hr'. rewrite firstn_snoc by lia. auto.
  - intros Hl b r Hrx i Hi. rewrite app_length in Hi; cbn in Hi.
    destruct (Nat.eq_dec i (length sent)) as [->|Hne].
    + right; right. exists (Data bs). rewrite <- app_assoc. apply in_or_app; right. now left.
    + destruct (Ha Hl b r Hrx i ltac:(lia)) as [H1|[H1|[sg H1]]]; auto.
      right; right. exists sg. now apply in_mid.
  - intros bs' Hin. apply in_app_or in Hin as [Hin|[[= <-]|[]]]; auto.
Qed.

Lemma L_send_fin sent n wire rdy rx chan rd pop read c wr' lost cutf cap :
  wr' <> Some false ->
  DI sent (Some n) wire rdy rx chan rd pop read c (Some false) lost cutf cap ->
  DI (sent ++ [Fin]) (Some (n + 1)%N) (wire ++ [PSeg n Fin]) rdy rx chan rd pop read c wr' lost cutf cap.
Proof.
  intros Hwr H. di_split H. pose proof (Hn _ eq_refl) as ->.
  assert (Hnofin : ~ In Fin sent) by (intros Hin; now apply Hfw in Hin).
  constructor; try assumption.
  - intros q sg Hin. rewrite <- app_assoc in Hin. apply in_app_or in Hin as [Hin|Hin].
    + apply seg_at_app, Hw, in_or_app; now left.
    + destruct Hin as [[= <- <-]|Hin]; [apply seg_at_new|]. apply seg_at_app, Hw, in_or_app; now right.
  - intros q sg Hin. apply seg_at_app; auto.
  - intros n' [= <-]. rewrite app_length. cbn. lia.
  - rewrite app_length; cbn; lia.
  - destruct Hc as [rest Hc]. exists (rest ++ [Fin]). rewrite skipn_snoc by lia. rewrite Hc. now rewrite app_assoc.
  - rewrite firstn_snoc by lia. exact Hr.
  - intros i Hi. destruct (Nat.lt_ge_cases i (length sent)) as [Hlt|Hge].
    + rewrite nth_error_app1 in Hi by exact Hlt. exfalso. apply Hnofin. eapply nth_error_In; eauto.
    + rewrite nth_error_app2 in Hi by exact Hge. destruct (i - length sent) as [|[|m]] eqn:E; cbn in Hi; try discriminate.
      rewrite app_length; cbn. lia.
  - intros _; exact Hwr.
  - rewrite ndata_pkt_app. cbn. lia.
  - intros r Hr'. rewrite firstn_snoc by lia. auto.
  - intros Hl b r Hrx i Hi. rewrite app_length in Hi; cbn in Hi.
    destruct (Nat.eq_dec i (length sent)) as [->|Hne].
    + right; right. exists Fin. rewrite <- app_assoc. apply in_or_app; right. now left.
    + destruct (Ha Hl b r Hrx i ltac:(lia)) as [H1|[H1|[sg H1]]]; auto.
      right; right. exists sg. now apply in_mid.
  - intros bs' Hin. apply in_app_or in Hin as [Hin|[[=]|[]]]; auto.
Qed.

(* the same two moves while the direction is partitioned: the packet is dropped *)
Lemma L_send_data_cut sent n wire rdy rx chan rd pop read c lost cap bs :
  bs <> [] ->
  DI sent (Some n) wire rdy rx chan rd pop read (S c) (Some false) lost true cap ->
  DI (sent ++ [Data bs]) (Some (n + 1)%N) wire rdy rx chan rd pop read c (Some false) lost true cap.
Proof.
  intros Hbs H. di_split H. pose proof (Hn _ eq_refl) as ->. pose proof (Hcut eq_refl) as ->.
  assert (Hnofin : ~ In Fin sent) by (intros Hin; now apply Hfw in Hin).
  constructor; try assumption.
  - intros q sg Hin. apply seg_at_app; auto.
  - intros q sg Hin. apply seg_at_app; auto.
  - intros n' [= <-]. rewrite app_length. cbn. lia.
  - rewrite app_length; cbn; lia.
  - destruct Hc as [rest Hc]. exists (rest ++ [Data bs]). rewrite skipn_snoc by lia. rewrite Hc. now rewrite app_assoc.
  - rewrite firstn_snoc by lia. exact Hr.
  - intros i Hi. destruct (Nat.lt_ge_cases i (length sent)) as [Hlt|Hge].
    + rewrite nth_error_app1 in Hi by exact Hlt. exfalso. apply Hnofin. eapply nth_error_In; eauto.
    + rewrite nth_error_app2 in Hi by exact Hge. destruct (i - length sent) as [|[|m]] eqn:E; cbn in Hi; discriminate.
  - intros Hin. apply in_app_or in Hin as [Hin|[Hin|[]]]; [tauto|discriminate].
  - lia.
  - intros r Hr'. rewrite firstn_snoc by lia. auto.
  - discriminate.
  - intros bs' Hin. apply in_app_or in Hin as [Hin|[[= <-]|[]]]; auto.
Qed.

Lemma L_send_fin_cut sent n wire rdy rx chan rd pop read c wr' lost cap :
  wr' <> Some false ->
  DI sent (Some n) wire rdy rx chan rd pop read c (Some false) lost true cap ->
  DI (sent ++ [Fin]) (Some (n + 1)%N) wire rdy rx chan rd pop read c wr' lost true cap.
Proof.
  intros Hwr H. di_split H. pose proof (Hn _ eq_refl) as ->. pose proof (Hcut eq_refl) as ->.
  assert (Hnofin : ~ In Fin sent) by (intros Hin; now apply Hfw in Hin).
  constructor; try assumption.
  - intros q sg Hin. apply seg_at_app; auto.
  - intros q sg Hin. apply seg_at_app; auto.
  - intros n' [= <-]. rewrite app_length. cbn. lia.
  - rewrite app_length; cbn; lia.
  - destruct Hc as [rest Hc]. exists (rest ++ [Fin]). rewrite skipn_snoc by lia. rewrite Hc. now rewrite app_assoc.
  - rewrite firstn_snoc by lia. exact Hr.
  - intros i Hi. destruct (Nat.lt_ge_cases i (length sent)) as [Hlt|Hge].
    + rewrite nth_error_app1 in Hi by exact Hlt. exfalso. apply Hnofin. eapply nth_error_In; eauto.
    + rewrite nth_error_app2 in Hi by exact Hge. destruct (i - length sent) as [|[|m]] eqn:E; cbn in Hi; try discriminate.
      rewrite app_length; cbn. lia.
  - intros _; exact Hwr.
  - intros r Hr'. rewrite firstn_snoc by lia. auto.
  - discriminate.
  - intros bs' Hin. apply in_app_or in Hin as [Hin|[[=]|[]]]; auto.
Qed.

(* ---- the network: reorganise, lose ----------------------------------------------- *)

(* wire/rdy are rearranged (matured, a RST appended or removed) keeping the
   sequenced segments and the number of data packets *)
Lemma L_reorg sent next wire rdy wire' rdy' rx chan rd pop read c wr lost cutf cap :
  (forall q sg, In (PSeg q sg) (wire' ++ rdy') <-> In (PSeg q sg) (wire ++ rdy)) ->
  ndata_pkt wire' + ndata_pkt rdy' = ndata_pkt wire + ndata_pkt rdy ->
  DI sent next wire rdy rx chan rd pop read c wr lost cutf cap ->
  DI sent next wire' rdy' rx chan rd pop read c wr lost cutf cap.
Proof.
  intros Hin Hnd H. di_split H. constructor; try assumption.
  - intros q sg Hq0. apply Hw, Hin, Hq0.
  - lia.
  - intros Hl b r Hrx i Hi. destruct (Ha Hl b r Hrx i Hi) as [H1|[H1|[sg H1]]]; auto.
    right; right. exists sg. now apply Hin.
Qed.

(* packets disappear: partition, or delivery to a host without the socket *)
Lemma L_shrink sent next wire rdy wire' rdy' rx chan rd pop read c wr lost lost' cutf cutf' cap :
  (forall q sg, In (PSeg q sg) (wire' ++ rdy') -> In (PSeg q sg) (wire ++ rdy)) ->
  ndata_pkt wire' + ndata_pkt rdy' <= ndata_pkt wire + ndata_pkt rdy ->
  (lost' = true \/ rx = None) -> (cutf' = true -> lost' = true) ->
  DI sent next wire rdy rx chan rd pop read c wr lost cutf cap ->
  DI sent next wire' rdy' rx chan rd pop read c wr lost' cutf' cap.
Proof.
  intros Hin Hnd Hl' Hc' H. di_split H. constructor; try assumption.
  - intros q sg Hq0. apply Hw, Hin, Hq0.
  - lia.
  - intros Hl b r Hrx. destruct Hl' as [Hl'|Hl']; congruence.
Qed.

(* ---- receiving: insert into the reorder buffer ------------------------------------- *)

Lemma L_insert sent next wire rdy b r chan rd pop read c wr lost cutf cap q sg :
  DI sent next wire (PSeg q sg :: rdy) (Some (b, r)) chan rd pop read c wr lost cutf cap ->
  DI sent next wire rdy (Some ((q, sg) :: b, r)) chan rd pop read c wr lost cutf cap.
Proof.
  intros H. di_split H. constructor; try assumption.
  - intros q' sg' Hin. apply Hw. apply in_app_or in Hin as [Hin|Hin]; apply in_or_app; [now left|right; now right].
  - cbn. intros q' sg' [[= <- <-]|Hin]; [|apply Hbf; exact Hin].
    apply Hw, in_or_app. right; now left.
  - intros b' r' [= <- <-] Hrd. eapply Hq; eauto.
  - cbn in *. unfold ndata_pkt, ndata_buf in *. cbn in *. destruct sg; cbn in *; lia.
  - intros Hl b' r' [= <- <-] i Hi.
    destruct (Ha Hl b r eq_refl i Hi) as [H1|[H1|[sg' H1]]]; auto.
    + right; left. rewrite lookup_cons. destruct (N.eqb (N.of_nat (S i)) q); [discriminate|exact H1].
    + apply in_app_or in H1 as [H1|[H1|H1]].
      * right; right. exists sg'. apply in_or_app; now left.
      * injection H1 as E1 E2. right; left. rewrite lookup_cons. change (N.pos (Pos.of_succ_nat i)) with (N.of_nat (S i)) in E1.
        rewrite E1, N.eqb_refl. discriminate.
      * right; right. exists sg'. apply in_or_app; now right.
Qed.

(* ---- drain ------------------------------------------------------------------------------ *)

Lemma L_drain1 sent next wire rdy b r chan rd pop read c wr lost cutf cap sg :
  rd <> None -> lookup (r + 1)%N b = Some sg ->
  DI sent next wire rdy (Some (b, r)) chan rd pop read c wr lost cutf cap ->
  DI sent next wire rdy (Some (remove1 (r + 1)%N b, (r + 1)%N)) (chan ++ [sg]) rd pop read c wr lost cutf cap.
Proof.
  intros Hrd Hlk H. di_split H.
  pose proof (Hq b r eq_refl Hrd) as Hr0.
  assert (Hat : nth_error sent (pop + length chan) = Some sg).
  { apply lookup_in in Hlk. apply (Hbf _ _) in Hlk as (i & Hi & Hnth). cbn in *.
    replace (pop + length chan) with i by lia. exact Hnth. }
  destruct Hc as [rest Hc].
  assert (Hrest : exists rest', rest = sg :: rest').
  { pose proof (nth_error_skipn sent pop (length chan)) as E. rewrite Hc, Hat in E.
    rewrite nth_error_app2 in E by lia. rewrite Nat.sub_diag in E.
    destruct rest; cbn in E; [discriminate|]. injection E as ->. eauto. }
  destruct Hrest as [rest' ->].
  constructor; try assumption.
  - cbn. intros q' sg' Hin. apply Hbf. cbn. eapply remove1_in; eauto.
  - rewrite app_length; cbn. assert (pop + length chan < length sent) by (apply nth_error_Some; congruence). lia.
  - exists rest'. rewrite Hc, <- app_assoc. reflexivity.
  - intros b' r' [= <- <-] _. rewrite app_length; cbn. lia.
  - cbn [rx_buf] in *. rewrite ndata_seg_app. pose proof (ndata_buf_remove1 _ _ _ Hlk) as E.
    assert (E2 : ndata_seg [sg] = if is_data sg then 1 else 0) by (destruct sg; reflexivity). lia.
  - intros Hl b' r' [= <- <-] i Hi.
    destruct (Ha Hl b r eq_refl i Hi) as [H1|[H1|H1]]; auto.
    + left. lia.
    + destruct (N.eq_dec (N.of_nat (S i)) (r + 1)%N) as [E|E]; [left; lia|].
      right; left. rewrite lookup_remove1_ne; auto.
Qed.

Lemma L_drain_closed sent next wire rdy b r chan pop read c wr lost cutf cap :
  DI sent next wire rdy (Some (b, r)) chan None pop read c wr lost cutf cap ->
  DI sent next wire rdy (Some (b, (r + 1)%N)) chan None pop read c wr lost cutf cap.
Proof.
  intros H. di_split H. constructor; try assumption.
  - intros b' r' _ Hne. congruence.
  - intros Hl b' r' [= <- <-] i Hi.
    destruct (Ha Hl b r eq_refl i Hi) as [H1|[H1|H1]]; auto. left; lia.
Qed.

Lemma L_drain sent next wire rdy chan rd pop read c wr lost cutf cap f al k k' ch' rst :
  (al = true -> rd <> None) -> (al = false -> rd = None) ->
  DI sent next wire rdy (Some (buf k, recv_seq k)) chan rd pop read c wr lost cutf cap ->
  drain f cap al k chan = (k', ch', rst) ->
  DI sent next wire rdy (Some (buf k', recv_seq k')) ch' rd pop read c wr lost cutf cap.
Proof.
  intros Ht Hf H Hd.
  eapply (drain_ind (fun b r ch => DI sent next wire rdy (Some (b, r)) ch rd pop read c wr lost cutf cap));
    [| |exact H|exact Hd].
  - intros b r ch sg HP Hlk Hal _. apply L_drain1; auto.
  - intros b r ch sg HP Hlk Hal. rewrite (Hf Hal) in *. apply L_drain_closed; auto.
Qed.

(* ---- the reader ------------------------------------------------------------------------ *)

Lemma L_pop_data sent next wire rdy rx ch r0 pop read c wr lost cutf cap bs :
  stash r0 = None -> closed r0 = false ->
  DI sent next wire rdy rx (Data bs :: ch) (Some r0) pop read c wr lost cutf cap ->
  DI sent next wire rdy rx ch (Some {| stash := Some bs; closed := false |}) (S pop) read (S c) wr lost cutf cap.
Proof.
  intros Hs Hcl0 H. di_split H. destruct Hc as [rest Hc].
  assert (Hat : nth_error sent pop = Some (Data bs)).
  { pose proof (nth_error_skipn sent pop 0) as E. rewrite Hc in E. cbn in E. now rewrite Nat.add_0_r in E. }
  constructor; try assumption.
  - cbn in *; lia.
  - exists rest. eapply skipn_S_nth. exact Hc.
  - destruct Hr as (tail & Hr1 & Hr2). specialize (Hr2 _ eq_refl). unfold stash_bytes in Hr2. rewrite Hs in Hr2.
    subst tail. exists bs. split.
    + rewrite (firstn_S_nth _ _ _ Hat), bytes_of_app, <- Hr1. cbn. now rewrite !app_nil_r.
    + intros r [= <-]. reflexivity.
  - intros b r Hrx _. rewrite (Hq b r Hrx ltac:(discriminate)). cbn. f_equal. lia.
  - change (ndata_seg (Data bs :: ch)) with (S (ndata_seg ch)) in Hcr. lia.
  - intros r bs' [= <-] [= <-]. split; [|reflexivity]. apply Hdat. eapply nth_error_In; eauto.
  - intros r [= <-]. cbn [closed]. rewrite (firstn_S_nth _ _ _ Hat). split; [discriminate|].
    intros Hin. apply in_app_or in Hin as [Hin|[Hin|[]]]; [|discriminate].
    apply (Hcl r0 eq_refl) in Hin. congruence.
Qed.

Lemma L_pop_fin sent next wire rdy rx ch r0 pop read c wr lost cutf cap :
  stash r0 = None -> closed r0 = false ->
  DI sent next wire rdy rx (Fin :: ch) (Some r0) pop read c wr lost cutf cap ->
  DI sent next wire rdy rx ch (Some {| stash := None; closed := true |}) (S pop) read c wr lost cutf cap.
Proof.
  intros Hs Hcl0 H. di_split H. destruct Hc as [rest Hc].
  assert (Hat : nth_error sent pop = Some Fin).
  { pose proof (nth_error_skipn sent pop 0) as E. rewrite Hc in E. cbn in E. now rewrite Nat.add_0_r in E. }
  constructor; try assumption.
  - cbn in *; lia.
  - exists rest. eapply skipn_S_nth. exact Hc.
  - destruct Hr as (tail & Hr1 & Hr2). specialize (Hr2 _ eq_refl). unfold stash_bytes in Hr2. rewrite Hs in Hr2.
    subst tail. exists []. split.
    + rewrite (firstn_S_nth _ _ _ Hat), bytes_of_app, <- Hr1. cbn. now rewrite !app_nil_r.
    + intros r [= <-]. reflexivity.
  - intros b r Hrx _. rewrite (Hq b r Hrx ltac:(discriminate)). cbn. f_equal. lia.
  - intros r bs' [= <-] [=].
  - intros r [= <-]. cbn [closed]. rewrite (firstn_S_nth _ _ _ Hat). split; [|reflexivity].
    intros _. apply in_or_app. right; now left.
Qed.

Lemma L_stash_read sent next wire rdy rx chan r0 pop read c wr lost cutf cap bs n :
  stash r0 = Some bs ->
  DI sent next wire rdy rx chan (Some r0) pop read c wr lost cutf cap ->
  DI sent next wire rdy rx chan (Some {| stash := snd (take_stash bs n); closed := false |}) pop
     (read ++ fst (take_stash bs n)) c wr lost cutf cap.
Proof.
  intros Hs H. di_split H. destruct (Hst r0 bs eq_refl Hs) as [Hne Hcl0].
  constructor; try assumption.
  - destruct Hr as (tail & Hr1 & Hr2). specialize (Hr2 _ eq_refl). unfold stash_bytes in Hr2. rewrite Hs in Hr2.
    subst tail. exists (skipn n bs). split.
    + cbn. rewrite <- app_assoc, firstn_skipn. exact Hr1.
    + intros r [= <-]. unfold stash_bytes. cbn. destruct (skipn n bs); reflexivity.
  - intros b r Hrx _. apply (Hq b r Hrx). discriminate.
  - intros r bs' [= <-]. cbn. destruct (skipn n bs) eqn:E; [discriminate|]. intros [= <-]. split; [discriminate|reflexivity].
  - intros r [= <-]. cbn. rewrite <- (Hcl r0 eq_refl). rewrite Hcl0. tauto.
Qed.

Lemma L_drop_r sent next wire rdy rx chan rd pop read c wr lost cutf cap :
  DI sent next wire rdy rx chan rd pop read c wr lost cutf cap ->
  DI sent next wire rdy rx [] None pop read c wr lost cutf cap.
Proof.
  intros H. di_split H. constructor; try assumption; try discriminate.
  - cbn. lia.
  - eexists. reflexivity.
  - destruct Hr as (tail & Hr1 & _). exists tail. split; [exact Hr1|discriminate].
  - intros b r _ Hne. congruence.
  - unfold ndata_seg in *. cbn. lia.
Qed.

(* prefix safety, read off the invariant *)
Lemma DI_prefix sent next wire rdy rx chan rd pop read c wr lost cutf cap :
  DI sent next wire rdy rx chan rd pop read c wr lost cutf cap ->
  forall r, rd = Some r -> prefix (read ++ stash_bytes r) (bytes_of sent).
Proof.
  intros H r Hrd. di_split H. destruct Hr as (tail & Hr1 & Hr2). rewrite <- (Hr2 _ Hrd), Hr1.
  apply prefix_bytes_firstn.
Qed.

Lemma DI_prefix_read sent next wire rdy rx chan rd pop read c wr lost cutf cap :
  DI sent next wire rdy rx chan rd pop read c wr lost cutf cap -> prefix read (bytes_of sent).
Proof.
  intros H. di_split H. destruct Hr as (tail & Hr1 & _).
  eapply prefix_trans; [apply prefix_app|]. rewrite Hr1. apply prefix_bytes_firstn.
Qed.

(* ---- a data segment never meets a full channel --------------------------------------- *)

Lemma ndata_seg_all l : (forall s, In s l -> s <> Fin) -> ndata_seg l = length l.
Proof.
  unfold ndata_seg. induction l as [|a l IH]; intros H; cbn; [reflexivity|].
  destruct a as [bs|]; cbn; [f_equal; apply IH; intros s Hs; apply H; now right|].
  exfalso. apply (H Fin); [now left|reflexivity].
Qed.

Lemma ndata_buf_pos b q bs : In (q, Data bs) b -> 1 <= ndata_buf b.
Proof.
  unfold ndata_buf. induction b as [|[q' s'] b IH]; cbn; [tauto|].
  intros [[= -> ->]|H]; cbn; [lia|]. specialize (IH H). destruct (is_data s'); cbn; lia.
Qed.

Lemma DI_full_fin sent next wire rdy b r chan rd pop read c wr lost cutf cap sg :
  DI sent next wire rdy (Some (b, r)) chan rd pop read c wr lost cutf cap ->
  rd <> None -> lookup (r + 1)%N b = Some sg -> length chan = cap -> sg = Fin.
Proof.
  intros H Hrd Hlk Hfull. di_split H.
  pose proof (Hq b r eq_refl Hrd) as Hr0.
  assert (Hat : nth_error sent (pop + length chan) = Some sg).
  { apply lookup_in in Hlk. apply (Hbf _ _) in Hlk as (i & Hi & Hnth).
    replace (pop + length chan) with i by lia. exact Hnth. }
  assert (Hlt : pop + length chan < length sent) by (apply nth_error_Some; congruence).
  destruct Hc as [rest Hc].
  assert (Hall : forall s, In s chan -> s <> Fin).
  { intros s Hin ->. apply In_nth_error in Hin as [j Hj].
    assert (Hjl : j < length chan) by (apply nth_error_Some; congruence).
    pose proof (nth_error_skipn sent pop j) as E. rewrite Hc, nth_error_app1, Hj in E by exact Hjl.
    symmetry in E. apply Hf in E. lia. }
  destruct sg as [bs|]; [|reflexivity]. exfalso.
  apply lookup_in in Hlk. apply ndata_buf_pos in Hlk. cbn [rx_buf] in Hcr.
  rewrite (ndata_seg_all _ Hall) in Hcr. lia.
Qed.

(* ---- completeness: no deadlock and EOF means everything was read --------------------- *)

Lemma fin_index sent i : (forall j, nth_error sent j = Some Fin -> S j = length sent) ->
  In Fin (firstn i sent) -> length sent <= i.
Proof.
  intros Hf Hin. apply In_nth_error in Hin as [j Hj].
  assert (Hjl : j < length (firstn i sent)) by (apply nth_error_Some; congruence).
  rewrite firstn_length in Hjl.
  assert (E : nth_error sent j = Some Fin).
  { rewrite <- (firstn_skipn i sent). rewrite nth_error_app1; [exact Hj|]. rewrite firstn_length. lia. }
  apply Hf in E. lia.
Qed.

(* a reader that is not at EOF and has nothing stashed finds a segment queued *)
Lemma DI_no_pending sent next wire rdy b r rr pop read c wr cutf cap :
  DI sent next wire rdy (Some (b, r)) [] (Some rr) pop read c wr false cutf cap ->
  closed rr = false -> In Fin sent ->
  (forall q sg, ~ In (PSeg q sg) (wire ++ rdy)) ->
  (lookup (r + 1)%N b <> None -> 0 = cap) -> 0 < cap -> False.
Proof.
  intros H Hcl0 Hfin Hq0 Hex Hcap. di_split H.
  pose proof (Hq b r eq_refl ltac:(discriminate)) as Hr0. cbn in Hr0. rewrite Nat.add_0_r in Hr0.
  assert (Hlt : pop < length sent).
  { destruct (Nat.lt_ge_cases pop (length sent)) as [Hl|Hge]; [exact Hl|].
    exfalso. rewrite firstn_all2 in Hcl by exact Hge. apply (Hcl rr eq_refl) in Hfin. congruence. }
  destruct (Ha eq_refl b r eq_refl pop Hlt) as [H1|[H1|[sg H1]]].
  - lia.
  - replace (N.of_nat (S pop)) with (r + 1)%N in H1 by lia. apply Hex in H1. lia.
  - eapply Hq0; eauto.
Qed.

Lemma DI_eof sent next wire rdy rx chan rr pop read c wr lost cutf cap :
  DI sent next wire rdy rx chan (Some rr) pop read c wr lost cutf cap ->
  closed rr = true -> read = bytes_of sent.
Proof.
  intros H Hcl1. di_split H.
  destruct Hr as (tail & Hr1 & Hr2). specialize (Hr2 rr eq_refl).
  assert (Hs : stash rr = None).
  { destruct (stash rr) as [bs|] eqn:E; [|reflexivity]. destruct (Hst rr bs eq_refl E). congruence. }
  unfold stash_bytes in Hr2. rewrite Hs in Hr2. subst tail. rewrite app_nil_r in Hr1.
  apply (Hcl rr eq_refl) in Hcl1. apply fin_index in Hcl1; [|exact Hf].
  rewrite firstn_all2 in Hr1 by exact Hcl1. exact Hr1.
Qed.
