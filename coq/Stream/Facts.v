(* TV.Stream.Facts — list / reorder-buffer / drain lemmas shared by the C02 proofs. *)
From TV.Lib Require Import Base.
From TV.Stream Require Import Gen Model.
Close Scope N_scope.

(* ---- small list facts ---------------------------------------------------- *)

Lemma nth_error_app_l {T} (l1 l2 : list T) i x :
  nth_error l1 i = Some x -> nth_error (l1 ++ l2) i = Some x.
Proof.
  intros H. rewrite nth_error_app1; auto. apply nth_error_Some. congruence.
Qed.

Lemma nth_error_snoc {T} (l : list T) x : nth_error (l ++ [x]) (length l) = Some x.
Proof. rewrite nth_error_app2 by lia. rewrite Nat.sub_diag. reflexivity. Qed.

Lemma skipn_snoc {T} (l : list T) x n : n <= length l -> skipn n (l ++ [x]) = skipn n l ++ [x].
Proof. intros H. rewrite skipn_app. replace (n - length l) with 0 by lia. reflexivity. Qed.

Lemma firstn_snoc {T} (l : list T) x n : n <= length l -> firstn n (l ++ [x]) = firstn n l.
Proof. intros H. rewrite firstn_app. replace (n - length l) with 0 by lia. cbn. apply app_nil_r. Qed.

Lemma nth_error_skipn {T} (l : list T) n i : nth_error (skipn n l) i = nth_error l (n + i).
Proof.
  revert l; induction n as [|n IH]; intros l; cbn; [reflexivity|].
  destruct l; cbn; [destruct i; reflexivity|apply IH].
Qed.

Lemma firstn_S_nth {T} (l : list T) n x :
  nth_error l n = Some x -> firstn (S n) l = firstn n l ++ [x].
Proof.
  revert l; induction n as [|n IH]; intros [|a l] H; cbn in *; try discriminate.
  - injection H as ->. reflexivity.
  - f_equal. apply IH, H.
Qed.

Lemma skipn_S_nth {T} (l : list T) n x r :
  skipn n l = x :: r -> skipn (S n) l = r.
Proof.
  revert l; induction n as [|n IH]; intros [|a l] H; cbn in *; try discriminate.
  - injection H as _ ->. reflexivity.
  - destruct l; [destruct n; discriminate|]. apply IH in H. exact H.
Qed.

Lemma bytes_of_app l1 l2 : bytes_of (l1 ++ l2) = bytes_of l1 ++ bytes_of l2.
Proof. unfold bytes_of. apply flat_map_app. Qed.

Definition prefix {T} (a b : list T) : Prop := exists c, b = a ++ c.

Lemma prefix_refl {T} (a : list T) : prefix a a.
Proof. exists []. symmetry; apply app_nil_r. Qed.
Lemma prefix_trans {T} (a b c : list T) : prefix a b -> prefix b c -> prefix a c.
Proof. intros [x ->] [y ->]. exists (x ++ y). now rewrite app_assoc. Qed.
Lemma prefix_app {T} (a b : list T) : prefix a (a ++ b).
Proof. now exists b. Qed.
Lemma prefix_firstn {T} (l : list T) n : prefix (firstn n l) l.
Proof. exists (skipn n l). symmetry; apply firstn_skipn. Qed.
Lemma prefix_bytes_firstn l n : prefix (bytes_of (firstn n l)) (bytes_of l).
Proof.
  exists (bytes_of (skipn n l)). rewrite <- bytes_of_app, firstn_skipn. reflexivity.
Qed.
Lemma prefix_app_r {T} (a b c : list T) : prefix a b -> prefix a (b ++ c).
Proof. intros [x ->]. exists (x ++ c). now rewrite app_assoc. Qed.

(* ---- upd ---------------------------------------------------------------- *)

Lemma upd_same {T} (f : side -> T) x v : upd f x v x = v.
Proof. unfold upd. destruct x; reflexivity. Qed.
Lemma upd_other {T} (f : side -> T) x v : upd f x v (other x) = f (other x).
Proof. unfold upd. destruct x; reflexivity. Qed.
Lemma upd_other' {T} (f : side -> T) x v : upd f (other x) v x = f x.
Proof. unfold upd. destruct x; reflexivity. Qed.

(* ---- reorder buffer ------------------------------------------------------ *)

Definition ndata_seg (l : list seg) : nat := length (filter is_data l).
Definition pkt_is_data (p : pkt) := match p with PSeg _ (Data _) => true | _ => false end.
Definition ndata_pkt (l : list pkt) : nat := length (filter pkt_is_data l).
Definition ndata_buf (b : list (N * seg)) : nat := length (filter (fun qs => is_data (snd qs)) b).

Lemma ndata_seg_app a b : ndata_seg (a ++ b) = ndata_seg a + ndata_seg b.
Proof. unfold ndata_seg. rewrite filter_app, app_length. reflexivity. Qed.
Lemma ndata_pkt_app a b : ndata_pkt (a ++ b) = ndata_pkt a + ndata_pkt b.
Proof. unfold ndata_pkt. rewrite filter_app, app_length. reflexivity. Qed.

Lemma lookup_in q b sg : lookup q b = Some sg -> In (q, sg) b.
Proof.
  induction b as [|[q' s'] b IH]; cbn; [discriminate|].
  destruct (N.eqb_spec q q') as [->|Hn]; [intros [= ->]; now left|intros H; right; auto].
Qed.

Lemma in_lookup q b sg : In (q, sg) b -> lookup q b <> None.
Proof.
  induction b as [|[q' s'] b IH]; cbn; [tauto|].
  intros [[= -> ->]|H]; [rewrite N.eqb_refl; discriminate|].
  destruct (N.eqb q q'); [discriminate|auto].
Qed.

Lemma remove1_in q b x : In x (remove1 q b) -> In x b.
Proof.
  induction b as [|[q' s'] b IH]; cbn; [tauto|].
  destruct (N.eqb q q'); [now right|]. intros [<-|H]; [now left|right; auto].
Qed.

Lemma lookup_remove1_ne q q' b : q' <> q -> lookup q' (remove1 q b) = lookup q' b.
Proof.
  intros Hne. induction b as [|[q0 s0] b IH]; cbn; [reflexivity|].
  destruct (N.eqb_spec q q0) as [->|Hn].
  - destruct (N.eqb_spec q' q0); [congruence|reflexivity].
  - cbn. rewrite IH. reflexivity.
Qed.

Lemma ndata_buf_remove1 q b sg :
  lookup q b = Some sg -> ndata_buf b = ndata_buf (remove1 q b) + (if is_data sg then 1 else 0).
Proof.
  unfold ndata_buf. induction b as [|[q0 s0] b IH]; cbn; [discriminate|].
  destruct (N.eqb_spec q q0) as [->|Hn].
  - intros [= ->]. destruct (is_data sg); cbn; lia.
  - intros H. apply IH in H. cbn. destruct (is_data s0); cbn; lia.
Qed.

Lemma length_remove1 q b sg : lookup q b = Some sg -> length b = S (length (remove1 q b)).
Proof.
  induction b as [|[q0 s0] b IH]; cbn; [discriminate|].
  destruct (N.eqb_spec q q0) as [->|Hn]; [reflexivity|]. intros H. cbn. f_equal. auto.
Qed.

(* ---- drain --------------------------------------------------------------- *)

(* One successful iteration of the loop of StreamSocket::drain. *)
Definition drain_iter (k : sock) : sock :=
  set_recv (set_buf k (remove1 (recv_seq k + 1)%N (buf k))) (recv_seq k + 1)%N.

(* drain keeps the fields it does not own *)
Lemma drain_next f cp al k ch k' ch' rst :
  drain f cp al k ch = (k', ch', rst) -> next_seq k' = next_seq k /\ refs k' = refs k.
Proof.
  revert k ch. induction f as [|f IH]; intros k ch H; cbn in H.
  - injection H as <- _ _. auto.
  - destruct (lookup (recv_seq k + 1)%N (buf k)) eqn:E; [|injection H as <- _ _; auto].
    destruct al; cbn in H; [|injection H as <- _ _; auto].
    destruct (Nat.eqb (length ch) cp); [injection H as <- _ _; auto|].
    apply IH in H. cbn in H. exact H.
Qed.

(* Induction principle: any property preserved by one iteration and by the
   Closed exit holds after drain. *)
Lemma drain_ind (P : list (N * seg) -> N -> list seg -> Prop) cp al :
  (forall b r ch sg, P b r ch -> lookup (r + 1)%N b = Some sg -> al = true -> length ch <> cp ->
     P (remove1 (r + 1)%N b) (r + 1)%N (ch ++ [sg])) ->
  (forall b r ch sg, P b r ch -> lookup (r + 1)%N b = Some sg -> al = false -> P b (r + 1)%N ch) ->
  forall f k ch k' ch' rst,
    P (buf k) (recv_seq k) ch -> drain f cp al k ch = (k', ch', rst) -> P (buf k') (recv_seq k') ch'.
Proof.
  intros Hit Hcl. induction f as [|f IH]; intros k ch k' ch' rst HP H; cbn in H.
  - injection H as <- <- _. exact HP.
  - destruct (lookup (recv_seq k + 1)%N (buf k)) eqn:E; [|injection H as <- <- _; exact HP].
    destruct al eqn:Eal; cbn in H.
    + destruct (Nat.eqb_spec (length ch) cp) as [Hc|Hc]; [injection H as <- <- _; exact HP|].
      eapply IH in H; [exact H|]. cbn. eapply Hit; eauto.
    + injection H as <- <- _. cbn. eapply Hcl; eauto.
Qed.

(* Exit condition with enough fuel and a live reader: the next segment is
   missing or the channel is full. *)
Lemma drain_exit cp : forall f k ch k' ch' rst,
  length (buf k) <= f ->
  drain f cp true k ch = (k', ch', rst) ->
  rst = false /\ (lookup (recv_seq k' + 1)%N (buf k') = None \/ length ch' = cp).
Proof.
  induction f as [|f IH]; intros k ch k' ch' rst Hf H; cbn in H.
  - injection H as <- <- <-. split; [reflexivity|]. left.
    destruct (buf k); [reflexivity|cbn in Hf; lia].
  - destruct (lookup (recv_seq k + 1)%N (buf k)) eqn:E.
    + cbn in H. destruct (Nat.eqb_spec (length ch) cp) as [Hc|Hc].
      * injection H as <- <- <-. auto.
      * apply IH in H; [exact H|]. cbn. apply length_remove1 in E. lia.
    + injection H as <- <- <-. auto.
Qed.

(* the channel only grows by appending *)
Lemma drain_chan_app f cp al k ch k' ch' rst :
  drain f cp al k ch = (k', ch', rst) -> exists m, ch' = ch ++ m.
Proof.
  revert k ch. induction f as [|f IH]; intros k ch H; cbn in H.
  - injection H as _ <- _. exists []. now rewrite app_nil_r.
  - destruct (lookup (recv_seq k + 1)%N (buf k)); [|injection H as _ <- _; exists []; now rewrite app_nil_r].
    destruct al; cbn in H; [|injection H as _ <- _; exists []; now rewrite app_nil_r].
    destruct (Nat.eqb (length ch) cp); [injection H as _ <- _; exists []; now rewrite app_nil_r|].
    apply IH in H as [m ->]. exists (s :: m). now rewrite <- app_assoc.
Qed.

(* a dead reader never gets anything queued *)
Lemma drain_dead f cp k ch k' ch' rst :
  drain f cp false k ch = (k', ch', rst) -> ch' = ch /\ buf k' = buf k.
Proof.
  destruct f; cbn; intros H; [injection H as <- <- _; auto|].
  destruct (lookup (recv_seq k + 1)%N (buf k)); cbn in H; injection H as <- <- _; auto.
Qed.
