(* Property C02 — turmoil::net TCP delivers an intact, ordered byte stream and
   then EOF.  This file only states the theorems and closes them with the lemmas
   of C02_proofs.v; see DESIGN.md section 5 (C02).

   Model: TV.Stream.Model — one established connection, both endpoints, both
   directions, the wire (Link.sent), the matured queues (Link.deliverable) and
   the loopback path.  `run (init cap lo) es` executes an arbitrary event list:
   application calls on either end (TryWrite / Write / Shutdown / Read / Peek and
   the drops of either half), the network (any subset of the wire matures in any
   order at any time, partitions drop what is in flight and what is sent) and
   host turns (Drain).  Theorems quantify over all of them, over both
   directions x, every capacity and both routing modes. *)
From TV.Lib Require Import Base.
From TV.Stream Require Import Gen Model Facts Inv C02_proofs.
Close Scope N_scope.

(* Safety.  Whatever happens — any delivery order, loss, resets, drops of either
   half on either side — the bytes returned by the reads of one end form a
   prefix of the bytes the other end's writes accepted (nothing lost in the
   middle, duplicated, reordered or altered). *)
Theorem c02_prefix : forall cap lo es x,
  prefix (reads (other x) es (snd (run (init cap lo) es)))
         (accepted x es (snd (run (init cap lo) es))).
Proof. exact c02_prefix_lemma. Qed.

(* A peek returns bytes that continue what was read so far ... *)
Theorem c02_peek_prefix : forall cap lo es y n s' bs,
  step (final (init cap lo) es) (Peek y n) = (s', ROkBytes bs) ->
  prefix (reads y es (snd (run (init cap lo) es)) ++ bs)
         (accepted (other y) es (snd (run (init cap lo) es))).
Proof. exact c02_peek_lemma. Qed.

(* ... and the read that follows returns the same leading bytes. *)
Theorem c02_peek_then_read : forall s y n m s1 bs s2 rs,
  step s (Peek y n) = (s1, ROkBytes bs) -> step s1 (Read y m) = (s2, ROkBytes rs) -> 0 < m ->
  prefix bs rs \/ prefix rs bs.
Proof. exact c02_peek_then_read_lemma. Qed.

(* Flow control.  In every reachable state, with a live reader the next expected
   segment sits in the reorder buffer only if it is the FIN and the channel is
   full: a data segment never meets a full channel (so nothing accepted is
   discarded at the receiver), because credits + unread data segments never
   exceed tcp_capacity; and try_write reports WouldBlock exactly when the writer
   has no credit and the connection was not reset. *)
Theorem c02_no_overflow : forall cap lo es y k sg,
  let s := final (init cap lo) es in
  sk (eps s y) = Some k -> rd (eps s y) <> None ->
  lookup (recv_seq k + 1)%N (buf k) = Some sg ->
  sg = Fin /\ length (chan (eps s y)) = Model.cap s.
Proof. exact c02_no_overflow_lemma. Qed.

Theorem c02_credits : forall cap lo es x,
  let s := final (init cap lo) es in
  cred s x + ndata_pkt (pkts_from x (wire s)) + ndata_pkt (rdy s (other x)) +
  ndata_buf (rx_buf (rx_of (eps s (other x)))) + ndata_seg (chan (eps s (other x))) <= Model.cap s.
Proof. exact c02_credits_lemma. Qed.

Theorem c02_wouldblock_iff : forall s x bs,
  wr (eps s x) = Some false -> bs <> [] ->
  (snd (step s (TryWrite x bs)) = RErr WouldBlock <-> cred s x = 0 /\ sk (eps s x) <> None).
Proof. exact c02_wouldblock_lemma. Qed.

(* A writer that waits for credits does not stay blocked after the connection was reset:
   once the socket entry is gone (RST received, local reset) no write pends or reports
   WouldBlock any more (fix df5434b; the wake-up of the parked task is tokio's part). *)
Theorem c02_reset_unblocks : forall s x bs pf,
  sk (eps s x) = None ->
  snd (op_try_write pf s x bs) <> RPending /\ snd (op_try_write pf s x bs) <> RErr WouldBlock.
Proof. exact c02_reset_unblocks_lemma. Qed.

(* Delivery.  In every reachable state in which direction x was never cut off,
   none of its segments is in flight any more, the writer has shut down or
   dropped its write half (graceful close) and the receiving socket and reader
   are alive: reading with any buffer size n > 0 never pends and never fails;
   after at most `remaining` non-empty reads a read returns 0 bytes (EOF), and
   everything read on that end, before and now, is exactly what the writer's
   writes accepted.  (Deadlock-freedom + measure: this is the half that was
   false before fix 3a3f8b8 — see c02_nonvacuous for the former witness.) *)
Theorem c02_complete : forall cap lo es x n,
  0 < cap -> 0 < n ->
  graceful (final (init cap lo) es) x ->
  exists s' chunks,
    read_to_eof (S (remaining (final (init cap lo) es) x)) (final (init cap lo) es) (other x) n
      = Some (s', chunks) /\
    (forall c, In c chunks -> c <> []) /\
    reads (other x) es (snd (run (init cap lo) es)) ++ concat chunks
      = accepted x es (snd (run (init cap lo) es)).
Proof. exact c02_complete_lemma. Qed.

(* Non-vacuity: the history that used to hang.  tcp_capacity 2; A writes two
   segments and shuts down; all three segments are delivered while B has read
   nothing, so the FIN meets a full channel and is parked in the reorder buffer.
   The state is graceful, the third try_write was refused with WouldBlock (not
   discarded), and reading reaches EOF after both bytes.
   On the semantics before the fix (after_pop = identity) the same history ends
   with the third read Pending forever: corpus/C02/fin_at_full_channel.json. *)
Definition h_full : list ev :=
  [TryWrite A [97%N]; TryWrite A [98%N]; TryWrite A [99%N]; Shutdown A; Mature [2; 0; 1]; Drain B].

Example c02_nonvacuous :
  graceful (final (init 2 false) h_full) A /\
  snd (run (init 2 false) h_full) = [ROkN 1; ROkN 1; RErr WouldBlock; ROk; RNone; RNone] /\
  (exists k, sk (eps (final (init 2 false) h_full) B) = Some k /\
             lookup (recv_seq k + 1)%N (buf k) = Some Fin) /\
  option_map snd (read_to_eof 3 (final (init 2 false) h_full) B 64) = Some [[97%N]; [98%N]].
Proof.
  split; [|split; [|split]].
  - unfold graceful, quiet. vm_compute. repeat split; try discriminate; try tauto.
  - vm_compute. reflexivity.
  - eexists. split; vm_compute; reflexivity.
  - vm_compute. reflexivity.
Qed.

Check c02_prefix : forall cap lo es x,
  prefix (reads (other x) es (snd (run (init cap lo) es)))
         (accepted x es (snd (run (init cap lo) es))).

Print Assumptions c02_prefix.
Print Assumptions c02_peek_prefix.
Print Assumptions c02_peek_then_read.
Print Assumptions c02_no_overflow.
Print Assumptions c02_credits.
Print Assumptions c02_wouldblock_iff.
Print Assumptions c02_reset_unblocks.
Print Assumptions c02_complete.
Print Assumptions c02_nonvacuous.
