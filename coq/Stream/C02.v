(* Property C02 (placeholder while the proofs are being built). *)
From TV.Lib Require Import Base.
From TV.Stream Require Import Model.

Example c02_nonvacuous :
  run_enc 2 false [TryWrite A [1;7]%N; TryWrite A [2]%N; TryWrite A [3]%N; Shutdown A;
                   Mature [2;0;1]; Drain B; Read B 10; Read B 10; Read B 10]
  = [(1, [2], []); (1, [1], []); (4, [1], []); (3, [], []); (5, [], []); (5, [], []);
     (2, [1;7], []); (2, [2], []); (2, [], [])]%N.
Proof. vm_compute. reflexivity. Qed.

Print Assumptions c02_nonvacuous.
