(* TV.Stream.C02_proofs — every model event preserves the direction invariant
   DI of Inv.v (both directions), and the C02 statements derived from it. *)
From TV.Lib Require Import Base.
From TV.Stream Require Import Gen Model Facts Inv.
Close Scope N_scope.

Definition rx_of (e : endpoint) : option (list (N * seg) * N) :=
  match sk e with Some k => Some (buf k, recv_seq k) | None => None end.
Definition next_of (e : endpoint) : option N :=
  match sk e with Some k => Some (next_seq k) | None => None end.

(* the invariant of direction x -> other x *)
Definition dirinv (s : sys) (x : side) : Prop :=
  DI (gsent s x) (next_of (eps s x)) (pkts_from x (wire s)) (rdy s (other x)) (rx_of (eps s (other x)))
     (chan (eps s (other x))) (rd (eps s (other x))) (gpop s (other x)) (gread s (other x))
     (cred s x) (wr (eps s x)) (glost s x) (cut s x) (cap s).

Lemma pkts_from_app x l1 l2 : pkts_from x (l1 ++ l2) = pkts_from x l1 ++ pkts_from x l2.
Proof. unfold pkts_from. now rewrite filter_app, map_app. Qed.

Lemma pkts_from_snoc x w z p :
  pkts_from x (w ++ [(z, p)]) = pkts_from x w ++ (if side_eqb z x then [p] else []).
Proof. rewrite pkts_from_app. unfold pkts_from at 2. cbn. destruct (side_eqb z x); reflexivity. Qed.

Global Arguments pkts_from : simpl never.

(* unfold the invariant of a concrete direction and normalise *)
Ltac dsimp :=
  unfold dirinv, rx_of, next_of in *; cbn in *;
  repeat rewrite pkts_from_snoc in *; cbn in *; repeat rewrite app_nil_r in *.

Lemma L_wire_rst sent next wire rdy rx chan rd pop read c wr lost cutf cap :
  DI sent next wire rdy rx chan rd pop read c wr lost cutf cap ->
  DI sent next (wire ++ [PRst]) rdy rx chan rd pop read c wr lost cutf cap.
Proof.
  apply L_reorg.
  - intros q sg. rewrite <- app_assoc. rewrite !in_app_iff. cbn. split; [intros [?|[[E|[]]|?]]; auto; discriminate|intros [?|?]; auto].
  - rewrite ndata_pkt_app. cbn. lia.
Qed.

(* closing tactics for the leaves of the case analyses: H is the invariant before *)
Ltac fin H :=
  first
  [ exact H
  | eapply L_rx_none; exact H
  | eapply L_next_none; exact H
  | eapply L_wr; [|exact H]; discriminate
  | eapply L_next_none; eapply L_wr; [|exact H]; discriminate
  | apply (L_cred _ _ _ _ _ _ _ _ _ _ _ _ _ _ _ (Nat.le_succ_diag_r _)); exact H
  | apply L_send_data_cut; [discriminate|exact H]
  | apply L_send_data; [discriminate|exact H]
  | apply L_send_fin_cut; [discriminate|exact H]
  | apply L_send_fin; [discriminate|exact H]
  | eapply L_next_none; apply L_send_fin_cut; [discriminate|exact H]
  | eapply L_next_none; apply L_send_fin; [discriminate|exact H]
  | apply L_wire_rst; exact H
  | eapply L_next_none; apply L_wire_rst; exact H
  | eapply L_drop_r; exact H
  | eapply L_rx_none; eapply L_drop_r; exact H ].

Lemma try_write_inv pf s z bs x : dirinv s x -> dirinv (fst (op_try_write pf s z bs)) x.
Proof.
  intros H. unfold op_try_write.
  destruct (wr (eps s z)) as [sh|] eqn:Ewr; [|exact H].
  destruct (pf && sh) eqn:E1; [exact H|].
  destruct bs as [|b0 bs]; [exact H|].
  destruct sh; [exact H|].
  destruct (cred s z) as [|c] eqn:Ec; [destruct pf; exact H|].
  unfold stamp_send. cbn [eps set_cred].
  destruct (sk (eps s z)) as [k|] eqn:Esk; cbn [fst].
  - unfold emit, net_send. cbn [cut set_gsent set_ep set_cred].
    destruct (cut s z) eqn:Ecut; destruct x, z; dsimp;
      rewrite ?Esk, ?Ewr, ?Ec, ?Ecut in *; fin H.
  - destruct x, z; dsimp; rewrite ?Esk, ?Ewr, ?Ec in *; fin H.
Qed.

Lemma shutdown_inv s z x : dirinv s x -> dirinv (fst (op_shutdown s z)) x.
Proof.
  intros H. unfold op_shutdown.
  destruct (wr (eps s z)) as [[|]|] eqn:Ewr; try exact H.
  unfold stamp_send.
  destruct (sk (eps s z)) as [k|] eqn:Esk; cbn [fst]; [|exact H].
  unfold emit, net_send. cbn [cut set_gsent set_ep].
  destruct (cut s z) eqn:Ecut; destruct x, z; dsimp; rewrite ?Esk, ?Ewr, ?Ecut in *; fin H.
Qed.

Lemma drop_w_inv s z x : dirinv s x -> dirinv (fst (op_drop_w s z)) x.
Proof.
  intros H. unfold op_drop_w.
  destruct (wr (eps s z)) as [sh|] eqn:Ewr; [|exact H].
  destruct sh.
  - cbn [fst]. destruct (sk (eps s z)) as [k|] eqn:Esk; [destruct (refs k) as [|[|n]] eqn:Er|];
      destruct x, z; dsimp; rewrite ?Esk, ?Ewr in *; cbn in *; rewrite ?Er in *; cbn in *; fin H.
  - unfold stamp_send.
    destruct (sk (eps s z)) as [k|] eqn:Esk; cbn [fst].
    + unfold emit, net_send. cbn [cut set_gsent set_ep].
      destruct (cut s z) eqn:Ecut; destruct (refs k) as [|[|n]] eqn:Er;
        destruct x, z; dsimp; rewrite ?Esk, ?Ewr, ?Ecut in *; cbn in *; rewrite ?Er in *; cbn in *; fin H.
    + destruct x, z; dsimp; rewrite ?Esk, ?Ewr in *; cbn in *; fin H.
Qed.

(* ---- drain_ep seen from both directions ------------------------------------ *)

Lemma drain_ep_frame cp e e' rst :
  drain_ep cp e = (e', rst) -> next_of e' = next_of e /\ wr e' = wr e /\ rd e' = rd e.
Proof.
  unfold drain_ep, next_of. destruct (sk e) as [k|] eqn:Esk.
  - destruct (drain _ _ _ _ _) as [[k' ch'] r'] eqn:Ed. intros [= <- <-]. cbn.
    apply drain_next in Ed as [-> _]. auto.
  - intros [= <- <-]. rewrite Esk. auto.
Qed.

Lemma drain_ep_DI sent next wire rdy e rdp pop read c wr lost cutf cp e' rst :
  is_some rdp = is_some (rd e) ->
  DI sent next wire rdy (rx_of e) (chan e) rdp pop read c wr lost cutf cp ->
  drain_ep cp e = (e', rst) ->
  DI sent next wire rdy (rx_of e') (chan e') rdp pop read c wr lost cutf cp.
Proof.
  unfold drain_ep, rx_of. intros Hal H. destruct (sk e) as [k|] eqn:Esk.
  - destruct (drain _ _ _ _ _) as [[k' ch'] r'] eqn:Ed. intros [= <- <-]. cbn.
    eapply L_drain; [| |exact H|exact Ed].
    + intros E. rewrite E in Hal. destruct rdp; [discriminate|discriminate].
    + intros E. rewrite E in Hal. destruct rdp; [discriminate|reflexivity].
  - intros [= <- <-]. rewrite Esk. exact H.
Qed.

Global Arguments drain_ep : simpl never.
Global Arguments take_stash : simpl never.

Lemma read_inv s z n x : dirinv s x -> dirinv (fst (op_read s z n)) x.
Proof.
  intros H. unfold op_read.
  destruct (rd (eps s z)) as [r|] eqn:Erd; [|exact H].
  destruct (closed r || Nat.eqb n 0) eqn:Ecl; [exact H|].
  apply orb_false_iff in Ecl as [Ecl _].
  destruct (stash r) as [bs|] eqn:Est.
  - destruct (take_stash bs n) as [out rest] eqn:Et. cbn [fst].
    destruct x, z; dsimp; rewrite ?Erd in *; try exact H.
    all: replace out with (fst (take_stash bs n)) by (now rewrite Et);
         replace rest with (snd (take_stash bs n)) by (now rewrite Et);
         eapply L_stash_read; eauto.
  - destruct (chan (eps s z)) as [|sg ch] eqn:Ech; [exact H|].
    unfold after_pop.
    destruct x, z; cbn [eps set_gpop set_ep cap upd side_eqb other];
      match goal with |- context [drain_ep ?c ?e] => destruct (drain_ep c e) as [e1 rst] eqn:Ed end;
      pose proof (drain_ep_frame _ _ _ _ Ed) as (Fn & Fw & Fr);
      (destruct sg as [bs|]; [destruct (take_stash bs n) as [out rest] eqn:Et|]); cbn [fst];
      dsimp; rewrite ?Erd, ?Ech in *; rewrite ?Fn, ?Fw in *; try exact H.
    1,3: replace out with (fst (take_stash bs n)) by (now rewrite Et);
         replace rest with (snd (take_stash bs n)) by (now rewrite Et);
         eapply L_stash_read with (r0 := {| stash := Some bs; closed := false |}); [reflexivity|].
    all: match type of Ed with drain_ep _ ?e = _ =>
           eapply (drain_ep_DI _ _ _ _ e); [| |exact Ed];
           [cbn; rewrite Erd; reflexivity|unfold rx_of; cbn] end.
    all: first [apply L_pop_data with (r0 := r); assumption|apply L_pop_fin with (r0 := r); assumption].
Qed.

Lemma peek_inv s z n x : dirinv s x -> dirinv (fst (op_peek s z n)) x.
Proof.
  intros H. unfold op_peek.
  destruct (rd (eps s z)) as [r|] eqn:Erd; [|exact H].
  destruct (closed r || Nat.eqb n 0) eqn:Ecl; [exact H|].
  apply orb_false_iff in Ecl as [Ecl _].
  destruct (stash r) as [bs|] eqn:Est; [exact H|].
  destruct (chan (eps s z)) as [|sg ch] eqn:Ech; [exact H|].
  unfold after_pop.
  destruct x, z; cbn [eps set_gpop set_ep cap upd side_eqb other];
    match goal with |- context [drain_ep ?c ?e] => destruct (drain_ep c e) as [e1 rst] eqn:Ed end;
    pose proof (drain_ep_frame _ _ _ _ Ed) as (Fn & Fw & Fr);
    destruct sg as [bs|]; cbn [fst];
    dsimp; rewrite ?Erd, ?Ech in *; rewrite ?Fn, ?Fw in *; try exact H.
  all: match type of Ed with drain_ep _ ?e = _ =>
         eapply (drain_ep_DI _ _ _ _ e); [| |exact Ed];
         [cbn; rewrite Erd; reflexivity|unfold rx_of; cbn] end.
  all: first [apply L_pop_data with (r0 := r); assumption|apply L_pop_fin with (r0 := r); assumption].
Qed.

Lemma drop_r_inv s z x : dirinv s x -> dirinv (fst (op_drop_r s z)) x.
Proof.
  intros H. unfold op_drop_r.
  destruct (rd (eps s z)) as [r|] eqn:Erd; [|exact H].
  match goal with |- context [if ?c then _ else _] => destruct c end; cbn [fst].
  - unfold emit, net_send. cbn [cut set_ep].
    destruct (cut s z) eqn:Ecut; destruct x, z; dsimp; rewrite ?Ecut in *; fin H.
  - destruct (sk (eps s z)) as [k|] eqn:Esk; [destruct (refs k) as [|[|m]] eqn:Er|];
      destruct x, z; dsimp; rewrite ?Esk in *; cbn in *; rewrite ?Er in *; cbn in *; fin H.
Qed.

(* ---- the network -------------------------------------------------------------- *)

Lemma L_rdy_rst sent next wire rdy rx chan rd pop read c wr lost cutf cap :
  DI sent next wire (PRst :: rdy) rx chan rd pop read c wr lost cutf cap ->
  DI sent next wire rdy rx chan rd pop read c wr lost cutf cap.
Proof.
  apply L_reorg.
  - intros q sg. rewrite !in_app_iff. cbn. split; [tauto|intros [?|[E|?]]; auto; discriminate].
  - reflexivity.
Qed.

Lemma L_rdy_noentry sent next wire rdy p chan rd pop read c wr lost cutf cap :
  DI sent next wire (p :: rdy) None chan rd pop read c wr lost cutf cap ->
  DI sent next wire rdy None chan rd pop read c wr lost cutf cap.
Proof.
  intros H. eapply L_shrink; [| | | |exact H].
  - intros q sg. rewrite !in_app_iff. cbn. tauto.
  - unfold ndata_pkt. cbn. destruct (pkt_is_data p); cbn; lia.
  - now right.
  - destruct H. assumption.
Qed.

(* direction x -> other x with an arbitrary prefix X of not-yet-processed wire
   packets and an explicit list R of matured packets *)
Definition dirG (s : sys) (x : side) (X R : list pkt) : Prop :=
  DI (gsent s x) (next_of (eps s x)) (X ++ pkts_from x (wire s)) R (rx_of (eps s (other x)))
     (chan (eps s (other x))) (rd (eps s (other x))) (gpop s (other x)) (gread s (other x))
     (cred s x) (wr (eps s x)) (glost s x) (cut s x) (cap s).

Lemma dirG_dirinv s x : dirinv s x <-> dirG s x [] (rdy s (other x)).
Proof. reflexivity. Qed.

Ltac gsimp :=
  unfold dirG, rx_of, next_of in *; cbn in *;
  repeat rewrite pkts_from_snoc in *; cbn in *; repeat rewrite app_nil_r in *.

Lemma deliver1_rdy s z p : rdy (deliver1 s z p) = rdy s.
Proof.
  unfold deliver1. destruct (recv_ep (cap s) (eps s z) p) as [e [|r l]]; cbn; [reflexivity|].
  destruct (lo s); cbn; [reflexivity|]. unfold net_send. cbn. destruct (cut s z); reflexivity.
Qed.

Lemma deliver1_dst s x X R p :
  dirG s x X (p :: R) -> dirG (deliver1 s (other x) p) x X R.
Proof.
  intros H. unfold deliver1, recv_ep.
  destruct p as [q sg|].
  - destruct (sk (eps s (other x))) as [k|] eqn:Esk.
    + match goal with |- context [drain_ep ?c ?e] => destruct (drain_ep c e) as [e1 rst] eqn:Ed end.
      assert (H1 : DI (gsent s x) (next_of (eps s x)) (X ++ pkts_from x (wire s)) R (rx_of e1) (chan e1)
                      (rd (eps s (other x))) (gpop s (other x)) (gread s (other x)) (cred s x) (wr (eps s x))
                      (glost s x) (cut s x) (cap s)).
      { eapply drain_ep_DI; [| |exact Ed]; [reflexivity|].
        unfold dirG, rx_of in H. rewrite Esk in H. unfold rx_of. cbn. apply L_insert. exact H. }
      pose proof (drain_ep_frame _ _ _ _ Ed) as (Fn & Fw & Fr). cbn in Fr. rewrite <- Fr in H1.
      destruct rst; cbn [fst snd].
      * cbn [lo set_ep]. destruct (lo s) eqn:Elo.
        -- destruct x; gsimp; eapply L_next_none; exact H1.
        -- unfold net_send. cbn [cut set_ep]. destruct (cut s (other x)); destruct x; gsimp; exact H1.
      * destruct x; gsimp; exact H1.
    + cbn [fst snd]. unfold dirG, rx_of in H. rewrite Esk in H. apply L_rdy_noentry in H.
      cbn [lo set_ep]. destruct (lo s) eqn:Elo.
      * destruct x; gsimp; rewrite ?Elo, ?Esk; cbn; eapply L_next_none; exact H.
      * unfold net_send. cbn [cut set_ep]. destruct (cut s (other x)); destruct x; gsimp; rewrite ?Esk; exact H.
  - cbn [fst snd]. apply L_rdy_rst in H. destruct x; gsimp; eapply L_rx_none; exact H.
Qed.

Lemma app_assoc_snoc {T} (X W : list T) p : X ++ W ++ [p] = (X ++ W) ++ [p].
Proof. now rewrite app_assoc. Qed.

Lemma deliver1_src s x X R p :
  dirG s x X R -> dirG (deliver1 s x p) x X R.
Proof.
  intros H. unfold deliver1, recv_ep.
  destruct p as [q sg|].
  - destruct (sk (eps s x)) as [k|] eqn:Esk.
    + match goal with |- context [drain_ep ?c ?e] => destruct (drain_ep c e) as [e1 rst] eqn:Ed end.
      pose proof (drain_ep_frame _ _ _ _ Ed) as (Fn & Fw & Fr). unfold next_of in Fn. cbn in Fn, Fw, Fr.
      destruct rst; cbn [fst snd].
      * cbn [lo set_ep]. destruct (lo s) eqn:Elo.
        -- destruct x; gsimp; rewrite ?Esk in *; rewrite ?Fn, ?Fw; eapply L_rx_none; exact H.
        -- unfold net_send. cbn [cut set_ep]. destruct (cut s x) eqn:Ecut; destruct x; gsimp;
             rewrite ?Esk in *; rewrite ?Fn, ?Fw; rewrite ?app_assoc_snoc; fin H.
      * destruct x; gsimp; rewrite ?Esk in *; rewrite ?Fn, ?Fw; exact H.
    + cbn [fst snd]. cbn [lo set_ep]. destruct (lo s) eqn:Elo.
      * destruct x; gsimp; rewrite ?Esk in *; eapply L_rx_none; exact H.
      * unfold net_send. cbn [cut set_ep]. destruct (cut s x) eqn:Ecut; destruct x; gsimp;
          rewrite ?Esk in *; rewrite ?app_assoc_snoc; fin H.
  - cbn [fst snd]. destruct x; gsimp; eapply L_next_none; exact H.
Qed.

Lemma deliver_list_rdy l : forall s z, rdy (deliver_list s z l) = rdy s.
Proof. induction l as [|p l IH]; intros s z; cbn; [reflexivity|]. rewrite IH. apply deliver1_rdy. Qed.

Lemma deliver_list_dst l : forall s x X, dirG s x X l -> dirG (deliver_list s (other x) l) x X [].
Proof.
  induction l as [|p l IH]; intros s x X H; cbn; [exact H|]. apply IH. apply deliver1_dst. exact H.
Qed.

Lemma deliver_list_src l : forall s x X R, dirG s x X R -> dirG (deliver_list s x l) x X R.
Proof.
  induction l as [|p l IH]; intros s x X R H; cbn; [exact H|]. apply IH. apply deliver1_src. exact H.
Qed.

Lemma drain_inv s z x : dirinv s x -> dirinv (deliver_list (set_rdy s z []) z (rdy s z)) x.
Proof.
  intros H. apply dirG_dirinv. rewrite deliver_list_rdy.
  destruct x, z; cbn [other set_rdy rdy upd side_eqb].
  - apply deliver_list_src. exact H.
  - apply (deliver_list_dst _ _ A). exact H.
  - apply (deliver_list_dst _ _ B). exact H.
  - apply deliver_list_src. exact H.
Qed.

(* ---- mature / partitions --------------------------------------------------------- *)

Lemma pkts_from_cons x m w :
  pkts_from x (m :: w) = (if side_eqb (fst m) x then [snd m] else []) ++ pkts_from x w.
Proof. unfold pkts_from. cbn. destruct (side_eqb (fst m) x); reflexivity. Qed.

Lemma split_wire_spec ks x : forall w i m keep,
  split_wire i ks w = (m, keep) ->
  (forall p, In p (pkts_from x w) <-> In p (pkts_from x keep) \/ In p (pkts_from x m)) /\
  ndata_pkt (pkts_from x w) = ndata_pkt (pkts_from x keep) + ndata_pkt (pkts_from x m).
Proof.
  induction w as [|a w IH]; intros i m keep H; cbn in H.
  - injection H as <- <-. split; [intros p; cbn; tauto|reflexivity].
  - destruct (split_wire (S i) ks w) as [m' k'] eqn:E. specialize (IH _ _ _ E) as [IH1 IH2].
    destruct (existsb (Nat.eqb i) ks); injection H as <- <-; rewrite !pkts_from_cons, ?ndata_pkt_app;
      split; try (intros p; rewrite !in_app_iff, IH1; tauto); lia.
Qed.

Lemma mature_inv s ks x : dirinv s x -> dirinv (mature s ks) x.
Proof.
  intros H. unfold mature. destruct (split_wire 0 ks (wire s)) as [m keep] eqn:E.
  destruct (split_wire_spec ks x _ _ _ _ E) as [S1 S2].
  unfold dirinv in *. eapply L_reorg; [| |exact H].
  - intros q sg. destruct x; cbn; rewrite !in_app_iff, S1; tauto.
  - destruct x; cbn -[ndata_pkt]; rewrite !ndata_pkt_app; lia.
Qed.

Lemma pkts_from_filter_ne x z w :
  pkts_from x (filter (fun m => negb (side_eqb (fst m) z)) w) =
  if side_eqb x z then [] else pkts_from x w.
Proof.
  induction w as [|a w IH]; cbn.
  - destruct (side_eqb x z); reflexivity.
  - destruct a as [y p]. cbn. destruct x, y, z; cbn; rewrite ?pkts_from_cons; cbn; rewrite IH; reflexivity.
Qed.

Lemma partition_inv s x :
  dirinv s x -> dirinv (set_wire (set_cut (set_cut s A true) B true) []) x.
Proof.
  intros H. unfold dirinv in *.
  destruct x; cbn -[ndata_pkt]; (eapply L_shrink; [| | | |exact H]); cbn -[ndata_pkt]; auto;
    change (pkts_from A []) with (@nil pkt); change (pkts_from B []) with (@nil pkt);
    try (intros q sg Hin; apply in_or_app; right; exact Hin); cbn; lia.
Qed.

Lemma partition_one_inv s z x :
  dirinv s x ->
  dirinv (set_wire (set_cut s z true) (filter (fun m => negb (side_eqb (fst m) z)) (wire s))) x.
Proof.
  intros H. unfold dirinv in *. cbn [wire set_wire]. rewrite pkts_from_filter_ne.
  destruct x, z; cbn -[ndata_pkt]; try exact H; (eapply L_shrink; [| | | |exact H]); cbn -[ndata_pkt]; auto;
    try (intros q sg Hin; apply in_or_app; right; exact Hin); cbn; lia.
Qed.

Lemma repair_one_inv s z x : dirinv s x -> dirinv (set_cut s z false) x.
Proof.
  intros H. unfold dirinv in *. destruct x, z; cbn; try exact H; eapply L_cutf; exact H.
Qed.

(* ---- loopback delivery ------------------------------------------------------------ *)

Lemma L_wire_to_rdy sent next X W p rdy rx chan rd pop read c wr lost cutf cap :
  DI sent next ((p :: X) ++ W) rdy rx chan rd pop read c wr lost cutf cap ->
  DI sent next (X ++ W) (p :: rdy) rx chan rd pop read c wr lost cutf cap.
Proof.
  apply L_reorg.
  - intros q sg. rewrite <- !app_comm_cons. rewrite !in_app_iff. cbn [In]. rewrite !in_app_iff. tauto.
  - unfold ndata_pkt. rewrite <- !app_comm_cons. cbn [filter]. destruct (pkt_is_data p); cbn [length]; lia.
Qed.

Lemma loop_fold_inv pend : forall s x R,
  dirG s x (pkts_from x pend) R ->
  dirG (fold_left (fun s' m => deliver1 s' (other (fst m)) (snd m)) pend s) x [] R.
Proof.
  induction pend as [|[src p] pend IH]; intros s x R H; cbn [fold_left fst snd].
  - exact H.
  - apply IH. rewrite pkts_from_cons in H. cbn [fst snd] in H.
    destruct x, src; cbn [side_eqb other app] in *.
    + apply (deliver1_dst _ A). unfold dirG in *. apply L_wire_to_rdy. exact H.
    + apply deliver1_src. exact H.
    + apply deliver1_src. exact H.
    + apply (deliver1_dst _ B). unfold dirG in *. apply L_wire_to_rdy. exact H.
Qed.

Lemma loop_fold_rdy pend : forall s,
  rdy (fold_left (fun s' m => deliver1 s' (other (fst m)) (snd m)) pend s) = rdy s.
Proof. induction pend as [|m pend IH]; intros s; cbn; [reflexivity|]. rewrite IH. apply deliver1_rdy. Qed.

Lemma loop_step_inv s x :
  dirinv s x ->
  dirinv (fold_left (fun s' m => deliver1 s' (other (fst m)) (snd m)) (firstn (lmark s) (wire s))
            (set_wire s (skipn (lmark s) (wire s)))) x.
Proof.
  intros H. apply dirG_dirinv. rewrite loop_fold_rdy. cbn [rdy set_wire].
  apply loop_fold_inv. unfold dirG, dirinv in *. cbn [gsent eps wire set_wire cred glost cut cap rdy gpop gread].
  rewrite <- pkts_from_app, firstn_skipn. exact H.
Qed.

(* ---- every event preserves the invariant of both directions ----------------------------- *)

Lemma set_lmark_inv s n x : dirinv s x -> dirinv (set_lmark s n) x.
Proof. intros H. exact H. Qed.

Theorem step_inv s e x : dirinv s x -> dirinv (fst (step s e)) x.
Proof.
  intros H. destruct e; cbn [step fst].
  - apply try_write_inv, H.
  - apply try_write_inv, H.
  - apply shutdown_inv, H.
  - apply drop_w_inv, H.
  - apply read_inv, H.
  - apply peek_inv, H.
  - apply drop_r_inv, H.
  - apply mature_inv, H.
  - apply mature_inv, H.
  - apply drain_inv, H.
  - apply partition_inv, H.
  - apply partition_one_inv, H.
  - apply repair_one_inv, repair_one_inv, H.
  - apply repair_one_inv, H.
  - apply set_lmark_inv, loop_step_inv, H.
  - exact H.
Qed.

Lemma init_inv cp loop x : dirinv (init cp loop) x.
Proof. unfold dirinv. destruct x; cbn; apply DI_init. Qed.

Fixpoint final (s : sys) (es : list ev) : sys :=
  match es with [] => s | e :: es' => final (fst (step s e)) es' end.

Lemma run_final s es : fst (run s es) = final s es.
Proof.
  revert s; induction es as [|e es IH]; intros s; cbn; [reflexivity|].
  destruct (step s e) as [s1 o] eqn:E. specialize (IH s1). destruct (run s1 es). cbn in *. exact IH.
Qed.

Theorem reach_inv cp loop es x : dirinv (final (init cp loop) es) x.
Proof.
  assert (G : forall s, dirinv s x -> dirinv (final s es) x).
  { induction es as [|e es IH]; intros s H; cbn; [exact H|]. apply IH, step_inv, H. }
  apply G, init_inv.
Qed.
