(* TV.Stream.C02_proofs — every model event preserves the direction invariant
   DI of Inv.v (both directions), and the C02 statements derived from it. *)
From TV.Lib Require Import Base.
From TV.Stream Require Import Gen Model Facts Inv.
Close Scope N_scope.

Definition rx_of (e : endpoint) : option (list (N * seg) * N) :=
  match sk e with Some k => Some (buf k, recv_seq k) | None => None end.
Definition next_of (e : endpoint) : option N :=
  match sk e with Some k => Some (next_seq k) | None => None end.

(* the invariant of direction x -> other x *)
Definition dirinv (s : sys) (x : side) : Prop :=
  DI (gsent s x) (next_of (eps s x)) (pkts_from x (wire s)) (rdy s (other x)) (rx_of (eps s (other x)))
     (chan (eps s (other x))) (rd (eps s (other x))) (gpop s (other x)) (gread s (other x))
     (cred s x) (wr (eps s x)) (glost s x) (cut s x) (cap s).

Lemma pkts_from_app x l1 l2 : pkts_from x (l1 ++ l2) = pkts_from x l1 ++ pkts_from x l2.
Proof. unfold pkts_from. now rewrite filter_app, map_app. Qed.

Lemma pkts_from_snoc x w z p :
  pkts_from x (w ++ [(z, p)]) = pkts_from x w ++ (if side_eqb z x then [p] else []).
Proof. rewrite pkts_from_app. unfold pkts_from at 2. cbn. destruct (side_eqb z x); reflexivity. Qed.

Global Arguments pkts_from : simpl never.

(* unfold the invariant of a concrete direction and normalise *)
Ltac dsimp :=
  unfold dirinv, rx_of, next_of in *; cbn in *;
  repeat rewrite pkts_from_snoc in *; cbn in *; repeat rewrite app_nil_r in *.

Lemma L_wire_rst sent next wire rdy rx chan rd pop read c wr lost cutf cap :
  DI sent next wire rdy rx chan rd pop read c wr lost cutf cap ->
  DI sent next (wire ++ [PRst]) rdy rx chan rd pop read c wr lost cutf cap.
Proof.
  apply L_reorg.
  - intros q sg. rewrite <- app_assoc. rewrite !in_app_iff. cbn. split; [intros [?|[[E|[]]|?]]; auto; discriminate|intros [?|?]; auto].
  - rewrite ndata_pkt_app. cbn. lia.
Qed.

(* closing tactics for the leaves of the case analyses: H is the invariant before *)
Ltac fin H :=
  first
  [ exact H
  | eapply L_rx_none; exact H
  | eapply L_next_none; exact H
  | eapply L_wr; [|exact H]; discriminate
  | eapply L_next_none; eapply L_wr; [|exact H]; discriminate
  | apply (L_cred _ _ _ _ _ _ _ _ _ _ _ _ _ _ _ (Nat.le_succ_diag_r _)); exact H
  | apply L_send_data_cut; [discriminate|exact H]
  | apply L_send_data; [discriminate|exact H]
  | apply L_send_fin_cut; [discriminate|exact H]
  | apply L_send_fin; [discriminate|exact H]
  | eapply L_next_none; apply L_send_fin_cut; [discriminate|exact H]
  | eapply L_next_none; apply L_send_fin; [discriminate|exact H]
  | apply L_wire_rst; exact H
  | eapply L_next_none; apply L_wire_rst; exact H
  | eapply L_drop_r; exact H
  | eapply L_rx_none; eapply L_drop_r; exact H ].

Lemma try_write_inv pf s z bs x : dirinv s x -> dirinv (fst (op_try_write pf s z bs)) x.
Proof.
  intros H. unfold op_try_write.
  destruct (wr (eps s z)) as [sh|] eqn:Ewr; [|exact H].
  destruct (pf && sh) eqn:E1; [exact H|].
  destruct bs as [|b0 bs]; [exact H|].
  destruct sh; [exact H|].
  destruct (sk (eps s z)) as [k|] eqn:Esk; cbn [is_some negb]; [|exact H].
  destruct (cred s z) as [|c] eqn:Ec; [destruct pf; exact H|].
  unfold stamp_send. cbn [eps set_cred]. rewrite Esk. cbn [fst].
  unfold emit, net_send. cbn [cut set_gsent set_ep set_cred].
  destruct (cut s z) eqn:Ecut; destruct x, z; dsimp;
    rewrite ?Esk, ?Ewr, ?Ec, ?Ecut in *; fin H.
Qed.

Lemma shutdown_inv s z x : dirinv s x -> dirinv (fst (op_shutdown s z)) x.
Proof.
  intros H. unfold op_shutdown.
  destruct (wr (eps s z)) as [[|]|] eqn:Ewr; try exact H.
  unfold stamp_send.
  destruct (sk (eps s z)) as [k|] eqn:Esk; cbn [fst]; [|exact H].
  unfold emit, net_send. cbn [cut set_gsent set_ep].
  destruct (cut s z) eqn:Ecut; destruct x, z; dsimp; rewrite ?Esk, ?Ewr, ?Ecut in *; fin H.
Qed.

Lemma drop_w_inv s z x : dirinv s x -> dirinv (fst (op_drop_w s z)) x.
Proof.
  intros H. unfold op_drop_w.
  destruct (wr (eps s z)) as [sh|] eqn:Ewr; [|exact H].
  destruct sh.
  - cbn [fst]. destruct (sk (eps s z)) as [k|] eqn:Esk; [destruct (refs k) as [|[|n]] eqn:Er|];
      destruct x, z; dsimp; rewrite ?Esk, ?Ewr in *; cbn in *; rewrite ?Er in *; cbn in *; fin H.
  - unfold stamp_send.
    destruct (sk (eps s z)) as [k|] eqn:Esk; cbn [fst].
    + unfold emit, net_send. cbn [cut set_gsent set_ep].
      destruct (cut s z) eqn:Ecut; destruct (refs k) as [|[|n]] eqn:Er;
        destruct x, z; dsimp; rewrite ?Esk, ?Ewr, ?Ecut in *; cbn in *; rewrite ?Er in *; cbn in *; fin H.
    + destruct x, z; dsimp; rewrite ?Esk, ?Ewr in *; cbn in *; fin H.
Qed.

(* ---- drain_ep seen from both directions ------------------------------------ *)

Lemma drain_ep_frame cp e e' rst :
  drain_ep cp e = (e', rst) -> next_of e' = next_of e /\ wr e' = wr e /\ rd e' = rd e.
Proof.
  unfold drain_ep, next_of. destruct (sk e) as [k|] eqn:Esk.
  - destruct (drain _ _ _ _ _) as [[k' ch'] r'] eqn:Ed. intros [= <- <-]. cbn.
    apply drain_next in Ed as [-> _]. auto.
  - intros [= <- <-]. rewrite Esk. auto.
Qed.

Lemma drain_ep_DI sent next wire rdy e rdp pop read c wr lost cutf cp e' rst :
  is_some rdp = is_some (rd e) ->
  DI sent next wire rdy (rx_of e) (chan e) rdp pop read c wr lost cutf cp ->
  drain_ep cp e = (e', rst) ->
  DI sent next wire rdy (rx_of e') (chan e') rdp pop read c wr lost cutf cp.
Proof.
  unfold drain_ep, rx_of. intros Hal H. destruct (sk e) as [k|] eqn:Esk.
  - destruct (drain _ _ _ _ _) as [[k' ch'] r'] eqn:Ed. intros [= <- <-]. cbn.
    eapply L_drain; [| |exact H|exact Ed].
    + intros E. rewrite E in Hal. destruct rdp; [discriminate|discriminate].
    + intros E. rewrite E in Hal. destruct rdp; [discriminate|reflexivity].
  - intros [= <- <-]. rewrite Esk. exact H.
Qed.

Global Arguments drain_ep : simpl never.
Global Arguments take_stash : simpl never.

Lemma read_inv s z n x : dirinv s x -> dirinv (fst (op_read s z n)) x.
Proof.
  intros H. unfold op_read.
  destruct (rd (eps s z)) as [r|] eqn:Erd; [|exact H].
  destruct (closed r || Nat.eqb n 0) eqn:Ecl; [exact H|].
  apply orb_false_iff in Ecl as [Ecl _].
  destruct (stash r) as [bs|] eqn:Est.
  - destruct (take_stash bs n) as [out rest] eqn:Et. cbn [fst].
    destruct x, z; dsimp; rewrite ?Erd in *; try exact H.
    all: replace out with (fst (take_stash bs n)) by (now rewrite Et);
         replace rest with (snd (take_stash bs n)) by (now rewrite Et);
         eapply L_stash_read; eauto.
  - destruct (chan (eps s z)) as [|sg ch] eqn:Ech; [exact H|].
    unfold after_pop.
    destruct x, z; cbn [eps set_gpop set_ep cap upd side_eqb other];
      match goal with |- context [drain_ep ?c ?e] => destruct (drain_ep c e) as [e1 rst] eqn:Ed end;
      pose proof (drain_ep_frame _ _ _ _ Ed) as (Fn & Fw & Fr);
      (destruct sg as [bs|]; [destruct (take_stash bs n) as [out rest] eqn:Et|]); cbn [fst];
      dsimp; rewrite ?Erd, ?Ech in *; rewrite ?Fn, ?Fw in *; try exact H.
    1,3: replace out with (fst (take_stash bs n)) by (now rewrite Et);
         replace rest with (snd (take_stash bs n)) by (now rewrite Et);
         eapply L_stash_read with (r0 := {| stash := Some bs; closed := false |}); [reflexivity|].
    all: match type of Ed with drain_ep _ ?e = _ =>
           eapply (drain_ep_DI _ _ _ _ e); [| |exact Ed];
           [cbn; rewrite Erd; reflexivity|unfold rx_of; cbn] end.
    all: first [apply L_pop_data with (r0 := r); assumption|apply L_pop_fin with (r0 := r); assumption].
Qed.

Lemma peek_inv s z n x : dirinv s x -> dirinv (fst (op_peek s z n)) x.
Proof.
  intros H. unfold op_peek.
  destruct (rd (eps s z)) as [r|] eqn:Erd; [|exact H].
  destruct (closed r || Nat.eqb n 0) eqn:Ecl; [exact H|].
  apply orb_false_iff in Ecl as [Ecl _].
  destruct (stash r) as [bs|] eqn:Est; [exact H|].
  destruct (chan (eps s z)) as [|sg ch] eqn:Ech; [exact H|].
  unfold after_pop.
  destruct x, z; cbn [eps set_gpop set_ep cap upd side_eqb other];
    match goal with |- context [drain_ep ?c ?e] => destruct (drain_ep c e) as [e1 rst] eqn:Ed end;
    pose proof (drain_ep_frame _ _ _ _ Ed) as (Fn & Fw & Fr);
    destruct sg as [bs|]; cbn [fst];
    dsimp; rewrite ?Erd, ?Ech in *; rewrite ?Fn, ?Fw in *; try exact H.
  all: match type of Ed with drain_ep _ ?e = _ =>
         eapply (drain_ep_DI _ _ _ _ e); [| |exact Ed];
         [cbn; rewrite Erd; reflexivity|unfold rx_of; cbn] end.
  all: first [apply L_pop_data with (r0 := r); assumption|apply L_pop_fin with (r0 := r); assumption].
Qed.

Lemma drop_r_inv s z x : dirinv s x -> dirinv (fst (op_drop_r s z)) x.
Proof.
  intros H. unfold op_drop_r.
  destruct (rd (eps s z)) as [r|] eqn:Erd; [|exact H].
  match goal with |- context [if ?c then _ else _] => destruct c end; cbn [fst].
  - unfold emit, net_send. cbn [cut set_ep].
    destruct (cut s z) eqn:Ecut; destruct x, z; dsimp; rewrite ?Ecut in *; fin H.
  - destruct (sk (eps s z)) as [k|] eqn:Esk; [destruct (refs k) as [|[|m]] eqn:Er|];
      destruct x, z; dsimp; rewrite ?Esk in *; cbn in *; rewrite ?Er in *; cbn in *; fin H.
Qed.

(* ---- the network -------------------------------------------------------------- *)

Lemma L_rdy_rst sent next wire rdy rx chan rd pop read c wr lost cutf cap :
  DI sent next wire (PRst :: rdy) rx chan rd pop read c wr lost cutf cap ->
  DI sent next wire rdy rx chan rd pop read c wr lost cutf cap.
Proof.
  apply L_reorg.
  - intros q sg. rewrite !in_app_iff. cbn. split; [tauto|intros [?|[E|?]]; auto; discriminate].
  - reflexivity.
Qed.

Lemma L_rdy_noentry sent next wire rdy p chan rd pop read c wr lost cutf cap :
  DI sent next wire (p :: rdy) None chan rd pop read c wr lost cutf cap ->
  DI sent next wire rdy None chan rd pop read c wr lost cutf cap.
Proof.
  intros H. eapply L_shrink; [| | | |exact H].
  - intros q sg. rewrite !in_app_iff. cbn. tauto.
  - unfold ndata_pkt. cbn. destruct (pkt_is_data p); cbn; lia.
  - now right.
  - destruct H. assumption.
Qed.

(* direction x -> other x with an arbitrary prefix X of not-yet-processed wire
   packets and an explicit list R of matured packets *)
Definition dirG (s : sys) (x : side) (X R : list pkt) : Prop :=
  DI (gsent s x) (next_of (eps s x)) (X ++ pkts_from x (wire s)) R (rx_of (eps s (other x)))
     (chan (eps s (other x))) (rd (eps s (other x))) (gpop s (other x)) (gread s (other x))
     (cred s x) (wr (eps s x)) (glost s x) (cut s x) (cap s).

Lemma dirG_dirinv s x : dirinv s x <-> dirG s x [] (rdy s (other x)).
Proof. reflexivity. Qed.

Ltac gsimp :=
  unfold dirG, rx_of, next_of in *; cbn in *;
  repeat rewrite pkts_from_snoc in *; cbn in *; repeat rewrite app_nil_r in *.

Lemma deliver1_rdy s z p : rdy (deliver1 s z p) = rdy s.
Proof.
  unfold deliver1. destruct (recv_ep (cap s) (eps s z) p) as [e [|r l]]; cbn; [reflexivity|].
  destruct (lo s); cbn; [reflexivity|]. unfold net_send. cbn. destruct (cut s z); reflexivity.
Qed.

Lemma deliver1_dst s x X R p :
  dirG s x X (p :: R) -> dirG (deliver1 s (other x) p) x X R.
Proof.
  intros H. unfold deliver1, recv_ep.
  destruct p as [q sg|].
  - destruct (sk (eps s (other x))) as [k|] eqn:Esk.
    + match goal with |- context [drain_ep ?c ?e] => destruct (drain_ep c e) as [e1 rst] eqn:Ed end.
      assert (H1 : DI (gsent s x) (next_of (eps s x)) (X ++ pkts_from x (wire s)) R (rx_of e1) (chan e1)
                      (rd (eps s (other x))) (gpop s (other x)) (gread s (other x)) (cred s x) (wr (eps s x))
                      (glost s x) (cut s x) (cap s)).
      { eapply drain_ep_DI; [| |exact Ed]; [reflexivity|].
        unfold dirG, rx_of in H. rewrite Esk in H. unfold rx_of. cbn. apply L_insert. exact H. }
      pose proof (drain_ep_frame _ _ _ _ Ed) as (Fn & Fw & Fr). cbn in Fr. rewrite <- Fr in H1.
      destruct rst; cbn [fst snd].
      * cbn [lo set_ep]. destruct (lo s) eqn:Elo.
        -- destruct x; gsimp; eapply L_next_none; exact H1.
        -- unfold net_send. cbn [cut set_ep]. destruct (cut s (other x)); destruct x; gsimp; exact H1.
      * destruct x; gsimp; exact H1.
    + cbn [fst snd]. unfold dirG, rx_of in H. rewrite Esk in H. apply L_rdy_noentry in H.
      cbn [lo set_ep]. destruct (lo s) eqn:Elo.
      * destruct x; gsimp; rewrite ?Elo, ?Esk; cbn; eapply L_next_none; exact H.
      * unfold net_send. cbn [cut set_ep]. destruct (cut s (other x)); destruct x; gsimp; rewrite ?Esk; exact H.
  - cbn [fst snd]. apply L_rdy_rst in H. destruct x; gsimp; eapply L_rx_none; exact H.
Qed.

Lemma app_assoc_snoc {T} (X W : list T) p : X ++ W ++ [p] = (X ++ W) ++ [p].
Proof. now rewrite app_assoc. Qed.

Lemma deliver1_src s x X R p :
  dirG s x X R -> dirG (deliver1 s x p) x X R.
Proof.
  intros H. unfold deliver1, recv_ep.
  destruct p as [q sg|].
  - destruct (sk (eps s x)) as [k|] eqn:Esk.
    + match goal with |- context [drain_ep ?c ?e] => destruct (drain_ep c e) as [e1 rst] eqn:Ed end.
      pose proof (drain_ep_frame _ _ _ _ Ed) as (Fn & Fw & Fr). unfold next_of in Fn. cbn in Fn, Fw, Fr.
      destruct rst; cbn [fst snd].
      * cbn [lo set_ep]. destruct (lo s) eqn:Elo.
        -- destruct x; gsimp; rewrite ?Esk in *; rewrite ?Fn, ?Fw; eapply L_rx_none; exact H.
        -- unfold net_send. cbn [cut set_ep]. destruct (cut s x) eqn:Ecut; destruct x; gsimp;
             rewrite ?Esk in *; rewrite ?Fn, ?Fw; rewrite ?app_assoc_snoc; fin H.
      * destruct x; gsimp; rewrite ?Esk in *; rewrite ?Fn, ?Fw; exact H.
    + cbn [fst snd]. cbn [lo set_ep]. destruct (lo s) eqn:Elo.
      * destruct x; gsimp; rewrite ?Esk in *; eapply L_rx_none; exact H.
      * unfold net_send. cbn [cut set_ep]. destruct (cut s x) eqn:Ecut; destruct x; gsimp;
          rewrite ?Esk in *; rewrite ?app_assoc_snoc; fin H.
  - cbn [fst snd]. destruct x; gsimp; eapply L_next_none; exact H.
Qed.

Lemma deliver_list_rdy l : forall s z, rdy (deliver_list s z l) = rdy s.
Proof. induction l as [|p l IH]; intros s z; cbn; [reflexivity|]. rewrite IH. apply deliver1_rdy. Qed.

Lemma deliver_list_dst l : forall s x X, dirG s x X l -> dirG (deliver_list s (other x) l) x X [].
Proof.
  induction l as [|p l IH]; intros s x X H; cbn; [exact H|]. apply IH. apply deliver1_dst. exact H.
Qed.

Lemma deliver_list_src l : forall s x X R, dirG s x X R -> dirG (deliver_list s x l) x X R.
Proof.
  induction l as [|p l IH]; intros s x X R H; cbn; [exact H|]. apply IH. apply deliver1_src. exact H.
Qed.

Lemma drain_inv s z x : dirinv s x -> dirinv (deliver_list (set_rdy s z []) z (rdy s z)) x.
Proof.
  intros H. apply dirG_dirinv. rewrite deliver_list_rdy.
  destruct x, z; cbn [other set_rdy rdy upd side_eqb].
  - apply deliver_list_src. exact H.
  - apply (deliver_list_dst _ _ A). exact H.
  - apply (deliver_list_dst _ _ B). exact H.
  - apply deliver_list_src. exact H.
Qed.

(* ---- mature / partitions --------------------------------------------------------- *)

Lemma pkts_from_cons x m w :
  pkts_from x (m :: w) = (if side_eqb (fst m) x then [snd m] else []) ++ pkts_from x w.
Proof. unfold pkts_from. cbn. destruct (side_eqb (fst m) x); reflexivity. Qed.

Lemma split_wire_spec ks x : forall w i m keep,
  split_wire i ks w = (m, keep) ->
  (forall p, In p (pkts_from x w) <-> In p (pkts_from x keep) \/ In p (pkts_from x m)) /\
  ndata_pkt (pkts_from x w) = ndata_pkt (pkts_from x keep) + ndata_pkt (pkts_from x m).
Proof.
  induction w as [|a w IH]; intros i m keep H; cbn in H.
  - injection H as <- <-. split; [intros p; cbn; tauto|reflexivity].
  - destruct (split_wire (S i) ks w) as [m' k'] eqn:E. specialize (IH _ _ _ E) as [IH1 IH2].
    destruct (existsb (Nat.eqb i) ks); injection H as <- <-; rewrite !pkts_from_cons, ?ndata_pkt_app;
      split; try (intros p; rewrite !in_app_iff, IH1; tauto); lia.
Qed.

Lemma mature_inv s ks x : dirinv s x -> dirinv (mature s ks) x.
Proof.
  intros H. unfold mature. destruct (split_wire 0 ks (wire s)) as [m keep] eqn:E.
  destruct (split_wire_spec ks x _ _ _ _ E) as [S1 S2].
  unfold dirinv in *. eapply L_reorg; [| |exact H].
  - intros q sg. destruct x; cbn; rewrite !in_app_iff, S1; tauto.
  - destruct x; cbn -[ndata_pkt]; rewrite !ndata_pkt_app; lia.
Qed.

Lemma pkts_from_filter_ne x z w :
  pkts_from x (filter (fun m => negb (side_eqb (fst m) z)) w) =
  if side_eqb x z then [] else pkts_from x w.
Proof.
  induction w as [|a w IH]; cbn.
  - destruct (side_eqb x z); reflexivity.
  - destruct a as [y p]. cbn. destruct x, y, z; cbn; rewrite ?pkts_from_cons; cbn; rewrite IH; reflexivity.
Qed.

Lemma partition_inv s x :
  dirinv s x -> dirinv (set_wire (set_cut (set_cut s A true) B true) []) x.
Proof.
  intros H. unfold dirinv in *.
  destruct x; cbn -[ndata_pkt]; (eapply L_shrink; [| | | |exact H]); cbn -[ndata_pkt]; auto;
    change (pkts_from A []) with (@nil pkt); change (pkts_from B []) with (@nil pkt);
    try (intros q sg Hin; apply in_or_app; right; exact Hin); cbn; lia.
Qed.

Lemma partition_one_inv s z x :
  dirinv s x ->
  dirinv (set_wire (set_cut s z true) (filter (fun m => negb (side_eqb (fst m) z)) (wire s))) x.
Proof.
  intros H. unfold dirinv in *. cbn [wire set_wire]. rewrite pkts_from_filter_ne.
  destruct x, z; cbn -[ndata_pkt]; try exact H; (eapply L_shrink; [| | | |exact H]); cbn -[ndata_pkt]; auto;
    try (intros q sg Hin; apply in_or_app; right; exact Hin); cbn; lia.
Qed.

Lemma repair_one_inv s z x : dirinv s x -> dirinv (set_cut s z false) x.
Proof.
  intros H. unfold dirinv in *. destruct x, z; cbn; try exact H; eapply L_cutf; exact H.
Qed.

(* ---- loopback delivery ------------------------------------------------------------ *)

Lemma L_wire_to_rdy sent next X W p rdy rx chan rd pop read c wr lost cutf cap :
  DI sent next ((p :: X) ++ W) rdy rx chan rd pop read c wr lost cutf cap ->
  DI sent next (X ++ W) (p :: rdy) rx chan rd pop read c wr lost cutf cap.
Proof.
  apply L_reorg.
  - intros q sg. rewrite <- !app_comm_cons. rewrite !in_app_iff. cbn [In]. rewrite !in_app_iff. tauto.
  - unfold ndata_pkt. rewrite <- !app_comm_cons. cbn [filter]. destruct (pkt_is_data p); cbn [length]; lia.
Qed.

Lemma loop_fold_inv pend : forall s x R,
  dirG s x (pkts_from x pend) R ->
  dirG (fold_left (fun s' m => deliver1 s' (other (fst m)) (snd m)) pend s) x [] R.
Proof.
  induction pend as [|[src p] pend IH]; intros s x R H; cbn [fold_left fst snd].
  - exact H.
  - apply IH. rewrite pkts_from_cons in H. cbn [fst snd] in H.
    destruct x, src; cbn [side_eqb other app] in *.
    + apply (deliver1_dst _ A). unfold dirG in *. apply L_wire_to_rdy. exact H.
    + apply deliver1_src. exact H.
    + apply deliver1_src. exact H.
    + apply (deliver1_dst _ B). unfold dirG in *. apply L_wire_to_rdy. exact H.
Qed.

Lemma loop_fold_rdy pend : forall s,
  rdy (fold_left (fun s' m => deliver1 s' (other (fst m)) (snd m)) pend s) = rdy s.
Proof. induction pend as [|m pend IH]; intros s; cbn; [reflexivity|]. rewrite IH. apply deliver1_rdy. Qed.

Lemma loop_step_inv s x :
  dirinv s x ->
  dirinv (fold_left (fun s' m => deliver1 s' (other (fst m)) (snd m)) (firstn (lmark s) (wire s))
            (set_wire s (skipn (lmark s) (wire s)))) x.
Proof.
  intros H. apply dirG_dirinv. rewrite loop_fold_rdy. cbn [rdy set_wire].
  apply loop_fold_inv. unfold dirG, dirinv in *. cbn [gsent eps wire set_wire cred glost cut cap rdy gpop gread].
  rewrite <- pkts_from_app, firstn_skipn. exact H.
Qed.

(* ---- every event preserves the invariant of both directions ----------------------------- *)

Lemma set_lmark_inv s n x : dirinv s x -> dirinv (set_lmark s n) x.
Proof. intros H. exact H. Qed.

Theorem step_inv s e x : dirinv s x -> dirinv (fst (step s e)) x.
Proof.
  intros H. destruct e; cbn [step fst].
  - apply try_write_inv, H.
  - apply try_write_inv, H.
  - apply shutdown_inv, H.
  - apply drop_w_inv, H.
  - apply read_inv, H.
  - apply peek_inv, H.
  - apply drop_r_inv, H.
  - apply mature_inv, H.
  - apply mature_inv, H.
  - apply drain_inv, H.
  - apply partition_inv, H.
  - apply partition_one_inv, H.
  - apply repair_one_inv, repair_one_inv, H.
  - apply repair_one_inv, H.
  - apply set_lmark_inv, loop_step_inv, H.
  - exact H.
Qed.

Lemma init_inv cp loop x : dirinv (init cp loop) x.
Proof. unfold dirinv. destruct x; cbn; apply DI_init. Qed.

Fixpoint final (s : sys) (es : list ev) : sys :=
  match es with [] => s | e :: es' => final (fst (step s e)) es' end.

Lemma run_final s es : fst (run s es) = final s es.
Proof.
  revert s; induction es as [|e es IH]; intros s; cbn; [reflexivity|].
  destruct (step s e) as [s1 o] eqn:E. specialize (IH s1). destruct (run s1 es). cbn in *. exact IH.
Qed.

Theorem reach_inv cp loop es x : dirinv (final (init cp loop) es) x.
Proof.
  assert (G : forall s, dirinv s x -> dirinv (final s es) x).
  { induction es as [|e es IH]; intros s H; cbn; [exact H|]. apply IH, step_inv, H. }
  apply G, init_inv.
Qed.

(* ---- the ghost histories are what the outputs say ------------------------------------ *)

Definition acc_bytes (x : side) (e : ev) (o : res) : list N :=
  match e, o with
  | TryWrite z bs, ROkN _ => if side_eqb z x then bs else []
  | Write z bs, ROkN _ => if side_eqb z x then bs else []
  | _, _ => []
  end.
Definition read_bytes (y : side) (e : ev) (o : res) : list N :=
  match e, o with
  | Read z _, ROkBytes bs => if side_eqb z y then bs else []
  | _, _ => []
  end.
Fixpoint accepted (x : side) (es : list ev) (os : list res) : list N :=
  match es, os with
  | e :: es', o :: os' => acc_bytes x e o ++ accepted x es' os'
  | _, _ => []
  end.
Fixpoint reads (y : side) (es : list ev) (os : list res) : list N :=
  match es, os with
  | e :: es', o :: os' => read_bytes y e o ++ reads y es' os'
  | _, _ => []
  end.

Lemma deliver1_ghost s z p :
  gsent (deliver1 s z p) = gsent s /\ gread (deliver1 s z p) = gread s /\ gpop (deliver1 s z p) = gpop s.
Proof.
  unfold deliver1. destruct (recv_ep (cap s) (eps s z) p) as [e [|r l]]; cbn; [auto|].
  destruct (lo s); cbn; [auto|]. unfold net_send. cbn. destruct (cut s z); cbn; auto.
Qed.

Lemma deliver_list_ghost l : forall s z,
  gsent (deliver_list s z l) = gsent s /\ gread (deliver_list s z l) = gread s.
Proof.
  induction l as [|p l IH]; intros s z; cbn; [auto|].
  destruct (IH (deliver1 s z p) z) as [-> ->]. destruct (deliver1_ghost s z p) as (-> & -> & _). auto.
Qed.

Lemma loop_fold_ghost pend : forall s,
  gsent (fold_left (fun s' m => deliver1 s' (other (fst m)) (snd m)) pend s) = gsent s /\
  gread (fold_left (fun s' m => deliver1 s' (other (fst m)) (snd m)) pend s) = gread s.
Proof.
  induction pend as [|m pend IH]; intros s; cbn; [auto|].
  destruct (IH (deliver1 s (other (fst m)) (snd m))) as [-> ->].
  destruct (deliver1_ghost s (other (fst m)) (snd m)) as (-> & -> & _). auto.
Qed.

Lemma bytes_of_snoc l sg : bytes_of (l ++ [sg]) = bytes_of l ++ payload sg.
Proof. rewrite bytes_of_app. cbn. now rewrite app_nil_r. Qed.

Lemma step_ghost s e x :
  bytes_of (gsent (fst (step s e)) x) = bytes_of (gsent s x) ++ acc_bytes x e (snd (step s e)) /\
  gread (fst (step s e)) x = gread s x ++ read_bytes x e (snd (step s e)).
Proof.
  destruct e; cbn [step].
  - (* TryWrite *) unfold op_try_write, stamp_send, emit, net_send.
    destruct (wr (eps s x0)) as [[|]|]; destruct bs; cbn; rewrite ?app_nil_r; auto;
      destruct (sk (eps s x0)) eqn:Esk; cbn; rewrite ?app_nil_r; auto;
      destruct (cred s x0); cbn; rewrite ?Esk; cbn; rewrite ?app_nil_r; auto;
      destruct (cut s x0); destruct x, x0; cbn; rewrite ?bytes_of_snoc, ?app_nil_r; auto.
  - (* Write *) unfold op_try_write, stamp_send, emit, net_send.
    destruct (wr (eps s x0)) as [[|]|]; destruct bs; cbn; rewrite ?app_nil_r; auto;
      destruct (sk (eps s x0)) eqn:Esk; cbn; rewrite ?app_nil_r; auto;
      destruct (cred s x0); cbn; rewrite ?Esk; cbn; rewrite ?app_nil_r; auto;
      destruct (cut s x0); destruct x, x0; cbn; rewrite ?bytes_of_snoc, ?app_nil_r; auto.
  - (* Shutdown *) unfold op_shutdown, stamp_send, emit, net_send.
    destruct (wr (eps s x0)) as [[|]|]; cbn; rewrite ?app_nil_r; auto;
      destruct (sk (eps s x0)); cbn; rewrite ?app_nil_r; auto;
      destruct (cut s x0); destruct x, x0; cbn; rewrite ?bytes_of_snoc, ?app_nil_r; auto.
  - (* DropW *) unfold op_drop_w, stamp_send, emit, net_send.
    destruct (wr (eps s x0)) as [[|]|]; cbn; rewrite ?app_nil_r; auto;
      destruct (sk (eps s x0)); cbn; rewrite ?app_nil_r; auto;
      destruct (cut s x0); destruct x, x0; cbn; rewrite ?bytes_of_snoc, ?app_nil_r; auto.
  - (* Read *) unfold op_read, after_pop.
    destruct (rd (eps s x0)) as [r|]; cbn; rewrite ?app_nil_r; auto.
    destruct (closed r || Nat.eqb n 0); cbn; [destruct (side_eqb x0 x); rewrite ?app_nil_r; auto|].
    destruct (stash r) as [bs|].
    + destruct (take_stash bs n) as [out rest]. destruct x, x0; cbn; rewrite ?app_nil_r; auto.
    + destruct (chan (eps s x0)) as [|[bs|] ch]; cbn; rewrite ?app_nil_r; auto.
      * destruct (is_some (sk (eps s x0))); cbn; rewrite ?app_nil_r; auto.
      * destruct (take_stash bs n) as [out rest]. destruct x, x0; cbn; rewrite ?app_nil_r; auto.
      * destruct x, x0; cbn; rewrite ?app_nil_r; auto.
  - (* Peek *) unfold op_peek, after_pop.
    destruct (rd (eps s x0)) as [r|]; cbn; rewrite ?app_nil_r; auto.
    destruct (closed r || Nat.eqb n 0); cbn; rewrite ?app_nil_r; auto.
    destruct (stash r) as [bs|]; cbn; rewrite ?app_nil_r; auto.
    destruct (chan (eps s x0)) as [|[bs|] ch]; cbn; rewrite ?app_nil_r; auto.
  - (* DropR *) unfold op_drop_r, emit, net_send.
    destruct (rd (eps s x0)) as [r|]; cbn; rewrite ?app_nil_r; auto.
    match goal with |- context [if ?c then _ else _] => destruct c end; cbn; rewrite ?app_nil_r; auto.
    destruct (cut s x0); cbn; rewrite ?app_nil_r; auto.
  - unfold mature. destruct (split_wire 0 ks (wire s)). cbn. rewrite ?app_nil_r; auto.
  - unfold mature. destruct (split_wire _ _ (wire s)). cbn. rewrite ?app_nil_r; auto.
  - cbn. destruct (deliver_list_ghost (rdy s x0) (set_rdy s x0 []) x0) as [-> ->]. cbn. rewrite ?app_nil_r; auto.
  - cbn. rewrite ?app_nil_r; auto.
  - cbn. rewrite ?app_nil_r; auto.
  - cbn. rewrite ?app_nil_r; auto.
  - cbn. rewrite ?app_nil_r; auto.
  - cbn. match goal with |- context [fold_left ?f ?l ?s0] => destruct (loop_fold_ghost l s0) as [-> ->] end.
    cbn. rewrite ?app_nil_r; auto.
  - cbn. rewrite ?app_nil_r; auto.
Qed.

Lemma run_ghost es : forall s x,
  bytes_of (gsent (fst (run s es)) x) = bytes_of (gsent s x) ++ accepted x es (snd (run s es)) /\
  gread (fst (run s es)) x = gread s x ++ reads x es (snd (run s es)).
Proof.
  induction es as [|e es IH]; intros s x; cbn.
  - rewrite !app_nil_r. auto.
  - destruct (step_ghost s e x) as [G1 G2]. destruct (step s e) as [s1 o] eqn:E. cbn in G1, G2.
    destruct (IH s1 x) as [I1 I2]. destruct (run s1 es) as [s2 os]. cbn in *.
    rewrite I1, I2, G1, G2, <- !app_assoc. auto.
Qed.

(* C02 safety: whatever happens (any delivery order, loss, resets, drops on
   either side), the bytes returned by the reads of one end are a prefix of the
   bytes the other end's writes accepted. *)
Lemma c02_prefix_lemma cp loop es x :
  prefix (reads (other x) es (snd (run (init cp loop) es)))
         (accepted x es (snd (run (init cp loop) es))).
Proof.
  pose proof (reach_inv cp loop es x) as H. rewrite <- run_final in H.
  destruct (run_ghost es (init cp loop) x) as [G1 _].
  destruct (run_ghost es (init cp loop) (other x)) as [_ G2].
  cbn in G1, G2. unfold dirinv in H. apply DI_prefix_read in H. rewrite G1, G2 in H. exact H.
Qed.

(* a peek shows bytes that continue what was read so far *)
Lemma peek_out s y n s' bs :
  op_peek s y n = (s', ROkBytes bs) ->
  exists r', rd (eps s' y) = Some r' /\ (closed r' = false -> prefix bs (stash_bytes r')) /\
             (closed r' = true -> bs = []).
Proof.
  unfold op_peek, after_pop. destruct (rd (eps s y)) as [r|] eqn:Erd; [|discriminate].
  destruct (closed r) eqn:Ecl; cbn [orb].
  { intros [= <- <-]. exists r. rewrite Erd. split; [reflexivity|]. split; [congruence|reflexivity]. }
  destruct (Nat.eqb n 0) eqn:En.
  { intros [= <- <-]. exists r. rewrite Erd. split; [reflexivity|]. split; [|reflexivity].
    intros _. exists (stash_bytes r). reflexivity. }
  destruct (stash r) as [full|] eqn:Est.
  { intros [= <- <-]. exists r. rewrite Erd. split; [reflexivity|]. split; [|congruence].
    intros _. unfold stash_bytes. rewrite Est. apply prefix_firstn. }
  destruct (chan (eps s y)) as [|[full|] ch]; [destruct (is_some _); discriminate| |].
  - intros [= <- <-]. destruct y; cbn.
    + eexists. split. { reflexivity. } cbn. split. { intros _. apply prefix_firstn. } discriminate.
    + eexists. split. { reflexivity. } cbn. split. { intros _. apply prefix_firstn. } discriminate.
  - intros [= <- <-]. destruct y; cbn.
    + eexists. split. { reflexivity. } cbn. split. { discriminate. } reflexivity.
    + eexists. split. { reflexivity. } cbn. split. { discriminate. } reflexivity.
Qed.

Lemma final_app es1 : forall s es2, final s (es1 ++ es2) = final (final s es1) es2.
Proof. induction es1 as [|e es1 IH]; intros s es2; cbn; [reflexivity|apply IH]. Qed.

Lemma c02_peek_lemma cp loop es y n s' bs :
  step (final (init cp loop) es) (Peek y n) = (s', ROkBytes bs) ->
  prefix (reads y es (snd (run (init cp loop) es)) ++ bs)
         (accepted (other y) es (snd (run (init cp loop) es))).
Proof.
  intros Hp.
  assert (Hx : y = other (other y)) by (destruct y; reflexivity).
  pose proof (reach_inv cp loop (es ++ [Peek y n]) (other y)) as H.
  rewrite final_app in H. cbn [final] in H. rewrite Hp in H. cbn [fst] in H.
  unfold dirinv in H. rewrite <- Hx in H.
  pose proof (step_ghost (final (init cp loop) es) (Peek y n)) as G. rewrite Hp in G. cbn in G.
  cbn [step] in Hp.
  destruct (peek_out _ _ _ _ _ Hp) as (r' & Hr' & Hopen & Hclosed).
  destruct (G (other y)) as [G1 _]. destruct (G y) as [_ G2]. rewrite !app_nil_r in *.
  destruct (run_ghost es (init cp loop) (other y)) as [R1 _].
  destruct (run_ghost es (init cp loop) y) as [_ R2]. rewrite run_final in R1, R2. cbn in R1, R2.
  rewrite <- R2, <- R1, <- G1, <- G2.
  destruct (closed r') eqn:Ecl.
  - rewrite (Hclosed eq_refl), app_nil_r. eapply DI_prefix_read; eauto.
  - pose proof (DI_prefix _ _ _ _ _ _ _ _ _ _ _ _ _ _ H r' Hr') as P.
    destruct (Hopen eq_refl) as [c Hc]. rewrite Hc in P. rewrite app_assoc in P.
    eapply prefix_trans; [apply prefix_app|exact P].
Qed.

(* ---- the reorder buffer is never left drainable (what fix 3a3f8b8 restores) ----------- *)

(* with a live reader, the next expected segment sits in the reorder buffer only
   while the channel is full *)
Definition exit_ep (cp : nat) (e : endpoint) : Prop :=
  forall k, sk e = Some k -> rd e <> None ->
            lookup (recv_seq k + 1)%N (buf k) <> None -> length (chan e) = cp.
Definition exit_all (s : sys) : Prop := forall y, exit_ep (cap s) (eps s y).

Lemma exit_sk_none cp e : sk e = None -> exit_ep cp e.
Proof. intros H k Hk. congruence. Qed.
Lemma exit_rd_none cp e : rd e = None -> exit_ep cp e.
Proof. intros H k _ Hr. congruence. Qed.
Lemma exit_same cp e e' :
  rx_of e' = rx_of e -> chan e' = chan e -> (rd e' <> None -> rd e <> None) ->
  exit_ep cp e -> exit_ep cp e'.
Proof.
  unfold exit_ep, rx_of. intros Hrx Hch Hrd H k Hk Hr Hl.
  rewrite Hk in Hrx. destruct (sk e) as [k0|]; [|discriminate]. injection Hrx as E1 E2.
  rewrite Hch. apply (H k0 eq_refl (Hrd Hr)). rewrite <- E1, <- E2. exact Hl.
Qed.

Lemma drain_ep_exit cp e e' rst : drain_ep cp e = (e', rst) -> exit_ep cp e'.
Proof.
  unfold drain_ep. destruct (sk e) as [k|] eqn:Esk.
  - destruct (drain _ _ _ _ _) as [[k' ch'] r'] eqn:Ed. intros [= <- <-].
    destruct (rd e) as [r|] eqn:Erd; cbn in Ed.
    + apply drain_exit in Ed as [_ Hx]; [|lia]. intros k0 [= <-] _ Hl. cbn in *.
      destruct Hx as [Hx|Hx]; [congruence|exact Hx].
    + apply exit_rd_none. reflexivity.
  - intros [= <- <-]. now apply exit_sk_none.
Qed.

Ltac exit_fin H :=
  first
  [ exact H
  | apply exit_sk_none; reflexivity
  | apply exit_rd_none; reflexivity
  | eapply exit_same; [| | |exact H]; cbn; solve [reflexivity|congruence|discriminate|auto] ].

Ltac exsimp Esk H :=
  cbn in *; try exact H; try (apply exit_sk_none; reflexivity); try (apply exit_rd_none; reflexivity);
  try (eapply exit_same; [| | |exact H]; unfold rx_of; cbn; rewrite ?Esk; auto).

Lemma try_write_exit pf s z bs : exit_all s -> exit_all (fst (op_try_write pf s z bs)).
Proof.
  intros H y. specialize (H y). unfold op_try_write.
  destruct (wr (eps s z)) as [sh|] eqn:Ewr; [|exact H].
  destruct (pf && sh) eqn:E1; [exact H|].
  destruct bs as [|b0 bs]; [exact H|].
  destruct sh; [exact H|].
  destruct (sk (eps s z)) as [k|] eqn:Esk; cbn [is_some negb]; [|exact H].
  destruct (cred s z) as [|c] eqn:Ec; [destruct pf; exact H|].
  unfold stamp_send. cbn [eps set_cred]. rewrite Esk. cbn [fst].
  unfold emit, net_send. cbn [cut set_gsent set_ep set_cred].
  destruct (cut s z) eqn:Ecut; destruct y, z; exsimp Esk H.
Qed.

Lemma shutdown_exit s z : exit_all s -> exit_all (fst (op_shutdown s z)).
Proof.
  intros H y. specialize (H y). unfold op_shutdown.
  destruct (wr (eps s z)) as [[|]|] eqn:Ewr; try exact H.
  unfold stamp_send.
  destruct (sk (eps s z)) as [k|] eqn:Esk; cbn [fst]; [|exact H].
  unfold emit, net_send. cbn [cut set_gsent set_ep].
  destruct (cut s z) eqn:Ecut; destruct y, z; exsimp Esk H.
Qed.

Lemma drop_w_exit s z : exit_all s -> exit_all (fst (op_drop_w s z)).
Proof.
  intros H y. specialize (H y). unfold op_drop_w.
  destruct (wr (eps s z)) as [sh|] eqn:Ewr; [|exact H].
  destruct sh.
  - cbn [fst]. destruct (sk (eps s z)) as [k|] eqn:Esk; [destruct (refs k) as [|[|n]] eqn:Er|];
      destruct y, z; cbn; rewrite ?Esk; cbn; rewrite ?Er; exsimp Esk H.
  - unfold stamp_send.
    destruct (sk (eps s z)) as [k|] eqn:Esk; cbn [fst].
    + unfold emit, net_send. cbn [cut set_gsent set_ep].
      destruct (cut s z) eqn:Ecut; destruct (refs k) as [|[|n]] eqn:Er;
        destruct y, z; cbn; rewrite ?Er; exsimp Esk H.
    + destruct y, z; cbn; rewrite ?Esk; exsimp Esk H.
Qed.

Lemma read_exit s z n : exit_all s -> exit_all (fst (op_read s z n)).
Proof.
  intros H y. specialize (H y). unfold op_read.
  destruct (rd (eps s z)) as [r|] eqn:Erd; [|exact H].
  destruct (closed r || Nat.eqb n 0) eqn:Ecl; [exact H|].
  destruct (stash r) as [bs|] eqn:Est.
  - destruct (take_stash bs n) as [out rest] eqn:Et. cbn [fst].
    destruct y, z; cbn; try exact H;
      (eapply exit_same; [| | |exact H]; unfold rx_of; cbn; auto; intros _; congruence).
  - destruct (chan (eps s z)) as [|sg ch] eqn:Ech; [exact H|].
    unfold after_pop.
    destruct y, z; cbn [eps set_gpop set_ep cap upd side_eqb other];
      match goal with |- context [drain_ep ?c ?e] => destruct (drain_ep c e) as [e1 rst] eqn:Ed end;
      pose proof (drain_ep_exit _ _ _ _ Ed) as Hx;
      (destruct sg as [bs|]; [destruct (take_stash bs n) as [out rest] eqn:Et|]); cbn [fst];
      cbn; try exact H;
      (eapply exit_same; [| | |exact Hx]; unfold rx_of; cbn; auto;
       pose proof (drain_ep_frame _ _ _ _ Ed) as (_ & _ & Fr); cbn in Fr; intros _; congruence).
Qed.

Lemma peek_exit s z n : exit_all s -> exit_all (fst (op_peek s z n)).
Proof.
  intros H y. specialize (H y). unfold op_peek.
  destruct (rd (eps s z)) as [r|] eqn:Erd; [|exact H].
  destruct (closed r || Nat.eqb n 0) eqn:Ecl; [exact H|].
  destruct (stash r) as [bs|] eqn:Est; [exact H|].
  destruct (chan (eps s z)) as [|sg ch] eqn:Ech; [exact H|].
  unfold after_pop.
  destruct y, z; cbn [eps set_gpop set_ep cap upd side_eqb other];
    match goal with |- context [drain_ep ?c ?e] => destruct (drain_ep c e) as [e1 rst] eqn:Ed end;
    pose proof (drain_ep_exit _ _ _ _ Ed) as Hx;
    destruct sg as [bs|]; cbn [fst]; cbn; try exact H;
    (eapply exit_same; [| | |exact Hx]; unfold rx_of; cbn; auto;
     pose proof (drain_ep_frame _ _ _ _ Ed) as (_ & _ & Fr); cbn in Fr; intros _; congruence).
Qed.

Lemma drop_r_exit s z : exit_all s -> exit_all (fst (op_drop_r s z)).
Proof.
  intros H y. specialize (H y). unfold op_drop_r.
  destruct (rd (eps s z)) as [r|] eqn:Erd; [|exact H].
  match goal with |- context [if ?c then _ else _] => destruct c end; cbn [fst].
  - unfold emit, net_send. cbn [cut set_ep].
    destruct (cut s z); destruct y, z; cbn; try exact H; apply exit_rd_none; reflexivity.
  - destruct y, z; cbn; try exact H; apply exit_rd_none; reflexivity.
Qed.

Lemma deliver1_exit s z p : exit_all s -> exit_all (deliver1 s z p).
Proof.
  intros H y. unfold deliver1, recv_ep.
  destruct p as [q sg|].
  - destruct (sk (eps s z)) as [k|] eqn:Esk.
    + match goal with |- context [drain_ep ?c ?e] => destruct (drain_ep c e) as [e1 rst] eqn:Ed end.
      pose proof (drain_ep_exit _ _ _ _ Ed) as Hx.
      destruct rst; cbn [fst snd].
      * cbn [lo set_ep]. destruct (lo s).
        -- destruct y, z; cbn; try exact Hx; try (apply exit_sk_none; reflexivity).
        -- unfold net_send. cbn [cut set_ep]. destruct (cut s z); destruct y, z; cbn; try exact Hx; apply H.
      * destruct y, z; cbn; try exact Hx; apply H.
    + cbn [fst snd lo set_ep]. destruct (lo s).
      * destruct y, z; cbn; try (apply exit_sk_none; reflexivity); try (apply exit_sk_none; exact Esk).
      * unfold net_send. cbn [cut set_ep]. destruct (cut s z); destruct y, z; cbn; apply H.
  - cbn [fst snd]. destruct y, z; cbn; try (apply exit_sk_none; reflexivity); apply H.
Qed.

Lemma deliver1_cap s z p : cap (deliver1 s z p) = cap s.
Proof.
  unfold deliver1. destruct (recv_ep (cap s) (eps s z) p) as [e [|r l]]; cbn; [reflexivity|].
  destruct (lo s); cbn; [reflexivity|]. unfold net_send. cbn. destruct (cut s z); reflexivity.
Qed.

Lemma deliver_list_exit l : forall s z, exit_all s -> exit_all (deliver_list s z l).
Proof. induction l as [|p l IH]; intros s z H; cbn; [exact H|]. apply IH, deliver1_exit, H. Qed.

Lemma loop_fold_exit pend : forall s, exit_all s ->
  exit_all (fold_left (fun s' m => deliver1 s' (other (fst m)) (snd m)) pend s).
Proof. induction pend as [|m pend IH]; intros s H; cbn; [exact H|]. apply IH, deliver1_exit, H. Qed.

Theorem step_exit s e : exit_all s -> exit_all (fst (step s e)).
Proof.
  intros H. destruct e; cbn [step fst].
  - apply try_write_exit, H.
  - apply try_write_exit, H.
  - apply shutdown_exit, H.
  - apply drop_w_exit, H.
  - apply read_exit, H.
  - apply peek_exit, H.
  - apply drop_r_exit, H.
  - unfold mature. destruct (split_wire 0 ks (wire s)). exact H.
  - unfold mature. destruct (split_wire _ _ (wire s)). exact H.
  - apply deliver_list_exit. exact H.
  - exact H.
  - exact H.
  - exact H.
  - exact H.
  - intros y. apply (loop_fold_exit _ (set_wire s (skipn (lmark s) (wire s))) H y).
  - exact H.
Qed.

Lemma init_exit cp loop : exit_all (init cp loop).
Proof. intros y k. cbn. intros [= <-] _. cbn. congruence. Qed.

Theorem reach_exit cp loop es : exit_all (final (init cp loop) es).
Proof.
  assert (G : forall s, exit_all s -> exit_all (final s es)).
  { induction es as [|e es IH]; intros s H; cbn; [exact H|]. apply IH, step_exit, H. }
  apply G, init_exit.
Qed.

(* ---- C02 statements about the reorder buffer and credits ------------------------------ *)

Lemma c02_no_overflow_lemma cp loop es y k sg :
  let s := final (init cp loop) es in
  sk (eps s y) = Some k -> rd (eps s y) <> None ->
  lookup (recv_seq k + 1)%N (buf k) = Some sg ->
  sg = Fin /\ length (chan (eps s y)) = cap s.
Proof.
  intros s Hk Hrd Hlk.
  assert (Hfull : length (chan (eps s y)) = cap s).
  { apply (reach_exit cp loop es y k Hk Hrd). congruence. }
  split; [|exact Hfull].
  pose proof (reach_inv cp loop es (other y)) as H. fold s in H. unfold dirinv in H.
  replace (other (other y)) with y in H by (destruct y; reflexivity).
  unfold rx_of in H. rewrite Hk in H. eapply DI_full_fin; eauto.
Qed.

Lemma c02_credits_lemma cp loop es x :
  let s := final (init cp loop) es in
  cred s x + ndata_pkt (pkts_from x (wire s)) + ndata_pkt (rdy s (other x)) +
  ndata_buf (rx_buf (rx_of (eps s (other x)))) + ndata_seg (chan (eps s (other x))) <= cap s.
Proof. intros s. pose proof (reach_inv cp loop es x) as H. destruct H. assumption. Qed.

Lemma c02_wouldblock_lemma s x bs :
  wr (eps s x) = Some false -> bs <> [] ->
  (snd (step s (TryWrite x bs)) = RErr WouldBlock <-> cred s x = 0 /\ sk (eps s x) <> None).
Proof.
  intros Hw Hbs. cbn [step]. unfold op_try_write. rewrite Hw. cbn [andb].
  destruct bs as [|b0 bs]; [congruence|].
  destruct (sk (eps s x)) as [k|] eqn:Esk; cbn [is_some negb].
  - destruct (cred s x) as [|c]; cbn; [split; [intros _; split; [reflexivity|discriminate]|reflexivity]|].
    destruct (stamp_send _ _ _); cbn; split; try (intros [? _]); discriminate.
  - cbn. split; [discriminate|intros [_ H]; congruence].
Qed.

(* after a reset (the socket entry is gone) a write never waits for credits: the writer that
   was blocked is unblocked with an error (fix e5646f9) *)
Lemma c02_reset_unblocks_lemma s x bs pf :
  sk (eps s x) = None ->
  snd (op_try_write pf s x bs) <> RPending /\ snd (op_try_write pf s x bs) <> RErr WouldBlock.
Proof.
  intros Hs. unfold op_try_write. destruct (wr (eps s x)) as [sh|]; [|cbn; split; discriminate].
  destruct (pf && sh); [cbn; split; discriminate|]. destruct bs; [cbn; split; discriminate|].
  destruct sh; [cbn; split; discriminate|]. rewrite Hs. cbn. split; discriminate.
Qed.

(* ---- completeness: repeated reads end with EOF after every accepted byte ------------------ *)

Definition quiet (s : sys) (x : side) : Prop :=
  forall q sg, ~ In (PSeg q sg) (pkts_from x (wire s) ++ rdy s (other x)).
(* nothing of direction x was ever cut off, nothing is in flight any more, the
   writer has closed (FIN stamped), the receiving socket and its reader are alive *)
Definition graceful (s : sys) (x : side) : Prop :=
  glost s x = false /\ quiet s x /\ In Fin (gsent s x) /\
  sk (eps s (other x)) <> None /\ rd (eps s (other x)) <> None.

Definition wsum (l : list seg) : nat := fold_right (fun sg a => S (length (payload sg)) + a) 0 l.
Definition remaining (s : sys) (x : side) : nat :=
  match rd (eps s (other x)) with Some r => length (stash_bytes r) | None => 0 end +
  wsum (skipn (gpop s (other x)) (gsent s x)).

Lemma take_stash_spec bs n : take_stash bs n = (firstn n bs, snd (take_stash bs n)) /\
  stash_bytes {| stash := snd (take_stash bs n); closed := false |} = skipn n bs.
Proof.
  unfold take_stash, stash_bytes. cbn. split; [reflexivity|]. destruct (skipn n bs); reflexivity.
Qed.

Lemma firstn_nonempty {T} (l : list T) n : l <> [] -> 0 < n -> firstn n l <> [].
Proof. destruct l, n; cbn; intros; try lia; congruence. Qed.

Lemma skipn_shorter {T} (l : list T) n : l <> [] -> 0 < n -> length (skipn n l) < length l.
Proof. intros Hl Hn. rewrite skipn_length. destruct l; [congruence|cbn [length]; lia]. Qed.

Lemma read_progress s x n :
  dirinv s x -> exit_all s -> graceful s x -> 0 < cap s -> 0 < n ->
  graceful (fst (op_read s (other x) n)) x /\
  ((snd (op_read s (other x) n) = ROkBytes [] /\
    gread (fst (op_read s (other x) n)) (other x) = bytes_of (gsent (fst (op_read s (other x) n)) x)) \/
   (exists bs, snd (op_read s (other x) n) = ROkBytes bs /\ bs <> [] /\
               remaining (fst (op_read s (other x) n)) x < remaining s x)).
Proof.
  intros H Hex (Hlost & Hquiet & Hfin & Hsk & Hrd) Hcap Hn.
  pose proof (read_inv s (other x) n x H) as H'.
  pose proof (Hex (other x)) as Hexy.
  unfold op_read in *.
  destruct (rd (eps s (other x))) as [r|] eqn:Erd; [|congruence].
  destruct (closed r) eqn:Ecl; cbn [orb] in *.
  - cbn [fst snd]. split; [repeat split; auto; congruence|]. left. split; [reflexivity|].
    unfold dirinv in H. rewrite Erd in H. eapply DI_eof; eauto.
  - destruct (Nat.eqb_spec n 0) as [->|_]; [lia|].
    destruct (stash r) as [bs|] eqn:Est.
    + destruct (take_stash_spec bs n) as [Et Es]. rewrite Et in *. cbn [fst snd] in *.
      assert (Hbs : bs <> []).
      { unfold dirinv in H. rewrite Erd in H. eapply (d_st _ _ _ _ _ _ _ _ _ _ _ _ _ _ H); eauto. }
      split.
      * unfold graceful, quiet in *. destruct x; cbn in *; repeat split; auto; discriminate.
      * right. exists (firstn n bs). split; [reflexivity|]. split; [now apply firstn_nonempty|].
        unfold remaining. destruct x; cbn [other] in *; cbn; rewrite Erd; rewrite Es;
          unfold stash_bytes; rewrite Est; apply Nat.add_lt_mono_r; now apply skipn_shorter.
    + destruct (sk (eps s (other x))) as [k|] eqn:Esk; [clear Hsk|congruence].
      assert (Hdc := d_c _ _ _ _ _ _ _ _ _ _ _ _ _ _ H). destruct Hdc as [rest0 Hdc].
      destruct (chan (eps s (other x))) as [|sg ch] eqn:Ech.
      * exfalso. unfold dirinv, rx_of in H. rewrite Erd, Esk, Ech, Hlost in H.
        eapply DI_no_pending; eauto.
        intros Hl. symmetry. rewrite <- (Hexy k Esk ltac:(congruence) Hl). now rewrite Ech.
      * assert (Hw : wsum (skipn (gpop s (other x)) (gsent s x)) =
                     S (length (payload sg)) + wsum (skipn (S (gpop s (other x))) (gsent s x))).
        { rewrite (skipn_S_nth _ _ _ _ Hdc), Hdc. reflexivity. }
        assert (Hin : In sg (gsent s x)).
        { rewrite <- (firstn_skipn (gpop s (other x)) (gsent s x)), Hdc. apply in_or_app. right. now left. }
        unfold after_pop in *.
        destruct x; cbn [other eps set_gpop set_ep cap upd side_eqb] in *;
          match goal with |- context [drain_ep ?c ?e] => destruct (drain_ep c e) as [e1 rst] eqn:Ed end;
          pose proof (drain_ep_frame _ _ _ _ Ed) as (Fn & Fw & Fr); unfold next_of in Fn; cbn in Fn, Fr;
          rewrite Esk in Fn; destruct (sk e1) as [k1|] eqn:Esk1; try discriminate;
          (destruct sg as [bs|]; [destruct (take_stash_spec bs n) as [Et Es]; rewrite Et in *|]);
          cbn [fst snd] in *.
        all: split;
          [unfold graceful, quiet in *; cbn in *; rewrite ?Esk1; repeat split; auto; discriminate|].
        1,3: right; exists (firstn n bs); split; [reflexivity|]; split;
          [apply firstn_nonempty; [|exact Hn]; eapply (d_dat _ _ _ _ _ _ _ _ _ _ _ _ _ _ H); exact Hin|];
          unfold remaining; cbn [other eps set_gread set_ep set_cred set_gpop upd side_eqb rd set_rd gpop gsent];
          rewrite Erd, Es, Hw; unfold stash_bytes; rewrite Est; cbn [length payload];
          pose proof (skipn_length n bs); lia.
        all: left; split; [reflexivity|]; unfold dirinv in H'; cbn in H'; eapply DI_eof; [exact H'|reflexivity].
Qed.

Lemma deliver_list_cap l : forall s z, cap (deliver_list s z l) = cap s.
Proof. induction l as [|p l IH]; intros s z; cbn; [reflexivity|]. rewrite IH. apply deliver1_cap. Qed.

Lemma loop_fold_cap pend : forall s,
  cap (fold_left (fun s' m => deliver1 s' (other (fst m)) (snd m)) pend s) = cap s.
Proof. induction pend as [|m pend IH]; intros s; cbn; [reflexivity|]. rewrite IH. apply deliver1_cap. Qed.

Lemma step_cap s e : cap (fst (step s e)) = cap s.
Proof.
  destruct e; cbn [step].
  - unfold op_try_write, stamp_send, emit, net_send.
    destruct (wr (eps s x)) as [[|]|]; destruct bs; cbn; auto; destruct (sk (eps s x)) eqn:Esk; cbn; auto;
      destruct (cred s x); cbn; rewrite ?Esk; cbn; auto; destruct (cut s x); cbn; auto.
  - unfold op_try_write, stamp_send, emit, net_send.
    destruct (wr (eps s x)) as [[|]|]; destruct bs; cbn; auto; destruct (sk (eps s x)) eqn:Esk; cbn; auto;
      destruct (cred s x); cbn; rewrite ?Esk; cbn; auto; destruct (cut s x); cbn; auto.
  - unfold op_shutdown, stamp_send, emit, net_send.
    destruct (wr (eps s x)) as [[|]|]; cbn; auto; destruct (sk (eps s x)); cbn; auto; destruct (cut s x); cbn; auto.
  - unfold op_drop_w, stamp_send, emit, net_send.
    destruct (wr (eps s x)) as [[|]|]; cbn; auto; destruct (sk (eps s x)); cbn; auto; destruct (cut s x); cbn; auto.
  - unfold op_read, after_pop.
    destruct (rd (eps s x)) as [r|]; cbn; auto. destruct (closed r || Nat.eqb n 0); cbn; auto.
    destruct (stash r) as [bs|]; [destruct (take_stash bs n); cbn; auto|].
    destruct (chan (eps s x)) as [|[bs|] ch]; cbn; auto.
  - unfold op_peek, after_pop.
    destruct (rd (eps s x)) as [r|]; cbn; auto. destruct (closed r || Nat.eqb n 0); cbn; auto.
    destruct (stash r) as [bs|]; cbn; auto.
    destruct (chan (eps s x)) as [|[bs|] ch]; cbn; auto.
  - unfold op_drop_r, emit, net_send.
    destruct (rd (eps s x)) as [r|]; cbn; auto.
    match goal with |- context [if ?c then _ else _] => destruct c end; cbn; auto. destruct (cut s x); cbn; auto.
  - unfold mature. destruct (split_wire 0 ks (wire s)). reflexivity.
  - unfold mature. destruct (split_wire _ _ (wire s)). reflexivity.
  - cbn. now rewrite deliver_list_cap.
  - reflexivity.
  - reflexivity.
  - reflexivity.
  - reflexivity.
  - cbn. now rewrite loop_fold_cap.
  - reflexivity.
Qed.

Lemma final_cap es : forall s, cap (final s es) = cap s.
Proof. induction es as [|e es IH]; intros s; cbn; [reflexivity|]. rewrite IH. apply step_cap. Qed.

(* read with a buffer of n bytes until a read returns 0 bytes; None if a read
   pends, fails or the fuel runs out *)
Fixpoint read_to_eof (fuel : nat) (s : sys) (y : side) (n : nat) : option (sys * list (list N)) :=
  match fuel with
  | O => None
  | S f =>
      match op_read s y n with
      | (s', ROkBytes []) => Some (s', [])
      | (s', ROkBytes bs) =>
          match read_to_eof f s' y n with Some (s'', l) => Some (s'', bs :: l) | None => None end
      | _ => None
      end
  end.

Lemma read_to_eof_complete fuel : forall s x n,
  dirinv s x -> exit_all s -> graceful s x -> 0 < cap s -> 0 < n -> remaining s x < fuel ->
  exists s' chunks,
    read_to_eof fuel s (other x) n = Some (s', chunks) /\
    (forall c, In c chunks -> c <> []) /\
    gread s' (other x) = gread s (other x) ++ concat chunks /\
    gread s' (other x) = bytes_of (gsent s x).
Proof.
  induction fuel as [|fuel IH]; intros s x n H Hex Hg Hcap Hn Hrem; [lia|].
  destruct (read_progress s x n H Hex Hg Hcap Hn) as [Hg' Hcase].
  pose proof (step_ghost s (Read (other x) n)) as G. cbn [step] in G.
  destruct (G x) as [G1 _]. destruct (G (other x)) as [_ G2]. clear G.
  pose proof (read_inv s (other x) n x H) as H'.
  pose proof (read_exit s (other x) n Hex) as Hex'.
  pose proof (step_cap s (Read (other x) n)) as Hc'. cbn [step] in Hc'.
  cbn [read_to_eof]. destruct (op_read s (other x) n) as [s1 o] eqn:E. cbn [fst snd] in *.
  destruct Hcase as [[-> Heof]|(bs & -> & Hbs & Hlt)].
  - exists s1, []. cbn in G1, G2. rewrite !app_nil_r in *. repeat split; auto; try tauto.
    + rewrite G2. destruct (side_eqb (other x) (other x)); now rewrite app_nil_r.
    + rewrite Heof. exact G1.
  - cbn in G1, G2. replace (side_eqb (other x) (other x)) with true in G2 by (destruct x; reflexivity).
    rewrite app_nil_r in G1.
    destruct (IH s1 x n H' Hex' Hg' ltac:(lia) Hn ltac:(lia)) as (s2 & chunks & R1 & R2 & R3 & R4).
    destruct bs as [|b0 bs]; [congruence|]. rewrite R1.
    exists s2, ((b0 :: bs) :: chunks). repeat split.
    + intros c [<-|Hc]; [discriminate|auto].
    + rewrite R3, G2. cbn [concat]. now rewrite <- app_assoc.
    + rewrite R4. exact G1.
Qed.

Lemma c02_complete_lemma cp loop es x n :
  0 < cp -> 0 < n ->
  graceful (final (init cp loop) es) x ->
  exists s' chunks,
    read_to_eof (S (remaining (final (init cp loop) es) x)) (final (init cp loop) es) (other x) n
      = Some (s', chunks) /\
    (forall c, In c chunks -> c <> []) /\
    reads (other x) es (snd (run (init cp loop) es)) ++ concat chunks
      = accepted x es (snd (run (init cp loop) es)).
Proof.
  intros Hcp Hn Hg.
  destruct (read_to_eof_complete (S (remaining (final (init cp loop) es) x)) (final (init cp loop) es) x n)
    as (s' & chunks & R1 & R2 & R3 & R4); auto.
  - apply reach_inv.
  - apply reach_exit.
  - rewrite final_cap. exact Hcp.
  - exists s', chunks. repeat split; auto.
    destruct (run_ghost es (init cp loop) x) as [G1 _].
    destruct (run_ghost es (init cp loop) (other x)) as [_ G2]. rewrite run_final in G1, G2. cbn in G1, G2.
    rewrite <- G2, <- G1, <- R3. exact R4.
Qed.

Lemma firstn_plus {T} (l : list T) n k : firstn (n + k) l = firstn n l ++ firstn k (skipn n l).
Proof.
  revert l; induction n as [|n IH]; intros l; cbn; [reflexivity|].
  destruct l; cbn; [now rewrite firstn_nil|]. f_equal. apply IH.
Qed.

(* a peek followed by a read: the two results start with the same bytes *)
Lemma c02_peek_then_read_lemma s y n m s1 bs s2 rs :
  step s (Peek y n) = (s1, ROkBytes bs) -> step s1 (Read y m) = (s2, ROkBytes rs) -> 0 < m ->
  prefix bs rs \/ prefix rs bs.
Proof.
  cbn [step]. intros Hp Hr Hm.
  assert (Hcases : bs = [] \/ exists full r', rd (eps s1 y) = Some r' /\ stash r' = Some full /\
                                        closed r' = false /\ bs = firstn n full).
  { unfold op_peek, after_pop in Hp. destruct (rd (eps s y)) as [r|] eqn:Erd; [|discriminate].
    destruct (closed r || Nat.eqb n 0) eqn:E0; [injection Hp as <- <-; now left|].
    apply orb_false_iff in E0 as [Ecl _].
    destruct (stash r) as [full|] eqn:Est.
    - injection Hp as <- <-. right. exists full, r. auto.
    - destruct (chan (eps s y)) as [|[full|] ch]; [destruct (is_some _); discriminate| |].
      + injection Hp as <- <-. right. exists full. destruct y; cbn; eexists; repeat split; reflexivity.
      + injection Hp as <- <-. now left. }
  destruct Hcases as [->|(full & r' & Hrd & Hst & Hcl & ->)]; [left; exists rs; reflexivity|].
  unfold op_read in Hr. rewrite Hrd, Hcl, Hst in Hr. cbn [orb] in Hr.
  destruct (Nat.eqb_spec m 0) as [->|_]; [lia|].
  destruct (take_stash_spec full m) as [Et _]. rewrite Et in Hr. injection Hr as _ <-.
  destruct (Nat.le_ge_cases n m) as [Hle|Hge].
  - left. exists (firstn (m - n) (skipn n full)).
    replace m with (n + (m - n)) at 1 by lia. apply firstn_plus.
  - right. exists (firstn (n - m) (skipn m full)).
    replace n with (m + (n - m)) at 1 by lia. apply firstn_plus.
Qed.
