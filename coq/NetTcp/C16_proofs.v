(* Lemmas for property C16: buffer caps, MSS, peer window, UDP oversize. *)
From TV.Lib Require Import Base.
From TV.NetTcp Require Import Gen Model Facts.
Open Scope N_scope.

(* ---- caps: every socket of every reachable kernel ---- *)

Lemma caps_lemma k fd s t :
  kreach k -> lookup k fd = Some s -> s_tcb s = Some t ->
  len (send_buf t) <= send_cap (cfg k) /\ len (recv_buf t) <= recv_cap (cfg k).
Proof.
  intros R L T. pose proof (KInv_lookup _ _ _ (kreach_KInv _ R) L) as H.
  unfold sock_ok in H. rewrite T in H. exact H.
Qed.

(* ---- MSS ---- *)

(* The model's MSS is the RFC arithmetic on the configured MTU (the header
   sizes come from Gen.v, i.e. from packet.rs as it is now). *)
Lemma mss_spec_lemma c src :
  mss_cfg c src = (if is_loop src then lo_mtu c else mtu c) - (if v6 src then 40 else 20) - 20.
Proof. reflexivity. Qed.

Lemma payload_le_mss_lemma k p s :
  kreach k -> In p (outb k) \/ In p (snd (k_egress k)) -> body p = Tcp s ->
  len (payload s) <= (if is_loop (psrc p) then lo_mtu (cfg k) else mtu (cfg k))
                     - (if v6 (psrc p) then 40 else 20) - 20.
Proof.
  intros R Hin B. pose proof (kreach_KInv _ R) as H.
  assert (pkt_ok (cfg k) p) as Hp.
  { destruct Hin as [Hin|Hin].
    - destruct H as [_ Ho]. rewrite Forall_forall in Ho. exact (Ho _ Hin).
    - destruct (KInv_k_egress k H) as (_ & _ & Ho). rewrite Forall_forall in Ho. exact (Ho _ Hin). }
  unfold pkt_ok in Hp. rewrite B in Hp. rewrite mss_spec_lemma in Hp. exact Hp.
Qed.

(* ---- peer window: right after an emission ---- *)

Lemma seg_step_inflight mss rc local t t' p :
  seg_step mss rc local t = Some (t', p) ->
  snd_nxt t' - snd_una t' <= snd_wnd t' /\ snd_wnd t' = snd_wnd t /\ snd_una t' = snd_una t.
Proof.
  unfold seg_step. intros E.
  destruct ((0 <? len (send_buf t) - (snd_nxt t - snd_una t)) && (0 <? snd_wnd t - (snd_nxt t - snd_una t))) eqn:C1.
  - inversion E; subst; clear E. proj. apply andb_prop in C1 as [A B].
    apply N.ltb_lt in A, B. split; [lia|split; reflexivity].
  - clear C1. destruct (_ && (0 <? snd_wnd t - (snd_nxt t - snd_una t))) eqn:C2; [|discriminate E].
    inversion E; subst; clear E. proj. apply andb_prop in C2 as [A B]. apply N.ltb_lt in B. split; [lia|split; reflexivity].
Qed.

Lemma seg_loop_inflight fuel mss rc local t :
  snd (seg_loop fuel mss rc local t) <> [] ->
  snd_nxt (fst (seg_loop fuel mss rc local t)) - snd_una (fst (seg_loop fuel mss rc local t))
    <= snd_wnd (fst (seg_loop fuel mss rc local t)).
Proof.
  revert t. induction fuel as [|f IH]; intros t; cbn [seg_loop]; [intros H; exfalso; apply H; reflexivity|].
  destruct (seg_step mss rc local t) as [[t' p]|] eqn:E; [|intros H; exfalso; apply H; reflexivity].
  intros _. specialize (IH t').
  destruct (seg_loop f mss rc local t') as [t'' ps] eqn:EL. cbn [fst snd] in *.
  destruct ps as [|q ps].
  - (* nothing more was emitted: t'' = t' *)
    assert (t'' = t') as ->.
    { destruct f; cbn in EL; [inversion EL; reflexivity|].
      destruct (seg_step mss rc local t') as [[t3 p3]|]; [|inversion EL; reflexivity].
      destruct (seg_loop f mss rc local t3). inversion EL. }
    apply (seg_step_inflight _ _ _ _ _ _ E).
  - apply IH. discriminate.
Qed.

Lemma lookup_upd_same l fd g s : lookup_s l fd = Some s -> lookup_s (upd_s l fd g) fd = Some (g s).
Proof.
  induction l as [|[f x] l IH]; cbn; [discriminate|].
  destruct (f =? fd) eqn:E; cbn; rewrite E; [intros H; inversion H; reflexivity|exact IH].
Qed.

Lemma inflight_le_wnd_lemma k fd s t :
  lookup k fd = Some s -> s_tcb s = Some t ->
  outb (segment_one k fd) <> outb k ->
  exists s' t', lookup (segment_one k fd) fd = Some s' /\ s_tcb s' = Some t' /\
                snd_nxt t' - snd_una t' <= snd_wnd t'.
Proof.
  intros L T Hne. unfold segment_one in *. rewrite L, T in *.
  pose proof (seg_loop_inflight (seg_fuel t) (mss_for k (fst (bound_endpoint s))) (recv_cap (cfg k)) (bound_endpoint s) t) as Hi.
  destruct (seg_loop _ _ _ _ t) as [t' ps]. cbn [fst snd] in *.
  exists (set_tcb s (Some t')), t'. split; [|split; [reflexivity|]].
  - unfold lookup, set_outb, upd_tcb, upd_sock, set_socks; cbn [socks]. exact (lookup_upd_same _ _ (fun s0 => set_tcb s0 (Some t')) _ L).
  - apply Hi. intro; subst. apply Hne. cbn. apply app_nil_r.
Qed.

(* An ACK never increases the amount in flight: the inequality can only be
   violated transiently by a later ACK that shrinks the window. *)
Lemma ack_inflight_noninc t s :
  snd_nxt (tcb_ack t s) - snd_una (tcb_ack t s) <= snd_nxt t - snd_una t.
Proof.
  unfold tcb_ack. destruct (f_ack s); [|lia].
  destruct ((snd_una t <? ackn s) && (ackn s <=? snd_nxt t)) eqn:C; proj; [|lia].
  apply andb_prop in C as [A B]. apply N.ltb_lt in A. apply N.leb_le in B. lia.
Qed.

(* ---- writes block exactly when the buffer is at its cap ---- *)

Definition writable (t : tcb) : Prop :=
  abort_error t = None /\ wr_closed t = false /\ (t_state t = Established \/ t_state t = CloseWait).

Lemma tcb_send_spec cap t buf :
  writable t -> len (send_buf t) <= cap ->
  (snd (tcb_send cap t buf) = Pending <-> len (send_buf t) = cap) /\
  (len (send_buf t) < cap ->
     snd (tcb_send cap t buf) = Ready (N.min (len buf) (cap - len (send_buf t))) /\
     send_buf (fst (tcb_send cap t buf)) = send_buf t ++ takeN (N.min (len buf) (cap - len (send_buf t))) buf) /\
  (len (send_buf t) = cap -> fst (tcb_send cap t buf) = t).
Proof.
  intros (A & W & S) Hc. unfold tcb_send. rewrite A, W. cbv zeta.
  destruct (cap - len (send_buf t) =? 0) eqn:E.
  - apply N.eqb_eq in E. assert (len (send_buf t) = cap) by lia.
    destruct S as [-> | ->]; cbn [fst snd]; (split; [tauto|split; [lia|reflexivity]]).
  - apply N.eqb_neq in E.
    destruct S as [-> | ->]; cbn [fst snd]; proj;
      (split; [split; [discriminate|lia]|split; [auto|lia]]).
Qed.

Lemma write_blocks_iff_full_lemma k fd s t buf :
  kreach k -> lookup k fd = Some s -> s_tcb s = Some t -> writable t ->
  (snd (k_poll_send k fd buf) = Pending <-> len (send_buf t) = send_cap (cfg k)) /\
  (len (send_buf t) < send_cap (cfg k) ->
     snd (k_poll_send k fd buf) = Ready (N.min (len buf) (send_cap (cfg k) - len (send_buf t)))).
Proof.
  intros R L T W. destruct (caps_lemma k fd s t R L T) as [Hc _].
  destruct (tcb_send_spec (send_cap (cfg k)) t buf W Hc) as (A & B & _).
  unfold k_poll_send. rewrite L, T. destruct (tcb_send _ t buf) as [t' r]. cbn [fst snd] in *.
  split; [exact A|]. intros Hl. exact (proj1 (B Hl)).
Qed.

(* ---- UDP: oversize payloads are rejected and nothing is emitted ---- *)

Lemma udp_max_payload_spec k dst :
  udp_max_payload k dst = (if is_loop dst then lo_mtu (cfg k) else mtu (cfg k)) - (if v6 dst then 40 else 20) - 8.
Proof. reflexivity. Qed.

Lemma auto_bind_err k fd st d e : snd (auto_bind k fd st d) = Err e -> e = EAddrNotAvail \/ e = EAddrInUse.
Proof.
  unfold auto_bind. destruct (if is_loop d then Some (loopback_of d) else first_addr k (v6 d)).
  - destruct (allocate_port k (v6 d) st) as [k1 [port|]]; cbn; intros H; inversion H; auto.
  - cbn. intros H; inversion H; auto.
Qed.

Lemma udp_core_oversize k fd s pl dst :
  ((if is_loop (fst dst) then lo_mtu (cfg k) else mtu (cfg k)) - (if v6 (fst dst) then 40 else 20) - 8 < len pl ->
     udp_send_core k fd s pl dst = (k, Err EMsgSize)) /\
  (len pl <= (if is_loop (fst dst) then lo_mtu (cfg k) else mtu (cfg k)) - (if v6 (fst dst) then 40 else 20) - 8 ->
     snd (udp_send_core k fd s pl dst) <> Err EMsgSize).
Proof.
  unfold udp_send_core. rewrite udp_max_payload_spec. split; intros H.
  - apply N.ltb_lt in H. rewrite H. reflexivity.
  - apply N.ltb_ge in H. rewrite H.
    destruct (s_bound s) as [b|].
    + cbn. discriminate.
    + pose proof (auto_bind_err k fd false (fst dst)) as HE.
      destruct (auto_bind k fd false (fst dst)) as [k1 [|b|e]]; cbn in *; try discriminate.
      intros HH; inversion HH; subst. destruct (HE _ eq_refl); discriminate.
Qed.

(* both UDP send syscalls: send_to / try_send_to (k_udp_send_to) and send / try_send of a connected socket (k_udp_send) *)
Lemma udp_oversize_rejected_lemma k fd s pl dst :
  lookup k fd = Some s ->
  let lim := (if is_loop (fst dst) then lo_mtu (cfg k) else mtu (cfg k)) - (if v6 (fst dst) then 40 else 20) - 8 in
  (s_v6 s = v6 (fst dst) ->
     (lim < len pl -> k_udp_send_to k fd pl dst = (k, Err EMsgSize)) /\
     (len pl <= lim -> snd (k_udp_send_to k fd pl dst) <> Err EMsgSize)) /\
  (s_peer s = Some dst ->
     (lim < len pl -> k_udp_send k fd pl = (k, Err EMsgSize)) /\
     (len pl <= lim -> snd (k_udp_send k fd pl) <> Err EMsgSize)).
Proof.
  intros L. cbv zeta. split.
  - intros F. unfold k_udp_send_to. rewrite L, F, Bool.eqb_reflx. cbn [negb]. apply udp_core_oversize.
  - intros P. unfold k_udp_send. rewrite L, P. apply udp_core_oversize.
Qed.
