(* Lemmas for property C06 on the connection-level system of Model.v:
   prefix safety under arbitrary loss / reordering / duplication, loud
   aborts, re-ACK of unaccepted segments, acknowledged => delivered. *)
From TV.Lib Require Import Base.
From TV.NetTcp Require Import Gen Model Facts C16_proofs.
Open Scope N_scope.

Definition prefix {A} (r w : list A) : Prop := exists rest, w = r ++ rest.

Lemma prefix_refl {A} (l : list A) : prefix l l.
Proof. exists []. now rewrite app_nil_r. Qed.
Lemma prefix_app {A} (r w e : list A) : prefix r w -> prefix r (w ++ e).
Proof. intros [x ->]. exists (x ++ e). now rewrite app_assoc. Qed.
Lemma prefix_takeN {A} n (w : list A) : prefix (takeN n w) w.
Proof. exists (dropN n w). symmetry. apply takeN_dropN. Qed.
Lemma prefix_trans {A} (a b c : list A) : prefix a b -> prefix b c -> prefix a c.
Proof. intros [x ->] [y ->]. exists (x ++ y). now rewrite app_assoc. Qed.
Lemma prefix_app_l {A} (a b : list A) : prefix a (a ++ b).
Proof. now exists b. Qed.

Definition alive (t : tcb) : Prop := reset t = false /\ timed_out t = false.

Lemma abort_error_none t : abort_error t = None <-> alive t.
Proof.
  unfold abort_error, alive. destruct (reset t), (timed_out t); split; intros H; try discriminate;
    try (destruct H; discriminate); auto.
Qed.

Lemma alive_dec t : alive t \/ ~ alive t.
Proof. unfold alive. destruct (reset t), (timed_out t); auto; right; intros [? ?]; discriminate. Qed.

(* ------------------------------------------------------------------ *)
(* Sender-side invariant of one TCB w.r.t. the ghost string W it has
   accepted; `b` is the sequence number of W's first byte (iss + 1).     *)

Record SndInv (b : N) (X : tcb) (W : list N) : Prop := {
  si_base : b <= snd_una X;
  si_nxt : snd_una X <= snd_nxt X;
  si_closed : ~ alive X -> t_state X = Closed;
  si_buf : alive X -> send_buf X = dropN (snd_una X - b) W;
  si_none : alive X -> fin_seq X = None -> wr_closed X = false /\ snd_nxt X <= b + len W;
  si_some : alive X -> forall fs, fin_seq X = Some fs ->
            wr_closed X = true /\ fs = b + len W /\ snd_nxt X <= fs + 1 }.

(* Receiver-side invariant of one TCB w.r.t. the peer's ghost string W and
   the bytes R its own application has read so far. *)
Record RcvInv (b : N) (Y : tcb) (W R : list N) : Prop := {
  ri_pre : prefix R W;
  ri_buf : alive Y -> exists d, rcv_nxt Y = b + d + (if peer_fin Y then 1 else 0) /\ d <= len W /\
                                R ++ recv_buf Y = takeN d W }.

(* Every payload-bearing segment in flight towards `dst` carries the bytes of W at its position. *)
Definition WireInv (b : N) (W : list N) (dst : side) (wire : list (side * seg)) : Prop :=
  forall g, In (dst, g) wire -> payload g <> [] ->
  exists o, seqn g = b + o /\ o + len (payload g) <= len W /\
            payload g = takeN (len (payload g)) (dropN o W).

Lemma SndInv_ext b X X' W :
  snd_una X' = snd_una X -> snd_nxt X' = snd_nxt X -> send_buf X' = send_buf X -> fin_seq X' = fin_seq X ->
  wr_closed X' = wr_closed X -> reset X' = reset X -> timed_out X' = timed_out X ->
  (t_state X = Closed -> t_state X' = Closed) -> SndInv b X W -> SndInv b X' W.
Proof.
  intros E1 E2 E3 E4 E5 E6 E7 E8 [A1 A2 A3 A4 A5 A6].
  assert (alive X' <-> alive X) as AL by (unfold alive; rewrite E6, E7; reflexivity).
  split; rewrite ?E1, ?E2, ?E3, ?E4, ?E5; try assumption.
  - intros NA. apply E8, A3. rewrite <- AL. exact NA.
  - intros Al. apply A4, AL, Al.
  - intros Al. apply A5, AL, Al.
  - intros Al. apply A6, AL, Al.
Qed.

Lemma RcvInv_ext b Y Y' W R :
  rcv_nxt Y' = rcv_nxt Y -> recv_buf Y' = recv_buf Y -> peer_fin Y' = peer_fin Y ->
  reset Y' = reset Y -> timed_out Y' = timed_out Y -> RcvInv b Y W R -> RcvInv b Y' W R.
Proof.
  intros E1 E2 E3 E4 E5 [P B]. split; [exact P|]. intros Al. rewrite E1, E2, E3. apply B.
  unfold alive in *. rewrite <- E4, <- E5. exact Al.
Qed.

(* ---- list facts used below ---- *)

Lemma takeN_dropN_app_stable {A} o n (W e : list A) :
  o + n <= len W -> takeN n (dropN o (W ++ e)) = takeN n (dropN o W).
Proof.
  intros H. rewrite dropN_app_le by lia. apply takeN_app_le. rewrite len_dropN. lia.
Qed.

Lemma takeN_len {A} (l : list A) : takeN (len l) l = l.
Proof. apply takeN_all. lia. Qed.

Lemma takeN_min_len {A} n (l : list A) : takeN (N.min n (len l)) l = takeN n l.
Proof.
  destruct (N.le_ge_cases n (len l)).
  - rewrite N.min_l by lia. reflexivity.
  - rewrite N.min_r by lia. rewrite takeN_len. symmetry. apply takeN_all. lia.
Qed.

(* ---- stability under growth of W (the peer's / own writes append) ---- *)

Lemma RcvInv_app b Y W R e : RcvInv b Y W R -> RcvInv b Y (W ++ e) R.
Proof.
  intros [P B]. split; [apply prefix_app, P|].
  intros A. destruct (B A) as (d & E1 & E2 & E3). exists d. repeat split; [exact E1|rewrite len_app; lia|].
  rewrite takeN_app_le by lia. exact E3.
Qed.

Lemma WireInv_app b W e dst wire : WireInv b W dst wire -> WireInv b (W ++ e) dst wire.
Proof.
  intros H g Hin Hp. destruct (H g Hin Hp) as (o & E1 & E2 & E3). exists o.
  repeat split; [exact E1|rewrite len_app; lia|]. rewrite takeN_dropN_app_stable by lia. exact E3.
Qed.

Lemma WireInv_add b W dst wire extra :
  WireInv b W dst wire ->
  (forall g, In (dst, g) extra -> payload g <> [] ->
     exists o, seqn g = b + o /\ o + len (payload g) <= len W /\ payload g = takeN (len (payload g)) (dropN o W)) ->
  WireInv b W dst (wire ++ extra).
Proof. intros H1 H2 g Hin Hp. apply in_app_or in Hin as [Hin|Hin]; auto. Qed.

Lemma WireInv_nopayload b W dst wire extra :
  WireInv b W dst wire -> (forall d g, In (d, g) extra -> payload g = []) -> WireInv b W dst (wire ++ extra).
Proof.
  intros H1 H2. apply WireInv_add; [assumption|]. intros g Hin Hp. exfalso. apply Hp. eapply H2, Hin.
Qed.

Lemma WireInv_sub b W dst wire wire' :
  WireInv b W dst wire -> (forall x, In x wire' -> In x wire) -> WireInv b W dst wire'.
Proof. intros H S g Hin Hp. apply H; auto. Qed.

Lemma remove_nth_incl {A} (l : list A) n x : In x (remove_nth l n) -> In x l.
Proof.
  revert n. induction l as [|a l IH]; intros n; cbn; [destruct n; auto|].
  destruct n; cbn; [auto|]. intros [H|H]; [auto|right; eapply IH, H].
Qed.

(* ------------------------------------------------------------------ *)
(* Per-function preservation                                           *)

(* -- tcb_send: W grows by exactly what was accepted -- *)
Definition accepted (r : res N) (bs : list N) : list N := match r with Ready n => takeN n bs | _ => [] end.

Lemma tcb_send_snd b X W cap bs :
  SndInv b X W -> SndInv b (fst (tcb_send cap X bs)) (W ++ accepted (snd (tcb_send cap X bs)) bs).
Proof.
  intros H. unfold tcb_send.
  destruct (abort_error X) eqn:AE; [cbn; rewrite app_nil_r; exact H|].
  apply abort_error_none in AE.
  destruct (wr_closed X) eqn:WC; [cbn; rewrite app_nil_r; exact H|].
  assert (fin_seq X = None) as FN.
  { destruct (fin_seq X) as [fs|] eqn:F; [|reflexivity]. destruct (si_some _ _ _ H AE fs F) as [C _]. congruence. }
  destruct (si_none _ _ _ H AE FN) as [_ Hn].
  pose proof (si_base _ _ _ H) as Hb. pose proof (si_nxt _ _ _ H) as Hx.
  assert (SndInv b (set_send_buf X (send_buf X ++ takeN (N.min (len bs) (cap - len (send_buf X))) bs))
                 (W ++ takeN (N.min (len bs) (cap - len (send_buf X))) bs)) as G.
  { destruct H as [A1 A2 A3 A4 A5 A6]. split; proj; try assumption.
    - intros Al. rewrite (A4 Al). rewrite dropN_app_le by lia. reflexivity.
    - intros Al F. destruct (A5 Al F) as [C1 C2]. split; [exact C1|]. rewrite len_app. lia.
    - intros Al fs F. congruence. }
  destruct (t_state X); cbn; try (rewrite app_nil_r; exact H);
    (destruct (_ =? 0); cbn; [rewrite app_nil_r; exact H|exact G]).
Qed.

Lemma tcb_send_rcv b X W R cap bs : RcvInv b X W R -> RcvInv b (fst (tcb_send cap X bs)) W R.
Proof.
  intros H. unfold tcb_send. destruct (abort_error X); [exact H|]. destruct (wr_closed X); [exact H|].
  destruct H as [P B].
  destruct (t_state X); cbn; try (split; assumption);
    (destruct (_ =? 0); cbn; split; try exact P; intros Al; exact (B Al)).
Qed.

Lemma tcb_send_state cap X bs : t_state (fst (tcb_send cap X bs)) = t_state X.
Proof.
  unfold tcb_send. destruct (abort_error X); [reflexivity|]. destruct (wr_closed X); [reflexivity|].
  destruct (t_state X) eqn:E; cbn; try exact E; (destruct (_ =? 0); cbn; exact E).
Qed.

(* -- tcb_queue_fin / tcb_shutdown -- *)
Lemma wr_close_state_closed s : s = Closed -> wr_close_state s = Closed.
Proof. intros ->. reflexivity. Qed.

Lemma tcb_shutdown_snd b X W : SndInv b X W -> SndInv b (fst (tcb_shutdown X)) W.
Proof.
  intros H. unfold tcb_shutdown. destruct (abort_error X) eqn:AE; [exact H|]. apply abort_error_none in AE.
  destruct (wr_closed X) eqn:WC; [exact H|]. cbn [fst].
  assert (fin_seq X = None) as FN.
  { destruct (fin_seq X) as [fs|] eqn:F; [|reflexivity]. destruct (si_some _ _ _ H AE fs F) as [C _]. congruence. }
  destruct (si_none _ _ _ H AE FN) as [_ Hn].
  destruct H as [A1 A2 A3 A4 A5 A6]. unfold tcb_queue_fin. split; proj; try assumption.
  - intros NA. exfalso. apply NA. exact AE.
  - intros _ F. discriminate.
  - intros _ fs F. inversion F; subst; clear F. rewrite (A4 AE), len_dropN. split; [reflexivity|]. split; lia.
Qed.

Lemma tcb_shutdown_rcv b X W R : RcvInv b X W R -> RcvInv b (fst (tcb_shutdown X)) W R.
Proof.
  intros H. unfold tcb_shutdown. destruct (abort_error X); [exact H|]. destruct (wr_closed X); [exact H|].
  destruct H as [P B]. split; [exact P|]. intros Al. exact (B Al).
Qed.

Lemma tcb_shutdown_state X : t_state X <> SynSent -> t_state (fst (tcb_shutdown X)) <> SynSent.
Proof.
  unfold tcb_shutdown. destruct (abort_error X); [auto|]. destruct (wr_closed X); [auto|]. cbn.
  destruct (t_state X); cbn; congruence.
Qed.

(* -- tcb_recv -- *)
Lemma tcb_recv_snd b X W cap n : SndInv b X W -> SndInv b (fst (fst (tcb_recv cap X n))) W.
Proof.
  intros H. unfold tcb_recv. destruct (abort_error X); [exact H|].
  destruct (is_nil _); [destruct (peer_fin X); [exact H|]; destruct (negb _); exact H|].
  apply (SndInv_ext b X); try reflexivity; auto.
Qed.

Definition got (r : res (list N)) : list N := match r with Ready bs => bs | _ => [] end.

Lemma tcb_recv_rcv b Y W R cap n :
  RcvInv b Y W R ->
  RcvInv b (fst (fst (tcb_recv cap Y n))) W (R ++ got (snd (fst (tcb_recv cap Y n)))).
Proof.
  intros H. unfold tcb_recv. destruct (abort_error Y) eqn:AE; [cbn; rewrite app_nil_r; exact H|].
  apply abort_error_none in AE.
  destruct (is_nil (recv_buf Y)).
  { destruct (peer_fin Y); [cbn; rewrite app_nil_r; exact H|]. destruct (negb _); cbn; rewrite app_nil_r; exact H. }
  cbn [fst snd got]. destruct H as [P B]. destruct (B AE) as (d & E1 & E2 & E3).
  set (k := N.min (len (recv_buf Y)) n).
  assert ((R ++ takeN k (recv_buf Y)) ++ dropN k (recv_buf Y) = takeN d W) as E4.
  { rewrite <- app_assoc, takeN_dropN. exact E3. }
  split.
  - eapply prefix_trans; [|apply (prefix_takeN d W)]. rewrite <- E4. apply prefix_app_l.
  - intros _. exists d. proj. repeat split; assumption.
Qed.

Lemma tcb_recv_state cap X n : t_state (fst (fst (tcb_recv cap X n))) = t_state X.
Proof.
  unfold tcb_recv. destruct (abort_error X); [reflexivity|].
  destruct (is_nil _); [destruct (peer_fin X); [reflexivity|]; destruct (negb _); reflexivity|]. reflexivity.
Qed.

Lemma tcb_recv_alive cap X n : alive (fst (fst (tcb_recv cap X n))) <-> alive X.
Proof.
  unfold tcb_recv. destruct (abort_error X); [reflexivity|].
  destruct (is_nil _); [destruct (peer_fin X); [reflexivity|]; destruct (negb _); reflexivity|]. reflexivity.
Qed.

(* -- tcb_abort -- *)
Lemma tcb_abort_snd b X W tm : SndInv b X W -> SndInv b (tcb_abort tm X) W.
Proof.
  intros [A1 A2 A3 A4 A5 A6].
  assert (~ alive (tcb_abort tm X)) as NA.
  { unfold alive, tcb_abort; proj. destruct tm; intros [? ?]; discriminate. }
  split; unfold tcb_abort in *; proj; try assumption; try reflexivity; intros Al; exfalso; apply NA; exact Al.
Qed.

Lemma tcb_abort_rcv b Y W R tm : RcvInv b Y W R -> RcvInv b (tcb_abort tm Y) W R.
Proof.
  intros [P B]. split; [exact P|]. intros Al. exfalso.
  unfold alive, tcb_abort in Al; proj. destruct tm, Al; discriminate.
Qed.

(* -- tcb_retx_tick -- *)
Lemma tcb_retx_tick_snd b X W th mx : SndInv b X W -> SndInv b (fst (tcb_retx_tick th mx X)) W.
Proof.
  intros H. unfold tcb_retx_tick. destruct (retx_candidate X); [|exact H].
  destruct (_ <? _); [destruct H; split; assumption|]. destruct (_ <=? _); [destruct H; split; assumption|].
  destruct (handshake_state _); cbn [fst]; [destruct H; split; assumption|].
  destruct H as [A1 A2 A3 A4 A5 A6]. split; proj; try assumption; try lia.
  - intros Al F. destruct (A5 Al F). split; [assumption|lia].
  - intros Al fs F. destruct (A6 Al fs F) as (C1 & C2 & C3). repeat split; try assumption. lia.
Qed.

Lemma tcb_retx_tick_rcv b Y W R th mx : RcvInv b Y W R -> RcvInv b (fst (tcb_retx_tick th mx Y)) W R.
Proof.
  intros H. unfold tcb_retx_tick. destruct (retx_candidate Y); [|exact H].
  destruct (_ <? _); [|destruct (_ <=? _); [|destruct (handshake_state _)]];
    cbn [fst]; apply (RcvInv_ext b Y); try reflexivity; exact H.
Qed.

Lemma tcb_retx_tick_state th mx X : t_state (fst (tcb_retx_tick th mx X)) = t_state X.
Proof.
  unfold tcb_retx_tick. destruct (retx_candidate X); [|reflexivity].
  destruct (_ <? _); [reflexivity|]. destruct (_ <=? _); [reflexivity|]. destruct (handshake_state _); reflexivity.
Qed.

(* -- seg_step / seg_loop: emitted data is W at its sequence position -- *)
Definition seg_fact (b : N) (W : list N) (g : seg) : Prop :=
  payload g <> [] ->
  exists o, seqn g = b + o /\ o + len (payload g) <= len W /\ payload g = takeN (len (payload g)) (dropN o W).

Lemma seg_step_snd b X W mss rc local X' p :
  SndInv b X W -> t_state X <> Closed -> seg_step mss rc local X = Some (X', p) ->
  SndInv b X' W /\ t_state X' = t_state X /\ (forall g, body p = Tcp g -> seg_fact b W g) /\
  recv_buf X' = recv_buf X /\ rcv_nxt X' = rcv_nxt X /\ peer_fin X' = peer_fin X /\ (alive X' <-> alive X).
Proof.
  intros H NC E.
  assert (alive X) as Al.
  { destruct (alive_dec X) as [A|A]; [exact A|]. exfalso. apply NC. apply (si_closed _ _ _ H A). }
  pose proof (si_base _ _ _ H) as Hb. pose proof (si_nxt _ _ _ H) as Hx. pose proof (si_buf _ _ _ H Al) as Hs.
  unfold seg_step in E.
  destruct ((0 <? len (send_buf X) - (snd_nxt X - snd_una X)) && (0 <? snd_wnd X - (snd_nxt X - snd_una X))) eqn:C1.
  - inversion E; subst; clear E. apply andb_prop in C1 as [C1 C2]. apply N.ltb_lt in C1, C2.
    set (n := N.min (N.min (len (send_buf X) - (snd_nxt X - snd_una X)) mss) (snd_wnd X - (snd_nxt X - snd_una X))) in *.
    assert (snd_una X - b <= len W) as Ho.
    { rewrite Hs, len_dropN in C1. lia. }
    assert (len (send_buf X) = len W - (snd_una X - b)) as Hl by (rewrite Hs, len_dropN; reflexivity).
    split; [|split; [reflexivity|split; [|repeat (split; [reflexivity|]); reflexivity]]].
    + destruct H as [A1 A2 A3 A4 A5 A6]. split; proj; try assumption; try lia.
      * intros _ F. destruct (A5 Al F) as [Q1 Q2]. split; [exact Q1|]. lia.
      * intros _ fs F. destruct (A6 Al fs F) as (Q1 & Q2 & Q3). repeat split; try assumption. lia.
    + intros g Hg. cbn in Hg. inversion Hg; subst; clear Hg. intros _. cbn [seqn payload].
      exists (snd_nxt X - b). split; [lia|].
      rewrite Hs, dropN_dropN. replace (snd_una X - b + (snd_nxt X - snd_una X)) with (snd_nxt X - b) by lia.
      rewrite len_takeN. split; [rewrite len_dropN; lia|]. symmetry. apply takeN_min_len.
  - clear C1. destruct (_ && (0 <? snd_wnd X - (snd_nxt X - snd_una X))) eqn:C2; [|discriminate E].
    inversion E; subst; clear E. apply andb_prop in C2 as [C2 C3].
    destruct (fin_seq X) as [fs|] eqn:F; [|discriminate C2]. apply N.eqb_eq in C2.
    split; [|split; [reflexivity|split; [|repeat (split; [reflexivity|]); reflexivity]]].
    + destruct H as [A1 A2 A3 A4 A5 A6]. split; proj; try assumption; try lia.
      * intros _ F'. congruence.
      * intros _ fs' F'. destruct (A6 Al fs' F') as (Q1 & Q2 & Q3). repeat split; try assumption.
        assert (fs' = fs) by congruence. lia.
    + intros g Hg. cbn in Hg. inversion Hg; subst. intros Hp. exfalso. apply Hp. reflexivity.
Qed.

Lemma seg_loop_snd b W mss rc local fuel X :
  SndInv b X W -> t_state X <> Closed ->
  let r := seg_loop fuel mss rc local X in
  SndInv b (fst r) W /\ t_state (fst r) = t_state X /\
  (forall d g, In (d, g) (pkt_segs d (snd r)) -> seg_fact b W g) /\
  recv_buf (fst r) = recv_buf X /\ rcv_nxt (fst r) = rcv_nxt X /\ peer_fin (fst r) = peer_fin X /\
  (alive (fst r) <-> alive X).
Proof.
  assert (forall X, SndInv b X W ->
            SndInv b X W /\ t_state X = t_state X /\
            (forall d g, In (d, g) (pkt_segs d []) -> seg_fact b W g) /\
            recv_buf X = recv_buf X /\ rcv_nxt X = rcv_nxt X /\ peer_fin X = peer_fin X /\ (alive X <-> alive X)) as TR.
  { intros X0 H0. split; [assumption|]. split; [reflexivity|]. split; [intros d g []|].
    repeat (split; [reflexivity|]); reflexivity. }
  revert X. induction fuel as [|f IH]; intros X H NC; cbn [seg_loop].
  { apply TR, H. }
  destruct (seg_step mss rc local X) as [[X' p]|] eqn:E.
  2:{ apply TR, H. }
  destruct (seg_step_snd _ _ _ _ _ _ _ _ H NC E) as (H1 & S1 & P1 & B1 & N1 & F1 & L1).
  assert (t_state X' <> Closed) as NC' by congruence.
  specialize (IH X' H1 NC'). destruct (seg_loop f mss rc local X') as [X'' ps]. cbn [fst snd] in *.
  destruct IH as (H2 & S2 & P2 & B2 & N2 & F2 & L2).
  split; [exact H2|]. split; [congruence|]. split.
  2:{ split; [congruence|]. split; [congruence|]. split; [congruence|]. tauto. }
  intros d g Hin. cbn in Hin. apply in_app_or in Hin as [Hin|Hin]; [|eapply P2, Hin].
  destruct (body p) as [| g0] eqn:Bp; [contradiction|]. destruct Hin as [Hin|[]]. inversion Hin; subst. apply P1. reflexivity.
Qed.

(* -- inbound: tcb_ack (sender role), tcb_data / tcb_fin (receiver role) -- *)

Lemma fin_ack_state_closed s : s = Closed -> fin_ack_state s = Closed. Proof. intros ->; reflexivity. Qed.
Lemma fin_rcv_state_closed s : s = Closed -> fin_rcv_state s = Closed. Proof. intros ->; reflexivity. Qed.

Lemma tcb_ack_snd b X W s : SndInv b X W -> SndInv b (tcb_ack X s) W.
Proof.
  intros H. unfold tcb_ack. destruct (f_ack s); [|exact H].
  destruct ((snd_una X <? ackn s) && (ackn s <=? snd_nxt X)) eqn:C.
  2:{ destruct H; split; assumption. }
  apply andb_prop in C as [C1 C2]. apply N.ltb_lt in C1. apply N.leb_le in C2.
  destruct H as [A1 A2 A3 A4 A5 A6].
  assert (alive (set_snd_wnd (mktcb
            (if match fin_seq X with Some fs => ackn s =? fs + 1 | None => false end then fin_ack_state (t_state X) else t_state X)
            (t_peer X) (snd_nxt X) (ackn s) (snd_wnd X) (rcv_nxt X)
            (dropN (if match fin_seq X with Some fs => ackn s =? fs + 1 | None => false end
                    then ackn s - snd_una X - 1 else ackn s - snd_una X) (send_buf X)) (recv_buf X)
            (wr_closed X) (peer_fin X) (fin_seq X) (reset X) (timed_out X) 0 0) (win s)) <-> alive X) as AL by reflexivity.
  split; proj; try lia.
  - intros NA. rewrite AL in NA. rewrite (A3 NA). destruct (match fin_seq X with Some _ => _ | None => _ end); reflexivity.
  - intros Al. rewrite AL in Al. rewrite (A4 Al), dropN_dropN.
    destruct (fin_seq X) as [fs|] eqn:F.
    + destruct (A6 Al fs eq_refl) as (Q1 & Q2 & Q3).
      destruct (ackn s =? fs + 1) eqn:EF.
      * apply N.eqb_eq in EF. rewrite !dropN_all; [reflexivity|lia|lia].
      * apply N.eqb_neq in EF. f_equal. lia.
    + f_equal. lia.
  - intros Al F. rewrite AL in Al. destruct (A5 Al F). split; assumption.
  - intros Al fs F. rewrite AL in Al. apply (A6 Al fs F).
Qed.

Lemma tcb_ack_rcv b Y W R s : RcvInv b Y W R -> RcvInv b (tcb_ack Y s) W R.
Proof.
  intros H. unfold tcb_ack. destruct (f_ack s); [|exact H].
  destruct (_ && _); destruct H as [P B]; split; try exact P; intros Al; exact (B Al).
Qed.

Lemma tcb_data_snd b X W cap s : SndInv b X W -> SndInv b (fst (tcb_data cap X s)) W.
Proof.
  intros H. unfold tcb_data. destruct (_ && _); [|exact H]. destruct (0 <? _); [|exact H].
  destruct H; split; assumption.
Qed.

Lemma tcb_fin_snd b X W s : SndInv b X W -> SndInv b (fst (tcb_fin X s)) W.
Proof.
  intros H. unfold tcb_fin. destruct (_ && _); [|exact H]. destruct (_ =? _); [|exact H].
  destruct H as [A1 A2 A3 A4 A5 A6]. split; try assumption.
  intros NA. cbn. apply fin_rcv_state_closed, A3, NA.
Qed.

Lemma tcb_data_rcv b Y W R cap s :
  RcvInv b Y W R -> seg_fact b W s -> RcvInv b (fst (tcb_data cap Y s)) W R.
Proof.
  intros H SF. unfold tcb_data.
  destruct (negb (is_nil (payload s)) && (seqn s =? rcv_nxt Y) && negb (peer_fin Y)) eqn:C; [|exact H].
  destruct (0 <? _) eqn:C0; [|exact H]. cbn [fst].
  apply andb_prop in C as [C C3]. apply andb_prop in C as [C1 C2].
  apply N.eqb_eq in C2. apply Bool.negb_true_iff in C3.
  assert (payload s <> []) as Hp by (intro E; rewrite E in C1; discriminate).
  destruct (SF Hp) as (o & E1 & E2 & E3).
  destruct H as [P B]. split; [exact P|]. intros Al.
  destruct (B Al) as (d & D1 & D2 & D3). rewrite C3 in D1.
  assert (o = d) as -> by lia.
  set (n := N.min (len (payload s)) (cap - len (recv_buf Y))).
  exists (d + n). proj. rewrite C3. repeat split; [lia|unfold n; lia|].
  rewrite app_assoc, D3, E3, takeN_takeN. replace (N.min n (len (payload s))) with n by (unfold n; lia).
  apply takeN_takeN_dropN.
Qed.

Lemma tcb_fin_rcv b Y W R s : RcvInv b Y W R -> RcvInv b (fst (tcb_fin Y s)) W R.
Proof.
  intros H. unfold tcb_fin. destruct (f_fin s && negb (peer_fin Y)) eqn:C; [|exact H].
  destruct (_ =? _); [|exact H]. cbn [fst]. apply andb_prop in C as [_ C]. apply Bool.negb_true_iff in C.
  destruct H as [P B]. split; [exact P|]. intros Al. destruct (B Al) as (d & D1 & D2 & D3). rewrite C in D1.
  exists d. proj. repeat split; [lia|assumption|assumption].
Qed.

Lemma tcb_on_seg_snd b X W cap s : SndInv b X W -> SndInv b (fst (tcb_on_seg cap X s)) W.
Proof.
  intros H. unfold tcb_on_seg.
  pose proof (tcb_data_snd b _ W cap s (tcb_ack_snd b X W s H)) as H1.
  destruct (tcb_data cap (tcb_ack X s) s) as [t2 a1]. cbn [fst] in H1.
  pose proof (tcb_fin_snd b _ W s H1) as H2. destruct (tcb_fin t2 s) as [t3 a2]. exact H2.
Qed.

Lemma tcb_on_seg_rcv b Y W R cap s :
  RcvInv b Y W R -> seg_fact b W s -> RcvInv b (fst (tcb_on_seg cap Y s)) W R.
Proof.
  intros H SF. unfold tcb_on_seg.
  pose proof (tcb_data_rcv b _ W R cap s (tcb_ack_rcv b Y W R s H) SF) as H1.
  destruct (tcb_data cap (tcb_ack Y s) s) as [t2 a1]. cbn [fst] in H1.
  pose proof (tcb_fin_rcv b _ W R s H1) as H2. destruct (tcb_fin t2 s) as [t3 a2]. exact H2.
Qed.

Lemma tcb_on_seg_state cap X s : t_state X <> SynSent -> t_state (fst (tcb_on_seg cap X s)) <> SynSent.
Proof.
  intros NS. unfold tcb_on_seg.
  assert (t_state (tcb_ack X s) <> SynSent) as H0.
  { unfold tcb_ack. destruct (f_ack s); [|exact NS]. destruct (_ && _); proj; [|exact NS].
    destruct (match fin_seq X with Some _ => _ | None => _ end); [|exact NS]. destruct (t_state X); cbn; congruence. }
  assert (t_state (fst (tcb_data cap (tcb_ack X s) s)) <> SynSent) as H1.
  { unfold tcb_data. destruct (_ && _); [|exact H0]. destruct (0 <? _); exact H0. }
  destruct (tcb_data cap (tcb_ack X s) s) as [t2 a1]. cbn [fst] in H1.
  assert (t_state (fst (tcb_fin t2 s)) <> SynSent) as H2.
  { unfold tcb_fin. destruct (_ && _); [|exact H1]. destruct (_ =? _); [|exact H1]. cbn. destruct (t_state t2); cbn; congruence. }
  destruct (tcb_fin t2 s) as [t3 a2]. exact H2.
Qed.

Lemma tcb_on_conn_snd b X W cap s :
  SndInv b X W -> t_state X <> SynSent -> SndInv b (fst (tcb_on_conn cap X s)) W.
Proof.
  intros H NS. unfold tcb_on_conn.
  pose proof (tcb_on_seg_snd b X W cap s H) as H1. destruct (tcb_on_seg cap X s) as [t' a]. cbn [fst] in H1.
  destruct (t_state X) eqn:ST; try exact H1; try exact H; [congruence|].
  destruct (_ && _); [|exact H]. destruct (negb _); [exact H|]. cbn [fst].
  destruct H as [A1 A2 A3 A4 A5 A6].
  split; proj; try assumption.
  intros NA. exfalso. assert (t_state X = Closed) as C by (apply A3, NA). congruence.
Qed.

Lemma tcb_on_conn_rcv b Y W R cap s :
  RcvInv b Y W R -> seg_fact b W s -> t_state Y <> SynSent -> RcvInv b (fst (tcb_on_conn cap Y s)) W R.
Proof.
  intros H SF NS. unfold tcb_on_conn.
  pose proof (tcb_on_seg_rcv b Y W R cap s H SF) as H1. destruct (tcb_on_seg cap Y s) as [t' a]. cbn [fst] in H1.
  destruct (t_state Y) eqn:ST; try exact H1; try exact H; [congruence|].
  destruct (_ && _); [|exact H]. destruct (negb _); [exact H|]. cbn [fst].
  destruct H as [P B]. split; [exact P|]. intros Al. exact (B Al).
Qed.

Lemma tcb_on_conn_state cap X s : t_state X <> SynSent -> t_state (fst (tcb_on_conn cap X s)) <> SynSent.
Proof.
  intros NS. unfold tcb_on_conn.
  pose proof (tcb_on_seg_state cap X s NS) as H1. destruct (tcb_on_seg cap X s) as [t' a]. cbn [fst] in H1.
  destruct (t_state X) eqn:ST; try exact H1; try congruence; try (cbn; congruence).
  destruct (_ && _); [|cbn; congruence]. destruct (negb _); cbn; congruence.
Qed.

(* ------------------------------------------------------------------ *)
(* The invariant of the connection system                              *)

Record CInv (ba bb : N) (c : conn) : Prop := {
  ci_sa : SndInv ba (ta c) (wa c);  ci_rb : RcvInv ba (tb c) (wa c) (rb c);  ci_wb : WireInv ba (wa c) SB (cwire c);
  ci_sb : SndInv bb (tb c) (wb c);  ci_ra : RcvInv bb (ta c) (wb c) (ra c);  ci_wa : WireInv bb (wb c) SA (cwire c);
  ci_na : t_state (ta c) <> SynSent; ci_nb : t_state (tb c) <> SynSent }.

(* A view of CInv from one side: (s is the acting side, o = other s). *)
Record SideInv (bs bo : N) (T O : tcb) (Ws Wo Rs Ro : list N) (s : side) (wire : list (side * seg)) : Prop := {
  v_snd : SndInv bs T Ws; v_rcvo : RcvInv bs O Ws Ro; v_wo : WireInv bs Ws (other s) wire;
  v_sndo : SndInv bo O Wo; v_rcv : RcvInv bo T Wo Rs; v_w : WireInv bo Wo s wire;
  v_n : t_state T <> SynSent; v_no : t_state O <> SynSent }.

Definition base_of (ba bb : N) (s : side) : N := match s with SA => ba | SB => bb end.

Lemma CInv_view ba bb c s :
  CInv ba bb c <->
  SideInv (base_of ba bb s) (base_of ba bb (other s)) (tcb_of c s) (tcb_of c (other s))
          (written c s) (written c (other s)) (readb c s) (readb c (other s)) s (cwire c).
Proof.
  destruct s; cbn; split; intros [H1 H2 H3 H4 H5 H6 H7 H8]; split; assumption.
Qed.

Lemma view_set_side ba bb c s T' W' R' extra :
  SideInv (base_of ba bb s) (base_of ba bb (other s)) T' (tcb_of c (other s))
          W' (written c (other s)) R' (readb c (other s)) s (cwire c ++ extra) ->
  CInv ba bb (set_side c s T' W' R' extra).
Proof.
  intros H. apply (CInv_view ba bb _ s). destruct s; cbn in *; exact H.
Qed.

Lemma pkt_segs_nopayload d ps :
  (forall p g, In p ps -> body p = Tcp g -> payload g = []) ->
  forall d' g, In (d', g) (pkt_segs d ps) -> payload g = [].
Proof.
  intros H d' g Hin. unfold pkt_segs in Hin. apply in_flat_map in Hin as (p & Hp & Hin).
  destruct (body p) as [|g0] eqn:B; [contradiction|]. destruct Hin as [Hin|[]]. inversion Hin; subst. eapply H; eassumption.
Qed.

Lemma ack_segs_nopayload d p :
  (forall g, body p = Tcp g -> payload g = []) -> forall d' g, In (d', g) (pkt_segs d [p]) -> payload g = [].
Proof.
  intros H. apply pkt_segs_nopayload. intros p0 g [<-|[]] B. apply H, B.
Qed.

Lemma ack_of_nopayload rc l r t g : body (ack_of rc l r t) = Tcp g -> payload g = [].
Proof. cbn. intros H; inversion H; reflexivity. Qed.
Lemma mk_ack_nopayload l r a b w g : body (mk_ack l r a b w) = Tcp g -> payload g = [].
Proof. cbn. intros H; inversion H; reflexivity. Qed.

Lemma pkt_segs_dst d ps d' g : In (d', g) (pkt_segs d ps) -> d' = d.
Proof.
  unfold pkt_segs. intros Hin. apply in_flat_map in Hin as (p & _ & Hin).
  destruct (body p); [contradiction|]. destruct Hin as [Hin|[]]. inversion Hin; reflexivity.
Qed.

Lemma other_neq s : other s <> s. Proof. destruct s; discriminate. Qed.

Theorem cstep_inv k ba bb c e : CInv ba bb c -> CInv ba bb (cstep k c e).
Proof.
  intros H. destruct e; cbn [cstep].
  - (* CWrite *)
    apply (CInv_view ba bb c s) in H. destruct H as [V1 V2 V3 V4 V5 V6 V7 V8].
    pose proof (tcb_send_snd _ _ _ (send_cap k) bs V1) as S1.
    pose proof (tcb_send_rcv _ _ _ _ (send_cap k) bs V5) as S2.
    pose proof (tcb_send_state (send_cap k) (tcb_of c s) bs) as S3.
    destruct (tcb_send (send_cap k) (tcb_of c s) bs) as [t' r]. cbn [fst snd] in *.
    apply view_set_side. rewrite app_nil_r. split; try assumption.
    + apply RcvInv_app, V2.
    + apply WireInv_app, V3.
    + congruence.
  - (* CRead *)
    apply (CInv_view ba bb c s) in H. destruct H as [V1 V2 V3 V4 V5 V6 V7 V8].
    pose proof (tcb_recv_snd _ _ _ (recv_cap k) n V1) as S1.
    pose proof (tcb_recv_rcv _ _ _ _ (recv_cap k) n V5) as S2.
    pose proof (tcb_recv_state (recv_cap k) (tcb_of c s) n) as S3.
    destruct (tcb_recv (recv_cap k) (tcb_of c s) n) as [[t' r] u]. cbn [fst snd] in *.
    apply view_set_side. split; try assumption; try congruence.
    + destruct u; [|rewrite app_nil_r; exact V3].
      apply WireInv_nopayload; [exact V3|]. apply ack_segs_nopayload, ack_of_nopayload.
    + destruct u; [|rewrite app_nil_r; exact V6].
      apply WireInv_nopayload; [exact V6|]. apply ack_segs_nopayload, ack_of_nopayload.
  - (* CShutdown *)
    apply (CInv_view ba bb c s) in H. destruct H as [V1 V2 V3 V4 V5 V6 V7 V8].
    pose proof (tcb_shutdown_snd _ _ _ V1) as S1. pose proof (tcb_shutdown_rcv _ _ _ _ V5) as S2.
    pose proof (tcb_shutdown_state _ V7) as S3.
    destruct (tcb_shutdown (tcb_of c s)) as [t' r]. cbn [fst] in *.
    apply view_set_side. rewrite app_nil_r. split; assumption.
  - (* CSegment *)
    destruct (transmittable (tcb_of c s)) eqn:TR; [|exact H].
    apply (CInv_view ba bb c s) in H. destruct H as [V1 V2 V3 V4 V5 V6 V7 V8].
    assert (t_state (tcb_of c s) <> Closed) as NC.
    { unfold transmittable in TR. apply andb_prop in TR as [TR _]. intro E. rewrite E in TR. discriminate. }
    pose proof (seg_loop_snd _ _ mss (recv_cap k) nowhere fuel _ V1 NC) as S.
    destruct (seg_loop fuel mss (recv_cap k) nowhere (tcb_of c s)) as [t' ps]. cbn [fst snd] in S.
    destruct S as (S1 & S2 & S3 & S4 & S5 & S6 & S7).
    apply view_set_side. split; try assumption; try congruence.
    + apply WireInv_add; [exact V3|]. intros g Hin. apply (S3 _ _ Hin).
    + destruct V5 as [P B]. split; [exact P|]. intros Al. rewrite S7 in Al. rewrite S4, S5, S6. exact (B Al).
    + apply WireInv_add; [exact V6|]. intros g Hin. apply pkt_segs_dst in Hin. exfalso. exact (other_neq _ (eq_sym Hin)).
  - (* CRetx *)
    apply (CInv_view ba bb c s) in H. destruct H as [V1 V2 V3 V4 V5 V6 V7 V8].
    pose proof (tcb_retx_tick_snd _ _ _ (retx_threshold k) (retx_max k) V1) as S1.
    pose proof (tcb_retx_tick_rcv _ _ _ _ (retx_threshold k) (retx_max k) V5) as S2.
    pose proof (tcb_retx_tick_state (retx_threshold k) (retx_max k) (tcb_of c s)) as S3.
    destruct (tcb_retx_tick (retx_threshold k) (retx_max k) (tcb_of c s)) as [t' a]. cbn [fst] in *.
    apply view_set_side. rewrite app_nil_r.
    destruct a; split; try assumption; try congruence;
      try (apply tcb_abort_snd; assumption); try (apply tcb_abort_rcv; assumption); cbn; discriminate.
  - (* CDeliver *)
    destruct (nth_error (cwire c) i) as [[d g]|] eqn:NE; [|exact H].
    pose proof (nth_error_In _ _ NE) as Hin.
    apply (CInv_view ba bb c d) in H. destruct H as [V1 V2 V3 V4 V5 V6 V7 V8].
    destruct (f_rst g).
    { apply view_set_side. rewrite app_nil_r. split; try assumption.
      - apply tcb_abort_snd, V1. - apply tcb_abort_rcv, V5. - cbn; discriminate. }
    assert (seg_fact (base_of ba bb (other d)) (written c (other d)) g) as SF by (intros Hp; apply (V6 g Hin Hp)).
    pose proof (tcb_on_conn_snd _ _ _ (recv_cap k) g V1 V7) as S1.
    pose proof (tcb_on_conn_rcv _ _ _ _ (recv_cap k) g V5 SF V7) as S2.
    pose proof (tcb_on_conn_state (recv_cap k) _ g V7) as S3.
    destruct (tcb_on_conn (recv_cap k) (tcb_of c d) g) as [t' o]. cbn [fst] in *.
    apply view_set_side. split; try assumption.
    + destruct o; try (rewrite app_nil_r; exact V3);
        (apply WireInv_nopayload; [exact V3|]; apply ack_segs_nopayload); [apply ack_of_nopayload|apply mk_ack_nopayload].
    + destruct o; try (rewrite app_nil_r; exact V6);
        (apply WireInv_nopayload; [exact V6|]; apply ack_segs_nopayload); [apply ack_of_nopayload|apply mk_ack_nopayload].
  - (* CDrop *)
    destruct H as [H1 H2 H3 H4 H5 H6 H7 H8]. split; cbn; try assumption.
    + eapply WireInv_sub; [exact H3|]. intros x. apply remove_nth_incl.
    + eapply WireInv_sub; [exact H6|]. intros x. apply remove_nth_incl.
  - (* CInject *)
    destruct (is_nil (payload g) && negb (f_fin g)) eqn:C; [|exact H].
    apply andb_prop in C as [C _]. apply is_nil_true in C.
    destruct H as [H1 H2 H3 H4 H5 H6 H7 H8]. split; cbn; try assumption.
    + apply WireInv_nopayload; [exact H3|]. intros d' g' [E|[]]. inversion E; subst. exact C.
    + apply WireInv_nopayload; [exact H6|]. intros d' g' [E|[]]. inversion E; subst. exact C.
Qed.

Lemma crun_inv k ba bb es c : CInv ba bb c -> CInv ba bb (crun k c es).
Proof.
  unfold crun. revert c. induction es as [|e es IH]; intros c H; cbn [fold_left]; [exact H|].
  apply IH, cstep_inv, H.
Qed.

(* ---- synchronized start: both TCBs right after the handshake ---- *)

Definition pristine (t : tcb) : Prop :=
  alive t /\ t_state t <> SynSent /\ snd_nxt t = snd_una t /\ send_buf t = [] /\ recv_buf t = [] /\
  fin_seq t = None /\ wr_closed t = false /\ peer_fin t = false.

Definition sync (c : conn) : Prop :=
  pristine (ta c) /\ pristine (tb c) /\ rcv_nxt (tb c) = snd_una (ta c) /\ rcv_nxt (ta c) = snd_una (tb c) /\
  (forall d g, In (d, g) (cwire c) -> payload g = []) /\
  wa c = [] /\ wb c = [] /\ ra c = [] /\ rb c = [].

Lemma sync_inv c : sync c -> CInv (snd_una (ta c)) (snd_una (tb c)) c.
Proof.
  intros ((A1 & A2 & A3 & A4 & A5 & A6 & A7 & A8) & (B1 & B2 & B3 & B4 & B5 & B6 & B7 & B8) & R1 & R2 & Wn & W1 & W2 & W3 & W4).
  assert (forall t, alive t -> snd_nxt t = snd_una t -> send_buf t = [] -> fin_seq t = None -> wr_closed t = false ->
                    SndInv (snd_una t) t []) as SI.
  { intros t Al E1 E2 E3 E4. split; try lia.
    - intros NA; exfalso; exact (NA Al). - intros _. rewrite E2. symmetry. apply dropN_all. cbn. lia.
    - intros _ _. split; [exact E4|]. cbn. lia. - intros _ fs F. congruence. }
  assert (forall t b, alive t -> rcv_nxt t = b -> recv_buf t = [] -> peer_fin t = false -> RcvInv b t [] []) as RI.
  { intros t b Al E1 E2 E3. split; [apply prefix_refl|]. intros _. exists 0. rewrite E3, E2.
    split; [lia|]. split; [cbn; lia|reflexivity]. }
  split; rewrite ?W1, ?W2, ?W3, ?W4; auto.
  - intros g Hin Hp. exfalso. apply Hp. eapply Wn, Hin.
  - intros g Hin Hp. exfalso. apply Hp. eapply Wn, Hin.
Qed.

Lemma c06_prefix_lemma k c es :
  sync c -> prefix (ra (crun k c es)) (wb (crun k c es)) /\ prefix (rb (crun k c es)) (wa (crun k c es)).
Proof.
  intros S. pose proof (crun_inv k _ _ es c (sync_inv c S)) as [H1 H2 H3 H4 H5 H6 H7 H8].
  split; [apply (ri_pre _ _ _ _ H5)|apply (ri_pre _ _ _ _ H2)].
Qed.

(* The handshake produces synchronized TCBs: the client's TCB after the
   SYN-ACK and the child created from the client's SYN. *)
Lemma handshake_sync_lemma rc pa pb i j w1 w2 synack :
  f_syn synack = true -> f_ack synack = true -> seqn synack = j ->
  let client := fst (tcb_on_conn rc (fresh_tcb SynSent pb i w1 0) synack) in
  let child := fresh_tcb SynReceived pa j w2 (i + 1) in
  pristine client /\ pristine child /\ rcv_nxt child = snd_una client /\ rcv_nxt client = snd_una child.
Proof.
  intros F1 F2 F3. cbn. rewrite F1, F2, F3. cbn.
  repeat split; try reflexivity; try discriminate.
Qed.

(* ------------------------------------------------------------------ *)
(* Aborts are loud                                                     *)

Definition is_err {A} (r : res A) : Prop := match r with Err _ => True | _ => False end.

Lemma aborted_ops_fail t :
  ~ alive t ->
  (forall cap bs, is_err (snd (tcb_send cap t bs)) /\ fst (tcb_send cap t bs) = t) /\
  (forall cap n, is_err (snd (fst (tcb_recv cap t n))) /\ fst (fst (tcb_recv cap t n)) = t /\ snd (tcb_recv cap t n) = false) /\
  (forall n, is_err (tcb_peek t n)) /\
  (is_err (snd (tcb_shutdown t)) /\ fst (tcb_shutdown t) = t).
Proof.
  intros NA. assert (exists e, abort_error t = Some e) as [e E].
  { destruct (abort_error t) eqn:E; [eauto|]. apply abort_error_none in E. contradiction. }
  unfold tcb_send, tcb_recv, tcb_peek, tcb_shutdown. rewrite E. cbn. repeat split; exact I.
Qed.

Lemma retx_abort_is_timeout th mx t :
  snd (tcb_retx_tick th mx t) = RAbort ->
  let t' := tcb_abort true (fst (tcb_retx_tick th mx t)) in
  timed_out t' = true /\ send_buf t' = [] /\ recv_buf t' = [] /\ t_state t' = Closed /\
  (reset t' = false -> abort_error t' = Some ETimedOut).
Proof.
  intros _. cbn. repeat split. intros R. unfold abort_error. cbn. rewrite R. reflexivity.
Qed.

(* Once not alive, always not alive: no tcb-level function clears the flags. *)
Lemma not_alive_stable_on_conn cap t s : ~ alive t -> ~ alive (fst (tcb_on_conn cap t s)).
Proof.
  intros NA. unfold tcb_on_conn, tcb_on_seg, tcb_fin, tcb_data, tcb_ack.
  destruct (t_state t); cbn;
    repeat (match goal with |- context [if ?b then _ else _] => destruct b; cbn end); exact NA.
Qed.

Lemma abort_only_in_retx_budget th mx t :
  snd (tcb_retx_tick th mx t) = RAbort -> retx_candidate t = true /\ th <= esa t + 1 /\ mx <= retx t.
Proof.
  unfold tcb_retx_tick. destruct (retx_candidate t); [|discriminate].
  destruct (esa t + 1 <? th) eqn:E1; [discriminate|]. destruct (mx <=? retx t) eqn:E2.
  - intros _. apply N.ltb_ge in E1. apply N.leb_le in E2. auto.
  - destruct (handshake_state _); discriminate.
Qed.

(* ------------------------------------------------------------------ *)
(* Re-ACK: a segment that occupies sequence space always elicits an ACK
   carrying rcv_nxt and the current window (fix e48efc8).               *)

Lemma reack_lemma cap t s :
  (payload s <> [] \/ f_fin s = true \/ f_syn s = true) -> snd (tcb_on_seg cap t s) = true.
Proof.
  intros H. unfold tcb_on_seg. destruct (tcb_data cap (tcb_ack t s) s) as [t2 a1].
  destruct (tcb_fin t2 s) as [t3 a2]. cbn [snd].
  destruct (a1 || a2); [destruct (negb true && _); reflexivity|]. cbn [negb andb].
  assert (negb (is_nil (payload s)) || f_fin s || f_syn s = true) as E.
  { destruct H as [H|[H|H]].
    - destruct (payload s); [contradiction|reflexivity].
    - rewrite H. destruct (negb _); reflexivity.
    - rewrite H. destruct (negb _), (f_fin s); reflexivity. }
  rewrite E. reflexivity.
Qed.

Lemma dup_reacked_lemma cap t s :
  data_state (t_state t) = true \/ t_state t = FinWait2 ->
  (payload s <> [] \/ f_fin s = true \/ f_syn s = true) ->
  snd (tcb_on_conn cap t s) = OAck.
Proof.
  intros ST H. unfold tcb_on_conn. pose proof (reack_lemma cap t s H) as R.
  destruct (tcb_on_seg cap t s) as [t' a]. cbn [snd] in R. subst a.
  destruct ST as [ST| ->]; [|reflexivity]. destruct (t_state t); try discriminate; reflexivity.
Qed.


(* ------------------------------------------------------------------ *)
(* Dead stays dead: no function ever clears `reset` / `timed_out`.      *)

Definition dead (t : tcb) : Prop := reset t = true \/ timed_out t = true.

Lemma dead_not_alive t : dead t <-> ~ alive t.
Proof. unfold dead, alive. destruct (reset t), (timed_out t); intuition discriminate. Qed.

Lemma flags_tcb_on_conn cap t s :
  reset (fst (tcb_on_conn cap t s)) = reset t /\ timed_out (fst (tcb_on_conn cap t s)) = timed_out t.
Proof.
  unfold tcb_on_conn, tcb_on_seg, tcb_fin, tcb_data, tcb_ack.
  destruct (t_state t); cbn;
    repeat (match goal with |- context [if ?b then _ else _] => destruct b; cbn end); split; reflexivity.
Qed.

Lemma flags_tcb_send cap t bs :
  reset (fst (tcb_send cap t bs)) = reset t /\ timed_out (fst (tcb_send cap t bs)) = timed_out t.
Proof.
  unfold tcb_send. destruct (abort_error t); [split; reflexivity|]. destruct (wr_closed t); [split; reflexivity|].
  destruct (t_state t); cbn; try (split; reflexivity); (destruct (_ =? 0); cbn; split; reflexivity).
Qed.

Lemma flags_tcb_recv cap t n :
  reset (fst (fst (tcb_recv cap t n))) = reset t /\ timed_out (fst (fst (tcb_recv cap t n))) = timed_out t.
Proof.
  unfold tcb_recv. destruct (abort_error t); [split; reflexivity|].
  destruct (is_nil _); [destruct (peer_fin t); [split; reflexivity|]; destruct (negb _); split; reflexivity|].
  split; reflexivity.
Qed.

Lemma flags_tcb_shutdown t :
  reset (fst (tcb_shutdown t)) = reset t /\ timed_out (fst (tcb_shutdown t)) = timed_out t.
Proof.
  unfold tcb_shutdown. destruct (abort_error t); [split; reflexivity|]. destruct (wr_closed t); split; reflexivity.
Qed.

Lemma flags_retx th mx t :
  reset (fst (tcb_retx_tick th mx t)) = reset t /\ timed_out (fst (tcb_retx_tick th mx t)) = timed_out t.
Proof.
  unfold tcb_retx_tick. destruct (retx_candidate t); [|split; reflexivity].
  destruct (_ <? _); [split; reflexivity|]. destruct (_ <=? _); [split; reflexivity|].
  destruct (handshake_state _); split; reflexivity.
Qed.

Lemma flags_seg_loop fuel mss rc l t :
  reset (fst (seg_loop fuel mss rc l t)) = reset t /\ timed_out (fst (seg_loop fuel mss rc l t)) = timed_out t.
Proof.
  revert t. induction fuel as [|f IH]; intro t; cbn [seg_loop]; [split; reflexivity|].
  destruct (seg_step mss rc l t) as [[t' p]|] eqn:E; [|split; reflexivity].
  assert (reset t' = reset t /\ timed_out t' = timed_out t) as [E1 E2].
  { unfold seg_step in E. destruct (_ && _); [inversion E; split; reflexivity|].
    destruct (_ && _); [inversion E; split; reflexivity|discriminate]. }
  specialize (IH t'). destruct (seg_loop f mss rc l t') as [t'' ps]. cbn [fst] in *. destruct IH; split; congruence.
Qed.

Lemma dead_abort tm t : dead (tcb_abort tm t).
Proof. unfold dead, tcb_abort; cbn. destruct tm; auto. Qed.

Lemma tcb_of_set_side c s t w r x : tcb_of (set_side c s t w r x) s = t.
Proof. destruct s; reflexivity. Qed.
Lemma tcb_of_set_side_other c s t w r x : tcb_of (set_side c s t w r x) (other s) = tcb_of c (other s).
Proof. destruct s; reflexivity. Qed.

Lemma side_cases (s d : side) : d = s \/ d = other s.
Proof. destruct s, d; auto. Qed.

Lemma cstep_dead k c e s : dead (tcb_of c s) -> dead (tcb_of (cstep k c e) s).
Proof.
  intros D.
  assert (forall t', reset t' = reset (tcb_of c s) /\ timed_out t' = timed_out (tcb_of c s) -> dead t') as KEEP.
  { intros t' [E1 E2]. unfold dead in *. rewrite E1, E2. exact D. }
  destruct e; cbn [cstep].
  - destruct (side_cases s0 s) as [->| ->].
    + pose proof (flags_tcb_send (send_cap k) (tcb_of c s0) bs) as F.
      destruct (tcb_send _ _ _) as [t' r]. rewrite tcb_of_set_side. apply KEEP, F.
    + destruct (tcb_send _ _ _) as [t' r]. destruct s0; exact D.
  - destruct (side_cases s0 s) as [->| ->].
    + pose proof (flags_tcb_recv (recv_cap k) (tcb_of c s0) n) as F.
      destruct (tcb_recv _ _ _) as [[t' r] u]. rewrite tcb_of_set_side. apply KEEP, F.
    + destruct (tcb_recv _ _ _) as [[t' r] u]. destruct s0; exact D.
  - destruct (side_cases s0 s) as [->| ->].
    + pose proof (flags_tcb_shutdown (tcb_of c s0)) as F.
      destruct (tcb_shutdown _) as [t' r]. rewrite tcb_of_set_side. apply KEEP, F.
    + destruct (tcb_shutdown _) as [t' r]. destruct s0; exact D.
  - destruct (transmittable _); [|exact D]. destruct (side_cases s0 s) as [->| ->].
    + pose proof (flags_seg_loop fuel mss (recv_cap k) nowhere (tcb_of c s0)) as F.
      destruct (seg_loop _ _ _ _ _) as [t' ps]. rewrite tcb_of_set_side. apply KEEP, F.
    + destruct (seg_loop _ _ _ _ _) as [t' ps]. destruct s0; exact D.
  - destruct (side_cases s0 s) as [->| ->].
    + pose proof (flags_retx (retx_threshold k) (retx_max k) (tcb_of c s0)) as F.
      destruct (tcb_retx_tick _ _ _) as [t' a]. rewrite tcb_of_set_side.
      destruct a; try (apply KEEP, F). apply dead_abort.
    + destruct (tcb_retx_tick _ _ _) as [t' a]. destruct s0; exact D.
  - destruct (nth_error _ _) as [[d g]|]; [|exact D]. destruct (side_cases d s) as [->| ->].
    + destruct (f_rst g); [rewrite tcb_of_set_side; apply dead_abort|].
      pose proof (flags_tcb_on_conn (recv_cap k) (tcb_of c d) g) as F.
      destruct (tcb_on_conn _ _ _) as [t' o]. rewrite tcb_of_set_side. apply KEEP, F.
    + destruct (f_rst g); [destruct d; exact D|]. destruct (tcb_on_conn _ _ _) as [t' o]. destruct d; exact D.
  - destruct s; exact D.
  - destruct (_ && _); [destruct s; exact D|exact D].
Qed.

Lemma crun_dead k es c s : dead (tcb_of c s) -> dead (tcb_of (crun k c es) s).
Proof.
  unfold crun. revert c. induction es as [|e es IH]; intros c D; cbn [fold_left]; [exact D|].
  apply IH, cstep_dead, D.
Qed.

(* c06_abort_is_loud, connection level: from the tick that exhausts the
   retransmit budget on, in every later state, every read / write / peek /
   shutdown of that side fails and changes nothing. *)
Lemma abort_is_loud_lemma k c s es :
  snd (tcb_retx_tick (retx_threshold k) (retx_max k) (tcb_of c s)) = RAbort ->
  let c1 := cstep k c (CRetx s) in
  timed_out (tcb_of c1 s) = true /\ send_buf (tcb_of c1 s) = [] /\ recv_buf (tcb_of c1 s) = [] /\
  let t := tcb_of (crun k c1 es) s in
  (forall bs, is_err (snd (tcb_send (send_cap k) t bs))) /\
  (forall n, is_err (snd (fst (tcb_recv (recv_cap k) t n)))) /\
  (forall n, is_err (tcb_peek t n)) /\ is_err (snd (tcb_shutdown t)).
Proof.
  intros RA. cbn [cstep]. destruct (tcb_retx_tick _ _ _) as [t' a]. cbn [snd] in RA. subst a.
  rewrite tcb_of_set_side. cbn. repeat split.
  all: set (c1 := set_side c s (tcb_abort true t') (written c s) (readb c s) []).
  all: assert (dead (tcb_of (crun k c1 es) s)) as D by (apply crun_dead; subst c1; rewrite tcb_of_set_side; apply dead_abort).
  all: apply dead_not_alive in D; destruct (aborted_ops_fail _ D) as (F1 & F2 & F3 & F4).
  - intros bs. apply F1. - intros n. apply F2. - intros n. apply F3. - apply F4.
Qed.

(* ------------------------------------------------------------------ *)
(* Acknowledged implies delivered (no silent loss): in a run without
   injected segments, what a sender has had acknowledged was received by
   its peer.                                                            *)

Record AckInv (X Y : tcb) (toX : side) (wire : list (side * seg)) : Prop := {
  ai_una : snd_una X <= rcv_nxt Y;
  ai_wire : forall g, In (toX, g) wire -> f_ack g = true -> ackn g <= rcv_nxt Y }.

Definition no_inject (e : cev) : Prop := match e with CInject _ _ => False | _ => True end.

Record AInv (c : conn) : Prop := {
  a_ab : AckInv (ta c) (tb c) SA (cwire c);
  a_ba : AckInv (tb c) (ta c) SB (cwire c) }.

Lemma rcv_nxt_tcb_ack t s : rcv_nxt (tcb_ack t s) = rcv_nxt t.
Proof. unfold tcb_ack. destruct (f_ack s); [|reflexivity]. destruct (_ && _); reflexivity. Qed.

Lemma rcv_nxt_mono_on_seg cap t s : rcv_nxt t <= rcv_nxt (fst (tcb_on_seg cap t s)).
Proof.
  unfold tcb_on_seg. pose proof (rcv_nxt_tcb_ack t s) as E0.
  assert (rcv_nxt (tcb_ack t s) <= rcv_nxt (fst (tcb_data cap (tcb_ack t s) s))) as E1.
  { unfold tcb_data. destruct (_ && _); [|cbn [fst]; lia]. destruct (0 <? _); cbn; lia. }
  destruct (tcb_data cap (tcb_ack t s) s) as [t2 a1]. cbn [fst] in E1.
  assert (rcv_nxt t2 <= rcv_nxt (fst (tcb_fin t2 s))) as E2.
  { unfold tcb_fin. destruct (_ && _); [|cbn [fst]; lia]. destruct (_ =? _); cbn; lia. }
  destruct (tcb_fin t2 s) as [t3 a2]. cbn [fst] in *. lia.
Qed.

Lemma rcv_nxt_mono_on_conn cap t s : t_state t <> SynSent -> rcv_nxt t <= rcv_nxt (fst (tcb_on_conn cap t s)).
Proof.
  intros NS. unfold tcb_on_conn. pose proof (rcv_nxt_mono_on_seg cap t s) as M.
  destruct (tcb_on_seg cap t s) as [t' a]. cbn [fst] in M.
  destruct (t_state t); try exact M; try congruence; cbn; try lia.
  destruct (_ && _); [|cbn; lia]. destruct (negb _); cbn; lia.
Qed.

Lemma snd_una_on_seg cap t s :
  snd_una (fst (tcb_on_seg cap t s)) = snd_una t \/
  (f_ack s = true /\ snd_una (fst (tcb_on_seg cap t s)) = ackn s).
Proof.
  unfold tcb_on_seg.
  assert (snd_una (tcb_ack t s) = snd_una t \/ (f_ack s = true /\ snd_una (tcb_ack t s) = ackn s)) as E0.
  { unfold tcb_ack. destruct (f_ack s); [|auto]. destruct (_ && _); cbn; auto. }
  assert (snd_una (fst (tcb_data cap (tcb_ack t s) s)) = snd_una (tcb_ack t s)) as E1.
  { unfold tcb_data. destruct (_ && _); [|reflexivity]. destruct (0 <? _); reflexivity. }
  destruct (tcb_data cap (tcb_ack t s) s) as [t2 a1]. cbn [fst] in E1.
  assert (snd_una (fst (tcb_fin t2 s)) = snd_una t2) as E2.
  { unfold tcb_fin. destruct (_ && _); [|reflexivity]. destruct (_ =? _); reflexivity. }
  destruct (tcb_fin t2 s) as [t3 a2]. cbn [fst] in *. rewrite E2, E1. exact E0.
Qed.

Lemma snd_una_on_conn cap t s :
  snd_una (fst (tcb_on_conn cap t s)) = snd_una t \/
  (f_ack s = true /\ snd_una (fst (tcb_on_conn cap t s)) = ackn s).
Proof.
  unfold tcb_on_conn. pose proof (snd_una_on_seg cap t s) as M.
  destruct (tcb_on_seg cap t s) as [t' a]. cbn [fst] in M.
  destruct (t_state t); try exact M; cbn; auto.
  - destruct (_ && _); cbn; auto.
  - destruct (_ && _); [|cbn; auto]. destruct (negb _); cbn; auto.
Qed.

Lemma ur_send cap t bs : snd_una (fst (tcb_send cap t bs)) = snd_una t /\ rcv_nxt (fst (tcb_send cap t bs)) = rcv_nxt t.
Proof.
  unfold tcb_send. destruct (abort_error t); [split; reflexivity|]. destruct (wr_closed t); [split; reflexivity|].
  destruct (t_state t); cbn; try (split; reflexivity); (destruct (_ =? 0); cbn; split; reflexivity).
Qed.
Lemma ur_recv cap t n : snd_una (fst (fst (tcb_recv cap t n))) = snd_una t /\ rcv_nxt (fst (fst (tcb_recv cap t n))) = rcv_nxt t.
Proof.
  unfold tcb_recv. destruct (abort_error t); [split; reflexivity|].
  destruct (is_nil _); [destruct (peer_fin t); [split; reflexivity|]; destruct (negb _); split; reflexivity|].
  split; reflexivity.
Qed.
Lemma ur_shutdown t : snd_una (fst (tcb_shutdown t)) = snd_una t /\ rcv_nxt (fst (tcb_shutdown t)) = rcv_nxt t.
Proof. unfold tcb_shutdown. destruct (abort_error t); [split; reflexivity|]. destruct (wr_closed t); split; reflexivity. Qed.
Lemma ur_retx th mx t : snd_una (fst (tcb_retx_tick th mx t)) = snd_una t /\ rcv_nxt (fst (tcb_retx_tick th mx t)) = rcv_nxt t.
Proof.
  unfold tcb_retx_tick. destruct (retx_candidate t); [|split; reflexivity].
  destruct (_ <? _); [split; reflexivity|]. destruct (_ <=? _); [split; reflexivity|].
  destruct (handshake_state _); split; reflexivity.
Qed.

Lemma seg_loop_acks fuel mss rc l t :
  let r := seg_loop fuel mss rc l t in
  snd_una (fst r) = snd_una t /\ rcv_nxt (fst r) = rcv_nxt t /\
  (forall d d' g, In (d', g) (pkt_segs d (snd r)) -> ackn g = rcv_nxt t).
Proof.
  revert t. induction fuel as [|f IH]; intro t; cbn [seg_loop].
  { cbn. repeat split. intros d d' g []. }
  destruct (seg_step mss rc l t) as [[t' p]|] eqn:E.
  2:{ cbn. repeat split. intros d d' g []. }
  assert (snd_una t' = snd_una t /\ rcv_nxt t' = rcv_nxt t /\ (forall g, body p = Tcp g -> ackn g = rcv_nxt t)) as (E1 & E2 & E3).
  { unfold seg_step in E. destruct (_ && _).
    - inversion E; subst. repeat split. intros g Hg. cbn in Hg. inversion Hg; reflexivity.
    - destruct (_ && _); [|discriminate]. inversion E; subst. repeat split. intros g Hg. cbn in Hg. inversion Hg; reflexivity. }
  specialize (IH t'). destruct (seg_loop f mss rc l t') as [t'' ps]. cbn [fst snd] in *.
  destruct IH as (I1 & I2 & I3). split; [congruence|]. split; [congruence|].
  intros d d' g Hin. cbn in Hin. apply in_app_or in Hin as [Hin|Hin].
  - destruct (body p) as [|g0] eqn:B; [contradiction|]. destruct Hin as [Hin|[]]. inversion Hin; subst. apply E3. reflexivity.
  - rewrite <- E2. eapply I3, Hin.
Qed.

Lemma AckInv_wire_add X Y toX wire extra :
  AckInv X Y toX wire -> (forall g, In (toX, g) extra -> f_ack g = true -> ackn g <= rcv_nxt Y) ->
  AckInv X Y toX (wire ++ extra).
Proof.
  intros [A1 A2] H. split; [exact A1|]. intros g Hin. apply in_app_or in Hin as [Hin|Hin]; auto.
Qed.

Lemma AckInv_ext X Y X' Y' toX wire :
  AckInv X Y toX wire -> snd_una X' = snd_una X -> rcv_nxt Y <= rcv_nxt Y' -> AckInv X' Y' toX wire.
Proof.
  intros [A1 A2] E1 E2. split; [lia|]. intros g Hin Ha. specialize (A2 g Hin Ha). lia.
Qed.

Lemma pkt_segs_ack_of d rc l r t d' g : In (d', g) (pkt_segs d [ack_of rc l r t]) -> d' = d /\ ackn g = rcv_nxt t.
Proof. cbn. intros [H|[]]. inversion H; subst. split; reflexivity. Qed.
Lemma pkt_segs_mk_ack d l r a b w d' g : In (d', g) (pkt_segs d [mk_ack l r a b w]) -> d' = d /\ ackn g = b.
Proof. cbn. intros [H|[]]. inversion H; subst. split; reflexivity. Qed.

(* AckInv seen from the acting side s: (X = s, Y = other s) and (X = other s, Y = s). *)
Lemma AInv_view c s :
  AInv c <-> AckInv (tcb_of c s) (tcb_of c (other s)) s (cwire c) /\ AckInv (tcb_of c (other s)) (tcb_of c s) (other s) (cwire c).
Proof. destruct s; cbn; split; [intros [A B]; split; assumption|intros [A B]; split; assumption|intros [A B]; split; assumption|intros [A B]; split; assumption]. Qed.

Lemma AInv_set_side c s T' W' R' extra :
  AckInv T' (tcb_of c (other s)) s (cwire c ++ extra) -> AckInv (tcb_of c (other s)) T' (other s) (cwire c ++ extra) ->
  AInv (set_side c s T' W' R' extra).
Proof. intros H1 H2. apply (AInv_view _ s). destruct s; cbn in *; split; assumption. Qed.

Lemma cstep_ainv k ba bb c e : CInv ba bb c -> AInv c -> no_inject e -> AInv (cstep k c e).
Proof.
  intros CI H NI. destruct e; cbn [cstep]; try contradiction.
  - (* CWrite *)
    apply (AInv_view c s) in H as [H1 H2]. destruct (ur_send (send_cap k) (tcb_of c s) bs) as [U R].
    destruct (tcb_send _ _ _) as [t' r]. cbn [fst] in *. apply AInv_set_side; rewrite app_nil_r.
    + eapply AckInv_ext; [exact H1|assumption|lia]. + eapply AckInv_ext; [exact H2|reflexivity|lia].
  - (* CRead *)
    apply (AInv_view c s) in H as [H1 H2]. destruct (ur_recv (recv_cap k) (tcb_of c s) n) as [U R].
    destruct (tcb_recv _ _ _) as [[t' r] u]. cbn [fst] in *. apply AInv_set_side.
    + apply AckInv_wire_add; [eapply AckInv_ext; [exact H1|assumption|lia]|].
      intros g Hin. destruct u; [|contradiction]. apply pkt_segs_ack_of in Hin as [Hd _]. exfalso. exact (other_neq _ (eq_sym Hd)).
    + apply AckInv_wire_add; [eapply AckInv_ext; [exact H2|reflexivity|lia]|].
      intros g Hin _. destruct u; [|contradiction]. apply pkt_segs_ack_of in Hin as [_ ->]. lia.
  - (* CShutdown *)
    apply (AInv_view c s) in H as [H1 H2]. destruct (ur_shutdown (tcb_of c s)) as [U R].
    destruct (tcb_shutdown _) as [t' r]. cbn [fst] in *. apply AInv_set_side; rewrite app_nil_r.
    + eapply AckInv_ext; [exact H1|assumption|lia]. + eapply AckInv_ext; [exact H2|reflexivity|lia].
  - (* CSegment *)
    destruct (transmittable _); [|exact H]. apply (AInv_view c s) in H as [H1 H2].
    pose proof (seg_loop_acks fuel mss (recv_cap k) nowhere (tcb_of c s)) as S.
    destruct (seg_loop _ _ _ _ _) as [t' ps]. cbn [fst snd] in S. destruct S as (U & R & P). apply AInv_set_side.
    + apply AckInv_wire_add; [eapply AckInv_ext; [exact H1|assumption|lia]|].
      intros g Hin. apply pkt_segs_dst in Hin. exfalso. exact (other_neq _ (eq_sym Hin)).
    + apply AckInv_wire_add; [eapply AckInv_ext; [exact H2|reflexivity|lia]|].
      intros g Hin _. rewrite (P _ _ _ Hin). lia.
  - (* CRetx *)
    apply (AInv_view c s) in H as [H1 H2]. destruct (ur_retx (retx_threshold k) (retx_max k) (tcb_of c s)) as [U R].
    destruct (tcb_retx_tick _ _ _) as [t' a]. cbn [fst] in *. apply AInv_set_side; rewrite app_nil_r.
    + eapply AckInv_ext; [exact H1|destruct a; cbn; assumption|lia].
    + eapply AckInv_ext; [exact H2|reflexivity|destruct a; cbn; lia].
  - (* CDeliver *)
    destruct (nth_error (cwire c) i) as [[d g]|] eqn:NE; [|exact H].
    pose proof (nth_error_In _ _ NE) as Hin.
    apply (AInv_view c d) in H as [H1 H2].
    destruct (f_rst g).
    { apply AInv_set_side; rewrite app_nil_r.
      - eapply AckInv_ext; [exact H1|reflexivity|lia]. - eapply AckInv_ext; [exact H2|reflexivity|cbn; lia]. }
    assert (t_state (tcb_of c d) <> SynSent) as NS by (destruct CI as [_ _ _ _ _ _ N1 N2]; destruct d; assumption).
    pose proof (rcv_nxt_mono_on_conn (recv_cap k) _ g NS) as M.
    pose proof (snd_una_on_conn (recv_cap k) (tcb_of c d) g) as UN.
    destruct (tcb_on_conn _ _ _) as [t' o]. cbn [fst] in *.
    assert (AckInv t' (tcb_of c (other d)) d (cwire c)) as G1.
    { destruct H1 as [A1 A2]. split; [|exact A2]. destruct UN as [->|[Fa ->]]; [exact A1|]. apply (A2 g Hin Fa). }
    assert (AckInv (tcb_of c (other d)) t' (other d) (cwire c)) as G2 by (eapply AckInv_ext; [exact H2|reflexivity|exact M]).
    apply AInv_set_side.
    + apply AckInv_wire_add; [exact G1|]. intros g0 Hin0. exfalso.
      destruct o; try contradiction; [apply pkt_segs_ack_of in Hin0 as [Hd _]|apply pkt_segs_mk_ack in Hin0 as [Hd _]];
        exact (other_neq _ (eq_sym Hd)).
    + apply AckInv_wire_add; [exact G2|]. intros g0 Hin0 _.
      destruct o; try contradiction; [apply pkt_segs_ack_of in Hin0 as [_ ->]|apply pkt_segs_mk_ack in Hin0 as [_ ->]]; lia.
  - (* CDrop *)
    destruct H as [[A1 A2] [B1 B2]]. split; split; cbn; try assumption.
    + intros g Hin. apply A2. eapply remove_nth_incl, Hin. + intros g Hin. apply B2. eapply remove_nth_incl, Hin.
Qed.

Lemma crun_ainv k ba bb es c : CInv ba bb c -> AInv c -> Forall no_inject es -> AInv (crun k c es) /\ CInv ba bb (crun k c es).
Proof.
  unfold crun. revert c. induction es as [|e es IH]; intros c CI AI NI; cbn [fold_left]; [split; assumption|].
  inversion NI; subst. apply IH; [apply cstep_inv, CI|eapply cstep_ainv; eassumption|assumption].
Qed.

Lemma sync_ainv c : sync c -> (forall d g, In (d, g) (cwire c) -> f_ack g = false) -> AInv c.
Proof.
  intros (_ & _ & R1 & R2 & _) NA. split; split; try lia.
  - intros g Hin Fa. rewrite (NA _ _ Hin) in Fa. discriminate.
  - intros g Hin Fa. rewrite (NA _ _ Hin) in Fa. discriminate.
Qed.

(* ------------------------------------------------------------------ *)
(* FIN sits exactly after the last byte: EOF never truncates.          *)

Record FinInv (b : N) (X Y : tcb) (W : list N) (toY : side) (wire : list (side * seg)) : Prop := {
  fi_wire : forall g, In (toY, g) wire -> f_fin g = true ->
            seqn g + len (payload g) = b + len W /\ wr_closed X = true;
  fi_peer : alive Y -> peer_fin Y = true -> rcv_nxt Y = b + len W + 1 /\ wr_closed X = true }.

Lemma wc_send cap t bs : wr_closed (fst (tcb_send cap t bs)) = wr_closed t /\
                         (wr_closed t = true -> accepted (snd (tcb_send cap t bs)) bs = []).
Proof.
  unfold tcb_send. destruct (abort_error t); [split; reflexivity|].
  destruct (wr_closed t) eqn:WC; [cbn; split; [exact WC|reflexivity]|].
  destruct (t_state t); cbn; try (split; [exact WC|discriminate]); (destruct (_ =? 0); cbn; split; try exact WC; discriminate).
Qed.
Lemma wc_recv cap t n : wr_closed (fst (fst (tcb_recv cap t n))) = wr_closed t.
Proof.
  unfold tcb_recv. destruct (abort_error t); [reflexivity|].
  destruct (is_nil _); [destruct (peer_fin t); [reflexivity|]; destruct (negb _); reflexivity|]. reflexivity.
Qed.
Lemma wc_shutdown t : wr_closed t = true -> wr_closed (fst (tcb_shutdown t)) = true.
Proof. intros H. unfold tcb_shutdown. destruct (abort_error t); [exact H|]. rewrite H. exact H. Qed.
Lemma wc_retx th mx t : wr_closed (fst (tcb_retx_tick th mx t)) = wr_closed t.
Proof.
  unfold tcb_retx_tick. destruct (retx_candidate t); [|reflexivity].
  destruct (_ <? _); [reflexivity|]. destruct (_ <=? _); [reflexivity|]. destruct (handshake_state _); reflexivity.
Qed.
Lemma wc_on_conn cap t s : wr_closed (fst (tcb_on_conn cap t s)) = wr_closed t.
Proof.
  unfold tcb_on_conn, tcb_on_seg, tcb_fin, tcb_data, tcb_ack.
  destruct (t_state t); cbn;
    repeat (match goal with |- context [if ?b then _ else _] => destruct b; cbn end); reflexivity.
Qed.
Lemma wc_seg_loop fuel mss rc l t : wr_closed (fst (seg_loop fuel mss rc l t)) = wr_closed t.
Proof.
  revert t. induction fuel as [|f IH]; intro t; cbn [seg_loop]; [reflexivity|].
  destruct (seg_step mss rc l t) as [[t' p]|] eqn:E; [|reflexivity].
  assert (wr_closed t' = wr_closed t) as E1.
  { unfold seg_step in E. destruct (_ && _); [inversion E; reflexivity|]. destruct (_ && _); [inversion E; reflexivity|discriminate]. }
  specialize (IH t'). destruct (seg_loop f mss rc l t') as [t'' ps]. cbn [fst] in *. congruence.
Qed.

(* peer_fin / rcv_nxt of the functions that do not receive *)
Lemma pf_send cap t bs : peer_fin (fst (tcb_send cap t bs)) = peer_fin t.
Proof.
  unfold tcb_send. destruct (abort_error t); [reflexivity|]. destruct (wr_closed t); [reflexivity|].
  destruct (t_state t); cbn; try reflexivity; (destruct (_ =? 0); reflexivity).
Qed.
Lemma pf_recv cap t n : peer_fin (fst (fst (tcb_recv cap t n))) = peer_fin t.
Proof.
  unfold tcb_recv. destruct (abort_error t); [reflexivity|].
  destruct (is_nil _); [|reflexivity].
  destruct (peer_fin t) eqn:P; [cbn; exact P|]. destruct (negb _); cbn; exact P.
Qed.
Lemma pf_shutdown t : peer_fin (fst (tcb_shutdown t)) = peer_fin t.
Proof. unfold tcb_shutdown. destruct (abort_error t); [reflexivity|]. destruct (wr_closed t); reflexivity. Qed.
Lemma pf_retx th mx t : peer_fin (fst (tcb_retx_tick th mx t)) = peer_fin t.
Proof.
  unfold tcb_retx_tick. destruct (retx_candidate t); [|reflexivity].
  destruct (_ <? _); [reflexivity|]. destruct (_ <=? _); [reflexivity|]. destruct (handshake_state _); reflexivity.
Qed.

Lemma alive_flags t t' : reset t' = reset t /\ timed_out t' = timed_out t -> (alive t' <-> alive t).
Proof. intros [E1 E2]. unfold alive. rewrite E1, E2. reflexivity. Qed.

(* How FIN acceptance moves peer_fin / rcv_nxt *)
Lemma on_seg_fin cap t s :
  let t' := fst (tcb_on_seg cap t s) in
  (peer_fin t = true -> peer_fin t' = true /\ rcv_nxt t' = rcv_nxt t) /\
  (peer_fin t = false -> peer_fin t' = true -> f_fin s = true /\ rcv_nxt t' = seqn s + len (payload s) + 1).
Proof.
  unfold tcb_on_seg.
  assert (peer_fin (tcb_ack t s) = peer_fin t /\ rcv_nxt (tcb_ack t s) = rcv_nxt t) as [E0 E0'].
  { unfold tcb_ack. destruct (f_ack s); [|split; reflexivity]. destruct (_ && _); split; reflexivity. }
  pose proof (eq_refl (tcb_data cap (tcb_ack t s) s)) as ED. unfold tcb_data at 2 in ED.
  destruct (tcb_data cap (tcb_ack t s) s) as [t2 a1].
  assert (peer_fin t2 = peer_fin t /\ (peer_fin t = true -> rcv_nxt t2 = rcv_nxt t)) as [E1 E1'].
  { rewrite E0 in ED. destruct (peer_fin t) eqn:PF.
    - rewrite Bool.andb_false_r in ED. inversion ED; subst. split; [exact E0|intros _; exact E0'].
    - destruct (_ && _); [|inversion ED; subst; split; [exact E0|intros C; discriminate C]].
      destruct (0 <? _); inversion ED; subst; cbn; (split; [first [reflexivity|exact E0]|intros C; discriminate C]). }
  unfold tcb_fin. rewrite E1.
  destruct (peer_fin t) eqn:PF.
  - rewrite Bool.andb_false_r. cbn [fst]. split; [intros _; split; [exact E1|apply E1'; reflexivity]|discriminate].
  - split; [discriminate|]. intros _. destruct (f_fin s) eqn:FF; cbn [andb negb].
    + destruct (seqn s + len (payload s) =? rcv_nxt t2) eqn:EQ; cbn [fst]; proj.
      * intros _. apply N.eqb_eq in EQ. split; [reflexivity|lia].
      * intros C. congruence.
    + cbn [fst]. intros C. congruence.
Qed.

Lemma on_conn_fin cap t s :
  let t' := fst (tcb_on_conn cap t s) in
  t_state t <> SynSent ->
  (peer_fin t = true -> peer_fin t' = true /\ rcv_nxt t' = rcv_nxt t) /\
  (peer_fin t = false -> peer_fin t' = true -> f_fin s = true /\ rcv_nxt t' = seqn s + len (payload s) + 1).
Proof.
  intros t' NS. subst t'. unfold tcb_on_conn. pose proof (on_seg_fin cap t s) as M. cbn zeta in M.
  destruct (tcb_on_seg cap t s) as [t1 a]. cbn [fst] in M.
  destruct (t_state t); try exact M; try congruence; cbn [fst].
  - destruct (_ && _); [|cbn [fst]; split; [auto|intros A B; congruence]].
    destruct (negb _); cbn [fst]; proj; (split; [auto|intros A B; congruence]).
  - split; [auto|intros A B; congruence].
Qed.

Record FInv (ba bb : N) (c : conn) : Prop := {
  f_ab : FinInv ba (ta c) (tb c) (wa c) SB (cwire c);
  f_ba : FinInv bb (tb c) (ta c) (wb c) SA (cwire c) }.

Lemma FInv_view ba bb c s :
  FInv ba bb c <->
  FinInv (base_of ba bb s) (tcb_of c s) (tcb_of c (other s)) (written c s) (other s) (cwire c) /\
  FinInv (base_of ba bb (other s)) (tcb_of c (other s)) (tcb_of c s) (written c (other s)) s (cwire c).
Proof. destruct s; cbn; split; intros [A B]; split; assumption. Qed.

Lemma FInv_set_side ba bb c s T' W' R' extra :
  FinInv (base_of ba bb s) T' (tcb_of c (other s)) W' (other s) (cwire c ++ extra) ->
  FinInv (base_of ba bb (other s)) (tcb_of c (other s)) T' (written c (other s)) s (cwire c ++ extra) ->
  FInv ba bb (set_side c s T' W' R' extra).
Proof. intros H1 H2. apply (FInv_view ba bb _ s). destruct s; cbn in *; split; assumption. Qed.

(* sender-side changes *)
Lemma FinInv_X b X X' Y W toY wire :
  FinInv b X Y W toY wire -> (wr_closed X = true -> wr_closed X' = true) -> FinInv b X' Y W toY wire.
Proof.
  intros [F1 F2] H. split.
  - intros g Hin Ff. destruct (F1 g Hin Ff). auto.
  - intros Al Pf. destruct (F2 Al Pf). auto.
Qed.

Lemma FinInv_W b X Y W e toY wire :
  FinInv b X Y W toY wire -> (wr_closed X = true -> e = []) -> FinInv b X Y (W ++ e) toY wire.
Proof.
  intros [F1 F2] H. split.
  - intros g Hin Ff. destruct (F1 g Hin Ff) as [A B]. rewrite (H B), app_nil_r. auto.
  - intros Al Pf. destruct (F2 Al Pf) as [A B]. rewrite (H B), app_nil_r. auto.
Qed.

(* receiver-side changes that do not receive *)
Lemma FinInv_Y b X Y Y' W toY wire :
  FinInv b X Y W toY wire -> (alive Y' -> alive Y) -> peer_fin Y' = peer_fin Y -> rcv_nxt Y' = rcv_nxt Y ->
  FinInv b X Y' W toY wire.
Proof.
  intros [F1 F2] A P R. split; [exact F1|]. intros Al Pf. rewrite R. apply F2; [auto|congruence].
Qed.

Lemma FinInv_dead b X Y Y' W toY wire : FinInv b X Y W toY wire -> ~ alive Y' -> FinInv b X Y' W toY wire.
Proof. intros [F1 F2] NA. split; [exact F1|]. intros Al. contradiction. Qed.

Lemma FinInv_wire_add b X Y W toY wire extra :
  FinInv b X Y W toY wire ->
  (forall g, In (toY, g) extra -> f_fin g = true -> seqn g + len (payload g) = b + len W /\ wr_closed X = true) ->
  FinInv b X Y W toY (wire ++ extra).
Proof.
  intros [F1 F2] H. split; [|exact F2]. intros g Hin. apply in_app_or in Hin as [Hin|Hin]; auto.
Qed.

Lemma FinInv_wire_sub b X Y W toY wire wire' :
  FinInv b X Y W toY wire -> (forall x, In x wire' -> In x wire) -> FinInv b X Y W toY wire'.
Proof. intros [F1 F2] S. split; [|exact F2]. intros g Hin. apply F1, S, Hin. Qed.

Lemma not_alive_abort tm t : ~ alive (tcb_abort tm t).
Proof. apply dead_not_alive, dead_abort. Qed.

Lemma ack_of_nofin rc l r t d d' g : In (d', g) (pkt_segs d [ack_of rc l r t]) -> f_fin g = false.
Proof. cbn. intros [H|[]]. inversion H; reflexivity. Qed.
Lemma mk_ack_nofin l r a b w d d' g : In (d', g) (pkt_segs d [mk_ack l r a b w]) -> f_fin g = false.
Proof. cbn. intros [H|[]]. inversion H; reflexivity. Qed.

(* FIN segments produced by seg_loop sit at fin_seq. *)
Lemma seg_loop_fins b W fuel mss rc l X :
  SndInv b X W -> t_state X <> Closed ->
  forall d d' g, In (d', g) (pkt_segs d (snd (seg_loop fuel mss rc l X))) -> f_fin g = true ->
  seqn g + len (payload g) = b + len W /\ wr_closed X = true.
Proof.
  revert X. induction fuel as [|f IH]; intros X S NC d d' g Hin Ff; cbn [seg_loop] in Hin; [destruct Hin|].
  destruct (seg_step mss rc l X) as [[X' p]|] eqn:E; [|destruct Hin].
  destruct (seg_step_snd _ _ _ _ _ _ _ _ S NC E) as (H1 & S1 & _).
  assert (alive X) as Al.
  { destruct (alive_dec X) as [A|A]; [exact A|]. exfalso. apply NC. apply (si_closed _ _ _ S A). }
  assert (wr_closed X' = wr_closed X) as WC.
  { unfold seg_step in E. destruct (_ && _); [inversion E; reflexivity|]. destruct (_ && _); [inversion E; reflexivity|discriminate]. }
  assert (t_state X' <> Closed) as NC' by congruence.
  specialize (IH X' H1 NC' d). destruct (seg_loop f mss rc l X') as [X'' ps]. cbn [fst snd] in *.
  cbn in Hin. apply in_app_or in Hin as [Hin|Hin].
  - destruct (body p) as [|g0] eqn:B; [destruct Hin|]. destruct Hin as [Hin|[]]. inversion Hin; subst g0 d'. clear Hin.
    unfold seg_step in E. destruct (_ && _).
    + inversion E; subst. cbn in B. inversion B; subst. discriminate Ff.
    + destruct (fin_seq X) as [fs|] eqn:F; [|discriminate E].
      destruct ((snd_nxt X =? fs) && _) eqn:C; [|discriminate E]. inversion E; subst. cbn in B. inversion B; subst. cbn.
      apply andb_prop in C as [C _]. apply N.eqb_eq in C.
      destruct (si_some _ _ _ S Al fs F) as (Q1 & Q2 & Q3). split; [lia|exact Q1].
  - destruct (IH d' g Hin Ff) as [A B]. split; [exact A|congruence].
Qed.

Lemma cstep_finv k ba bb c e : CInv ba bb c -> FInv ba bb c -> FInv ba bb (cstep k c e).
Proof.
  intros CI H. destruct e; cbn [cstep].
  - (* CWrite *)
    apply (FInv_view ba bb c s) in H as [H1 H2].
    destruct (wc_send (send_cap k) (tcb_of c s) bs) as [WC AC].
    pose proof (pf_send (send_cap k) (tcb_of c s) bs) as PF.
    destruct (ur_send (send_cap k) (tcb_of c s) bs) as [_ RN].
    pose proof (flags_tcb_send (send_cap k) (tcb_of c s) bs) as FL.
    destruct (tcb_send _ _ _) as [t' r]. cbn [fst snd] in *. apply FInv_set_side; rewrite app_nil_r.
    + apply FinInv_W; [|intros WT; apply AC; congruence]. eapply FinInv_X; [exact H1|congruence].
    + eapply FinInv_Y; [exact H2|apply (proj1 (alive_flags _ _ FL))|exact PF|exact RN].
  - (* CRead *)
    apply (FInv_view ba bb c s) in H as [H1 H2].
    pose proof (wc_recv (recv_cap k) (tcb_of c s) n) as WC. pose proof (pf_recv (recv_cap k) (tcb_of c s) n) as PF.
    destruct (ur_recv (recv_cap k) (tcb_of c s) n) as [_ RN].
    pose proof (flags_tcb_recv (recv_cap k) (tcb_of c s) n) as FL.
    destruct (tcb_recv _ _ _) as [[t' r] u]. cbn [fst snd] in *. apply FInv_set_side.
    + apply FinInv_wire_add; [eapply FinInv_X; [exact H1|congruence]|].
      intros g Hin Ff. destruct u; [|destruct Hin]. rewrite (ack_of_nofin _ _ _ _ _ _ _ Hin) in Ff. discriminate.
    + apply FinInv_wire_add; [eapply FinInv_Y; [exact H2|apply (proj1 (alive_flags _ _ FL))|exact PF|exact RN]|].
      intros g Hin Ff. destruct u; [|destruct Hin]. rewrite (ack_of_nofin _ _ _ _ _ _ _ Hin) in Ff. discriminate.
  - (* CShutdown *)
    apply (FInv_view ba bb c s) in H as [H1 H2].
    pose proof (wc_shutdown (tcb_of c s)) as WC. pose proof (pf_shutdown (tcb_of c s)) as PF.
    destruct (ur_shutdown (tcb_of c s)) as [_ RN]. pose proof (flags_tcb_shutdown (tcb_of c s)) as FL.
    destruct (tcb_shutdown _) as [t' r]. cbn [fst] in *. apply FInv_set_side; rewrite app_nil_r.
    + eapply FinInv_X; [exact H1|exact WC].
    + eapply FinInv_Y; [exact H2|apply (proj1 (alive_flags _ _ FL))|exact PF|exact RN].
  - (* CSegment *)
    destruct (transmittable (tcb_of c s)) eqn:TR; [|exact H].
    assert (t_state (tcb_of c s) <> Closed) as NC.
    { unfold transmittable in TR. apply andb_prop in TR as [TR _]. intro E. rewrite E in TR. discriminate. }
    apply (FInv_view ba bb c s) in H as [H1 H2].
    apply (CInv_view ba bb c s) in CI. destruct CI as [V1 V2 V3 V4 V5 V6 V7 V8].
    pose proof (seg_loop_fins _ _ fuel mss (recv_cap k) nowhere _ V1 NC) as FS.
    pose proof (wc_seg_loop fuel mss (recv_cap k) nowhere (tcb_of c s)) as WC.
    pose proof (seg_loop_snd _ _ mss (recv_cap k) nowhere fuel _ V1 NC) as S.
    destruct (seg_loop _ _ _ _ _) as [t' ps]. cbn [fst snd] in *.
    destruct S as (_ & _ & _ & _ & S5 & S6 & S7). apply FInv_set_side.
    + apply FinInv_wire_add; [eapply FinInv_X; [exact H1|congruence]|].
      intros g Hin Ff. destruct (FS _ _ _ Hin Ff) as [A B]. split; [exact A|congruence].
    + apply FinInv_wire_add; [eapply FinInv_Y; [exact H2|apply S7|exact S6|exact S5]|].
      intros g Hin. apply pkt_segs_dst in Hin. exfalso. exact (other_neq _ (eq_sym Hin)).
  - (* CRetx *)
    apply (FInv_view ba bb c s) in H as [H1 H2].
    pose proof (wc_retx (retx_threshold k) (retx_max k) (tcb_of c s)) as WC.
    pose proof (pf_retx (retx_threshold k) (retx_max k) (tcb_of c s)) as PF.
    destruct (ur_retx (retx_threshold k) (retx_max k) (tcb_of c s)) as [_ RN].
    pose proof (flags_retx (retx_threshold k) (retx_max k) (tcb_of c s)) as FL.
    destruct (tcb_retx_tick _ _ _) as [t' a]. cbn [fst] in *. apply FInv_set_side; rewrite app_nil_r.
    + eapply FinInv_X; [exact H1|]. destruct a; cbn; congruence.
    + destruct a; try (eapply FinInv_Y; [exact H2|apply (proj1 (alive_flags _ _ FL))|exact PF|exact RN]).
      eapply FinInv_dead; [exact H2|apply not_alive_abort].
  - (* CDeliver *)
    destruct (nth_error (cwire c) i) as [[d g]|] eqn:NE; [|exact H].
    pose proof (nth_error_In _ _ NE) as Hin.
    destruct (proj1 (FInv_view ba bb c d) H) as [H1 H2]. clear H.
    destruct (f_rst g).
    { apply FInv_set_side; rewrite app_nil_r.
      - eapply FinInv_X; [exact H1|]. cbn. auto.
      - eapply FinInv_dead; [exact H2|apply not_alive_abort]. }
    assert (t_state (tcb_of c d) <> SynSent) as NS by (destruct CI as [_ _ _ _ _ _ N1 N2]; destruct d; assumption).
    pose proof (wc_on_conn (recv_cap k) (tcb_of c d) g) as WC.
    pose proof (on_conn_fin (recv_cap k) (tcb_of c d) g NS) as [OF1 OF2].
    pose proof (flags_tcb_on_conn (recv_cap k) (tcb_of c d) g) as FL.
    destruct (tcb_on_conn _ _ _) as [t' o]. cbn [fst] in *.
    assert (FinInv (base_of ba bb (other d)) (tcb_of c (other d)) t' (written c (other d)) d (cwire c)) as G2.
    { destruct H2 as [F1 F2]. split; [exact F1|]. intros Al Pf.
      assert (alive (tcb_of c d)) as Al0 by (apply (alive_flags _ _ FL), Al).
      destruct (peer_fin (tcb_of c d)) eqn:P0.
      - destruct (OF1 eq_refl) as [_ RN]. rewrite RN. apply F2; auto.
      - destruct (OF2 eq_refl Pf) as [Ff RN]. destruct (F1 g Hin Ff) as [A B]. split; [lia|exact B]. }
    apply FInv_set_side.
    + apply FinInv_wire_add; [eapply FinInv_X; [exact H1|congruence]|].
      intros g0 Hin0 Ff. exfalso.
      destruct o; [destruct Hin0|rewrite (ack_of_nofin _ _ _ _ _ _ _ Hin0) in Ff; discriminate
                  |rewrite (mk_ack_nofin _ _ _ _ _ _ _ _ Hin0) in Ff; discriminate|destruct Hin0].
    + apply FinInv_wire_add; [exact G2|].
      intros g0 Hin0 Ff. exfalso.
      destruct o; [destruct Hin0|rewrite (ack_of_nofin _ _ _ _ _ _ _ Hin0) in Ff; discriminate
                  |rewrite (mk_ack_nofin _ _ _ _ _ _ _ _ Hin0) in Ff; discriminate|destruct Hin0].
  - (* CDrop *)
    destruct H as [A B]. split; cbn.
    + eapply FinInv_wire_sub; [exact A|]. intros x. apply remove_nth_incl.
    + eapply FinInv_wire_sub; [exact B|]. intros x. apply remove_nth_incl.
  - (* CInject *)
    destruct (is_nil (payload g) && negb (f_fin g)) eqn:C; [|exact H].
    apply andb_prop in C as [_ C]. apply Bool.negb_true_iff in C.
    destruct H as [A B]. split; cbn.
    + apply FinInv_wire_add; [exact A|]. intros g' [E|[]] Ff. inversion E; subst. congruence.
    + apply FinInv_wire_add; [exact B|]. intros g' [E|[]] Ff. inversion E; subst. congruence.
Qed.

Lemma sync_finv c : sync c -> (forall d g, In (d, g) (cwire c) -> f_fin g = false) ->
  FInv (snd_una (ta c)) (snd_una (tb c)) c.
Proof.
  intros ((_ & _ & _ & _ & _ & _ & _ & PA) & (_ & _ & _ & _ & _ & _ & _ & PB) & _) NF. split; split.
  - intros g Hin Ff. rewrite (NF _ _ Hin) in Ff. discriminate.
  - intros _ Pf. congruence.
  - intros g Hin Ff. rewrite (NF _ _ Hin) in Ff. discriminate.
  - intros _ Pf. congruence.
Qed.

Lemma crun_all k ba bb es c :
  CInv ba bb c -> FInv ba bb c -> CInv ba bb (crun k c es) /\ FInv ba bb (crun k c es).
Proof.
  unfold crun. revert c. induction es as [|e es IH]; intros c CI FI; cbn [fold_left]; [split; assumption|].
  apply IH; [apply cstep_inv, CI|apply cstep_finv; assumption].
Qed.

(* EOF never truncates: once Y has seen X's FIN, Y holds or has read all of W. *)
Lemma eof_after_all_dir b X Y W R toY wire :
  RcvInv b Y W R -> FinInv b X Y W toY wire -> alive Y -> peer_fin Y = true -> R ++ recv_buf Y = W.
Proof.
  intros Rv [_ F2] AY PF. destruct (ri_buf _ _ _ _ Rv AY) as (d & D1 & D2 & D3).
  destruct (F2 AY PF) as [E _]. rewrite PF in D1. rewrite D3. apply takeN_all. lia.
Qed.

(* What X had acknowledged, Y has received: with both sides alive, an empty
   send buffer on X with nothing in flight means Y holds or has read ALL of
   W; and an acknowledged FIN means Y has seen the FIN (EOF follows the data). *)
Lemma acked_delivered_dir b X Y W R toX toY wire :
  SndInv b X W -> RcvInv b Y W R -> AckInv X Y toX wire -> FinInv b X Y W toY wire -> alive X -> alive Y ->
  send_buf X = [] -> snd_nxt X = snd_una X ->
  R ++ recv_buf Y = W /\
  (forall fs, fin_seq X = Some fs -> snd_una X = fs + 1 -> peer_fin Y = true).
Proof.
  intros S Rv [A _] FI AX AY SB NF.
  destruct (peer_fin Y) eqn:PF.
  { split; [eapply eof_after_all_dir; eassumption|auto]. }
  destruct (ri_buf _ _ _ _ Rv AY) as (d & D1 & D2 & D3). rewrite PF in D1.
  pose proof (si_buf _ _ _ S AX) as Hs. rewrite SB in Hs.
  pose proof (si_base _ _ _ S) as Hb.
  assert (len W <= snd_una X - b) as HL.
  { assert (len (dropN (snd_una X - b) W) = 0) as Z by (rewrite <- Hs; reflexivity). rewrite len_dropN in Z. lia. }
  split; [rewrite D3; apply takeN_all; lia|].
  intros fs F E. destruct (si_some _ _ _ S AX fs F) as (Q1 & Q2 & Q3). lia.
Qed.

(* ------------------------------------------------------------------ *)
(* Connection-level corollaries                                        *)

Lemma sync_all c :
  sync c -> (forall d g, In (d, g) (cwire c) -> f_ack g = false /\ f_fin g = false) ->
  CInv (snd_una (ta c)) (snd_una (tb c)) c /\ AInv c /\ FInv (snd_una (ta c)) (snd_una (tb c)) c.
Proof.
  intros S H. split; [apply sync_inv, S|]. split.
  - apply sync_ainv; [exact S|]. intros d g Hin. apply (H d g Hin).
  - apply sync_finv; [exact S|]. intros d g Hin. apply (H d g Hin).
Qed.

Lemma crun_three k ba bb es c :
  CInv ba bb c -> AInv c -> FInv ba bb c -> Forall no_inject es ->
  CInv ba bb (crun k c es) /\ AInv (crun k c es) /\ FInv ba bb (crun k c es).
Proof.
  unfold crun. revert c. induction es as [|e es IH]; intros c CI AI FI NI; cbn [fold_left]; [auto|].
  inversion NI; subst. apply IH; [apply cstep_inv, CI|eapply cstep_ainv; eassumption|apply cstep_finv; assumption|assumption].
Qed.

(* EOF never truncates (holds even with injected control segments). *)
Lemma eof_after_all_lemma k c es :
  sync c -> (forall d g, In (d, g) (cwire c) -> f_fin g = false) ->
  let c' := crun k c es in
  (alive (tb c') -> peer_fin (tb c') = true -> rb c' ++ recv_buf (tb c') = wa c') /\
  (alive (ta c') -> peer_fin (ta c') = true -> ra c' ++ recv_buf (ta c') = wb c').
Proof.
  intros S NF. destruct (crun_all k _ _ es c (sync_inv c S) (sync_finv c S NF)) as [CI [FA FB]].
  destruct CI as [H1 H2 H3 H4 H5 H6 H7 H8]. split; intros Al Pf.
  - eapply eof_after_all_dir; eassumption. - eapply eof_after_all_dir; eassumption.
Qed.

(* Acknowledged => delivered, both directions, for runs without injected segments. *)
Lemma acked_delivered_lemma k c es :
  sync c -> cwire c = [] -> Forall no_inject es ->
  let c' := crun k c es in
  alive (ta c') -> alive (tb c') ->
  (send_buf (ta c') = [] -> snd_nxt (ta c') = snd_una (ta c') ->
     rb c' ++ recv_buf (tb c') = wa c' /\
     (forall fs, fin_seq (ta c') = Some fs -> snd_una (ta c') = fs + 1 -> peer_fin (tb c') = true)) /\
  (send_buf (tb c') = [] -> snd_nxt (tb c') = snd_una (tb c') ->
     ra c' ++ recv_buf (ta c') = wb c' /\
     (forall fs, fin_seq (tb c') = Some fs -> snd_una (tb c') = fs + 1 -> peer_fin (ta c') = true)).
Proof.
  intros S WE NI c' AA AB.
  assert (forall d g, In (d, g) (cwire c) -> f_ack g = false /\ f_fin g = false) as NW by (rewrite WE; intros d g []).
  destruct (sync_all c S NW) as (CI & AI & FI).
  destruct (crun_three k _ _ es c CI AI FI NI) as (CI' & [A1 A2] & [F1 F2]). fold c' in CI', A1, A2, F1, F2.
  destruct CI' as [H1 H2 H3 H4 H5 H6 H7 H8]. split; intros SB NF.
  - eapply acked_delivered_dir; eassumption. - eapply acked_delivered_dir; eassumption.
Qed.

(* ---- progress: a sender that may send does send ---- *)
Lemma seg_step_progress mss rc l t :
  1 <= mss -> snd_una t <= snd_nxt t ->
  snd_nxt t - snd_una t < len (send_buf t) -> snd_nxt t - snd_una t < snd_wnd t ->
  exists t' p g, seg_step mss rc l t = Some (t', p) /\ body p = Tcp g /\ 1 <= len (payload g) /\ snd_nxt t < snd_nxt t'.
Proof.
  intros M U A B. unfold seg_step.
  assert ((0 <? len (send_buf t) - (snd_nxt t - snd_una t)) && (0 <? snd_wnd t - (snd_nxt t - snd_una t)) = true) as C.
  { apply andb_true_intro; split; apply N.ltb_lt; lia. }
  rewrite C. eexists. eexists. eexists. split; [reflexivity|]. unfold mk_data. cbn [body]. split; [reflexivity|].
  cbn [payload]. rewrite len_takeN, len_dropN. proj. split; lia.
Qed.

Lemma fin_step_progress mss rc l t fs :
  fin_seq t = Some fs -> snd_nxt t = fs -> len (send_buf t) <= snd_nxt t - snd_una t -> snd_nxt t - snd_una t < snd_wnd t ->
  exists t' p g, seg_step mss rc l t = Some (t', p) /\ body p = Tcp g /\ f_fin g = true.
Proof.
  intros F E A B. unfold seg_step.
  assert ((0 <? len (send_buf t) - (snd_nxt t - snd_una t)) = false) as C1 by (apply N.ltb_ge; lia).
  rewrite C1, F. cbn [andb]. rewrite (proj2 (N.eqb_eq _ _) E). cbn [andb].
  assert ((0 <? snd_wnd t - (snd_nxt t - snd_una t)) = true) as C2 by (apply N.ltb_lt; lia). rewrite C2.
  eexists. eexists. eexists. split; [reflexivity|]. cbn. split; reflexivity.
Qed.

(* ---- the zero-window stall (known finding L2/L3) ---- *)
Definition idle_rx (t : tcb) : Prop := recv_buf t = [] /\ peer_fin t = false /\ readable_state (t_state t) = true.

Definition zero_window_stall (c : conn) : Prop :=
  cwire c = [] /\ alive (ta c) /\ alive (tb c) /\
  snd_nxt (ta c) = snd_una (ta c) /\ send_buf (ta c) <> [] /\ snd_wnd (ta c) = 0 /\
  t_state (ta c) = Established /\ fin_seq (ta c) = None /\
  snd_nxt (tb c) = snd_una (tb c) /\ send_buf (tb c) = [] /\ fin_seq (tb c) = None /\ t_state (tb c) = Established /\
  idle_rx (ta c) /\ idle_rx (tb c).

Definition env_event (e : cev) : Prop :=
  match e with CWrite _ _ | CShutdown _ | CInject _ _ => False | _ => True end.

Lemma alive_abort_none t : alive t -> abort_error t = None.
Proof. apply abort_error_none. Qed.

Lemma seg_loop_none fuel mss rc l t : seg_step mss rc l t = None -> seg_loop fuel mss rc l t = (t, []).
Proof. intros E. destruct fuel; cbn; [reflexivity|]. rewrite E. reflexivity. Qed.

(* Nothing the network, the timers or the readers can do changes a stalled state: it is a deadlock. *)
Lemma stall_is_stuck k c e : zero_window_stall c -> env_event e -> cstep k c e = c.
Proof.
  intros (W & AA & AB & NA & SA_ & WA & STA & FA & NB & SBb & FB & STB & (RA1 & RA2 & RA3) & (RB1 & RB2 & RB3)) EV.
  destruct c as [tA tB wire wa_ wb_ ra_ rb_]. cbn in *. subst wire.
  assert (forall t n cap, alive t -> recv_buf t = [] -> peer_fin t = false -> readable_state (t_state t) = true ->
                          tcb_recv cap t n = (t, Pending, false)) as RCV.
  { intros t n cap Al E1 E2 E3. unfold tcb_recv. rewrite (alive_abort_none _ Al), E1, E2, E3. reflexivity. }
  assert (forall t th mx, t_state t = Established -> snd_nxt t = snd_una t -> tcb_retx_tick th mx t = (t, RNone)) as RTX.
  { intros t th mx E1 E2. unfold tcb_retx_tick, retx_candidate. rewrite E1, E2, N.eqb_refl. reflexivity. }
  destruct e; cbn [cstep env_event] in *; try contradiction.
  - destruct s; cbn [tcb_of ta tb written readb wa wb ra rb cwire]; [rewrite (RCV tA n _ AA RA1 RA2 RA3)|rewrite (RCV tB n _ AB RB1 RB2 RB3)];
      cbn; rewrite ?app_nil_r; reflexivity.
  - destruct s; cbn [tcb_of ta tb written readb wa wb ra rb cwire].
    + assert (transmittable tA = true) as TR.
      { unfold transmittable. rewrite STA, NA, N.sub_diag. cbn.
        destruct (send_buf tA); [contradiction|]. reflexivity. }
      rewrite TR. rewrite seg_loop_none; [cbn; rewrite ?app_nil_r; reflexivity|].
      unfold seg_step. rewrite NA, N.sub_diag, WA, FA. cbn. rewrite Bool.andb_false_r. reflexivity.
    + assert (transmittable tB = false) as TR.
      { unfold transmittable. rewrite STB, NB, N.sub_diag, SBb, FB. reflexivity. }
      rewrite TR. reflexivity.
  - destruct s; cbn [tcb_of ta tb written readb wa wb ra rb cwire]; [rewrite (RTX tA _ _ STA NA)|rewrite (RTX tB _ _ STB NB)]; cbn; rewrite ?app_nil_r; reflexivity.
  - destruct i; reflexivity.
  - destruct i; reflexivity.
Qed.

Lemma stall_forever k c es : zero_window_stall c -> Forall env_event es -> crun k c es = c.
Proof.
  intros S. unfold crun. induction es as [|e es IH]; intros F; cbn [fold_left]; [reflexivity|].
  inversion F; subst. rewrite (stall_is_stuck k c e S H1). apply IH, H2.
Qed.

(* ---- retransmit counters: what can and cannot lead to TimedOut ---- *)
Lemma ack_progress_resets t s :
  f_ack s = true -> snd_una t < ackn s -> ackn s <= snd_nxt t ->
  esa (tcb_ack t s) = 0 /\ retx (tcb_ack t s) = 0 /\ snd_una (tcb_ack t s) = ackn s.
Proof.
  intros F A B. unfold tcb_ack. rewrite F.
  rewrite (proj2 (N.ltb_lt _ _) A), (proj2 (N.leb_le _ _) B). cbn. repeat split.
Qed.

Lemma handshake_resets cap t s o :
  handshake_state (t_state t) = true -> snd (tcb_on_conn cap t s) = o -> o <> ONone ->
  esa (fst (tcb_on_conn cap t s)) = 0 /\ retx (fst (tcb_on_conn cap t s)) = 0 /\
  t_state (fst (tcb_on_conn cap t s)) = Established.
Proof.
  intros HS E NO. unfold tcb_on_conn in *. destruct (t_state t); try discriminate.
  - destruct (_ && _); cbn in *; [repeat split|congruence].
  - destruct (_ && _); cbn in *; [|congruence]. destruct (negb _); cbn in *; [congruence|repeat split].
Qed.

Lemma retx_tick_counts th mx t :
  let r := tcb_retx_tick th mx t in
  (snd r = RRewind \/ snd r = RResend -> retx (fst r) = retx t + 1 /\ esa (fst r) = 0 /\ retx t < mx /\ th <= esa t + 1) /\
  (snd r = RNone -> retx (fst r) = retx t).
Proof.
  unfold tcb_retx_tick. destruct (retx_candidate t); [|cbn; split; [intros [H|H]; discriminate|reflexivity]].
  destruct (esa t + 1 <? th) eqn:E1; [cbn; split; [intros [H|H]; discriminate|reflexivity]|].
  destruct (mx <=? retx t) eqn:E2; [cbn; split; [intros [H|H]; discriminate|discriminate]|].
  apply N.ltb_ge in E1. apply N.leb_gt in E2.
  destruct (handshake_state _); cbn; (split; [intros _; repeat split; assumption|discriminate]).
Qed.

(* ---- link to the kernel: inbound segments go through tcb_on_conn ---- *)
Lemma lookup_upd_exists l fd fd' g x : lookup_s l fd = Some x -> exists y, lookup_s (upd_s l fd' g) fd = Some y.
Proof.
  induction l as [|[f z] l IH]; cbn; [discriminate|].
  destruct (f =? fd') eqn:E1; cbn; destruct (f =? fd) eqn:E2; eauto.
Qed.

Lemma kernel_deliver_uses_tcb_on_conn k fd l r s so t :
  f_rst s = false -> lookup k fd = Some so -> s_tcb so = Some t ->
  exists so', lookup (handle_on_connection k fd l r s) fd = Some so' /\
              (snd (tcb_on_conn (recv_cap (cfg k)) t s) <> OPush ->
               s_tcb so' = Some (fst (tcb_on_conn (recv_cap (cfg k)) t s))).
Proof.
  intros NR L T. unfold handle_on_connection. rewrite NR, L, T.
  destruct (tcb_on_conn (recv_cap (cfg k)) t s) as [t' o]. cbn [fst snd].
  assert (lookup (upd_tcb k fd t') fd = Some (set_tcb so (Some t'))) as LU.
  { unfold lookup, upd_tcb, upd_sock, set_socks; cbn [socks].
    exact (C16_proofs.lookup_upd_same _ _ (fun s0 => set_tcb s0 (Some t')) _ L). }
  destruct o.
  - exists (set_tcb so (Some t')). split; [exact LU|reflexivity].
  - exists (set_tcb so (Some t')). split; [exact LU|reflexivity].
  - exists (set_tcb so (Some t')). split; [exact LU|reflexivity].
  - unfold push_to_listener. destruct (find_listener _ _) as [lfd|].
    + unfold lookup, upd_sock, set_socks in *; cbn [socks] in *.
      destruct (lookup_s (socks (upd_tcb k fd t')) fd) as [x|] eqn:LX; [|discriminate].
      destruct (lookup_upd_exists _ fd lfd (fun s0 => match s_listen s0 with
                  | Some l0 => set_listen s0 (Some (mklisten (backlog l0) (ready l0 ++ [fd]))) | None => s0 end) _ LX) as [y Hy].
      exists y. split; [exact Hy|intros C; exfalso; apply C; reflexivity].
    + exists (set_tcb so (Some t')). split; [exact LU|reflexivity].
Qed.
